#!/bin/sh
# Build step after a fresh restore (offline): regenerate the unrolled ring product, parse every spec module.
cd "$(dirname "$0")" || exit 2
python3 tools/gen_unrolled.py spec/alg/CycloUnrolled.tla || exit 2
LIB=$(pwd)/spec/alg:$(pwd)/spec/ir:$(pwd)/spec/sys:$(pwd)/spec/trace:$(pwd)/spec/gen
rc=0
for f in spec/*/*.tla; do
  d=$(dirname "$f")
  ( cd "$d" && java -cp /opt/veriftools/tla/tla2tools.jar:/opt/veriftools/tla/CommunityModules-deps.jar -DTLA-Library="$LIB" tla2sany.SANY "$(basename "$f")" > /tmp/sany.$$ 2>&1 ) 
  if grep -q -E "Fatal errors|\*\*\* Errors|Could not parse|Semantic errors" /tmp/sany.$$; then echo "SANY FAILED: $f"; tail -5 /tmp/sany.$$; rc=2; fi
done
rm -f /tmp/sany.$$
mkdir -p evidence replays .work
[ $rc -eq 0 ] && echo "setup ok"
exit $rc
