#!/bin/sh
# Build step after a fresh restore (offline): regenerate the unrolled ring product, parse every spec module (8 at a time).
cd "$(dirname "$0")" || exit 2
python3 tools/gen_unrolled.py spec/alg/CycloUnrolled.tla || exit 2
LIB=$(pwd)/spec/alg:$(pwd)/spec/ir:$(pwd)/spec/sys:$(pwd)/spec/trace:$(pwd)/spec/gen
export LIB
LOG=$(mktemp)
ls spec/*/*.tla | xargs -P 8 -I{} sh -c '
  f="{}"; d=$(dirname "$f"); out=$(mktemp)
  ( cd "$d" && java -cp /opt/veriftools/tla/tla2tools.jar:/opt/veriftools/tla/CommunityModules-deps.jar -DTLA-Library="$LIB" tla2sany.SANY "$(basename "$f")" > "$out" 2>&1 )
  if grep -q -E "Fatal errors|\*\*\* Errors|Could not parse|Semantic errors" "$out"; then echo "SANY FAILED: $f"; tail -5 "$out"; fi
  rm -f "$out"' > "$LOG" 2>&1
rc=0
if [ -s "$LOG" ]; then cat "$LOG"; grep -q "SANY FAILED" "$LOG" && rc=2; fi
rm -f "$LOG"
mkdir -p evidence replays .work
[ $rc -eq 0 ] && echo "setup ok"
exit $rc
