------------------------------- MODULE LieAlg -------------------------------
(***************************************************************************)
(* C55: exact Lie-algebra notions over Pauli sentences (pure operators on  *)
(* top of PauliAlg).  Algebra elements are written as in PennyLane: an     *)
(* element i*H of su(2^n) is represented by the HERMITIAN operator H, a    *)
(* REAL sentence (all coefficients real dyadics).                          *)
(*                                                                         *)
(*  IBracket(a, b)  = i [a, b]  (real for real a, b): the Hermitian        *)
(*      representative of the commutator, [i a, i b] = i * IBracket(a, b). *)
(*      Computed word by word: [u, v] = 2 u v for anticommuting words and  *)
(*      0 otherwise (LieAlgModel checks it against PauliAlg's              *)
(*      SCommutator, which C51 ties to matrix algebra).                    *)
(*  linear algebra over the rationals by fraction-free Gaussian            *)
(*      elimination on sparse coefficient vectors: an ECHELON is a         *)
(*      sequence of rows [p |-> pivot word, r |-> sentence] such that row  *)
(*      j has coefficient 0 at the pivots of all rows before it.           *)
(*      Reduce(v, rows) eliminates the pivots in order; v is in the span   *)
(*      iff the remainder is the zero sentence.  Vectors are replaced by   *)
(*      their primitive integer multiple (SPrim) to keep numbers small (a  *)
(*      scalar multiple has the same span membership); products are        *)
(*      guarded against the 32-bit bound of TLC (marker OVF).              *)
(*  involutions: every documented Cartan involution theta maps a Pauli     *)
(*      word to +- itself; ThetaSign gives the sign on the algebra element *)
(*      i*P, derived from the documented definitions (x -> x^*, Q x Q,     *)
(*      Q x^* Q, -x^T) with conj(P) = P^T = (-1)^{#Y} P and Q P Q = +-P.   *)
(***************************************************************************)
EXTENDS PauliAlg

LAbs(x) == IF x < 0 THEN -x ELSE x
RECURSIVE LGcd(_, _)
LGcd(a, b) == IF b = 0 THEN a ELSE LGcd(b, a % b)
RECURSIVE LGcdSet(_)
LGcdSet(S) == IF S = {} THEN 0 ELSE LET x == CHOOSE y \in S : TRUE IN LGcd(x, LGcdSet(S \ {x}))
LLcm(a, b) == (a \div LGcd(a, b)) * b

SIsReal(s) == \A w \in DOMAIN s : s[w][2] = 0
SIsZero(s) == DOMAIN s = {}
\* primitive integer multiple of a non-zero real sentence
SPrimV(s) == IF DOMAIN s = {} THEN s ELSE
   Bind(CHOOSE k \in {s[w][3] : w \in DOMAIN s} : \A w \in DOMAIN s : s[w][3] <= k, LAMBDA K :
   Bind(TLCEval([w \in DOMAIN s |-> s[w][1] * 2^(K - s[w][3])]), LAMBDA num :
   Bind(LGcdSet({LAbs(num[w]) : w \in DOMAIN s}), LAMBDA g :
        TLCEval([w \in DOMAIN s |-> <<num[w] \div g, 0, 0>>]))))
SPrim(ss) == Bind(ss, LAMBDA s : SPrimV(s))

\* ----------------------------------------------------------------- bracket
\* i [a, b] for real sentences a, b
IBracket(aa, bb) == Bind2(aa, bb, LAMBDA a, b :
   \* candidate result words: letterwise products of the anticommuting pairs (u, v)
   Bind(TLCEval({PWMul(q[1], q[2]).w : q \in {t \in (DOMAIN a) \X (DOMAIN b) : PAnticommutes(t[1], t[2])}}), LAMBDA W :
   SNorm([w \in W |->
      \* for a fixed u the partner with u*v ~ w is v = u*w (letterwise)
      LET us == PSetToSeq({u \in DOMAIN a : LET v == PWMul(u, w).w IN v \in DOMAIN b /\ PAnticommutes(u, v)})
          A[k \in 0..Len(us)] == IF k = 0 THEN GdZero ELSE
              LET u == us[k]  v == PWMul(u, w).w  p == PWMul(u, v).p       \* u v = i^p w, p odd; i [u, v] = 2 i^(p+1) w
              IN GdAdd(A[k-1], GdMul(GdInt(IF p = 1 THEN -2 ELSE 2), GdMul(a[u], b[v])))
      IN A[Len(us)]])))

\* trace inner product tr(a b)/2^n of real sentences
TrProd(a, b) == LET ws == PSetToSeq((DOMAIN a) \cap (DOMAIN b))
                    A[k \in 0..Len(ws)] == IF k = 0 THEN GdZero ELSE GdAdd(A[k-1], GdMul(a[ws[k]], b[ws[k]]))
                IN A[Len(ws)]
Orthogonal(es) == \A x, y \in DOMAIN es : x < y => GdIsZero(TrProd(es[x], es[y]))

\* ----------------------------------------------------------------- echelon
\* All vectors handled by the elimination are PRIMITIVE INTEGER vectors (SPrim).  TLC integers are 32 bit and an
\* overflow aborts the run, so every multiplication is guarded: when a product could exceed LIM the result is the
\* marker OVF (a value no sentence can have: its only key is the empty word) and the caller reports
\* "skip-arithmetic-bound" instead of a verdict.
OVF == [w \in {<<>>} |-> <<0, 0, 0>>]
SIsOvf(s) == <<>> \in DOMAIN s
LIM == 536870912
SMaxAbs(s) == IF DOMAIN s = {} THEN 0 ELSE LET S == {LAbs(s[w][1]) : w \in DOMAIN s} IN CHOOSE m \in S : \A x \in S : x <= m
ReduceBy(v, row) == IF SIsOvf(v) \/ row.p \notin DOMAIN v THEN v ELSE
   Bind2(row.r[row.p][1], v[row.p][1], LAMBDA a, b :
      IF SMaxAbs(v) > LIM \div LAbs(a) \/ SMaxAbs(row.r) > LIM \div LAbs(b) THEN OVF
      ELSE SPrim(SSub(SScale(GdInt(a), v), SScale(GdInt(b), row.r))))
RECURSIVE ReduceFrom(_, _, _)
ReduceFrom(v, rows, j) == IF j > Len(rows) \/ DOMAIN v = {} \/ SIsOvf(v) THEN v
                          ELSE Bind(ReduceBy(v, rows[j]), LAMBDA u : ReduceFrom(u, rows, j + 1))
\* remainder of vv after eliminating the pivots of rows in order: zero sentence <=> vv in span(rows); OVF = undecided
Reduce(vv, rows) == Bind(SPrim(vv), LAMBDA v : ReduceFrom(v, rows, 1))
InSpan(v, rows) == SIsZero(Reduce(v, rows))                 \* use only where OVF has been excluded
\* "ovf" | "zero" (all remainders zero) | "nonzero"
Outcome(S) == IF \E u \in S : SIsOvf(u) THEN "ovf" ELSE IF \A u \in S : SIsZero(u) THEN "zero" ELSE "nonzero"
MkRow(u) == [p |-> CHOOSE w \in DOMAIN u : \A x \in DOMAIN u : PWordIdx(w) <= PWordIdx(x), r |-> u]
\* insert v: the new echelon, whether v was independent, whether the arithmetic bound was hit
Insert(rows, vv) == Bind(Reduce(vv, rows), LAMBDA u :
   IF SIsOvf(u) THEN [rows |-> rows, indep |-> FALSE, ovf |-> TRUE]
   ELSE IF SIsZero(u) THEN [rows |-> rows, indep |-> FALSE, ovf |-> FALSE]
   ELSE [rows |-> Append(rows, MkRow(u)), indep |-> TRUE, ovf |-> FALSE])
RECURSIVE EchelonFrom(_, _, _)
EchelonFrom(es, rows, j) == IF j > Len(es) THEN rows ELSE Bind(Insert(rows, es[j]), LAMBDA r : IF r.ovf THEN <<[p |-> <<>>, r |-> OVF]>> ELSE EchelonFrom(es, r.rows, j + 1))
EchelonOf(es) == EchelonFrom(es, <<>>, 1)
EchelonOvf(rows) == \E x \in DOMAIN rows : SIsOvf(rows[x].r)
EchelonOK(rows) == \A x, y \in DOMAIN rows : x < y => rows[x].p \notin DOMAIN rows[y].r

\* ------------------------------------------------------------- involutions
NumY(w) == Cardinality({j \in DOMAIN w : w[j] = 2})
ConjSign(w) == IF NumY(w) % 2 = 0 THEN 1 ELSE -1                   \* conj(P) = P^T = ConjSign(P) P
WordAt(n, pos, l) == [j \in 1..n |-> IF j = pos THEN l ELSE 0]      \* pos = 0: a wire outside the word (identity)
AdSign(q, w) == IF PCommutes(q, w) THEN 1 ELSE -1                   \* Q P Q = AdSign(Q, P) P
InvKinds == {"AI", "AII", "AIII", "BDI", "CI", "CII", "DIII", "A", "BD", "C", "even_odd", "concurrence"}
WiredKinds == {"AII", "AIII", "BDI", "CII", "DIII", "A", "BD", "C"}
\* A, BD, C are documented as the swap x (+) y -> y (+) x of two block-diagonal components: defined on block-diagonal
\* operators only (letter I or Z at the distinguished wire), where the swap is conjugation with X at that wire
SwapKinds == {"A", "BD", "C"}
InDomain(kind, pos, w) == kind \in SwapKinds => (pos \in 1..Len(w) /\ w[pos] \in {0, 3})
\* eigenvalue of the involution on the algebra element i*P (P a word); `pos` the position of the distinguished wire
ThetaSign(kind, pos, w) == LET n == Len(w) IN
   CASE kind \in {"AI", "CI"} -> -ConjSign(w)                                        \* x -> x^*        : (iP)^* = -i conj(P)
     [] kind = "AII" -> -ConjSign(w) * AdSign(WordAt(n, pos, 2), w)                  \* x -> Y x^* Y
     [] kind \in {"AIII", "BDI", "CII"} -> AdSign(WordAt(n, pos, 3), w)              \* x -> Z x Z      (p = q = 2^(n-1))
     [] kind = "DIII" -> AdSign(WordAt(n, pos, 2), w)                                \* x -> Y x Y
     [] kind \in {"A", "BD", "C"} -> AdSign(WordAt(n, pos, 1), w)                    \* swap of the two blocks = X x X (on its domain)
     [] kind = "concurrence" -> -ConjSign(w)                                         \* x -> -x^T       : odd number of Y -> +1
     [] kind = "even_odd" -> IF PWeight(w) % 2 = 1 THEN 1 ELSE -1                    \* odd number of non-identity letters -> +1
ThetaS(kind, pos, s) == SNorm([w \in DOMAIN s |-> GdMul(GdInt(ThetaSign(kind, pos, w)), s[w])])
\* +1 / -1 when the real sentence s is an eigenvector of theta, 0 otherwise
EigSign(kind, pos, s) == IF \A w \in DOMAIN s : ThetaSign(kind, pos, w) = 1 THEN 1
                         ELSE IF \A w \in DOMAIN s : ThetaSign(kind, pos, w) = -1 THEN -1 ELSE 0
=============================================================================
