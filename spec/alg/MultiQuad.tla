------------------------------ MODULE MultiQuad ------------------------------
(***************************************************************************)
(* Exact arithmetic in the multiquadratic field Q(sqrt2, sqrt3, sqrt5,     *)
(* sqrt7) (C54: truncated boson ladder matrices, b|n> = sqrt(n)|n-1>,      *)
(* n <= 10, are exact here).                                               *)
(*                                                                         *)
(* The field has the Q-basis { sqrt(prod S) : S \subseteq {2,3,5,7} }.     *)
(* An element is a SPARSE function  S |-> rational <<n,d>>  whose domain   *)
(* holds exactly the basis elements with a non-zero coefficient (normal    *)
(* form: equality of field elements is equality of TLA+ values; zero is    *)
(* the empty function).  Multiplication of basis elements:                 *)
(*      sqrt S * sqrt T = prod(S \cap T) * sqrt(S symdiff T).              *)
(* MQSqrt(n) = s sqrt(prod S) for THE pair (s, S) with s^2 prod(S) = n     *)
(* (MQSqrtUnique); MQLaws is model-checked by spec/gen/BoseMapGen.tla.     *)
(***************************************************************************)
EXTENDS Rat, FiniteSets, TLC

MQPrimes == {2, 3, 5, 7}
MQBasis == SUBSET MQPrimes
RECURSIVE MQSetProd(_)
MQSetProd(S) == IF S = {} THEN 1 ELSE LET p == CHOOSE x \in S : TRUE IN p * MQSetProd(S \ {p})
MQSymD(S, T) == (S \ T) \cup (T \ S)
\* a stable numbering of the basis (used for printing): bit 0 <-> 2, bit 1 <-> 3, bit 2 <-> 5, bit 3 <-> 7
MQMask(S) == (IF 2 \in S THEN 1 ELSE 0) + (IF 3 \in S THEN 2 ELSE 0) + (IF 5 \in S THEN 4 ELSE 0) + (IF 7 \in S THEN 8 ELSE 0)

\* MQBind(v, F): F(v) with v evaluated ONCE (TLC re-evaluates lazily passed arguments at every use otherwise)
MQBind(v, F(_)) == CHOOSE r \in {F(t) : t \in {v}} : TRUE
MQBind2(v, w, F(_, _)) == CHOOSE r \in {F(t[1], t[2]) : t \in {<<v, w>>}} : TRUE

MQZero == [S \in {} |-> RZero]
MQNorm(ff) == MQBind(TLCEval(ff), LAMBDA f : TLCEval([S \in {T \in DOMAIN f : ~RIsZero(f[T])} |-> f[S]]))
MQCoef(x, S) == IF S \in DOMAIN x THEN x[S] ELSE RZero
MQMono(q, S) == IF RIsZero(q) THEN MQZero ELSE [T \in {S} |-> q]
MQRat(q) == MQMono(q, {})
MQInt(k) == MQRat(RInt(k))
MQOne == MQInt(1)
MQIsZero(x) == DOMAIN x = {}
IsMQ(x) == DOMAIN x \subseteq MQBasis /\ \A S \in DOMAIN x : IsRat(x[S]) /\ ~RIsZero(x[S])

MQAdd(x, y) == IF DOMAIN x = {} THEN y ELSE IF DOMAIN y = {} THEN x
               ELSE MQNorm([S \in DOMAIN x \cup DOMAIN y |-> RAdd(MQCoef(x, S), MQCoef(y, S))])
MQNeg(x) == [S \in DOMAIN x |-> RNeg(x[S])]
MQSub(x, y) == MQAdd(x, MQNeg(y))
MQScale(q, x) == IF RIsZero(q) THEN MQZero ELSE [S \in DOMAIN x |-> RMul(q, x[S])]

\* sum over the pairs (S, T) in P of x[S] y[T] prod(S \cap T)   (all pairs of P have the same S symdiff T)
RECURSIVE MQPairSum(_, _, _)
MQPairSum(x, y, P) ==
  IF P = {} THEN RZero
  ELSE LET pr == CHOOSE q \in P : TRUE IN
       RAdd(RMul(RMul(x[pr[1]], y[pr[2]]), RInt(MQSetProd(pr[1] \cap pr[2]))), MQPairSum(x, y, P \ {pr}))
MQMulGen(x, y) ==
  LET pairs == (DOMAIN x) \X (DOMAIN y)
      targets == {MQSymD(pr[1], pr[2]) : pr \in pairs} IN
  MQNorm([U \in targets |-> MQPairSum(x, y, {pr \in pairs : MQSymD(pr[1], pr[2]) = U})])
MQMul(xx, yy) == MQBind2(xx, yy, LAMBDA x, y :
  IF DOMAIN x = {} \/ DOMAIN y = {} THEN MQZero
  ELSE IF Cardinality(DOMAIN x) = 1 /\ Cardinality(DOMAIN y) = 1        \* monomials (the common case): one basis product
  THEN LET S == CHOOSE U \in DOMAIN x : TRUE  T == CHOOSE U \in DOMAIN y : TRUE IN
       [U \in {MQSymD(S, T)} |-> RMul(RMul(x[S], y[T]), RInt(MQSetProd(S \cap T)))]
  ELSE MQMulGen(x, y))

\* the non-negative square root of an integer n >= 0 whose square-free part has its primes in {2,3,5,7}
\* n = s^2 prod(S): S holds the primes of odd multiplicity, s the product of p^(multiplicity div 2)
RECURSIVE MQMult(_, _)
MQMult(p, n) == IF n % p = 0 THEN 1 + MQMult(p, n \div p) ELSE 0                  \* n >= 1
MQOddPart(n) == {p \in MQPrimes : MQMult(p, n) % 2 = 1}
RECURSIVE MQPow(_, _)
MQPow(b, e) == IF e = 0 THEN 1 ELSE b * MQPow(b, e - 1)
MQSquarePart(n) == MQPow(2, MQMult(2, n) \div 2) * MQPow(3, MQMult(3, n) \div 2) * MQPow(5, MQMult(5, n) \div 2) * MQPow(7, MQMult(7, n) \div 2)
MQHasSqrt(n) == n = 0 \/ MQSquarePart(n) * MQSquarePart(n) * MQSetProd(MQOddPart(n)) = n
MQSqrtDef(n) == IF n = 0 THEN MQZero ELSE MQMono(RInt(MQSquarePart(n)), MQOddPart(n))
\* the defining property, checked by MQLaws: (s, S) is THE pair with s^2 prod(S) = n
MQSqrtUnique(n) == n = 0 \/ \A q \in (1..n) \X MQBasis :
                      q[1] * q[1] * MQSetProd(q[2]) = n <=> (q[1] = MQSquarePart(n) /\ q[2] = MQOddPart(n))
MQSqrtTable == TLCEval([n \in 0..100 |-> IF MQHasSqrt(n) THEN MQSqrtDef(n) ELSE MQZero])
MQSqrt(n) == IF n <= 100 THEN MQSqrtTable[n] ELSE MQSqrtDef(n)

\* printing: the terms in basis order, [m |-> mask of S, n, d]; value = sum (n/d) sqrt(prod S)
RECURSIVE MQMaskSeq(_)
MQMaskSeq(D) == IF D = {} THEN <<>>
                ELSE LET S == CHOOSE T \in D : \A V \in D : MQMask(T) <= MQMask(V) IN <<S>> \o MQMaskSeq(D \ {S})
MQJson(x) == LET q == MQMaskSeq(DOMAIN x) IN [k \in 1..Len(q) |-> [m |-> MQMask(q[k]), n |-> x[q[k]][1], d |-> x[q[k]][2]]]

(* ------------------------------ dense matrices -------------------------- *)
\* a matrix is a sequence of rows of field elements
RECURSIVE MQDot(_, _, _, _, _)
MQDot(A, B, i, j, k) == IF k = 0 THEN MQZero
                        ELSE IF MQIsZero(A[i][k]) \/ MQIsZero(B[k][j]) THEN MQDot(A, B, i, j, k - 1)
                        ELSE MQAdd(MQMul(A[i][k], B[k][j]), MQDot(A, B, i, j, k - 1))
MQMatMul(AA, BB) == MQBind2(AA, BB, LAMBDA A, B :
   TLCEval([i \in 1..Len(A) |-> TLCEval([j \in 1..Len(B[1]) |-> MQDot(A, B, i, j, Len(B))])]))
MQMatAdd(AA, BB) == MQBind2(AA, BB, LAMBDA A, B :
   TLCEval([i \in 1..Len(A) |-> TLCEval([j \in 1..Len(A[1]) |-> MQAdd(A[i][j], B[i][j])])]))
MQMatScale(q, AA) == MQBind(AA, LAMBDA A : TLCEval([i \in 1..Len(A) |-> TLCEval([j \in 1..Len(A[1]) |-> MQScale(q, A[i][j])])]))
MQMatT(A) == [i \in 1..Len(A[1]) |-> [j \in 1..Len(A) |-> A[j][i]]]
MQMatId(n) == [i \in 1..n |-> [j \in 1..n |-> IF i = j THEN MQOne ELSE MQZero]]
MQMatZero(n) == [i \in 1..n |-> [j \in 1..n |-> MQZero]]

(* ------------------------------ laws (model-checked) -------------------- *)
MQSample == {MQZero, MQOne, MQSqrt(2), MQSqrt(6), MQAdd(MQSqrt(3), MQInt(-2)), MQAdd(MQSqrt(8), MQSqrt(5)),
             MQScale(<<-1, 2>>, MQSqrt(7)), MQAdd(MQAdd(MQSqrt(2), MQSqrt(3)), MQSqrt(6))}
MQLaws(B) ==
  /\ \A n \in 0..B : MQHasSqrt(n) => /\ IsMQ(MQSqrt(n)) /\ MQSqrtUnique(n)
                                     /\ MQMul(MQSqrt(n), MQSqrt(n)) = MQInt(n)
  /\ \A a \in 1..B, b \in 1..B : (MQHasSqrt(a) /\ MQHasSqrt(b)) => MQMul(MQSqrt(a), MQSqrt(b)) = MQSqrt(a * b)
  /\ \A x \in MQSample, y \in MQSample : /\ IsMQ(MQMul(x, y)) /\ IsMQ(MQAdd(x, y))
                                         /\ MQMul(x, y) = MQMul(y, x) /\ MQAdd(x, y) = MQAdd(y, x)
                                         /\ MQSub(MQAdd(x, y), y) = x
  /\ \A x \in MQSample, y \in MQSample, z \in MQSample :
        /\ MQMul(MQMul(x, y), z) = MQMul(x, MQMul(y, z))
        /\ MQMul(x, MQAdd(y, z)) = MQAdd(MQMul(x, y), MQMul(x, z))
  \* (sqrt2 + sqrt3)(sqrt3 - sqrt2) = 1 and (1 + sqrt2 + sqrt3 + sqrt6) = (1 + sqrt2)(1 + sqrt3)
  /\ MQMul(MQAdd(MQSqrt(2), MQSqrt(3)), MQSub(MQSqrt(3), MQSqrt(2))) = MQOne
  /\ MQMul(MQAdd(MQOne, MQSqrt(2)), MQAdd(MQOne, MQSqrt(3))) = MQAdd(MQAdd(MQOne, MQSqrt(2)), MQAdd(MQSqrt(3), MQSqrt(6)))
=============================================================================
