------------------------------- MODULE ZRings -------------------------------
(***************************************************************************)
(* Reference implementation of the exact arithmetic behind gridsynth (C16) *)
(* written from the mathematical definitions, integers only:               *)
(*   Z[sqrt2]   x = <<a, b>>        = a + b*sqrt2                          *)
(*   Z[omega]   z = <<a, b, c, d>>  = a*w^3 + b*w^2 + c*w + d,  w^4 = -1   *)
(*              (the documented coefficient order of pennylane's ZOmega)   *)
(*   2x2 matrices over D[omega]:  [k, e]  = e / sqrt2^k, e row-major       *)
(*   3x3 matrices over D[sqrt2]:  [k, e]  = e / sqrt2^k, e row-major       *)
(* Products in Z[omega] are the negacyclic convolution of the coefficient  *)
(* vectors (the definition of multiplication modulo w^4 + 1), conjugation  *)
(* is w -> w^-1 = -w^3, the sqrt2-conjugation is w -> -w.  The SO(3)       *)
(* matrix of U is the adjoint representation R_ij = 1/2 Tr(s_i U s_j U^+). *)
(* TLC integers are 32 bit; TLC reports any overflow as an error.          *)
(***************************************************************************)
EXTENDS Integers, Sequences, TLC

\* TLC passes operator arguments lazily and re-evaluates them at every use: F1/F2/F3 evaluate the arguments ONCE
\* (binding them as elements of singleton sets) before applying Op, so nested terms cost what they should.
F1(Op(_), a) == CHOOSE r \in {Op(av) : av \in {a}} : TRUE
F2(Op(_, _), a, b) == CHOOSE r \in {Op(av, bv) : av \in {a}, bv \in {b}} : TRUE
F3(Op(_, _, _), a, b, c) == CHOOSE r \in {Op(av, bv, cv) : av \in {a}, bv \in {b}, cv \in {c}} : TRUE
AbsI(n) == IF n < 0 THEN -n ELSE n
MaxI(p, q) == IF p < q THEN q ELSE p
SeqAllEven(s) == \A i \in 1..Len(s) : s[i] % 2 = 0

(* ------------------------------- Z[sqrt2] ------------------------------ *)
S2Zero == <<0, 0>>
S2One == <<1, 0>>
S2Root2 == <<0, 1>>
S2Int(n) == <<n, 0>>
S2Add(x, y) == <<x[1] + y[1], x[2] + y[2]>>
S2Neg(x) == <<-x[1], -x[2]>>
S2Sub(x, y) == <<x[1] - y[1], x[2] - y[2]>>
S2Scale(n, x) == <<n * x[1], n * x[2]>>
\* (a + b r)(c + d r) = ac + 2bd + (ad + bc) r,  r*r = 2
S2Mul(x, y) == <<x[1] * y[1] + 2 * (x[2] * y[2]), x[1] * y[2] + x[2] * y[1]>>
S2Conj(x) == x                                   \* real
S2Adj2(x) == <<x[1], -x[2]>>                     \* r -> -r
S2Norm(x) == S2Mul(x, S2Adj2(x))[1]              \* x * x' is a rational integer: a^2 - 2 b^2
RECURSIVE S2Pow(_, _)
S2Pow(x, n) == IF n = 0 THEN S2One ELSE S2Mul(S2Pow(x, n - 1), x)
\* y | x in Z[sqrt2] (y # 0): x * y' is divisible by N(y) = y * y'
S2Num(x, y) == LET p == S2Mul(x, S2Adj2(y)) IN IF S2Norm(y) < 0 THEN S2Neg(p) ELSE p
S2Divides(y, x) == LET n == AbsI(S2Norm(y))  p == S2Num(x, y) IN p[1] % n = 0 /\ p[2] % n = 0
S2Quot(x, y) == LET n == AbsI(S2Norm(y))  p == S2Num(x, y) IN <<p[1] \div n, p[2] \div n>>     \* when y | x
\* all square roots with coefficients in -B..B (r*r = x forces a^2 + 2b^2 = x[1])
S2Roots(x, B) == {r \in (-B..B) \X (-B..B) : S2Mul(r, r) = x}

(* ------------------------------- Z[omega] ------------------------------ *)
OmZero == <<0, 0, 0, 0>>
OmOne == <<0, 0, 0, 1>>
OmW == <<0, 0, 1, 0>>                            \* omega
OmI == <<0, 1, 0, 0>>                            \* omega^2 = i
OmRoot2 == <<-1, 0, 1, 0>>                       \* omega - omega^3 = sqrt2
OmInt(n) == <<0, 0, 0, n>>
OmC(z, i) == z[4 - i]                            \* coefficient of omega^i, i in 0..3
OmAdd(x, y) == <<x[1] + y[1], x[2] + y[2], x[3] + y[3], x[4] + y[4]>>
OmNeg(x) == <<-x[1], -x[2], -x[3], -x[4]>>
OmSub(x, y) == <<x[1] - y[1], x[2] - y[2], x[3] - y[3], x[4] - y[4]>>
OmScale(n, x) == <<n * x[1], n * x[2], n * x[3], n * x[4]>>
\* coefficient of w^k in x*y:  SUM_i x_i * y_(k-i), where w^(k+4) = -w^k
OmT(x, y, k, i) == IF i <= k THEN OmC(x, i) * OmC(y, k - i) ELSE -(OmC(x, i) * OmC(y, k + 4 - i))
OmP(x, y, k) == OmT(x, y, k, 0) + OmT(x, y, k, 1) + OmT(x, y, k, 2) + OmT(x, y, k, 3)
OmMul(x, y) == <<OmP(x, y, 3), OmP(x, y, 2), OmP(x, y, 1), OmP(x, y, 0)>>
\* conj: w^i -> w^-i = -w^(4-i) (i = 1..3);   adj2: sqrt2 -> -sqrt2 is w -> -w, so w^i -> (-1)^i w^i
OmConj(z) == <<-OmC(z, 1), -OmC(z, 2), -OmC(z, 3), OmC(z, 0)>>
OmAdj2(z) == <<-OmC(z, 3), OmC(z, 2), -OmC(z, 1), OmC(z, 0)>>
RECURSIVE OmPow(_, _)
OmPow(x, n) == IF n = 0 THEN OmOne ELSE OmMul(OmPow(x, n - 1), x)
\* the real subring Z[sqrt2]: d + c (w - w^3)
S2ToOm(x) == <<-x[2], 0, x[2], x[1]>>
OmIsReal(z) == z[2] = 0 /\ z[1] + z[3] = 0
OmToS2(z) == <<z[4], z[3]>>                      \* when OmIsReal(z)
OmNormEl(z) == OmMul(z, OmConj(z))               \* z z^+ (lies in Z[sqrt2])
OmAbs(z) == S2Norm(OmToS2(OmNormEl(z)))          \* the absolute norm N(z) = (z z^+)(z z^+)' in Z, >= 0
\* alpha + i*beta + shift
OmFromSqrtPair(al, be, sh) == OmAdd(OmAdd(S2ToOm(al), OmMul(OmI, S2ToOm(be))), sh)
OmMulRoot2(z) == OmMul(z, OmRoot2)
OmRoot2Divides(z) == SeqAllEven(OmMulRoot2(z))   \* z / sqrt2 = z * sqrt2 / 2
OmDivRoot2(z) == LET p == OmMulRoot2(z) IN <<p[1] \div 2, p[2] \div 2, p[3] \div 2, p[4] \div 2>>
RECURSIVE OmMulRoot2Pow(_, _)
OmMulRoot2Pow(z, n) == IF n = 0 THEN z ELSE OmMulRoot2Pow(OmMulRoot2(z), n - 1)
\* y | x in Z[omega] (y # 0):  x * y^+ * (y y^+)' is divisible by N(y)
OmNum(x, y) == OmMul(OmMul(x, OmConj(y)), OmAdj2(OmNormEl(y)))
OmDivides(y, x) == LET n == OmAbs(y)  p == OmNum(x, y) IN \A i \in 1..4 : p[i] % n = 0

(* ------------------- 2x2 matrices  e / sqrt2^k over Z[omega] ----------- *)
M2(k, e) == [k |-> k, e |-> e]
M2Id == M2(0, <<OmOne, OmZero, OmZero, OmOne>>)
M2H == M2(1, <<OmOne, OmOne, OmOne, OmNeg(OmOne)>>)
M2T == M2(0, <<OmOne, OmZero, OmZero, OmW>>)
M2S == M2(0, <<OmOne, OmZero, OmZero, OmI>>)
M2X == M2(0, <<OmZero, OmOne, OmOne, OmZero>>)
M2Y == M2(0, <<OmZero, OmNeg(OmI), OmI, OmZero>>)
M2Z == M2(0, <<OmOne, OmZero, OmZero, OmNeg(OmOne)>>)
E2Mul(a, b) == <<OmAdd(OmMul(a[1], b[1]), OmMul(a[2], b[3])), OmAdd(OmMul(a[1], b[2]), OmMul(a[2], b[4])),
                 OmAdd(OmMul(a[3], b[1]), OmMul(a[4], b[3])), OmAdd(OmMul(a[3], b[2]), OmMul(a[4], b[4]))>>
M2Mul(A, B) == M2(A.k + B.k, E2Mul(A.e, B.e))
E2Map(Op(_), e) == <<Op(e[1]), Op(e[2]), Op(e[3]), Op(e[4])>>
\* the same value over the larger denominator exponent K >= A.k
M2Lift(A, K) == M2(K, LET n == K - A.k IN E2Map(LAMBDA z : OmMulRoot2Pow(z, n), A.e))
M2ValEq(A, B) == LET K == MaxI(A.k, B.k) IN M2Lift(A, K).e = M2Lift(B, K).e
M2Add(A, B) == LET K == MaxI(A.k, B.k)  a == M2Lift(A, K).e  b == M2Lift(B, K).e IN
               M2(K, <<OmAdd(a[1], b[1]), OmAdd(a[2], b[2]), OmAdd(a[3], b[3]), OmAdd(a[4], b[4])>>)
M2Neg(A) == M2(A.k, E2Map(OmNeg, A.e))
M2ScaleOm(A, z) == M2(A.k, E2Map(LAMBDA w : OmMul(w, z), A.e))
\* entrywise automorphisms of the VALUE e / sqrt2^k: conj fixes sqrt2, adj2 sends sqrt2^k to (-1)^k sqrt2^k
M2Conj(A) == M2(A.k, E2Map(OmConj, A.e))
M2Adj2(A) == M2(A.k, E2Map(LAMBDA w : IF A.k % 2 = 0 THEN OmAdj2(w) ELSE OmNeg(OmAdj2(w)), A.e))
M2Dagger(A) == M2(A.k, <<OmConj(A.e[1]), OmConj(A.e[3]), OmConj(A.e[2]), OmConj(A.e[4])>>)
M2Mult2k(A, n) == M2(A.k - 2 * n, A.e)                       \* times 2^n = sqrt2^(2n)
M2IsZero(A) == \A i \in 1..4 : A.e[i] = OmZero
M2Reducible(A) == \A i \in 1..4 : OmRoot2Divides(A.e[i])
\* canonical form: the least denominator exponent (zero matrix: k = 0)
RECURSIVE M2Canon(_)
M2Canon(A) == IF M2IsZero(A) THEN M2(0, A.e)
              ELSE IF M2Reducible(A) THEN M2Canon(M2(A.k - 1, E2Map(OmDivRoot2, A.e)))
              ELSE A
M2Trace(A) == OmAdd(A.e[1], A.e[4])              \* numerator only
M2IsUnitary(A) == M2ValEq(M2Mul(A, M2Dagger(A)), M2Id)

(* ------------------- 3x3 matrices  e / sqrt2^k over Z[sqrt2] ----------- *)
M3(k, e) == [k |-> k, e |-> e]
RECURSIVE S2MulRoot2Pow(_, _)
S2MulRoot2Pow(x, n) == IF n = 0 THEN x ELSE S2MulRoot2Pow(S2Mul(x, S2Root2), n - 1)
M3Lift(R, K) == M3(K, LET n == K - R.k IN [i \in 1..9 |-> S2MulRoot2Pow(R.e[i], n)])
M3ValEq(R, Q) == LET K == MaxI(R.k, Q.k) IN M3Lift(R, K).e = M3Lift(Q, K).e
M3Ent(a, b, i, j) == S2Add(S2Add(S2Mul(a[3 * (i - 1) + 1], b[j]), S2Mul(a[3 * (i - 1) + 2], b[3 + j])),
                           S2Mul(a[3 * (i - 1) + 3], b[6 + j]))
M3Mul(R, Q) == M3(R.k + Q.k, [n \in 1..9 |-> M3Ent(R.e, Q.e, ((n - 1) \div 3) + 1, ((n - 1) % 3) + 1)])
M3Transpose(R) == M3(R.k, [n \in 1..9 |-> R.e[3 * ((n - 1) % 3) + ((n - 1) \div 3) + 1]])
M3Id == M3(0, <<S2One, S2Zero, S2Zero, S2Zero, S2One, S2Zero, S2Zero, S2Zero, S2One>>)
M3IsZero(R) == \A n \in 1..9 : R.e[n] = S2Zero
\* (a + b r) / r = b + (a/2) r  when a is even
M3Reducible(R) == \A n \in 1..9 : R.e[n][1] % 2 = 0
RECURSIVE M3Canon(_)
M3Canon(R) == IF M3IsZero(R) THEN M3(0, R.e)
              ELSE IF M3Reducible(R) THEN M3Canon(M3(R.k - 1, [n \in 1..9 |-> <<R.e[n][2], R.e[n][1] \div 2>>]))
              ELSE R
\* adjoint representation: R_ij = 1/2 Tr(s_i U s_j U^+),  U = e / sqrt2^k  ==>  numerators over sqrt2^(2k + 2)
Pauli(i) == CASE i = 1 -> M2X [] i = 2 -> M2Y [] i = 3 -> M2Z
SO3Ent(A, i, j) == OmToS2(M2Trace(M2Mul(M2Mul(Pauli(i), A), M2Mul(Pauli(j), M2Dagger(A)))))
SO3EntReal(A, i, j) == OmIsReal(M2Trace(M2Mul(M2Mul(Pauli(i), A), M2Mul(Pauli(j), M2Dagger(A)))))
SO3Ref(A) == M3(2 * A.k + 2, [n \in 1..9 |-> SO3Ent(A, ((n - 1) \div 3) + 1, ((n - 1) % 3) + 1)])

(* ------------------------------ number theory -------------------------- *)
\* r = floor(sqrt(n)) is supplied as a hint and verified
IsIsqrt(r, n) == r >= 0 /\ r * r <= n /\ (r + 1) * (r + 1) > n
\* trial division; R is any bound with R * R >= n (supplied as a hint and verified by the caller)
IsPrimeB(n, R) == n >= 2 /\ \A d \in 2..R : d * d > n \/ n % d # 0
RECURSIVE SeqProd(_, _)
SeqProd(s, i) == IF i = 0 THEN 1 ELSE SeqProd(s, i - 1) * s[i]
=============================================================================
