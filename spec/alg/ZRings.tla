------------------------------- MODULE ZRings -------------------------------
(***************************************************************************)
(* Reference implementation of the exact arithmetic behind gridsynth (C16) *)
(* written from the mathematical definitions, integers only:               *)
(*   Z[sqrt2]   x = <<a, b>>        = a + b*sqrt2                          *)
(*   Z[omega]   z = <<a, b, c, d>>  = a*w^3 + b*w^2 + c*w + d,  w^4 = -1   *)
(*              (the documented coefficient order of pennylane's ZOmega)   *)
(*   2x2 matrices over D[omega]:  [k, e]  = e / sqrt2^k, e row-major       *)
(*   3x3 matrices over D[sqrt2]:  [k, e]  = e / sqrt2^k, e row-major       *)
(* Products in Z[omega] are the negacyclic convolution of the coefficient  *)
(* vectors (the definition of multiplication modulo w^4 + 1), conjugation  *)
(* is w -> w^-1 = -w^3, the sqrt2-conjugation is w -> -w.  The SO(3)       *)
(* matrix of U is the adjoint representation R_ij = 1/2 Tr(s_i U s_j U^+). *)
(* TLC integers are 32 bit; TLC reports any overflow as an error.          *)
(*                                                                         *)
(* TLC passes operator arguments lazily and re-evaluates them at every     *)
(* use.  Every operator below that uses an argument more than once is a    *)
(* wrapper  Op(x, y) == F2(OpV, x, y): F1/F2/F3 evaluate the arguments     *)
(* ONCE (binding them as elements of singleton sets) and then apply the    *)
(* defining operator OpV, so nested terms cost what they should.           *)
(***************************************************************************)
EXTENDS Integers, Sequences, TLC

F1(Op(_), a) == CHOOSE r \in {Op(av) : av \in {a}} : TRUE
F2(Op(_, _), a, b) == CHOOSE r \in {Op(av, bv) : av \in {a}, bv \in {b}} : TRUE
F3(Op(_, _, _), a, b, c) == CHOOSE r \in {Op(av, bv, cv) : av \in {a}, bv \in {b}, cv \in {c}} : TRUE
AbsI(n) == IF n < 0 THEN -n ELSE n
MaxI(p, q) == IF p < q THEN q ELSE p
SeqAllEvenV(s) == \A i \in 1..Len(s) : s[i] % 2 = 0
SeqAllEven(s) == F1(SeqAllEvenV, s)

(* ------------------------------- Z[sqrt2] ------------------------------ *)
S2Zero == <<0, 0>>
S2One == <<1, 0>>
S2Root2 == <<0, 1>>
S2Int(n) == <<n, 0>>
S2AddV(x, y) == <<x[1] + y[1], x[2] + y[2]>>
S2NegV(x) == <<-x[1], -x[2]>>
S2SubV(x, y) == <<x[1] - y[1], x[2] - y[2]>>
S2ScaleV(n, x) == <<n * x[1], n * x[2]>>
\* (a + b r)(c + d r) = ac + 2bd + (ad + bc) r,  r*r = 2
S2MulV(x, y) == <<x[1] * y[1] + 2 * (x[2] * y[2]), x[1] * y[2] + x[2] * y[1]>>
S2Adj2V(x) == <<x[1], -x[2]>>                    \* r -> -r
S2Add(x, y) == F2(S2AddV, x, y)
S2Neg(x) == F1(S2NegV, x)
S2Sub(x, y) == F2(S2SubV, x, y)
S2Scale(n, x) == F2(S2ScaleV, n, x)
S2Mul(x, y) == F2(S2MulV, x, y)
S2Conj(x) == x                                   \* real
S2Adj2(x) == F1(S2Adj2V, x)
S2NormV(x) == S2MulV(x, S2Adj2V(x))[1]           \* x * x' is a rational integer (= a^2 - 2 b^2)
S2Norm(x) == F1(S2NormV, x)
RECURSIVE S2Pow(_, _)
S2Pow(x, n) == IF n = 0 THEN S2One ELSE S2Mul(F2(S2Pow, x, n - 1), x)
\* y | x in Z[sqrt2] (y # 0): x * y' is divisible by N(y) = y * y'
S2NumV(x, y) == LET p == S2MulV(x, S2Adj2V(y)) IN IF S2NormV(y) < 0 THEN S2NegV(p) ELSE p
S2DividesV(y, x) == \A p \in {S2NumV(x, y)}, n \in {AbsI(S2NormV(y))} : p[1] % n = 0 /\ p[2] % n = 0
S2Divides(y, x) == F2(S2DividesV, y, x)
S2QuotV(x, y) == CHOOSE q \in {<<p[1] \div n, p[2] \div n>> : p \in {S2NumV(x, y)}, n \in {AbsI(S2NormV(y))}} : TRUE
S2Quot(x, y) == F2(S2QuotV, x, y)                \* when y | x
\* all square roots with coefficients in -B..B (r*r = x forces a^2 + 2b^2 = x[1])
S2Roots(x, B) == {r \in (-B..B) \X (-B..B) : S2MulV(r, r) = x}

(* ------------------------------- Z[omega] ------------------------------ *)
OmZero == <<0, 0, 0, 0>>
OmOne == <<0, 0, 0, 1>>
OmW == <<0, 0, 1, 0>>                            \* omega
OmI == <<0, 1, 0, 0>>                            \* omega^2 = i
OmRoot2 == <<-1, 0, 1, 0>>                       \* omega - omega^3 = sqrt2
OmInt(n) == <<0, 0, 0, n>>
OmC(z, i) == z[4 - i]                            \* coefficient of omega^i, i in 0..3
OmAddV(x, y) == <<x[1] + y[1], x[2] + y[2], x[3] + y[3], x[4] + y[4]>>
OmNegV(x) == <<-x[1], -x[2], -x[3], -x[4]>>
OmSubV(x, y) == <<x[1] - y[1], x[2] - y[2], x[3] - y[3], x[4] - y[4]>>
OmScaleV(n, x) == <<n * x[1], n * x[2], n * x[3], n * x[4]>>
\* coefficient of w^k in x*y:  SUM_i x_i * y_(k-i), where w^(k+4) = -w^k
OmT(x, y, k, i) == IF i <= k THEN OmC(x, i) * OmC(y, k - i) ELSE -(OmC(x, i) * OmC(y, k + 4 - i))
OmP(x, y, k) == OmT(x, y, k, 0) + OmT(x, y, k, 1) + OmT(x, y, k, 2) + OmT(x, y, k, 3)
OmMulDef(x, y) == <<OmP(x, y, 3), OmP(x, y, 2), OmP(x, y, 1), OmP(x, y, 0)>>
\* the same bilinear map written out (fast); ZRingsGen checks OmMulV = OmMulDef = Cyclo!MulG on a box that contains
\* the basis 1, w, w^2, w^3 (two bilinear maps that agree on all pairs of basis elements are equal)
OmMulV(x, y) == <<x[1] * y[4] + x[2] * y[3] + x[3] * y[2] + x[4] * y[1],
                  x[2] * y[4] + x[3] * y[3] + x[4] * y[2] - x[1] * y[1],
                  x[3] * y[4] + x[4] * y[3] - x[1] * y[2] - x[2] * y[1],
                  x[4] * y[4] - x[1] * y[3] - x[2] * y[2] - x[3] * y[1]>>
\* conj: w^i -> w^-i = -w^(4-i) (i = 1..3);   adj2: sqrt2 -> -sqrt2 is w -> -w, so w^i -> (-1)^i w^i
OmConjV(z) == <<-z[3], -z[2], -z[1], z[4]>>
OmAdj2V(z) == <<-z[1], z[2], -z[3], z[4]>>
OmConjDef(z) == <<-OmC(z, 1), -OmC(z, 2), -OmC(z, 3), OmC(z, 0)>>
OmAdj2Def(z) == <<-OmC(z, 3), OmC(z, 2), -OmC(z, 1), OmC(z, 0)>>
OmAdd(x, y) == F2(OmAddV, x, y)
OmNeg(x) == F1(OmNegV, x)
OmSub(x, y) == F2(OmSubV, x, y)
OmScale(n, x) == F2(OmScaleV, n, x)
OmMul(x, y) == F2(OmMulV, x, y)
OmConj(z) == F1(OmConjV, z)
OmAdj2(z) == F1(OmAdj2V, z)
RECURSIVE OmPow(_, _)
OmPow(x, n) == IF n = 0 THEN OmOne ELSE OmMul(F2(OmPow, x, n - 1), x)
\* the real subring Z[sqrt2]: d + c (w - w^3)
S2ToOmV(x) == <<-x[2], 0, x[2], x[1]>>
S2ToOm(x) == F1(S2ToOmV, x)
OmIsRealV(z) == z[2] = 0 /\ z[1] + z[3] = 0
OmIsReal(z) == F1(OmIsRealV, z)
OmToS2V(z) == <<z[4], z[3]>>                     \* when OmIsReal(z)
OmToS2(z) == F1(OmToS2V, z)
OmNormElV(z) == OmMul(z, OmConjV(z))             \* z z^+ (lies in Z[sqrt2])
OmNormEl(z) == F1(OmNormElV, z)
OmAbs(z) == S2Norm(OmToS2(OmNormEl(z)))          \* the absolute norm N(z) = (z z^+)(z z^+)' in Z, >= 0
\* alpha + i*beta + shift
OmFromSqrtPair(al, be, sh) == OmAdd(OmAdd(S2ToOm(al), OmMul(OmI, S2ToOm(be))), sh)
OmMulRoot2(z) == OmMul(z, OmRoot2)
OmRoot2Divides(z) == SeqAllEven(OmMulRoot2(z))   \* z / sqrt2 = z * sqrt2 / 2
OmHalveV(p) == <<p[1] \div 2, p[2] \div 2, p[3] \div 2, p[4] \div 2>>
OmDivRoot2(z) == F1(OmHalveV, OmMulRoot2(z))
RECURSIVE OmMulRoot2Pow(_, _)
OmMulRoot2Pow(z, n) == IF n = 0 THEN z ELSE F2(OmMulRoot2Pow, OmMulRoot2(z), n - 1)
\* y | x in Z[omega] (y # 0):  x * y^+ * (y y^+)' is divisible by N(y)
OmNumV(x, y) == OmMul(OmMul(x, OmConjV(y)), OmAdj2(OmNormElV(y)))
OmDividesV(y, x) == \A p \in {OmNumV(x, y)}, n \in {OmAbs(y)} : \A i \in 1..4 : p[i] % n = 0
OmDivides(y, x) == F2(OmDividesV, y, x)

(* ------------------- 2x2 matrices  e / sqrt2^k over Z[omega] ----------- *)
M2(k, e) == [k |-> k, e |-> e]
M2Id == M2(0, <<OmOne, OmZero, OmZero, OmOne>>)
M2H == M2(1, <<OmOne, OmOne, OmOne, OmNegV(OmOne)>>)
M2T == M2(0, <<OmOne, OmZero, OmZero, OmW>>)
M2S == M2(0, <<OmOne, OmZero, OmZero, OmI>>)
M2X == M2(0, <<OmZero, OmOne, OmOne, OmZero>>)
M2Y == M2(0, <<OmZero, OmNegV(OmI), OmI, OmZero>>)
M2Z == M2(0, <<OmOne, OmZero, OmZero, OmNegV(OmOne)>>)
E2MulV(a, b) == <<OmAdd(OmMulV(a[1], b[1]), OmMulV(a[2], b[3])), OmAdd(OmMulV(a[1], b[2]), OmMulV(a[2], b[4])),
                  OmAdd(OmMulV(a[3], b[1]), OmMulV(a[4], b[3])), OmAdd(OmMulV(a[3], b[2]), OmMulV(a[4], b[4]))>>
M2MulV(A, B) == M2(A.k + B.k, F2(E2MulV, A.e, B.e))
M2Mul(A, B) == F2(M2MulV, A, B)
E2Map(Op(_), e) == <<Op(e[1]), Op(e[2]), Op(e[3]), Op(e[4])>>
\* the same value over the larger denominator exponent K >= A.k
M2LiftV(A, K) == M2(K, E2Map(LAMBDA z : OmMulRoot2Pow(z, K - A.k), A.e))
M2Lift(A, K) == F2(M2LiftV, A, K)
M2ValEqV(A, B) == M2LiftV(A, MaxI(A.k, B.k)).e = M2LiftV(B, MaxI(A.k, B.k)).e
M2ValEq(A, B) == F2(M2ValEqV, A, B)
E2AddV(a, b) == <<OmAddV(a[1], b[1]), OmAddV(a[2], b[2]), OmAddV(a[3], b[3]), OmAddV(a[4], b[4])>>
M2AddV(A, B) == M2(MaxI(A.k, B.k), F2(E2AddV, M2LiftV(A, MaxI(A.k, B.k)).e, M2LiftV(B, MaxI(A.k, B.k)).e))
M2Add(A, B) == F2(M2AddV, A, B)
M2NegV(A) == M2(A.k, E2Map(OmNegV, A.e))
M2Neg(A) == F1(M2NegV, A)
M2ScaleOmV(A, z) == M2(A.k, E2Map(LAMBDA w : OmMulV(w, z), A.e))
M2ScaleOm(A, z) == F2(M2ScaleOmV, A, z)
\* entrywise automorphisms of the VALUE e / sqrt2^k: conj fixes sqrt2, adj2 sends sqrt2^k to (-1)^k sqrt2^k
M2ConjV(A) == M2(A.k, E2Map(OmConjV, A.e))
M2Conj(A) == F1(M2ConjV, A)
M2Adj2V(A) == M2(A.k, E2Map(LAMBDA w : IF A.k % 2 = 0 THEN OmAdj2V(w) ELSE OmNegV(OmAdj2V(w)), A.e))
M2Adj2(A) == F1(M2Adj2V, A)
M2DaggerV(A) == M2(A.k, <<OmConjV(A.e[1]), OmConjV(A.e[3]), OmConjV(A.e[2]), OmConjV(A.e[4])>>)
M2Dagger(A) == F1(M2DaggerV, A)
M2Mult2kV(A, n) == M2(A.k - 2 * n, A.e)                      \* times 2^n = sqrt2^(2n)
M2Mult2k(A, n) == F2(M2Mult2kV, A, n)
M2IsZeroV(A) == \A i \in 1..4 : A.e[i] = OmZero
M2IsZero(A) == F1(M2IsZeroV, A)
M2ReducibleV(A) == \A i \in 1..4 : OmRoot2Divides(A.e[i])
M2Reducible(A) == F1(M2ReducibleV, A)
\* canonical form: the least denominator exponent (zero matrix: k = 0)
RECURSIVE M2CanonV(_)
M2CanonV(A) == IF M2IsZeroV(A) THEN M2(0, A.e)
               ELSE IF M2ReducibleV(A) THEN F1(M2CanonV, M2(A.k - 1, E2Map(OmDivRoot2, A.e)))
               ELSE A
M2Canon(A) == F1(M2CanonV, A)
M2TraceV(A) == OmAddV(A.e[1], A.e[4])            \* numerator only
M2Trace(A) == F1(M2TraceV, A)
M2IsUnitary(A) == M2ValEq(M2Mul(A, M2Dagger(A)), M2Id)

(* ------------------- 3x3 matrices  e / sqrt2^k over Z[sqrt2] ----------- *)
M3(k, e) == [k |-> k, e |-> e]
RECURSIVE S2MulRoot2Pow(_, _)
S2MulRoot2Pow(x, n) == IF n = 0 THEN x ELSE F2(S2MulRoot2Pow, S2Mul(x, S2Root2), n - 1)
M3LiftV(R, K) == M3(K, TLCEval([i \in 1..9 |-> S2MulRoot2Pow(R.e[i], K - R.k)]))
M3ValEqV(R, Q) == M3LiftV(R, MaxI(R.k, Q.k)).e = M3LiftV(Q, MaxI(R.k, Q.k)).e
M3ValEq(R, Q) == F2(M3ValEqV, R, Q)
M3Ent(a, b, i, j) == S2Add(S2Add(S2MulV(a[3 * (i - 1) + 1], b[j]), S2MulV(a[3 * (i - 1) + 2], b[3 + j])),
                           S2MulV(a[3 * (i - 1) + 3], b[6 + j]))
M3MulV(R, Q) == M3(R.k + Q.k, TLCEval([n \in 1..9 |-> M3Ent(R.e, Q.e, ((n - 1) \div 3) + 1, ((n - 1) % 3) + 1)]))
M3Mul(R, Q) == F2(M3MulV, R, Q)
M3TransposeV(R) == M3(R.k, TLCEval([n \in 1..9 |-> R.e[3 * ((n - 1) % 3) + ((n - 1) \div 3) + 1]]))
M3Transpose(R) == F1(M3TransposeV, R)
M3Id == M3(0, <<S2One, S2Zero, S2Zero, S2Zero, S2One, S2Zero, S2Zero, S2Zero, S2One>>)
M3IsZeroV(R) == \A n \in 1..9 : R.e[n] = S2Zero
\* (a + b r) / r = b + (a/2) r  when a is even
M3ReducibleV(R) == \A n \in 1..9 : R.e[n][1] % 2 = 0
RECURSIVE M3CanonV(_)
M3CanonV(R) == IF M3IsZeroV(R) THEN M3(0, R.e)
               ELSE IF M3ReducibleV(R) THEN F1(M3CanonV, M3(R.k - 1, TLCEval([n \in 1..9 |-> <<R.e[n][2], R.e[n][1] \div 2>>])))
               ELSE R
M3Canon(R) == F1(M3CanonV, R)
\* adjoint representation: R_ij = 1/2 Tr(s_i U s_j U^+),  U = e / sqrt2^k  ==>  numerators over sqrt2^(2k + 2).
\* With B_j = U s_j U^+ (numerator b = <<b11, b12, b21, b22>>):
\*   Tr(X b) = b21 + b12,   Tr(Y b) = i (b12 - b21),   Tr(Z b) = b11 - b22
Pauli(i) == CASE i = 1 -> M2X [] i = 2 -> M2Y [] i = 3 -> M2Z
SO3ColV(A, j) == M2Mul(M2MulV(A, Pauli(j)), M2DaggerV(A)).e
TrPauliV(i, b) == CASE i = 1 -> OmAddV(b[3], b[2])
                    [] i = 2 -> OmMulV(OmI, OmSubV(b[2], b[3]))
                    [] i = 3 -> OmSubV(b[1], b[4])
SO3NumV(b1, b2, b3) == <<TrPauliV(1, b1), TrPauliV(1, b2), TrPauliV(1, b3), TrPauliV(2, b1), TrPauliV(2, b2), TrPauliV(2, b3),
                         TrPauliV(3, b1), TrPauliV(3, b2), TrPauliV(3, b3)>>
SO3TrV(A) == F3(SO3NumV, SO3ColV(A, 1), SO3ColV(A, 2), SO3ColV(A, 3))          \* the nine traces, elements of Z[omega]
SO3OfTr(k, t) == M3(2 * k + 2, <<OmToS2V(t[1]), OmToS2V(t[2]), OmToS2V(t[3]), OmToS2V(t[4]), OmToS2V(t[5]), OmToS2V(t[6]),
                                  OmToS2V(t[7]), OmToS2V(t[8]), OmToS2V(t[9])>>)
SO3RefV(A) == F2(SO3OfTr, A.k, SO3TrV(A))
SO3Ref(A) == F1(SO3RefV, A)
SO3AllRealV(A) == \A t \in {SO3TrV(A)} : \A n \in 1..9 : OmIsRealV(t[n])       \* the traces are real
SO3AllReal(A) == F1(SO3AllRealV, A)

(* ------------------------------ number theory -------------------------- *)
\* trial division; R is any bound with R * R >= n (supplied as a hint and verified by the caller)
IsPrimeB(n, R) == n >= 2 /\ \A d \in 2..R : d * d > n \/ n % d # 0
RECURSIVE SeqProd(_, _)
SeqProd(s, i) == IF i = 0 THEN 1 ELSE F2(SeqProd, s, i - 1) * s[i]
=============================================================================
