------------------------------ MODULE QAOAObj ------------------------------
(***************************************************************************)
(* C72: the objectives / penalties encoded by the QAOA cost Hamiltonians   *)
(* and the documented mixer operators, written from the documentation of   *)
(* pennylane.qaoa (cost.py, mixers.py, cycle.py docstrings).  Pure         *)
(* operators; spec/gen/QAOAModel.tla model-checks them against the         *)
(* combinatorial notions (cut, independent set, vertex cover, clique, net  *)
(* flow, out flow) on every small graph, spec/trace/Trace_QAOA.tla         *)
(* validates the implementation's Hamiltonians against them.               *)
(*                                                                         *)
(* DATA                                                                    *)
(*  graph    [n |-> number of nodes, e |-> sequence of <<i, j>>] nodes     *)
(*           1..n; undirected simple graph (each edge listed once, any     *)
(*           orientation) or directed graph (max-weight-cycle: the k-th    *)
(*           edge is wire k)                                               *)
(*  x        bitstring, a function 1..n -> {0,1} (for the cycle problem    *)
(*           1..m, one bit per edge); bit 1 = |1> = Z eigenvalue -1        *)
(*  values   integers in QUARTER units (value 4*H(x)) for the graph        *)
(*           problems; Gaussian dyadics (PauliAlg coefficients) for the    *)
(*           cycle problem, whose weights are given by their logarithms    *)
(***************************************************************************)
EXTENDS PauliAlg

Bitstrings(n) == [1..n -> {0, 1}]
XOfIdx(idx, n) == [i \in 1..n |-> (idx \div 2^(n - i)) % 2]          \* node 1 = most significant bit
Zv(x, i) == 1 - 2 * x[i]
SumN(n, f(_)) == LET A[k \in 0..n] == IF k = 0 THEN 0 ELSE A[k-1] + f(k) IN A[n]
SumE(G, f(_, _)) == LET A[k \in 0..Len(G.e)] == IF k = 0 THEN 0 ELSE A[k-1] + f(G.e[k][1], G.e[k][2]) IN A[Len(G.e)]

\* ------------------------------------------------------------------ graphs
EdgeSet(G) == {G.e[k] : k \in DOMAIN G.e}
Adj(G, i, j) == <<i, j>> \in EdgeSet(G) \/ <<j, i>> \in EdgeSet(G)
Nbrs(G, v) == {w \in 1..G.n : w # v /\ Adj(G, v, w)}
AllPairs(n) == [k \in 1..(n * n) |-> <<((k - 1) \div n) + 1, ((k - 1) % n) + 1>>]
Complement(G) == [n |-> G.n, e |-> SelectSeq(AllPairs(G.n), LAMBDA p : p[1] < p[2] /\ ~Adj(G, p[1], p[2]))]
WellFormedGraph(G) == /\ \A k \in DOMAIN G.e : G.e[k][1] \in 1..G.n /\ G.e[k][2] \in 1..G.n /\ G.e[k][1] # G.e[k][2]
                      /\ \A k, l \in DOMAIN G.e : k # l => (G.e[k] # G.e[l] /\ G.e[k] # <<G.e[l][2], G.e[l][1]>>)
WellFormedDigraph(G) == /\ \A k \in DOMAIN G.e : G.e[k][1] \in 1..G.n /\ G.e[k][2] \in 1..G.n /\ G.e[k][1] # G.e[k][2]
                        /\ \A k, l \in DOMAIN G.e : k # l => G.e[k] # G.e[l]
RECURSIVE IntSetToSeq(_)
IntSetToSeq(S) == IF S = {} THEN <<>> ELSE LET m == CHOOSE a \in S : \A b \in S : a <= b IN <<m>> \o IntSetToSeq(S \ {m})

\* ------------------------------------------------- cost objectives (x 4)
\* bit_driver:  H = (-1)^(b+1) sum_i Z_i
BitDriverQ(n, b, x) == (IF b = 1 THEN 4 ELSE -4) * SumN(n, LAMBDA i : Zv(x, i))
\* edge_driver: every edge whose endpoint colouring is in the reward set R gets a lower energy than the others, the
\* difference is 1 (documented note) and the per-edge operator is traceless (all documented formulas and examples have no
\* identity term): with r = |R| rewarded colourings get -(4-r)/4 and the others r/4 (documented for r = 3: -1/4 and 3/4).
\* R is a set of <<colour_i, colour_j>>; <<0,1>> \in R <=> <<1,0>> \in R is required by the documentation.
Colourings == {<<0,0>>, <<0,1>>, <<1,0>>, <<1,1>>}
RewardOK(R) == R \subseteq Colourings /\ ((<<0,1>> \in R) <=> (<<1,0>> \in R))
EdgeEnergyQ(R, a, c) == LET r == Cardinality(R) IN IF <<a, c>> \in R THEN -(4 - r) ELSE r
EdgeDriverQ(G, R, x) == SumE(G, LAMBDA i, j : EdgeEnergyQ(R, x[i], x[j]))
\* maxcut:  H = 1/2 sum_{(i,j) in E} (Z_i Z_j - I)
MaxCutQ(G, x) == SumE(G, LAMBDA i, j : 2 * (Zv(x, i) * Zv(x, j) - 1))
\* max_independent_set.  constrained: sum_v Z_v.  unconstrained: 3 * (edge penalty rewarding 00,01,10) + sum_v Z_v
RIndep == {<<0,0>>, <<0,1>>, <<1,0>>}
RCover == {<<1,1>>, <<0,1>>, <<1,0>>}
MISQ(G, con, x) == IF con THEN BitDriverQ(G.n, 1, x) ELSE 3 * EdgeDriverQ(G, RIndep, x) + BitDriverQ(G.n, 1, x)
\* min_vertex_cover.  constrained: -sum_v Z_v.  unconstrained: 3 * (edge penalty rewarding 11,01,10) - sum_v Z_v
MVCQ(G, con, x) == IF con THEN BitDriverQ(G.n, 0, x) ELSE 3 * EdgeDriverQ(G, RCover, x) + BitDriverQ(G.n, 0, x)
\* max_clique.  constrained: sum_v Z_v.  unconstrained: as max_independent_set on the complement graph
MaxCliqueQ(G, con, x) == IF con THEN BitDriverQ(G.n, 1, x) ELSE 3 * EdgeDriverQ(Complement(G), RIndep, x) + BitDriverQ(G.n, 1, x)

\* The docstrings of the three unconstrained Hamiltonians print the edge term WITHOUT the factor 1/4 of edge_driver
\* ("3 sum (Z_i Z_j - Z_i - Z_j) + sum Z_i").  These literal readings are evaluated for the evidence only (doc drift).
MISLitQ(G, x) == SumE(G, LAMBDA i, j : 12 * (Zv(x,i) * Zv(x,j) - Zv(x,i) - Zv(x,j))) + 4 * SumN(G.n, LAMBDA i : Zv(x, i))
MVCLitQ(G, x) == SumE(G, LAMBDA i, j : 12 * (Zv(x,i) * Zv(x,j) + Zv(x,i) + Zv(x,j))) - 4 * SumN(G.n, LAMBDA i : Zv(x, i))
MaxCliqueLitQ(G, x) == MISLitQ(Complement(G), x)

\* --------------------------------------------- max_weight_cycle (dyadics)
\* G.e[k] is the directed edge of wire k, lw[k] = log c_k as a dyadic
OutDeg(G, i) == Cardinality({k \in DOMAIN G.e : G.e[k][1] = i})
InDeg(G, i) == Cardinality({k \in DOMAIN G.e : G.e[k][2] = i})
OutZ(G, x, i) == SumN(Len(G.e), LAMBDA k : IF G.e[k][1] = i THEN Zv(x, k) ELSE 0)
InZ(G, x, i) == SumN(Len(G.e), LAMBDA k : IF G.e[k][2] = i THEN Zv(x, k) ELSE 0)
\* H_netflow = sum_i ((d_out - d_in) I - sum_out Z + sum_in Z)^2
NetFlowH(G, x) == SumN(G.n, LAMBDA i : LET t == OutDeg(G, i) - InDeg(G, i) - OutZ(G, x, i) + InZ(G, x, i) IN t * t)
\* H_outflow = sum_i (d_out (d_out - 2) I - 2 (d_out - 1) sum_out Z + (sum_out Z)^2)
OutFlowH(G, x) == SumN(G.n, LAMBDA i : LET d == OutDeg(G, i)  s == OutZ(G, x, i) IN d * (d - 2) - 2 * (d - 1) * s + s * s)
\* H_loss = sum_k log(c_k) Z_k
LossG(G, lw, x) == LET A[k \in 0..Len(G.e)] == IF k = 0 THEN GdZero ELSE GdAdd(A[k-1], GdMul(GdNorm(lw[k]), GdInt(Zv(x, k)))) IN A[Len(G.e)]
\* constrained: H_loss.  unconstrained: H_loss + 3 H_netflow + 3 H_outflow
MWCG(G, lw, con, x) == IF con THEN LossG(G, lw, x) ELSE GdAdd(LossG(G, lw, x), GdInt(3 * NetFlowH(G, x) + 3 * OutFlowH(G, x)))

\* ------------------------------------------------------------------ mixers
WordL(n, pos, let) == [i \in 1..n |-> IF \E k \in DOMAIN pos : pos[k] = i THEN let[CHOOSE k \in DOMAIN pos : pos[k] = i] ELSE 0]
GdHalf == <<1, 0, 1>>
GdQuarter == <<1, 0, 2>>
\* x_mixer: sum_i X_i
XMixerS(n) == SFromPairs([i \in 1..n |-> <<WordL(n, <<i>>, <<1>>), GdOne>>])
\* xy_mixer: 1/2 sum_{(i,j) in E} (X_i X_j + Y_i Y_j)
XYMixerS(G) == SFromPairs([k \in 1..(2 * Len(G.e)) |->
                 LET ed == G.e[(k + 1) \div 2]  l == IF k % 2 = 1 THEN 1 ELSE 2 IN <<WordL(G.n, <<ed[1], ed[2]>>, <<l, l>>), GdHalf>>])
\* bit_flip_mixer: sum_v 2^-d(v) X_v prod_{w in N(v)} (I + (-1)^b Z_w)
RECURSIVE NbProd(_, _, _)
NbProd(n, ws, s) == IF ws = <<>> THEN SWord(PIdWord(n))
                    ELSE SMul(SAdd(SWord(PIdWord(n)), SMono(GdInt(s), WordL(n, <<ws[1]>>, <<3>>))), NbProd(n, Tail(ws), s))
BitFlipTerm(G, b, v) == LET ws == IntSetToSeq(Nbrs(G, v)) IN
   SScale(<<1, 0, Len(ws)>>, SMul(SWord(WordL(G.n, <<v>>, <<1>>)), NbProd(G.n, ws, IF b = 0 THEN 1 ELSE -1)))
BitFlipS(G, b) == LET A[v \in 0..G.n] == IF v = 0 THEN SZero ELSE SAdd(A[v-1], BitFlipTerm(G, b, v)) IN A[G.n]
\* cycle_mixer: 1/4 sum_{(i,j) in E} sum_{k # i,j; (i,k),(k,j) in E} [X_ij X_ik X_kj + Y_ij Y_ik X_kj + Y_ij X_ik Y_kj - X_ij Y_ik Y_kj]
WireOf(G, i, j) == CHOOSE k \in DOMAIN G.e : G.e[k] = <<i, j>>
CycleTriples(G) == {<<k, c>> \in (DOMAIN G.e) \X (1..G.n) :
                      /\ c # G.e[k][1] /\ c # G.e[k][2] /\ <<G.e[k][1], c>> \in EdgeSet(G) /\ <<c, G.e[k][2]>> \in EdgeSet(G)}
RECURSIVE TripleSeq(_)
TripleSeq(S) == IF S = {} THEN <<>> ELSE LET t == CHOOSE a \in S : TRUE IN <<t>> \o TripleSeq(S \ {t})
CycleMixerS(G) == LET ts == TripleSeq(CycleTriples(G))  m == Len(G.e) IN
   SFromPairs([q \in 1..(4 * Len(ts)) |->
      LET t == ts[((q - 1) \div 4) + 1]  v == (q - 1) % 4
          w == t[1]  wo == WireOf(G, G.e[t[1]][1], t[2])  wi == WireOf(G, t[2], G.e[t[1]][2])
          ls == CASE v = 0 -> <<1, 1, 1>> [] v = 1 -> <<2, 2, 1>> [] v = 2 -> <<2, 1, 2>> [] OTHER -> <<1, 2, 2>>
      IN <<WordL(m, <<w, wo, wi>>, ls), IF v = 3 THEN GdNeg(GdQuarter) ELSE GdQuarter>>])

\* ---------------------------------------- diagonal of a recorded sentence
\* terms: sequence of [w |-> word, c |-> coefficient]; all words must be of Z type
TermsDiagonal(ts) == \A k \in DOMAIN ts : PIsZType(ts[k].w)
ZSign(w, x) == LET A[i \in 0..Len(w)] == IF i = 0 THEN 1 ELSE IF w[i] = 3 THEN A[i-1] * Zv(x, i) ELSE A[i-1] IN A[Len(w)]
DiagAt(ts, x) == LET A[k \in 0..Len(ts)] == IF k = 0 THEN GdZero ELSE GdAdd(A[k-1], GdMul(GdNorm(ts[k].c), GdInt(ZSign(ts[k].w, x)))) IN A[Len(ts)]
QToGd(q) == GdNorm(<<q, 0, 2>>)
=============================================================================
