------------------------------ MODULE PauliAlg ------------------------------
(***************************************************************************)
(* EXACT PAULI ALGEBRA (pure operators, no variables).  Written from the   *)
(* textbook definitions; spec/gen/PauliAlgGen.tla model-checks every       *)
(* operator below against matrix algebra in CMat (PToMat(PMul(a,b)) =      *)
(* PToMat(a) x PToMat(b), commutation, traces, sentence laws).             *)
(* Use with CONSTANT M = 3 (any M >= 2 works; the ring only has to hold i).*)
(*                                                                         *)
(* DATA                                                                    *)
(*  letter      0..3 = I, X, Y, Z                                          *)
(*  word        sequence of letters of length n (wire 1 = leftmost tensor  *)
(*              factor = most significant bit, as in CMat)                 *)
(*  phased word [p |-> 0..3, w |-> word]  meaning  i^p * word              *)
(*  coefficient Gaussian dyadic <<re, im, k>> meaning (re + i*im) / 2^k,   *)
(*              normal form: k = 0 or re, im not both even                 *)
(*  sentence    function  word -> coefficient  over a finite set of words  *)
(*              of one length (the zero sentence is the empty function);   *)
(*              normal form: no zero coefficients, coefficients normal     *)
(*  terms       the JSON form of a sentence: sequence of records           *)
(*              [w |-> word, c |-> <<re, im, k>>] (repeated words add up)  *)
(*                                                                         *)
(* OPERATORS (do not rename; extend at the end of the module)              *)
(*  coefficients  GdZero GdOne GdI GdNorm GdAdd GdNeg GdSub GdMul GdConj   *)
(*                GdIPow(p) = i^p   GdInt(z)   GdIsZero   GdEq             *)
(*                GdToRing(c) numerator as a Cyclo element, GdToMat1(c)    *)
(*                the 1x1 CMat matrix of c                                 *)
(*  letters       PLetMulPhase(a,b), PLetMulLetter(a,b): a*b = i^ph * l    *)
(*                PLetMat(l) the 2x2 matrix                                *)
(*  words         PWords(n)  PIdWord(n)  PWeight(w)  PSupport(w)           *)
(*                PWordIdx(w) base-4 index, PWordOfIdx(i, n) its inverse   *)
(*                PWMul(u,v) phased product of two bare words              *)
(*                PW(w) = [p |-> 0, w |-> w]                               *)
(*                PMul(a,b) product of phased words (with phase)           *)
(*                PAntiPositions(u,v) wires where u,v anticommute          *)
(*                PCommutes(u,v)  PAnticommutes(u,v)  PQWC(u,v)            *)
(*                PXBits(w) PZBits(w) PFromXZ(x,z) PSympProd(u,v)          *)
(*                (symplectic form; PCommutes <=> PSympProd = 0)           *)
(*                PIsZType(w) letters in {I,Z};  PDiagImage(w) X,Y -> Z    *)
(*                PReorder(w, order) the word listed in wire order `order` *)
(*                (sequence of wire positions, 0 = a wire outside w)       *)
(*                PSetToSeq(S) words of S sorted by PWordIdx               *)
(*  sentences     SZero  SWord(w)  SMono(c,w)  SCoef(s,w)  SNorm(s)        *)
(*                SAdd  SNeg  SSub  SScale(c,s)  SMul(s,t)                 *)
(*                SCommutator(s,t) = st - ts     PCommutator(u,v) (words)  *)
(*                STrace(s,n) normalised trace tr(s)/2^n (a coefficient)   *)
(*                SEq(s,t) equality of denoted operators                   *)
(*                SFromPairs(seq of <<word,coef>>)  SFromTerms(terms)      *)
(*                STerms(s) (sorted by PWordIdx)  SReorder(s, order)       *)
(*                SIsHermitian(s) all coefficients real                    *)
(*  matrices      PWToMat(w)  PToMat(phased word)  SToMat(s, n)            *)
(*                PMatZero(d) PMatAdd PMatNeg PMatSub PMatScaleG(c, m)     *)
(*                PMatTrace(m) (1x1 matrix)                                *)
(*                PMatCoef(w, m) = tr(P_w m)/2^n as a 1x1 matrix           *)
(***************************************************************************)
EXTENDS CMat, FiniteSets

\* ------------------------------------------------------------ coefficients
GdZero == <<0, 0, 0>>
GdOne  == <<1, 0, 0>>
GdI    == <<0, 1, 0>>
RECURSIVE GdNorm(_)
GdNorm(c) == IF c[3] > 0 /\ c[1] % 2 = 0 /\ c[2] % 2 = 0 THEN GdNorm(<<c[1] \div 2, c[2] \div 2, c[3] - 1>>) ELSE c
GdInt(z) == <<z, 0, 0>>
GdAdd(a, b) == LET k == IF a[3] > b[3] THEN a[3] ELSE b[3]
                   fa == 2^(k - a[3])  fb == 2^(k - b[3])
               IN GdNorm(<<a[1]*fa + b[1]*fb, a[2]*fa + b[2]*fb, k>>)
GdNeg(a) == <<-a[1], -a[2], a[3]>>
GdSub(a, b) == GdAdd(a, GdNeg(b))
GdMul(a, b) == GdNorm(<<a[1]*b[1] - a[2]*b[2], a[1]*b[2] + a[2]*b[1], a[3] + b[3]>>)
GdConj(a) == <<a[1], -a[2], a[3]>>
GdIPow(p) == CASE p % 4 = 0 -> <<1, 0, 0>> [] p % 4 = 1 -> <<0, 1, 0>> [] p % 4 = 2 -> <<-1, 0, 0>> [] OTHER -> <<0, -1, 0>>
GdIsZero(a) == a[1] = 0 /\ a[2] = 0
GdEq(a, b) == GdNorm(a) = GdNorm(b)
GdToRing(c) == Add(Int2C(c[1]), Scale(c[2], ImI))
GdToMat1(c) == Norm([k |-> c[3], e |-> <<<<GdToRing(c)>>>>])

\* ----------------------------------------------------------------- letters
\* X Y = iZ, Y Z = iX, Z X = iY (cyclic), reversed order gives -i; equal letters square to I
PLetMulPhase(a, b) == IF a = 0 \/ b = 0 \/ a = b THEN 0 ELSE IF (b - a) % 3 = 1 THEN 1 ELSE 3
PLetMulLetter(a, b) == IF a = 0 THEN b ELSE IF b = 0 THEN a ELSE IF a = b THEN 0 ELSE 6 - a - b
PLetMat(l) == CASE l = 0 -> [k |-> 0, e |-> << <<One, Zero>>, <<Zero, One>> >>]
                [] l = 1 -> [k |-> 0, e |-> << <<Zero, One>>, <<One, Zero>> >>]
                [] l = 2 -> [k |-> 0, e |-> << <<Zero, Neg(ImI)>>, <<ImI, Zero>> >>]
                [] l = 3 -> [k |-> 0, e |-> << <<One, Zero>>, <<Zero, Neg(One)>> >>]

\* ------------------------------------------------------------------- words
PWords(n) == [1..n -> 0..3]
PIdWord(n) == [i \in 1..n |-> 0]
PSupport(w) == {i \in 1..Len(w) : w[i] # 0}
PWeight(w) == Cardinality(PSupport(w))
PWordIdx(w) == LET S[i \in 0..Len(w)] == IF i = 0 THEN 0 ELSE 4 * S[i-1] + w[i] IN S[Len(w)]
PWordOfIdx(x, n) == [i \in 1..n |-> (x \div 4^(n - i)) % 4]
PW(w) == [p |-> 0, w |-> w]
PWMul(u, v) == LET n == Len(u)
                   Ph[i \in 0..n] == IF i = 0 THEN 0 ELSE Ph[i-1] + PLetMulPhase(u[i], v[i])
               IN [p |-> Ph[n] % 4, w |-> [i \in 1..n |-> PLetMulLetter(u[i], v[i])]]
PMul(a, b) == LET r == PWMul(a.w, b.w) IN [p |-> (a.p + b.p + r.p) % 4, w |-> r.w]
\* two single-qubit Paulis anticommute iff both are non-identity and different
PAntiPositions(u, v) == {i \in 1..Len(u) : u[i] # 0 /\ v[i] # 0 /\ u[i] # v[i]}
PCommutes(u, v) == Cardinality(PAntiPositions(u, v)) % 2 = 0
PAnticommutes(u, v) == ~PCommutes(u, v)
PQWC(u, v) == PAntiPositions(u, v) = {}
\* symplectic (binary) representation: X = (1,0), Y = (1,1), Z = (0,1)
PXBits(w) == [i \in 1..Len(w) |-> IF w[i] \in {1, 2} THEN 1 ELSE 0]
PZBits(w) == [i \in 1..Len(w) |-> IF w[i] \in {2, 3} THEN 1 ELSE 0]
PFromXZ(x, z) == [i \in 1..Len(x) |-> IF x[i] = 1 THEN (IF z[i] = 1 THEN 2 ELSE 1) ELSE (IF z[i] = 1 THEN 3 ELSE 0)]
PSympProd(u, v) == LET x1 == PXBits(u)  z1 == PZBits(u)  x2 == PXBits(v)  z2 == PZBits(v)
                       S[i \in 0..Len(u)] == IF i = 0 THEN 0 ELSE S[i-1] + x1[i]*z2[i] + z1[i]*x2[i]
                   IN S[Len(u)] % 2
PIsZType(w) == \A i \in 1..Len(w) : w[i] \in {0, 3}
PDiagImage(w) == [i \in 1..Len(w) |-> IF w[i] = 0 THEN 0 ELSE 3]
PReorder(w, order) == [i \in 1..Len(order) |-> IF order[i] = 0 THEN 0 ELSE w[order[i]]]
RECURSIVE PSetToSeq(_)
PSetToSeq(S) == IF S = {} THEN <<>> ELSE
   LET m == CHOOSE x \in S : \A y \in S : PWordIdx(x) <= PWordIdx(y) IN <<m>> \o PSetToSeq(S \ {m})

\* --------------------------------------------------------------- sentences
SZero == <<>>
SCoef(s, w) == IF w \in DOMAIN s THEN s[w] ELSE GdZero
SNorm(s) == LET d == {w \in DOMAIN s : ~GdIsZero(s[w])} IN TLCEval([w \in d |-> GdNorm(s[w])])
SMono(c, w) == SNorm([x \in {w} |-> c])
SWord(w) == SMono(GdOne, w)
SAdd(s, t) == SNorm([w \in (DOMAIN s) \cup (DOMAIN t) |-> GdAdd(SCoef(s, w), SCoef(t, w))])
SScale(c, s) == SNorm([w \in DOMAIN s |-> GdMul(c, s[w])])
SNeg(s) == SScale(GdInt(-1), s)
SSub(s, t) == SAdd(s, SNeg(t))
\* sum of a sequence of <<word, coefficient>> pairs (repeated words add up)
SFromPairs(pp) == Bind(TLCEval(pp), LAMBDA ps : LET ws == {ps[k][1] : k \in DOMAIN ps} IN
   SNorm([w \in ws |-> LET A[k \in 0..Len(ps)] == IF k = 0 THEN GdZero
                                                    ELSE IF ps[k][1] = w THEN GdAdd(A[k-1], ps[k][2]) ELSE A[k-1]
                       IN A[Len(ps)]]))
SFromTerms(ts) == SFromPairs([k \in DOMAIN ts |-> <<ts[k].w, GdNorm(ts[k].c)>>])
STerms(s) == LET q == PSetToSeq(DOMAIN s) IN [k \in DOMAIN q |-> [w |-> q[k], c |-> s[q[k]]]]
\* bilinear extension of PWMul
SMul(ss, tt) == Bind2(ss, tt, LAMBDA s, t : Bind2(PSetToSeq(DOMAIN s), PSetToSeq(DOMAIN t), LAMBDA us, vs : LET lv == Len(vs) IN
   SFromPairs([k \in 1..(Len(us) * lv) |->
       LET u == us[((k-1) \div lv) + 1]  v == vs[((k-1) % lv) + 1]  r == PWMul(u, v)
       IN <<r.w, GdMul(GdIPow(r.p), GdMul(s[u], t[v]))>>])))
SCommutator(s, t) == SSub(SMul(s, t), SMul(t, s))
PCommutator(u, v) == SCommutator(SWord(u), SWord(v))
STrace(s, n) == SCoef(s, PIdWord(n))
SEq(s, t) == LET a == SNorm(s)  b == SNorm(t) IN DOMAIN a = DOMAIN b /\ \A w \in DOMAIN a : a[w] = b[w]
SReorder(s, order) == SFromPairs(LET q == PSetToSeq(DOMAIN s) IN [k \in DOMAIN q |-> <<PReorder(q[k], order), s[q[k]]>>])
SIsHermitian(s) == \A w \in DOMAIN s : s[w][2] = 0

\* ---------------------------------------------------------------- matrices
PMatZero(d) == [k |-> 0, e |-> TLCEval([i \in 1..d |-> TLCEval([j \in 1..d |-> Zero])])]
PMatAdd(aa, bb) == Bind2(aa, bb, LAMBDA a, b :
   LET kk == IF a.k > b.k THEN a.k ELSE b.k IN
   Bind2(ScaleUp(a, kk), ScaleUp(b, kk), LAMBDA x, y :
     Norm([k |-> kk, e |-> TLCEval([i \in 1..Len(x.e) |-> TLCEval([j \in 1..Len(x.e[1]) |-> Add(x.e[i][j], y.e[i][j])])])])))
PMatScaleG(c, mm) == Bind2(GdToRing(c), mm, LAMBDA r, m :
   Norm([k |-> m.k + c[3], e |-> TLCEval([i \in 1..Len(m.e) |-> TLCEval([j \in 1..Len(m.e[1]) |-> EMul(r, m.e[i][j])])])]))
PMatNeg(m) == PMatScaleG(GdInt(-1), m)
PMatSub(a, b) == PMatAdd(a, PMatNeg(b))
PMatTrace(mm) == Bind(mm, LAMBDA m :
   Norm([k |-> m.k, e |-> <<<< LET S[i \in 0..Len(m.e)] == IF i = 0 THEN Zero ELSE Add(S[i-1], m.e[i][i]) IN S[Len(m.e)] >>>>]))
RECURSIVE PWToMatR(_, _)
PWToMatR(w, i) == IF i = Len(w) THEN PLetMat(w[i]) ELSE Kron(PLetMat(w[i]), PWToMatR(w, i + 1))
PWToMat(w) == IF Len(w) = 0 THEN Ident(1) ELSE PWToMatR(w, 1)
PToMat(a) == PMatScaleG(GdIPow(a.p), PWToMat(a.w))
SToMat(ss, n) == Bind(ss, LAMBDA s : Bind(PSetToSeq(DOMAIN s), LAMBDA q :
                LET A[k \in 0..Len(q)] == IF k = 0 THEN PMatZero(2^n)
                                          ELSE PMatAdd(A[k-1], PMatScaleG(s[q[k]], PWToMat(q[k])))
                IN A[Len(q)]))
\* Hilbert-Schmidt coefficient tr(P_w m)/2^n of the word w in the matrix m, as a 1x1 matrix (the textbook Pauli decomposition)
PMatCoef(w, mm) == Bind2(PWToMat(w), mm, LAMBDA pm, m : LET d == Len(m.e) IN
   Norm([k |-> m.k + Len(w), e |-> <<<< LET S[x \in 0..(d*d)] == IF x = 0 THEN Zero ELSE
                                             LET i == ((x-1) \div d) + 1  j == ((x-1) % d) + 1 IN
                                             IF pm.e[i][j] = Zero \/ m.e[j][i] = Zero THEN S[x-1] ELSE Add(S[x-1], EMul(pm.e[i][j], m.e[j][i]))
                                        IN S[d*d] >>>>]))
=============================================================================
