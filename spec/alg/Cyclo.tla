------------------------------- MODULE Cyclo -------------------------------
(***************************************************************************)
(* The ring Z[zeta_N], N = 2^M (M >= 2), as integer coefficient vectors.   *)
(* An element is a tuple c of length H = N/2 meaning  SUM c[i+1]*zeta^i.   *)
(* Since Phi_N(x) = x^H + 1, zeta^H = -1 and multiplication is a          *)
(* negacyclic convolution.  Denominators (powers of 2) are carried by the  *)
(* matrix level (CMat.tla), never by elements.  No floating point.         *)
(* The angle lattice: theta = a * 4*pi/N; e^{i theta/2} = zeta^a.          *)
(***************************************************************************)
EXTENDS Integers, Sequences, TLC, CycloUnrolled
CONSTANT M
ASSUME M \in 2..6
N == 2^M
H == N \div 2
IdxH == 1..H

Zero == TLCEval([i \in IdxH |-> 0])
One  == TLCEval([i \in IdxH |-> IF i = 1 THEN 1 ELSE 0])
\* zeta^j for any integer j
Zeta(j) == LET r == j % N IN
  TLCEval([i \in IdxH |-> IF r < H THEN (IF i = r+1 THEN 1 ELSE 0)
                           ELSE (IF i = r-H+1 THEN -1 ELSE 0)])
ImI  == Zeta(N \div 4)                  \* the imaginary unit
Add(a,b) == TLCEval([i \in IdxH |-> a[i]+b[i]])
Sub(a,b) == TLCEval([i \in IdxH |-> a[i]-b[i]])
Neg(a)   == TLCEval([i \in IdxH |-> -a[i]])
Scale(c,a) == TLCEval([i \in IdxH |-> c*a[i]])
Int2C(c) == TLCEval([i \in IdxH |-> IF i = 1 THEN c ELSE 0])
\* a * zeta^j  (signed rotation, O(H))
MulZeta(a,j) == LET r == j % N IN
  TLCEval([i \in IdxH |-> LET s == (i-1-r) % N IN IF s < H THEN a[s+1] ELSE -a[s-H+1]])
\* generic negacyclic convolution (reference definition)
MulG(a,b) == TLCEval([i \in IdxH |->
   LET S[j \in 0..H] == IF j = 0 THEN 0
        ELSE S[j-1] + (IF j <= i THEN a[j]*b[i-j+1] ELSE -(a[j]*b[H+i-j+1]))
   IN S[H]])
Mul(a,b) == CASE H = 8 -> Mul8(a,b) [] H = 4 -> Mul4(a,b) [] H = 16 -> Mul16(a,b)
              [] H = 2 -> Mul2(a,b) [] OTHER -> MulG(a,b)
\* complex conjugation: zeta^i -> zeta^{-i} = -zeta^{H-i}
Conj(a) == TLCEval([i \in IdxH |-> IF i = 1 THEN a[1] ELSE -a[H-i+2]])
IsZero(a) == \A i \in IdxH : a[i] = 0
AllEven(a) == \A i \in IdxH : a[i] % 2 = 0
Halve(a) == TLCEval([i \in IdxH |-> a[i] \div 2])
MaxAbs(a) == LET ab(x) == IF x < 0 THEN -x ELSE x
                 \* bind S[j-1] once: referencing it twice made the recursion cost 2^H evaluations
                 S[j \in 0..H] == IF j = 0 THEN 0 ELSE LET p == S[j-1]  v == ab(a[j]) IN IF v > p THEN v ELSE p
             IN S[H]
\* 2cos(theta/2), 2sin(theta/2), e^{i theta/2}, e^{i theta}, e^{-i theta/2} at theta = a*4pi/N
C2(a) == Add(Zeta(a), Zeta(-a))
S2(a) == Neg(MulZeta(Sub(Zeta(a), Zeta(-a)), N \div 4))      \* -i (z^a - z^-a)
Sqrt2 == Add(Zeta(N \div 8), Zeta(-(N \div 8)))               \* needs M >= 3
=============================================================================
