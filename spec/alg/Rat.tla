-------------------------------- MODULE Rat --------------------------------
(***************************************************************************)
(* Exact rational arithmetic for specs.  A rational is a pair <<n, d>>     *)
(* with d > 0 and gcd(|n|, d) = 1 (normal form, so equality of rationals   *)
(* is equality of pairs; zero is <<0, 1>>).  Products cancel crosswise     *)
(* before multiplying to keep intermediate values small; TLC integers are  *)
(* 32 bit and TLC reports an overflow as an error (never silently), so a   *)
(* result that is printed is exact.                                        *)
(*                                                                         *)
(* Big: integers beyond 32 bit as two limbs <<hi, lo>> = hi*10^8 + lo,     *)
(* 0 <= lo < 10^8 (floor convention, hi carries the sign), closed under    *)
(* addition and multiplication by a small integer (|s| <= 20); enough for  *)
(* sums of c*s^j with |value| < 10^16.                                     *)
(***************************************************************************)
EXTENDS Integers, Sequences

Abs(x) == IF x < 0 THEN -x ELSE x
RECURSIVE GCD(_, _)
GCD(a, b) == IF b = 0 THEN a ELSE GCD(b, a % b)            \* a, b >= 0; GCD(0, 0) = 0
LCM(a, b) == (a \div GCD(a, b)) * b                        \* a, b > 0

IsRat(q) == /\ Len(q) = 2 /\ q[1] \in Int /\ q[2] \in Int /\ q[2] > 0 /\ GCD(Abs(q[1]), q[2]) = 1
RNorm(n, d) ==                                             \* d # 0
  LET g == GCD(Abs(n), Abs(d)) IN
  IF n = 0 THEN <<0, 1>> ELSE IF d < 0 THEN <<-(n \div g), (-d) \div g>> ELSE <<n \div g, d \div g>>
RInt(k) == <<k, 1>>
RZero == <<0, 1>>
ROne == <<1, 1>>
RIsZero(q) == q[1] = 0
RNeg(q) == <<-q[1], q[2]>>
RAdd(p, q) == LET g == GCD(p[2], q[2]) IN RNorm(p[1] * (q[2] \div g) + q[1] * (p[2] \div g), (p[2] \div g) * q[2])
RSub(p, q) == RAdd(p, RNeg(q))
RMul(p, q) ==
  IF p[1] = 0 \/ q[1] = 0 THEN RZero
  ELSE LET g1 == GCD(Abs(p[1]), q[2])  g2 == GCD(Abs(q[1]), p[2]) IN
       <<(p[1] \div g1) * (q[1] \div g2), (p[2] \div g2) * (q[2] \div g1)>>
RInv(q) == IF q[1] < 0 THEN <<-q[2], -q[1]>> ELSE <<q[2], q[1]>>      \* q # 0
RDiv(p, q) == RMul(p, RInv(q))
RLess(p, q) == p[1] * q[2] < q[1] * p[2]

\* common denominator of a sequence of rationals and the numerators over it
RECURSIVE LCMUpTo(_, _)
LCMUpTo(qs, k) == IF k = 0 THEN 1 ELSE LCM(LCMUpTo(qs, k - 1), qs[k][2])
CommonDen(qs) == LCMUpTo(qs, Len(qs))
NumsOver(qs, L) == [i \in 1..Len(qs) |-> qs[i][1] * (L \div qs[i][2])]

(* ------------------------------ two-limb integers ---------------------- *)
BigBase == 100000000
BigZero == <<0, 0>>
BigInt(x) == <<x \div BigBase, x % BigBase>>
BigAdd(a, b) == LET t == a[2] + b[2] IN <<a[1] + b[1] + (t \div BigBase), t % BigBase>>
BigMulSmall(a, s) == LET t == a[2] * s IN <<a[1] * s + (t \div BigBase), t % BigBase>>      \* |s| <= 20
RECURSIVE BigMulPow(_, _, _)
BigMulPow(a, s, j) == IF j = 0 THEN a ELSE BigMulPow(BigMulSmall(a, s), s, j - 1)            \* a * s^j
RECURSIVE BigMulFact(_, _)
BigMulFact(a, j) == IF j <= 1 THEN a ELSE BigMulFact(BigMulSmall(a, j), j - 1)               \* a * j!
=============================================================================
