-------------------------------- MODULE GF2 --------------------------------
(***************************************************************************)
(* Linear algebra over GF(2) for C50, written from the textbook            *)
(* definitions.  Vectors are sequences of bits, matrices are sequences of  *)
(* rows; shapes (m rows, n columns) are always passed explicitly so that   *)
(* m x 0 matrices are representable.                                       *)
(*                                                                         *)
(* TWO independent definitions of every notion:                            *)
(*  (BF)   brute force over all 2^n vectors / all 2^m row combinations     *)
(*         (RowSpace, ColSpace, Solutions, Kernel, RankBF, RrefBF) and the *)
(*         declarative predicate IsRREF;                                   *)
(*  (ELIM) Gauss-Jordan elimination as a step function (one row operation  *)
(*         per step: skip column / swap rows / clear column), tracking the *)
(*         row-transformation T with T*A = mat, from which rank, RREF,     *)
(*         solvability, a particular solution, a kernel basis and the      *)
(*         greedy column basis are read off.                               *)
(* GF2Gen.tla model-checks that they agree on every matrix it enumerates;  *)
(* Trace_GF2.tla validates the implementation's outputs against (BF) by    *)
(* substitution.                                                           *)
(***************************************************************************)
EXTENDS Integers, Sequences, FiniteSets, SequencesExt, TLC

Bit == {0, 1}
Vecs(n) == [1..n -> Bit]
Mats(m, n) == [1..m -> Vecs(n)]
Zero(n) == [i \in 1..n |-> 0]
Unit(i, n) == [j \in 1..n |-> IF j = i THEN 1 ELSE 0]
IdentM(m) == [i \in 1..m |-> Unit(i, m)]
MinOf(S) == CHOOSE x \in S : \A y \in S : x <= y
Parity(S) == Cardinality(S) % 2
VAdd(u, v) == [i \in DOMAIN u |-> (u[i] + v[i]) % 2]
Dot(u, v, n) == Parity({i \in 1..n : u[i] = 1 /\ v[i] = 1})
MulVec(A, x, m, n) == [i \in 1..m |-> Dot(A[i], x, n)]
Col(A, j, m) == [i \in 1..m |-> A[i][j]]
Transpose(A, m, n) == [j \in 1..n |-> Col(A, j, m)]
\* the combination of the rows of A selected by the bit vector c
Comb(A, c, m, n) == [j \in 1..n |-> Parity({i \in 1..m : c[i] = 1 /\ A[i][j] = 1})]
MatMul(T, A, k, m, n) == [i \in 1..k |-> Comb(A, T[i], m, n)]        \* T is k x m, A is m x n
IsBitVec(v, n) == Len(v) = n /\ \A i \in 1..n : v[i] \in Bit
IsBitMat(A, m, n) == Len(A) = m /\ \A i \in 1..m : IsBitVec(A[i], n)

(* ----------------------------- (BF) brute force ------------------------ *)
RowSpace(A, m, n) == {Comb(A, c, m, n) : c \in Vecs(m)}
ColSpace(A, m, n) == {MulVec(A, x, m, n) : x \in Vecs(n)}
Solutions(A, b, m, n) == {x \in Vecs(n) : MulVec(A, x, m, n) = b}
Kernel(A, m, n) == Solutions(A, Zero(m), m, n)
Log2(k) == CHOOSE e \in 0..30 : 2^e = k
RankBF(A, m, n) == Log2(Cardinality(RowSpace(A, m, n)))
ColRankBF(A, m, n) == Log2(Cardinality(ColSpace(A, m, n)))
Lead(v, n) == IF \E i \in 1..n : v[i] = 1 THEN MinOf({i \in 1..n : v[i] = 1}) ELSE 0

\* declarative reduced row-echelon form
IsRREF(R, m, n) ==
  /\ \A i \in 1..m : Lead(R[i], n) = 0 => \A k \in (i+1)..m : Lead(R[k], n) = 0
  /\ \A i \in 1..m : \A k \in (i+1)..m : Lead(R[k], n) # 0 => Lead(R[i], n) < Lead(R[k], n)
  /\ \A i \in 1..m : Lead(R[i], n) # 0 => \A k \in 1..m : k # i => R[k][Lead(R[i], n)] = 0

\* the RREF determined by a row space V: pivot columns are the leading positions occurring in V; the row of
\* pivot p is the unique member of V that leads at p and vanishes at every other pivot column
RrefOfSpace(V, m, n) ==
  LET P == {Lead(v, n) : v \in V} \ {0}
      ps == SetToSortSeq(P, LAMBDA a, b : a < b)
      rowOf(p) == CHOOSE v \in V : Lead(v, n) = p /\ \A q \in P \ {p} : v[q] = 0
  IN [i \in 1..m |-> IF i <= Len(ps) THEN rowOf(ps[i]) ELSE Zero(n)]
RrefBF(A, m, n) == RrefOfSpace(RowSpace(A, m, n), m, n)
IndependentBF(v, B, m, n) == v \notin ColSpace(B, m, n)          \* B is m x n, its columns are the family

(* ------------- the systems the consumers of the library pose ----------- *)
\* (SYM) qubit tapering: a Pauli word on q qubits is the bit vector (x|z) of length 2q; two words commute iff their
\* symplectic product vanishes.  The Z2 symmetries of a Hamiltonian whose terms are the rows of A (m x 2q) are the words
\* commuting with every term.  (Zero rows are identity terms.)
Symp(u, v, q) == (Dot(u, [i \in 1..q |-> v[q + i]], q) + Dot([i \in 1..q |-> u[q + i]], v, q)) % 2
SwapHalves(v, q) == [i \in 1..(2 * q) |-> IF i <= q THEN v[q + i] ELSE v[i - q]]
SymGroup(A, m, q) == {v \in Vecs(2 * q) : \A r \in 1..m : Symp(A[r], v, q) = 0}
\* (ROWSEL) CNOT routing (RowCol, row elimination): the set of rows of a regular P (k x k) whose sum is the unit vector
\* e_i, i.e. the solutions c of P^T c = e_i, by brute force over all 2^k selections
RowSelections(P, i, k) == {c \in Vecs(k) : Comb(P, c, k, k) = Unit(i, k)}

(* ------------------------ (ELIM) Gauss-Jordan, stepwise ---------------- *)
SwapRows(M, a, b) == [M EXCEPT ![a] = M[b], ![b] = M[a]]
ElimInit(A, m) == [mat |-> A, T |-> IdentM(m), r |-> 1, c |-> 1, piv |-> <<>>]
ElimDone(e, m, n) == e.r > m \/ e.c > n
ElimStep(e, m, n) ==
  LET cand == {i \in e.r..m : e.mat[i][e.c] = 1} IN
  IF cand = {} THEN [e EXCEPT !.c = @ + 1]                                         \* no pivot in this column
  ELSE IF e.mat[e.r][e.c] = 0
       THEN LET k == MinOf(cand) IN [e EXCEPT !.mat = SwapRows(@, e.r, k), !.T = SwapRows(@, e.r, k)]
       ELSE LET hit == {i \in 1..m : i # e.r /\ e.mat[i][e.c] = 1} IN                \* clear the column
            [e EXCEPT !.mat = [i \in 1..m |-> IF i \in hit THEN VAdd(e.mat[i], e.mat[e.r]) ELSE e.mat[i]],
                      !.T = [i \in 1..m |-> IF i \in hit THEN VAdd(e.T[i], e.T[e.r]) ELSE e.T[i]],
                      !.piv = Append(@, e.c), !.r = @ + 1, !.c = @ + 1]
\* read-offs, valid when ElimDone
RankE(e) == Len(e.piv)
SolvableE(e, b, m) == LET tb == MulVec(e.T, b, m, m) IN \A i \in (RankE(e)+1)..m : tb[i] = 0
ParticularE(e, b, m, n) == LET tb == MulVec(e.T, b, m, m) IN
  [j \in 1..n |-> IF \E i \in 1..RankE(e) : e.piv[i] = j THEN tb[CHOOSE i \in 1..RankE(e) : e.piv[i] = j] ELSE 0]
NumSolutionsE(e, b, m, n) == IF SolvableE(e, b, m) THEN 2^(n - RankE(e)) ELSE 0
FreeCols(e, n) == SetToSortSeq({j \in 1..n : \A i \in 1..RankE(e) : e.piv[i] # j}, LAMBDA a, b : a < b)
\* one kernel vector per free column f: x_f = 1, x_{piv i} = R[i][f]
KernelBasisE(e, n) == LET fc == FreeCols(e, n) IN
  [k \in 1..Len(fc) |-> [j \in 1..n |-> IF j = fc[k] THEN 1
                                         ELSE IF \E i \in 1..RankE(e) : e.piv[i] = j
                                              THEN e.mat[CHOOSE i \in 1..RankE(e) : e.piv[i] = j][fc[k]] ELSE 0]]
=============================================================================
