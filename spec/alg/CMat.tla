------------------------------- MODULE CMat --------------------------------
(***************************************************************************)
(* Matrices over Z[zeta_N][1/2].  A matrix is [k |-> Nat, e |-> rows] and  *)
(* denotes e / 2^k; e is a tuple of rows, each a tuple of Cyclo elements.  *)
(* Wire convention: n wires numbered 1..n, wire 1 = most significant bit   *)
(* of the (0-based) basis index, as in PennyLane.                          *)
(***************************************************************************)
EXTENDS Cyclo
\* TLC builds [x \in S |-> e] lazily and re-evaluates e at every application: force every level.
Dim(m) == Len(m.e)
NCols(m) == Len(m.e[1])
Ident(d) == [k |-> 0, e |-> TLCEval([i \in 1..d |-> TLCEval([j \in 1..d |-> IF i = j THEN One ELSE Zero])])]
BasisCol(d, b) == [k |-> 0, e |-> TLCEval([i \in 1..d |-> <<IF i = b+1 THEN One ELSE Zero>>])]

AllEvenM(m) == \A i \in 1..Len(m.e) : \A j \in 1..Len(m.e[i]) : AllEven(m.e[i][j])
RECURSIVE Norm(_)
Norm(m) == IF m.k > 0 /\ AllEvenM(m)
           THEN Norm([k |-> m.k - 1, e |-> TLCEval([i \in 1..Len(m.e) |-> TLCEval([j \in 1..Len(m.e[i]) |-> Halve(m.e[i][j])])])])
           ELSE m
MaxAbsM(m) == LET mx(a,b) == IF a > b THEN a ELSE b
                  R[i \in 0..Len(m.e)] == IF i = 0 THEN 0 ELSE
                     LET Cc[j \in 0..Len(m.e[i])] == IF j = 0 THEN 0 ELSE mx(Cc[j-1], MaxAbs(m.e[i][j]))
                     IN mx(R[i-1], Cc[Len(m.e[i])])
              IN R[Len(m.e)]
\* overflow guard: TLC integers are 32 bit; products of two coefficients below 2^14 summed H*8 times stay safe
Bound == 2^20
InBound(m) == MaxAbsM(m) < Bound

\* smart product of a gate entry with an element
EMul(g, x) == IF g = One THEN x ELSE IF g = Zero THEN Zero ELSE Mul(g, x)

Bit(i, w, n) == (i \div 2^(n-w)) % 2

(* Apply a q-wire gate g (2^q x 2^q, [k,e]) on wires ws (sequence of distinct wires in 1..n)  *)
(* to the matrix u (2^n rows, any number of columns) from the left.                            *)
ApplyGate(u, g, ws, n) ==
  LET q == Len(ws)
      D == 2^n
      Q == 2^q
      sub == [i \in 0..D-1 |->
                LET S[t \in 0..q] == IF t = 0 THEN 0 ELSE 2*S[t-1] + Bit(i, ws[t], n) IN S[q]]
      msk == [i \in 0..D-1 |->
                LET S[t \in 0..q] == IF t = 0 THEN i ELSE S[t-1] - Bit(i, ws[t], n) * 2^(n-ws[t]) IN S[q]]
      plc == [a \in 0..Q-1 |->
                LET S[t \in 0..q] == IF t = 0 THEN 0 ELSE S[t-1] + Bit(a, t, q) * 2^(n-ws[t]) IN S[q]]
      nc == Len(u.e[1])
      row(i) == LET r == sub[i]  b == msk[i] IN
                TLCEval([j \in 1..nc |->
                   LET S[a \in 0..Q] == IF a = 0 THEN Zero ELSE
                         LET ge == g.e[r+1][a] IN
                         IF ge = Zero THEN S[a-1] ELSE Add(S[a-1], EMul(ge, u.e[b + plc[a-1] + 1][j]))
                   IN S[Q]])
  IN Norm([k |-> u.k + g.k, e |-> TLCEval([i \in 1..D |-> row(i-1)])])

\* plain matrix product (square or rectangular), a*b
MatMul(a, b) ==
  LET inner == Len(b.e) IN
  Norm([k |-> a.k + b.k,
        e |-> TLCEval([i \in 1..Len(a.e) |-> TLCEval([j \in 1..Len(b.e[1]) |->
                 LET S[t \in 0..inner] == IF t = 0 THEN Zero ELSE
                       IF a.e[i][t] = Zero \/ b.e[t][j] = Zero THEN S[t-1]
                       ELSE Add(S[t-1], EMul(a.e[i][t], b.e[t][j]))
                 IN S[inner]])])])
Dagger(a) == [k |-> a.k, e |-> TLCEval([i \in 1..Len(a.e[1]) |-> TLCEval([j \in 1..Len(a.e) |-> Conj(a.e[j][i])])])]
Kron(a, b) ==
  LET rb == Len(b.e)  cb == Len(b.e[1]) IN
  Norm([k |-> a.k + b.k,
        e |-> TLCEval([i \in 1..Len(a.e)*rb |-> TLCEval([j \in 1..Len(a.e[1])*cb |->
                 EMul(a.e[((i-1) \div rb) + 1][((j-1) \div cb) + 1], b.e[((i-1) % rb) + 1][((j-1) % cb) + 1])])])])

\* exact equality of denoted matrices (both normalised => compare after aligning exponents)
RECURSIVE ScaleUp(_, _)
ScaleUp(m, k) == IF m.k >= k THEN m ELSE
   ScaleUp([k |-> m.k + 1, e |-> TLCEval([i \in 1..Len(m.e) |-> TLCEval([j \in 1..Len(m.e[i]) |-> Scale(2, m.e[i][j])])])], k)
EqExact(a, b) == LET kk == IF a.k > b.k THEN a.k ELSE b.k IN ScaleUp(a, kk).e = ScaleUp(b, kk).e
\* equality up to a scalar: cross-multiplication against a pivot of a (no division)
Pivot(a) == CHOOSE ij \in (1..Len(a.e)) \X (1..Len(a.e[1])) : ~IsZero(a.e[ij[1]][ij[2]])
IsZeroM(a) == \A i \in 1..Len(a.e) : \A j \in 1..Len(a.e[1]) : IsZero(a.e[i][j])
EqUpToScalar(a, b) ==
  IF IsZeroM(a) THEN IsZeroM(b) ELSE
  LET p == Pivot(a)  pa == a.e[p[1]][p[2]]  pb == b.e[p[1]][p[2]] IN
  /\ ~IsZero(pb)
  /\ \A i \in 1..Len(a.e) : \A j \in 1..Len(a.e[1]) :
        Mul(a.e[i][j], pb) = Mul(b.e[i][j], pa)
IsUnitary(a) == EqExact(MatMul(Dagger(a), a), Ident(Len(a.e)))
=============================================================================
