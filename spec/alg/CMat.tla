------------------------------- MODULE CMat --------------------------------
(***************************************************************************)
(* Matrices over Z[zeta_N][1/2].  A matrix is [k |-> Nat, e |-> rows] and  *)
(* denotes e / 2^k; e is a tuple of rows, each a tuple of Cyclo elements.  *)
(* Wire convention: n wires numbered 1..n, wire 1 = most significant bit   *)
(* of the (0-based) basis index, as in PennyLane.                          *)
(***************************************************************************)
EXTENDS Cyclo
\* TLC builds [x \in S |-> e] lazily and re-evaluates e at every application: force every level.
\* Strict binding: TLC re-evaluates LET definitions and operator ARGUMENTS at every reference (measured: a
\* normalisation of a D x D matrix passed as an argument cost D^2 re-evaluations).  The bound variable of a set
\* constructor is bound to a VALUE: Bind(v, F) evaluates v once and then F(that value).  Every operator below that
\* takes a matrix binds it first.
Bind(v, F(_)) == CHOOSE r \in {F(t) : t \in {v}} : TRUE
Bind2(v, w, F(_, _)) == CHOOSE r \in {F(t[1], t[2]) : t \in {<<v, w>>}} : TRUE
Dim(m) == Len(m.e)
NCols(m) == Len(m.e[1])
Ident(d) == [k |-> 0, e |-> TLCEval([i \in 1..d |-> TLCEval([j \in 1..d |-> IF i = j THEN One ELSE Zero])])]
BasisCol(d, b) == [k |-> 0, e |-> TLCEval([i \in 1..d |-> <<IF i = b+1 THEN One ELSE Zero>>])]

AllEvenM(m) == \A i \in 1..Len(m.e) : \A j \in 1..Len(m.e[i]) : AllEven(m.e[i][j])
RECURSIVE NormV(_)
NormV(m) == IF m.k > 0 /\ AllEvenM(m)
            THEN Bind([k |-> m.k - 1, e |-> TLCEval([i \in 1..Len(m.e) |-> TLCEval([j \in 1..Len(m.e[i]) |-> Halve(m.e[i][j])])])], LAMBDA v : NormV(v))
            ELSE m
Norm(m) == Bind(m, LAMBDA v : NormV(v))
MaxAbsM(m) == LET mx(a,b) == IF a > b THEN a ELSE b
                  R[i \in 0..Len(m.e)] == IF i = 0 THEN 0 ELSE
                     LET Cc[j \in 0..Len(m.e[i])] == IF j = 0 THEN 0 ELSE mx(Cc[j-1], MaxAbs(m.e[i][j]))
                     IN mx(R[i-1], Cc[Len(m.e[i])])
              IN R[Len(m.e)]
\* overflow guard: TLC integers are 32 bit; products of two coefficients below 2^14 summed H*8 times stay safe
Bound == 2^20
InBound(m) == MaxAbsM(m) < Bound

\* smart product of a gate entry with an element
EMul(g, x) == IF g = One THEN x ELSE IF g = Zero THEN Zero ELSE Mul(g, x)

Bit(i, w, n) == (i \div 2^(n-w)) % 2

(* Apply a q-wire gate g (2^q x 2^q, [k,e]) on wires ws (sequence of distinct wires in 1..n)  *)
(* to the matrix u (2^n rows, any number of columns) from the left.                            *)
(* Gate entries are almost always sparse ring elements (monomials, cos = (z^a + z^-a)/2, ...):  *)
(* each row of the gate is flattened once into terms <<a, shift, coef>> meaning coef*zeta^shift *)
(* times column a, and an entry of the result is a fused fold acc + coef * rot(x, shift).       *)
SparseOf(x) == SelectSeq([j \in 1..H |-> <<j-1, x[j]>>], LAMBDA t : t[2] # 0)
RowTerms(g, r, Q) ==
  LET S[a \in 0..Q] == IF a = 0 THEN <<>> ELSE
        Bind(SparseOf(g.e[r][a]), LAMBDA sp : S[a-1] \o [t \in 1..Len(sp) |-> <<a, sp[t][1], sp[t][2]>>])
  IN S[Q]
\* acc + c * zeta^sh * x   (one fused pass over the H coefficients)
AddRot(acc, x, sh, c) ==
  TLCEval([m \in IdxH |-> LET s == (m-1-sh) % N IN acc[m] + c * (IF s < H THEN x[s+1] ELSE -x[s-H+1])])
\* index tables for a gate on wires ws of an n-wire register
SubIdx(ws, n) == LET q == Len(ws) IN TLCEval([i \in 0..2^n-1 |->
                LET S[t \in 0..q] == IF t = 0 THEN 0 ELSE 2*S[t-1] + Bit(i, ws[t], n) IN S[q]])
MskIdx(ws, n) == LET q == Len(ws) IN TLCEval([i \in 0..2^n-1 |->
                LET S[t \in 0..q] == IF t = 0 THEN i ELSE S[t-1] - Bit(i, ws[t], n) * 2^(n-ws[t]) IN S[q]])
PlcIdx(ws, n) == LET q == Len(ws) IN TLCEval([a \in 0..2^q-1 |->
                LET S[t \in 0..q] == IF t = 0 THEN 0 ELSE S[t-1] + Bit(a, t, q) * 2^(n-ws[t]) IN S[q]])
ApplyRows(u, terms, sub, msk, plc, D, nc) ==
  TLCEval([i \in 1..D |->
     Bind(terms[sub[i-1]+1], LAMBDA tr :
       TLCEval([j \in 1..nc |->
          LET S[t \in 0..Len(tr)] == IF t = 0 THEN Zero ELSE
                AddRot(S[t-1], u.e[msk[i-1] + plc[tr[t][1]-1] + 1][j], tr[t][2], tr[t][3])
          IN S[Len(tr)]]))])
\* dense variant (measured faster for H <= 8, where the unrolled product is cheap)
ApplyRowsDense(u, g, sub, msk, plc, D, Q, nc) ==
  TLCEval([i \in 1..D |->
     TLCEval([j \in 1..nc |->
        LET S[a \in 0..Q] == IF a = 0 THEN Zero ELSE
              LET ge == g.e[sub[i-1]+1][a] IN
              IF ge = Zero THEN S[a-1] ELSE Add(S[a-1], EMul(ge, u.e[msk[i-1] + plc[a-1] + 1][j]))
        IN S[Q]])])
ApplyGateDense(uu, gg, ws, n) == Bind2(uu, gg, LAMBDA u, g :
  Bind(SubIdx(ws, n), LAMBDA sub :
  Bind(MskIdx(ws, n), LAMBDA msk :
  Bind(PlcIdx(ws, n), LAMBDA plc :
    Norm([k |-> u.k + g.k, e |-> ApplyRowsDense(u, g, sub, msk, plc, 2^n, 2^Len(ws), Len(u.e[1]))])))))
ApplyGateSparse(uu, gg, ws, n) == Bind2(uu, gg, LAMBDA u, g :
  Bind(TLCEval([r \in 1..2^Len(ws) |-> TLCEval(RowTerms(g, r, 2^Len(ws)))]), LAMBDA terms :
  Bind(SubIdx(ws, n), LAMBDA sub :
  Bind(MskIdx(ws, n), LAMBDA msk :
  Bind(PlcIdx(ws, n), LAMBDA plc :
    Norm([k |-> u.k + g.k, e |-> ApplyRows(u, terms, sub, msk, plc, 2^n, Len(u.e[1]))]))))))

ApplyGate(u, g, ws, n) == IF H <= 8 THEN ApplyGateDense(u, g, ws, n) ELSE ApplyGateSparse(u, g, ws, n)

\* plain matrix product (square or rectangular), a*b
MatMul(aa, bb) == Bind2(aa, bb, LAMBDA a, b :
  LET inner == Len(b.e) IN
  Norm([k |-> a.k + b.k,
        e |-> TLCEval([i \in 1..Len(a.e) |-> TLCEval([j \in 1..Len(b.e[1]) |->
                 LET S[t \in 0..inner] == IF t = 0 THEN Zero ELSE
                       IF a.e[i][t] = Zero \/ b.e[t][j] = Zero THEN S[t-1]
                       ELSE Add(S[t-1], EMul(a.e[i][t], b.e[t][j]))
                 IN S[inner]])])]))
Dagger(aa) == Bind(aa, LAMBDA a : [k |-> a.k, e |-> TLCEval([i \in 1..Len(a.e[1]) |-> TLCEval([j \in 1..Len(a.e) |-> Conj(a.e[j][i])])])])
Kron(aa, bb) == Bind2(aa, bb, LAMBDA a, b :
  LET rb == Len(b.e)  cb == Len(b.e[1]) IN
  Norm([k |-> a.k + b.k,
        e |-> TLCEval([i \in 1..Len(a.e)*rb |-> TLCEval([j \in 1..Len(a.e[1])*cb |->
                 EMul(a.e[((i-1) \div rb) + 1][((j-1) \div cb) + 1], b.e[((i-1) % rb) + 1][((j-1) % cb) + 1])])])]))

\* exact equality of denoted matrices (both normalised => compare after aligning exponents)
RECURSIVE ScaleUpV(_, _)
ScaleUpV(m, k) == IF m.k >= k THEN m ELSE
   Bind([k |-> m.k + 1, e |-> TLCEval([i \in 1..Len(m.e) |-> TLCEval([j \in 1..Len(m.e[i]) |-> Scale(2, m.e[i][j])])])], LAMBDA v : ScaleUpV(v, k))
ScaleUp(mm, k) == Bind(mm, LAMBDA m : ScaleUpV(m, k))
EqExact(aa, bb) == Bind2(aa, bb, LAMBDA a, b : LET kk == IF a.k > b.k THEN a.k ELSE b.k IN ScaleUp(a, kk).e = ScaleUp(b, kk).e)
\* equality up to a scalar: cross-multiplication against a pivot of a (no division)
Pivot(a) == CHOOSE ij \in (1..Len(a.e)) \X (1..Len(a.e[1])) : ~IsZero(a.e[ij[1]][ij[2]])
IsZeroM(a) == \A i \in 1..Len(a.e) : \A j \in 1..Len(a.e[1]) : IsZero(a.e[i][j])
EqUpToScalar(aa, bb) == Bind2(aa, bb, LAMBDA a, b :
  IF IsZeroM(a) THEN IsZeroM(b) ELSE
  Bind(Pivot(a), LAMBDA p : Bind2(a.e[p[1]][p[2]], b.e[p[1]][p[2]], LAMBDA pa, pb :
  /\ ~IsZero(pb)
  /\ \A i \in 1..Len(a.e) : \A j \in 1..Len(a.e[1]) :
        Mul(a.e[i][j], pb) = Mul(b.e[i][j], pa))))
IsUnitary(aa) == Bind(aa, LAMBDA a : EqExact(MatMul(Dagger(a), a), Ident(Len(a.e))))
=============================================================================
