------------------------------- MODULE Gates -------------------------------
(***************************************************************************)
(* THE REFERENCE TABLE.  Every named gate as an exact matrix over          *)
(* Z[zeta_N][1/2], transcribed from the *documented formulas* (the         *)
(* docstrings / doc pages), first listed wire = most significant qubit.    *)
(* It is NOT derived from PennyLane's compute_matrix.  GatesSelf.tla       *)
(* model-checks this table against its own algebraic laws (unitarity,      *)
(* additivity, exp(-i theta G) = Gate(theta), controlled forms, ...).      *)
(*                                                                         *)
(* Angles are integers a meaning theta = a * 4*pi/N (N = 2^M), so that     *)
(* e^{i theta/2} = zeta^a is a ring element.                               *)
(*                                                                         *)
(* A gate instance is a record                                             *)
(*   [g: name, w: wires (1..n), p: <<angle ints>>, x: <<extra ints>>,      *)
(*    m: matrix data or <<>>, mods: <<modifier records>>]                  *)
(* mods are applied innermost first:  [t |-> "adj"], [t |-> "pow", z],     *)
(* [t |-> "ctrl", cv |-> <<0/1 control values>>].                          *)
(***************************************************************************)
EXTENDS CMat

Mx(k, rows) == [k |-> k, e |-> rows]
mOne == Neg(One)
J  == ImI
mJ == Neg(ImI)
E(a)  == Zeta(a)           \* e^{ i theta/2}
Em(a) == Zeta(-a)          \* e^{-i theta/2}
P(a)  == Zeta(2*a)         \* e^{ i theta}
c2(a) == C2(a)             \* 2 cos(theta/2)
s2(a) == S2(a)             \* 2 sin(theta/2)
mis2(a) == Mul(mJ, S2(a))  \* -2i sin(theta/2)
is2(a)  == Mul(J, S2(a))   \*  2i sin(theta/2)
Two == Int2C(2)
O == Zero

\* ---------------------------------------------------------------- 1 qubit
MI  == Mx(0, << <<One, O>>, <<O, One>> >>)
MX  == Mx(0, << <<O, One>>, <<One, O>> >>)
MY  == Mx(0, << <<O, mJ>>, <<J, O>> >>)
MZ  == Mx(0, << <<One, O>>, <<O, mOne>> >>)
MH  == Mx(1, << <<Sqrt2, Sqrt2>>, <<Sqrt2, Neg(Sqrt2)>> >>)
MS  == Mx(0, << <<One, O>>, <<O, J>> >>)
MT  == Mx(0, << <<One, O>>, <<O, Zeta(N \div 8)>> >>)
MSX == Mx(1, << <<Add(One, J), Sub(One, J)>>, <<Sub(One, J), Add(One, J)>> >>)
MRX(a) == Mx(1, << <<c2(a), mis2(a)>>, <<mis2(a), c2(a)>> >>)
MRY(a) == Mx(1, << <<c2(a), Neg(s2(a))>>, <<s2(a), c2(a)>> >>)
MRZ(a) == Mx(0, << <<Em(a), O>>, <<O, E(a)>> >>)
MPhase(a) == Mx(0, << <<One, O>>, <<O, P(a)>> >>)
\* Rot(phi, theta, omega) = RZ(omega) RY(theta) RZ(phi)
MRot(f, t, w) == Mx(1, << <<Mul(Zeta(-(f+w)), c2(t)), Neg(Mul(Zeta(f-w), s2(t)))>>,
                          <<Mul(Zeta(-(f-w)), s2(t)), Mul(Zeta(f+w), c2(t))>> >>)
MU2(f, d) == Mx(1, << <<Sqrt2, Neg(Mul(Sqrt2, P(d)))>>, <<Mul(Sqrt2, P(f)), Mul(Sqrt2, P(f+d))>> >>)
MU3(t, f, d) == Mx(1, << <<c2(t), Neg(Mul(P(d), s2(t)))>>, <<Mul(P(f), s2(t)), Mul(P(f+d), c2(t))>> >>)

\* ---------------------------------------------------------------- helpers
Diag(k, es) == Mx(k, TLCEval([i \in 1..Len(es) |-> TLCEval([j \in 1..Len(es) |-> IF i = j THEN es[i] ELSE O])]))
\* controlled version: control qubits are the most significant; g applied iff controls = cv
CtrlM(g, cv) ==
  LET nc == Len(cv)  d == Len(g.e)  DD == (2^nc) * d
      sel == LET S[t \in 0..nc] == IF t = 0 THEN 0 ELSE 2*S[t-1] + cv[t] IN S[nc]
      one == Int2C(2^g.k)
  IN Mx(g.k, TLCEval([i \in 1..DD |-> TLCEval([j \in 1..DD |->
        LET bi == (i-1) \div d  bj == (j-1) \div d IN
        IF bi # bj THEN O
        ELSE IF bi = sel THEN g.e[((i-1) % d) + 1][((j-1) % d) + 1]
        ELSE IF i = j THEN one ELSE O])]))
Ones(n) == [i \in 1..n |-> 1]
RECURSIVE MatPow(_, _)
MatPow(g, z) == IF z = 0 THEN Ident(Len(g.e)) ELSE IF z < 0 THEN MatPow(Dagger(g), -z)
                ELSE IF z = 1 THEN g ELSE MatMul(g, MatPow(g, z-1))
\* Pauli word (sequence over 0..3 = I,X,Y,Z) as a matrix
Pauli1(c) == CASE c = 0 -> MI [] c = 1 -> MX [] c = 2 -> MY [] c = 3 -> MZ
RECURSIVE PauliM(_)
PauliM(pw) == IF Len(pw) = 1 THEN Pauli1(pw[1]) ELSE Kron(Pauli1(pw[1]), PauliM(Tail(pw)))
\* a + b on matrices with exponents
MAdd(a, b) == LET kk == IF a.k > b.k THEN a.k ELSE b.k  aa == ScaleUp(a, kk)  bb == ScaleUp(b, kk) IN
   Norm(Mx(kk, TLCEval([i \in 1..Len(aa.e) |-> TLCEval([j \in 1..Len(aa.e[1]) |-> Add(aa.e[i][j], bb.e[i][j])])])))
MScale(c, a) == Norm(Mx(a.k, TLCEval([i \in 1..Len(a.e) |-> TLCEval([j \in 1..Len(a.e[1]) |-> Mul(c, a.e[i][j])])])))
RECURSIVE Parity(_)
Parity(v) == IF v = 0 THEN 0 ELSE ((v % 2) + Parity(v \div 2)) % 2
Perm(d, f(_)) == Mx(0, TLCEval([i \in 1..d |-> TLCEval([j \in 1..d |-> IF f(j-1) = i-1 THEN One ELSE O])]))

\* ---------------------------------------------------------------- 2 qubits
MCNOT == CtrlM(MX, <<1>>)
MCY   == CtrlM(MY, <<1>>)
MCZ   == CtrlM(MZ, <<1>>)
MCH   == CtrlM(MH, <<1>>)
MSWAP == Mx(0, << <<One,O,O,O>>, <<O,O,One,O>>, <<O,One,O,O>>, <<O,O,O,One>> >>)
MISWAP == Mx(0, << <<One,O,O,O>>, <<O,O,J,O>>, <<O,J,O,O>>, <<O,O,O,One>> >>)
MSISWAP == Mx(1, << <<Two,O,O,O>>, <<O,Sqrt2,Mul(J,Sqrt2),O>>, <<O,Mul(J,Sqrt2),Sqrt2,O>>, <<O,O,O,Two>> >>)
MECR == LET r == Sqrt2  ir == Mul(J, Sqrt2)  mir == Neg(Mul(J, Sqrt2)) IN
        Mx(1, << <<O,O,r,ir>>, <<O,O,ir,r>>, <<r,mir,O,O>>, <<mir,r,O,O>> >>)
MCRX(a) == CtrlM(MRX(a), <<1>>)
MCRY(a) == CtrlM(MRY(a), <<1>>)
MCRZ(a) == CtrlM(MRZ(a), <<1>>)
MCRot(f,t,w) == CtrlM(MRot(f,t,w), <<1>>)
MCPhase(a) == Diag(0, <<One, One, One, P(a)>>)
MCPhase00(a) == Diag(0, <<P(a), One, One, One>>)
MCPhase01(a) == Diag(0, <<One, P(a), One, One>>)
MCPhase10(a) == Diag(0, <<One, One, P(a), One>>)
MIsingXX(a) == LET c == c2(a) s == mis2(a) IN Mx(1, << <<c,O,O,s>>, <<O,c,s,O>>, <<O,s,c,O>>, <<s,O,O,c>> >>)
MIsingYY(a) == LET c == c2(a) s == mis2(a) t == is2(a) IN Mx(1, << <<c,O,O,t>>, <<O,c,s,O>>, <<O,s,c,O>>, <<t,O,O,c>> >>)
MIsingZZ(a) == Diag(0, <<Em(a), E(a), E(a), Em(a)>>)
MIsingXY(a) == LET c == c2(a) t == is2(a) IN Mx(1, << <<Two,O,O,O>>, <<O,c,t,O>>, <<O,t,c,O>>, <<O,O,O,Two>> >>)
MPSWAP(a) == Mx(0, << <<One,O,O,O>>, <<O,O,P(a),O>>, <<O,P(a),O,O>>, <<O,O,O,One>> >>)
MSingleExc(a) == LET c == c2(a) s == s2(a) IN Mx(1, << <<Two,O,O,O>>, <<O,c,Neg(s),O>>, <<O,s,c,O>>, <<O,O,O,Two>> >>)
MSingleExcPlus(a) == LET c == c2(a) s == s2(a) e == Scale(2, E(a)) IN Mx(1, << <<e,O,O,O>>, <<O,c,Neg(s),O>>, <<O,s,c,O>>, <<O,O,O,e>> >>)
MSingleExcMinus(a) == LET c == c2(a) s == s2(a) e == Scale(2, Em(a)) IN Mx(1, << <<e,O,O,O>>, <<O,c,Neg(s),O>>, <<O,s,c,O>>, <<O,O,O,e>> >>)
MFermionicSWAP(a) == LET ec == Mul(E(a), c2(a))  es == Mul(E(a), mis2(a)) IN
        Mx(1, << <<Two,O,O,O>>, <<O,ec,es,O>>, <<O,es,ec,O>>, <<O,O,O,Scale(2, P(a))>> >>)

\* ---------------------------------------------------------------- 3+ qubits
MToffoli == CtrlM(MX, <<1,1>>)
MCCZ == CtrlM(MZ, <<1,1>>)
MCSWAP == CtrlM(MSWAP, <<1>>)
MMultiRZ(a, n) == Diag(0, [i \in 1..2^n |-> IF Parity(i-1) = 0 THEN Em(a) ELSE E(a)])
\* exp(-i theta/2 P) = cos(theta/2) I - i sin(theta/2) P
MPauliRot(a, pw) == LET d == 2^Len(pw)  Pm == PauliM(pw)  cc == c2(a)  ss == mis2(a) IN
   Mx(1, TLCEval([i \in 1..d |-> TLCEval([j \in 1..d |->
        Add(IF i = j THEN cc ELSE O, EMul(Pm.e[i][j], ss))])]))
\* DoubleExcitation: rotation in span{|0011>, |1100>} (indices 3 and 12)
MDoubleExcG(a, ph) == LET c == c2(a) s == s2(a) IN
   Mx(1, TLCEval([i \in 1..16 |-> TLCEval([j \in 1..16 |->
        IF i = 4 /\ j = 4 THEN c ELSE IF i = 13 /\ j = 13 THEN c
        ELSE IF i = 4 /\ j = 13 THEN Neg(s) ELSE IF i = 13 /\ j = 4 THEN s
        ELSE IF i = j /\ i # 4 /\ i # 13 THEN ph ELSE O])]))
MDoubleExc(a) == MDoubleExcG(a, Two)
MDoubleExcPlus(a) == MDoubleExcG(a, Scale(2, E(a)))
MDoubleExcMinus(a) == MDoubleExcG(a, Scale(2, Em(a)))
\* QFT on n wires: entries omega^{jk} / sqrt(2)^n, omega = e^{2 pi i/2^n}  (needs N >= 2^n)
MQFT(n) == LET d == 2^n  st == N \div d
               pref == IF n % 2 = 0 THEN One ELSE Sqrt2
               kk == (n + 1) \div 2 IN
   Mx(kk, TLCEval([i \in 1..d |-> TLCEval([j \in 1..d |-> MulZeta(pref, st*(i-1)*(j-1))])]))
\* GlobalPhase(phi) = e^{-i phi} on however many wires it is given (at least one is used here)
MGlobalPhase(a, n) == Diag(0, [i \in 1..2^n |-> Zeta(-2*a)])
\* MultiControlledX: x = control values
MMCX(cv) == CtrlM(MX, cv)
\* matrix data from the trace: m = [k, e] with e rows of coefficient tuples
MData(m) == Mx(m.k, m.e)
\* basis-state permutations (arithmetic primitives): x[1] names the function
MQubitSum   == Perm(8, LAMBDA i : LET a == (i \div 4) % 2 b == (i \div 2) % 2 c == i % 2 IN 4*a + 2*b + ((a+b+c) % 2))
MQubitCarry == Perm(16, LAMBDA i : LET a == (i \div 8) % 2 b == (i \div 4) % 2 c == (i \div 2) % 2 d == i % 2 IN
                    8*a + 4*b + 2*((b+c) % 2) + ((d + b*c + ((b+c)%2)*a) % 2))

\* number of target wires of a record: its wires minus the control wires added by ctrl modifiers
GNumCtrl(r) == LET S[i \in 0..Len(r.mods)] == IF i = 0 THEN 0 ELSE S[i-1] + (IF r.mods[i].t = "ctrl" THEN Len(r.mods[i].cv) ELSE 0) IN S[Len(r.mods)]
NT(r) == Len(r.w) - GNumCtrl(r)
GateBase(r) ==
  LET g == r.g  p == r.p IN
  CASE g = "Identity" -> Ident(2^NT(r))
    [] g = "PauliX" -> MX [] g = "PauliY" -> MY [] g = "PauliZ" -> MZ
    [] g = "Hadamard" -> MH [] g = "S" -> MS [] g = "T" -> MT [] g = "SX" -> MSX
    [] g = "RX" -> MRX(p[1]) [] g = "RY" -> MRY(p[1]) [] g = "RZ" -> MRZ(p[1])
    [] g = "PhaseShift" -> MPhase(p[1]) [] g = "U1" -> MPhase(p[1])
    [] g = "Rot" -> MRot(p[1], p[2], p[3])
    [] g = "U2" -> MU2(p[1], p[2]) [] g = "U3" -> MU3(p[1], p[2], p[3])
    [] g = "GlobalPhase" -> MGlobalPhase(p[1], NT(r))
    [] g = "CNOT" -> MCNOT [] g = "CY" -> MCY [] g = "CZ" -> MCZ [] g = "CH" -> MCH
    [] g = "SWAP" -> MSWAP [] g = "ISWAP" -> MISWAP [] g = "SISWAP" -> MSISWAP [] g = "SQISW" -> MSISWAP
    [] g = "ECR" -> MECR
    [] g = "CRX" -> MCRX(p[1]) [] g = "CRY" -> MCRY(p[1]) [] g = "CRZ" -> MCRZ(p[1])
    [] g = "CRot" -> MCRot(p[1], p[2], p[3])
    [] g = "ControlledPhaseShift" -> MCPhase(p[1]) [] g = "CPhase" -> MCPhase(p[1])
    [] g = "CPhaseShift00" -> MCPhase00(p[1]) [] g = "CPhaseShift01" -> MCPhase01(p[1])
    [] g = "CPhaseShift10" -> MCPhase10(p[1])
    [] g = "IsingXX" -> MIsingXX(p[1]) [] g = "IsingYY" -> MIsingYY(p[1])
    [] g = "IsingZZ" -> MIsingZZ(p[1]) [] g = "IsingXY" -> MIsingXY(p[1])
    [] g = "PSWAP" -> MPSWAP(p[1])
    [] g = "SingleExcitation" -> MSingleExc(p[1])
    [] g = "SingleExcitationPlus" -> MSingleExcPlus(p[1])
    [] g = "SingleExcitationMinus" -> MSingleExcMinus(p[1])
    [] g = "FermionicSWAP" -> MFermionicSWAP(p[1])
    [] g = "Toffoli" -> MToffoli [] g = "CCZ" -> MCCZ [] g = "CSWAP" -> MCSWAP
    [] g = "MultiRZ" -> MMultiRZ(p[1], NT(r))
    [] g = "PauliRot" -> MPauliRot(p[1], r.x)
    [] g = "DoubleExcitation" -> MDoubleExc(p[1])
    [] g = "DoubleExcitationPlus" -> MDoubleExcPlus(p[1])
    [] g = "DoubleExcitationMinus" -> MDoubleExcMinus(p[1])
    [] g = "QFT" -> MQFT(NT(r))
    [] g = "MultiControlledX" -> MMCX(r.x)
    [] g = "QubitSum" -> MQubitSum [] g = "QubitCarry" -> MQubitCarry
    [] g = "PauliWord" -> PauliM(r.x)
    [] g = "MAT" -> MData(r.m)


\* ---------------------------------------------------------------- derivative table (for Deriv: C34 C37 C38 C09)
\* AGen(r) is the matrix A with  dU/dtheta = A * U(theta)  for the one-parameter gate r  (A = -i * generator),
\* transcribed from the documented generators.  GenClosedForm(r) rebuilds U(theta) from A by the closed form of
\* the exponential (K^3 = K:  exp(-i t/2 K) = I - K^2 + cos(t/2) K^2 - i sin(t/2) K ;  P^2 = P: exp(i t P) = I - P + e^{it} P),
\* and GatesSelf checks GenClosedForm(r) = GateM(r) at every lattice angle, so the table is tied to the gate table.
MP0 == Mx(0, << <<One, O>>, <<O, O>> >>)
MP1 == Mx(0, << <<O, O>>, <<O, One>> >>)
MYsub == Mx(0, << <<O,O,O,O>>, <<O,O,mJ,O>>, <<O,J,O,O>>, <<O,O,O,O>> >>)
MXsub == Mx(0, << <<O,O,O,O>>, <<O,O,One,O>>, <<O,One,O,O>>, <<O,O,O,O>> >>)
MPsub == Diag(0, <<O, One, One, O>>)
MPrest == Diag(0, <<One, O, O, One>>)
MP11 == Diag(0, <<O, O, O, One>>)
MYsub16 == Mx(0, TLCEval([i \in 1..16 |-> TLCEval([j \in 1..16 |-> IF i = 4 /\ j = 13 THEN mJ ELSE IF i = 13 /\ j = 4 THEN J ELSE O])]))
MPrest16 == Diag(0, [i \in 1..16 |-> IF i = 4 \/ i = 13 THEN O ELSE One])
MNeg(a) == MScale(mOne, a)
AllZ(n) == [i \in 1..n |-> 3]
\* the "K" of half-angle gates ( U = exp(-i theta/2 K) ) and the "P" of phase gates ( U = exp(i theta P) )
GenKind(r) == IF r.g \in {"PhaseShift", "U1", "ControlledPhaseShift", "CPhase", "CPhaseShift00", "CPhaseShift01", "CPhaseShift10"} THEN "proj"
              ELSE IF r.g = "PSWAP" THEN "pswap"
              ELSE IF r.g = "GlobalPhase" THEN "gphase" ELSE IF r.g = "FermionicSWAP" THEN "fswap" ELSE "half"
GenK(r) ==
  LET g == r.g IN
  CASE g = "RX" -> MX [] g = "RY" -> MY [] g = "RZ" -> MZ
    [] g = "IsingXX" -> Kron(MX, MX) [] g = "IsingYY" -> Kron(MY, MY) [] g = "IsingZZ" -> Kron(MZ, MZ)
    [] g = "MultiRZ" -> PauliM(AllZ(NT(r))) [] g = "PauliRot" -> PauliM(r.x)
    [] g = "CRX" -> Kron(MP1, MX) [] g = "CRY" -> Kron(MP1, MY) [] g = "CRZ" -> Kron(MP1, MZ)
    [] g = "SingleExcitation" -> MYsub
    [] g = "SingleExcitationPlus" -> MAdd(MYsub, MNeg(MPrest))
    [] g = "SingleExcitationMinus" -> MAdd(MYsub, MPrest)
    [] g = "DoubleExcitation" -> MYsub16
    [] g = "DoubleExcitationPlus" -> MAdd(MYsub16, MNeg(MPrest16))
    [] g = "DoubleExcitationMinus" -> MAdd(MYsub16, MPrest16)
    [] g = "IsingXY" -> MNeg(MXsub)
    [] g \in {"PhaseShift", "U1"} -> MP1
    [] g \in {"ControlledPhaseShift", "CPhase"} -> MP11
    [] g = "CPhaseShift00" -> Diag(0, <<One, O, O, O>>)
    [] g = "CPhaseShift01" -> Diag(0, <<O, One, O, O>>)
    [] g = "CPhaseShift10" -> Diag(0, <<O, O, One, O>>)
    [] g = "PSWAP" -> MPsub
HasGen(r) == r.g \in {"RX","RY","RZ","IsingXX","IsingYY","IsingZZ","MultiRZ","PauliRot","CRX","CRY","CRZ","SingleExcitation",
   "SingleExcitationPlus","SingleExcitationMinus","DoubleExcitation","DoubleExcitationPlus","DoubleExcitationMinus","IsingXY",
   "PhaseShift","U1","ControlledPhaseShift","CPhase","CPhaseShift00","CPhaseShift01","CPhaseShift10","PSWAP","GlobalPhase","FermionicSWAP"}
\* A for the unmodified gate
ABase(r) ==
  LET kind == GenKind(r) IN
  CASE kind = "half" -> LET K == GenK(r) IN Mx(K.k + 1, TLCEval([i \in 1..Len(K.e) |-> TLCEval([j \in 1..Len(K.e) |-> Mul(mJ, K.e[i][j])])]))
    [] kind \in {"proj", "pswap"} -> MScale(J, GenK(r))
    [] kind = "gphase" -> MScale(mJ, Ident(2^NT(r)))
    [] kind = "fswap" -> Mx(1, (MAdd(MScale(J, MAdd(MPsub, MNeg(MXsub))), MScale(Scale(2, J), MP11))).e)
\* block embedding for ctrl: A_ctrl = P_sel (x) A  (zero elsewhere)
CtrlA(a, cv) ==
  LET nc == Len(cv)  d == Len(a.e)  DD == (2^nc) * d
      sel == LET S[t \in 0..nc] == IF t = 0 THEN 0 ELSE 2*S[t-1] + cv[t] IN S[nc] IN
  Mx(a.k, TLCEval([i \in 1..DD |-> TLCEval([j \in 1..DD |->
        IF (i-1) \div d = sel /\ (j-1) \div d = sel THEN a.e[((i-1) % d) + 1][((j-1) % d) + 1] ELSE O])]))
RECURSIVE AMods(_, _, _)
AMods(a, mods, i) == IF i > Len(mods) THEN a ELSE
  LET md == mods[i] IN
  AMods(CASE md.t = "adj" -> MNeg(a) [] md.t = "pow" -> MScale(Int2C(md.z), a) [] md.t = "ctrl" -> CtrlA(a, md.cv), mods, i + 1)
AGen(r) == AMods(ABase(r), r.mods, 1)
\* closed-form exponential from the table (unmodified gate), angle a
GenClosedForm(r) ==
  LET a == r.p[1]  kind == GenKind(r) IN
  CASE kind = "half" -> LET K == GenK(r)  K2 == MatMul(K, K)  Id == Ident(Len(K.e)) IN
         MAdd(MAdd(Id, MNeg(K2)), Mx(1, (MAdd(MScale(c2(a), K2), MScale(mis2(a), K))).e))
    [] kind = "proj" -> LET Pp == GenK(r) IN MAdd(MAdd(Ident(Len(Pp.e)), MNeg(Pp)), MScale(P(a), Pp))
    [] kind = "pswap" -> LET Pp == GenK(r) IN MatMul(MAdd(MAdd(Ident(4), MNeg(Pp)), MScale(P(a), Pp)), MSWAP)   \* PSWAP(0) = SWAP
    [] kind = "gphase" -> MGlobalPhase(a, NT(r))
    [] kind = "fswap" -> LET Id == Ident(4)
                             U1_ == MAdd(MAdd(Id, MNeg(MPsub)), Mx(1, (MAdd(MScale(c2(a), MPsub), MScale(mis2(a), MXsub))).e))
                             U2_ == MAdd(MAdd(Id, MNeg(MPsub)), MScale(E(a), MPsub))
                             U3_ == MAdd(MAdd(Id, MNeg(MP11)), MScale(P(a), MP11)) IN
                         MatMul(MatMul(U1_, U2_), U3_)

RECURSIVE ApplyMods(_, _, _)
ApplyMods(mat, mods, i) ==
  IF i > Len(mods) THEN mat ELSE
  LET md == mods[i] IN
  ApplyMods(CASE md.t = "adj" -> Dagger(mat)
              [] md.t = "pow" -> MatPow(mat, md.z)
              [] md.t = "ctrl" -> CtrlM(mat, md.cv), mods, i+1)
GateM(r) == ApplyMods(GateBase(r), r.mods, 1)

KnownGates == {"Identity","PauliX","PauliY","PauliZ","Hadamard","S","T","SX","RX","RY","RZ","PhaseShift","U1",
  "Rot","U2","U3","GlobalPhase","CNOT","CY","CZ","CH","SWAP","ISWAP","SISWAP","SQISW","ECR","CRX","CRY","CRZ","CRot",
  "ControlledPhaseShift","CPhase","CPhaseShift00","CPhaseShift01","CPhaseShift10","IsingXX","IsingYY","IsingZZ","IsingXY",
  "PSWAP","SingleExcitation","SingleExcitationPlus","SingleExcitationMinus","FermionicSWAP","Toffoli","CCZ","CSWAP",
  "MultiRZ","PauliRot","DoubleExcitation","DoubleExcitationPlus","DoubleExcitationMinus","QFT","MultiControlledX",
  "QubitSum","QubitCarry","PauliWord","MAT"}
=============================================================================
