------------------------------ MODULE Channels ------------------------------
(***************************************************************************)
(* THE REFERENCE TABLE OF NOISE CHANNELS (C28), exact.                     *)
(*                                                                         *)
(* Transcribed from the docstrings of pennylane/ops/channel.py (the        *)
(* documented Kraus matrices, and for ThermalRelaxationError with T2 > T1  *)
(* the documented Choi matrix), NOT from compute_kraus_matrices.           *)
(*                                                                         *)
(* Numbers: a QM is a record [m |-> [k, e], d |-> positive integer]        *)
(* denoting the ring matrix m (CMat.tla, entries in Z[zeta_N]/2^k) divided *)
(* by d.  Channel parameters are rationals <<num, den>> (Rat.tla).         *)
(*                                                                         *)
(* A channel is a sequence of TERMS [a |-> QM, b |-> QM] and denotes       *)
(*        E(rho) = sum_t  a_t rho b_t^dagger .                             *)
(* A documented Kraus operator sqrt(c) * P (P a ring matrix, c rational)   *)
(* is the term a = b = sqrt(c) P when sqrt(c) is rational ("Kraus form",   *)
(* the literal Kraus operator), and otherwise the term a = c P, b = P,     *)
(* which denotes the same map without the irrational root.  Operators      *)
(* whose entries need a genuine root (diag(1, sqrt(1-gamma))) are only     *)
(* instantiated where the root is rational.  Completeness of a Kraus set   *)
(* (sum K^dagger K = I) reads  sum_t b_t^dagger a_t = I  on terms.         *)
(*                                                                         *)
(* A channel instance is a record                                          *)
(*   [ch: name, w: <<wires>>, q: <<rational parameters>>, x: <<Pauli word  *)
(*    0..3 per wire (PauliError only)>>]                                   *)
(* ThermalRelaxationError takes q = <<pe, eT1, eT2>> with eT1 = e^{-tg/T1}, *)
(* eT2 = e^{-tg/T2} (the documented formulas only involve these).          *)
(***************************************************************************)
EXTENDS Gates, Rat

\* ---------------------------------------------------------------- QM arithmetic
QM(mm, dd) == [m |-> mm, d |-> dd]
IntScale(c, mm) == Bind(mm, LAMBDA m1 : Norm([k |-> m1.k, e |-> TLCEval([i \in 1..Len(m1.e) |-> TLCEval([j \in 1..Len(m1.e[i]) |-> Scale(c, m1.e[i][j])])])]))
\* gcd of d and every integer coefficient of the matrix (after Norm: the 2-power is carried by k)
RECURSIVE GcdSeq(_, _, _)
GcdSeq(s, i, g) == IF i > Len(s) \/ g = 1 THEN g ELSE GcdSeq(s, i + 1, GCD(g, Abs(s[i])))
ContentWith(m1, d0) ==
  LET R[i \in 0..Len(m1.e)] == IF i = 0 THEN d0 ELSE
        LET Cc[j \in 0..Len(m1.e[i])] == IF j = 0 THEN R[i-1] ELSE GcdSeq(m1.e[i][j], 1, Cc[j-1]) IN Cc[Len(m1.e[i])]
  IN R[Len(m1.e)]
QReduce(qq) == Bind(qq, LAMBDA q1 : Bind(Norm(q1.m), LAMBDA m1 : Bind(ContentWith(m1, q1.d), LAMBDA g :
   IF g <= 1 THEN QM(m1, q1.d)
   ELSE QM([k |-> m1.k, e |-> TLCEval([i \in 1..Len(m1.e) |-> TLCEval([j \in 1..Len(m1.e[i]) |->
                                  TLCEval([t \in IdxH |-> m1.e[i][j][t] \div g])])])], q1.d \div g))))
QAdd(xx, yy) == Bind2(xx, yy, LAMBDA x1, y1 : LET L == LCM(x1.d, y1.d) IN
   QReduce(QM(MAdd(IntScale(L \div x1.d, x1.m), IntScale(L \div y1.d, y1.m)), L)))
QMul(xx, yy) == Bind2(xx, yy, LAMBDA x1, y1 : QReduce(QM(MatMul(x1.m, y1.m), x1.d * y1.d)))
QDagger(x1) == QM(Dagger(x1.m), x1.d)
QKron(xx, yy) == Bind2(xx, yy, LAMBDA x1, y1 : QReduce(QM(Kron(x1.m, y1.m), x1.d * y1.d)))
ConjM(mm) == Bind(mm, LAMBDA m1 : [k |-> m1.k, e |-> TLCEval([i \in 1..Len(m1.e) |-> TLCEval([j \in 1..Len(m1.e[i]) |-> Conj(m1.e[i][j])])])])
QConj(x1) == QM(ConjM(x1.m), x1.d)
QEq(xx, yy) == Bind2(xx, yy, LAMBDA x1, y1 : EqExact(IntScale(y1.d, x1.m), IntScale(x1.d, y1.m)))
QIdent(dim) == QM(Ident(dim), 1)
QZero(dim) == QM([k |-> 0, e |-> TLCEval([i \in 1..dim |-> TLCEval([j \in 1..dim |-> Zero])])], 1)
\* rational r times ring matrix
RatTimes(r, mm) == QReduce(QM(IntScale(r[1], mm), r[2]))
QTrace(x1) == LET S[i \in 0..Len(x1.m.e)] == IF i = 0 THEN Zero ELSE Add(S[i-1], x1.m.e[i][i]) IN S[Len(x1.m.e)]
\* tr(x) = 1 :  sum of the diagonal = d * 2^k
QTraceIsOne(xx) == Bind(xx, LAMBDA x1 : QTrace(x1) = Int2C(x1.d * 2^x1.m.k))
QIsHermitian(xx) == Bind(xx, LAMBDA x1 : \A i \in 1..Len(x1.m.e) : \A j \in i..Len(x1.m.e) : x1.m.e[i][j] = Conj(x1.m.e[j][i]))
QMaxAbs(x1) == MaxAbsM(x1.m)

\* ---------------------------------------------------------------- rational square roots
ISqrt(v) == IF v = 0 THEN 0 ELSE CHOOSE s \in 1..v : s * s <= v /\ (s + 1) * (s + 1) > v
IsSquare(v) == ISqrt(v) * ISqrt(v) = v
RIsSquare(r) == r[1] >= 0 /\ IsSquare(r[1]) /\ IsSquare(r[2])
RSqrt(r) == <<ISqrt(r[1]), ISqrt(r[2])>>                          \* only for RIsSquare(r)
RIn01(r) == r[1] >= 0 /\ r[1] <= r[2]

\* ---------------------------------------------------------------- terms
Term(aa, bb) == [a |-> aa, b |-> bb]
\* the documented Kraus operator sqrt(c) * P
KTerm(c, P1) == IF RIsSquare(c) THEN Bind(RatTimes(RSqrt(c), P1), LAMBDA kk : Term(kk, kk))
                ELSE Term(RatTimes(c, P1), QM(P1, 1))
\* a documented Kraus operator given entrywise as a QM
KExact(kq) == Term(kq, kq)
IsKrausForm(ts) == \A t \in 1..Len(ts) : ts[t].a = ts[t].b

\* 2x2 real matrices  [[p, q], [r, s]] / d  from integers
M2(p, q, r, s) == Mx(0, << <<Int2C(p), Int2C(q)>>, <<Int2C(r), Int2C(s)>> >>)
E00 == M2(1, 0, 0, 0)      \* |0><0|
E01 == M2(0, 1, 0, 0)      \* |0><1|
E10 == M2(0, 0, 1, 0)      \* |1><0|
E11 == M2(0, 0, 0, 1)      \* |1><1|
ROneMinus(r) == RSub(ROne, r)
\* diag(u, v) for rationals u, v
DiagQ(u, v) == LET L == LCM(u[2], v[2]) IN QReduce(QM(M2(u[1] * (L \div u[2]), 0, 0, v[1] * (L \div v[2])), L))

\* ---------------------------------------------------------------- the documented channels
BitFlipT(p)   == << KTerm(ROneMinus(p), MI), KTerm(p, MX) >>
PhaseFlipT(p) == << KTerm(ROneMinus(p), MI), KTerm(p, MZ) >>
DepolarizingT(p) == LET p3 == RMul(p, <<1, 3>>) IN << KTerm(ROneMinus(p), MI), KTerm(p3, MX), KTerm(p3, MY), KTerm(p3, MZ) >>
\* K0 = diag(1, sqrt(1-gamma)), K1 = sqrt(gamma) |0><1|         (needs 1-gamma a rational square)
AmplitudeDampingT(ga) == << KExact(DiagQ(ROne, RSqrt(ROneMinus(ga)))), KTerm(ga, E01) >>
\* K0 = diag(1, sqrt(1-gamma)), K1 = diag(0, sqrt(gamma))
PhaseDampingT(ga) == << KExact(DiagQ(ROne, RSqrt(ROneMinus(ga)))), KTerm(ga, E11) >>
\* K0 = sqrt(1-p) diag(1, sqrt(1-g)), K1 = sqrt(1-p) sqrt(g) |0><1|, K2 = sqrt(p) diag(sqrt(1-g), 1), K3 = sqrt(p) sqrt(g) |1><0|
\* (needs 1-gamma, p, 1-p rational squares for the diagonal operators)
GADT(ga, p) == LET s == RSqrt(ROneMinus(ga)) IN
   << KExact(Bind(DiagQ(ROne, s), LAMBDA dq : QReduce(QM(IntScale(RSqrt(ROneMinus(p))[1], dq.m), dq.d * RSqrt(ROneMinus(p))[2])))),
      KTerm(RMul(ROneMinus(p), ga), E01),
      KExact(Bind(DiagQ(s, ROne), LAMBDA dq : QReduce(QM(IntScale(RSqrt(p)[1], dq.m), dq.d * RSqrt(p)[2])))),
      KTerm(RMul(p, ga), E10) >>
ResetErrorT(p0, p1) == << KTerm(RSub(ROneMinus(p0), p1), MI), KTerm(p0, E00), KTerm(p0, E01), KTerm(p1, E10), KTerm(p1, E11) >>
PauliErrorT(word, p) == << KTerm(ROneMinus(p), Ident(2^Len(word))), KTerm(p, PauliM(word)) >>
\* ThermalRelaxationError, T2 <= T1 (eT2 <= eT1):  p_reset = 1 - eT1,
\*   pz = (1 - p_reset)(1 - eT2/eT1)/2,  pr0 = (1 - pe) p_reset,  pr1 = pe p_reset,  pid = 1 - pz - pr0 - pr1
ThermalSmallT(pe, eT1, eT2) ==
  LET pr == ROneMinus(eT1)
      pz == RMul(RMul(ROneMinus(pr), ROneMinus(RDiv(eT2, eT1))), <<1, 2>>)
      pr0 == RMul(ROneMinus(pe), pr)
      pr1 == RMul(pe, pr)
      pid == RSub(RSub(RSub(ROne, pz), pr0), pr1)
  IN << KTerm(pid, MI), KTerm(pz, MZ), KTerm(pr0, E00), KTerm(pr0, E01), KTerm(pr1, E10), KTerm(pr1, E11) >>
\* T2 > T1: the documented Choi matrix  Lambda = sum_ij |i><j| (x) E(|i><j|)
\*   diag(1 - pe pr, pe pr, (1 - pe) pr, 1 - (1 - pe) pr), corners eT2;
\*   E(rho) = sum Lambda[(i,al),(j,be)] |al><i| rho |j><be|
ThermalLargeT(pe, eT1, eT2) ==
  LET pr == ROneMinus(eT1)
      EU(al, i) == CASE <<al, i>> = <<0, 0>> -> E00 [] <<al, i>> = <<0, 1>> -> E01 [] <<al, i>> = <<1, 0>> -> E10 [] OTHER -> E11
      T(c, al, i, be, j) == Term(RatTimes(c, EU(al, i)), QM(EU(be, j), 1))
  IN << T(ROneMinus(RMul(pe, pr)), 0, 0, 0, 0), T(RMul(pe, pr), 1, 0, 1, 0),
        T(RMul(ROneMinus(pe), pr), 0, 1, 0, 1), T(ROneMinus(RMul(ROneMinus(pe), pr)), 1, 1, 1, 1),
        T(eT2, 0, 0, 1, 1), T(eT2, 1, 1, 0, 0) >>
ThermalT(pe, eT1, eT2) == IF ~RLess(eT1, eT2) THEN ThermalSmallT(pe, eT1, eT2) ELSE ThermalLargeT(pe, eT1, eT2)

\* documented parameter domain (and, where a genuine root is needed, its rationality)
ValidChannel(c) ==
  CASE c.ch \in {"BitFlip", "PhaseFlip", "DepolarizingChannel"} -> RIn01(c.q[1])
    [] c.ch \in {"AmplitudeDamping", "PhaseDamping"} -> RIn01(c.q[1]) /\ RIsSquare(ROneMinus(c.q[1]))
    [] c.ch = "GeneralizedAmplitudeDamping" -> /\ RIn01(c.q[1]) /\ RIn01(c.q[2]) /\ RIsSquare(ROneMinus(c.q[1]))
                                               /\ RIsSquare(c.q[2]) /\ RIsSquare(ROneMinus(c.q[2]))
    [] c.ch = "ResetError" -> RIn01(c.q[1]) /\ RIn01(c.q[2]) /\ RIn01(RAdd(c.q[1], c.q[2]))
    [] c.ch = "PauliError" -> RIn01(c.q[1]) /\ Len(c.x) = Len(c.w)
    [] c.ch = "ThermalRelaxationError" -> /\ RIn01(c.q[1]) /\ c.q[2][1] > 0 /\ RIn01(c.q[2]) /\ c.q[3][1] > 0 /\ RIn01(c.q[3])
                                          /\ ~RLess(RMul(c.q[2], ROne), RMul(c.q[3], c.q[3]))          \* T2 <= 2 T1
    [] OTHER -> FALSE
ChannelTerms(c) ==
  CASE c.ch = "BitFlip" -> BitFlipT(c.q[1])
    [] c.ch = "PhaseFlip" -> PhaseFlipT(c.q[1])
    [] c.ch = "DepolarizingChannel" -> DepolarizingT(c.q[1])
    [] c.ch = "AmplitudeDamping" -> AmplitudeDampingT(c.q[1])
    [] c.ch = "PhaseDamping" -> PhaseDampingT(c.q[1])
    [] c.ch = "GeneralizedAmplitudeDamping" -> GADT(c.q[1], c.q[2])
    [] c.ch = "ResetError" -> ResetErrorT(c.q[1], c.q[2])
    [] c.ch = "PauliError" -> PauliErrorT(c.x, c.q[1])
    [] c.ch = "ThermalRelaxationError" -> ThermalT(c.q[1], c.q[2], c.q[3])

\* ---------------------------------------------------------------- properties of a term list (decided on the reference)
\* trace preservation / completeness:  sum_t b_t^dagger a_t = I
Completeness(ts) ==
  LET dim == Len(ts[1].a.m.e)
      S[t \in 0..Len(ts)] == IF t = 0 THEN QZero(dim) ELSE QAdd(S[t-1], QMul(QDagger(ts[t].b), ts[t].a))
  IN S[Len(ts)]
IsComplete(ts) == QEq(Completeness(ts), QIdent(Len(ts[1].a.m.e)))
\* the superoperator  sum_t a_t (x) conj(b_t)  (acts on the row-major vectorisation of rho)
SuperOp(ts) ==
  LET dim == Len(ts[1].a.m.e)
      S[t \in 0..Len(ts)] == IF t = 0 THEN QZero(dim * dim) ELSE QAdd(S[t-1], QKron(ts[t].a, QConj(ts[t].b)))
  IN S[Len(ts)]

\* ---------------------------------------------------------------- evolution of a density matrix (QM of dimension 2^n)
\* x rho y^dagger with x, y acting on the wires ws of an n-wire register
Sandwich(rho, xa, yb, ws, n) ==
  Bind(ApplyGate(rho.m, xa.m, ws, n), LAMBDA left :
  Bind(Dagger(ApplyGate(Dagger(left), yb.m, ws, n)), LAMBDA both : QReduce(QM(both, rho.d * xa.d * yb.d))))
EvolveTerms(rho, ts, ws, n) ==
  LET S[t \in 0..Len(ts)] == IF t = 0 THEN QZero(2^n) ELSE QAdd(S[t-1], Sandwich(rho, ts[t].a, ts[t].b, ws, n))
  IN S[Len(ts)]
EvolveChannel(rho, c, n) == EvolveTerms(rho, ChannelTerms(c), c.w, n)
EvolveGate(rho, gm, ws, n) == Bind(QM(gm, 1), LAMBDA u1 : Sandwich(rho, u1, u1, ws, n))
PureZero(n) == QM(MatMul(BasisCol(2^n, 0), Dagger(BasisCol(2^n, 0))), 1)
=============================================================================
