------------------------------- MODULE QProg --------------------------------
(***************************************************************************)
(* A small structured quantum-program AST shared by C41 / C43 (and later   *)
(* C42), its grammar (all programs up to a size / nesting bound), and the  *)
(* denotation of its CONTROL FLOW: Flat(prog) is the sequence of primitive *)
(* queuing actions that plain Python executes for the program -            *)
(*   for i in range(lo, hi, step) / while x < k / if-elif-else / with /    *)
(*   try-except / raise                                                    *)
(* written from the Python language reference, not from PennyLane.         *)
(* Rec(prog), the recording, is obtained by running Flat(prog) through the *)
(* queuing state machine (spec/sys/Queuing.tla); spec/gen/QProgGen.tla     *)
(* does that for every program of the grammar.                             *)
(*                                                                         *)
(* Node  == [t : STRING, n : Seq(Int), c : Seq(Block)]   Block == Seq(Node)*)
(*  expressions (operands are singleton blocks)                            *)
(*   G            a fresh gate, labelled with its path and the loop values *)
(*   R  n=<<r>>   the r-th most recent result of a do/apply statement      *)
(*   U  c=<<e>>   unary wrapper  (adjoint | ctrl | pow | s_prod by place)  *)
(*   E  c=<<e>>   eager unary wrapper: pow(e, z, lazy=False) for assorted  *)
(*                z | adjoint(e, lazy=False) | s_prod(.., lazy=False) |    *)
(*                simplify(e): the result may be any simplified operator   *)
(*   P  c=<<a,b>> binary wrapper (prod | sum by place)                     *)
(*  statements                                                             *)
(*   do c=<<e>> | meas c=<<e>> or <<>> | apply n=<<r>> | raise             *)
(*   ctx c=<<b>>   with AnnotatedQueue():      stop c=<<b>> stop_recording *)
(*   tape c=<<b>>  with QuantumTape(): the tape is itself queued in the    *)
(*                 enclosing context; leaving it builds the tape, which    *)
(*                 raises if an operator follows a measurement (decided    *)
(*                 dynamically by the state machine, see QProgGen)         *)
(*   try c=<<b>>   try: b except: pass                                     *)
(*   for n=<<lo,hi,step,carry>> c=<<b>>   qp.for_loop(lo,hi,step)          *)
(*   while n=<<x0,k,d>> c=<<b>>           qp.while_loop(x < k), x += d     *)
(*   cond n=preds c=branches (+ else when Len(c) = Len(n)+1)   qp.cond     *)
(*   mcond c=<<tb>> | <<tb,fb>>   m = measure(); cond(m, tb, fb)()         *)
(*   adjfn / ctrlfn c=<<b>>       qp.adjoint(fn)() / qp.ctrl(fn, c)()      *)
(***************************************************************************)
EXTENDS Integers, Sequences, FiniteSets, TLC

Nd(t, n, c) == [t |-> t, n |-> n, c |-> c]
SumSeq(s) == LET RECURSIVE Go(_) Go(i) == IF i > Len(s) THEN 0 ELSE s[i] + Go(i + 1) IN Go(1)

(* ----------------------------------------------------------------------- *)
(* Python semantics of the classical parts                                 *)
(* ----------------------------------------------------------------------- *)
IterBound == 12
\* range(lo, hi, st), transcribed from the language reference: r[i] = lo + st*i for i >= 0 with
\* r[i] < hi (st > 0) resp. r[i] > hi (st < 0)
RangeLen(lo, hi, st) == Cardinality({i \in 0..IterBound : IF st > 0 THEN lo + st * i < hi ELSE lo + st * i > hi})
RangeSeq(lo, hi, st) == [j \in 1..RangeLen(lo, hi, st) |-> lo + st * (j - 1)]
\* the closed form len(range) = max(0, ceil((hi-lo)/st)), a second definition; TLC checks both agree (RangeLaw)
RangeLenClosed(lo, hi, st) ==
  IF st > 0 THEN (IF hi > lo THEN (hi - lo + st - 1) \div st ELSE 0)
            ELSE (IF hi < lo THEN (lo - hi - st - 1) \div (-st) ELSE 0)
RangeLaw(B) == \A lo \in -B..B, hi \in -B..B, st \in (-B..B) \ {0} :
                 /\ RangeLen(lo, hi, st) = RangeLenClosed(lo, hi, st)
                 /\ \A j \in 1..RangeLen(lo, hi, st) :
                      LET v == RangeSeq(lo, hi, st)[j] IN IF st > 0 THEN v >= lo /\ v < hi ELSE v <= lo /\ v > hi

\* classical predicates on the innermost loop value i (0 outside loops): 0 False, 1 True, 2 i even, 3 i > 0
Inner(iv) == IF iv = <<>> THEN 0 ELSE iv[1]
\* codes >= 4 are NUMBER-valued predicates (Python ints / floats, as in `if n % 3: ... elif count: ...`).  PredNum2 is twice
\* the value (so that halves stay integers): 4 int i % 3 | 5 int i | 6 int -1 | 7 int 3 | 8 int 0 | 9 float 0.5 |
\* 10 float -1.0 | 11 float 0.0 | 12 float 2.0 | 13 int 2 - i | 14 float i / 2 (% is floor-mod in Python as in TLA+)
PredNum2(code, iv) ==
  CASE code = 4 -> 2 * (Inner(iv) % 3) [] code = 5 -> 2 * Inner(iv) [] code = 6 -> -2 [] code = 7 -> 6 [] code = 8 -> 0
    [] code = 9 -> 1 [] code = 10 -> -2 [] code = 11 -> 0 [] code = 12 -> 4 [] code = 13 -> 2 * (2 - Inner(iv)) [] OTHER -> Inner(iv)
\* truth value testing (language reference, "Truth Value Testing"): of the numbers exactly the zeros are false - the
\* magnitude and the sign of a non-zero predicate are irrelevant to which branch of if/elif/else runs
Truthy2(v2) == v2 # 0
Pred(code, iv) == CASE code = 0 -> FALSE [] code = 1 -> TRUE [] code = 2 -> Inner(iv) % 2 = 0 [] code = 3 -> Inner(iv) > 0
                    [] OTHER -> Truthy2(PredNum2(code, iv))

(* ----------------------------------------------------------------------- *)
(* Flat: the primitive actions Python executes, in order                   *)
(* ----------------------------------------------------------------------- *)
\* micro-op: a = name, p = path of the AST node, iv = loop values (innermost first), r = integer argument
A(a, p, iv, r) == [a |-> a, p |-> p, iv |-> iv, r |-> r]
Res(acts, raised) == [acts |-> acts, raised |-> raised]

RECURSIVE FlatE(_, _, _)
FlatE(e, p, iv) ==
  CASE e.t = "G" -> << A("g", p, iv, 0) >>
    [] e.t = "R" -> << A("ref", p, iv, e.n[1]) >>
    [] e.t = "U" -> FlatE(e.c[1][1], Append(p, 1), iv) \o << A("u", p, iv, 0) >>
    [] e.t = "E" -> FlatE(e.c[1][1], Append(p, 1), iv) \o << A("e", p, iv, 0) >>
    [] e.t = "P" -> FlatE(e.c[1][1], Append(p, 1), iv) \o FlatE(e.c[2][1], Append(p, 2), iv) \o << A("p", p, iv, 0) >>

RECURSIVE FlatB(_, _, _, _, _), FlatS(_, _, _, _), ForIter(_, _, _, _, _, _, _, _), WhileIter(_, _, _, _, _, _, _, _), LiftBody(_, _, _, _, _)

\* statements j.. of block b; stops at the first statement that raises
FlatB(b, p, iv, rec, j) ==
  IF j > Len(b) THEN Res(<<>>, FALSE)
  ELSE LET s == FlatS(b[j], Append(p, j), iv, rec) IN
       IF s.raised THEN s
       ELSE LET r == FlatB(b, p, iv, rec, j + 1) IN Res(s.acts \o r.acts, r.raised)

\* for i in vals[j..]: body(i, acc); acc threads the carried value (body returns acc + i + 1)
ForIter(vals, j, acc, carry, body, p, iv, rec) ==
  IF j > Len(vals) THEN Res(IF carry = 1 THEN << A("ret", p, iv, acc) >> ELSE <<>>, FALSE)
  ELSE LET i == vals[j]
           iv2 == IF carry = 1 THEN <<i, acc>> \o iv ELSE <<i>> \o iv
           s == FlatB(body, Append(p, 1), iv2, rec, 1) IN
       IF s.raised THEN s
       ELSE LET r == ForIter(vals, j + 1, acc + i + 1, carry, body, p, iv, rec) IN Res(s.acts \o r.acts, r.raised)

\* x = x0; while x < k: body(x); x += d
WhileIter(x, k, d, fuel, body, p, iv, rec) ==
  IF ~(x < k) \/ fuel = 0 THEN Res(<< A("ret", p, iv, x) >>, FALSE)
  ELSE LET s == FlatB(body, Append(p, 1), <<x>> \o iv, rec, 1) IN
       IF s.raised THEN s
       ELSE LET r == WhileIter(x + d, k, d, fuel - 1, body, p, iv, rec) IN Res(s.acts \o r.acts, r.raised)

\* a body run by PennyLane inside its own recording context (make_qscript), then lifted op by op:
\* kind 1 Conditional(m), 2 Conditional(~m), 3 Adjoint in reverse order, 4 Controlled
LiftBody(body, p, iv, kind, more) ==
  LET s == FlatB(body, p, iv, TRUE, 1) IN
  IF s.raised THEN Res(<< A("ienter", p, iv, 0) >> \o s.acts \o << A("iexit", p, iv, 0) >>, TRUE)
  ELSE Res(<< A("ienter", p, iv, 0) >> \o s.acts \o << A("iexit", p, iv, 0), A("lift", p, iv, kind) >> \o more, FALSE)

FlatS(s, p, iv, rec) ==
  CASE s.t = "do"    -> Res(FlatE(s.c[1][1], Append(p, 1), iv) \o << A("do", p, iv, 0) >>, FALSE)
    [] s.t = "meas"  -> IF s.c = <<>> THEN Res(<< A("meas", p, iv, 0) >>, FALSE)
                        ELSE Res(FlatE(s.c[1][1], Append(p, 1), iv) \o << A("meas", p, iv, 1) >>, FALSE)
    [] s.t = "apply" -> IF rec THEN Res(<< A("apply", p, iv, s.n[1]) >>, FALSE)
                        ELSE Res(<< A("applyerr", p, iv, s.n[1]) >>, TRUE)       \* documented RuntimeError
    [] s.t = "raise" -> Res(<< A("raise", p, iv, 0) >>, TRUE)
    [] s.t = "ctx"   -> LET b == FlatB(s.c[1], Append(p, 1), iv, TRUE, 1) IN
                        Res(<< A("enter", p, iv, 0) >> \o b.acts \o << A("exit", p, iv, 0) >>, b.raised)
    [] s.t = "tape"  -> LET b == FlatB(s.c[1], Append(p, 1), iv, TRUE, 1) IN
                        Res(<< A("tenter", p, iv, 0) >> \o b.acts \o << A("texit", p, iv, 0) >>, b.raised)
    [] s.t = "stop"  -> LET b == FlatB(s.c[1], Append(p, 1), iv, FALSE, 1) IN
                        Res(<< A("stopenter", p, iv, 0) >> \o b.acts \o << A("stopexit", p, iv, 0) >>, b.raised)
    [] s.t = "try"   -> LET b == FlatB(s.c[1], Append(p, 1), iv, rec, 1) IN
                        Res(<< A("try", p, iv, 0) >> \o b.acts \o << A("tryend", p, iv, IF b.raised THEN 1 ELSE 0) >>, FALSE)
    [] s.t = "for"   -> ForIter(RangeSeq(s.n[1], s.n[2], s.n[3]), 1, 100, s.n[4], s.c[1], p, iv, rec)
    [] s.t = "while" -> WhileIter(s.n[1], s.n[2], s.n[3], IterBound, s.c[1], p, iv, rec)
    [] s.t = "cond"  -> LET hits == {j \in 1..Len(s.n) : Pred(s.n[j], iv)} IN
                        IF hits # {} THEN LET j == CHOOSE x \in hits : \A y \in hits : x <= y IN FlatB(s.c[j], Append(p, j), iv, rec, 1)
                        ELSE IF Len(s.c) > Len(s.n) THEN FlatB(s.c[Len(s.c)], Append(p, Len(s.c)), iv, rec, 1)
                        ELSE Res(<<>>, FALSE)
    [] s.t = "mcond" -> LET mm == << A("mmeas", p, iv, 0) >> IN
                        IF Len(s.c) = 1
                        THEN LET r == LiftBody(s.c[1], Append(p, 1), iv, 1, << A("mark", p, iv, 0) >>) IN Res(mm \o r.acts, r.raised)
                        ELSE LET f == LiftBody(s.c[2], Append(p, 2), iv, 2, << A("mark", p, iv, 0) >>)
                                 \* the first lift becomes observable only once the false branch has started
                                 fa == << f.acts[1], A("mark", p, iv, 0) >> \o SubSeq(f.acts, 2, Len(f.acts))
                                 t == LiftBody(s.c[1], Append(p, 1), iv, 1, fa) IN
                             Res(mm \o t.acts, IF t.raised THEN TRUE ELSE f.raised)
    [] s.t = "adjfn" -> LiftBody(s.c[1], Append(p, 1), iv, 3, << A("mark", p, iv, 0) >>)
    [] s.t = "ctrlfn" -> LiftBody(s.c[1], Append(p, 1), iv, 4, << A("mark", p, iv, 0) >>)

\* the whole program: run by make_qscript (an implicit recording context) inside try/except
Flat(prog) ==
  LET b == FlatB(prog, <<>>, <<>>, TRUE, 1) IN
  << A("ienter", <<>>, <<>>, 0), A("try", <<>>, <<>>, 0) >> \o b.acts
     \o << A("tryend", <<>>, <<>>, IF b.raised THEN 1 ELSE 0), A("iexit", <<>>, <<>>, 0), A("fin", <<>>, <<>>, 0) >>

(* ----------------------------------------------------------------------- *)
(* Grammar: every program with at most MaxSize nodes and nesting <= depth  *)
(* ----------------------------------------------------------------------- *)
CONSTANTS Kinds,        \* statement / expression kinds admitted, e.g. {"G","R","U","P","do","meas","apply","ctx",...}
          MaxRef,       \* references reach the MaxRef most recent results
          ForSpecs,     \* set of <<lo, hi, step, carry>>
          WhileSpecs,   \* set of <<x0, k, d>>
          CondPreds     \* set of predicate sequences, e.g. {<<0>>, <<1>>, <<2,3>>}

RECURSIVE E(_), B(_, _), S(_, _), BL(_, _)
On(k, set) == IF k \in Kinds THEN set ELSE {}
\* expressions with exactly n nodes
E(n) ==
  IF n = 1 THEN On("G", {Nd("G", <<>>, <<>>)}) \cup On("R", {Nd("R", <<r>>, <<>>) : r \in 1..MaxRef})
  ELSE On("U", {Nd("U", <<>>, << <<e>> >>) : e \in E(n - 1)})
       \cup On("E", {Nd("E", <<>>, << <<e>> >>) : e \in E(n - 1)})
       \cup On("P", UNION {{Nd("P", <<>>, << <<a>>, <<b>> >>) : a \in E(i), b \in E(n - 1 - i)} : i \in 1..(n - 2)})
\* branch tuples for cond: k blocks of total size m, each non-empty
RECURSIVE Branches(_, _, _)
Branches(k, m, d) ==
  IF k = 0 THEN (IF m = 0 THEN {<<>>} ELSE {})
  ELSE UNION {{<<b>> \o rest : b \in B(i, d), rest \in Branches(k - 1, m - i, d)} : i \in 1..(m - k + 1)}
\* statements with exactly n nodes, nesting budget d (do e counts as e; a compound counts 1 + its bodies)
S(n, d) ==
  On("do", {Nd("do", <<>>, << <<e>> >>) : e \in E(n)})
  \cup (IF n = 1 THEN On("meas", {Nd("meas", <<>>, <<>>)}) \cup On("apply", {Nd("apply", <<r>>, <<>>) : r \in 1..MaxRef})
                      \cup On("raise", {Nd("raise", <<>>, <<>>)})
        ELSE On("meas", {Nd("meas", <<>>, << <<e>> >>) : e \in E(n - 1)}))
  \cup (IF n >= 2 /\ d > 0
        THEN UNION {On(k, {Nd(k, <<>>, <<b>>) : b \in B(n - 1, d - 1)}) : k \in {"ctx", "stop", "try", "tape"}}
             \cup On("for", {Nd("for", f, <<b>>) : f \in ForSpecs, b \in B(n - 1, d - 1)})
             \cup On("while", {Nd("while", w, <<b>>) : w \in WhileSpecs, b \in B(n - 1, d - 1)})
             \cup On("cond", UNION {{Nd("cond", ps, bs) : bs \in Branches(Len(ps), n - 1, d - 1) \cup Branches(Len(ps) + 1, n - 1, d - 1)} : ps \in CondPreds})
             \cup UNION {On(k, {Nd(k, <<>>, <<b>>) : b \in BL(n - 1, d - 1)}) : k \in {"adjfn", "ctrlfn"}}
             \cup On("mcond", {Nd("mcond", <<>>, <<b>>) : b \in BL(n - 1, d - 1)})
             \cup On("mcond", UNION {{Nd("mcond", <<>>, <<a, b>>) : a \in BL(i, d - 1), b \in BL(n - 1 - i, d - 1)} : i \in 1..(n - 2)})
        ELSE {})
\* blocks with exactly n nodes in total (nothing follows a raise: dead code)
NoDead(b) == Len(b) = 1 \/ b[1].t # "raise"
B(n, d) ==
  IF n = 0 THEN {<<>>}
  ELSE {x \in UNION {{<<s>> \o b : s \in S(k, d), b \in B(n - k, d)} : k \in 1..n} : NoDead(x)}
\* bodies that PennyLane lifts operator by operator: no measurements, no mid-circuit conditionals inside
LiftKinds == {"do", "apply", "raise", "ctx", "stop", "try", "for", "while", "cond", "adjfn", "ctrlfn"}
RECURSIVE LiftOK(_)
LiftOK(b) == \A i \in 1..Len(b) : b[i].t \in LiftKinds /\ (b[i].t = "do" \/ \A j \in 1..Len(b[i].c) : LiftOK(b[i].c[j]))
BL(n, d) == {b \in B(n, d) : LiftOK(b)}
Programs(maxSize, depth) == UNION {B(n, depth) : n \in 1..maxSize}
=============================================================================
