-------------------------------- MODULE Ppm ---------------------------------
(***************************************************************************)
(* Measurement projectors.  A Pauli-product measurement of the word P      *)
(* (qp.pauli_measure, documented): "the eigenvalue of this tensor product  *)
(* is one of 1 or -1, which is mapped to the 0 or 1 outcome; after the     *)
(* measurement the state collapses to the superposition of all degenerate  *)
(* eigenstates corresponding to the measured eigenvalue", i.e. outcome b   *)
(* applies the eigenprojector (I + (-1)^b P)/2.  A computational-basis     *)
(* mid-circuit measurement is the word Z on one wire.                      *)
(***************************************************************************)
EXTENDS Gates
HalfM(m) == [k |-> m.k + 1, e |-> m.e]
\* projector of outcome bit of the Pauli word pw (letters 1..3 = X, Y, Z)
PProj(pw, bit) == LET Pm == PauliM(pw) IN HalfM(MAdd(Ident(2^Len(pw)), IF bit = 0 THEN Pm ELSE MNeg(Pm)))
ZProj(bit) == IF bit = 0 THEN MP0 ELSE MP1
\* postselection: 0 none, 1 keep outcome 0, 2 keep outcome 1
Allowed(post) == IF post = 0 THEN {0, 1} ELSE {post - 1}
=============================================================================
