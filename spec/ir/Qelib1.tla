------------------------------- MODULE Qelib1 -------------------------------
(***************************************************************************)
(* Semantics of OpenQASM gate statements (C67).                            *)
(*                                                                         *)
(* A gate statement is a record                                            *)
(*    [q: gate name, p: <<lattice angles>>, w: <<wires 1..n>>, mods]       *)
(* with the modifier convention of Gates.tla (innermost first; the control *)
(* qubits of "ctrl" come first in w, the outermost modifier owning the     *)
(* first ones):   inv @ -> [t |-> "adj"],  pow(z) @ -> [t |-> "pow", z],   *)
(* ctrl @ -> [t |-> "ctrl", cv |-> <<1>>],  negctrl @ -> cv = <<0>>.       *)
(*                                                                         *)
(* QBase is THE TABLE: every name of qelib1.inc (OpenQASM 2.0) and of      *)
(* stdgates.inc (OpenQASM 3) that the exporter emits / the importer        *)
(* accepts, as the matrix the name denotes (standard matrices, expressed   *)
(* with the reference table Gates.tla).  It is written from the OpenQASM   *)
(* papers/spec, not from PennyLane's translation dictionaries.             *)
(*                                                                         *)
(* QDef transcribes the *definitions* of the same names from qelib1.inc    *)
(* (bodies over the built-ins U and CX) and stdgates.inc; TLC checks       *)
(* (QelibSelf.tla, invariant DefAgreesWithTable) that every table entry      *)
(* equals its definition up to a global phase, over the angle lattice.     *)
(* Angles: integer a means theta = a*4*pi/N, so pi = N/4.                  *)
(***************************************************************************)
EXTENDS Gates

QPI == N \div 4

OneQ0 == {"id", "x", "y", "z", "h", "s", "sdg", "t", "tdg", "sx"}
OneQ1 == {"rx", "ry", "rz", "u1", "p", "phase"}
TwoQ0 == {"cx", "CX", "cy", "cz", "ch", "swap"}
TwoQ1 == {"crx", "cry", "crz", "cu1", "cp", "cphase"}
ThreeQ0 == {"ccx", "cswap"}
QArity(q) == IF q \in OneQ0 \cup OneQ1 \cup {"u2", "u3"} THEN 1
             ELSE IF q \in TwoQ0 \cup TwoQ1 \cup {"cu3", "cu"} THEN 2
             ELSE IF q \in ThreeQ0 THEN 3 ELSE 0          \* gphase: no qubit
QNParams(q) == IF q \in OneQ1 \cup TwoQ1 \cup {"gphase"} THEN 1
               ELSE IF q = "u2" THEN 2 ELSE IF q \in {"u3", "cu3"} THEN 3 ELSE IF q = "cu" THEN 4 ELSE 0

QBase(s) ==
  LET q == s.q  p == s.p IN
  CASE q = "id" -> MI [] q = "x" -> MX [] q = "y" -> MY [] q = "z" -> MZ [] q = "h" -> MH
    [] q = "s" -> MS [] q = "sdg" -> Dagger(MS) [] q = "t" -> MT [] q = "tdg" -> Dagger(MT) [] q = "sx" -> MSX
    [] q = "rx" -> MRX(p[1]) [] q = "ry" -> MRY(p[1])
    \* rz(phi) = diag(e^{-i phi/2}, e^{i phi/2})  (qelib1's u1(phi) up to the global phase e^{-i phi/2})
    [] q = "rz" -> MRZ(p[1])
    [] q \in {"u1", "p", "phase"} -> MPhase(p[1])
    [] q = "u2" -> MU2(p[1], p[2])
    [] q = "u3" -> MU3(p[1], p[2], p[3])
    [] q \in {"cx", "CX"} -> MCNOT [] q = "cy" -> MCY [] q = "cz" -> MCZ [] q = "ch" -> MCH [] q = "swap" -> MSWAP
    [] q = "ccx" -> MToffoli [] q = "cswap" -> MCSWAP
    [] q = "crx" -> MCRX(p[1]) [] q = "cry" -> MCRY(p[1]) [] q = "crz" -> MCRZ(p[1])
    [] q \in {"cu1", "cp", "cphase"} -> MCPhase(p[1])
    [] q = "cu3" -> Bind(MU3(p[1], p[2], p[3]), LAMBDA u : CtrlM(u, <<1>>))
    \* cu(theta, phi, lambda, gamma) = (phase gamma on the control) . controlled-u3(theta, phi, lambda)
    [] q = "cu" -> MatMul(Kron(MPhase(p[4]), MI), Bind(MU3(p[1], p[2], p[3]), LAMBDA u : CtrlM(u, <<1>>)))
    \* gphase(gamma): the scalar e^{i gamma} (1 x 1; under ctrl @ it becomes the phase gate p(gamma) on the control)
    [] q = "gphase" -> Mx(0, << <<P(p[1])>> >>)

\* modifiers, innermost first.  Every level is bound to a VALUE before it is used: TLC re-evaluates an operator argument
\* at each reference, and CtrlM references its argument once per matrix entry.
RECURSIVE QMods(_, _, _)
QMods(mat, mods, i) ==
  IF i > Len(mods) THEN mat ELSE
  Bind(mat, LAMBDA mt :
    QMods(CASE mods[i].t = "adj" -> Dagger(mt)
            [] mods[i].t = "pow" -> MatPow(mt, mods[i].z)
            [] mods[i].t = "ctrl" -> CtrlM(mt, mods[i].cv), mods, i + 1))
QasmM(s) == QMods(QBase(s), s.mods, 1)
\* the tape side: Gates.tla's table entry with the same (bound) modifier application
GateMB(r) == QMods(GateBase(r), r.mods, 1)

(* ------------------------------------------------------------------ definitions (qelib1.inc / stdgates.inc) *)
GR(g, w, p) == [g |-> g, w |-> w, p |-> p, x |-> <<>>, m |-> <<>>, mods |-> <<>>]
MatR(mat, w) == [g |-> "MAT", w |-> w, p |-> <<>>, x |-> <<>>, m |-> mat, mods |-> <<>>]
dU(t, f, l, a) == << GR("U3", <<a>>, <<t, f, l>>) >>          \* built-in U(theta,phi,lambda) of OpenQASM 2.0
dCX(c, t)  == << GR("CNOT", <<c, t>>, <<>>) >>               \* built-in CX
du3(t, f, l, a) == dU(t, f, l, a)
du2(f, l, a) == dU(QPI \div 2, f, l, a)
du1(l, a) == dU(0, 0, l, a)
did(a) == dU(0, 0, 0, a)
dx(a) == du3(QPI, 0, QPI, a)
dy(a) == du3(QPI, QPI \div 2, QPI \div 2, a)
dz(a) == du1(QPI, a)
dh(a) == du2(0, QPI, a)
ds(a) == du1(QPI \div 2, a)
dsdg(a) == du1(-(QPI \div 2), a)
dt(a) == du1(QPI \div 4, a)
dtdg(a) == du1(-(QPI \div 4), a)
drx(t, a) == du3(t, -(QPI \div 2), QPI \div 2, a)
dry(t, a) == du3(t, 0, 0, a)
drz(f, a) == du1(f, a)
dcz(a, b) == dh(b) \o dCX(a, b) \o dh(b)
dcy(a, b) == dsdg(b) \o dCX(a, b) \o ds(b)
dswap(a, b) == dCX(a, b) \o dCX(b, a) \o dCX(a, b)
dch(a, b) == dh(b) \o dsdg(b) \o dCX(a, b) \o dh(b) \o dt(b) \o dCX(a, b) \o dt(b) \o dh(b) \o ds(b) \o dx(b) \o ds(a)
dccx(a, b, c) == dh(c) \o dCX(b, c) \o dtdg(c) \o dCX(a, c) \o dt(c) \o dCX(b, c) \o dtdg(c) \o dCX(a, c)
                 \o dt(b) \o dt(c) \o dh(c) \o dCX(a, b) \o dt(a) \o dtdg(b) \o dCX(a, b)
dcswap(a, b, c) == dCX(c, b) \o dccx(a, b, c) \o dCX(c, b)
\* the bodies below halve their parameter: h = lambda/2 must be on the lattice (the caller passes even values)
Hf(a) == a \div 2
dcrz(l, a, b) == du1(Hf(l), b) \o dCX(a, b) \o du1(-Hf(l), b) \o dCX(a, b)
dcu1(l, a, b) == du1(Hf(l), a) \o dCX(a, b) \o du1(-Hf(l), b) \o dCX(a, b) \o du1(Hf(l), b)
dcrx(l, a, b) == du1(QPI \div 2, b) \o dCX(a, b) \o du3(-Hf(l), 0, 0, b) \o dCX(a, b) \o du3(Hf(l), -(QPI \div 2), 0, b)
dcry(l, a, b) == dry(Hf(l), b) \o dCX(a, b) \o dry(-Hf(l), b) \o dCX(a, b)
dcu3(t, f, l, c, tt) == du1(Hf(l + f), c) \o du1(Hf(l - f), tt) \o dCX(c, tt) \o du3(-Hf(t), 0, -Hf(f + l), tt)
                        \o dCX(c, tt) \o du3(Hf(t), f, 0, tt)
\* stdgates.inc (OpenQASM 3): U3(theta,phi,lambda) := e^{i theta/2} U2(theta,phi,lambda);  p(l) = ctrl @ gphase(l);
\* sx = pow(1/2) @ x (principal root);  cp = ctrl @ p;  cu(t,f,l,g) a,b { p(g - t/2) a; ctrl @ U3(t,f,l) a,b; }
U3new(t, f, l) == Bind(MU3(t, f, l), LAMBDA u : MScale(E(t), u))
dp(l, a) == << MatR(CtrlM(Mx(0, << <<P(l)>> >>), <<1>>), <<a>>) >>
dcp(l, a, b) == << MatR(CtrlM(CtrlM(Mx(0, << <<P(l)>> >>), <<1>>), <<1>>), <<a, b>>) >>
dcu(t, f, l, g, a, b) == << MatR(Diag(0, <<One, Zeta(2*g - t)>>), <<a>>), MatR(Bind(U3new(t, f, l), LAMBDA u : CtrlM(u, <<1>>)), <<a, b>>) >>

QDef(s) ==
  LET q == s.q  p == s.p IN
  CASE q = "id" -> did(1) [] q = "x" -> dx(1) [] q = "y" -> dy(1) [] q = "z" -> dz(1) [] q = "h" -> dh(1)
    [] q = "s" -> ds(1) [] q = "sdg" -> dsdg(1) [] q = "t" -> dt(1) [] q = "tdg" -> dtdg(1)
    [] q = "rx" -> drx(p[1], 1) [] q = "ry" -> dry(p[1], 1) [] q = "rz" -> drz(p[1], 1)
    [] q = "u1" -> du1(p[1], 1) [] q = "u2" -> du2(p[1], p[2], 1) [] q = "u3" -> du3(p[1], p[2], p[3], 1)
    [] q \in {"p", "phase"} -> dp(p[1], 1)
    [] q \in {"cx", "CX"} -> dCX(1, 2) [] q = "cy" -> dcy(1, 2) [] q = "cz" -> dcz(1, 2) [] q = "ch" -> dch(1, 2)
    [] q = "swap" -> dswap(1, 2) [] q = "ccx" -> dccx(1, 2, 3) [] q = "cswap" -> dcswap(1, 2, 3)
    [] q = "crx" -> dcrx(p[1], 1, 2) [] q = "cry" -> dcry(p[1], 1, 2) [] q = "crz" -> dcrz(p[1], 1, 2)
    [] q = "cu1" -> dcu1(p[1], 1, 2) [] q \in {"cp", "cphase"} -> dcp(p[1], 1, 2)
    [] q = "cu3" -> dcu3(p[1], p[2], p[3], 1, 2)
    [] q = "cu" -> dcu(p[1], p[2], p[3], p[4], 1, 2)
HasDef(q) == q \notin {"sx", "gphase"}
\* parameters that the definition halves (must be even for the definition to stay on the lattice)
Halved(q) == IF q \in {"crx", "cry", "crz", "cu1"} THEN {1} ELSE IF q = "cu3" THEN {1, 2, 3} ELSE {}

RECURSIVE SeqU(_, _, _, _)
SeqU(u, body, i, n) == IF i > Len(body) THEN u ELSE SeqU(ApplyGate(u, GateM(body[i]), body[i].w, n), body, i + 1, n)
DefM(s) == LET n == QArity(s.q) IN SeqU(Ident(2^n), QDef(s), 1, n)
DefAgrees(s) == EqUpToScalar(QBase(s), DefM(s))
=============================================================================
