-------------------------------- MODULE Ops --------------------------------
(***************************************************************************)
(* Operator TERMS and their denotation (DESIGN 3.2).                       *)
(*                                                                         *)
(* A nested operator expression (adjoint / power / controlled / product /  *)
(* sum / scalar product / exponential / change-of-basis over table gates)  *)
(* is linearised by the codec into a POST-ORDER instruction list.  The     *)
(* denotation is MATRIX ARITHMETIC ON THE OPERANDS' DENOTATIONS - the      *)
(* right-hand side of property C03 - given as the step function of a stack *)
(* machine whose values are exact matrices over Z[zeta_N][1/2] on the      *)
(* term's FULL wire register (n wires, wire 1 = most significant bit):     *)
(*                                                                         *)
(*   PUSH g        push  GateM(g) embedded on wires g.w (reference table)  *)
(*   ROOT g        push  the PRINCIPAL square root of table gate g (only   *)
(*                 where the eigenphases are strictly inside (-pi, pi) and *)
(*                 the root is a ring matrix, see RootDefined)             *)
(*   ADJ           A -> A^dagger                                           *)
(*   POW z         A -> A^z  (z >= 0 repeated product; z < 0 only for a    *)
(*                 unitary A: (A^dagger)^|z|)                              *)
(*   CTRL cw cv    A -> |cv><cv|_cw (x) A + (1 - |cv><cv|_cw) (x) 1        *)
(*                 (work wires are simply wires of the register on which   *)
(*                 the term is the identity)                               *)
(*   PROD k        A1 .. Ak -> A1 * A2 * ... * Ak   (A1 pushed first)      *)
(*   CIRC k        A1 .. Ak -> Ak * ... * A1        (circuit order)        *)
(*   SUM k         A1 .. Ak -> A1 + ... + Ak                               *)
(*   SPROD c       A -> c * A,  c = [c |-> coefficient tuple, k] = c/2^k   *)
(*   EXP a         B -> exp(i phi B) = cos(phi) 1 + i sin(phi) B for an    *)
(*                 involutory B (B*B = 1, e.g. a Pauli word),              *)
(*                 phi = a * 2 pi / N on the lattice                       *)
(*   COB           C, T, U -> U * T * C  (compute, target, uncompute)      *)
(*                                                                         *)
(* Guard(stack, ins, n) names the side condition an instruction needs; the *)
(* trace specs stop a program whose guard fails (reported, never guessed). *)
(* Nothing here is derived from PennyLane's op_math code.                  *)
(***************************************************************************)
EXTENDS Gates

Abs(x) == IF x < 0 THEN -x ELSE x
Top(st) == st[Len(st)]
Pop(st, k) == SubSeq(st, 1, Len(st) - k)

\* ---------------------------------------------------------------- leaves
Embed(g, n) == ApplyGate(Ident(2^n), GateM(g), g.w, n)

\* principal square roots inside the ring.  Half-angle gates exp(-i theta/2 K) (K^3 = K) have eigenphases in
\* {0, +-theta/2}: for |theta/2| < pi the principal root is the same gate at theta/2.  Phase gates exp(i theta P)
\* (P a projector) have eigenphases {0, theta}: for |theta| < pi the principal root replaces e^{i theta} by e^{i theta/2}.
HalfKindGates == {"RX", "RY", "RZ", "IsingXX", "IsingYY", "IsingZZ", "MultiRZ", "PauliRot", "CRX", "CRY", "CRZ"}
ProjKindGates == {"PhaseShift", "U1", "ControlledPhaseShift", "CPhase", "CPhaseShift00", "CPhaseShift01", "CPhaseShift10"}
RootDefined(r) ==
  /\ Len(r.mods) = 0
  /\ \/ r.g \in HalfKindGates /\ r.p[1] % 2 = 0 /\ Abs(r.p[1]) < N \div 2
     \/ r.g \in ProjKindGates /\ Abs(r.p[1]) < N \div 4
     \/ r.g \in {"S", "Identity"}
     \/ r.g \in {"T", "SX"} /\ M >= 4
RootBase(r) ==
  LET g == r.g IN
  CASE g \in HalfKindGates -> GateBase([r EXCEPT !.p = <<r.p[1] \div 2>>])
    [] g \in {"PhaseShift", "U1"} -> Diag(0, <<One, Zeta(r.p[1])>>)
    [] g \in {"ControlledPhaseShift", "CPhase"} -> Diag(0, <<One, One, One, Zeta(r.p[1])>>)
    [] g = "CPhaseShift00" -> Diag(0, <<Zeta(r.p[1]), One, One, One>>)
    [] g = "CPhaseShift01" -> Diag(0, <<One, Zeta(r.p[1]), One, One>>)
    [] g = "CPhaseShift10" -> Diag(0, <<One, One, Zeta(r.p[1]), One>>)
    [] g = "S" -> MT
    [] g = "T" -> Diag(0, <<One, Zeta(N \div 16)>>)                       \* e^{i pi/8}
    [] g = "SX" -> MScale(Zeta(N \div 16), MRX(N \div 16))                \* SX = e^{i pi/4} RX(pi/2)
    [] g = "Identity" -> Ident(2^NT(r))
\* the table's own sanity: the root squares to the gate
RootSquares(r) == Bind(RootBase(r), LAMBDA rt : EqExact(MatMul(rt, rt), GateBase(r)))
EmbedRoot(g, n) == ApplyGate(Ident(2^n), RootBase(g), g.w, n)

\* ---------------------------------------------------------------- unary
PowM(aa, z) == Bind(aa, LAMBDA a : IF z >= 0 THEN MatPow(a, z) ELSE Bind(Dagger(a), LAMBDA d : MatPow(d, -z)))

\* control selection on the full register: row i is kept where the control bits equal cv, identity elsewhere
CtrlSel(i, cw, cv, n) == \A t \in 1..Len(cw) : Bit(i, cw[t], n) = cv[t]
CtrlFull(uu, cw, cv, n) == Bind(uu, LAMBDA u :
   Bind(Int2C(2^u.k), LAMBDA one :
   Norm([k |-> u.k, e |-> TLCEval([i \in 1..2^n |->
        IF CtrlSel(i-1, cw, cv, n) THEN u.e[i]
        ELSE TLCEval([j \in 1..2^n |-> IF i = j THEN one ELSE Zero])])])))
\* the operand must be the identity on the control wires: no entry connects basis states with different control bits
CtrlDisjoint(uu, cw, n) == Bind(uu, LAMBDA u :
   \A i \in 1..2^n : \A j \in 1..2^n :
      IsZero(u.e[i][j]) \/ \A t \in 1..Len(cw) : Bit(i-1, cw[t], n) = Bit(j-1, cw[t], n))

\* c * A and A + B with every operand bound to a value first (TLC re-evaluates operator arguments at each reference)
ScalM(sc, mm) == Bind2(sc.c, mm, LAMBDA c, m :
   Norm([k |-> m.k + sc.k, e |-> TLCEval([i \in 1..Len(m.e) |-> TLCEval([j \in 1..Len(m.e[1]) |-> EMul(c, m.e[i][j])])])]))
AddM(aa, bb) == Bind2(aa, bb, LAMBDA a0, b0 :
   Bind(IF a0.k > b0.k THEN a0.k ELSE b0.k, LAMBDA kk :
   Bind2(ScaleUp(a0, kk), ScaleUp(b0, kk), LAMBDA a, b :
   Norm([k |-> kk, e |-> TLCEval([i \in 1..Len(a.e) |-> TLCEval([j \in 1..Len(a.e[1]) |-> Add(a.e[i][j], b.e[i][j])])])]))))

Involutory(bb) == Bind(bb, LAMBDA b : EqExact(MatMul(b, b), Ident(Len(b.e))))
\* exp(i phi B) = cos(phi) + i sin(phi) B,  phi = a*2pi/N:  (2^k C2(a) 1 + i S2(a) e) / 2^(k+1)  for B = e/2^k
ExpInv(bb, a) == Bind(bb, LAMBDA b :
   Bind2(Scale(2^b.k, C2(a)), Mul(ImI, S2(a)), LAMBDA cc, ss :
   Norm([k |-> b.k + 1, e |-> TLCEval([i \in 1..Len(b.e) |-> TLCEval([j \in 1..Len(b.e) |->
        Add(IF i = j THEN cc ELSE Zero, EMul(ss, b.e[i][j]))])])])))

\* ---------------------------------------------------------------- n-ary (operands A1..Ak are the top k entries, A1 deepest)
ProdTop(st, k) == LET L == Len(st)
                      Pr[t \in 1..k] == IF t = 1 THEN st[L-k+1] ELSE MatMul(Pr[t-1], st[L-k+t]) IN Pr[k]
CircTop(st, k) == LET L == Len(st)
                      Cr[t \in 1..k] == IF t = 1 THEN st[L-k+1] ELSE MatMul(st[L-k+t], Cr[t-1]) IN Cr[k]
SumTop(st, k)  == LET L == Len(st)
                      Sm[t \in 1..k] == IF t = 1 THEN st[L-k+1] ELSE AddM(Sm[t-1], st[L-k+t]) IN Sm[k]

\* ---------------------------------------------------------------- the machine
Arity(ins) == CASE ins.op \in {"PUSH", "ROOT"} -> 0
                [] ins.op \in {"ADJ", "POW", "CTRL", "SPROD", "EXP"} -> 1
                [] ins.op \in {"PROD", "CIRC", "SUM"} -> ins.k
                [] ins.op = "COB" -> 3
                [] OTHER -> 0
Guard(st, ins, n) ==
  IF ins.op \notin {"PUSH", "ROOT", "ADJ", "POW", "CTRL", "SPROD", "EXP", "PROD", "CIRC", "SUM", "COB"} THEN "unknown-instruction"
  ELSE IF Len(st) < Arity(ins) \/ (ins.op \in {"PROD", "CIRC", "SUM"} /\ ins.k < 1) THEN "stack-underflow"
  ELSE CASE ins.op = "PUSH" -> IF ins.g.g \in KnownGates THEN "ok" ELSE "unknown-gate"
         [] ins.op = "ROOT" -> IF ~RootDefined(ins.g) THEN "root-outside-guard" ELSE IF RootSquares(ins.g) THEN "ok" ELSE "root-table-error"
         [] ins.op = "POW"  -> IF ins.z >= 0 \/ IsUnitary(Top(st)) THEN "ok" ELSE "negative-power-of-non-unitary"
         [] ins.op = "CTRL" -> IF CtrlDisjoint(Top(st), ins.cw, n) THEN "ok" ELSE "operand-acts-on-control-wires"
         [] ins.op = "EXP"  -> IF Involutory(Top(st)) THEN "ok" ELSE "exp-base-not-involutory"
         [] OTHER -> "ok"
SemStep(st, ins, n) ==
  CASE ins.op = "PUSH"  -> Append(st, Embed(ins.g, n))
    [] ins.op = "ROOT"  -> Append(st, EmbedRoot(ins.g, n))
    [] ins.op = "ADJ"   -> Append(Pop(st, 1), Dagger(Top(st)))
    [] ins.op = "POW"   -> Append(Pop(st, 1), PowM(Top(st), ins.z))
    [] ins.op = "CTRL"  -> Append(Pop(st, 1), CtrlFull(Top(st), ins.cw, ins.cv, n))
    [] ins.op = "SPROD" -> Append(Pop(st, 1), ScalM(ins.c, Top(st)))
    [] ins.op = "EXP"   -> Append(Pop(st, 1), ExpInv(Top(st), ins.a))
    [] ins.op = "PROD"  -> Append(Pop(st, ins.k), ProdTop(st, ins.k))
    [] ins.op = "CIRC"  -> Append(Pop(st, ins.k), CircTop(st, ins.k))
    [] ins.op = "SUM"   -> Append(Pop(st, ins.k), SumTop(st, ins.k))
    [] ins.op = "COB"   -> LET L == Len(st) IN Append(Pop(st, 3), MatMul(st[L], MatMul(st[L-1], st[L-2])))

\* ---------------------------------------------------------------- relations between denotations
\* relabelling: wire t of the old register is wire perm[t] of the new one
ImgIdx(i, perm, n) == LET S[t \in 0..n] == IF t = 0 THEN 0 ELSE S[t-1] + Bit(i, t, n) * 2^(n - perm[t]) IN S[n]
Relabel(uu, perm, n) == Bind(uu, LAMBDA u :
   Bind(TLCEval([r \in 0..2^n-1 |-> CHOOSE i \in 0..2^n-1 : ImgIdx(i, perm, n) = r]), LAMBDA inv :
   [k |-> u.k, e |-> TLCEval([r \in 1..2^n |-> TLCEval([c \in 1..2^n |-> u.e[inv[r-1]+1][inv[c-1]+1]])])]))
\* Pauli sentence: terms [c |-> ring scalar, w |-> word over 0..3 of length n (wire 1 first)]
ZeroM(d) == [k |-> 0, e |-> TLCEval([i \in 1..d |-> TLCEval([j \in 1..d |-> Zero])])]
PauliSumM(ps, n) == LET Sm[t \in 0..Len(ps)] == IF t = 0 THEN ZeroM(2^n)
                                                 ELSE AddM(Sm[t-1], ScalM(ps[t].c, PauliM(ps[t].w))) IN Sm[Len(ps)]
\* diagonal matrix of ring scalars
MaxK(ev) == LET S[t \in 0..Len(ev)] == IF t = 0 THEN 0 ELSE IF ev[t].k > S[t-1] THEN ev[t].k ELSE S[t-1] IN S[Len(ev)]
DiagOfScalars(ev) == Bind(MaxK(ev), LAMBDA kk :
   Norm([k |-> kk, e |-> TLCEval([i \in 1..Len(ev) |-> TLCEval([j \in 1..Len(ev) |->
        IF i = j THEN Scale(2^(kk - ev[i].k), ev[i].c) ELSE Zero])])]))
\* O = D^dagger diag(ev) D
FromEigen(dd, ev) == Bind(dd, LAMBDA d : MatMul(Dagger(d), MatMul(DiagOfScalars(ev), d)))
=============================================================================
