----------------------------- MODULE Attributes ------------------------------
(***************************************************************************)
(* C07  Operator class attribute claims are true.                          *)
(*                                                                         *)
(* For every attribute set of pennylane/ops/qubit/attributes.py its        *)
(* DEFINING predicate, written from the attribute's docstring / the        *)
(* property statement, over the reference gate table Gates.tla (exact      *)
(* matrices over Z[zeta_N][1/2]; angles are lattice integers a meaning     *)
(* theta = a*4*pi/N).  The predicates take a gate INSTANCE (a gate record  *)
(* with its parameters filled in); "for every parameter value" is the      *)
(* quantification over AInsts(name) done by the trace spec, one instance   *)
(* per TLC state.                                                          *)
(*                                                                         *)
(*   self_inverses                 G.G = I                                 *)
(*   symmetric_over_all_wires      G listed on pi(wires) = G, every pi     *)
(*   symmetric_over_control_wires  the same for every pi fixing the last   *)
(*                                 (target) wire                           *)
(*   diagonal_in_z_basis           all off-diagonal entries are zero       *)
(*   composable_rotations          G(a).G(b) = G(a+b); for Rot ("alter-    *)
(*                                 native accumulation"): the product of   *)
(*                                 two Rots is again in the image of Rot,  *)
(*                                 i.e. an element of SU(2)                *)
(*   has_unitary_generator         G(theta) = exp(theta*A) with A'A        *)
(*                                 a non-zero multiple of I                *)
(*   supports_broadcasting         decided by REPLAY: the trace spec emits *)
(*                                 the exact per-angle matrices, the       *)
(*                                 driver stacks them                      *)
(***************************************************************************)
EXTENDS Gates, FiniteSets

AW(n) == [i \in 1..n |-> i]
AG(g, n, p, x) == [g |-> g, w |-> AW(n), p |-> p, x |-> x, m |-> <<>>, mods |-> <<>>]

\* ---------------------------------------------------------------- documented signatures of the table names
A1 == {"PauliX","PauliY","PauliZ","Hadamard","S","T","SX","RX","RY","RZ","PhaseShift","U1","Rot","U2","U3"}
A2 == {"CNOT","CY","CZ","CH","SWAP","ISWAP","SISWAP","SQISW","ECR","CRX","CRY","CRZ","CRot","ControlledPhaseShift","CPhase",
       "CPhaseShift00","CPhaseShift01","CPhaseShift10","IsingXX","IsingYY","IsingZZ","IsingXY","PSWAP","SingleExcitation",
       "SingleExcitationPlus","SingleExcitationMinus","FermionicSWAP"}
A3 == {"Toffoli","CCZ","CSWAP","QubitSum"}
A4 == {"QubitCarry","DoubleExcitation","DoubleExcitationPlus","DoubleExcitationMinus"}
P1 == {"RX","RY","RZ","PhaseShift","U1","CRX","CRY","CRZ","ControlledPhaseShift","CPhase","CPhaseShift00","CPhaseShift01",
       "CPhaseShift10","IsingXX","IsingYY","IsingZZ","IsingXY","PSWAP","SingleExcitation","SingleExcitationPlus",
       "SingleExcitationMinus","FermionicSWAP","DoubleExcitation","DoubleExcitationPlus","DoubleExcitationMinus"}
P2 == {"U2"}
P3 == {"Rot","U3","CRot"}
VarArity == {"Identity","MultiRZ","PauliRot","GlobalPhase","QFT","MultiControlledX"}
TableNames == A1 \cup A2 \cup A3 \cup A4 \cup VarArity
AArity(g) == IF g \in A1 THEN 1 ELSE IF g \in A2 THEN 2 ELSE IF g \in A3 THEN 3 ELSE 4
ANPar(g) == IF g \in P1 \cup {"MultiRZ","PauliRot","GlobalPhase"} THEN 1 ELSE IF g \in P2 THEN 2 ELSE IF g \in P3 THEN 3 ELSE 0

\* Pauli words / control values / register sizes used for the names whose arity is not fixed
AWords == UNION {[1..n -> 0..3] : n \in 1..2} \cup {<<1,2,3>>, <<3,0,1>>, <<2,2,0>>, <<3,3,3>>}
ACvs == UNION {[1..n -> 0..1] : n \in 1..3}
QftMax == IF M >= 3 THEN 3 ELSE 2

\* every instance of a name: all lattice angles 0..N-1 (one full 4*pi period) for one-parameter gates, the product
\* grid G3 for the 2/3-parameter gates
AInsts(g, G3) ==
  CASE g = "Identity"         -> {AG(g, n, <<>>, <<>>) : n \in 1..3}
    [] g = "MultiRZ"          -> {AG(g, n, <<a>>, <<>>) : n \in 1..3, a \in 0..N-1}
    [] g = "PauliRot"         -> {AG(g, Len(pw), <<a>>, pw) : pw \in AWords, a \in 0..N-1}
    [] g = "GlobalPhase"      -> {AG(g, 1, <<a>>, <<>>) : a \in 0..N-1}
    [] g = "QFT"              -> {AG(g, n, <<>>, <<>>) : n \in 1..QftMax}
    [] g = "MultiControlledX" -> {AG(g, Len(cv) + 1, <<>>, cv) : cv \in ACvs}
    [] g \in P1               -> {AG(g, AArity(g), <<a>>, <<>>) : a \in 0..N-1}
    [] g \in P2               -> {AG(g, AArity(g), <<a, b>>, <<>>) : a \in G3, b \in G3}
    [] g \in P3               -> {AG(g, AArity(g), <<a, b, d>>, <<>>) : a \in G3, b \in G3, d \in G3}
    [] OTHER                  -> {AG(g, AArity(g), <<>>, <<>>)}

\* ---------------------------------------------------------------- the defining predicates (on one instance)
Perms(n) == {f \in [1..n -> 1..n] : \A i, j \in 1..n : f[i] = f[j] => i = j}
\* the matrix, in a register of n wires in natural order, of the gate listed on the wires pi[1], pi[2], ...
Listed(gm, pi, n) == ApplyGate(Ident(2^n), gm, pi, n)

SelfInverseAt(r) == Bind(GateM(r), LAMBDA gm : EqExact(MatMul(gm, gm), Ident(Dim(gm))))
SymAllAt(r) == LET n == Len(r.w) IN Bind(GateM(r), LAMBDA gm : \A pi \in Perms(n) : EqExact(Listed(gm, pi, n), gm))
SymCtrlAt(r) == LET n == Len(r.w) IN
   Bind(GateM(r), LAMBDA gm : n >= 2 /\ \A pi \in {f \in Perms(n) : f[n] = n} : EqExact(Listed(gm, pi, n), gm))
DiagZAt(r) == Bind(GateM(r), LAMBDA gm : \A i, j \in 1..Dim(gm) : i # j => IsZero(gm.e[i][j]))
\* one-parameter rotation: r at angle a, composed with the same gate at angle b
WithAngle(r, b) == [r EXCEPT !.p = <<b>>]
ComposableAt(r, b) == Len(r.p) = 1 /\ EqExact(MatMul(GateM(r), GateM(WithAngle(r, b))), GateM(WithAngle(r, r.p[1] + b)))
\* "the gate implements a rotation about an axis by an effective angle" (Rot): Rot(phi,theta,omega) ranges over SU(2)
\* (ZYZ Euler angles), so the family is closed under composition iff every product has the SU(2) form
\* [[x, -conj(y)], [y, conj(x)]] and is unitary (=> determinant |x|^2 + |y|^2 = 1)
SU2Form(pm) == /\ Dim(pm) = 2 /\ pm.e[2][2] = Conj(pm.e[1][1]) /\ pm.e[1][2] = Neg(Conj(pm.e[2][1])) /\ IsUnitary(pm)
RotClosedAt(r, q) == Bind(MatMul(GateM(r), GateM(q)), LAMBDA pm : SU2Form(pm))
\* A = dU/dtheta . U^-1 (= -i * generator) from the derivative table; the table's A is tied to the gate matrix by the
\* closed form of the exponential (GenConsistent, required by the trace spec at every lattice angle)
UnitaryGenAt(r) == HasGen(r) /\ Bind(AGen(r), LAMBDA am : ~IsZeroM(am) /\ EqUpToScalar(Ident(Dim(am)), MatMul(Dagger(am), am)))
GenConsistent(r) == HasGen(r) => EqExact(GenClosedForm(r), GateM(r))

AttrNames == {"self_inverses", "symmetric_over_all_wires", "symmetric_over_control_wires", "diagonal_in_z_basis",
              "composable_rotations", "has_unitary_generator", "supports_broadcasting"}
\* does the claim (attr, name) hold on the instance pair (r, q)?  q = second factor for composable_rotations, else q = r
ClaimAt(attr, r, q) ==
  CASE attr = "self_inverses"                -> SelfInverseAt(r)
    [] attr = "symmetric_over_all_wires"     -> SymAllAt(r)
    [] attr = "symmetric_over_control_wires" -> SymCtrlAt(r)
    [] attr = "diagonal_in_z_basis"          -> DiagZAt(r)
    [] attr = "composable_rotations"         -> IF Len(r.p) = 1 THEN ComposableAt(r, q.p[1])
                                                ELSE IF r.g = "Rot" THEN RotClosedAt(r, q) ELSE FALSE
    [] attr = "has_unitary_generator"        -> UnitaryGenAt(r)
    [] attr = "supports_broadcasting"        -> IsUnitary(GateM(r))      \* the stack itself is compared by the driver (REPLAY)
=============================================================================
