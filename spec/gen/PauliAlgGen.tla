---------------------------- MODULE PauliAlgGen -----------------------------
(***************************************************************************)
(* C51 generator + self-check of the reference (REPLAY pattern).           *)
(* One behaviour per case: Init picks the case, Emit decides the LAWS of   *)
(* the case on the reference itself (PauliAlg against matrix algebra in    *)
(* CMat) and prints the case with the expected results.                    *)
(*  kind "pair": EVERY pair of words on n <= NW wires                      *)
(*     laws  mat(a*b) = mat(a) mat(b) (with phase); PCommutes <=> AB = BA; *)
(*           ~PCommutes <=> AB = -BA; PCommutes <=> symplectic form = 0;   *)
(*           PQWC <=> the letters commute wire by wire;                    *)
(*           mat([a,b]) = AB - BA; a is unitary and Hermitian;             *)
(*           tr(a)/2^n = coefficient of the identity                       *)
(*  kind "word": every word on n <= NW wires x every wire order (all       *)
(*     permutations, and orders with one foreign wire when n < NW)         *)
(*     emits the exact matrix of the word listed in that wire order        *)
(*  kind "sent": NS pseudo-random pairs (s, t) of sentences with <= 3      *)
(*     terms, coefficients from {1,-1,1/2,i,-i/2,2}, a scalar c and a wire *)
(*     order, derived from (case index, SEED) by a multiplicative          *)
(*     congruential generator evaluated by TLC                             *)
(*     laws  mat(s t) = mat(s) mat(t); mat(s+t) = mat(s)+mat(t);           *)
(*           mat(c s) = c mat(s); mat([s,t]) = ST - TS;                    *)
(*           2^n trace(s) = tr mat(s); every coefficient of s is           *)
(*           tr(P_w mat(s))/2^n (the textbook Pauli decomposition)         *)
(* Invariant Lawful: bad = "" (bad names the first failing law).           *)
(***************************************************************************)
EXTENDS PauliAlg, Json
CONSTANTS NW, NS, SEED
VARIABLES c, done, bad

Coefs == << <<1,0,0>>, <<-1,0,0>>, <<1,0,1>>, <<0,1,0>>, <<0,-1,1>>, <<2,0,0>> >>
Perms(n) == CASE n = 1 -> << <<1>> >>
              [] n = 2 -> << <<1,2>>, <<2,1>> >>
              [] n = 3 -> << <<1,2,3>>, <<1,3,2>>, <<2,1,3>>, <<2,3,1>>, <<3,1,2>>, <<3,2,1>> >>
InsertZero(p, k) == [i \in 1..(Len(p)+1) |-> IF i < k THEN p[i] ELSE IF i = k THEN 0 ELSE p[i-1]]
Orders(n) == {Perms(n)[j] : j \in DOMAIN Perms(n)}
             \cup (IF n < NW THEN {InsertZero(Perms(n)[j], k) : j \in DOMAIN Perms(n), k \in 1..(n+1)} ELSE {})

PairCases == UNION {{[kind |-> "pair", n |-> n, a |-> a, b |-> b] : a \in PWords(n), b \in PWords(n)} : n \in 1..NW}
WordCases == UNION {{[kind |-> "word", n |-> n, a |-> a, ord |-> o] : a \in PWords(n), o \in Orders(n)} : n \in 1..NW}
SentCases == {[kind |-> "sent", i |-> i] : i \in 1..NS}

Init == c \in PairCases \cup WordCases \cup SentCases /\ done = FALSE /\ bad = ""

\* ------------------------------------------------------------------- laws
First(ls) == LET f == SelectSeq(ls, LAMBDA t : ~t[2]) IN IF Len(f) = 0 THEN "" ELSE f[1][1]
LetCommute(x, y) == EqExact(MatMul(PLetMat(x), PLetMat(y)), MatMul(PLetMat(y), PLetMat(x)))
PairLaws(n, a, b) ==
  Bind2(PWToMat(a), PWToMat(b), LAMBDA A, B : Bind2(MatMul(A, B), MatMul(B, A), LAMBDA AB, BA :
    First(<< <<"product", EqExact(PToMat(PWMul(a, b)), AB)>>,
             <<"product-phased", EqExact(PToMat(PMul([p |-> 1, w |-> a], [p |-> 2, w |-> b])), PMatScaleG(GdIPow(3), AB))>>,
             <<"commutes", PCommutes(a, b) <=> EqExact(AB, BA)>>,
             <<"anticommutes", PAnticommutes(a, b) <=> EqExact(AB, PMatNeg(BA))>>,
             <<"symplectic", PCommutes(a, b) <=> (PSympProd(a, b) = 0)>>,
             <<"xz-roundtrip", PFromXZ(PXBits(a), PZBits(a)) = a>>,
             <<"qwc", PQWC(a, b) <=> \A i \in 1..n : LetCommute(a[i], b[i])>>,
             <<"qwc-implies-commutes", PQWC(a, b) => PCommutes(a, b)>>,
             <<"commutator", EqExact(SToMat(PCommutator(a, b), n), PMatSub(AB, BA))>>,
             <<"involution", EqExact(MatMul(A, A), Ident(2^n)) /\ EqExact(Dagger(A), A)>>,
             <<"trace", EqExact(PMatTrace(A), PMatScaleG(GdInt(2^n), GdToMat1(STrace(SWord(a), n))))>>,
             <<"index", PWordOfIdx(PWordIdx(a), n) = a>> >>)))

\* --------------------------------------------------- pseudo-random sentences
RndP == 46337
RndX(i) == LET R[j \in 0..40] == IF j = 0 THEN (i * 7919 + SEED * 104729 + 1) % RndP ELSE (R[j-1] * 16807 + 17) % RndP IN R
Fact(n) == IF n <= 1 THEN 1 ELSE IF n = 2 THEN 2 ELSE 6
SentCase(i) == Bind(TLCEval(RndX(i)), LAMBDA x :
  LET r  == x[1] % 10
      n  == IF NW = 1 \/ r = 0 THEN 1 ELSE IF NW = 2 \/ r <= 4 THEN 2 ELSE 3
      ks == IF x[2] % 16 = 0 THEN 0 ELSE 1 + (x[2] % 3)
      kt == IF x[3] % 16 = 0 THEN 0 ELSE 1 + (x[3] % 3)
      sp == [j \in 1..ks |-> <<PWordOfIdx(x[4 + 2*j] % (4^n), n), Coefs[(x[5 + 2*j] % 6) + 1]>>]
      \* a term of t re-uses the word of a term of s half of the time (products then collide and cancel)
      tp == [j \in 1..kt |-> <<IF j <= ks /\ x[24 + j] % 2 = 0 THEN sp[j][1] ELSE PWordOfIdx(x[12 + 2*j] % (4^n), n),
                               Coefs[(x[13 + 2*j] % 6) + 1]>>]
      pm == Perms(n)[(x[21] % Fact(n)) + 1]
      od == IF n < NW /\ x[22] % 3 = 0 THEN InsertZero(pm, (x[23] % (n+1)) + 1) ELSE pm
  IN [n |-> n, sp |-> sp, tp |-> tp, cf |-> Coefs[(x[20] % 6) + 1], ord |-> od])
AsTerms(ps) == [k \in DOMAIN ps |-> [w |-> ps[k][1], c |-> ps[k][2]]]
SentLaws(n, s, t, cf) ==
  Bind2(SToMat(s, n), SToMat(t, n), LAMBDA S, T : Bind2(MatMul(S, T), MatMul(T, S), LAMBDA ST, TS :
    First(<< <<"s-product", EqExact(SToMat(SMul(s, t), n), ST)>>,
             <<"s-sum", EqExact(SToMat(SAdd(s, t), n), PMatAdd(S, T))>>,
             <<"s-difference", EqExact(SToMat(SSub(s, t), n), PMatSub(S, T))>>,
             <<"s-scalar", EqExact(SToMat(SScale(cf, s), n), PMatScaleG(cf, S))>>,
             <<"s-commutator", EqExact(SToMat(SCommutator(s, t), n), PMatSub(ST, TS))>>,
             <<"s-trace", EqExact(PMatTrace(S), PMatScaleG(GdInt(2^n), GdToMat1(STrace(s, n))))>>,
             <<"s-decompose", \A w \in PWords(n) : EqExact(PMatCoef(w, S), GdToMat1(SCoef(s, w)))>>,
             <<"s-terms", SEq(SFromTerms(STerms(s)), s)>> >>)))

PairResult(n, a, b) == [bad |-> PairLaws(n, a, b),
   out |-> [kind |-> "pair", n |-> n, a |-> a, b |-> b, prod |-> PWMul(a, b), com |-> PCommutes(a, b), qwc |-> PQWC(a, b),
            comm |-> STerms(PCommutator(a, b)), sum |-> STerms(SAdd(SWord(a), SWord(b))), diff |-> STerms(SSub(SWord(a), SWord(b)))]]
WordResult(n, a, ord) == [bad |-> "", out |-> [kind |-> "word", n |-> n, a |-> a, ord |-> ord, mat |-> PWToMat(PReorder(a, ord))]]
SentResult(i) == Bind(SentCase(i), LAMBDA k : Bind2(SFromPairs(k.sp), SFromPairs(k.tp), LAMBDA s, t :
   Bind(SMul(s, t), LAMBDA st :
   [bad |-> SentLaws(k.n, s, t, k.cf),
    out |-> [kind |-> "sent", i |-> i, n |-> k.n, s |-> AsTerms(k.sp), t |-> AsTerms(k.tp), cf |-> k.cf, ord |-> k.ord,
             sn |-> STerms(s), tn |-> STerms(t),
             add |-> STerms(SAdd(s, t)), sub |-> STerms(SSub(s, t)), scale |-> STerms(SScale(k.cf, s)),
             addc |-> STerms(SAdd(s, SMono(k.cf, PIdWord(k.n)))), csub |-> STerms(SSub(SMono(k.cf, PIdWord(k.n)), s)),
             mul |-> STerms(st), comm |-> STerms(SCommutator(s, t)), tr |-> STrace(s, k.n),
             mat |-> SToMat(SReorder(s, k.ord), Len(k.ord)),
             matp |-> SToMat(SReorder(st, k.ord), Len(k.ord))]])))
Result == CASE c.kind = "pair" -> PairResult(c.n, c.a, c.b)
            [] c.kind = "word" -> WordResult(c.n, c.a, c.ord)
            [] c.kind = "sent" -> SentResult(c.i)
\* the bound variable of \E over a singleton is a VALUE: the result is computed once
Emit == /\ ~done /\ done' = TRUE /\ c' = c
        /\ \E res \in {Result} : bad' = res.bad /\ PrintT(ToJson(res.out))
Next == Emit
Lawful == bad = ""
=============================================================================
