------------------------------- MODULE SpecsGen -------------------------------
(***************************************************************************)
(* Generators for C46 (REPLAY) over SpecsModel.                            *)
(*                                                                         *)
(* Circuits (InitC / NextC): every circuit of at most MaxOps operations    *)
(*   over the gate alphabet on wires 0..W-1 (all placements; a "Cond"      *)
(*   operation is classically controlled by the most recent mid-circuit    *)
(*   measurement "M"; an operation of arity 0 is given no wires and acts   *)
(*   on all of them), combined with every terminal measurement kind:       *)
(*     "z0"    expval(Z(0))        -> mentions wire 0                      *)
(*     "all"   probs() on all wires -> mentions no further wire            *)
(*     "extra" probs(wires=[W])    -> mentions a wire no operation uses    *)
(*   Each case is printed with the expected Summary; the invariant LawsC   *)
(*   checks SpecsModel's own laws on every enumerated circuit.             *)
(* Polynomials (InitP / NextP): symbolic counts p (at most two terms),     *)
(*   q (at most one term), scalars and substitutions; each case is printed *)
(*   with the expected canonical result and its value under two            *)
(*   assignments; the invariant LawsP checks that the operations commute   *)
(*   with evaluation.                                                      *)
(***************************************************************************)
EXTENDS SpecsModel, Json
CONSTANTS W, MaxOps, SpreadKinds,
          Alphabet,      \* set of [g, k, sym]: name, arity, sym = TRUE: only ascending placements
          NV, Coefs, Scalars, SubVals,
          Envs           \* set of assignments [1..NV -> Int] for the laws; the first two of EnvSeq are printed
VARIABLES ph, c, mk, pcase
vars == <<ph, c, mk, pcase>>

NoCase == [op |-> "", p |-> <<>>, q |-> <<>>, k |-> 0, v |-> 1, val |-> 0]

\* ------------------------------------------------------------------ circuits
Wires == 0..(W - 1)
Inj(k) == {s \in [1..k -> Wires] : \A i, j \in 1..k : i # j => s[i] # s[j]}
Asc(k) == {s \in [1..k -> Wires] : \A i \in 1..(k - 1) : s[i] < s[i + 1]}
LastM(cc) == LET ms == {i \in 1..Len(cc) : cc[i].g = "M"} IN IF ms = {} THEN 0 ELSE MaxOf(ms)
NextOps(cc) ==
  UNION {{[g |-> a.g, w |-> s, dep |-> IF a.g = "Cond" THEN <<LastM(cc)>> ELSE <<>>] :
          s \in IF a.sym THEN Asc(a.k) ELSE Inj(a.k)} : a \in {b \in Alphabet : b.g # "Cond" \/ LastM(cc) > 0}}
MeasKinds == {"z0", "all", "extra"}
MeasWires(m) == CASE m = "z0" -> {0} [] m = "all" -> {} [] m = "extra" -> {W}
\* circuits of full length get one measurement kind (spread deterministically), shorter ones all three
KindSeq == <<"z0", "all", "extra">>
RECURSIVE WireSum(_)
WireSum(cc) == IF cc = <<>> THEN 0 ELSE Len(cc[1].w) + (IF cc[1].w = <<>> THEN 0 ELSE cc[1].w[1]) + WireSum(Tail(cc))
KindsFor(cc) == IF Len(cc) < MaxOps \/ ~SpreadKinds THEN MeasKinds ELSE {KindSeq[(WireSum(cc) % 3) + 1]}

InitC == ph = "grow" /\ c = <<>> /\ mk = "" /\ pcase = NoCase
Grow  == /\ ph = "grow" /\ Len(c) < MaxOps /\ \E op \in NextOps(c) : c' = Append(c, op)
         /\ UNCHANGED <<ph, mk, pcase>>
EmitC == /\ ph = "grow" /\ ph' = "done" /\ UNCHANGED <<c, pcase>>
         /\ \E m \in KindsFor(c) :
              /\ mk' = m
              /\ PrintT(ToJson([kind |-> "circ", ops |-> c, meas |-> m, exp |-> Summary(c, MeasWires(m))]))
NextC == Grow \/ EmitC
LawsC == (ph = "grow" /\ mk = "") => \A m \in KindsFor(c) :
           /\ LawCircuit(c, MeasWires(m))
           /\ (Len(c) >= 1 => LawAppend(SubSeq(c, 1, Len(c) - 1), MeasWires(m), c[Len(c)]))

\* ------------------------------------------------------------------ polynomials
Vars == 1..NV
Mono2 == {<<>>} \cup {<<v>> : v \in Vars} \cup {<<x[1], x[2]>> : x \in {y \in Vars \X Vars : y[1] <= y[2]}}
P1 == {<<>>} \cup {m :> k : m \in Mono2, k \in Coefs}
Poly2 == P1 \cup {(x[1] :> k1) @@ (x[2] :> k2) : x \in {y \in Mono2 \X Mono2 : y[1] # y[2]}, k1 \in Coefs, k2 \in Coefs}

InitP == /\ ph = "pick" /\ c = <<>> /\ mk = ""
         /\ \E p \in Poly2, op \in {"add", "mul", "scale", "subs"} : pcase = [NoCase EXCEPT !.op = op, !.p = p]
Pick  == /\ ph = "pick" /\ ph' = "picked" /\ UNCHANGED <<c, mk>>
         /\ \/ pcase.op \in {"add", "mul"} /\ \E q \in P1 : pcase' = [pcase EXCEPT !.q = q]
            \/ pcase.op = "scale" /\ \E k \in Scalars : pcase' = [pcase EXCEPT !.k = k]
            \/ pcase.op = "subs" /\ \E v \in Vars, x \in SubVals : pcase' = [pcase EXCEPT !.v = v, !.val = x]
Result(cs) == CASE cs.op = "add"   -> PAdd(cs.p, cs.q)
                [] cs.op = "mul"   -> PMul(cs.p, cs.q)
                [] cs.op = "scale" -> PScale(cs.p, cs.k)
                [] cs.op = "subs"  -> PSubs(cs.p, cs.v, cs.val)
Pairs(p) == {<<m, p[m]>> : m \in DOMAIN p}
EnvSeq == SetToSeq(Envs)
EmitP == /\ ph = "picked" /\ ph' = "done" /\ UNCHANGED <<c, mk, pcase>>
         /\ LET r == TLCEval(Result(pcase)) IN
            PrintT(ToJson([kind |-> "poly", op |-> pcase.op, p |-> Pairs(pcase.p), q |-> Pairs(pcase.q), k |-> pcase.k, v |-> pcase.v,
                           val |-> pcase.val, res |-> Pairs(r), vars |-> PVars(r),
                           envs |-> [i \in 1..2 |-> EnvSeq[i]],
                           vals |-> [i \in 1..2 |-> PEval(r, EnvSeq[i])]]))
NextP == Pick \/ EmitP
LawsP == ph = "picked" => LawPoly(pcase.p, pcase.q, pcase.k, pcase.v, pcase.val, Envs)

InitAll == InitC \/ InitP
NextAll == NextC \/ NextP
=============================================================================
