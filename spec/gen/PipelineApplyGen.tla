--------------------------- MODULE PipelineApplyGen ---------------------------
(* Generator for C23 (REPLAY of the application): explores PipelineApply.tla exhaustively and emits, per case, *)
(* the pipeline's fan-out tables, the batch, the executed batch (leaf tags, in order), the slices pushed by     *)
(* every stage and the expected symbolic result terms <<R(t, pipe) : t in batch>>.  Mutated models (Muts)      *)
(* print whether their result still equals the reference (negative controls of Routing).                      *)
EXTENDS PipelineApply, Json
Emit == IF phase # "done" THEN TRUE
        ELSE IF mut # 0 THEN PrintT(<<"MUT", mut, IF res = Expected THEN "same" ELSE "caught">>)
        ELSE PrintT(ToJson([cot |-> cot, pipe |-> [k \in 1..Len(pipe) |-> [c \in 1..C |-> pipe[k][c - 1]]], batch |-> batch,
                            leaves |-> leaves, slices |-> allsl, exp |-> Expected]))
=============================================================================
