---------------------------- MODULE FermiMapGen -----------------------------
(***************************************************************************)
(* C53 generator + self-check of the reference (REPLAY pattern).           *)
(* One behaviour per case; Emit decides the laws of the case ON THE        *)
(* REFERENCE (invariant Lawful: bad = "") and prints expected images.      *)
(*  kind "law"  (n in 1..NL) laws of FermiMap on n modes / qubits:         *)
(*     jw-car        {a_i, a_j^dag} = delta_ij, {a_i, a_j} = 0 and         *)
(*                   {a_i^dag, a_j^dag} = 0 for the Jordan-Wigner letters  *)
(*     jw-adjoint    JW(a_j)^dag = JW(a_j^dag)                             *)
(*     jw-matrix     (n <= NMAT) the exact matrix of JW(a_j) is the        *)
(*                   textbook Z x..x Z x |0><1| x I x..x I                 *)
(*     enc-*         the parity (prefix sum) and Bravyi-Kitaev (Fenwick)   *)
(*                   matrices are unit lower triangular, BInv inverts them,*)
(*                   q = B f is a bijection of the 2^n basis states,       *)
(*                   Fenwick closed form = block recursion                 *)
(*     enc-identity  EncLetter(identity) = JW;  enc-parity-doc:            *)
(*                   EncLetter(prefix sums) = the documented parity formula*)
(*     enc-car       CAR for the parity and Bravyi-Kitaev letters          *)
(*     enc-matrix    (n <= NMAT) matrix of the letter = P_B JW-matrix P_B^T*)
(*                   with P_B the permutation matrix of |f> -> |B f>       *)
(*     conj-letter   ConjB(B, JW letter) = letter of the mapping (the      *)
(*                   fixed Clifford);  conj-matrix (n <= NMAT): ConjWord   *)
(*                   on EVERY Pauli word equals P_B word P_B^T             *)
(*  kind "gens" (map, n in 1..NQ): all letters of the mapping on n qubits  *)
(*  kind "word": EVERY fermi word of length <= LMAX over NM modes with its *)
(*     images under the three mappings on NM qubits                        *)
(***************************************************************************)
EXTENDS FermiMap, Json
CONSTANTS NL, NMAT, NQ, NM, LMAX
VARIABLES c, done, bad

Letters(n) == (1..n) \X {0, 1}
FWords(n, L) == UNION {[1..l -> Letters(n)] : l \in 0..L}
LawCases == {[kind |-> "law", n |-> n] : n \in 1..NL}
GenCases == {[kind |-> "gens", map |-> mp, n |-> n] : mp \in MapNames, n \in 1..NQ}
WordCases == {[kind |-> "word", w |-> w] : w \in FWords(NM, LMAX)}
Init == c \in LawCases \cup GenCases \cup WordCases /\ done = FALSE /\ bad = ""

First(ls) == LET f == SelectSeq(ls, LAMBDA t : ~t[2]) IN IF Len(f) = 0 THEN "" ELSE f[1][1]
CeilPow2(n) == CHOOSE d \in {1, 2, 4, 8, 16, 32} : d >= n /\ (d = 1 \/ d \div 2 < n)
Delta(i, j, n) == IF i = j THEN SIdent(n) ELSE SZero
CARof(tab, n) == \A i \in 1..n : \A j \in 1..n :
   /\ SEq(SAntiComm(tab[i][1], tab[j][2]), Delta(i, j, n))
   /\ SEq(SAntiComm(tab[i][1], tab[j][1]), SZero)
   /\ SEq(SAntiComm(tab[i][2], tab[j][2]), SZero)
EncLaws(map, n, jw) == Bind2(BOf(map, n), LetterTable(map, n), LAMBDA B, tab : Bind2(BInv(B, n), PermMat(B, n), LAMBDA Bi, PB :
   First(<< <<map \o "-enc-unit-lower", BIsUnitLower(B, n)>>,
            <<map \o "-enc-inverse", BMul(B, Bi, n) = BIdent(n) /\ BMul(Bi, B, n) = BIdent(n)>>,
            <<map \o "-enc-bijection", Cardinality({BApply(B, f, n) : f \in [1..n -> {0, 1}]}) = 2^n>>,
            <<map \o "-enc-letter", \A j \in 1..n : \A t \in {0, 1} : SEq(EncLetterI(B, Bi, j, t, n), tab[j][t+1])>>,
            <<map \o "-enc-car", CARof(tab, n)>>,
            <<map \o "-enc-adjoint", \A j \in 1..n : SEq(SAdj(tab[j][1]), tab[j][2])>>,
            <<map \o "-conj-letter", \A j \in 1..n : \A t \in {0, 1} : SEq(ConjB(B, jw[j][t+1], n), tab[j][t+1])>>,
            <<map \o "-enc-matrix", n > NMAT \/ \A j \in 1..n : \A t \in {0, 1} :
                  EqExact(SToMat(tab[j][t+1], n), MatMul(PB, MatMul(OccLadderMat(j, t, n), Dagger(PB))))>>,
            <<map \o "-conj-matrix", n > NMAT \/ \A w \in PWords(n) :
                  EqExact(PToMat(ConjWord(B, Bi, w, n)), MatMul(PB, MatMul(PWToMat(w), Dagger(PB))))>> >>)))
Laws(n) == Bind(LetterTable("jw", n), LAMBDA jw :
   First(<< <<"jw-car", CARof(jw, n)>>,
            <<"jw-adjoint", \A j \in 1..n : SEq(SAdj(jw[j][1]), jw[j][2])>>,
            <<"jw-matrix", n > NMAT \/ \A j \in 1..n : \A t \in {0, 1} : EqExact(SToMat(jw[j][t+1], n), OccLadderMat(j, t, n))>>,
            <<"fenwick-is-block", BFenwick(n) = BTopLeft(BKBlock(CeilPow2(n)), n)>>,
            <<"word-adjoint", \A j \in 1..n : SEq(SAdj(WordImageT(jw, <<<<j, 1>>, <<1, 0>>>>, n)), WordImageT(jw, FAdjWord(<<<<j, 1>>, <<1, 0>>>>), n))>>,
            <<EncLaws("jw", n, jw), EncLaws("jw", n, jw) = "">>,
            <<EncLaws("par", n, jw), EncLaws("par", n, jw) = "">>,
            <<EncLaws("bk", n, jw), EncLaws("bk", n, jw) = "">> >>))

GensResult(mp, n) == Bind(LetterTable(mp, n), LAMBDA tab :
   [bad |-> "", out |-> [kind |-> "gens", map |-> mp, n |-> n,
                         letters |-> [j \in 1..n |-> [tt \in 1..2 |-> STermsL(tab[j][tt])]]]])
WordResult(w) ==
   [bad |-> "", out |-> [kind |-> "word", n |-> NM, w |-> w,
                         jw |-> STermsL(WordImage("jw", w, NM)), par |-> STermsL(WordImage("par", w, NM)),
                         bk |-> STermsL(WordImage("bk", w, NM))]]
Result == CASE c.kind = "law" -> [bad |-> Laws(c.n), out |-> [kind |-> "law", n |-> c.n]]
            [] c.kind = "gens" -> GensResult(c.map, c.n)
            [] c.kind = "word" -> WordResult(c.w)
Emit == /\ ~done /\ done' = TRUE /\ c' = c
        /\ \E res \in {Result} : bad' = res.bad /\ PrintT(ToJson(res.out))
Next == Emit
Lawful == bad = ""
=============================================================================
