---------------------------- MODULE FermiMapGen -----------------------------
(***************************************************************************)
(* C53 generator + self-check of the reference (REPLAY pattern).           *)
(* One behaviour per case; Emit decides the laws of the case ON THE        *)
(* REFERENCE (invariant Lawful: bad = "") and prints expected images.      *)
(*  kind "law"  (n in 1..NL) laws of FermiMap on n modes / qubits:         *)
(*     jw-car        {a_i, a_j^dag} = delta_ij, {a_i, a_j} = 0 and         *)
(*                   {a_i^dag, a_j^dag} = 0 for the Jordan-Wigner letters  *)
(*     jw-adjoint    JW(a_j)^dag = JW(a_j^dag)                             *)
(*     jw-matrix     (n <= NMAT) the exact matrix of JW(a_j) is the        *)
(*                   textbook Z x..x Z x |0><1| x I x..x I                 *)
(*     enc-*         the parity (prefix sum) and Bravyi-Kitaev (Fenwick)   *)
(*                   matrices are unit lower triangular, BInv inverts them,*)
(*                   q = B f is a bijection of the 2^n basis states,       *)
(*                   Fenwick closed form = block recursion                 *)
(*     enc-identity  EncLetter(identity) = JW;  enc-parity-doc:            *)
(*                   EncLetter(prefix sums) = the documented parity formula*)
(*     enc-car       CAR for the parity and Bravyi-Kitaev letters          *)
(*     enc-matrix    (n <= NMAT) matrix of the letter = P_B JW-matrix P_B^T*)
(*                   with P_B the permutation matrix of |f> -> |B f>       *)
(*     conj-letter   ConjB(B, JW letter) = letter of the mapping (the      *)
(*                   fixed Clifford);  conj-matrix (n <= NMAT): ConjWord   *)
(*                   on EVERY Pauli word equals P_B word P_B^T             *)
(*  kind "gens" (map, n in 1..NQ): all letters of the mapping on n qubits  *)
(*  kind "word": EVERY fermi word of length <= LMAX over NM modes with its *)
(*     images under the three mappings on NM qubits                        *)
(*  kind "sent": EVERY two-term sentence 1/2 w1 + (-3+2i)/4 w2 with w1 a   *)
(*     fermi word of length <= 1 and w2 of length 2 over NS modes, with    *)
(*     its images under the three mappings on NS qubits RELABELLED by      *)
(*     EVERY injective wire map of the NS wires into the labels 1..NK      *)
(*     (NK > NS: permutations of the wires, maps that overlap the wires    *)
(*     and leave them, the identity map); laws decided on the reference:   *)
(*     relabel-sum      relabelling the image of the sentence = the sum of *)
(*                      the relabelled images of its words                 *)
(*     relabel-product  relabelling is multiplicative on the images        *)
(***************************************************************************)
EXTENDS FermiMap, Json
CONSTANTS NL, NMAT, NQ, NM, LMAX, NS, NK
VARIABLES c, done, bad

Letters(n) == (1..n) \X {0, 1}
FWords(n, L) == UNION {[1..l -> Letters(n)] : l \in 0..L}
LawCases == {[kind |-> "law", n |-> n] : n \in 1..NL}
GenCases == {[kind |-> "gens", map |-> mp, n |-> n] : mp \in MapNames, n \in 1..NQ}
WordCases == {[kind |-> "word", w |-> w] : w \in FWords(NM, LMAX)}
SentCases == {[kind |-> "sent", w1 |-> w1, w2 |-> w2] : w1 \in FWords(NS, 1), w2 \in [1..2 -> Letters(NS)]}
Init == c \in LawCases \cup GenCases \cup WordCases \cup SentCases /\ done = FALSE /\ bad = ""

First(ls) == LET f == SelectSeq(ls, LAMBDA t : ~t[2]) IN IF Len(f) = 0 THEN "" ELSE f[1][1]
CeilPow2(n) == CHOOSE d \in {1, 2, 4, 8, 16, 32} : d >= n /\ (d = 1 \/ d \div 2 < n)
Delta(i, j, n) == IF i = j THEN SIdent(n) ELSE SZero
CARof(tab, n) == \A i \in 1..n : \A j \in 1..n :
   /\ SEq(SAntiComm(tab[i][1], tab[j][2]), Delta(i, j, n))
   /\ SEq(SAntiComm(tab[i][1], tab[j][1]), SZero)
   /\ SEq(SAntiComm(tab[i][2], tab[j][2]), SZero)
EncLaws(map, n, jw) == Bind2(BOf(map, n), LetterTable(map, n), LAMBDA B, tab : Bind2(BInv(B, n), PermMat(B, n), LAMBDA Bi, PB :
   First(<< <<map \o "-enc-unit-lower", BIsUnitLower(B, n)>>,
            <<map \o "-enc-inverse", BMul(B, Bi, n) = BIdent(n) /\ BMul(Bi, B, n) = BIdent(n)>>,
            <<map \o "-enc-bijection", Cardinality({BApply(B, f, n) : f \in [1..n -> {0, 1}]}) = 2^n>>,
            <<map \o "-enc-letter", \A j \in 1..n : \A t \in {0, 1} : SEq(EncLetterI(B, Bi, j, t, n), tab[j][t+1])>>,
            <<map \o "-enc-car", CARof(tab, n)>>,
            <<map \o "-enc-adjoint", \A j \in 1..n : SEq(SAdj(tab[j][1]), tab[j][2])>>,
            <<map \o "-conj-letter", \A j \in 1..n : \A t \in {0, 1} : SEq(ConjB(B, jw[j][t+1], n), tab[j][t+1])>>,
            <<map \o "-enc-matrix", n > NMAT \/ \A j \in 1..n : \A t \in {0, 1} :
                  EqExact(SToMat(tab[j][t+1], n), MatMul(PB, MatMul(OccLadderMat(j, t, n), Dagger(PB))))>>,
            <<map \o "-conj-matrix", n > NMAT \/ \A w \in PWords(n) :
                  EqExact(PToMat(ConjWord(B, Bi, w, n)), MatMul(PB, MatMul(PWToMat(w), Dagger(PB))))>> >>)))
Laws(n) == Bind(LetterTable("jw", n), LAMBDA jw :
   First(<< <<"jw-car", CARof(jw, n)>>,
            <<"jw-adjoint", \A j \in 1..n : SEq(SAdj(jw[j][1]), jw[j][2])>>,
            <<"jw-matrix", n > NMAT \/ \A j \in 1..n : \A t \in {0, 1} : EqExact(SToMat(jw[j][t+1], n), OccLadderMat(j, t, n))>>,
            <<"fenwick-is-block", BFenwick(n) = BTopLeft(BKBlock(CeilPow2(n)), n)>>,
            <<"word-adjoint", \A j \in 1..n : SEq(SAdj(WordImageT(jw, <<<<j, 1>>, <<1, 0>>>>, n)), WordImageT(jw, FAdjWord(<<<<j, 1>>, <<1, 0>>>>), n))>>,
            <<EncLaws("jw", n, jw), EncLaws("jw", n, jw) = "">>,
            <<EncLaws("par", n, jw), EncLaws("par", n, jw) = "">>,
            <<EncLaws("bk", n, jw), EncLaws("bk", n, jw) = "">> >>))

GensResult(mp, n) == Bind(LetterTable(mp, n), LAMBDA tab :
   [bad |-> "", out |-> [kind |-> "gens", map |-> mp, n |-> n,
                         letters |-> [j \in 1..n |-> [tt \in 1..2 |-> STermsL(tab[j][tt])]]]])
WordResult(w) ==
   [bad |-> "", out |-> [kind |-> "word", n |-> NM, w |-> w,
                         jw |-> STermsL(WordImage("jw", w, NM)), par |-> STermsL(WordImage("par", w, NM)),
                         bk |-> STermsL(WordImage("bk", w, NM))]]
SentC1 == <<1, 0, 1>>
SentC2 == <<-3, 2, 2>>
\* per mapping: [bad |-> first failing law, img |-> the relabelled images, one per wire map]; every value is computed once
SentOf(mp, ts, wms) == Bind(LetterTable(mp, NS), LAMBDA tab :
   Bind2(WordImageT(tab, ts[1].w, NS), WordImageT(tab, ts[2].w, NS), LAMBDA A, B : Bind2(TermsImageT(tab, ts, NS), SMulL(A, B), LAMBDA S, AB :
   Bind(TLCEval([q \in DOMAIN wms |-> TLCEval([s |-> SRelabel(S, wms[q], NK), a |-> SRelabel(A, wms[q], NK), b |-> SRelabel(B, wms[q], NK)])]), LAMBDA R :
      [bad |-> First(<< <<mp \o "-relabel-sum", \A q \in DOMAIN wms :
                             SEq(R[q].s, SAdd(SScale(GdNorm(ts[1].c), R[q].a), SScale(GdNorm(ts[2].c), R[q].b)))>>,
                        <<mp \o "-relabel-product", \A q \in DOMAIN wms : SEq(SRelabel(AB, wms[q], NK), SMulL(R[q].a, R[q].b))>> >>),
       img |-> [q \in DOMAIN wms |-> STermsL(R[q].s)]]))))
SentResult(w1, w2) == Bind2(<<[w |-> w1, c |-> SentC1], [w |-> w2, c |-> SentC2]>>, PSetToSeqL(WireMaps(NS, NK)), LAMBDA ts, wms :
   Bind(<<SentOf("jw", ts, wms), SentOf("par", ts, wms), SentOf("bk", ts, wms)>>, LAMBDA r :
   [bad |-> First(<< <<r[1].bad, r[1].bad = "">>, <<r[2].bad, r[2].bad = "">>, <<r[3].bad, r[3].bad = "">> >>),
    out |-> [kind |-> "sent", n |-> NS, k |-> NK, ts |-> ts, wms |-> wms, jw |-> r[1].img, par |-> r[2].img, bk |-> r[3].img]]))
Result == CASE c.kind = "law" -> [bad |-> Laws(c.n), out |-> [kind |-> "law", n |-> c.n]]
            [] c.kind = "gens" -> GensResult(c.map, c.n)
            [] c.kind = "word" -> WordResult(c.w)
            [] c.kind = "sent" -> SentResult(c.w1, c.w2)
Emit == /\ ~done /\ done' = TRUE /\ c' = c
        /\ \E res \in {Result} : bad' = res.bad /\ PrintT(ToJson(res.out))
Next == Emit
Lawful == bad = ""
=============================================================================
