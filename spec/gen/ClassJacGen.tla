------------------------------ MODULE ClassJacGen ------------------------------
(***************************************************************************)
(* C39, classical_jacobian: generator of affine integer pre-processing     *)
(* programs.  A program has n inputs and a list of gate arguments, each    *)
(* either a literal (const) or a_1 w_1 + ... + a_n w_n + b with integer    *)
(* coefficients from Coefs, not all zero.  TLC enumerates every program    *)
(* within the bounds (Lens[n] = maximal number of gate arguments for n     *)
(* inputs), computes the Jacobian by exact differences at w0 = (1, .., n)  *)
(* (JacProd!ClassicalJac) and prints program + Jacobian.  Law: the         *)
(* Jacobian of an affine map is its coefficient matrix, at every point.    *)
(***************************************************************************)
EXTENDS JacProd, Json
CONSTANTS Coefs, Consts, Lens
VARIABLES prog, nin, ph
vars == <<prog, nin, ph>>

Zero(k) == [j \in 1..k |-> 0]
GateArgs(k) == {[a |-> a, b |-> b, const |-> FALSE] : a \in [1..k -> Coefs] \ {Zero(k)}, b \in Consts}
               \cup {[a |-> Zero(k), b |-> 2, const |-> TRUE]}
W0(k) == [j \in 1..k |-> j]
W1(k) == [j \in 1..k |-> 5 - 2 * j]

Init == /\ nin \in DOMAIN Lens /\ ph = 0
        /\ \E len \in 1..Lens[nin] : prog \in [1..len -> GateArgs(nin)]
        /\ \E g \in 1..Len(prog) : ~prog[g].const
Emit == /\ ph = 0 /\ ph' = 1 /\ UNCHANGED <<prog, nin>>
        /\ PrintT(ToJson([n |-> nin, prog |-> prog, w0 |-> W0(nin), jac |-> ClassicalJac(prog, W0(nin))]))
Next == Emit
\* affine: the differences are the coefficients, wherever they are taken
SpecLaws == LET rows == Rows(prog)  J == ClassicalJac(prog, W0(nin)) IN
            /\ Len(J) = Len(rows)
            /\ \A r \in 1..Len(rows) : J[r] = rows[r].a
            /\ J = ClassicalJac(prog, W1(nin))
=============================================================================
