---------------------------- MODULE WireAllocGen -----------------------------
(* Generator: explores WireAlloc exhaustively and emits every maximal history as JSON *)
EXTENDS WireAlloc, Json
Emit == IF Len(hist) = MaxEvents \/ bad # ""
        THEN PrintT(ToJson([cfg |-> [z |-> cfg.z, a |-> cfg.a, mi |-> cfg.mi, ar |-> cfg.ar, static |-> cfg.static], hist |-> hist, bad |-> bad]))
        ELSE TRUE
=============================================================================
