----------------------------- MODULE QProgGen -------------------------------
(***************************************************************************)
(* Generator for C41 / C43 (REPLAY).  For every program of the QProg       *)
(* grammar (all programs up to MaxSize nodes / MaxDepth nesting) and every *)
(* flavour, runs Flat(prog) through the Queuing state machine, one         *)
(* primitive action per TLC step; TLC checks the Queuing invariants and    *)
(* the exception conjunct in every reachable state and emits, per          *)
(* behaviour, the program with the expected observable state after every   *)
(* visible action, the expected terms of all objects and the final tape.   *)
(* qp.apply of a wrapper whose direct operand sits in the active queue is  *)
(* under-determined by the documentation (the copy may or may not own the  *)
(* operand): both outcomes are behaviours of the model, both are emitted.  *)
(***************************************************************************)
EXTENDS QProg, Queuing, Json, IOUtils, SequencesExt
CONSTANTS MaxSize, MaxDepth, NFlav, UseExtra,   \* UseExtra: also run the programs of the JSON file EXTRA_FILE
          RangeB                                \* the two definitions of len(range) are compared on -RangeB..RangeB
VARIABLES prog, flav, acts, pc, vs, recent, trys, lastq, hist, status, bad,
          raising, skipc, skipt      \* an exception raised by the state machine itself (a tape rejected at exit) is propagating
ctl == <<raising, skipc, skipt>>
ivars == <<prog, flav, acts, pc, vs, recent, trys, lastq, hist, status, bad, ctl>>
vars == <<qvars, ivars>>

\* the exhaustive grammar plus the explicitly given programs (evaluated once, in Init)
Progs == Programs(MaxSize, MaxDepth) \cup (IF UseExtra THEN SeqSet(JsonDeserialize(IOEnv.EXTRA_FILE)) ELSE {})

UKinds == <<"adj", "ctrl", "pow", "sprod">>
PKinds == <<"prod", "sum">>
MKinds == <<"expval", "var", "sample", "counts">>
Pick(kinds, p) == kinds[((SumSeq(p) + Len(p) + flav) % Len(kinds)) + 1]
Term(k, p, iv, a) == [k |-> k, p |-> p, iv |-> iv, a |-> a]

\* MaxRef operators exist before the quantum function runs (constructed outside every recording context)
PreObjs == [j \in 1..MaxRef |-> Term("g", <<0, j>>, <<>>, <<>>)]
Init == /\ stack = <<>> /\ saved = <<>> /\ queues = <<>> /\ created = <<>> /\ consumed = <<>>
        /\ objs = PreObjs /\ unrec = 1..MaxRef
        /\ prog \in Progs /\ flav \in 0..(NFlav - 1)
        /\ acts = Flat(prog) /\ pc = 1 /\ vs = <<>> /\ recent = [j \in 1..MaxRef |-> j] /\ trys = <<>> /\ lastq = 0
        /\ hist = <<>> /\ status = "run" /\ bad = "" /\ raising = FALSE /\ skipc = 0 /\ skipt = 0

InitLaw == Assert(RangeLaw(RangeB), "RangeLaw: the two definitions of Python's range disagree") /\ Init

Cur == acts[pc]
NewId == Len(objs) + 1
Push(o) == SubSeq(<<o>> \o recent, 1, IF Len(recent) + 1 > MaxRef THEN MaxRef ELSE Len(recent) + 1)
\* a visible action: the observable state after it
Vis(new, r) == hist' = Append(hist, [a |-> Cur.a, n |-> new, r |-> r, st |-> stack', qs |-> queues'])
Quiet == hist' = hist
Adv == pc' = pc + 1

Invalid == /\ status' = "invalid" /\ UNCHANGED <<qvars, ctl, prog, flav, acts, pc, vs, recent, trys, lastq, hist, bad>>

\* Ownership beyond the direct operands is not part of the property:
\*  - flattening constructors (ctrl of a Controlled, a + b on a Sum, a @ b on a Prod) build ONE wrapper over the operands
\*    of the nested wrapper, which then owns them;
\*  - the result of an eager wrapper is opaque: it may be (or be built from) any operator below its operand.
\* A constructor takes its direct operands out of the active queue and MAY also take any of the operators it can reach
\* in that way; every such outcome is a behaviour of the model.
RECURSIVE Deep(_), Reach(_, _)
Deep(x) == LET ops == SeqSet(objs[x].a) IN ops \cup UNION {Deep(y) : y \in ops}
Reach(k, X) == X \cup UNION {IF objs[x].k = "eager" THEN Deep(x)
                             ELSE IF k \in {"ctrl", "sum", "prod"} /\ objs[x].k = k THEN Reach(k, SeqSet(objs[x].a))
                             ELSE {} : x \in X}
InTop(X) == IF stack = <<>> THEN {} ELSE X \cap SeqSet(queues[Last(stack)])
Takes(k, direct) == {direct \cup extra : extra \in SUBSET (InTop(Reach(k, direct)) \ direct)}
TakesE(x) == {{x} \cup extra : extra \in SUBSET (InTop(Deep(x)) \ {x})}

DoG == /\ Cur.a = "g" /\ Create(Term("g", Cur.p, Cur.iv, <<>>), {})
       /\ vs' = Append(vs, NewId) /\ Vis(NewId, 0) /\ Adv
       /\ UNCHANGED <<ctl, prog, flav, acts, recent, trys, lastq, status, bad>>
DoRef == /\ Cur.a = "ref"
         /\ IF Cur.r > Len(recent) THEN Invalid
            ELSE /\ vs' = Append(vs, recent[Cur.r]) /\ Quiet /\ Adv
                 /\ UNCHANGED <<qvars, ctl, prog, flav, acts, recent, trys, lastq, status, bad>>
DoU == /\ Cur.a = "u"
       /\ LET x == Last(vs)  k == Pick(UKinds, Cur.p) IN \E ops \in Takes(k, {x}) : Create(Term(k, Cur.p, Cur.iv, <<x>>), ops)
       /\ vs' = Append(Pop(vs), NewId) /\ Vis(NewId, 0) /\ Adv
       /\ UNCHANGED <<ctl, prog, flav, acts, recent, trys, lastq, status, bad>>
\* eager wrappers: the operand leaves the active queue, ONE new operator (whatever it simplifies to) is recorded
DoE == /\ Cur.a = "e"
       /\ LET x == Last(vs) IN \E ops \in TakesE(x) : Create(Term("eager", Cur.p, Cur.iv, <<x>>), ops)
       /\ vs' = Append(Pop(vs), NewId) /\ Vis(NewId, 0) /\ Adv
       /\ UNCHANGED <<ctl, prog, flav, acts, recent, trys, lastq, status, bad>>
DoP == /\ Cur.a = "p"
       /\ LET y == Last(vs)  x == vs[Len(vs) - 1]  k == Pick(PKinds, Cur.p) IN
            \E ops \in Takes(k, {x, y}) : Create(Term(k, Cur.p, Cur.iv, <<x, y>>), ops)
       /\ vs' = Append(Pop(Pop(vs)), NewId) /\ Vis(NewId, 0) /\ Adv
       /\ UNCHANGED <<ctl, prog, flav, acts, recent, trys, lastq, status, bad>>
DoDo == /\ Cur.a = "do" /\ recent' = Push(Last(vs)) /\ vs' = Pop(vs) /\ Quiet /\ Adv
        /\ UNCHANGED <<qvars, ctl, prog, flav, acts, trys, lastq, status, bad>>
DoMeas == /\ Cur.a = "meas"
          /\ IF Cur.r = 1 THEN /\ \E ops \in Takes("meas", {Last(vs)}) : Create(Term(Pick(MKinds, Cur.p), Cur.p, Cur.iv, <<Last(vs)>>), ops)
                               /\ vs' = Pop(vs)
             ELSE Create(Term("probs", Cur.p, Cur.iv, <<>>), {}) /\ vs' = vs
          /\ Vis(NewId, 0) /\ Adv
          /\ UNCHANGED <<ctl, prog, flav, acts, recent, trys, lastq, status, bad>>
\* qp.apply(src): a copy of src is queued.  Direct operands of src that sit in the active queue: kept or taken
DoApply == /\ Cur.a = "apply"
           /\ IF Cur.r > Len(recent) THEN Invalid
              ELSE LET src == recent[Cur.r]
                       shared == InTop(Reach("-", SeqSet(objs[src].a)) \cup (IF objs[src].k = "eager" THEN Deep(src) ELSE {})) IN
                   /\ stack # <<>>
                   /\ \E ops \in SUBSET shared : Create(objs[src], ops)
                   /\ recent' = Push(NewId) /\ Vis(NewId, 0) /\ Adv
                   /\ UNCHANGED <<ctl, prog, flav, acts, vs, trys, lastq, status, bad>>
DoApplyErr == /\ Cur.a = "applyerr"
              /\ IF Cur.r > Len(recent) THEN Invalid
                 ELSE /\ UNCHANGED qvars
                      /\ bad' = IF stack # <<>> /\ bad = "" THEN "applyerr-while-recording" ELSE bad
                      /\ Vis(0, 0) /\ Adv
                      /\ UNCHANGED <<ctl, prog, flav, acts, vs, recent, trys, lastq, status>>
DoEnter == /\ Cur.a \in {"enter", "ienter"} /\ Enter
           /\ (IF Cur.a = "enter" THEN Vis(0, 0) ELSE Quiet) /\ Adv
           /\ UNCHANGED <<ctl, prog, flav, acts, vs, recent, trys, lastq, status, bad>>
DoExit == /\ Cur.a \in {"exit", "iexit"} /\ Exit /\ lastq' = Last(stack)
          /\ (IF Cur.a = "exit" THEN Vis(0, 0) ELSE Quiet) /\ Adv
          /\ UNCHANGED <<ctl, prog, flav, acts, vs, recent, trys, status, bad>>
\* with QuantumTape(): leaving it pops the context and then builds the tape, which fails when an operator follows a
\* measurement in its queue; the exception propagates (raising) with the context stack already restored
IsOpT(t) == t.k \notin {"expval", "var", "sample", "counts", "probs"}
BadOrder(q) == \E i \in 1..Len(q), j \in 1..Len(q) : i < j /\ ~IsOpT(objs[q[i]]) /\ IsOpT(objs[q[j]])
DoTEnter == /\ Cur.a = "tenter" /\ EnterTape(Term("tape", Cur.p, Cur.iv, <<>>)) /\ Vis(NewId, 0) /\ Adv
            /\ UNCHANGED <<ctl, prog, flav, acts, vs, recent, trys, lastq, status, bad>>
DoTExit == /\ Cur.a = "texit" /\ Exit /\ lastq' = Last(stack) /\ Vis(0, 0) /\ Adv
           /\ raising' = (raising \/ BadOrder(queues[Last(stack)])) /\ UNCHANGED <<skipc, skipt>>
           /\ UNCHANGED <<prog, flav, acts, vs, recent, trys, status, bad>>
DoStopEnter == /\ Cur.a = "stopenter" /\ StopEnter /\ Vis(0, 0) /\ Adv
               /\ UNCHANGED <<ctl, prog, flav, acts, vs, recent, trys, lastq, status, bad>>
DoStopExit == /\ Cur.a = "stopexit" /\ StopExit /\ Vis(0, 0) /\ Adv
              /\ UNCHANGED <<ctl, prog, flav, acts, vs, recent, trys, lastq, status, bad>>
DoTry == /\ Cur.a = "try" /\ trys' = Append(trys, <<stack, saved>>) /\ Quiet /\ Adv
         /\ UNCHANGED <<qvars, ctl, prog, flav, acts, vs, recent, lastq, status, bad>>
\* after try/except - whether or not an exception passed - the context stack is what it was at `try`
DoTryEnd == /\ Cur.a = "tryend" /\ UNCHANGED qvars /\ trys' = Pop(trys)
            /\ bad' = IF bad = "" /\ Last(trys) # <<stack, saved>> THEN "stack-not-restored" ELSE bad
            /\ vs' = <<>>                   \* operands of an interrupted expression are dropped
            /\ Vis(0, IF raising THEN 1 ELSE Cur.r) /\ Adv
            /\ raising' = FALSE /\ UNCHANGED <<skipc, skipt>>
            /\ UNCHANGED <<prog, flav, acts, recent, lastq, status>>
DoSilent == /\ Cur.a = "raise" /\ Quiet /\ Adv
            /\ UNCHANGED <<qvars, ctl, prog, flav, acts, vs, recent, trys, lastq, status, bad>>
DoMark == /\ Cur.a \in {"mark", "ret"} /\ UNCHANGED qvars /\ Vis(0, Cur.r) /\ Adv
          /\ UNCHANGED <<ctl, prog, flav, acts, vs, recent, trys, lastq, status, bad>>
DoMMeas == /\ Cur.a = "mmeas" /\ Create(Term("mid", Cur.p, Cur.iv, <<>>), {}) /\ Vis(NewId, 0) /\ Adv
           /\ UNCHANGED <<ctl, prog, flav, acts, vs, recent, trys, lastq, status, bad>>
\* the operators recorded by the body (queue lastq) are wrapped one by one and queued in the active context
IsOp(o) == IsOpT(objs[o])
Rev(s) == [i \in 1..Len(s) |-> s[Len(s) + 1 - i]]
DoLift == /\ Cur.a = "lift"
          /\ LET inner == SelectSeq(queues[lastq], IsOp)
                 src == IF Cur.r = 3 THEN Rev(inner) ELSE inner
                 k == CASE Cur.r = 1 -> "cond+" [] Cur.r = 2 -> "cond-" [] Cur.r = 3 -> "adj" [] OTHER -> "ctrl" IN
             \E ops \in (IF Cur.r = 4 THEN SUBSET InTop(Reach("ctrl", SeqSet(src))) ELSE {{}}) :
                CreateMany([j \in 1..Len(src) |-> Term(k, Cur.p, Cur.iv, <<src[j]>>)], ops)
          /\ Quiet /\ Adv
          /\ UNCHANGED <<ctl, prog, flav, acts, vs, recent, trys, lastq, status, bad>>
DoFin == /\ Cur.a = "fin" /\ UNCHANGED qvars /\ Vis(0, 0) /\ status' = "done" /\ pc' = pc
         /\ UNCHANGED <<ctl, prog, flav, acts, vs, recent, trys, lastq, bad>>

\* while an exception propagates: contexts entered before it are left (their exits are executed), everything else up
\* to the matching `except` is skipped (enters / trys met on the way are skipped together with their exits / excepts)
EnterOps == {"enter", "ienter", "stopenter", "tenter"}
ExitOps == {"exit", "iexit", "stopexit", "texit"}
Unwinding == (Cur.a \in ExitOps /\ skipc = 0) \/ (Cur.a = "tryend" /\ skipt = 0)
DoSkip == /\ raising /\ ~Unwinding /\ Cur.a # "fin"
          /\ skipc' = IF Cur.a \in EnterOps THEN skipc + 1 ELSE IF Cur.a \in ExitOps THEN skipc - 1 ELSE skipc
          /\ skipt' = IF Cur.a = "try" THEN skipt + 1 ELSE IF Cur.a = "tryend" THEN skipt - 1 ELSE skipt
          /\ Quiet /\ Adv /\ UNCHANGED <<qvars, raising, prog, flav, acts, vs, recent, trys, lastq, status, bad>>

Next == /\ status = "run"
        /\ IF raising THEN DoSkip \/ (Unwinding /\ (DoExit \/ DoStopExit \/ DoTExit \/ DoTryEnd))
           ELSE \/ DoG \/ DoRef \/ DoU \/ DoE \/ DoP \/ DoDo \/ DoMeas \/ DoApply \/ DoApplyErr \/ DoEnter \/ DoExit
                \/ DoStopEnter \/ DoStopExit \/ DoTEnter \/ DoTExit \/ DoTry \/ DoTryEnd \/ DoSilent \/ DoMark \/ DoMMeas
                \/ DoLift \/ DoFin

(* ------------------------------------------------------------------ model-level conjuncts *)
Good == bad = ""
\* at the end everything is unwound: no active context, nothing put aside, the base queue is queue 1
Unwound == status = "done" => stack = <<>> /\ saved = <<>> /\ trys = <<>>
\* the final tape (process_queue): operators, then measurements; an operator after a measurement is an error
IsMeasObj(o) == ~IsOp(o)
Tape == LET q == queues[1]
            firstM == IF \E i \in 1..Len(q) : IsMeasObj(q[i]) THEN CHOOSE i \in 1..Len(q) : IsMeasObj(q[i]) /\ \A j \in 1..(i - 1) : IsOp(q[j]) ELSE Len(q) + 1
            late == \E i \in firstM..Len(q) : IsOp(q[i]) IN
        [err |-> late, ops |-> IF late THEN <<>> ELSE SubSeq(q, 1, firstM - 1), meas |-> IF late THEN <<>> ELSE SubSeq(q, firstM, Len(q))]

Emit == IF status = "done"
        THEN PrintT(ToJson([prog |-> prog, flav |-> flav, steps |-> hist, objs |-> objs, tape |-> Tape, nq |-> Len(queues)]))
        ELSE TRUE
NInvalid == status # "invalid"     \* (not an invariant: used only to count)
=============================================================================
