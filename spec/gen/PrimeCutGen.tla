---------------------------- MODULE PrimeCutGen -----------------------------
(***************************************************************************)
(* C16 generator: the cut-off numbers of a trial-division screen.          *)
(*                                                                         *)
(* A primality test that first screens with a table of small primes and    *)
(* then switches method (shortcut "no small factor => prime" below a       *)
(* bound, Miller-Rabin with fixed bases above it) can only go wrong on     *)
(* numbers whose LEAST prime factor p lies beyond the screen.  The least   *)
(* such composites are p*p, p*p', p*p'' (p', p'' the primes following p)   *)
(* - exactly where a bound "n <= p*p" written for "n < p*p", a table with  *)
(* a missing / superfluous entry, or a switch-over at the wrong place      *)
(* shows.  Random integers essentially never hit them.                     *)
(*                                                                         *)
(* For every prime p of PLO..PHI (one behaviour per block of BW candidate  *)
(* values), every q among the K smallest primes >= p and every offset      *)
(* d in -W..W the spec emits the number n = p*q + d together with its      *)
(* primality, decided by trial division (ZRings!IsPrimeB, the oracle of    *)
(* Trace_ZRings) with the bound q + 1  ((q+1)^2 > p*q + W).  The driver    *)
(* replays every row into pennylane's _primality_test.                     *)
(*                                                                         *)
(* Invariant CutSound (checked by TLC on every generated block): the       *)
(* verdict of the oracle agrees with the plain definition of primality     *)
(* written without the d*d > n cut: a number flagged prime has no divisor  *)
(* d in 2..q, d < n (a composite n < (q+1)^2 has one), a number flagged    *)
(* composite has such a divisor, and the products p*q are composite.       *)
(* Row: <<n, flag, p, q>>, flag = 1 iff n is prime.                        *)
(***************************************************************************)
EXTENDS ZRings, Json, FiniteSets, SequencesExt
CONSTANTS PLO, PHI,    \* least prime factors p in PLO..PHI
          BW,          \* candidates per block (one TLC behaviour per block)
          K,           \* q ranges over the K smallest primes >= p
          GAP,         \* q is searched in p..p+GAP (the driver requires K values of q for every p)
          W            \* neighbourhood n-W..n+W of every product
ASSUME /\ PLO >= 2 /\ PHI >= PLO /\ BW >= 1 /\ K >= 1 /\ GAP >= 0
       /\ W \in 0..2                     \* n = p*q - W >= 2, and (q+1)^2 > p*q + W
       /\ PHI + GAP <= 46338             \* (q+1)^2 and p*q + W stay below 2^31
VARIABLES blk, rows, done
vars == <<blk, rows, done>>

NB == (PHI - PLO) \div BW + 1
Lo(b) == PLO + (b - 1) * BW
Hi(b) == IF Lo(b) + BW - 1 < PHI THEN Lo(b) + BW - 1 ELSE PHI

\* primality of the candidates (all < 46656 = 216^2)
SmallPrimeTable(b) == [n \in Lo(b)..(Hi(b) + GAP) |-> IsPrimeB(n, 216)]
\* q is one of the K smallest primes >= p: fewer than K primes in p..q-1
QsOf(tab, p) == {q \in p..(p + GAP) : tab[q] /\ Cardinality({r \in p..(q - 1) : tab[r]}) < K}
RowOf(p, q, d) == <<p * q + d, IF IsPrimeB(p * q + d, q + 1) THEN 1 ELSE 0, p, q>>
RowsWith(lo, hi, tab) ==
  SetToSeq(UNION {UNION {{RowOf(p, q, d) : d \in (-W)..W} : q \in QsOf(tab, p)} : p \in {c \in lo..hi : tab[c]}})
RowsOf(b) == F3(RowsWith, Lo(b), Hi(b), TLCEval(SmallPrimeTable(b)))      \* (the table is evaluated once)

Init == blk \in 1..NB /\ rows = <<>> /\ done = FALSE
Gen == /\ ~done
       /\ \E rs \in {RowsOf(blk)} :
            /\ rows' = rs
            /\ PrintT(ToJson([kind |-> "pc", blk |-> blk, lo |-> Lo(blk), hi |-> Hi(blk), rows |-> rs]))
       /\ done' = TRUE /\ UNCHANGED blk
Next == Gen

CutSound ==
  done => \A m \in 1..Len(rows) :
            LET n == rows[m][1]  f == rows[m][2]  p == rows[m][3]  q == rows[m][4] IN
            /\ n >= 2 /\ f \in {0, 1} /\ p >= 2 /\ q >= p
            /\ (n = p * q => f = 0)
            /\ (f = 1 => \A d \in 2..q : d < n => n % d # 0)
            /\ (f = 0 => \E d \in 2..q : d < n /\ n % d = 0)
=============================================================================
