----------------------------- MODULE EstimatorGen -----------------------------
(***************************************************************************)
(* Generators for C47 over the Estimator state machine.                    *)
(*                                                                         *)
(* Mode "wm" (InitWM / NextWM): every Grab/Free history of MaxEvents calls *)
(*   on a WireResourceManager, for every configuration in WMCfgs (zeroed,  *)
(*   any-state, algorithmic wires, tight budget); a raising call leaves    *)
(*   the state unchanged and the history goes on.  Each maximal history is *)
(*   emitted with the expected bookkeeping after every call.               *)
(* Mode "wf" (InitWF / NextWF): every workflow of 1..MaxLen terms from     *)
(*   Terms, for every configuration (budget + gate set); the workflow is   *)
(*   flattened into its event history (Estimator!Events) and executed one  *)
(*   event per TLC step; the finished run is emitted with the expected     *)
(*   gate counts, bookkeeping, algorithmic wires and error.                *)
(* Invariants (both modes, every reachable state): NonNeg, TotalGeAlgo,    *)
(*   Accounted; mode "wf" additionally Additive (operational counts = the  *)
(*   denotational sum of the parts) and TermLaws (repetition multiplies,   *)
(*   adjoint / control do not change counts).                              *)
(***************************************************************************)
EXTENDS Estimator, Json
CONSTANTS WMCfgs,      \* "wm": set of [z, a, algo, tight, gs]
          WFCfgs,      \* "wf": set of [z, a, algo, tight, gs]   (gs: set of composite names that are in the gate set)
          Amounts,     \* "wm": the n of a call
          MaxEvents,   \* "wm": calls per history
          Terms,       \* "wf": set of terms
          MaxLen,      \* "wf": terms per workflow
          Names        \* "wf": all leaf and composite names (= DOMAIN Width)
VARIABLES ph, cfg, wf, hist, pc, wm, counts, err, log
vars == <<ph, cfg, wf, hist, pc, wm, counts, err, log>>

ZeroCounts == [g \in Names |-> 0]
View(s) == [z |-> s.z, a |-> s.a, algo |-> s.algo, total |-> TotalWires(s)]
CfgOut == [z |-> cfg.z, a |-> cfg.a, algo |-> cfg.algo, tight |-> cfg.tight, gs |-> cfg.gs]

\* ------------------------------------------------------------------ mode "wm"
InitWM == /\ cfg \in WMCfgs /\ ph = "wm" /\ wf = <<>> /\ hist = <<>> /\ pc = 0 /\ err = "" /\ log = <<>>
          /\ wm = WM0(cfg.z, cfg.a, cfg.algo, cfg.tight) /\ counts = ZeroCounts
Call(op, n) ==
  LET ok == IF op = "grab" THEN GrabOK(wm, n) ELSE FreeOK(wm, n)
      s2 == IF ~ok THEN wm ELSE IF op = "grab" THEN Grab(wm, n) ELSE Free(wm, n)
  IN /\ wm' = s2 /\ pc' = pc + 1
     /\ log' = Append(log, [op |-> op, n |-> n, exc |-> ~ok, z |-> s2.z, a |-> s2.a, total |-> TotalWires(s2)])
     /\ UNCHANGED <<ph, cfg, wf, hist, counts, err>>
NextWM == /\ ph = "wm" /\ pc < MaxEvents
          /\ \E op \in {"grab", "free"}, n \in Amounts : Call(op, n)
EmitWM == IF ph = "wm" /\ pc = MaxEvents THEN PrintT(ToJson([cfg |-> CfgOut, calls |-> log])) ELSE TRUE

\* ------------------------------------------------------------------ mode "wf"
InitWF == /\ cfg \in WFCfgs /\ ph = "pick" /\ \E t \in Terms : wf = <<t>>
          /\ hist = <<>> /\ pc = 0 /\ err = "" /\ log = <<>>
          /\ wm = WM0(cfg.z, cfg.a, 0, cfg.tight) /\ counts = ZeroCounts
Extend == /\ ph = "pick" /\ Len(wf) < MaxLen /\ \E t \in Terms : wf' = Append(wf, t)
          /\ UNCHANGED <<ph, cfg, hist, pc, wm, counts, err, log>>
Start ==  /\ ph = "pick" /\ ph' = "run" /\ hist' = Events(wf, cfg.gs) /\ pc' = 1
          /\ wm' = [wm EXCEPT !.algo = AlgoWires(wf)]
          /\ UNCHANGED <<cfg, wf, counts, err, log>>
Step ==   /\ ph = "run" /\ err = "" /\ pc <= Len(hist)
          /\ LET ev == hist[pc] IN
             \/ /\ ev.e = "count" /\ counts' = [counts EXCEPT ![ev.g] = @ + ev.n] /\ UNCHANGED <<wm, err>>
             \/ /\ ev.e = "grab" /\ UNCHANGED counts
                /\ IF GrabOK(wm, ev.n) THEN wm' = Grab(wm, ev.n) /\ err' = "" ELSE wm' = wm /\ err' = "grab"
             \/ /\ ev.e = "free" /\ UNCHANGED counts
                /\ IF FreeOK(wm, ev.n) THEN wm' = Free(wm, ev.n) /\ err' = "" ELSE wm' = wm /\ err' = "free"
          /\ pc' = pc + 1 /\ UNCHANGED <<ph, cfg, wf, hist, log>>
Finished == ph = "run" /\ (err # "" \/ pc > Len(hist))
Finish == /\ Finished /\ ph' = "done" /\ UNCHANGED <<cfg, wf, hist, pc, wm, counts, err, log>>
          /\ PrintT(ToJson([cfg |-> CfgOut, wf |-> wf, err |-> err, counts |-> counts, fin |-> View(wm),
                            events |-> SubSeq(hist, 1, pc - 1)]))
NextWF == Extend \/ Start \/ Step \/ Finish

\* ------------------------------------------------------------------ invariants
NonNeg      == NonNegS(wm)
TotalGeAlgo == TotalGeAlgoS(wm)
Accounted   == AccountedS(wm)
\* counts of a sequence = sum of the counts of its parts (checked when a run finished without an allocation error)
Additive == (Finished /\ err = "") => counts = DenSeq(wf, cfg.gs)
\* repetition multiplies; adjoint and control keep the counts; a product is the sum of its factors
TermLaws == ph # "pick" \/ Len(wf) # 1 \/
  LET x == wf[1]  GS == cfg.gs  v == TLCEval(DenVec(x, GS))  v3 == TLCEval(VecScale(3, v)) IN
    /\ DenVec(Pow(x, 3), GS) = v3
    /\ DenVec(Prod(<< <<x, 2>>, <<x, 1>> >>), GS) = v3
    /\ DenSeq(<<x, x>>, GS) = VecScale(2, v)
    /\ (GS = {} => DenVec(Adj(x), GS) = v /\ DenVec(Ctrl(x, 1), GS) = v)

\* both modes in one run
InitAll == InitWM \/ InitWF
NextAll == NextWM \/ NextWF
=============================================================================
