----------------------------- MODULE QelibSelf ------------------------------
(* Self-check of the OpenQASM gate table (Qelib1.tla, C67): for every gate name and every angle of the lattice    *)
(* (a grid for the multi-parameter gates) TLC checks that the table entry QBase is exactly unitary and equals, up  *)
(* to a global phase, the product of the name's DEFINITION in qelib1.inc / stdgates.inc over the built-ins U, CX.  *)
EXTENDS Qelib1, FiniteSets
CONSTANT Grid          \* angle values for the 2/3/4-parameter gates (even values: cu3 halves its parameters)
VARIABLES c, done
QsS(q, p) == [q |-> q, p |-> p, w |-> [i \in 1..QArity(q) |-> i], mods |-> <<>>]
QsNames == (OneQ0 \cup OneQ1 \cup TwoQ0 \cup TwoQ1 \cup ThreeQ0 \cup {"u2", "u3", "cu3", "cu"})
QsPar(q) == IF QNParams(q) = 0 THEN {<<>>}
          ELSE IF QNParams(q) = 1 THEN {<<a>> : a \in {x \in 0..N-1 : 1 \in Halved(q) => x % 2 = 0}}
          ELSE [1..QNParams(q) -> Grid]
TableCases == UNION {{QsS(q, p) : p \in QsPar(q)} : q \in QsNames}
\* invariants are evaluated on the successor states (in parallel), not on the sequentially built initial states
Init == c \in TableCases /\ done = FALSE
Next == ~done /\ done' = TRUE /\ UNCHANGED c
TableUnitary == done => IsUnitary(QBase(c))
DefAgreesWithTable == (done /\ HasDef(c.q)) => DefAgrees(c)
\* sx is defined as the principal square root of x: sx.sx = x exactly
SxIsRootOfX == (done /\ c.q = "sx") => EqExact(MatMul(QBase(c), QBase(c)), MX)
\* negative control (must be VIOLATED): rz is not rx
NegControl == (done /\ c.q = "rz") => EqUpToScalar(QBase(c), QBase([c EXCEPT !.q = "rx"]))
NCases == Cardinality(TableCases)
=============================================================================
