--------------------------- MODULE SpinLatticeGen ---------------------------
(***************************************************************************)
(* C69 generator + self-check of the lattice reference (REPLAY pattern).   *)
(*  kind "geo" (one per shape): the geometry table of SpinLattice agrees   *)
(*     with the textbook description of the shape: nearest-neighbour bonds *)
(*     = the combinatorial bond list, coordination numbers z_1, z_2, z_3,  *)
(*     ratios d_k^2 / d_1^2, offsets well inside the search window.        *)
(*  kind "lat": EVERY configuration (shape, n_cells, boundary, K) with     *)
(*     chain length <= N1, 2-D cells <= N2 x N2, 3-D cells <= N3^3,        *)
(*     every open / periodic combination, K in 1..KG.  Laws: edges are     *)
(*     pairs u < v of sites; the open lattice is a sub-lattice of the      *)
(*     configuration (class by class); on a fully periodic lattice with    *)
(*     >= 3 cells per axis every site has exactly z_1 nearest neighbours.  *)
(*     Emits the expected sites / edge classes for the replay.             *)
(***************************************************************************)
EXTENDS SpinLattice, Json
CONSTANTS N1, N2, N3, KG
VARIABLES c, done, bad

Sizes(sh) == IF DimOf(sh) = 1 THEN {<<a>> : a \in 1..N1}
             ELSE IF DimOf(sh) = 2 THEN {<<a, b>> : a \in 1..N2, b \in 1..N2}
             ELSE {<<a, b, d>> : a \in 1..N3, b \in 1..N3, d \in 1..N3}
GeoCases == {[kind |-> "geo", sh |-> sh] : sh \in ShapeNames}
LatCases == UNION {{[kind |-> "lat", sh |-> sh, nc |-> nc, bc |-> bc, K |-> K] :
                      nc \in Sizes(sh), bc \in [1..DimOf(sh) -> BOOLEAN], K \in 1..KG} : sh \in ShapeNames}
Init == c \in GeoCases \cup LatCases /\ done = FALSE /\ bad = ""

First(ls) == LET f == SelectSeq(ls, LAMBDA t : ~t[2]) IN IF Len(f) = 0 THEN "" ELSE f[1][1]
Degree(E, u) == Cardinality({p \in E : p[1] = u \/ p[2] = u})
LatLaws(sh, nc, bc, K, lat) == Bind(LatticeOf(sh, nc, [d \in 1..Len(nc) |-> FALSE], K), LAMBDA open :
   First(<< <<"range", \A k \in 1..K : \A p \in lat.E[k] : p[1] >= 0 /\ p[1] < p[2] /\ p[2] < lat.n>>,
            <<"open-sublattice", \A k \in 1..K : open.E[k] \subseteq lat.E[k]>>,
            <<"open-no-loops", ~open.loops>>,
            <<"coordination", (\E d \in 1..Len(nc) : ~bc[d] \/ nc[d] < 3) \/
                 \A cc \in CellSet(nc) : \A s \in 1..NSub(sh) :
                     Degree(lat.E[1], SiteId(cc, s, nc, NSub(sh))) = Cardinality(NbrTab[sh].offs[s][1])>> >>))
LatResult(sh, nc, bc, K) == Bind(LatticeOf(sh, nc, bc, K), LAMBDA lat :
   [bad |-> LatLaws(sh, nc, bc, K, lat),
    out |-> [kind |-> "lat", sh |-> sh, nc |-> nc, bc |-> bc, K |-> K, n |-> lat.n, loops |-> lat.loops,
             solid |-> SolidPrefix(lat, K), E |-> [k \in 1..K |-> SeqOfSet(lat.E[k])]]])
Result == CASE c.kind = "geo" -> [bad |-> IF GeometryLaws(c.sh) THEN "" ELSE "geometry-" \o c.sh,
                                  out |-> [kind |-> "geo", sh |-> c.sh, d |-> NbrTab[c.sh].d,
                                           z |-> [s \in 1..NSub(c.sh) |-> [k \in 1..KMAX |-> Cardinality(NbrTab[c.sh].offs[s][k])]]]]
            [] c.kind = "lat" -> LatResult(c.sh, c.nc, c.bc, c.K)
Emit == /\ ~done /\ done' = TRUE /\ c' = c
        /\ \E res \in {Result} : bad' = res.bad /\ PrintT(ToJson(res.out))
Next == Emit
Lawful == bad = ""
=============================================================================
