---------------------------- MODULE TapeParamsGen ----------------------------
(* Generator: explores TapeParams (exhaustively, or by -simulate) and emits every maximal history as JSON; each   *)
(* step carries the spec's expected outcome and the expected projection of the tape it created / modified.       *)
EXTENDS TapeParams, Json
\* vacuity: the bases contain an operator in which an operand with several parameters is followed by further parameters
\* (nested linear combination, sum / product of parametrised operators), in a measurement and in the operations
DeepBases == /\ \E b \in Bases : \E i \in 1..Len(b.meas) : b.meas[i].k = "Ham" /\ DeepLayout(b.meas[i])
             /\ \E b \in Bases : \E i \in 1..Len(b.ops) : DeepLayout(b.ops[i])
Emit == IF Len(hist) = MaxSteps + 1 THEN PrintT(ToJson([hist |-> hist])) ELSE TRUE
=============================================================================
