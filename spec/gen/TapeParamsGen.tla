---------------------------- MODULE TapeParamsGen ----------------------------
(* Generator: explores TapeParams (exhaustively, or by -simulate) and emits every maximal history as JSON; each   *)
(* step carries the spec's expected outcome and the expected projection of the tape it created / modified.       *)
EXTENDS TapeParams, Json
Emit == IF Len(hist) = MaxSteps + 1 THEN PrintT(ToJson([hist |-> hist])) ELSE TRUE
=============================================================================
