---------------------------- MODULE ExecutorGen ------------------------------
(* Generator: explores Executor exhaustively and emits every distinct schedule (completion order per round)   *)
(* together with the list the model returns.  Used by C65 (Device = FALSE) and C31 (Device = TRUE).           *)
EXTENDS Executor, Json
Emit == IF phase = "end"
        THEN PrintT(ToJson([n |-> n, w |-> w, rng0 |-> rng0, corders |-> corders, outs |-> outs]))
        ELSE TRUE
=============================================================================
