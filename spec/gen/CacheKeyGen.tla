----------------------------- MODULE CacheKeyGen -----------------------------
(***************************************************************************)
(* Generator + decision procedure for KEY SOUNDNESS (C05, I2 on the pure   *)
(* model):   Key(t1) = Key(t2)  =>  Res(t1) = Res(t2)   for every          *)
(* measurement type, including the raw state.                              *)
(*                                                                         *)
(* A group is a small set of tapes (mostly pairs  t, mutate(t)) on three   *)
(* wires: a fixed prefix RY(w1) H(w2) H(w3) followed by ONE operator term  *)
(* (named gate + wrappers Adjoint / Pow / Controlled).  Mutations: one     *)
(* parameter shifted by 2*pi / 4*pi / one lattice step, an identical copy, *)
(* another wrapper, another wire, other trainable indices / shots.         *)
(* For every group TLC computes                                            *)
(*   keyc  : classes of the tapes under KeyModel.Key (what the code's hash *)
(*           identifies, as a model)                                       *)
(*   resc  : per measurement type, classes of the tapes under EXACT        *)
(*           equality of the result in Z[zeta_N][1/2] (Gates.tla); a       *)
(*           finite-shot tape i gets the class -i (unconstrained)          *)
(*   sound : per measurement type, key soundness of the group              *)
(*   exp   : the exact results (state, <O>, Var O, probabilities)          *)
(* and prints them; the driver replays the group through qp.execute.       *)
(* The operator under test is applied through the state variable psi.      *)
(*                                                                         *)
(* Further input classes:                                                  *)
(*  * every one-parameter two-qubit gate of the gate table (legacy and new *)
(*    operator interface) gets the period-shift / copy pairs (TermsP);     *)
(*  * DATA operators: QubitUnitary, DiagonalQubitUnitary, BlockEncode as   *)
(*    the operator under test, StatePrep as the first operation,           *)
(*    Hermitian / Projector as the observable of expval / var, with        *)
(*    complex array data; pairs d / conj(d) (imaginary parts differ only), *)
(*    d / -conj(d) (real parts differ only), d / transpose(d), d / d,      *)
(*    d / next lattice angle; QubitUnitary and Hermitian also with a LARGE *)
(*    array: kron(d, 1) over PadN further wires that nothing else touches  *)
(*    (32 x 32 entries; on the three measured wires it acts as d);         *)
(*  * DERIVED tapes: the second tape of the group is obtained from the     *)
(*    first by the tape API (copy(shots= / trainable_params= / operations= *)
(*    / measurements=), copy(), copy(copy_operations), bind_new_parameters)*)
(*    after the first tape's hash was (memo = "hash": read, "exec": used   *)
(*    by a cached execution, "none": never) computed.  The model of a      *)
(*    derived tape is its CONTENT (Derive); its key is Key(content).       *)
(***************************************************************************)
EXTENDS Gates, Json, FiniteSets
CONSTANTS Angles,      \* lattice angles used for the parameter under test
          Full         \* TRUE: the larger wrapper / gate alphabet
VARIABLES grp, ti, pos, psi, vals, done
vars == <<grp, ti, pos, psi, vals, done>>
KM == INSTANCE KeyModel WITH TwoPi <- N \div 2

NW == 3
G(gn, w, p, x, mods) == [g |-> gn, w |-> w, p |-> p, x |-> x, m |-> <<>>, mods |-> mods]
Prefix == <<G("RY", <<1>>, <<1>>, <<>>, <<>>), G("Hadamard", <<2>>, <<>>, <<>>, <<>>), G("Hadamard", <<3>>, <<>>, <<>>, <<>>)>>
NPre == Len(Prefix)
PsiPrefix == LET ps0 == BasisCol(2^NW, 0)
                 ps1 == ApplyGate(ps0, GateM(Prefix[1]), Prefix[1].w, NW)
                 ps2 == ApplyGate(ps1, GateM(Prefix[2]), Prefix[2].w, NW)
             IN ApplyGate(ps2, GateM(Prefix[3]), Prefix[3].w, NW)
\* the observable of expval / var: the Pauli word Z(w1) X(w2) (sees the rotation of the target wire and a phase
\* kicked back onto a control wire); it squares to the identity, so Var = 1 - <O>^2
ApplyObs(s) == ApplyGate(ApplyGate(s, MX, <<2>>, NW), MZ, <<1>>, NW)

\* ------------------------------------------------------------ operator terms
Ad == [t |-> "adj"]
Pw(z) == [t |-> "pow", z |-> z]
Ct(cv) == [t |-> "ctrl", cv |-> cv]
WR1 == << <<>>, <<Ad>>, <<Pw(1)>>, <<Pw(2)>>,
          <<Ct(<<1>>)>>, <<Ct(<<0>>)>>, <<Pw(1), Ct(<<1>>)>>, <<Ad, Ct(<<1>>)>>, <<Ct(<<1>>), Ad>>, <<Ct(<<1>>), Pw(1)>>,
          <<Ct(<<1, 1>>)>> >>
WR2 == << <<>>, <<Ad>>, <<Pw(1)>> >>
NCtrl(mods) == LET S[i \in 0..Len(mods)] == IF i = 0 THEN 0 ELSE S[i-1] + (IF mods[i].t = "ctrl" THEN Len(mods[i].cv) ELSE 0)
               IN S[Len(mods)]
Wires1(mods) == CASE NCtrl(mods) = 0 -> <<1>> [] NCtrl(mods) = 1 -> <<2, 1>> [] OTHER -> <<2, 3, 1>>
OneQ == IF Full THEN {<<"RX", 1>>, <<"RY", 1>>, <<"RZ", 1>>, <<"PhaseShift", 1>>, <<"U1", 1>>, <<"Rot", 3>>, <<"U2", 2>>, <<"U3", 3>>}
        ELSE {<<"RX", 1>>, <<"RZ", 1>>, <<"PhaseShift", 1>>, <<"Rot", 3>>, <<"U3", 3>>}
TwoQ == IF Full THEN {<<"CRX", 1, <<>>>>, <<"CRY", 1, <<>>>>, <<"CRZ", 1, <<>>>>, <<"CRot", 3, <<>>>>, <<"ControlledPhaseShift", 1, <<>>>>,
                      <<"IsingXX", 1, <<>>>>, <<"IsingZZ", 1, <<>>>>, <<"MultiRZ", 1, <<>>>>, <<"PauliRot", 1, <<1, 2>>>>}
        ELSE {<<"CRX", 1, <<>>>>, <<"CRot", 3, <<>>>>, <<"ControlledPhaseShift", 1, <<>>>>, <<"IsingXX", 1, <<>>>>, <<"PauliRot", 1, <<1, 2>>>>}
Terms == {[g |-> b[1], np |-> b[2], x |-> <<>>, mi |-> mi, mods |-> WR1[mi], w |-> Wires1(WR1[mi])] : b \in OneQ, mi \in 1..Len(WR1)}
    \cup {[g |-> b[1], np |-> b[2], x |-> b[3], mi |-> mi, mods |-> WR2[mi], w |-> <<2, 1>>] : b \in TwoQ, mi \in 1..Len(WR2)}
\* every other one-parameter two-qubit gate of the table: period / copy pairs (bare in the quick tier)
TwoQP == {<<"IsingXY", 1, <<>>>>, <<"IsingYY", 1, <<>>>>, <<"IsingZZ", 1, <<>>>>, <<"PSWAP", 1, <<>>>>, <<"SingleExcitation", 1, <<>>>>,
          <<"SingleExcitationPlus", 1, <<>>>>, <<"SingleExcitationMinus", 1, <<>>>>, <<"FermionicSWAP", 1, <<>>>>,
          <<"CPhaseShift00", 1, <<>>>>, <<"CPhaseShift01", 1, <<>>>>, <<"CPhaseShift10", 1, <<>>>>, <<"CRY", 1, <<>>>>, <<"CRZ", 1, <<>>>>,
          <<"MultiRZ", 1, <<>>>>} \ TwoQ
TermsP == {[g |-> b[1], np |-> b[2], x |-> b[3], mi |-> mi, mods |-> WR2[mi], w |-> <<2, 1>>] : b \in TwoQP, mi \in 1..(IF Full THEN Len(WR2) ELSE 1)}
BaseP(np, a) == [j \in 1..np |-> a + 2 * (j - 1)]
Shift(p, i, d) == [p EXCEPT ![i] = @ + d]
AllTr(np) == [j \in 1..(np + 1) |-> j - 1]
\* mt = "": the measurement is the one the group is instantiated with; otherwise this tape measures mt
\*   ot/od: "" or the observable of expval/var on wire 1 ("Hermitian": od a 2x2 matrix, "Projector": od a 2x1 vector)
\*   zero = TRUE: the tape does not start with Prefix (it is evaluated from |000>)
\*   dv/dmemo: how the driver must obtain the tape object from tape 1 of the group ("" = construct it)
\*   opad: the observable's array is kron(od, 1) over opad further wires
TapeOps(ops, tr, sh) == [ops |-> ops, tr |-> tr, shots |-> sh, mt |-> "", ot |-> "", od |-> <<>>, opad |-> 0, zero |-> FALSE, dv |-> "", dmemo |-> ""]
TapeOf(t, p, tr, sh) == TapeOps(Append(Prefix, G(t.g, t.w, p, t.x, t.mods)), tr, sh)
Plain(t, p) == TapeOf(t, p, AllTr(t.np), <<>>)
AllMs == <<"state", "expval", "var", "probs", "dm">>
GrpW(kind, i, what, ms, tapes) == [mut |-> [kind |-> kind, i |-> i, what |-> what], ms |-> ms, tapes |-> tapes]
Grp(kind, i, tapes) == GrpW(kind, i, "", AllMs, tapes)
A0 == CHOOSE a \in Angles : \A b \in Angles : a <= b

\* ------------------------------------------------------------ the groups
Shifts == {<<"p2pi", N \div 2>>, <<"p4pi", N>>, <<"step", 1>>}
PeriodGroups == UNION {{Grp(k[1], i, <<Plain(t, BaseP(t.np, a)), Plain(t, Shift(BaseP(t.np, a), i, k[2]))>>)
                          : i \in 1..t.np, a \in Angles, k \in Shifts} : t \in Terms \cup TermsP}
CopyGroups == {Grp("copy", 0, <<Plain(t, BaseP(t.np, a)), Plain(t, BaseP(t.np, a))>>) : t \in Terms \cup TermsP, a \in Angles}
WrapperGroups == {Grp("wrapper", 0, <<Plain(tt[1], BaseP(tt[1].np, A0)), Plain(tt[2], BaseP(tt[2].np, A0))>>)
                    : tt \in {pp \in Terms \X Terms : pp[1].g = pp[2].g /\ pp[1].w = pp[2].w /\ pp[1].mi < pp[2].mi}}
WireGroups == {Grp("wire", 0, <<Plain(t, BaseP(t.np, a)), Plain([t EXCEPT !.w = <<3>>], BaseP(t.np, a))>>)
                 : t \in {u \in Terms : u.w = <<1>>}, a \in Angles}
\* trainable indices / shots: the flat tail of the fingerprint (the first tape is analytic)
TRS == << <<>>, <<0>>, <<1>>, <<0, 1>> >>
SHS == << <<>>, <<1>> >>
RXT == CHOOSE t \in Terms : t.g = "RX" /\ t.mods = <<>>
TailGroups == {Grp("tail", 0, <<TapeOf(RXT, <<A0>>, TRS[q[1]], <<>>), TapeOf(RXT, <<A0>>, TRS[q[2]], SHS[q[3]])>>)
                 : q \in {r \in (1..4) \X (1..4) \X (1..2) : r[3] = 2 \/ r[1] < r[2]}}
\* the same circuit with two different measurements (expval2 = <Z(w1)>)
MTS == <<"expval", "var", "expval2", "probs">>
MeasGroups == {Grp("meas", 0, <<[Plain(RXT, <<a>>) EXCEPT !.mt = MTS[q[1]]], [Plain(RXT, <<a>>) EXCEPT !.mt = MTS[q[2]]]>>)
                 : a \in Angles, q \in {r \in (1..4) \X (1..4) : r[1] < r[2]}}
\* larger groups for the cache state machine: four unrelated tapes / a colliding pair + one / near-duplicates + one
PS == CHOOSE t \in Terms : t.g = "PhaseShift" /\ t.mods = <<>>
ExtraGroups == { Grp("inj4", 0, <<Plain(RXT, <<1>>), Plain(RXT, <<2>>), Plain(RXT, <<3>>), Plain(RXT, <<4>>)>>),
                 Grp("collide3", 0, <<Plain(RXT, <<1>>), Plain(RXT, <<1 + N \div 2>>), Plain(RXT, <<3>>)>>),
                 Grp("dup3", 0, <<Plain(PS, <<1>>), Plain(PS, <<1 + N \div 2>>), Plain(PS, <<3>>)>>) }
\* ------------------------------------------------------------ operators carrying complex array data
MConj(m) == [k |-> m.k, e |-> TLCEval([i \in 1..Len(m.e) |-> TLCEval([j \in 1..Len(m.e[1]) |-> Conj(m.e[i][j])])])]
MTr(m) == [k |-> m.k, e |-> TLCEval([i \in 1..Len(m.e[1]) |-> TLCEval([j \in 1..Len(m.e) |-> m.e[j][i]])])]
\* the data at lattice angle a (theta = a*4*pi/N): a generic unitary, a diagonal of phases, a normalised vector with a relative
\* phase e^{i theta}, a Hermitian matrix with complex off-diagonal entries, A = U/sqrt(2) for BlockEncode
DatU(a) == Norm(MRot(a, 1, 2))
DatD(a) == Mx(0, << <<Em(a), O>>, <<O, P(a)>> >>)
DatV(a) == Norm(Mx(1, << <<Sqrt2>>, <<Mul(Sqrt2, P(a))>> >>))
DatH(a) == Mx(0, << <<Two, Em(a)>>, <<E(a), mOne>> >>)
DatB(a) == Norm(Mx(2, MScale(Sqrt2, Mx(0, MRot(a, 1, 2).e)).e))
\* <<operator, where it sits in the tape, number of padding wires>>.  Padded: the array handed to the operator is kron(d, 1_{2^PadN})
\* on wire 1 and PadN further wires; no other operation or measurement touches those wires, so on the register of the model
\* the operator is d on wire 1 (x = <<PadN>> records the padding; the key contains the whole array, i.e. d and the padding)
PadN == 4
DataKindsBig == {<<"QubitUnitary", "op", PadN>>, <<"Hermitian", "obs", PadN>>}
DataKinds == {<<"QubitUnitary", "op", 0>>, <<"DiagonalQubitUnitary", "op", 0>>, <<"BlockEncode", "op", 0>>, <<"StatePrep", "prep", 0>>,
              <<"Hermitian", "obs", 0>>, <<"Projector", "obs", 0>>} \cup DataKindsBig
DataOf(dk, a) == CASE dk = "QubitUnitary" -> DatU(a) [] dk = "DiagonalQubitUnitary" -> DatD(a) [] dk = "BlockEncode" -> DatB(a)
                   [] dk \in {"StatePrep", "Projector"} -> DatV(a) [] dk = "Hermitian" -> DatH(a)
DataMuts(dk) == {"conj", "negconj", "copy", "step"} \cup (IF dk \in {"QubitUnitary", "BlockEncode", "Hermitian"} THEN {"tr"} ELSE {})
MutData(dk, a, mu) == CASE mu = "conj" -> Norm(MConj(DataOf(dk, a))) [] mu = "negconj" -> MNeg(MConj(DataOf(dk, a)))
                        [] mu = "tr" -> Norm(MTr(DataOf(dk, a))) [] mu = "copy" -> DataOf(dk, a) [] mu = "step" -> DataOf(dk, a + 1)
GD(gn, w, m, pad) == [g |-> gn, w |-> w, p |-> <<>>, x |-> IF pad > 0 THEN <<pad>> ELSE <<>>, m |-> m, mods |-> <<>>]
RXop(a) == G("RX", <<1>>, <<a>>, <<>>, <<>>)
\* the tape of one data operator: "op" after the prefix; "prep" first, then H H RX; "obs" measured after prefix + RX
DataTape(d, m) ==
  CASE d[2] = "op"   -> TapeOps(Append(Prefix, GD(d[1], IF d[1] = "BlockEncode" THEN <<2, 1>> ELSE <<1>>, m, d[3])), <<0>>, <<>>)
    [] d[2] = "prep" -> [TapeOps(<<GD(d[1], <<1>>, m, 0), Prefix[2], Prefix[3], RXop(A0)>>, <<0>>, <<>>) EXCEPT !.zero = TRUE]
    [] d[2] = "obs"  -> [TapeOps(Append(Prefix, RXop(A0)), <<0, 1>>, <<>>) EXCEPT !.ot = d[1], !.od = m, !.opad = d[3]]
\* state / density matrix of a padded tape would include the padding wires: measured with expval / var / probs only
DataGroups == UNION {{GrpW("data-" \o mu, 0, IF d[3] > 0 THEN d[1] \o "+pad" ELSE d[1],
                           IF d[2] = "obs" THEN <<"expval", "var">> ELSE IF d[3] > 0 THEN <<"expval", "var", "probs">> ELSE AllMs,
                           <<DataTape(d, DataOf(d[1], a)), DataTape(d, MutData(d[1], a, mu))>>) : mu \in DataMuts(d[1]), a \in Angles}
                       : d \in DataKinds}

\* ------------------------------------------------------------ tapes derived from a tape through the tape API
\* the CONTENT of the derived tape (what the documentation of copy / bind_new_parameters says it contains)
LastShift(ops) == [ops EXCEPT ![Len(ops)] = [@ EXCEPT !.p = Shift(@, 1, 1)]]
Derive(t, via) == CASE via = "shots0" -> [t EXCEPT !.shots = <<>>] [] via = "shots1" -> [t EXCEPT !.shots = <<1>>]
                    [] via = "tr" -> [t EXCEPT !.tr = <<>>] [] via \in {"ops", "bind"} -> [t EXCEPT !.ops = LastShift(@)]
                    [] via = "meas" -> [t EXCEPT !.mt = "expval2"] [] via \in {"plain", "copyops"} -> t
Vias == {"shots0", "shots1", "tr", "ops", "bind", "meas", "plain", "copyops"}
Memos == {"none", "hash", "exec"}
DerSrc(via) == LET t == Plain(RXT, <<A0>>) IN
               IF via = "shots0" THEN [t EXCEPT !.shots = <<1>>] ELSE IF via = "meas" THEN [t EXCEPT !.mt = "expval"] ELSE t
DerivedGroups == {GrpW("derived", 0, via \o "/" \o memo, IF via = "meas" THEN <<"expval">> ELSE AllMs,
                       <<DerSrc(via), [Derive(DerSrc(via), via) EXCEPT !.dv = via, !.dmemo = memo]>>) : via \in Vias, memo \in Memos}

Groups == PeriodGroups \cup CopyGroups \cup WrapperGroups \cup WireGroups \cup TailGroups \cup MeasGroups \cup ExtraGroups
          \cup DataGroups \cup DerivedGroups
NGroups == Cardinality(Groups)

\* ------------------------------------------------------------ exact results of one tape from its final state
\* os = O|s> for the observable O of expval / var:  <O> = <s|O|s>,  Var O = <s|O^2|s> - <O>^2  with <s|O^2|s> = <Os|Os> (O Hermitian)
ValsOf(s, os) ==
  LET ex == MatMul(Dagger(s), os)
      c == ex.e[1][1]
  IN [st |-> s,
      ex |-> ex,
      e2 |-> MatMul(Dagger(s), ApplyGate(s, MZ, <<1>>, NW)),
      va |-> MAdd(MatMul(Dagger(os), os), MNeg(Norm([k |-> 2 * ex.k, e |-> << <<Mul(c, c)>> >>]))),
      pr |-> Norm([k |-> 2 * s.k, e |-> TLCEval([i \in 1..Len(s.e) |-> <<Mul(Conj(s.e[i][1]), s.e[i][1])>>])]),
      dm |-> MatMul(s, Dagger(s))]

\* the matrix of one operation.  Data operators, from their documentation: QubitUnitary(U) = U; DiagonalQubitUnitary(d) =
\* diag(d) (m is stored as the diagonal matrix); StatePrep(v) on a wire in |0> = the linear map |0> -> v; BlockEncode(A) =
\* [[A, sqrt(1 - A A^+)], [sqrt(1 - A^+ A), -A^+]], here with A A^+ = A^+ A = 1/2 (checked by BlockOk), so both roots are 1/sqrt(2)
BlockEnc(a) == LET kk == IF a.k > 1 THEN a.k ELSE 1
                   au == ScaleUp(a, kk)  ad == ScaleUp(Dagger(a), kk)  su == ScaleUp(Mx(1, << <<Sqrt2, O>>, <<O, Sqrt2>> >>), kk)
               IN Norm(Mx(kk, TLCEval([i \in 1..4 |-> TLCEval([j \in 1..4 |->
                     IF i <= 2 /\ j <= 2 THEN au.e[i][j] ELSE IF i <= 2 THEN su.e[i][j-2] ELSE IF j <= 2 THEN su.e[i-2][j]
                     ELSE Neg(ad.e[i-2][j-2])])])))
BlockOk(a) == EqExact(MatMul(a, Dagger(a)), Mx(1, Ident(2).e)) /\ EqExact(MatMul(Dagger(a), a), Mx(1, Ident(2).e))
OpM(o) == CASE o.g \in {"QubitUnitary", "DiagonalQubitUnitary"} -> MData(o.m)
            [] o.g = "StatePrep" -> Mx(o.m.k, << <<o.m.e[1][1], O>>, <<o.m.e[2][1], O>> >>)
            [] o.g = "BlockEncode" -> BlockEnc(MData(o.m))
            [] OTHER -> GateM(o)
\* the observable of expval / var applied to a state
ObsM(t) == IF t.ot = "Hermitian" THEN MData(t.od) ELSE MatMul(MData(t.od), Dagger(MData(t.od)))      \* Projector(v) = |v><v|
ApplyObsT(s, t) == IF t.ot = "" THEN ApplyObs(s) ELSE ApplyGate(s, ObsM(t), <<1>>, NW)
StartPos(t) == IF t.zero THEN 1 ELSE NPre + 1
StartPsi(t) == IF t.zero THEN BasisCol(2^NW, 0) ELSE PsiPrefix
Init == /\ grp \in Groups /\ ti = 1 /\ pos = StartPos(grp.tapes[1]) /\ psi = StartPsi(grp.tapes[1]) /\ vals = <<>> /\ done = FALSE
Step == /\ ti <= Len(grp.tapes) /\ pos <= Len(grp.tapes[ti].ops)
        /\ LET o == grp.tapes[ti].ops[pos] IN \E gm \in {OpM(o)} : psi' = ApplyGate(psi, gm, o.w, NW)     \* bind: evaluate the gate matrix once
        /\ pos' = pos + 1 /\ UNCHANGED <<grp, ti, vals, done>>
EndTape == /\ ti <= Len(grp.tapes) /\ pos > Len(grp.tapes[ti].ops)
           /\ \E os \in {ApplyObsT(psi, grp.tapes[ti])} : vals' = Append(vals, ValsOf(psi, os))
           /\ ti' = ti + 1
           /\ IF ti < Len(grp.tapes) THEN pos' = StartPos(grp.tapes[ti + 1]) /\ psi' = StartPsi(grp.tapes[ti + 1])
                                     ELSE pos' = NPre + 1 /\ psi' = PsiPrefix
           /\ UNCHANGED <<grp, done>>

\* ------------------------------------------------------------ classes and the verdict on the model
NTp == Len(grp.tapes)
Analytic(i) == grp.tapes[i].shots = <<>>
KTape(i) == [ops |-> grp.tapes[i].ops, meas |-> <<[t |-> IF grp.tapes[i].mt = "" THEN "m" ELSE grp.tapes[i].mt, obs |-> <<grp.tapes[i].ot, grp.tapes[i].od, grp.tapes[i].opad>>, w |-> <<>>]>>,
             tr |-> grp.tapes[i].tr, shots |-> grp.tapes[i].shots]
\* the result of tape i when the group is instantiated with measurement type m
Val(i, m) == LET mm == IF grp.tapes[i].mt = "" THEN m ELSE grp.tapes[i].mt IN
             CASE mm = "state" -> vals[i].st [] mm = "expval" -> vals[i].ex [] mm = "var" -> vals[i].va
               [] mm = "probs" -> vals[i].pr [] mm = "dm" -> vals[i].dm [] mm = "expval2" -> vals[i].e2
KeyC == TLCEval([i \in 1..NTp |-> CHOOSE j \in 1..i : KM!KeyEq(KTape(j), KTape(i)) /\ \A j2 \in 1..(j-1) : ~KM!KeyEq(KTape(j2), KTape(i))])
ClassSeq(Same(_, _)) ==
  TLCEval([i \in 1..NTp |-> IF ~Analytic(i) THEN -i
           ELSE CHOOSE j \in 1..i : Analytic(j) /\ Same(j, i) /\ \A j2 \in 1..(j-1) : ~(Analytic(j2) /\ Same(j2, i))])
ResC == TLCEval([state |-> ClassSeq(LAMBDA a, b : EqExact(Val(a, "state"), Val(b, "state"))),
         expval |-> ClassSeq(LAMBDA a, b : EqExact(Val(a, "expval"), Val(b, "expval"))),
         var |-> ClassSeq(LAMBDA a, b : EqExact(Val(a, "var"), Val(b, "var"))),
         probs |-> ClassSeq(LAMBDA a, b : EqExact(Val(a, "probs"), Val(b, "probs"))),
         dm |-> ClassSeq(LAMBDA a, b : EqExact(Val(a, "dm"), Val(b, "dm")))])
\* an analytic tape must not share its key with a tape of another result (finite-shot tapes have classes of their own)
SoundFor(kc, rc) == \A i, j \in 1..NTp : (kc[i] = kc[j] /\ (rc[i] > 0 \/ rc[j] > 0)) => rc[i] = rc[j]
Emit == /\ ti > Len(grp.tapes) /\ ~done /\ done' = TRUE
        /\ \E kc \in {KeyC} : \E rc \in {ResC} :
           PrintT(ToJson([mut |-> grp.mut, ms |-> grp.ms, tapes |-> grp.tapes, keyc |-> kc, resc |-> rc,
                          sound |-> [state |-> SoundFor(kc, rc.state), expval |-> SoundFor(kc, rc.expval), var |-> SoundFor(kc, rc.var),
                                     probs |-> SoundFor(kc, rc.probs), dm |-> SoundFor(kc, rc.dm)],
                          inbound |-> \A i \in 1..NTp : InBound(vals[i].st) /\ InBound(vals[i].dm),
                          exp |-> [i \in 1..NTp |-> [st |-> vals[i].st, ex |-> vals[i].ex, e2 |-> vals[i].e2, va |-> vals[i].va, pr |-> vals[i].pr]]]))
        /\ UNCHANGED <<grp, ti, pos, psi, vals>>
Next == Step \/ EndTape \/ Emit
\* the reference semantics is sane: every final state is normalised  (<psi|psi> = 1)
Normalised == /\ \A i \in 1..Len(vals) : EqExact(MatMul(Dagger(vals[i].st), vals[i].st), Ident(1))
              /\ \A i \in 1..Len(grp.tapes) : \A j \in 1..Len(grp.tapes[i].ops) :
                    grp.tapes[i].ops[j].g = "BlockEncode" => BlockOk(MData(grp.tapes[i].ops[j].m))
\* key soundness as a state invariant (EXPECTED to be violated by the model of the code's hash: a design-level result)
KeySound == ti > Len(grp.tapes) => \A m \in {"state", "expval", "var", "probs", "dm"} : SoundFor(KeyC, ResC[m])
=============================================================================
