------------------------------ MODULE CacheGen -------------------------------
(* Generator for C05 (REPLAY): explores Cache.tla exhaustively and emits every history that ends with a       *)
(* completed (or failed) execution, together with what the model predicts: hit/miss plan, cache events with   *)
(* evictions, returned result classes, error.  `sound` / `missing` are I2 / I1 evaluated by TLC on the model. *)
EXTENDS Cache, Json
TapesOf(h) == UNION {{h[e].batch[i] : i \in 1..Len(h[e].batch)} : e \in 1..Len(h)}
Emit == IF phase = "idle" /\ batch = <<>> /\ nexec >= 1 /\ (world.both => TapesOf(hist) = 1..world.nt)
        THEN PrintT(ToJson([w |-> world.id, kind |-> ccfg.kind, ms |-> ccfg.ms, execs |-> hist, err |-> err,
                            sound |-> Sound, keysound |-> KeySound(world)]))
        ELSE TRUE
=============================================================================
