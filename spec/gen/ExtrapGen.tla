------------------------------ MODULE ExtrapGen -----------------------------
(***************************************************************************)
(* C25 (bridged clause): data sets that follow the models of the zero-     *)
(* noise extrapolation functions exactly, with the exact value at x = 0.   *)
(*   poly  y = c_0 + c_1 x + .. + c_deg x^deg, integer coefficients from   *)
(*         Coefs, abscissae q / Den from XSets (at least deg + 1 points);  *)
(*         poly_extrapolate(order >= deg) and richardson_extrapolate must  *)
(*         return c_0.                                                     *)
(*   exp   y = A 2^(-b x) + C at integer x (= A e^{Bx} + C, B = -b ln 2),  *)
(*         exponential_extrapolate(asymptote = C) must return A + C.       *)
(* All values are exact rationals <<num, den>> (Rat.tla).  Invariant       *)
(* Lagrange: the Lagrange interpolant through the first deg + 1 points,    *)
(* evaluated at 0 (the definition of Richardson extrapolation), is c_0 --  *)
(* i.e. the emitted data do determine the emitted expectation.             *)
(***************************************************************************)
EXTENDS Rat, TLC, Json
CONSTANTS MaxDeg, Coefs, XSets, Den, As, Bs, Cs, EXSets

VARIABLES kind, deg, c, xi, par, done
Init == /\ done = FALSE
        /\ \/ /\ kind = "poly" /\ deg \in 0..MaxDeg /\ c \in [0..MaxDeg -> Coefs] /\ xi \in 1..Len(XSets)
              /\ \A k \in (deg + 1)..MaxDeg : c[k] = 0        \* unused coefficients are zero (keeps the states distinct)
              /\ c[deg] # 0 /\ Len(XSets[xi]) >= deg + 1 /\ par = <<0, 0, 0>>
           \/ /\ kind = "exp" /\ deg = 0 /\ c = [k \in 0..MaxDeg |-> 0] /\ xi \in 1..Len(EXSets)
              /\ par \in As \X Bs \X Cs

Pow(b, e) == LET P[i \in 0..e] == IF i = 0 THEN 1 ELSE b * P[i-1] IN P[e]
X(i) == RNorm(XSets[xi][i], Den)
RPow(x, e) == LET P[i \in 0..e] == IF i = 0 THEN ROne ELSE RMul(P[i-1], x) IN P[e]
PolyAt(x) == LET S[k \in -1..deg] == IF k = -1 THEN RZero ELSE RAdd(S[k-1], RMul(RInt(c[k]), RPow(x, k))) IN S[deg]
PolyY == [i \in 1..Len(XSets[xi]) |-> PolyAt(X(i))]
ExpY == [i \in 1..Len(EXSets[xi]) |-> RAdd(RNorm(par[1], Pow(2, par[2] * EXSets[xi][i])), RInt(par[3]))]

\* Lagrange interpolation at 0 through points 1..deg+1
LagrangeAt0 ==
  LET n == deg + 1
      Li(i) == LET P[j \in 0..n] == IF j = 0 THEN ROne ELSE IF j = i THEN P[j-1]
                                   ELSE RMul(P[j-1], RDiv(RNeg(X(j)), RSub(X(i), X(j)))) IN P[n]
      S[i \in 0..n] == IF i = 0 THEN RZero ELSE RAdd(S[i-1], RMul(PolyY[i], Li(i)))
  IN S[n]
Lagrange == kind = "poly" => LagrangeAt0 = RInt(c[0])
ExpModel == kind = "exp" => \A i \in 1..Len(EXSets[xi]) :
               RMul(RSub(ExpY[i], RInt(par[3])), RInt(Pow(2, par[2] * EXSets[xi][i]))) = RInt(par[1])

Row == IF kind = "poly"
       THEN [kind |-> "poly", deg |-> deg, c |-> [k \in 1..(deg + 1) |-> c[k-1]], xs |-> [i \in 1..Len(XSets[xi]) |-> X(i)],
             ys |-> PolyY, f0 |-> RInt(c[0]), asym |-> RZero, b |-> 0]
       ELSE [kind |-> "exp", deg |-> 0, c |-> <<par[1]>>, xs |-> [i \in 1..Len(EXSets[xi]) |-> RInt(EXSets[xi][i])],
             ys |-> ExpY, f0 |-> RInt(par[1] + par[3]), asym |-> RInt(par[3]), b |-> par[2]]
Next == ~done /\ PrintT(ToJson(Row)) /\ done' = TRUE /\ UNCHANGED <<kind, deg, c, xi, par>>
=============================================================================
