------------------------------- MODULE CutGen --------------------------------
(***************************************************************************)
(* C24 generator + structural model of circuit cutting.                    *)
(*                                                                         *)
(* Circuit family ("layered ladder"): L two-qubit gates on wire pairs      *)
(* sk[1..L] (sk[1] = <<1,2>>, the others range over all pairs), each       *)
(* preceded by a one-qubit gate on one of its wires, plus one trailing     *)
(* one-qubit gate; gate kinds, orientations and lattice angles are a       *)
(* deterministic function of (SEED, position).  TLC enumerates every       *)
(* skeleton, every placement of at most MaxCuts WireCut operations (a cut  *)
(* sits on wire w in gap j = after the j-th operation on w, j = 0 before   *)
(* the first, j = r_w after the last) and NOBS observables, and EMITS the  *)
(* case together with the expected fragment structure computed from the    *)
(* documented cutting procedure:                                           *)
(*   - a cut splits its wire into segments; the cut circuit graph has the  *)
(*     wire segments as vertices and the two-qubit gates as edges (the     *)
(*     factors of a tensor-product observable are separate nodes and join  *)
(*     nothing); fragments = connected components;                         *)
(*   - a cut whose two sides lie in the same fragment is removed;          *)
(*   - fragments from which no measured fragment is reachable along cut    *)
(*     edges are dropped, together with the measure nodes feeding them;    *)
(*   - a fragment with p prepare and m measure nodes is executed in        *)
(*     4^p * 3^m configurations (|0>,|1>,|+>,|+i> x the 3^m qubit-wise     *)
(*     commuting groups of the 4^m Pauli words) = 4^(p+m) expectation      *)
(*     values; it needs one device wire per wire segment it contains.      *)
(* Invariant ModelOK states the bookkeeping identities of that model.      *)
(***************************************************************************)
EXTENDS Integers, Sequences, FiniteSets, TLC, Json, SequencesExt
CONSTANTS NW, L, MaxCuts, SEED, NANG, Chain, NOBS

VARIABLES sk, stage, cs, ob, md
vars == <<sk, stage, cs, ob, md>>

AllPairs == {<<a, b>> : a \in 1..NW, b \in 1..NW}
Pairs == {pr \in AllPairs : pr[1] < pr[2]}
H(a, b, c, m) == (SEED * 7 + a * 13 + b * 31 + c * 17 + a * b * 3 + SEED * a) % m

G1 == <<"RX", "RY", "Hadamard", "RZ", "SX", "T">>
G2 == <<"CNOT", "CZ", "CRY", "IsingXX", "CY">>
Rec(g, w, p) == [g |-> g, w |-> w, p |-> p, x |-> <<>>, m |-> <<>>, mods |-> <<>>]
Op1(k, w) == LET g == G1[H(k, w, 1, 6) + 1]
             IN Rec(g, <<w>>, IF g \in {"RX", "RY", "RZ"} THEN <<H(k, w, 2, NANG - 1) + 1>> ELSE <<>>)
Op2(k, pr) == LET ww == IF H(k, pr[1], pr[2], 2) = 1 THEN <<pr[2], pr[1]>> ELSE pr
                  g == G2[H(k, pr[1] + pr[2], 3, 5) + 1]
              IN Rec(g, ww, IF g \in {"CRY", "IsingXX"} THEN <<H(k, pr[2], 4, NANG - 1) + 1>> ELSE <<>>)
OpsOf(s) == LET F[k \in 0..Len(s)] == IF k = 0 THEN <<>>
                     ELSE F[k-1] \o <<Op1(k, s[k][H(k, 7, 7, 2) + 1]), Op2(k, s[k])>>
            IN F[Len(s)] \o <<Op1(Len(s) + 1, s[Len(s)][H(Len(s) + 1, 5, 5, 2) + 1])>>

WiresOf(o) == {o.w[t] : t \in 1..Len(o.w)}
OpsOn(ops, w) == SelectSeq([i \in 1..Len(ops) |-> i], LAMBDA i : w \in WiresOf(ops[i]))
Used(ops) == UNION {WiresOf(ops[i]) : i \in 1..Len(ops)}
Positions(ops) == UNION {{<<w, j>> : j \in 0..Len(OpsOn(ops, w))} : w \in Used(ops)}
CutSets(ops) == LET P == Positions(ops) IN
   {{}} \cup (IF MaxCuts >= 1 THEN {{a} : a \in P} ELSE {}) \cup (IF MaxCuts >= 2 THEN {{a, b} : a \in P, b \in P} ELSE {})
              \cup (IF MaxCuts >= 3 THEN {{a, b, c} : a \in P, b \in P, c \in P} ELSE {})
Anchor(ops, c) == IF c[2] = 0 THEN 0 ELSE OpsOn(ops, c[1])[c[2]]

-----------------------------------------------------------------------------
(* the structural model *)
NCutsOn(cuts, w) == Cardinality({c \in cuts : c[1] = w})
CutIdx(cuts, c) == Cardinality({d \in cuts : d[1] = c[1] /\ d[2] < c[2]})
RankOn(ops, w, i) == Cardinality({j \in 1..i : w \in WiresOf(ops[j])})
SegOf(ops, cuts, w, i) == Cardinality({c \in cuts : c[1] = w /\ c[2] < RankOn(ops, w, i)})
Verts(ops, cuts) == UNION {{<<w, s>> : s \in 0..NCutsOn(cuts, w)} : w \in Used(ops)}
GEdges(ops, cuts) == {{<<ops[i].w[1], SegOf(ops, cuts, ops[i].w[1], i)>>, <<ops[i].w[2], SegOf(ops, cuts, ops[i].w[2], i)>>}
                        : i \in {j \in 1..Len(ops) : Len(ops[j].w) = 2}}
RECURSIVE MergeAll(_, _)
MergeAll(part, es) == IF es = {} THEN part ELSE
   LET e == CHOOSE x \in es : TRUE
       bs == {B \in part : B \cap e # {}}
   IN MergeAll((part \ bs) \cup {UNION bs}, es \ {e})
RECURSIVE GrowRet(_, _, _)
\* R: retained blocks; ec: effective cuts as <<meas block, prep block>>
GrowRet(R, ec, fuel) == LET R2 == R \cup {e[1] : e \in {x \in ec : x[2] \in R}}
                        IN IF R2 = R \/ fuel = 0 THEN R ELSE GrowRet(R2, ec, fuel - 1)
Pow(b, e) == LET P[i \in 0..e] == IF i = 0 THEN 1 ELSE b * P[i-1] IN P[e]

Model(ops, cuts, pw) ==
  LET blocks == MergeAll({{v} : v \in Verts(ops, cuts)}, GEdges(ops, cuts))
      BlockOf(v) == CHOOSE B \in blocks : v \in B
      MSide(c) == <<c[1], CutIdx(cuts, c)>>
      PSide(c) == <<c[1], CutIdx(cuts, c) + 1>>
      eff == {c \in cuts : BlockOf(MSide(c)) # BlockOf(PSide(c))}
      term == {BlockOf(<<w, NCutsOn(cuts, w)>>) : w \in {v \in Used(ops) : pw[v] # 0}}
      ret == GrowRet(term, {<<BlockOf(MSide(c)), BlockOf(PSide(c))>> : c \in eff}, Cardinality(blocks))
      live == {c \in eff : BlockOf(PSide(c)) \in ret}
      P(B) == Cardinality({c \in live : BlockOf(PSide(c)) = B})
      M(B) == Cardinality({c \in live : BlockOf(MSide(c)) = B})
      \* a segment starts a new device wire unless it continues across a removed (ineffective) cut
      NWires(B) == Cardinality({v \in B : v[2] = 0 \/ (\E c \in eff : PSide(c) = v)})
      bs == SetToSeq(ret)
  IN [nfrag |-> Cardinality(ret),
      frags |-> [i \in 1..Len(bs) |-> [p |-> P(bs[i]), m |-> M(bs[i]), nw |-> NWires(bs[i])]],
      neff |-> Cardinality(eff), nlive |-> Cardinality(live),
      ntapes |-> LET S[i \in 0..Len(bs)] == IF i = 0 THEN 0 ELSE S[i-1] + Pow(4, P(bs[i])) * Pow(3, M(bs[i])) IN S[Len(bs)],
      nvals |-> LET S[i \in 0..Len(bs)] == IF i = 0 THEN 0 ELSE S[i-1] + Pow(4, P(bs[i]) + M(bs[i])) IN S[Len(bs)],
      sump |-> LET S[i \in 0..Len(bs)] == IF i = 0 THEN 0 ELSE S[i-1] + P(bs[i]) IN S[Len(bs)],
      summ |-> LET S[i \in 0..Len(bs)] == IF i = 0 THEN 0 ELSE S[i-1] + M(bs[i]) IN S[Len(bs)],
      need |-> LET S[i \in 0..Len(bs)] == IF i = 0 THEN 0 ELSE IF NWires(bs[i]) > S[i-1] THEN NWires(bs[i]) ELSE S[i-1] IN S[Len(bs)],
      nterm |-> Cardinality(term)]

-----------------------------------------------------------------------------
(* observables: Pauli words (0 = I, 1 = X, 2 = Y, 3 = Z per wire) with dyadic coefficients <<num, den>> *)
Letter(w, c) == H(w, 9, c, 3) + 1
FullWord(ops) == [w \in 1..NW |-> IF w \in Used(ops) THEN Letter(w, 1) ELSE 0]
LastWord(s) == [w \in 1..NW |-> IF w = s[Len(s)][1] \/ w = s[Len(s)][2] THEN Letter(w, 2) ELSE 0]
OneWord == [w \in 1..NW |-> IF w = 1 THEN 3 ELSE 0]
MidWord(s) == [w \in 1..NW |-> IF w = s[1][2] THEN Letter(w, 3) ELSE 0]
Terms(s, ops, o) == CASE o = 1 -> <<[c |-> <<1, 1>>, pw |-> FullWord(ops)]>>
                      [] o = 2 -> <<[c |-> <<1, 1>>, pw |-> LastWord(s)]>>
                      [] o = 3 -> <<[c |-> <<1, 1>>, pw |-> OneWord]>>
                      [] o = 4 -> <<[c |-> <<1, 2>>, pw |-> FullWord(ops)], [c |-> <<-3, 4>>, pw |-> MidWord(s)]>>
                      [] OTHER -> <<[c |-> <<1, 4>>, pw |-> LastWord(s)], [c |-> <<1, 1>>, pw |-> OneWord], [c |-> <<-1, 2>>, pw |-> MidWord(s)]>>

-----------------------------------------------------------------------------
Init == sk = << <<1, 2>> >> /\ stage = 0 /\ cs = {} /\ ob = 0 /\ md = <<>>
Shares(a, b) == {a[1], a[2]} \cap {b[1], b[2]} # {}
Grow == /\ stage = 0 /\ Len(sk) < L
        /\ \E pr \in Pairs : (Chain => Shares(pr, sk[Len(sk)])) /\ sk' = Append(sk, pr)
        /\ UNCHANGED <<stage, cs, ob, md>>
Pick == /\ stage = 0 /\ Len(sk) = L
        /\ \E c \in CutSets(OpsOf(sk)), o \in 1..NOBS :
              /\ cs' = c /\ ob' = o
              /\ md' = LET ops == OpsOf(sk)  tm == Terms(sk, ops, o) IN [t \in 1..Len(tm) |-> Model(ops, c, tm[t].pw)]
        /\ stage' = 1 /\ UNCHANGED sk
Next == Grow \/ Pick

CaseRec == LET ops == OpsOf(sk)
               tm == Terms(sk, ops, ob)
               cseq == SetToSeq(cs)
           IN [n |-> NW, sk |-> sk, ops |-> ops, ob |-> ob,
               cuts |-> [i \in 1..Len(cseq) |-> [w |-> cseq[i][1], gap |-> cseq[i][2], anchor |-> Anchor(ops, cseq[i])]],
               terms |-> [t \in 1..Len(tm) |-> [c |-> tm[t].c, pw |-> tm[t].pw, model |-> md[t]]]]
Emit == IF stage = 1 THEN PrintT(ToJson(CaseRec)) ELSE TRUE

\* bookkeeping identities of the model: every live cut is prepared once and measured once, dropped fragments take
\* their cuts with them, at least one fragment carries the observable, no fragment needs more wires than segments exist
ModelOK == stage = 1 =>
   \A t \in 1..Len(md) : LET mdl == md[t] IN
      /\ mdl.sump = mdl.nlive /\ mdl.summ = mdl.nlive /\ mdl.nlive <= mdl.neff /\ mdl.neff <= Cardinality(cs)
      /\ mdl.nterm >= 1 /\ mdl.nfrag >= 1 /\ mdl.nfrag <= mdl.nlive + mdl.nterm
      /\ mdl.need >= 1 /\ mdl.need <= NW + mdl.nlive
      /\ mdl.ntapes <= mdl.nvals /\ (mdl.nlive = 0 => mdl.ntapes = mdl.nfrag)
=============================================================================
