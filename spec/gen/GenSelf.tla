------------------------------ MODULE GenSelf -------------------------------
(* Oracle self-check for the derivative table: for every one-parameter gate with a table generator and every   *)
(* lattice angle, the closed-form exponential of the generator equals the documented gate matrix.              *)
EXTENDS Gates
VARIABLES c, done
G(g, w, p, x) == [g |-> g, w |-> w, p |-> p, x |-> x, m |-> <<>>, mods |-> <<>>]
W(n) == [i \in 1..n |-> i]
Names == {<<"RX",1>>,<<"RY",1>>,<<"RZ",1>>,<<"IsingXX",2>>,<<"IsingYY",2>>,<<"IsingZZ",2>>,<<"MultiRZ",1>>,<<"MultiRZ",2>>,<<"MultiRZ",3>>,
  <<"CRX",2>>,<<"CRY",2>>,<<"CRZ",2>>,<<"SingleExcitation",2>>,<<"SingleExcitationPlus",2>>,<<"SingleExcitationMinus",2>>,
  <<"DoubleExcitation",4>>,<<"DoubleExcitationPlus",4>>,<<"DoubleExcitationMinus",4>>,<<"IsingXY",2>>,<<"PhaseShift",1>>,<<"U1",1>>,
  <<"ControlledPhaseShift",2>>,<<"CPhaseShift00",2>>,<<"CPhaseShift01",2>>,<<"CPhaseShift10",2>>,<<"PSWAP",2>>,<<"GlobalPhase",1>>,
  <<"FermionicSWAP",2>>}
Cases == {G(t[1], W(t[2]), <<a>>, <<>>) : t \in Names, a \in 0..N-1}
      \cup {G("PauliRot", W(Len(pw)), <<a>>, pw) : pw \in {<<1>>,<<2>>,<<3>>,<<1,3>>,<<2,2>>,<<3,0>>,<<1,2,3>>}, a \in 0..N-1}
Init == c \in Cases /\ done = FALSE
Next == ~done /\ done' = TRUE /\ UNCHANGED c
GenOK == EqExact(GenClosedForm(c), GateM(c))
=============================================================================
