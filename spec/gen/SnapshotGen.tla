---------------------------- MODULE SnapshotGen -----------------------------
(* Generator for C71 (REPLAY): builds every program with at most MaxGates gate blocks and MaxSnaps snapshots (tag or  *)
(* not, measurement kind, shots option), runs the executor model of Snapshots.tla on it and emits the program with the *)
(* expected dictionary.  Breadth-first search enumerates all programs up to the bounds; -simulate draws larger ones.    *)
EXTENDS Snapshots, Json, TLC
CONSTANTS MaxGates, MaxSnaps, Kinds, ShOpts
TagNames == <<"alpha", "beta", "gamma", "delta">>
Init == prog = <<>> /\ phase = "build" /\ pc = 1 /\ applied = 0 /\ nsnap = 0 /\ dict = <<>> /\ res = -1
AddGate == /\ phase = "build" /\ SnNGates(prog) < MaxGates
           /\ prog' = Append(prog, SnGate) /\ UNCHANGED <<phase, pc, applied, nsnap, dict, res>>
AddSnap == /\ phase = "build" /\ SnNSnaps(prog) < MaxSnaps
           /\ \E tagged \in BOOLEAN : \E mk \in Kinds : \E sh \in ShOpts :
                prog' = Append(prog, SnSnap(IF tagged THEN TagNames[SnNSnaps(prog) + 1] ELSE "", mk, sh))
           /\ UNCHANGED <<phase, pc, applied, nsnap, dict, res>>
Start == /\ phase = "build" /\ SnNSnaps(prog) >= 1
         /\ phase' = "run" /\ UNCHANGED <<prog, pc, applied, nsnap, dict, res>>
Emit == /\ phase = "run" /\ res # -1
        /\ PrintT(ToJson([prog |-> prog, dict |-> dict, final |-> res]))
        /\ phase' = "done" /\ UNCHANGED <<prog, pc, applied, nsnap, dict, res>>
Next == AddGate \/ AddSnap \/ Start \/ SnStep \/ SnDone \/ Emit
=============================================================================
