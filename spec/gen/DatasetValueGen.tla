--------------------------- MODULE DatasetValueGen ----------------------------
(* Generator for C64: the finite grammar of attribute values.  A term is [k |-> kind, ch |-> children];          *)
(* leaves are value classes (instantiated by the harness from a pool per class), containers are list / tuple /   *)
(* dict (dict keys are positional strings "k0", "k1", ...).                                                      *)
(*   depth 0: the leaf classes in LeafKinds                                                                      *)
(*   depth 1: containers of <= W2 leaves over LeafKinds                                                          *)
(*   depth 2: containers of <= W2 children, each a leaf over LeafKinds2 or a container of <= W1 such leaves      *)
(* What must be read back is the term itself (`expect`): the same container kinds and shape, every leaf equal    *)
(* to the written instance under the equality of its class.                                                      *)
EXTENDS Integers, Sequences, TLC, Json
CONSTANTS LeafKinds, LeafKinds2, Containers, W1, W2, Depth
VARIABLE term
Seqs(S, w) == UNION {[1..k -> S] : k \in 0..w}
Leaves(L) == {[k |-> c, ch |-> <<>>] : c \in L}
T1(w, L) == {[k |-> c, ch |-> s] : c \in Containers, s \in Seqs(Leaves(L), w)}
T2 == {[k |-> c, ch |-> s] : c \in Containers, s \in Seqs(Leaves(LeafKinds2) \cup T1(W1, LeafKinds2), W2)}
Terms == IF Depth = 0 THEN Leaves(LeafKinds)
         ELSE IF Depth = 1 THEN Leaves(LeafKinds) \cup T1(W2, LeafKinds)
         ELSE Leaves(LeafKinds) \cup T1(W2, LeafKinds) \cup T2
Init == term \in Terms
Next == UNCHANGED term
Emit == PrintT(ToJson([term |-> term, expect |-> term]))
=============================================================================
