------------------------------ MODULE OpsSelf -------------------------------
(***************************************************************************)
(* Oracle self-check for Ops.tla (DESIGN 3.2: the oracle is model-checked  *)
(* before it judges the implementation).  Every case states a LAW that     *)
(* relates the stack machine to an INDEPENDENT definition in Gates.tla (or *)
(* to another route through the machine); TLC checks LawOK on every case.  *)
(*  ctrl    CTRL cw cv after PUSH g   = table gate g with the ctrl         *)
(*          modifier (block form CtrlM of Gates.tla) on wires cw \o g.w    *)
(*  ctrlnest CTRL cw1 cv1 ; CTRL cw2 cv2 after an arithmetic operand       *)
(*          = one CTRL on (cw2 \o cw1) with values (cv2 \o cv1) (each     *)
(*          value stays with ITS wire, in either listing order), and for   *)
(*          cv1 # cv2 differs from the value-swapped flattening            *)
(*  adjpow  ADJ / POW z after PUSH g  = table gate with the adj / pow      *)
(*          modifier (power taken before the embedding)                    *)
(*  exp     EXP a after PUSH word P   = PauliRot(-2 phi, P) of the table   *)
(*  order   COB (c,t,u) = PROD (u,t,c) ; CIRC (a,b,c) = PROD (c,b,a)       *)
(*  relabel Relabel(Embed(g on w), perm) = Embed(g on perm[w])             *)
(*  root    ROOT g ; POW 2 = PUSH g, and the documented special roots      *)
(*  pauli   PauliSumM = SUM of SPROD of PUSH PauliWord                     *)
(*  eigen   H = RY(-pi/4)^dagger diag(1,-1) RY(-pi/4)                      *)
(***************************************************************************)
EXTENDS Ops
VARIABLES c, st
n == 3
GR(g, w, p, x) == [g |-> g, w |-> w, p |-> p, x |-> x, m |-> <<>>, mods |-> <<>>]
Push(g) == [op |-> "PUSH", g |-> g]
Run(prog) == LET R[i \in 0..Len(prog)] == IF i = 0 THEN <<>> ELSE SemStep(R[i-1], prog[i], n) IN R[Len(prog)][1]
GuardsOK(prog) == LET R[i \in 0..Len(prog)] == IF i = 0 THEN <<>> ELSE SemStep(R[i-1], prog[i], n)
                  IN \A i \in 1..Len(prog) : Guard(R[i-1], prog[i], n) = "ok"
Perms == {<<1,2,3>>, <<2,1,3>>, <<3,1,2>>, <<2,3,1>>, <<3,2,1>>, <<1,3,2>>}
Angles == {0, 1, 3, 4, 7, 8, 13}
OneQ(a) == {GR("PauliX", <<1>>, <<>>, <<>>), GR("S", <<1>>, <<>>, <<>>), GR("Hadamard", <<1>>, <<>>, <<>>), GR("RX", <<1>>, <<a>>, <<>>),
            GR("RY", <<1>>, <<a>>, <<>>), GR("PhaseShift", <<1>>, <<a>>, <<>>)}
TwoQ(a) == {GR("CNOT", <<1,2>>, <<>>, <<>>), GR("IsingXX", <<1,2>>, <<a>>, <<>>), GR("CRZ", <<1,2>>, <<a>>, <<>>), GR("SWAP", <<1,2>>, <<>>, <<>>)}
OnWires(g, p) == [g EXCEPT !.w = [i \in 1..Len(g.w) |-> p[g.w[i]]]]
Words == {<<1>>, <<2>>, <<3>>, <<1,3>>, <<2,2>>, <<3,1>>, <<1,2,3>>}
Sc(z, k) == [c |-> z, k |-> k]
Cases ==
  {[law |-> "ctrl", g |-> OnWires(g, p), cw |-> <<p[Len(g.w)+1]>>, cv |-> <<v>>] : g \in OneQ(3) \cup TwoQ(5), p \in Perms, v \in {0, 1}}
  \cup {[law |-> "ctrl", g |-> OnWires(g, p), cw |-> <<p[2], p[3]>>, cv |-> cv] : g \in OneQ(7), p \in Perms, cv \in {<<0,0>>, <<0,1>>, <<1,0>>, <<1,1>>}}
  \cup {[law |-> "ctrlnest", g |-> OnWires(g, p), kind |-> k, cw1 |-> <<p[2]>>, cw2 |-> <<p[3]>>, cv1 |-> <<v1>>, cv2 |-> <<v2>>] :
           g \in OneQ(3), k \in {"gate", "prod", "sum", "sprod", "adj"}, p \in Perms, v1 \in {0, 1}, v2 \in {0, 1}}
  \cup {[law |-> "adjpow", g |-> OnWires(g, p), z |-> z] : g \in OneQ(5) \cup TwoQ(3), p \in {<<1,2,3>>, <<3,1,2>>}, z \in -2..3}
  \cup {[law |-> "exp", g |-> GR("PauliWord", [i \in 1..Len(w) |-> p[i]], <<>>, w), a |-> a] : w \in Words, p \in {<<1,2,3>>, <<3,1,2>>}, a \in 0..N-1}
  \cup {[law |-> "order", g |-> OnWires(g, p), h |-> OnWires(h, q)] : g \in OneQ(3), h \in TwoQ(5), p \in {<<1,2,3>>, <<2,3,1>>}, q \in {<<1,2,3>>, <<3,2,1>>}}
  \cup {[law |-> "relabel", g |-> g, perm |-> p] : g \in OneQ(3) \cup TwoQ(5), p \in Perms}
  \cup {[law |-> "root", g |-> GR(nm, <<2>>, <<a>>, <<>>)] : nm \in {"RX", "RY", "RZ"}, a \in {x \in -(N \div 2)+1..(N \div 2)-1 : x % 2 = 0}}
  \cup {[law |-> "root", g |-> GR(nm, <<3,1>>, <<a>>, <<>>)] : nm \in {"IsingXX", "IsingZZ", "CRX", "CRZ"}, a \in {x \in -(N \div 2)+1..(N \div 2)-1 : x % 2 = 0}}
  \cup {[law |-> "root", g |-> GR(nm, <<1>>, <<a>>, <<>>)] : nm \in {"PhaseShift", "U1"}, a \in -(N \div 4)+1..(N \div 4)-1}
  \cup {[law |-> "root", g |-> GR(nm, <<2,1>>, <<a>>, <<>>)] : nm \in {"ControlledPhaseShift", "CPhaseShift00", "CPhaseShift01", "CPhaseShift10"}, a \in -(N \div 4)+1..(N \div 4)-1}
  \cup {[law |-> "root", g |-> GR(nm, <<3>>, <<>>, <<>>)] : nm \in {"S", "T", "SX", "Identity"}}
  \cup {[law |-> "pauli", u |-> u, v |-> v] : u \in {<<1,0,3>>, <<2,2,0>>}, v \in {<<0,0,0>>, <<3,1,2>>}}
  \cup {[law |-> "eigen"]}
Init == c \in Cases /\ st = "todo"
WithMod(g, w, md) == [g EXCEPT !.w = w, !.mods = <<md>>]
LawOK ==
  CASE c.law = "ctrl" ->
         LET prog == <<Push(c.g), [op |-> "CTRL", cw |-> c.cw, cv |-> c.cv]>> IN
         GuardsOK(prog) /\ EqExact(Run(prog), Embed(WithMod(c.g, c.cw \o c.g.w, [t |-> "ctrl", cv |-> c.cv]), n))
    [] c.law = "ctrlnest" ->
         LET h == GR("T", c.g.w, <<>>, <<>>)
             OPD == CASE c.kind = "gate" -> <<Push(c.g)>>
                    [] c.kind = "prod" -> <<Push(c.g), Push(h), [op |-> "PROD", k |-> 2]>>
                    [] c.kind = "sum" -> <<Push(c.g), Push(h), [op |-> "SUM", k |-> 2]>>
                    [] c.kind = "sprod" -> <<Push(c.g), [op |-> "SPROD", c |-> Sc(ImI, 1)]>>
                    [] OTHER -> <<Push(h), Push(c.g), [op |-> "PROD", k |-> 2], [op |-> "ADJ"]>>
             CT(cw, cv) == [op |-> "CTRL", cw |-> cw, cv |-> cv]
             nested == Run(OPD \o <<CT(c.cw1, c.cv1), CT(c.cw2, c.cv2)>>) IN
         /\ GuardsOK(OPD \o <<CT(c.cw1, c.cv1), CT(c.cw2, c.cv2)>>)
         /\ EqExact(nested, Run(OPD \o <<CT(c.cw2 \o c.cw1, c.cv2 \o c.cv1)>>))
         /\ EqExact(nested, Run(OPD \o <<CT(c.cw1 \o c.cw2, c.cv1 \o c.cv2)>>))
         /\ (c.cv1 # c.cv2 => ~EqExact(nested, Run(OPD \o <<CT(c.cw2 \o c.cw1, c.cv1 \o c.cv2)>>)))
    [] c.law = "adjpow" ->
         /\ EqExact(Run(<<Push(c.g), [op |-> "POW", z |-> c.z]>>), Embed(WithMod(c.g, c.g.w, [t |-> "pow", z |-> c.z]), n))
         /\ EqExact(Run(<<Push(c.g), [op |-> "ADJ"]>>), Embed(WithMod(c.g, c.g.w, [t |-> "adj"]), n))
         /\ GuardsOK(<<Push(c.g), [op |-> "POW", z |-> c.z]>>)
    [] c.law = "exp" ->
         LET prog == <<Push(c.g), [op |-> "EXP", a |-> c.a]>> IN
         GuardsOK(prog) /\ EqExact(Run(prog), Embed(GR("PauliRot", c.g.w, <<-c.a>>, c.g.x), n))
    [] c.law = "order" ->
         LET t == GR("T", <<c.g.w[1]>>, <<>>, <<>>) IN
         /\ EqExact(Run(<<Push(c.g), Push(c.h), Push(t), [op |-> "COB"]>>), Run(<<Push(t), Push(c.h), Push(c.g), [op |-> "PROD", k |-> 3]>>))
         /\ EqExact(Run(<<Push(c.g), Push(c.h), Push(t), [op |-> "CIRC", k |-> 3]>>), Run(<<Push(t), Push(c.h), Push(c.g), [op |-> "PROD", k |-> 3]>>))
         /\ EqExact(Run(<<Push(c.g), Push(c.h), [op |-> "PROD", k |-> 2]>>), MatMul(Embed(c.g, n), Embed(c.h, n)))
    [] c.law = "relabel" -> EqExact(Relabel(Embed(c.g, n), c.perm, n), Embed(OnWires(c.g, c.perm), n))
    [] c.law = "root" ->
         LET prog == <<[op |-> "ROOT", g |-> c.g], [op |-> "POW", z |-> 2]>> IN
         /\ GuardsOK(prog) /\ EqExact(Run(prog), Embed(c.g, n))
         /\ IsUnitary(Run(<<[op |-> "ROOT", g |-> c.g]>>))
         /\ (c.g.g = "S" => EqExact(Run(<<[op |-> "ROOT", g |-> c.g]>>), Embed(GR("T", c.g.w, <<>>, <<>>), n)))
         /\ (c.g.g = "PhaseShift" /\ c.g.p[1] % 2 = 0 =>
               EqExact(Run(<<[op |-> "ROOT", g |-> c.g]>>), Embed(GR("PhaseShift", c.g.w, <<c.g.p[1] \div 2>>, <<>>), n)))
    [] c.law = "pauli" ->
         LET PW(w) == GR("PauliWord", <<1,2,3>>, <<>>, w)  sa == Sc(ImI, 1)  sb == Sc(Int2C(-3), 0) IN
         EqExact(PauliSumM(<<[c |-> sa, w |-> c.u], [c |-> sb, w |-> c.v]>>, n),
                 Run(<<Push(PW(c.u)), [op |-> "SPROD", c |-> sa], Push(PW(c.v)), [op |-> "SPROD", c |-> sb], [op |-> "SUM", k |-> 2]>>))
    [] c.law = "eigen" ->
         LET one == Sc(One, 0)  m1 == Sc(Neg(One), 0)
             D == ApplyGate(Ident(2), GateM(GR("RY", <<1>>, <<-(N \div 16)>>, <<>>)), <<1>>, 1) IN
         EqExact(FromEigen(D, <<one, m1>>), MH)
\* the law is evaluated in the action (explored in parallel), the invariant only reads the verdict
Next == st = "todo" /\ st' = (IF LawOK THEN "ok" ELSE "bad") /\ UNCHANGED c
LawsHold == st # "bad"
=============================================================================
