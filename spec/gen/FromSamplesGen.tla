---------------------------- MODULE FromSamplesGen ----------------------------
(***************************************************************************)
(* C30 generator (REPLAY) and model check.  One behaviour per sample array: *)
(* TLC enumerates EVERY array of 1..MaxS shots x 1..MaxW wires (Pick),      *)
(* computes for every measurement process of the list for that wire count  *)
(* (MPS[nw], a constant of the run read from MPS_FILE, compiled once in     *)
(* Init) the result defined by FromSamples.tla and prints array + results  *)
(* for the driver (Emit).                                                  *)
(* The invariant SpecLaws checks the specification's own laws on each      *)
(* array (probabilities sum to 1, counts total the shots, all_outcomes     *)
(* only adds zero entries, variance identity / sign, and: the statistics   *)
(* computed from the dictionary of full-width counts equal the statistics  *)
(* computed from the shots).                                               *)
(* Arrays with at least BigBits bits get the sub-list of measurement       *)
(* processes k with k % Stride = Code(ix) % Stride (Stride = 1: all).       *)
(***************************************************************************)
EXTENDS FromSamples, Json, IOUtils
CONSTANTS MaxW, MaxS, Stride, BigBits
MPS == JsonDeserialize(IOEnv.MPS_FILE)
VARIABLES nw, cms, ix, res, ph
vars == <<nw, cms, ix, res, ph>>

Init == /\ nw \in 1..MaxW /\ ph = 0 /\ ix = <<>> /\ res = <<>>
        /\ cms = LET lst == MPS[nw] IN TLCEval([k \in 1..Len(lst) |-> TLCEval(Compile(lst[k], nw))])
Pick == /\ ph = 0 /\ ph' = 1 /\ UNCHANGED <<nw, cms, res>>
        /\ \E sh \in 1..MaxS : ix' \in [1..sh -> 1..Pow2(nw)]

RECURSIVE CodeUpTo(_, _)
CodeUpTo(x, i) == IF i = 0 THEN 0 ELSE (CodeUpTo(x, i - 1) * 8 + x[i]) % 1024
Code(x) == CodeUpTo(x, Len(x))
Active(k, c) == Stride = 1 \/ Len(ix) * nw < BigBits \/ k % Stride = c

Emit == /\ ph = 1 /\ ph' = 2 /\ UNCHANGED <<nw, cms, ix>>
        /\ LET c == Code(ix) % Stride IN
           res' = [k \in 1..Len(cms) |-> IF Active(k, c) THEN TLCEval(Result(cms[k], ix)) ELSE "-"]
        /\ PrintT(ToJson([nw |-> nw, S |-> [i \in 1..Len(ix) |-> BitsOf(ix[i] - 1, nw)], C |-> FullCounts(ix, nw), r |-> res']))
Next == Pick \/ Emit

SpecLaws == ph = 2 => LET C == TLCEval(FullCounts(ix, nw))  c == Code(ix) % Stride IN
                      \A k \in 1..Len(cms) : Active(k, c) => Laws(cms[k], ix, res[k], C)
=============================================================================
