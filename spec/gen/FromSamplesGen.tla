---------------------------- MODULE FromSamplesGen ----------------------------
(***************************************************************************)
(* C30 generator (REPLAY) and model check.  One behaviour per sample array: *)
(* TLC enumerates EVERY array of 1..MaxS shots x 1..MaxW wires (Split picks *)
(* the number of shots and the first shot, Do the remaining shots), and    *)
(* computes for every measurement process of the list for that wire count  *)
(* (MPS_FILE, read and compiled once per wire count in Init) the result    *)
(* defined by FromSamples.tla; Do prints array + results for the driver.   *)
(* lawok records whether the specification's own laws hold on the array    *)
(* (probabilities sum to 1, counts total the shots, all_outcomes only adds *)
(* zero entries, variance identity / sign, negating every value negates    *)
(* expval / samples / counts keys and keeps the variance, the eigenvalue    *)
(* table of a Hermitian matrix is its spectrum ascending, and: the         *)
(* statistics computed                                                     *)
(* from the dictionary of full-width counts equal the statistics computed  *)
(* from the shots); the invariant SpecLaws is lawok.                       *)
(* Arrays with at least BigBits (BigBits2) bits get the sub-list of        *)
(* measurement processes k with k % s = Code(ix) % s, s = Stride (Stride2); *)
(* smaller arrays get the whole list.                                      *)
(***************************************************************************)
EXTENDS FromSamples, Json, IOUtils
CONSTANTS MaxW, MaxS, Stride, BigBits, Stride2, BigBits2
VARIABLES nw, cms, sh, ix, res, lawok, ph
vars == <<nw, cms, sh, ix, res, lawok, ph>>

Init == /\ nw \in 1..MaxW /\ ph = 0 /\ sh = 0 /\ ix = <<>> /\ res = <<>>
        /\ LET lst == JsonDeserialize(IOEnv.MPS_FILE)[nw] IN
           /\ cms = TLCEval([k \in 1..Len(lst) |-> TLCEval(Compile(lst[k], nw))])
           /\ lawok = \A k \in 1..Len(lst) : lst[k].src = "herm" => SortLaw(lst[k].ev)   \* the eigenvalue order of Hermitian matrices
Split == /\ ph = 0 /\ ph' = 1 /\ UNCHANGED <<nw, cms, res, lawok>>
         /\ sh' \in 1..MaxS /\ \E f \in 1..Pow2(nw) : ix' = <<f>>

RECURSIVE CodeUpTo(_, _)
CodeUpTo(x, i) == IF i = 0 THEN 0 ELSE (CodeUpTo(x, i - 1) * 8 + x[i]) % 1024
Code(x) == CodeUpTo(x, Len(x))
StrideOf(x) == LET bits == Len(x) * nw IN IF bits >= BigBits2 THEN Stride2 ELSE IF bits >= BigBits THEN Stride ELSE 1

Do == /\ ph = 1 /\ ph' = 2 /\ UNCHANGED <<nw, sh>> /\ cms' = <<>>
      /\ \E rest \in [1..(sh - 1) -> 1..Pow2(nw)] : ix' = ix \o rest
      /\ LET s == StrideOf(ix')  c == Code(ix') % s  act == {k \in 1..Len(cms) : k % s = c} IN
         /\ res' = [k \in act |-> TLCEval(Result(cms[k], ix'))]
         /\ lawok' = LET C == TLCEval(FullCounts(ix', nw)) IN \A k \in act : Laws(cms[k], ix', res'[k], C)
      /\ PrintT(ToJson([nw |-> nw, S |-> [i \in 1..Len(ix') |-> BitsOf(ix'[i] - 1, nw)], C |-> FullCounts(ix', nw), r |-> res']))
Next == Split \/ Do

SpecLaws == lawok
=============================================================================
