---------------------------- MODULE FromSamplesGen ----------------------------
(***************************************************************************)
(* C30 generator (REPLAY) and model check.  One behaviour per sample array: *)
(* TLC enumerates EVERY array of 1..MaxS shots x 1..MaxW wires, computes    *)
(* for every measurement process of the list for that wire count           *)
(* (MPS[nw], a constant of the run read from MPS_FILE) the result defined   *)
(* by FromSamples.tla and prints array + results for the driver.           *)
(* The invariant SpecLaws checks the specification's own laws on each      *)
(* array (probabilities sum to 1, counts total the shots, all_outcomes     *)
(* only adds zero entries, variance identity / sign, and: the statistics   *)
(* computed from the dictionary of full-width counts equal the statistics  *)
(* computed from the shots).                                               *)
(* Arrays with at least BigBits bits get the sub-list of measurement       *)
(* processes k with k % Stride = Code(S) % Stride (Stride = 1: all).        *)
(***************************************************************************)
EXTENDS FromSamples, Json, IOUtils
CONSTANTS MaxW, MaxS, Stride, BigBits
MPS == JsonDeserialize(IOEnv.MPS_FILE)
VARIABLES nw, S, done
vars == <<nw, S, done>>

Init == /\ nw \in 1..MaxW
        /\ \E sh \in 1..MaxS : S \in [1..sh -> [1..nw -> {0, 1}]]
        /\ done = FALSE

RECURSIVE CodeUpTo(_, _)
CodeUpTo(X, i) == IF i = 0 THEN 0 ELSE (CodeUpTo(X, i - 1) * 8 + Index(X[i], Iota(Len(X[i])))) % 1024
Code(X) == CodeUpTo(X, Len(X))
Active(k) == Stride = 1 \/ Len(S) * nw < BigBits \/ k % Stride = Code(S) % Stride
ActiveIdx == {k \in 1..Len(MPS[nw]) : Active(k)}

Emit == /\ ~done /\ done' = TRUE /\ UNCHANGED <<nw, S>>
        /\ PrintT(ToJson([nw |-> nw, S |-> S,
                          C |-> FullCounts(S, nw),
                          r |-> [k \in 1..Len(MPS[nw]) |-> IF Active(k) THEN Result(MPS[nw][k], S, nw) ELSE "-"]]))
Next == Emit

SpecLaws == done => \A k \in ActiveIdx : Laws(MPS[nw][k], S, nw)
=============================================================================
