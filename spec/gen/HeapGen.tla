------------------------------- MODULE HeapGen -------------------------------
(***************************************************************************)
(* Generator of C18 histories over the live registry of transforms.        *)
(* A history is   Create(c, i); [Execute(1)]; Transform_k(1);              *)
(*                [Transform_j(2) | Transform_j(1)]; [Execute(1)]          *)
(* c = circuit family, i = instance, k / j = transform numbers (a transform *)
(* called through its optional arguments is a registry entry of its own),  *)
(* r = parameter representation (1 python float, 2 0-d ndarray, 3 autograd *)
(* tensor, 4 broadcast 1-d ndarray: HeapData.tla shows that in-place       *)
(* accumulation is invisible unless the parameters are mutable objects, so *)
(* the representation is a dimension of the input space); Reps is the set  *)
(* of (family, representation) pairs to enumerate.  Accepts                *)
(* is the acceptance relation (transform, family) observed on the code;    *)
(* Chain the transforms used as second stage; ExecPairs the (k, c) whose   *)
(* histories re-execute the original before and after (all of them in the  *)
(* thorough tier and in every two-stage history).  TLC enumerates every    *)
(* history of the requested shapes and emits it; the abstract objects are  *)
(* immutable by construction (Heap.tla), which is what the recorded trace  *)
(* of the real run is then checked against.                                *)
(***************************************************************************)
EXTENDS Integers, Sequences, FiniteSets, TLC, Json
CONSTANTS NFam, NInst, Accepts, First, Chain, TwoStage, ExecPairs, Reps
VARIABLES hist, plan
Ev(e, c, i, k, on, r) == [e |-> e, c |-> c, i |-> i, k |-> k, on |-> on, r |-> r]
WithExec == TwoStage \/ <<plan.k, plan.c>> \in ExecPairs
Init == \E c \in 1..NFam, i \in 1..NInst, k \in First, r \in {p[2] : p \in Reps} :
          /\ <<k, c>> \in Accepts /\ <<c, r>> \in Reps
          /\ plan = [c |-> c, i |-> i, k |-> k]
          /\ hist = <<Ev("create", c, i, 0, 0, r)>>
X1 == /\ Len(hist) = 1 /\ WithExec
      /\ hist' = Append(hist, Ev("execute", 0, 0, 0, 1, 0)) /\ UNCHANGED plan
NTr == Cardinality({n \in 1..Len(hist) : hist[n].e = "transform"})
T1 == /\ NTr = 0 /\ (WithExec => Len(hist) = 2)
      /\ hist' = Append(hist, Ev("transform", 0, 0, plan.k, 1, 0)) /\ UNCHANGED plan
\* second stage: on the first output of the first transform (on = 2) or again on the original (on = 1)
T2 == /\ NTr = 1 /\ hist[Len(hist)].e = "transform" /\ TwoStage /\ plan.k \in Chain
      /\ \E j \in Chain, on \in {1, 2} : /\ <<j, plan.c>> \in Accepts
                                          /\ hist' = Append(hist, Ev("transform", 0, 0, j, on, 0))
      /\ UNCHANGED plan
Complete == hist[Len(hist)].e = "transform" /\ (TwoStage /\ plan.k \in Chain => NTr = 2)
Fin == /\ Complete /\ WithExec
       /\ hist' = Append(hist, Ev("execute", 0, 0, 0, 1, 0)) /\ UNCHANGED plan
Next == X1 \/ T1 \/ T2 \/ Fin
Finished == (Complete /\ ~WithExec) \/ (hist[Len(hist)].e = "execute" /\ Len(hist) > 2)
Emit == IF Finished THEN PrintT(ToJson([hist |-> hist])) ELSE TRUE
=============================================================================
