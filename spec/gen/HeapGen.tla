------------------------------- MODULE HeapGen -------------------------------
(***************************************************************************)
(* Generator of C18 histories over the live registry of transforms.        *)
(* A history is   Create(c, i); Execute(1); Transform_k(1);                *)
(*                [Transform_j(2) | Transform_j(1)]; Execute(1)            *)
(* c = circuit family, i = instance, k / j = transform numbers.  Accepts   *)
(* is the acceptance relation (transform, family) observed on the code;    *)
(* Chain the transforms used as second stage.  TLC enumerates every        *)
(* history of the requested shapes and emits it; the abstract objects are  *)
(* immutable by construction (Heap.tla), which is what the recorded trace  *)
(* of the real run is then checked against.                                *)
(***************************************************************************)
EXTENDS Integers, Sequences, FiniteSets, TLC, Json
CONSTANTS NFam, NInst, Accepts, First, Chain, TwoStage
VARIABLES hist
Fam(h) == h[1].c
Init == \E c \in 1..NFam, i \in 1..NInst : hist = <<[e |-> "create", c |-> c, i |-> i, k |-> 0, on |-> 0], [e |-> "execute", c |-> 0, i |-> 0, k |-> 0, on |-> 1]>>
T1 == /\ Len(hist) = 2
      /\ \E k \in First : <<k, Fam(hist)>> \in Accepts /\ hist' = Append(hist, [e |-> "transform", c |-> 0, i |-> 0, k |-> k, on |-> 1])
\* second stage: on the first output of the first transform (on = 2) or again on the original (on = 1)
T2 == /\ Len(hist) = 3 /\ TwoStage /\ hist[3].k \in Chain
      /\ \E j \in Chain, on \in {1, 2} : /\ <<j, Fam(hist)>> \in Accepts
                                          /\ hist' = Append(hist, [e |-> "transform", c |-> 0, i |-> 0, k |-> j, on |-> on])
Fin == /\ Len(hist) \in {3, 4} /\ hist[Len(hist)].e = "transform"
       /\ (TwoStage /\ hist[3].k \in Chain => Len(hist) = 4)
       /\ hist' = Append(hist, [e |-> "execute", c |-> 0, i |-> 0, k |-> 0, on |-> 1])
Next == T1 \/ T2 \/ Fin
Emit == IF hist[Len(hist)].e = "execute" /\ Len(hist) > 2 THEN PrintT(ToJson([hist |-> hist])) ELSE TRUE
=============================================================================
