--------------------------- MODULE ResultShapeGen ----------------------------
(* Generator for C32 (REPLAY).  One behaviour per request: Init picks a request, Emit prints it together    *)
(* with the expected abstract shape trees computed by ResultShape; the invariant Laws checks the clauses    *)
(* of the property statement on the specification itself for every enumerated request.                      *)
(*   fam = "tape"  : one circuit (QNode call / a batch of one): every measurement list up to MaxMeas over   *)
(*                   the analytic / finite-shot alphabets x every shot list x every broadcast size          *)
(*   fam = "jac"   : one differentiable circuit + the shapes of the differentiated arguments                *)
(*   fam = "batch" : every sequence of 1..MaxBatch tapes over the tape alphabet BTapes                      *)
EXTENDS ResultShape, Json
CONSTANTS N,                                \* wires of the circuit (every circuit acts on all of them)
          AMeas, FMeas, MaxMeas,            \* measurement alphabets (analytic / finite shots), list length
          ShotLists, BSizes,                \* finite shot lists, broadcast sizes (0 = none)
          JMeas, JMaxMeas, JShotLists, JBSizes, JArgs,
          BTapes, MaxBatch
VARIABLES c, ph

SeqsUpTo(S, m) == UNION {[1..k -> S] : k \in 1..m}
Tape(sh, ms, b) == [shots |-> sh, meas |-> ms, b |-> b]
Case(fam, ts, args, wrap) == [fam |-> fam, tapes |-> ts, args |-> args, wrap |-> wrap]

TapeCases == {Case("tape", <<Tape(<<>>, ms, b)>>, <<>>, FALSE) : ms \in SeqsUpTo(AMeas, MaxMeas), b \in BSizes}
        \cup {Case("tape", <<Tape(sh, ms, b)>>, <<>>, FALSE) : sh \in ShotLists, ms \in SeqsUpTo(FMeas, MaxMeas), b \in BSizes}
JacCases == {Case("jac", <<Tape(sh, ms, b)>>, args, Len(args) > 1) :
                sh \in JShotLists, ms \in SeqsUpTo(JMeas, JMaxMeas), b \in JBSizes, args \in JArgs}
BatchCases == {Case("batch", ts, <<>>, FALSE) : ts \in SeqsUpTo(BTapes, MaxBatch)}

Init == ph = 0 /\ c \in TapeCases \cup JacCases \cup BatchCases

NoTree == A(<<>>)
Exp(cs) ==
  LET t == cs.tapes[1]  P == NumScalars(cs.args) IN
  CASE cs.fam = "tape"  -> [res |-> TapeTree(t, N), bres |-> BatchTree(cs.tapes, N), jq |-> NoTree, jt |-> NoTree, P |-> 0]
    [] cs.fam = "jac"   -> [res |-> TapeTree(t, N), bres |-> BatchTree(cs.tapes, N), jq |-> JacQNodeTree(t, N, cs.args, cs.wrap),
                            jt |-> JacTapeTree(t, N, P), P |-> P]
    [] cs.fam = "batch" -> [res |-> BatchTree(cs.tapes, N), bres |-> BatchTree(cs.tapes, N), jq |-> NoTree,
                            jt |-> IF \A i \in 1..Len(cs.tapes) : Differentiable(cs.tapes[i])
                                   THEN JacBatchTree(cs.tapes, N, [i \in 1..Len(cs.tapes) |-> 2]) ELSE NoTree,
                            P |-> IF \A i \in 1..Len(cs.tapes) : Differentiable(cs.tapes[i]) THEN 2 ELSE 0]

\* sq / bsq: the tolerated batch-size-1 variant of res / bres (drift, see ResultShape); equal to res / bres for most requests
Sq(cs) == [sq |-> IF cs.fam = "batch" THEN BatchTreeSq(cs.tapes, N) ELSE TapeTreeSq(cs.tapes[1], N), bsq |-> BatchTreeSq(cs.tapes, N)]
Emit == ph = 0 /\ ph' = 1 /\ c' = c /\ PrintT(ToJson([c |-> c, exp |-> Exp(c), drift |-> Sq(c)]))
Next == Emit

Laws == ph # 0 \/
  /\ \A i \in 1..Len(c.tapes) :
        LET t == c.tapes[i] IN
        /\ ValidTape(t, N) /\ LawWellFormed(t, N)
        /\ LawSingleUnwrapped(t, N) /\ LawMeasTuple(t, N) /\ LawShotTuple(t, N) /\ LawBroadcast(t, N)
  /\ (c.fam = "batch" => LawBatch(c.tapes, N))
  /\ (c.fam = "jac" => /\ Differentiable(c.tapes[1])
                       /\ LawJacQ(c.tapes[1], N, c.args, c.wrap) /\ LawJacQ(c.tapes[1], N, c.args, TRUE)
                       /\ LawJacT(c.tapes[1], N, NumScalars(c.args)))
=============================================================================
