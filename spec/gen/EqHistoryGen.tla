---------------------------- MODULE EqHistoryGen -----------------------------
(***************************************************************************)
(* C04  generator of object HISTORIES (REPLAY side of the equality check). *)
(*                                                                         *)
(* Operators and measurement processes are VALUES: hashing, copying and    *)
(* wire re-targeting never change an existing object; map_wires returns a  *)
(* new object whose data is the data of its argument with the wires        *)
(* relabelled; copy / deepcopy return a new object with identical data;    *)
(* hash is a function of the data only (no per-object history).            *)
(*                                                                         *)
(* The store is a sequence of objects that all derive from ONE base        *)
(* description on wire positions 1..k-1 (position k is fresh).  The value  *)
(* of an object is the relabelling f : 1..k -> 1..k  meaning "the wire at  *)
(* base position j is position f[j]".  Actions (one per public call):      *)
(*    hash(i)         store unchanged                                      *)
(*    copy(i)         append store[i]          (copy.copy)                 *)
(*    deepcopy(i)     append store[i]          (copy.deepcopy)             *)
(*    map(i, p)       append p o store[i]      (store[i].map_wires(p))     *)
(* Every history of length 1..MAXLEN is emitted with the EXPECTED value of *)
(* every object at its end (histories ending in hash are skipped: the      *)
(* final comparison hashes every object anyway).  The driver replays the   *)
(* calls on real objects and Trace_Equality decides, for every object,     *)
(* that it is equal / hash-equal to a fresh reconstruction from the        *)
(* expected data, and for objects with different expected data that an     *)
(* answer "equal" comes with the same exact linear map.                    *)
(***************************************************************************)
EXTENDS Naturals, Sequences, TLC, Json
CONSTANTS KMAX, MAXLEN, WITHDEEP
VARIABLES k, store, hist

IdMap(K) == [j \in 1..K |-> j]
SwapMap(K, a, b) == [j \in 1..K |-> IF j = a THEN b ELSE IF j = b THEN a ELSE j]
\* re-targetings: exchange two wires of the object (or move its only wire); move the first wire to the fresh position
MapsOf(K) == {SwapMap(K, 1, 2), SwapMap(K, 1, K)}
Compose(p, f) == [j \in DOMAIN f |-> p[f[j]]]
CopyKinds == IF WITHDEEP = 1 THEN {"copy", "deepcopy"} ELSE {"copy"}

Init == k \in 2..KMAX /\ store = <<IdMap(k)>> /\ hist = <<>>
Hash(i) == /\ store' = store
           /\ hist' = Append(hist, [op |-> "hash", i |-> i, p |-> IdMap(k)])
Copy(i, kind) == /\ store' = Append(store, store[i])
                 /\ hist' = Append(hist, [op |-> kind, i |-> i, p |-> IdMap(k)])
Map(i, p) == /\ store' = Append(store, Compose(p, store[i]))
             /\ hist' = Append(hist, [op |-> "map", i |-> i, p |-> p])
Next == /\ Len(hist) < MAXLEN
        /\ \E i \in 1..Len(store) : \/ Hash(i)
                                    \/ \E kind \in CopyKinds : Copy(i, kind)
                                    \/ \E p \in MapsOf(k) : Map(i, p)
        /\ UNCHANGED k

\* values are immutable and only grow: the prefix of the store never changes
Immutable == [][\A i \in 1..Len(store) : store'[i] = store[i]]_<<k, store, hist>>
\* an object's value is the composition of the maps on its derivation path: always a permutation of 1..k
TypeOK == \A i \in 1..Len(store) : {store[i][j] : j \in 1..k} = 1..k

Emit == IF Len(hist) >= 1 /\ hist[Len(hist)].op # "hash"
        THEN PrintT(ToJson([k |-> k, hist |-> hist, vals |-> store]))
        ELSE TRUE
=============================================================================
