----------------------------- MODULE BoseMapGen ------------------------------
(***************************************************************************)
(* C54 generator + self-check of the reference (REPLAY pattern).           *)
(* One behaviour per case; Emit decides the laws of the case ON THE        *)
(* REFERENCE (invariant Lawful: bad = "") and prints the expected values.  *)
(*  kind "law"   MQLaws (the field Q(sqrt2,sqrt3,sqrt5,sqrt7): sqrt(n)^2   *)
(*               = n, sqrt(a) sqrt(b) = sqrt(ab), ring laws on samples)    *)
(*               and, for every d in 2..DMAX, the truncated canonical      *)
(*               commutator [b, b^dagger] = diag(1, .., 1, -(d-1)) and     *)
(*               b^dagger b = diag(0, 1, .., d-1) on the dense matrices    *)
(*  kind "enc"   (mapping, d, nm): the encoding table - for every Fock     *)
(*               state the set of qubits that are 1 - and the block of     *)
(*               wires of every mode; law: the encoding is injective       *)
(*  kind "mat"   (d, nm, terms): EVERY bosonic word of length <= MaxLen    *)
(*               over nm modes (nm in Modes, d in Ds[nm]) and the          *)
(*               sentences of the JSON file EXTRA_FILE; emits the exact    *)
(*               operator column by column (sparse, entries in basis       *)
(*               order) and the adjoint terms; laws: the column-wise       *)
(*               definition equals the dense product of ladder matrices in *)
(*               word order (when d^nm <= DenseMax) and the operator of    *)
(*               the reversed-and-flipped word is the transpose            *)
(***************************************************************************)
EXTENDS BoseMap, Json, IOUtils, Sequences
CONSTANTS Modes,      \* set of mode counts for the exhaustive words, e.g. {1, 2}
          Ds,         \* function (sequence) nm |-> set of truncations used with nm modes
          MaxLen, DenseMax, DMAX, UseExtra,
          EncCases    \* set of <<map, d, nm>>
VARIABLES c, done, bad

RECURSIVE SortedSeq(_)
SortedSeq(S) == IF S = {} THEN <<>> ELSE LET m == CHOOSE x \in S : \A y \in S : x <= y IN <<m>> \o SortedSeq(S \ {m})

Letters(nm) == (1..nm) \X {0, 1}
BWords(nm, L) == UNION {[1..l -> Letters(nm)] : l \in 0..L}
WordCases == UNION {{[kind |-> "mat", d |-> d, nm |-> nm, ts |-> << [c |-> ROne, w |-> w] >>, map |-> ""] : d \in Ds[nm], w \in BWords(nm, MaxLen)} : nm \in Modes}
Extra == IF UseExtra THEN JsonDeserialize(IOEnv.EXTRA_FILE) ELSE <<>>
ExtraCases == {[kind |-> "mat", d |-> Extra[i].d, nm |-> Extra[i].nm, ts |-> Extra[i].ts, map |-> ""] : i \in DOMAIN Extra}
EncCs == {[kind |-> "enc", d |-> e[2], nm |-> e[3], ts |-> <<>>, map |-> e[1]] : e \in EncCases}
LawCs == {[kind |-> "law", d |-> 0, nm |-> 0, ts |-> <<>>, map |-> ""]}
Init == c \in LawCs \cup EncCs \cup WordCases \cup ExtraCases /\ done = FALSE /\ bad = ""

First(ls) == LET f == SelectSeq(ls, LAMBDA t : ~t[2]) IN IF Len(f) = 0 THEN "" ELSE f[1][1]

B0 == << <<1, 0>> >>
B1 == << <<1, 1>> >>
Diag(d, f(_)) == [i \in 1..d |-> [j \in 1..d |-> IF i = j THEN MQInt(f(i - 1)) ELSE MQZero]]
LadderLaws == \A d \in 2..DMAX :
   /\ MQMatAdd(DenseWord(B0 \o B1, d, 1), MQMatScale(<<-1, 1>>, DenseWord(B1 \o B0, d, 1)))
        = Diag(d, LAMBDA n : IF n = d - 1 THEN -(d - 1) ELSE 1)
   /\ DenseWord(B1 \o B0, d, 1) = Diag(d, LAMBDA n : n)
   /\ DenseWord(B0, d, 1) = MQMatT(DenseWord(B1, d, 1))
   /\ \A n \in 0..(d - 1), m \in 0..(d - 1) : LadderEntry(0, m, n) = IF m = n - 1 THEN MQSqrt(n) ELSE MQZero

ColJson(v, d, nm) == LET idx == SortedSeq({FockIdx(s, d) : s \in DOMAIN v}) IN
   [k \in 1..Len(idx) |-> [r |-> idx[k], v |-> MQJson(v[FockOf(idx[k], d, nm)])]]
MatResult == LET D == FockDim(c.d, c.nm) IN
   MQBind(TLCEval([i \in 1..D |-> Column(c.ts, FockOf(i, c.d, c.nm), c.d)]), LAMBDA cols :
   [bad |-> First(<< <<"dense-product-differs", D > DenseMax \/ DenseAgrees(c.ts, c.d, c.nm)>>,
                     <<"adjoint-not-transpose", AdjAgrees(c.ts, c.d, c.nm)>> >>),
    out |-> [kind |-> "mat", d |-> c.d, nm |-> c.nm, ts |-> c.ts, adj |-> BAdjTerms(c.ts), dim |-> D,
             states |-> [i \in 1..D |-> FockOf(i, c.d, c.nm)],
             cols |-> [i \in 1..D |-> ColJson(cols[i], c.d, c.nm)]]])
EncResult == LET D == FockDim(c.d, c.nm) IN
   [bad |-> First(<< <<"mapping-undefined", MapDefined(c.map, c.d)>>, <<"encoding-not-injective", EncInjective(c.map, c.d, c.nm)>> >>),
    out |-> [kind |-> "enc", map |-> c.map, d |-> c.d, nm |-> c.nm, nq |-> c.nm * QubitsPerMode(c.map, c.d),
             ones |-> [i \in 1..D |-> SortedSeq(EncState(c.map, c.d, FockOf(i, c.d, c.nm)))],
             blocks |-> [j \in 1..c.nm |-> SortedSeq(Block(c.map, c.d, j))]]]
LawResult == [bad |-> First(<< <<"multiquad-laws", MQLaws(DMAX + 2)>>, <<"ladder-laws", LadderLaws>> >>), out |-> [kind |-> "law"]]
Result == CASE c.kind = "law" -> LawResult [] c.kind = "enc" -> EncResult [] c.kind = "mat" -> MatResult
Emit == /\ ~done /\ done' = TRUE /\ c' = c
        /\ \E res \in {Result} : bad' = res.bad /\ PrintT(ToJson(res.out))
Next == Emit
Lawful == bad = ""
=============================================================================
