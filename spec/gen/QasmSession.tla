----------------------------- MODULE QasmSession -----------------------------
(***************************************************************************)
(* C67 (import direction, HISTORIES): a session of qp.from_qasm3 calls in   *)
(* one process.                                                            *)
(*                                                                         *)
(*   Import(p, m)  h := from_qasm3(text of program p, wire_map m)          *)
(*   Call(h)       the tape recorded by running the quantum function h     *)
(*                                                                         *)
(* Programs are abstract ids 1..NP (the harness binds them to programs of  *)
(* QasmGen.tla over NQ qubits, each rendered to ONE fixed text); a wire    *)
(* map places the NQ program qubits injectively on the NW wires of one     *)
(* shared register (all maps have the same keys - the qubit names - and    *)
(* differ in their values); <<>> is "no wire_map".                         *)
(*                                                                         *)
(* The law ("circuits imported with from_qasm3 match the semantics of      *)
(* their source program"): what Call(h) records denotes program p placed   *)
(* by m, where (p, m) are the arguments of THE Import that returned h -    *)
(* whatever was imported or called before or in between.  The model keeps  *)
(* the handle table; every Call entry of the emitted log carries the       *)
(* expected (p, m); Trace_Qasm.tla then decides, per Call, that the        *)
(* recorded tape equals the denotation of p with its qubits placed by m.   *)
(* Choices are made in sub-steps (operation, then arguments) so that       *)
(* -simulate interleaves imports and calls evenly.                         *)
(***************************************************************************)
EXTENDS Naturals, Sequences, FiniteSets, Json, TLC
CONSTANTS NP,        \* programs in the pool of one session
          NQ,        \* qubits of every program
          NW,        \* wires of the shared register
          MaxImp,    \* Import calls per session
          MaxSteps   \* Import + Call steps per session
VARIABLES hs, log, st

QsMaps == {<<>>} \cup {m \in [1..NQ -> 1..NW] : \A i \in 1..NQ : \A j \in 1..NQ : i # j => m[i] # m[j]}
QsCalled == {log[i].h : i \in {j \in 1..Len(log) : log[j].op = "call"}}

Init == hs = <<>> /\ log = <<>> /\ st = "op"
PickOp == /\ st = "op" /\ Len(log) < MaxSteps
          /\ \/ Len(hs) < MaxImp /\ st' = "import"
             \/ Len(hs) > 0 /\ st' = "call"
          /\ UNCHANGED <<hs, log>>
Import == /\ st = "import"
          /\ \E p \in 1..NP : \E m \in QsMaps :
                /\ hs' = Append(hs, [p |-> p, m |-> m])
                /\ log' = Append(log, [op |-> "import", h |-> Len(hs) + 1, p |-> p, m |-> m])
          /\ st' = "op"
Call == /\ st = "call"
        /\ \E h \in 1..Len(hs) : log' = Append(log, [op |-> "call", h |-> h, p |-> hs[h].p, m |-> hs[h].m])
        /\ st' = "op" /\ UNCHANGED hs
\* a session ends with one call of every handle that was never called
RECURSIVE QsTail(_, _)
QsTail(l, h) == IF h > Len(hs) THEN l
                ELSE QsTail(IF h \in QsCalled THEN l ELSE Append(l, [op |-> "call", h |-> h, p |-> hs[h].p, m |-> hs[h].m]), h + 1)
Finish == /\ st = "op" /\ Len(log) >= MaxSteps
          /\ PrintT(ToJson([nq |-> NQ, nw |-> NW, log |-> QsTail(log, 1)]))
          /\ st' = "done" /\ UNCHANGED <<hs, log>>
Next == PickOp \/ Import \/ Call \/ Finish

\* history-freedom of the model itself: a Call entry carries exactly the arguments of the Import that made its handle
WellFormed ==
  /\ Len(hs) <= MaxImp
  /\ \A i \in 1..Len(log) :
       /\ log[i].op = "call" => \E j \in 1..(i - 1) : /\ log[j].op = "import" /\ log[j].h = log[i].h
                                                     /\ log[j].p = log[i].p /\ log[j].m = log[i].m
       /\ log[i].op = "import" => log[i].h = Cardinality({j \in 1..i : log[j].op = "import"})
       /\ log[i].m \in QsMaps /\ log[i].p \in 1..NP
\* the interesting class: the same program imported again under another placement
Reimport == \E i \in 1..Len(log) : \E j \in 1..(i - 1) :
               log[i].op = "import" /\ log[j].op = "import" /\ log[i].p = log[j].p /\ log[i].m # log[j].m
=============================================================================
