---------------------------- MODULE FiniteDiffGen ----------------------------
(***************************************************************************)
(* C36 generator / model check.  One behaviour per (n, a, strategy) with   *)
(* n <= MaxN, a <= MaxA, n + a <= MaxR: starting from the smallest stencil of the         *)
(* strategy's family, the moment system (n + a conditions) is reduced by   *)
(* Gauss-Jordan elimination over the rationals, one pivot per TLC step; an *)
(* inconsistent system moves on to the next stencil size.  For the first   *)
(* solvable stencil TLC checks that the solution is unique, satisfies the  *)
(* declarative moment conditions (and, for small systems, differentiates   *)
(* every 0/1-coefficient polynomial of degree < n + a exactly), that a     *)
(* centered rule is (anti)symmetric, and emits the rule for REPLAY.        *)
(***************************************************************************)
EXTENDS FiniteDiff, Json
CONSTANTS MaxN, MaxA, MaxR, PolyMaxR
VARIABLES n, a, st, M, e, phase
vars == <<n, a, st, M, e, phase>>
R == n + a
\* centered rules are symmetric, hence of even accuracy: odd a is not a centered rule (the implementation refuses it)
Supported(nn, aa, s) == s # "center" \/ aa % 2 = 0
Init == /\ n \in 1..MaxN /\ a \in 1..MaxA /\ n + a <= MaxR /\ st \in Strategies /\ Supported(n, a, st)
        /\ M = FirstSize(st) /\ e = SysInit(n, n + a, st, M) /\ phase = "elim"
Step == /\ phase = "elim" /\ ElimDone(e, R, M) = FALSE
        /\ e' = ElimStep(e, R, M) /\ UNCHANGED <<n, a, st, M, phase>>
Solved == Consistent(e, R, M) /\ Unique(e, M)
Grow == /\ phase = "elim" /\ ElimDone(e, R, M) = TRUE /\ ~Solved
        /\ IF NextSize(st, M) <= R + 1
           THEN /\ M' = NextSize(st, M) /\ e' = SysInit(n, R, st, NextSize(st, M)) /\ UNCHANGED phase
           ELSE /\ phase' = "nosolution" /\ UNCHANGED <<M, e>>
        /\ UNCHANGED <<n, a, st>>
Emit == /\ phase = "elim" /\ ElimDone(e, R, M) = TRUE /\ Solved
        /\ phase' = "done" /\ UNCHANGED <<n, a, st, M, e>>
        /\ PrintT(ToJson([n |-> n, a |-> a, st |-> st, M |-> M, shifts |-> Stencil(st, M), coeffs |-> Solution(e, M)]))
Next == Step \/ Grow \/ Emit

Sol == Solution(e, M)
RShifts == [k \in 1..M |-> RInt(Stencil(st, M)[k])]
\* every supported combination has a rule in its family with at most n + a + 1 points
Solvable == phase # "nosolution"
\* (S) satisfies (D)
MomentsOK == phase = "done" => MomentsHold(Sol, RShifts, n, R)
\* ... and no further condition by accident beyond what symmetry gives: the rule is not exact for degree R + 1 (centered: R + 2)
Sharp == phase = "done" => ~MomentsHold(Sol, RShifts, n, R + 2)
PolyOK == (phase = "done" /\ R <= PolyMaxR) => PolyExact(Sol, Stencil(st, M), n, R)
\* the stencil is no larger than the number of conditions, so the solution of the R conditions is the only rule on it
Minimal == phase = "done" => M <= R
CenterSymmetric == (phase = "done" /\ st = "center") =>
  \A k \in 1..M : Sol[k] = (IF n % 2 = 0 THEN Sol[M + 1 - k] ELSE RNeg(Sol[M + 1 - k]))
=============================================================================
