------------------------------ MODULE ArithGen -------------------------------
(***************************************************************************)
(* Generator for C56 (REPLAY).  The configurations (template, constants,   *)
(* modulus, polynomial, register sizes, wire layout) are read from         *)
(* IOEnv.CFG_FILE; one behaviour per configuration.  TLC checks that the   *)
(* configuration is inside the documented preconditions and that the       *)
(* documented function is well formed on its whole domain (fits, is        *)
(* injective, restores the work register), then tabulates EVERY basis      *)
(* input of the documented domain together with the expected basis output  *)
(* (indices of computational basis states on wires 0..N-1) and emits it.   *)
(***************************************************************************)
EXTENDS Arith, Json, IOUtils, SequencesExt
CONSTANT NCONFIGS
Configs == JsonDeserialize(IOEnv.CFG_FILE)
VARIABLES cid, done
Init == cid \in 1..NCONFIGS /\ done = FALSE
C == Configs[cid]
Emit == /\ ~done /\ done' = TRUE /\ cid' = cid
        /\ LET T == TLCEval(Table(C))
               tab == SetToSortSeq(T, LAMBDA a, b : a[1] < b[1])
           IN PrintT(ToJson([cid |-> cid, pre |-> Pre(C), n |-> Cardinality(T), tab |-> tab]))
Next == Emit
PreOK == Pre(Configs[cid])
FitsOK == Pre(Configs[cid]) => Fits(Configs[cid])
InjectiveOK == Pre(Configs[cid]) => Injective(Configs[cid])
WorkRestoredOK == Pre(Configs[cid]) => WorkRestored(Configs[cid])
EncOK == Pre(Configs[cid]) => EncInjective(Configs[cid])
=============================================================================
