------------------------------ MODULE ArithGen -------------------------------
(***************************************************************************)
(* Generator for C56 (REPLAY).  The configurations (template, constants,   *)
(* modulus, polynomial, register sizes, wire layout) are read from         *)
(* IOEnv.CFG_FILE; one behaviour per configuration.  TLC checks that the   *)
(* configuration is inside the documented preconditions and that the       *)
(* documented function is well formed on its whole domain (fits, is        *)
(* injective, restores the work register), then tabulates EVERY basis      *)
(* input of the documented domain together with the expected basis output  *)
(* (indices of computational basis states on wires 0..N-1) and emits it.   *)
(* The work is done in the action (explored in parallel); the invariants   *)
(* read the recorded results.                                              *)
(***************************************************************************)
EXTENDS Arith, Json, IOUtils, SequencesExt
CONSTANT NCONFIGS
Configs == JsonDeserialize(IOEnv.CFG_FILE)
VARIABLES cid, done, chk
AllTrue == [pre |-> TRUE, fits |-> TRUE, inj |-> TRUE, work |-> TRUE, enc |-> TRUE]
Init == cid \in 1..NCONFIGS /\ done = FALSE /\ chk = AllTrue
Emit == /\ ~done /\ done' = TRUE /\ cid' = cid
        /\ LET c == Configs[cid]
               pre == Pre(c)
               ft == TLCEval(IF pre THEN FTable(c) ELSE <<>>)
               T == TLCEval(TableT(c, ft))
               tab == SetToSortSeq(T, LAMBDA a, b : a[1] < b[1])
           IN /\ chk' = [pre |-> pre, fits |-> FitsT(c, ft), inj |-> InjectiveT(ft), work |-> WorkRestoredT(c, ft),
                         enc |-> EncInjectiveT(c, ft)]
              /\ PrintT(ToJson([cid |-> cid, pre |-> pre, n |-> Cardinality(T), tab |-> tab]))
Next == Emit
PreOK == chk.pre
FitsOK == chk.fits
InjectiveOK == chk.inj
WorkRestoredOK == chk.work
EncOK == chk.enc
=============================================================================
