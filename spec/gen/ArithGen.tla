------------------------------ MODULE ArithGen -------------------------------
(***************************************************************************)
(* Generator for C56 (REPLAY) + exhaustive sweep of the documented model.  *)
(*                                                                         *)
(* (1) The configurations to replay (template, constants, modulus,         *)
(* polynomial, register sizes, wire layout) are read from IOEnv.CFG_FILE;  *)
(* one behaviour per configuration.  TLC checks that the configuration is  *)
(* inside the documented preconditions and that the documented function is *)
(* well formed on its whole domain (fits, is injective, restores the work  *)
(* register), then tabulates EVERY basis input of the documented domain    *)
(* together with the expected basis output (indices of computational basis *)
(* states on wires 0..N-1) and emits it.                                   *)
(* (2) Sweep: ALL parameter choices of the modular / signed templates with *)
(* registers up to MAXB bits that satisfy the documented preconditions     *)
(* (every modulus, every constant) get the same well-formedness checks     *)
(* (not emitted): the documentation is consistent - under its own          *)
(* preconditions every template is a bijection of its documented domain.   *)
(* The work is done in the action (explored in parallel); the invariants   *)
(* read the recorded results.                                              *)
(***************************************************************************)
EXTENDS Arith, Json, IOUtils, SequencesExt
CONSTANTS NCONFIGS, MAXB
Configs == JsonDeserialize(IOEnv.CFG_FILE)

IdLay(s) == [r \in 1..Len(s) |-> [i \in 1..s[r] |-> SumSeq(SubSeq(s, 1, r - 1)) + i - 1]]
Mk(t, s, wk, k, mod, flag) == [t |-> t, k |-> k, mod |-> mod, flag |-> flag, cv |-> <<1, 1>>, poly |-> <<>>, nc |-> 0,
                               wk |-> wk, lay |-> IdLay(s), N |-> SumSeq(s)]
B == 1..MAXB
Mods == 2..(2^MAXB)
Ks == 0..(2^MAXB + 1)
WW(n, m, a, b) == IF m = 2^n THEN a ELSE b          \* documented work-wire count: a for mod = 2^n, b otherwise
Sweep == {c \in
     {Mk("Adder", <<n, 2>>, 2, k, m, 0) : n \in B, m \in Mods, k \in Ks}
\cup {Mk("PhaseAdder", <<n, 1>>, 2, k, m, 0) : n \in B, m \in Mods, k \in Ks}
\cup {Mk("Multiplier", <<n, WW(n, m, n, n + 2)>>, 2, k, m, 0) : n \in B, m \in Mods, k \in Ks}
\cup {Mk("ModExp", <<nx, no, WW(no, m, no, no + 2)>>, 3, k, m, 0) : nx \in 1..2, no \in B, m \in Mods, k \in Ks}
\cup {Mk("OutAdder", <<nx, ny, no, 2>>, 4, 0, m, 0) : nx \in 1..2, ny \in 1..2, no \in B, m \in Mods}
\cup {Mk("OutMultiplier", <<nx, ny, no, 2>>, 4, 0, m, f) : nx \in 1..2, ny \in 1..2, no \in B, m \in Mods, f \in 0..1}
\cup {Mk("SignedOutMultiplier", <<nx, ny, no, 2 * no + 1>>, 4, 0, 0, f) : nx \in 1..2, ny \in 1..2, no \in B, f \in 0..1}
\cup {Mk("OutSquare", <<n, m, m>>, 3, 0, 0, f) : n \in B, m \in B, f \in 0..1}
\cup {Mk("SignedOutSquare", <<n, m, m>>, 3, 0, 0, f) : n \in B, m \in B, f \in 0..1}
\cup {Mk("IntegerComparator", <<n, 1, 0>>, 3, k, 0, f) : n \in B, k \in Ks, f \in 0..1}
   : Pre(c)}
SweepSeq == SetToSeq(Sweep)
NSweep == Len(SweepSeq)
ASSUME PrintT(<<"SWEEP", NSweep>>)

VARIABLES cid, done, chk
AllTrue == [pre |-> TRUE, fits |-> TRUE, inj |-> TRUE, work |-> TRUE, enc |-> TRUE]
Init == cid \in 1..(NCONFIGS + NSweep) /\ done = FALSE /\ chk = AllTrue
Emit == /\ ~done /\ done' = TRUE /\ cid' = cid
        /\ LET c == IF cid <= NCONFIGS THEN Configs[cid] ELSE SweepSeq[cid - NCONFIGS]
               pre == Pre(c)
               ft == TLCEval(IF pre THEN FTable(c) ELSE <<>>)
           IN /\ chk' = [pre |-> pre, fits |-> FitsT(c, ft), inj |-> InjectiveT(ft), work |-> WorkRestoredT(c, ft),
                         enc |-> EncInjectiveT(c, ft)]
              /\ IF cid <= NCONFIGS
                 THEN LET T == TLCEval(TableT(c, ft))
                          tab == SetToSortSeq(T, LAMBDA a, b : a[1] < b[1])
                      IN PrintT(ToJson([cid |-> cid, pre |-> pre, n |-> Cardinality(T), tab |-> tab]))
                 ELSE TRUE
Next == Emit
PreOK == chk.pre
FitsOK == chk.fits
InjectiveOK == chk.inj
WorkRestoredOK == chk.work
EncOK == chk.enc
=============================================================================
