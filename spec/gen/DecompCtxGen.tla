---------------------------- MODULE DecompCtxGen -----------------------------
(* Generator for C66: explores DecompCtx (exhaustively, or by seeded random simulation) and emits every maximal  *)
(* history (interleaving of the threads' context / add / fix operations) as JSON.  Histories are canonical up to *)
(* renaming of threads and operators: thread t+1 never acts before thread t has, operator o+1 is never used      *)
(* before operator o.                                                                                            *)
EXTENDS DecompCtx, Json
FirstT(t) == {i \in 1..Len(hist) : hist[i].t = t}
FirstO(o) == {i \in 1..Len(hist) : hist[i].o = o}
Min(S) == CHOOSE x \in S : \A y \in S : x <= y
Canon == /\ \A t \in 2..NThreads : FirstT(t) # {} => (FirstT(t-1) # {} /\ Min(FirstT(t-1)) < Min(FirstT(t)))
         /\ \A o \in 2..NOps : FirstO(o) # {} => (FirstO(o-1) # {} /\ Min(FirstO(o-1)) < Min(FirstO(o)))
Done == /\ Len(hist) = MaxEvents
        /\ PrintT(ToJson([hist |-> hist]))
        /\ hist' = Append(hist, [e |-> "end", t |-> 0, o |-> 0, k |-> 0, r |-> 0])
        /\ UNCHANGED <<glob, stack, origin, kind, opOf, ctxT, nops>>
GenNext == Next \/ Done
=============================================================================
