------------------------------ MODULE OpHeapGen ------------------------------
(***************************************************************************)
(* Generator for C06: explores OpHeap exhaustively (rebind always installs *)
(* one of the two parameter sets "v0" / "v1" of an instance in every       *)
(* parameter cell) and emits every history of MaxSteps actions in which an *)
(* in-place write, if any, is the last action.  A step is                  *)
(*   [act, src, arg]   arg = parameter set for rebind ("v0"/"v1"),         *)
(*                     "p" / "h" for mutate (parameter array / container). *)
(* The driver replays each emitted history on real objects.                *)
(***************************************************************************)
EXTENDS OpHeap, Json
Step(e) == [act |-> e.act, src |-> e.src,
            arg |-> IF e.act = "rebind" THEN e.newp[1]
                    ELSE IF e.act = "mutate" THEN (IF e.mc \in SeqToSet(nodes[e.src].pc) THEN "p" ELSE "h")
                    ELSE ""]
MutLastOnly == \A j \in 1..(Len(hist) - 1) : hist[j].act # "mutate"
\* CONSTRAINT: evaluated once per distinct state; histories with an early write are not extended
Emit == /\ MutLastOnly
        /\ (Len(hist) = MaxSteps => PrintT(ToJson([h |-> [j \in 1..Len(hist) |-> Step(hist[j])]])))
=============================================================================
