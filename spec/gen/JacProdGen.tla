------------------------------ MODULE JacProdGen ------------------------------
(***************************************************************************)
(* C39 generator (REPLAY) and model check.  One behaviour per case:        *)
(* a shape (measurement sizes, parameter sizes, shot-vector copies) from   *)
(* Shapes, a Jacobian filling js from JSalts (0 = the zero Jacobian,       *)
(* otherwise a dense pseudo-random integer tensor) and a case number n     *)
(* that selects the cotangent dy and the tangent t:                        *)
(*   0: all zero;  1..N: every unit tensor;  then dense ones and partially *)
(*   zero ones (only the first measurement / only the last measurement of  *)
(*   the last copy; only the last parameter).                              *)
(* Emit computes VJP and JVP by the explicit contractions of JacProd.tla   *)
(* and prints the case for the driver; lawok records the laws of the       *)
(* specification: <dy, J t> = <dy J, t>; zero in, zero out; a unit         *)
(* cotangent / tangent selects the corresponding row / column of J.        *)
(***************************************************************************)
EXTENDS JacProd, Json
CONSTANTS Shapes, JSalts
VARIABLES sh, js, n, res, lawok, ph
vars == <<sh, js, n, res, lawok, ph>>

G(u, s) == ((u * (2 * s + 5) + s * 7 + u * u * 3) % 19) - 9          \* pseudo-random entry in -9..9
MkJ(s, x) == [c \in 1..NCop(s) |-> [m \in 1..NM(s) |-> [p \in 1..NP(s) |-> [i \in 1..Sz(s.meas[m]) |-> [l \in 1..Sz(s.pars[p]) |->
                IF x = 0 THEN 0 ELSE G(FlatOut(s, c, m, i) * 17 + FlatPar(s, p, l) * 5, x)]]]]]
MkDy(s, d) == LET N == NOut(s) IN
  [c \in 1..NCop(s) |-> [m \in 1..NM(s) |-> [i \in 1..Sz(s.meas[m]) |->
     LET u == FlatOut(s, c, m, i) IN
     CASE d = 0 -> 0
       [] d >= 1 /\ d <= N -> IF u = d THEN 1 ELSE 0
       [] d = N + 1 -> G(u, 21)
       [] d = N + 2 -> 2 * G(u, 22) + 1
       [] d = N + 3 -> IF m = 1 THEN G(u, 23) + 10 ELSE 0
       [] d = N + 4 -> IF c = NCop(s) /\ m = NM(s) THEN G(u, 24) + 10 ELSE 0]]]
MkT(s, e) == LET N == NPar(s) IN
  [p \in 1..NP(s) |-> [l \in 1..Sz(s.pars[p]) |->
     LET u == FlatPar(s, p, l) IN
     CASE e = 0 -> 0
       [] e >= 1 /\ e <= N -> IF u = e THEN 1 ELSE 0
       [] e = N + 1 -> G(u, 31)
       [] e = N + 2 -> 2 * G(u, 32) + 1
       [] e = N + 3 -> IF p = NP(s) THEN G(u, 33) + 10 ELSE 0]]
NDy(s) == NOut(s) + 5
NT(s) == NPar(s) + 4
MaxCase(s) == (IF NDy(s) > NT(s) THEN NDy(s) ELSE NT(s)) - 1

Init == sh \in Shapes /\ js \in JSalts /\ n = 0 /\ res = <<>> /\ lawok = TRUE /\ ph = 0
Pick == ph = 0 /\ ph' = 1 /\ n' \in 0..MaxCase(sh) /\ UNCHANGED <<sh, js, res, lawok>>

UnitRowLaw(s, J, d, v) ==      \* dy = unit tensor number d: the VJP is that row of J
  \A c \in 1..NCop(s), m \in 1..NM(s) : \A i \in 1..Sz(s.meas[m]) :
     FlatOut(s, c, m, i) = d => \A p \in 1..NP(s) : \A l \in 1..Sz(s.pars[p]) : v[p][l] = J[c][m][p][i][l]
UnitColLaw(s, J, e, jv) ==     \* t = unit tensor number e: the JVP is that column of J
  \A p \in 1..NP(s) : \A l \in 1..Sz(s.pars[p]) :
     FlatPar(s, p, l) = e => \A c \in 1..NCop(s), m \in 1..NM(s) : \A i \in 1..Sz(s.meas[m]) : jv[c][m][i] = J[c][m][p][i][l]

Emit == /\ ph = 1 /\ ph' = 2 /\ UNCHANGED <<sh, js, n>>
        /\ LET d == n % NDy(sh)  e == n % NT(sh)
               J == TLCEval(MkJ(sh, js))  dy == TLCEval(MkDy(sh, d))  t == TLCEval(MkT(sh, e)) IN
           /\ res' = [d |-> d, e |-> e, J |-> J, dy |-> dy, t |-> t, vjp |-> TLCEval(VJP(sh, J, dy)), jvp |-> TLCEval(JVP(sh, J, t))]
           /\ lawok' = /\ Adjoint(sh, J, dy, t, res'.vjp, res'.jvp)
                       /\ (d = 0 \/ js = 0 => res'.vjp = ZeroPar(sh))
                       /\ (e = 0 \/ js = 0 => res'.jvp = ZeroOut(sh))
                       /\ (d >= 1 /\ d <= NOut(sh) => UnitRowLaw(sh, J, d, res'.vjp))
                       /\ (e >= 1 /\ e <= NPar(sh) => UnitColLaw(sh, J, e, res'.jvp))
        /\ PrintT(ToJson([sh |-> sh, js |-> js, n |-> n, c |-> res']))
Next == Pick \/ Emit
SpecLaws == lawok
=============================================================================
