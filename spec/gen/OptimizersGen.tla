---------------------------- MODULE OptimizersGen ----------------------------
(***************************************************************************)
(* C61 generator / model check.  Explores every history of <= MaxSteps     *)
(* public calls (step / step_and_cost / step_and_cost with grad_fn / reset)*)
(* from the alphabet Calls for every configuration, emits each maximal     *)
(* history with the values the documented rules give (REPLAY; compact form *)
(* <<call id, x, cost, acc, sm, t, cost at the gradient point>> per call,  *)
(* configurations and calls carry an `id`), and checks                     *)
(* on the model the closed forms of the accumulator recurrences:           *)
(*   momentum: a(T) = sum_k m^(T-k) eta g_k      adagrad: a(T) = sum g_k^2 *)
(*   rmsprop:  a(T) = sum_k gamma^(T-k) (1-gamma) g_k^2                    *)
(*   adam: fm, sm likewise, t = T                gd: x(T) = x(0) - eta sum *)
(*   momentum_qng: the documented two-point form equals the accumulator    *)
(*   form  x(T) - x(T-1) = - sum_k rho^(T-k) eta u_k                       *)
(* over the gradients gh since the last reset, that non-trainable          *)
(* arguments never move and that all rational values are dyadic (so that   *)
(* float64 arithmetic on them is exact).                                   *)
(***************************************************************************)
EXTENDS Optimizers, Json
CONSTANTS Configs, Calls, MaxSteps
VARIABLES c, st, hist, gh, uh
vars == <<c, st, hist, gh, uh>>

Init == /\ c \in Configs /\ st = Init0(c) /\ hist = <<>> /\ gh = <<>> /\ uh = <<>>

Outcome(call) == IF Applicable(c, call) /\ Small(c, st) THEN Do(c, st, call) ELSE Fail(c, st, "skip")
Next == /\ Len(hist) < MaxSteps
        /\ \E call \in Calls : \E r \in {Outcome(call)} :
             /\ r.ok = "ok"
             /\ st' = r.st
             /\ gh' = IF call.k = "reset" THEN <<>> ELSE Append(gh, r.g)
             /\ uh' = IF call.k = "reset" THEN <<>> ELSE Append(uh, r.u)
             /\ hist' = Append(hist, [call |-> call, k |-> call.id, x |-> XOut(r.st.x), cost |-> AlgOut(r.cost),
                                      acc |-> IF c.kind \in {"gd", "qng", "momentum_qng"} THEN <<>> ELSE r.st.acc,
                                      sm |-> IF c.kind = "adam" THEN r.st.sm ELSE <<>>, t |-> r.st.t, shc |-> r.shc])
             /\ UNCHANGED c

\* a history ends at MaxSteps or where the range guard stops it (the alphabet always contains a linear objective with
\* non-zero coefficients, which every state admits)
Maximal == Len(hist) = MaxSteps \/ ~Small(c, st)
Emit == IF Maximal /\ Len(hist) > 0
        THEN PrintT(ToJson([c |-> c.id, h |-> [j \in 1..Len(hist) |->
                              <<hist[j].k, hist[j].x, hist[j].cost, hist[j].acc, hist[j].sm, hist[j].t, hist[j].shc>>]]))
        ELSE TRUE

(* ------------------------------------------------------------ invariants of the model *)
T == Len(gh)
Tr(i) == c.train[i]
Elems == {<<i, e>> : i \in {j \in 1..NArgs(c) : c.train[j]}, e \in 1..c.D}
\* sum_k w^(T-k) * h(k)
Weighted(w, h(_)) == RSumN([k \in 1..T |-> RMul(RPow(w, T - k), h(k))], T)

MomentumClosed == c.kind \in {"momentum", "nesterov"} =>
  \A ie \in Elems : st.acc[ie[1]][ie[2]] = Weighted(c.m, LAMBDA k : RMul(c.eta, gh[k][ie[1]][ie[2]]))
AdagradClosed == c.kind = "adagrad" =>
  \A ie \in Elems : st.acc[ie[1]][ie[2]] = RSumN([k \in 1..T |-> RSq(gh[k][ie[1]][ie[2]])], T)
RmsClosed == c.kind = "rmsprop" =>
  \A ie \in Elems : st.acc[ie[1]][ie[2]] = Weighted(c.m, LAMBDA k : RMul(RSub(ROne, c.m), RSq(gh[k][ie[1]][ie[2]])))
AdamClosed == c.kind = "adam" =>
  /\ st.t = T
  /\ \A ie \in Elems : /\ st.acc[ie[1]][ie[2]] = Weighted(c.m, LAMBDA k : RMul(RSub(ROne, c.m), gh[k][ie[1]][ie[2]]))
                       /\ st.sm[ie[1]][ie[2]] = Weighted(c.b2, LAMBDA k : RMul(RSub(ROne, c.b2), RSq(gh[k][ie[1]][ie[2]])))
GDClosed == c.kind = "gd" =>
  \A ie \in Elems : st.x[ie[1]][ie[2]] = ARat(RSub(c.x0[ie[1]][ie[2]], RMul(c.eta, RSumN([k \in 1..T |-> gh[k][ie[1]][ie[2]]], T))))
MqngForms == c.kind = "momentum_qng" =>
  \A ie \in Elems : RSub(st.x[ie[1]][ie[2]].r, st.xprev[ie[1]][ie[2]].r)
                    = RNeg(Weighted(c.m, LAMBDA k : RMul(c.eta, uh[k][ie[1]][ie[2]])))
Frozen == \A i \in 1..NArgs(c) : ~c.train[i] => \A e \in 1..c.D : st.x[i][e] = ARat(c.x0[i][e])
Dyadic == c.kind \in {"gd", "momentum", "nesterov"} =>
  \A i \in 1..NArgs(c) : \A e \in 1..c.D : IsPow2(st.x[i][e].r[2]) /\ IsPow2(st.acc[i][e][2])
\* under linear objectives the gradients are the integer coefficients: the adaptive accumulators stay dyadic whatever x does
AdaptiveDyadic == (c.kind \in {"adagrad", "rmsprop", "adam"} /\ \A k \in 1..Len(hist) : Linear(hist[k].call.o)) =>
  \A i \in 1..NArgs(c) : \A e \in 1..c.D : IsPow2(st.acc[i][e][2]) /\ IsPow2(st.sm[i][e][2])
\* the first adaptive step moves every coordinate by exactly eta against the sign of its gradient
\* (adagrad / rmsprop with decay 0 / adam, eps = 0): x(1) = x(0) - eta sign(g)
Sign(q) == IF q[1] > 0 THEN 1 ELSE IF q[1] < 0 THEN -1 ELSE 0
FirstAdaptiveStep ==
  (T = 1 /\ Len(hist) = 1 /\ RIsZero(c.eps) /\ (c.kind \in {"adagrad", "adam"} \/ (c.kind = "rmsprop" /\ RIsZero(c.m)))) =>
  \A ie \in Elems : st.x[ie[1]][ie[2]] = ARat(RSub(c.x0[ie[1]][ie[2]], RMul(c.eta, RInt(Sign(gh[1][ie[1]][ie[2]])))))
=============================================================================
