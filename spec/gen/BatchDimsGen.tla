---------------------------- MODULE BatchDimsGen -----------------------------
(***************************************************************************)
(* C20 (REPLAY): which parameter sets batch_params / batch_input accept,   *)
(* and what the produced batch is, written from their documentation:       *)
(*   the transformed parameters (the trainable ones / all of them with     *)
(*   all_operations=True / the ones named by argnum) all carry ONE leading *)
(*   batch dimension d; the batch has d tapes and tape b holds entry b of  *)
(*   every transformed parameter, every other parameter unchanged; the     *)
(*   post-processing stacks the d results in that order.                   *)
(* A parameter set with no transformed parameter, with a transformed       *)
(* parameter that has no batch dimension, or with transformed parameters   *)
(* whose leading dimensions differ (in ANY order: a later one shorter or   *)
(* LONGER than the first) has no defined result: it must be rejected.      *)
(*                                                                         *)
(* A call: dims[i] = leading dimension of tape parameter i (0 = scalar),   *)
(* sel = the transformed positions, tr = "params" (trainable = sel),       *)
(* "params_all" (all_operations=True) or "input" (argnum = sel).           *)
(* Parameter values are lattice angles Angle(i, b) (4*pi/16 units).        *)
(***************************************************************************)
EXTENDS Integers, Sequences, FiniteSets, TLC, Json
CONSTANTS Dims, MaxK, Seed
VARIABLES c, ph

Trs == {"params", "params_all", "input"}
Valid(x) == /\ (x.tr = "params_all" => x.sel = DOMAIN x.dims)
            /\ (x.tr # "params_all" => \A i \in DOMAIN x.dims \ x.sel : x.dims[i] = 0)
Cases == UNION {{x \in [dims : [1..k -> Dims], sel : SUBSET (1..k), tr : Trs] : Valid(x)} : k \in 1..MaxK}

Angle(i, b) == (Seed + 3 * i + 5 * b) % 16
Param(x, i) == IF x.dims[i] = 0 THEN <<Angle(i, 0)>> ELSE [b \in 1..x.dims[i] |-> Angle(i, b)]

Why(x) == IF x.sel = {} THEN "none-selected"
          ELSE IF \E i \in x.sel : x.dims[i] = 0 THEN "scalar-selected"
          ELSE IF \E i, j \in x.sel : x.dims[i] # x.dims[j] THEN "dims-differ"
          ELSE "accept"
BatchDim(x) == x.dims[CHOOSE i \in x.sel : TRUE]
ExpTapes(x) == IF Why(x) # "accept" THEN <<>>
               ELSE [b \in 1..BatchDim(x) |-> [i \in DOMAIN x.dims |-> IF i \in x.sel THEN Param(x, i)[b] ELSE Param(x, i)[1]]]

Init == ph = 0 /\ c \in Cases
Emit == ph = 0 /\ ph' = 1 /\ c' = c /\
        PrintT(ToJson([dims |-> c.dims, sel |-> [i \in DOMAIN c.dims |-> i \in c.sel], tr |-> c.tr,
                       params |-> [i \in DOMAIN c.dims |-> Param(c, i)], why |-> Why(c), tapes |-> ExpTapes(c)]))
Next == Emit

\* the model's own clauses: an accepted call yields exactly d tapes that, read column by column, give back every transformed
\* parameter entry by entry (nothing truncated, nothing repeated) and leave the others alone; anything else is rejected
Laws == ph # 0 \/
   LET ts == ExpTapes(c) IN
   IF Why(c) = "accept"
   THEN /\ \A i \in c.sel : Len(ts) = c.dims[i] /\ [b \in 1..Len(ts) |-> ts[b][i]] = Param(c, i)
        /\ \A i \in DOMAIN c.dims \ c.sel : \A b \in 1..Len(ts) : ts[b][i] = Param(c, i)[1]
        /\ Len(ts) >= 1
   ELSE ts = <<>> /\ (c.sel = {} \/ (\E i \in c.sel : c.dims[i] = 0) \/ (\E p, q \in c.sel : c.dims[p] # c.dims[q]))
=============================================================================
