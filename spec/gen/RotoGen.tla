------------------------------- MODULE RotoGen -------------------------------
(***************************************************************************)
(* C61 generator / model check for Rotosolve and Rotoselect (Roto.tla).    *)
(* One behaviour per problem and per sequence of <= MaxSteps public calls  *)
(* ("step" / "cost" = step_and_cost); one TLC transition per sub-step      *)
(* (parameter d of the sweep).  Invariants on the model:                   *)
(*   SubMin     after the sub-step for parameter d the objective is no     *)
(*              larger than with s_d = -1 or s_d = +1 under ANY generator  *)
(*              on offer (F is affine in s_d: the global minimum of the    *)
(*              one-parameter restriction, over all angles)                *)
(*   Descent    the objective never increases along a sweep                *)
(*   Exact      all sines stay in {-1, -1/2, 0, 1/2, 1} and agree with the *)
(*              lattice angles (for every rational frequency fn/fd)        *)
(* Values of F are emitted times 4 (Roto!F), angles in units pi/(12 fn[d]).*)
(* Completed calls are emitted for REPLAY:                                 *)
(*   <<call, x after, generators after, F before, <<minima per sub-step>>, *)
(*     some generator choice was a tie>>                                   *)
(***************************************************************************)
EXTENDS Roto, Json
CONSTANTS Problems, MaxSteps
VARIABLES pr, x, S, gen, d, last, hist, cur, prevF
vars == <<pr, x, S, gen, d, last, hist, cur, prevF>>

Init == /\ pr \in Problems /\ x = X0(pr) /\ S = S0(pr) /\ gen = pr.g0 /\ d = 0 /\ last = 0 /\ hist = <<>>
        /\ cur = [k |-> "", f0 |-> 0, ys |-> <<>>, tie |-> FALSE] /\ prevF = F(pr, S0(pr), pr.g0)

Begin == /\ d = 0 /\ Len(hist) < MaxSteps
         /\ \E k \in {"step", "cost"} : cur' = [k |-> k, f0 |-> F(pr, S, gen), ys |-> <<>>, tie |-> FALSE]
         /\ d' = 1 /\ last' = 0 /\ prevF' = F(pr, S, gen)
         /\ UNCHANGED <<pr, x, S, gen, hist>>
Finish(nx, ng, nc) == IF d = pr.P
                      THEN /\ hist' = Append(hist, <<nc.k, nx, ng, nc.f0, nc.ys, nc.tie>>) /\ d' = 0
                      ELSE /\ d' = d + 1 /\ UNCHANGED hist
Sub == /\ d >= 1
       /\ prevF' = F(pr, S, gen)
       /\ IF ~pr.tr[d]
          THEN /\ Finish(x, gen, cur) /\ last' = 0 /\ UNCHANGED <<pr, x, S, gen, cur>>
          ELSE LET g == PickGen(pr, S, gen, d)
                   a == Amp(pr, S, g, d)
                   nS == [S EXCEPT ![d] = -2 * Sgn(a)]
                   ng == [gen EXCEPT ![d] = g]
                   nx == [x EXCEPT ![d] = Representative(pr, g, d, a, x[d])]
                   nc == [cur EXCEPT !.ys = Append(cur.ys, F(pr, nS, ng)), !.tie = cur.tie \/ Tie(pr, S, gen, d)]
               IN /\ S' = nS /\ gen' = ng /\ x' = nx /\ cur' = nc /\ last' = d
                  /\ Finish(nx, ng, nc) /\ UNCHANGED pr
Next == Begin \/ Sub

Emit == IF d = 0 /\ Len(hist) = MaxSteps THEN PrintT(ToJson([p |-> pr.id, h |-> hist])) ELSE TRUE

Exact == \A e \in 1..pr.P : S[e] \in -2..2 /\ Sin2(Arg(pr, x[e], gen[e], e), pr.fd[e]) = S[e]
SubMin == last # 0 =>
  \A g \in Gens(pr) : \A s \in {-2, 2} : F(pr, [S EXCEPT ![last] = s], [gen EXCEPT ![last] = g]) >= F(pr, S, gen)
Descent == F(pr, S, gen) <= prevF
Posed == WellPosed(pr)
=============================================================================
