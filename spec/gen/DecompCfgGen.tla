---------------------------- MODULE DecompCfgGen ----------------------------
(***************************************************************************)
(* C12 configuration generator (REPLAY direction).  Enumerates             *)
(*   kind "set": every subset of the six-gate universe, with and without   *)
(*               GlobalPhase, classified universal-enough or not;          *)
(*   kind "opt": every option tuple graph x num_work_wires x max_expansion *)
(*               x custom decompositions x stopping condition, with what   *)
(*               DecompModel promises for it (relation, TypeError,         *)
(*               whether the gate-set clause applies);                     *)
(*   kind "dev": every call shape of devices.preprocess.decompose          *)
(*               graph x skip_initial_state_prep x leading state           *)
(*               preparation (none / BasisState / StatePrep, accepted by   *)
(*               the stopping condition or not) x remaining operators      *)
(*               (none / all accepted / some rejected) with what           *)
(*               DecompModel promises (leading operator kept, something    *)
(*               must be decomposed or an error raised).                   *)
(* TLC checks the classification invariants; the driver replays the        *)
(* product (sampled in the quick tier) into the real transform.            *)
(***************************************************************************)
EXTENDS DecompModel, TLC, Json
Universe == {"RX", "RY", "RZ", "Hadamard", "CNOT", "CZ"}
USeq == <<"RX", "RY", "RZ", "Hadamard", "CNOT", "CZ">>
VARIABLES kind, S, gp, c, d, pc
vars == <<kind, S, gp, c, d, pc>>
NoCfg == [graph |-> FALSE, gs |-> <<>>, ww |-> 0, mx |-> 0 - 1, custom |-> "none", stopk |-> 0]
NoDev == [graph |-> FALSE, skip |-> TRUE, lead |-> "none", leadok |-> FALSE, rest |-> "empty"]
Init == /\ pc = "new"
        /\ \/ /\ kind = "set" /\ S \in SUBSET Universe /\ gp \in BOOLEAN /\ c = NoCfg /\ d = NoDev
           \/ /\ kind = "dev" /\ S = {} /\ gp = FALSE /\ c = NoCfg
              /\ d \in {x \in [graph : BOOLEAN, skip : BOOLEAN, lead : DevLeads, leadok : BOOLEAN, rest : DevRests] :
                            x.lead = "none" => ~x.leadok}
           \/ /\ kind = "opt" /\ S = {} /\ gp = FALSE /\ d = NoDev
              /\ c \in [graph : BOOLEAN, gs : {<<>>}, ww : {0 - 1, 0, 1, 2}, mx : {0 - 1, 1, 2},
                        custom : {"none", "fixed", "alt", "nullphase"}, stopk : {0, 2}]
AsSeq(T) == SelectSeq(USeq, LAMBDA x : x \in T) \o (IF gp THEN <<"GlobalPhase">> ELSE <<>>)
Emit == /\ pc = "new" /\ pc' = "done" /\ UNCHANGED <<kind, S, gp, c, d>>
        /\ IF kind = "set"
           THEN PrintT(ToJson([kind |-> "set", gs |-> AsSeq(S), universal |-> Universal(S), gp |-> gp]))
           ELSE IF kind = "dev"
           THEN PrintT(ToJson([kind |-> "dev", graph |-> d.graph, skip |-> d.skip, lead |-> d.lead, leadok |-> d.leadok, rest |-> d.rest,
                               keep |-> DevPrepKept(d), mustchange |-> DevMustChange(d)]))
           ELSE PrintT(ToJson([kind |-> "opt", graph |-> c.graph, ww |-> c.ww, mx |-> c.mx, custom |-> c.custom, stopk |-> c.stopk,
                               rel |-> Rel(c), typeerror |-> ExpectTypeError(c), clause |-> GateSetClause(c)]))
Next == Emit
\* classification sanity: universality is monotone, needs an entangler and at least two generators of SU(2)
UniversalOK == kind = "set" =>
   /\ (Universal(S) => \A T \in SUBSET Universe : S \subseteq T => Universal(T))
   /\ (Universal(S) => Cardinality(S) >= 3)
   /\ (S = Universe => Universal(S))
   /\ (Universal(S) => Cardinality(S \cap {"CNOT", "CZ"}) >= 1 /\ Cardinality(S \cap (Rots \cup {"Hadamard"})) >= 2)
OptOK == kind = "opt" =>
   /\ (ExpectTypeError(c) <=> (~c.graph /\ c.custom \in {"fixed", "alt", "nullphase"}))
   /\ (Rel(c) = "phase" <=> c.custom = "nullphase")
   /\ (GateSetClause(c) <=> c.mx = 0 - 1)
\* a call may hand its input back only when the stopping condition accepts everything but an exempted leading preparation
DevOK == kind = "dev" =>
   /\ (~DevMustChange(d) <=> ((d.lead = "none" \/ d.skip \/ d.leadok) /\ d.rest # "mixed"))
   /\ (DevPrepKept(d) => d.lead # "none")
   /\ ((d.lead # "none" /\ ~d.skip /\ ~d.leadok) => DevMustChange(d) /\ ~DevPrepKept(d))
=============================================================================
