---------------------------- MODULE DecompCfgGen ----------------------------
(***************************************************************************)
(* C12 configuration generator (REPLAY direction).  Enumerates             *)
(*   kind "set": every subset of the six-gate universe, with and without   *)
(*               GlobalPhase, classified universal-enough or not;          *)
(*   kind "opt": every option tuple graph x num_work_wires x max_expansion *)
(*               x custom decompositions x stopping condition, with what   *)
(*               DecompModel promises for it (relation, TypeError,         *)
(*               whether the gate-set clause applies).                     *)
(* TLC checks the classification invariants; the driver replays the        *)
(* product (sampled in the quick tier) into the real transform.            *)
(***************************************************************************)
EXTENDS DecompModel, TLC, Json
Universe == {"RX", "RY", "RZ", "Hadamard", "CNOT", "CZ"}
USeq == <<"RX", "RY", "RZ", "Hadamard", "CNOT", "CZ">>
VARIABLES kind, S, gp, c, pc
vars == <<kind, S, gp, c, pc>>
NoCfg == [graph |-> FALSE, gs |-> <<>>, ww |-> 0, mx |-> 0 - 1, custom |-> "none", stopk |-> 0]
Init == /\ pc = "new"
        /\ \/ /\ kind = "set" /\ S \in SUBSET Universe /\ gp \in BOOLEAN /\ c = NoCfg
           \/ /\ kind = "opt" /\ S = {} /\ gp = FALSE
              /\ c \in [graph : BOOLEAN, gs : {<<>>}, ww : {0 - 1, 0, 1, 2}, mx : {0 - 1, 1, 2},
                        custom : {"none", "fixed", "alt", "nullphase"}, stopk : {0, 2}]
AsSeq(T) == SelectSeq(USeq, LAMBDA x : x \in T) \o (IF gp THEN <<"GlobalPhase">> ELSE <<>>)
Emit == /\ pc = "new" /\ pc' = "done" /\ UNCHANGED <<kind, S, gp, c>>
        /\ IF kind = "set"
           THEN PrintT(ToJson([kind |-> "set", gs |-> AsSeq(S), universal |-> Universal(S), gp |-> gp]))
           ELSE PrintT(ToJson([kind |-> "opt", graph |-> c.graph, ww |-> c.ww, mx |-> c.mx, custom |-> c.custom, stopk |-> c.stopk,
                               rel |-> Rel(c), typeerror |-> ExpectTypeError(c), clause |-> GateSetClause(c)]))
Next == Emit
\* classification sanity: universality is monotone, needs an entangler and at least two generators of SU(2)
UniversalOK == kind = "set" =>
   /\ (Universal(S) => \A T \in SUBSET Universe : S \subseteq T => Universal(T))
   /\ (Universal(S) => Cardinality(S) >= 3)
   /\ (S = Universe => Universal(S))
   /\ (Universal(S) => Cardinality(S \cap {"CNOT", "CZ"}) >= 1 /\ Cardinality(S \cap (Rots \cup {"Hadamard"})) >= 2)
OptOK == kind = "opt" =>
   /\ (ExpectTypeError(c) <=> (~c.graph /\ c.custom \in {"fixed", "alt", "nullphase"}))
   /\ (Rel(c) = "phase" <=> c.custom = "nullphase")
   /\ (GateSetClause(c) <=> c.mx = 0 - 1)
=============================================================================
