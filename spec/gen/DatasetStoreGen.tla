--------------------------- MODULE DatasetStoreGen ----------------------------
(* Generator for C64: explores DatasetStore exhaustively and emits every maximal history (a scripted prefix     *)
(* followed by m free calls, or ended by a call that must fail) together with the expected contents of every    *)
(* dataset and file at its end.  In -simulate mode it emits random deep histories.                              *)
EXTENDS DatasetStore, Json
CONSTANT Scripts          \* set of [s |-> sequence of event records (the parameters of Do; <<>> = start from nothing),
                          \*         m |-> number of free calls after the prefix]            (MaxSteps of the base module: >= every m)
VARIABLES hist, script
gvars == <<vars, hist, script>>
GInit == Init /\ hist = <<>> /\ script \in Scripts
GNext == /\ IF Len(hist) < Len(script.s)
            THEN ev.err = "" /\ Do(script.s[Len(hist) + 1]) /\ n' = 0
            ELSE n < script.m /\ Next
         /\ hist' = Append(hist, ev') /\ UNCHANGED script
Snapshot == [ds |-> [d \in D |-> [st |-> ds[d].st, c |-> IF IsOpen(d) THEN View(d) ELSE Empty]], files |-> files]
Emit == IF Len(hist) >= Len(script.s) /\ (n = script.m \/ ev.err # "")
        THEN PrintT(ToJson([hist |-> hist, pre |-> Len(script.s), free |-> script.m, exp |-> Snapshot]))
        ELSE TRUE
=============================================================================
