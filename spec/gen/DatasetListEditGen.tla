-------------------------- MODULE DatasetListEditGen --------------------------
(* Generator for C64 (list attributes edited in place): explores DatasetListEdit exhaustively and emits every    *)
(* history of cfg.m calls (reads and edits) after `d.a = [v1..v_start]`, every call with what it must return,    *)
(* the length afterwards and the exception class, together with the list the attribute must finally hold.        *)
EXTENDS DatasetListEdit, Json
VARIABLE hist
gvars == <<vars, hist>>
GInit == Init /\ hist = <<>>
GNext == Next /\ hist' = Append(hist, ev')
Emit == IF n = cfg.m
        THEN PrintT(ToJson([start |-> cfg.start, loc |-> cfg.loc, free |-> cfg.m, hist |-> hist, final |-> lst]))
        ELSE TRUE
=============================================================================
