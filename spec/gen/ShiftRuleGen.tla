---------------------------- MODULE ShiftRuleGen ----------------------------
(***************************************************************************)
(* C35 generator / model check.  Enumerates every request                  *)
(*    (frequency set, default or user shifts, order)                       *)
(* within the constants, checks on the MODEL that the documented period    *)
(* is a (minimal) common period of all frequencies and that folding a      *)
(* shift by it preserves every phase and lands in [-T/2, T/2), decides     *)
(* EXACTLY (ring determinant) whether the first-order linear system is     *)
(* determined for the shifts, and emits the request with the expected      *)
(* period and the set of shifts the order-n iterate can contain.           *)
(* The driver replays every determined request into generate_shift_rule.   *)
(***************************************************************************)
EXTENDS ShiftRule, Json, SequencesExt
CONSTANTS FreqSets,      \* set of sequences of rationals <<p, q>>
          ShiftPool,     \* lattice integers user shift sets are drawn from
          MaxUserR,      \* user shift sets for |Omega| <= MaxUserR
          MaxOrder
VARIABLES c, done

Requests == {[fr |-> f, user |-> 0, sh |-> {}, n |-> n] : f \in FreqSets, n \in 1..MaxOrder}
      \cup UNION {{[fr |-> f, user |-> 1, sh |-> s, n |-> n] : s \in kSubset(Len(f), ShiftPool), n \in 1..MaxOrder} :
                    f \in {g \in FreqSets : Len(g) <= MaxUserR}}
Init == c \in Requests /\ done = FALSE

Base(r) == IF r.user = 1 THEN r.sh ELSE IF DefaultOnLattice(r.fr) THEN DefaultShifts(r.fr) ELSE {}
OnLat(r) == PeriodOnLattice(r.fr) /\ (r.user = 1 \/ DefaultOnLattice(r.fr))
BaseSeq(r) == SetToSortSeq(Base(r), <)
Det(r) == IF ~OnLat(r) THEN FALSE ELSE Determined(r.fr, BaseSeq(r))
Cand(r) == IF OnLat(r) THEN Candidates(Base(r), r.n, PeriodL(r.fr)) ELSE {}

Next == /\ ~done /\ done' = TRUE /\ UNCHANGED c
        /\ PrintT(ToJson([fr |-> c.fr, user |-> c.user, sh |-> BaseSeq(c), n |-> c.n, per |-> PeriodQ(c.fr),
                          onlat |-> OnLat(c), det |-> Det(c), cand |-> SetToSortSeq(Cand(c), <)]))

(* ----------------------------- invariants on the model ----------------- *)
FreqsOK == WellFormedFreqs(c.fr)
PeriodOK == PeriodSound(c.fr) /\ PeriodMinimal(c.fr)
\* folding by the period keeps every phase and lands in the documented interval
FoldOK == OnLat(c) =>
   LET T == PeriodL(c.fr)  B == Base(c) \cup {-b : b \in Base(c)} IN
   \A s \in SumsOf(B, c.n) :
      /\ -T <= 2 * Fold(s, T) /\ 2 * Fold(s, T) < T /\ (s - Fold(s, T)) % T = 0
      /\ \A i \in 1..Len(c.fr) : PhaseOnLattice(c.fr[i], s) =>
            /\ PhaseOnLattice(c.fr[i], Fold(s, T))
            /\ (PhaseExp(c.fr[i], s) - PhaseExp(c.fr[i], Fold(s, T))) % N = 0
\* the documented default shifts lie strictly inside (0, T/2): a first-order default rule needs no folding
DefaultInside == (c.user = 0 /\ OnLat(c)) => \A s \in Base(c) : 0 < s /\ 2 * s < PeriodL(c.fr)
=============================================================================
