------------------------------ MODULE QasmGen -------------------------------
(***************************************************************************)
(* C67 (import direction): a grammar of the OpenQASM 3 subset that          *)
(* qp.from_qasm3 supports, as a generator of ABSTRACT programs.            *)
(*                                                                         *)
(*   program   ::= statement*                                              *)
(*   statement ::= gate | measure | reset | if (bit [== v]) { gate }       *)
(*               | if (bit) { gate } else { gate }                         *)
(*   gate      ::= modifier* name [(angles)] qubits                        *)
(*   modifier  ::= inv @ | pow(2) @ | pow(3) @ | ctrl @ | negctrl @        *)
(*   name      ::= the standard-library names of Qelib1.tla and gphase     *)
(*                                                                         *)
(* A program is emitted as the sequence of PROGRAM-side instructions of    *)
(* Trace_Qasm.tla (whose semantics is the program's denotation); the i-th  *)
(* measure / reset statement owns classical bit / ancilla i.  The harness  *)
(* only renders the abstract program to text (choice of register layout    *)
(* and angle spelling), imports it and records the imported tape.          *)
(* Statements are built in sub-steps (kind, name, modifiers, qubits,       *)
(* angles) so that the branching factor stays small: breadth-first search  *)
(* enumerates ALL programs up to MaxLen, -simulate draws long ones.        *)
(***************************************************************************)
EXTENDS Qelib1, Json, FiniteSets, SequencesExt
CONSTANTS NQ,        \* qubits
          Ang1,      \* lattice angles for one-parameter gates
          Ang2,      \* values for the 2/3/4-parameter gates: parameter tuples are cyclic shifts of the sorted values
          NTup,      \* number of cyclic shifts used (pairwise distinct parameters expose argument-order slips)
          MaxLen,    \* statements per program
          MaxAnc,    \* measure + reset statements per program
          Kinds,     \* subset of {"gate", "meas", "reset", "cond", "ifelse"}
          Depth2     \* TRUE: modifier stacks of depth <= 2, FALSE: depth <= 1
VARIABLES prog, nm, st, cur, cnd

QgNames == (OneQ0 \cup OneQ1 \cup TwoQ0 \cup TwoQ1 \cup ThreeQ0 \cup {"u2", "u3", "cu", "gphase"}) \ {"cu1"}
QgMod(t, z, cv) == [t |-> t, z |-> z, cv |-> cv]
ModAtoms == {QgMod("adj", 0, <<>>), QgMod("pow", 2, <<>>), QgMod("pow", 3, <<>>), QgMod("ctrl", 0, <<1>>), QgMod("ctrl", 0, <<0>>)}
ModStacks == {<<>>} \cup {<<m>> : m \in ModAtoms} \cup (IF Depth2 THEN {<<m1, m2>> : m1 \in ModAtoms, m2 \in ModAtoms} ELSE {})
QgNCtrl(ms) == Cardinality({i \in 1..Len(ms) : ms[i].t = "ctrl"})
QgInj(k) == {w \in [1..k -> 1..NQ] : \A i \in 1..k : \A j \in 1..k : i # j => w[i] # w[j]}
QgV == SetToSortSeq(Ang2, LAMBDA a, b : a < b)
QgParams(q) == IF QNParams(q) = 0 THEN {<<>>} ELSE IF QNParams(q) = 1 THEN {<<a>> : a \in Ang1}
               ELSE {[i \in 1..QNParams(q) |-> QgV[((s + i - 2) % Len(QgV)) + 1]] : s \in 1..NTup}

QgBlank == [q |-> "id", p |-> <<>>, w |-> <<>>, mods |-> <<>>]
NoCond == [cw |-> <<>>, cv |-> <<>>, els |-> FALSE, pend |-> FALSE]
GateIns(s, c) == [k |-> "q", g |-> s, cw |-> c.cw, cv |-> c.cv, els |-> c.els, w |-> 0, anc |-> 0, pe |-> <<>>, tol |-> <<>>]
MeasIns(kd, w, a) == [k |-> kd, g |-> QgBlank, cw |-> <<>>, cv |-> <<>>, els |-> FALSE, w |-> w, anc |-> a, pe |-> <<>>, tol |-> <<>>]
MeasAncs == {prog[i].anc : i \in {j \in 1..Len(prog) : prog[j].k = "m"}}

Init == prog = <<>> /\ nm = 0 /\ st = "kind" /\ cur = QgBlank /\ cnd = NoCond
PickKind ==
  /\ st = "kind" /\ Len(prog) < MaxLen
  /\ \/ /\ "gate" \in Kinds /\ st' = "name" /\ cnd' = NoCond /\ UNCHANGED <<prog, nm, cur>>
     \/ /\ "meas" \in Kinds /\ nm < MaxAnc
        /\ \E w \in 1..NQ : prog' = Append(prog, MeasIns("m", w, nm + 1))
        /\ nm' = nm + 1 /\ UNCHANGED <<st, cur, cnd>>
     \/ /\ "reset" \in Kinds /\ nm < MaxAnc
        /\ \E w \in 1..NQ : prog' = Append(prog, MeasIns("r", w, nm + 1))
        /\ nm' = nm + 1 /\ UNCHANGED <<st, cur, cnd>>
     \/ /\ "cond" \in Kinds
        /\ \E j \in MeasAncs : \E v \in {0, 1} : cnd' = [cw |-> <<j>>, cv |-> << <<v>> >>, els |-> FALSE, pend |-> FALSE]
        /\ st' = "name" /\ UNCHANGED <<prog, nm, cur>>
     \/ /\ "ifelse" \in Kinds
        /\ \E j \in MeasAncs : cnd' = [cw |-> <<j>>, cv |-> << <<1>> >>, els |-> FALSE, pend |-> TRUE]
        /\ st' = "name" /\ UNCHANGED <<prog, nm, cur>>
PickName == /\ st = "name" /\ \E q \in {x \in QgNames : QArity(x) <= NQ} : cur' = [QgBlank EXCEPT !.q = q]
            /\ st' = "mods" /\ UNCHANGED <<prog, nm, cnd>>
PickMods == /\ st = "mods"
            /\ \E ms \in {x \in ModStacks : QArity(cur.q) + QgNCtrl(x) <= NQ} : cur' = [cur EXCEPT !.mods = ms]
            /\ st' = "wires" /\ UNCHANGED <<prog, nm, cnd>>
PickWires == /\ st = "wires" /\ \E w \in QgInj(QArity(cur.q) + QgNCtrl(cur.mods)) : cur' = [cur EXCEPT !.w = w]
             /\ st' = "params" /\ UNCHANGED <<prog, nm, cnd>>
PickParams == /\ st = "params"
              /\ \E p \in QgParams(cur.q) : prog' = Append(prog, GateIns([cur EXCEPT !.p = p], cnd))
              /\ IF cnd.pend THEN st' = "name" /\ cnd' = [cnd EXCEPT !.cv = << <<0>> >>, !.els = TRUE, !.pend = FALSE]
                             ELSE st' = "kind" /\ cnd' = NoCond
              /\ cur' = QgBlank /\ UNCHANGED nm
Finish == /\ st = "kind" /\ Len(prog) >= MaxLen
          /\ PrintT(ToJson([n |-> NQ, k |-> nm, b |-> prog]))
          /\ st' = "done" /\ UNCHANGED <<prog, nm, cur, cnd>>
Next == PickKind \/ PickName \/ PickMods \/ PickWires \/ PickParams \/ Finish

\* invariants of the grammar itself (model-checked on every generated program)
WellFormed ==
  /\ nm <= MaxAnc
  /\ \A i \in 1..Len(prog) :
       LET ins == prog[i] IN
       /\ ins.k = "q" =>
            /\ Len(ins.g.w) = QArity(ins.g.q) + QgNCtrl(ins.g.mods) /\ Len(ins.g.p) = QNParams(ins.g.q)
            /\ \A a \in 1..Len(ins.g.w) : \A b \in 1..Len(ins.g.w) : a # b => ins.g.w[a] # ins.g.w[b]
            \* a condition only reads a bit measured EARLIER
            /\ \A t \in 1..Len(ins.cw) : \E j \in 1..(i - 1) : prog[j].k = "m" /\ prog[j].anc = ins.cw[t]
            \* an else-branch follows its if-branch and tests the complementary value of the same bit
            /\ ins.els => (i > 1 /\ prog[i-1].cw = ins.cw /\ prog[i-1].cv = << <<1>> >> /\ ins.cv = << <<0>> >>)
       /\ ins.k \in {"m", "r"} => ins.anc = Cardinality({j \in 1..i : prog[j].k \in {"m", "r"}})
\* every emitted gate statement denotes a unitary (checked when a statement is completed)
StmtUnitary == (st = "kind" /\ Len(prog) > 0 /\ prog[Len(prog)].k = "q") => IsUnitary(QasmM(prog[Len(prog)].g))
=============================================================================
