---------------------------- MODULE ExecConvGen ------------------------------
(***************************************************************************)
(* Generator for the argument-convention part of C65: enumerates submit /  *)
(* map / starmap calls over the task-function table of ExecConv (empty,    *)
(* single, many, uneven lengths, keyword arguments, variadic functions)    *)
(* and emits each call with the value the Python built-in returns          *)
(* (ExecConv.Expected).  One state per call; the invariants are oracle     *)
(* self-checks (every generated call is one on which the built-in is       *)
(* defined; map = starmap of the zipped tuples; lengths).                  *)
(***************************************************************************)
EXTENDS ExecConv, Json
CONSTANTS Variants,     \* set of value variants, e.g. {0} or {0,1}
          Lens          \* even lengths, e.g. {0,1,3,5}
VARIABLE call

Id(j, v) == 10 * v + j                       \* first position: distinct per task (the harness uses it as task key)
Val(q, j, v) == (3 * j + 2 * q + v) % 10
Tuple(a, j, v) == [q \in 1..a |-> IF q = 1 THEN Id(j, v) ELSE Val(q, j, v)]
Uneven == {<<2, 3>>, <<3, 2>>, <<0, 2>>, <<4, 1>>}
Profiles(r) == {[q \in 1..r |-> L] : L \in Lens}
               \cup {[q \in 1..r |-> IF q = p THEN ab[1] ELSE ab[2]] : p \in 1..r, ab \in Uneven}
Ranks(fn) == IF Arity(fn) = -1 THEN 1..3 ELSE {Arity(fn)}
Kws(fn) == IF TakesK(fn) THEN BOOLEAN ELSE {FALSE}

MapCalls == UNION {UNION {
  {[api |-> "map", fn |-> fn, haskw |-> hk, k |-> 2,
    its |-> [q \in 1..r |-> [j \in 1..lens[q] |-> IF q = 1 THEN Id(j, v) ELSE Val(q, j, v)]]] :
       lens \in Profiles(r), hk \in Kws(fn), v \in Variants}
  : r \in Ranks(fn)} : fn \in FnNames \ {"seven"}}
\* starmap: L tuples of equal length r; for the variadic function also tuples of uneven lengths 2,3,1,2,..
StarmapCalls == UNION {UNION {
  {[api |-> "starmap", fn |-> fn, haskw |-> hk, k |-> 2,
    its |-> [j \in 1..L |-> Tuple(IF u THEN 1 + (j % 3) ELSE r, j, v)]] :
       L \in Lens, hk \in Kws(fn), v \in Variants, u \in IF fn = "vsum" /\ r = 1 THEN BOOLEAN ELSE {FALSE}}
  : r \in Ranks(fn)} : fn \in FnNames \ {"seven"}}
SubmitCalls == UNION {UNION {
  {[api |-> "submit", fn |-> fn, haskw |-> hk, k |-> 2, its |-> <<Tuple(r, 1, v)>>] : hk \in Kws(fn), v \in Variants}
  : r \in IF Arity(fn) = -1 THEN 0..3 ELSE {Arity(fn)}} : fn \in FnNames}
Calls == MapCalls \cup StarmapCalls \cup SubmitCalls

Init == call \in Calls
Next == UNCHANGED call

AllDefined == Defined(call)
MapIsStarmapOfZip == call.api = "map" => /\ Defined(AsStarmap(call)) /\ Expected(AsStarmap(call)) = Expected(call)
LengthLaw == /\ (call.api = "map" => \A q \in 1..Len(call.its) : Len(Expected(call)) <= Len(call.its[q]))
             /\ (call.api = "starmap" => Len(Expected(call)) = Len(call.its))
             /\ (call.api = "submit" => Len(Expected(call)) = 1)
Emit == PrintT(ToJson([call |-> call, exp |-> Expected(call), tasks |-> TaskArgs(call)]))
=============================================================================
