--------------------------- MODULE ExecutorMixGen ----------------------------
(* Generator for C31: emits every finished behaviour of ExecutorMix (exhaustive exploration of small batches, random *)
(* simulation of large ones): batch size, pool size, chunk size, the composition of the batch (mask), the completion *)
(* order of every round and what the caller observes.                                                                 *)
EXTENDS ExecutorMix, Json
Emit == IF phase = "end"
        THEN PrintT(ToJson([n |-> n, w |-> w, chunk |-> chunk, mask |-> mask, rng0 |-> rng0, corders |-> corders, obs |-> ObsOuts]))
        ELSE TRUE
=============================================================================
