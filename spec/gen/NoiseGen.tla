------------------------------ MODULE NoiseGen ------------------------------
(***************************************************************************)
(* C25 generator: enumerates circuits x noise models / insert settings and *)
(* emits every case with the expected output operations computed by the    *)
(* model NoiseIns.tla.                                                      *)
(*   add1  every circuit (all one- and two-gate circuits over Insts, plus   *)
(*         the longer circuits Longs) x every conditional of Conds x every  *)
(*         noise of Noises (single-entry models)                            *)
(*   add2  one-gate circuits and Longs x every ordered pair of distinct     *)
(*         entries of PairEntries (two-entry models: order of the map)      *)
(*   addm  Longs x MeasLists x MModels (readout noise) x GateModels         *)
(*   ins   InsCircs x InsCfgs (position start / end / all / gate types,     *)
(*         before / after, single operation or two-operation function)      *)
(* One TLC state per (kind, circuit); its successor prints all its cases.   *)
(***************************************************************************)
EXTENDS NoiseIns, Json
CONSTANTS Insts, Longs, Conds, Noises, PairEntries, MeasLists, MModels, GateModels, InsCircs, InsCfgs, InsMeas

Singles == [i \in 1..Len(Insts) |-> <<Insts[i]>>]
Doubles == [k \in 1..(Len(Insts) * Len(Insts)) |-> <<Insts[(k - 1) \div Len(Insts) + 1], Insts[((k - 1) % Len(Insts)) + 1]>>]
Circs == Singles \o Doubles \o Longs
Circs2 == Singles \o Longs
NoCfg == [pos |-> "none", types |-> <<>>, before |-> FALSE, nz |-> <<>>]
Kinds == {"add1", "add2", "addm", "ins"}
NC(k) == CASE k = "add1" -> Len(Circs) [] k = "add2" -> Len(Circs2) [] k = "addm" -> Len(Longs) [] k = "ins" -> Len(InsCircs)

VARIABLES kind, ci, done, ok
Init == kind \in Kinds /\ ci \in 1..NC(kind) /\ done = FALSE /\ ok = TRUE

\* sanity of the model itself: every input operation appears exactly once, in order, in the expected output
SrcSeq(out) == SelectSeq([i \in 1..Len(out) |-> out[i].src], LAMBDA s : s > 0)
Keeps(circ, exp) == SrcSeq(exp) = [t \in 1..Len(circ) |-> t]
Case(k, circ, meas, model, mmodel, cfg, exp) ==
  [kind |-> k, circ |-> circ, meas |-> meas, model |-> model, mmodel |-> mmodel, cfg |-> cfg, exp |-> exp,
   rexp |-> [i \in 1..Len(meas) |-> Readout(mmodel, meas[i])], hits |-> Hits(circ, model)]
\* print the case; TRUE iff the model's output keeps the circuit (all cases are printed: the filters below do not short-circuit)
Put(k, circ, meas, model, mmodel, cfg, exp) == PrintT(ToJson(Case(k, circ, meas, model, mmodel, cfg, exp))) /\ Keeps(circ, exp)

BadAdd1 == {ij \in (1..Len(Conds)) \X (1..Len(Noises)) :
   LET model == <<[c |-> Conds[ij[1]], nz |-> Noises[ij[2]]]>> IN
   ~Put("add1", Circs[ci], <<>>, model, <<>>, NoCfg, AddNoise(Circs[ci], model))}
BadAdd2 == {ij \in (1..Len(PairEntries)) \X (1..Len(PairEntries)) : ij[1] # ij[2] /\
   LET model == <<PairEntries[ij[1]], PairEntries[ij[2]]>> IN
   ~Put("add2", Circs2[ci], <<>>, model, <<>>, NoCfg, AddNoise(Circs2[ci], model))}
BadAddM == {abg \in (1..Len(MeasLists)) \X (1..Len(MModels)) \X (1..Len(GateModels)) :
   ~Put("addm", Longs[ci], MeasLists[abg[1]], GateModels[abg[3]], MModels[abg[2]], NoCfg, AddNoise(Longs[ci], GateModels[abg[3]]))}
BadIns == {a \in 1..Len(InsCfgs) :
   ~Put("ins", InsCircs[ci], InsMeas, <<>>, <<>>, InsCfgs[a], Insert(InsCircs[ci], InsMeas, InsCfgs[a]))}
Next == /\ ~done
        /\ ok' = ((CASE kind = "add1" -> BadAdd1 [] kind = "add2" -> BadAdd2 [] kind = "addm" -> BadAddM [] kind = "ins" -> BadIns) = {})
        /\ done' = TRUE /\ UNCHANGED <<kind, ci>>
KeepsCircuit == ok
=============================================================================
