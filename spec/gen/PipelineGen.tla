----------------------------- MODULE PipelineGen ------------------------------
(* Generator for C23 (REPLAY of the construction API): explores Pipeline.tla and emits every maximal      *)
(* history (constructor call + edit calls) with the list model's expected outcome after each call.       *)
(* Used exhaustively (all histories up to MaxSteps) and in simulation mode (random deeper histories):    *)
(* the history is printed by a separate last action, so that simulation prints the behaviours it walks   *)
(* and not every successor it looked at.                                                                 *)
EXTENDS Pipeline, Json
VARIABLE emitted
GInit == Init /\ emitted = FALSE
Done == /\ Maximal /\ ~emitted /\ emitted' = TRUE /\ UNCHANGED vars
        /\ PrintT(ToJson([hist |-> hist, finalLast |-> FinalLast]))
GNext == (Next /\ UNCHANGED emitted) \/ Done
=============================================================================
