---------------------------- MODULE ShadowsGen -----------------------------
(***************************************************************************)
(* C60, model + generator.  TLC enumerates every circuit of at most MaxLen *)
(* gates over {H, S, T on each wire, CNOT on each ordered pair} on NQ      *)
(* qubits; for the ring state psi each circuit prepares it walks through   *)
(* ALL 3^NQ recipes (one TLC step per recipe), accumulating                *)
(*      accRho   = sum_r sum_b P(b | r) * Snapshot(r, b)                   *)
(*      accEv[P] = sum_r sum_b P(b | r) * tr(Snapshot(r, b) P)             *)
(* with the exact Born probabilities of the rotated state.  The invariant  *)
(* Unbiased states the property on the model:                              *)
(*      accRho = 3^NQ |psi><psi|   and   accEv[P] = 3^NQ <psi|P|psi>       *)
(* for every one of the 4^NQ Pauli words (each recipe has probability      *)
(* 3^-NQ).  Emit prints, per circuit, the probabilities, rho, all exact     *)
(* expectation values and those of the sums Hams; once per run the table   *)
(* of all snapshots and per-snapshot estimates (state independent).        *)
(* Indices: recipe index ri, outcome index bi, word index wi are base-3 /  *)
(* base-2 / base-4 numbers with wire 1 as the most significant digit.      *)
(* Hams: sequence of sums, each a sequence of terms [c, k, w] meaning the  *)
(* coefficient c/2^k on the Pauli word with index w.                       *)
(***************************************************************************)
EXTENDS Shadows, Json
CONSTANTS NQ, MaxLen, Hams
VARIABLES gcirc, gpsi, gph, gri, accRho, accEv, qtab, gref
vars == <<gcirc, gpsi, gph, gri, accRho, accEv, qtab, gref>>
D  == 2^NQ
NR == 3^NQ
NW == 4^NQ
AllW == [i \in 1..NQ |-> i]

G(g, w) == [g |-> g, w |-> w, p |-> <<>>, x |-> <<>>, m |-> <<>>, mods |-> <<>>]
Alphabet == {G(g, <<w>>) : g \in {"Hadamard", "S", "T"}, w \in 1..NQ}
       \cup {G("CNOT", q) : q \in {t \in (1..NQ) \X (1..NQ) : t[1] # t[2]}}

\* state-independent tables (constant level: evaluated once)
SnapTab == TLCEval([r1 \in 1..NR |-> TLCEval([b1 \in 1..D |-> Snapshot(RecOf(r1 - 1, NQ), BitsOf(b1 - 1, NQ))])])
WordTab == TLCEval([w1 \in 1..NW |-> PauliM(WordOf(w1 - 1, NQ))])
EstTab  == TLCEval([r1 \in 1..NR |-> TLCEval([b1 \in 1..D |-> TLCEval([w1 \in 1..NW |-> TrProd(SnapTab[r1][b1], WordTab[w1])])])])
NoEv == TLCEval([w1 \in 1..NW |-> SZero])

Init == /\ gcirc = <<>> /\ gpsi = BasisCol(D, 0) /\ gph = "build" /\ gri = 0
        /\ accRho = ZeroM(D) /\ accEv = NoEv /\ qtab = <<>> /\ gref = <<>>

Extend == /\ gph = "build" /\ Len(gcirc) < MaxLen
          /\ \E g \in Alphabet : /\ gcirc' = Append(gcirc, g)
                                 /\ gpsi' = ApplyGate(gpsi, GateM(g), g.w, NQ)
          /\ UNCHANGED <<gph, gri, accRho, accEv, qtab, gref>>

\* the exact quantities the estimators are supposed to reproduce
Start == /\ gph = "build" /\ gph' = "avg"
         /\ gref' = [rho |-> RhoOf(gpsi), ev |-> TLCEval([w1 \in 1..NW |-> ExpvalOf(gpsi, WordOf(w1 - 1, NQ), NQ)])]
         /\ UNCHANGED <<gcirc, gpsi, gri, accRho, accEv, qtab>>

AddWeighted(acc, q, snaps) ==
  LET S[b1 \in 0..D] == IF b1 = 0 THEN acc ELSE
        IF SIsZero(q[b1]) THEN S[b1-1] ELSE Bind2(S[b1-1], SMulM(q[b1], snaps[b1]), LAMBDA a, b : MAdd(a, b))
  IN S[D]
AddEst(acc, q, ests) ==
  TLCEval([w1 \in 1..NW |->
     LET S[b1 \in 0..D] == IF b1 = 0 THEN acc[w1] ELSE
           IF SIsZero(q[b1]) \/ SIsZero(ests[b1][w1]) THEN S[b1-1] ELSE SAdd(S[b1-1], SMul(q[b1], ests[b1][w1]))
     IN S[D]])

\* one recipe: rotate, read off the 2^NQ Born probabilities, accumulate
Avg == /\ gph = "avg" /\ gri < NR
       /\ qtab' = Append(qtab, Bind(RotateOn(gpsi, AllW, RecOf(gri, NQ), 1, NQ), LAMBDA phi :
                                      TLCEval([b1 \in 1..D |-> SNorm(Abs2(phi, b1))])))
       /\ accRho' = AddWeighted(accRho, qtab'[gri + 1], SnapTab[gri + 1])
       /\ accEv' = AddEst(accEv, qtab'[gri + 1], EstTab[gri + 1])
       /\ gri' = gri + 1
       /\ UNCHANGED <<gcirc, gpsi, gph, gref>>
Finish == /\ gph = "avg" /\ gri = NR /\ gph' = "done"
          /\ UNCHANGED <<gcirc, gpsi, gri, accRho, accEv, qtab, gref>>

HamVal(h, ev) == LET S[t \in 0..Len(h)] == IF t = 0 THEN SZero ELSE
                       SAdd(S[t-1], Sc(Scale(h[t].c, ev[h[t].w + 1].c), ev[h[t].w + 1].k + h[t].k))
                 IN S[Len(h)]
Emit == /\ gph = "done" /\ gph' = "emitted"
        /\ PrintT(ToJson([kind |-> "case", n |-> NQ, circ |-> gcirc, psi |-> gpsi, rho |-> gref.rho, q |-> qtab, ev |-> gref.ev,
                          hv |-> [h \in 1..Len(Hams) |-> HamVal(Hams[h], gref.ev)]]))
        /\ (gcirc = <<>> => PrintT(ToJson([kind |-> "tab", n |-> NQ, snap1 |-> Snap1Tab, snap |-> SnapTab, est |-> EstTab])))
        /\ UNCHANGED <<gcirc, gpsi, gri, accRho, accEv, qtab, gref>>
Next == Extend \/ Start \/ Avg \/ Finish \/ Emit

\* ---------------------------------------------------------------- the property on the model
Unbiased == gph = "done" =>
   /\ EqExact(accRho, MScale(Int2C(NR), gref.rho))
   /\ \A w1 \in 1..NW : SEq(accEv[w1], SScale(NR, gref.ev[w1]))
\* sanity of the reference itself: probabilities of every recipe sum to one, rho has unit trace and is Hermitian,
\* the identity word has expectation one
RefSane == gph = "done" =>
   /\ \A r1 \in 1..NR : SEq(LET S[b1 \in 0..D] == IF b1 = 0 THEN SZero ELSE SAdd(S[b1-1], qtab[r1][b1]) IN S[D], SOne)
   /\ SEq(TrM(gref.rho), SOne) /\ IsHermitian(gref.rho) /\ SEq(gref.ev[1], SOne)
=============================================================================
