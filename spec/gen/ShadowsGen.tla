---------------------------- MODULE ShadowsGen -----------------------------
(***************************************************************************)
(* C60, model + generator.  TLC enumerates every circuit of at most MaxLen *)
(* gates over {H, S, T on each wire, CNOT on each ordered pair} on NQ      *)
(* qubits; for the ring state psi each circuit prepares it walks through   *)
(* ALL 3^NQ recipes (one TLC step per recipe), accumulating                *)
(*      accRho   = sum_r sum_b P(b | r) * Snapshot(r, b)                   *)
(*      accEv[P] = sum_r sum_b P(b | r) * tr(Snapshot(r, b) P)             *)
(* with the exact Born probabilities of the rotated state.  The invariant  *)
(* Unbiased states the property on the model:                              *)
(*      accRho = 3^NQ |psi><psi|   and   accEv[P] = 3^NQ <psi|P|psi>       *)
(* for every one of the 4^NQ Pauli words (each recipe has probability      *)
(* 3^-NQ).  Emit prints, per circuit, the probabilities, rho, all exact     *)
(* expectation values and those of the sums Hams; once per run the table   *)
(* of all snapshots and per-snapshot estimates (state independent).        *)
(* Indices: recipe index ri, outcome index bi, word index wi are base-3 /  *)
(* base-2 / base-4 numbers with wire 1 as the most significant digit.      *)
(* Hams: sequence of sums, each a sequence of terms [c, k, w] meaning the  *)
(* coefficient c/2^k on the Pauli word with index w.                       *)
(***************************************************************************)
EXTENDS Shadows, Json
CONSTANTS NQ, MaxLen, Hams
VARIABLES circ, psi, ph, ri, accRho, accEv, qtab, ref
vars == <<circ, psi, ph, ri, accRho, accEv, qtab, ref>>
D  == 2^NQ
NR == 3^NQ
NW == 4^NQ
AllW == [i \in 1..NQ |-> i]

G(g, w) == [g |-> g, w |-> w, p |-> <<>>, x |-> <<>>, m |-> <<>>, mods |-> <<>>]
Alphabet == {G(g, <<w>>) : g \in {"Hadamard", "S", "T"}, w \in 1..NQ}
       \cup {G("CNOT", q) : q \in {t \in (1..NQ) \X (1..NQ) : t[1] # t[2]}}

\* state-independent tables (constant level: evaluated once)
SnapTab == TLCEval([r1 \in 1..NR |-> TLCEval([b1 \in 1..D |-> Snapshot(RecOf(r1 - 1, NQ), BitsOf(b1 - 1, NQ))])])
WordTab == TLCEval([w1 \in 1..NW |-> PauliM(WordOf(w1 - 1, NQ))])
EstTab  == Bind2(SnapTab, WordTab, LAMBDA st, wt :
   TLCEval([r1 \in 1..NR |-> TLCEval([b1 \in 1..D |-> TLCEval([w1 \in 1..NW |-> TrProd(st[r1][b1], wt[w1])])])]))
NoEv == TLCEval([w1 \in 1..NW |-> SZero])

Init == /\ circ = <<>> /\ psi = BasisCol(D, 0) /\ ph = "build" /\ ri = 0
        /\ accRho = ZeroM(D) /\ accEv = NoEv /\ qtab = <<>> /\ ref = <<>>

Extend == /\ ph = "build" /\ Len(circ) < MaxLen
          /\ \E g \in Alphabet : /\ circ' = Append(circ, g)
                                 /\ psi' = ApplyGate(psi, GateM(g), g.w, NQ)
          /\ UNCHANGED <<ph, ri, accRho, accEv, qtab, ref>>

\* the exact quantities the estimators are supposed to reproduce
Start == /\ ph = "build" /\ ph' = "avg"
         /\ ref' = [rho |-> RhoOf(psi), ev |-> TLCEval([w1 \in 1..NW |-> ExpvalOf(psi, WordOf(w1 - 1, NQ), NQ)])]
         /\ UNCHANGED <<circ, psi, ri, accRho, accEv, qtab>>

AddWeighted(acc, q, snaps) ==
  LET S[b1 \in 0..D] == IF b1 = 0 THEN acc ELSE
        IF SIsZero(q[b1]) THEN S[b1-1] ELSE Bind2(S[b1-1], SMulM(q[b1], snaps[b1]), LAMBDA a, b : MAdd(a, b))
  IN S[D]
AddEst(acc, q, ests) ==
  TLCEval([w1 \in 1..NW |->
     LET S[b1 \in 0..D] == IF b1 = 0 THEN acc[w1] ELSE
           IF SIsZero(q[b1]) \/ SIsZero(ests[b1][w1]) THEN S[b1-1] ELSE SAdd(S[b1-1], SMul(q[b1], ests[b1][w1]))
     IN S[D]])

\* one recipe: rotate, read off the 2^NQ Born probabilities, accumulate
Avg == /\ ph = "avg" /\ ri < NR
       /\ qtab' = Append(qtab, Bind(RotateOn(psi, AllW, RecOf(ri, NQ), 1, NQ), LAMBDA phi :
                                      TLCEval([b1 \in 1..D |-> SNorm(Abs2(phi, b1))])))
       /\ accRho' = AddWeighted(accRho, qtab'[ri + 1], SnapTab[ri + 1])
       /\ accEv' = AddEst(accEv, qtab'[ri + 1], EstTab[ri + 1])
       /\ ri' = ri + 1
       /\ UNCHANGED <<circ, psi, ph, ref>>
Finish == /\ ph = "avg" /\ ri = NR /\ ph' = "done"
          /\ UNCHANGED <<circ, psi, ri, accRho, accEv, qtab, ref>>

HamVal(h, ev) == LET S[t \in 0..Len(h)] == IF t = 0 THEN SZero ELSE
                       SAdd(S[t-1], Sc(Scale(h[t].c, ev[h[t].w + 1].c), ev[h[t].w + 1].k + h[t].k))
                 IN S[Len(h)]
Emit == /\ ph = "done" /\ ph' = "emitted"
        /\ PrintT(ToJson([kind |-> "case", n |-> NQ, circ |-> circ, psi |-> psi, rho |-> ref.rho, q |-> qtab, ev |-> ref.ev,
                          hv |-> [h \in 1..Len(Hams) |-> HamVal(Hams[h], ref.ev)]]))
        /\ (circ = <<>> => PrintT(ToJson([kind |-> "tab", n |-> NQ, snap1 |-> Snap1Tab, snap |-> SnapTab, est |-> EstTab])))
        /\ UNCHANGED <<circ, psi, ri, accRho, accEv, qtab, ref>>
Next == Extend \/ Start \/ Avg \/ Finish \/ Emit

\* ---------------------------------------------------------------- the property on the model
Unbiased == ph = "done" =>
   /\ EqExact(accRho, MScale(Int2C(NR), ref.rho))
   /\ \A w1 \in 1..NW : SEq(accEv[w1], SScale(NR, ref.ev[w1]))
\* sanity of the reference itself: probabilities of every recipe sum to one, rho has unit trace and is Hermitian,
\* the identity word has expectation one
RefSane == ph = "done" =>
   /\ \A r1 \in 1..NR : SEq(LET S[b1 \in 0..D] == IF b1 = 0 THEN SZero ELSE SAdd(S[b1-1], qtab[r1][b1]) IN S[D], SOne)
   /\ SEq(TrM(ref.rho), SOne) /\ IsHermitian(ref.rho) /\ SEq(ref.ev[1], SOne)
=============================================================================
