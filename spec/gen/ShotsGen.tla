------------------------------ MODULE ShotsGen -------------------------------
(* Generator for C44 (REPLAY).  One behaviour per case: Init picks a case, Emit prints the case      *)
(* together with the expected observable View computed by ShotsSpec.  The invariant Laws checks the  *)
(* algebraic laws of the specification on every enumerated case (the oracle guards itself).          *)
(*   op = "one"   : Shots(a)                                                                         *)
(*   op = "add"   : Shots(a) + Shots(b)                                                              *)
(*   op = "scale" : Shots(a) * (p/q)                                                                 *)
EXTENDS ShotsSpec, Json, TLC
CONSTANTS Counts, Copies, MaxLen,          \* single specifications
          ACounts, ACopies, AMaxLen,       \* operands of + and *
          Scalars                          \* set of <<p, q>>
VARIABLES c, done

Entries(C, K) == {<<n, 0>> : n \in C} \cup {<<n, k>> : n \in C, k \in K}
SeqsUpTo(E, m) == UNION {[1..k -> E] : k \in 1..m}
NoneSpec == [k |-> "none", n |-> 0, e |-> <<>>]
Specs(C, K, m) == {NoneSpec} \cup {[k |-> "int", n |-> n, e |-> <<>>] : n \in C}
                  \cup {[k |-> "seq", n |-> 0, e |-> s] : s \in SeqsUpTo(Entries(C, K), m)}
Big == Specs(Counts, Copies, MaxLen)
Small == Specs(ACounts, ACopies, AMaxLen)
Case(op, a, b, p, q) == [op |-> op, a |-> a, b |-> b, p |-> p, q |-> q]
Cases == {Case("one", a, NoneSpec, 1, 1) : a \in Big}
    \cup {Case("add", a, b, 1, 1) : a \in Small, b \in Small}
    \cup {Case("scale", a, NoneSpec, s[1], s[2]) : a \in Small, s \in Scalars}

Init == c \in Cases /\ done = FALSE

Result(cs) == CASE cs.op = "one"   -> Expand(cs.a)
                [] cs.op = "add"   -> Add(Expand(cs.a), Expand(cs.b))
                [] cs.op = "scale" -> Scale(Expand(cs.a), cs.p, cs.q)
Defined(cs) == cs.op # "scale" \/ ScaleDefined(Expand(cs.a), cs.p, cs.q)

Emit == ~done /\ done' = TRUE /\ c' = c /\
        PrintT(ToJson([c |-> c, def |-> Defined(c), exp |-> View(Result(c))]))
Next == Emit

Laws == done \/                                   \* every case is checked once, in its initial state
        LET la == TLCEval(Expand(c.a))  lb == TLCEval(Expand(c.b))  r == TLCEval(Result(c)) IN
        /\ ValidSpec(c.a) /\ ValidSpec(c.b)
        /\ LawSpec(c.a) /\ LawRLE(la) /\ LawBins(la) /\ LawTotal(la)
        /\ LawRLE(r) /\ LawBins(r) /\ LawTotal(r)
        /\ (c.op = "add" => LawAdd(la, lb))
        /\ (c.op = "scale" => LawScale(la, c.p, c.q))
=============================================================================
