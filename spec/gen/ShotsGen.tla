------------------------------ MODULE ShotsGen -------------------------------
(* Generator for C44 (REPLAY).  One behaviour per case: Init/Pick choose a case, Emit prints the case *)
(* together with the expected observable View computed by ShotsSpec.  The invariant Laws checks the  *)
(* algebraic laws of the specification on every enumerated case (the oracle guards itself).          *)
(*   op = "one"   : Shots(a)                                                                         *)
(*   op = "add"   : Shots(a) + Shots(b)                                                              *)
(*   op = "scale" : Shots(a) * (p/q)                                                                 *)
EXTENDS ShotsSpec, Json, TLC
CONSTANTS Counts, Copies, MaxLen,          \* single specifications
          ACounts, ACopies, AMaxLen,       \* operands of + and *
          Scalars                          \* set of <<p, q>>
VARIABLES c, ph

Entries(C, K) == {<<n, 0>> : n \in C} \cup {<<n, k>> : n \in C, k \in K}
SeqsUpTo(E, m) == UNION {[1..k -> E] : k \in 1..m}
NoneSpec == [k |-> "none", n |-> 0, e |-> <<>>]
Specs(C, K, m) == {NoneSpec} \cup {[k |-> "int", n |-> n, e |-> <<>>] : n \in C}
                  \cup {[k |-> "seq", n |-> 0, e |-> s] : s \in SeqsUpTo(Entries(C, K), m)}
ASSUME MaxLen >= 2
Small == Specs(ACounts, ACopies, AMaxLen)
Case(op, a, b, p, q) == [op |-> op, a |-> a, b |-> b, p |-> p, q |-> q]
\* Two-level enumeration: Init picks the operation and the first operand (initial states are computed sequentially by TLC),
\* Pick chooses the second operand / the scalar (explored by all workers in parallel), Emit prints the case.
Init == /\ ph = 0
        /\ \/ \E a \in Specs(Counts, Copies, MaxLen - 1) : c = Case("one", a, NoneSpec, 1, 1)
           \/ \E a \in Small, op \in {"add", "scale"} : c = Case(op, a, NoneSpec, 1, 1)
Pick == /\ ph = 0 /\ ph' = 1
        /\ \/ c.op = "one" /\ c' = c
           \/ c.op = "one" /\ c.a.k = "seq" /\ Len(c.a.e) = MaxLen - 1      \* the longest specifications are completed here
                           /\ \E en \in Entries(Counts, Copies) : c' = [c EXCEPT !.a.e = Append(@, en)]
           \/ c.op = "add" /\ \E b \in Small : c' = [c EXCEPT !.b = b]
           \/ c.op = "scale" /\ \E s \in Scalars : c' = [c EXCEPT !.p = s[1], !.q = s[2]]

Result(cs) == CASE cs.op = "one"   -> Expand(cs.a)
                [] cs.op = "add"   -> Add(Expand(cs.a), Expand(cs.b))
                [] cs.op = "scale" -> Scale(Expand(cs.a), cs.p, cs.q)
Defined(cs) == cs.op # "scale" \/ ScaleDefined(Expand(cs.a), cs.p, cs.q)

Emit == ph = 1 /\ ph' = 2 /\ c' = c /\
        PrintT(ToJson([c |-> c, def |-> Defined(c), exp |-> View(Result(c))]))
Next == Pick \/ Emit

Laws == ph # 1 \/                                 \* every case is checked once, when it has been picked
        LET la == TLCEval(Expand(c.a))  lb == TLCEval(Expand(c.b))  r == TLCEval(Result(c)) IN
        /\ ValidSpec(c.a) /\ ValidSpec(c.b)
        /\ LawSpec(c.a) /\ LawRLE(la) /\ LawBins(la) /\ LawTotal(la)
        /\ LawRLE(r) /\ LawBins(r) /\ LawTotal(r)
        /\ (c.op = "add" => LawAdd(la, lb))
        /\ (c.op = "scale" => LawScale(la, c.p, c.q))
=============================================================================
