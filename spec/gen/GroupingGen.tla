---------------------------- MODULE GroupingGen -----------------------------
(***************************************************************************)
(* C52: self-check of the relational specification Grouping.tla and        *)
(* generator of its inputs.  For EVERY set of at most K distinct Pauli     *)
(* words on n <= NWG wires (K = KS[n]) TLC                                 *)
(*  - runs a reference grouping (first fit in index order) for the three   *)
(*    relations and decides that GroupClause / IndexClause accept it       *)
(*    (the enabling conditions are satisfiable) and that they REJECT the   *)
(*    grouping obtained by merging two groups with an unrelated pair, by   *)
(*    dropping a member, and by exchanging two coefficients;               *)
(*  - for every group of the qwc grouping builds the documented rotation   *)
(*    (X -> RY(-pi/2), Y -> RX(pi/2) on that wire) and decides with exact  *)
(*    matrices that DiagClause accepts it with images PDiagImage, and      *)
(*    rejects it when one rotation is inverted or all are missing; the     *)
(*    wire-by-wire evaluation of DiagClause agrees with full matrices.     *)
(* Invariant Sound: bad = "" .  Every case is emitted with the reference   *)
(* grouping sizes (a colouring heuristic may legitimately use a different  *)
(* number of groups: compared as drift only).                              *)
(***************************************************************************)
EXTENDS Grouping, Json, FiniteSetsExt
CONSTANTS NWG, KS        \* KS: sequence, KS[n] = largest set size on n wires
VARIABLES c, done, bad

\* (kSubset's implementation is limited to base sets of fewer than 64 elements)
SubsetsOfSize(k, S) == CASE k = 0 -> {{}} [] k = 1 -> {{x} : x \in S} [] k = 2 -> {{x, y} : x \in S, y \in S} \ {{x} : x \in S}
                         [] OTHER -> kSubset(k, S)
Cases == UNION {{[n |-> n, s |-> s] : s \in UNION {SubsetsOfSize(k, 0..(4^n - 1)) : k \in 0..KS[n]}} : n \in 1..NWG}
Init == c \in Cases /\ done = FALSE /\ bad = ""

Types == <<"qwc", "commuting", "anticommuting">>
\* first fit: word i goes to the first group all of whose members are related to it
RECURSIVE FirstFit(_, _, _, _)
FirstFit(words, ty, i, groups) ==
   IF i > Len(words) THEN groups ELSE
   LET fits == {g \in DOMAIN groups : \A j \in DOMAIN groups[g] : Rel(ty, words[groups[g][j] + 1], words[i])} IN
   IF fits = {} THEN FirstFit(words, ty, i + 1, Append(groups, <<i - 1>>))
   ELSE LET g == CHOOSE x \in fits : \A y \in fits : x <= y IN
        FirstFit(words, ty, i + 1, [groups EXCEPT ![g] = Append(@, i - 1)])
WordsOf(words, idx) == [g \in DOMAIN idx |-> [j \in DOMAIN idx[g] |-> words[idx[g][j] + 1]]]
CoefOf(i) == <<i, 0, 0>>
CoefsOf(idx) == [g \in DOMAIN idx |-> [j \in DOMAIN idx[g] |-> CoefOf(idx[g][j] + 1)]]
GateRec(g, w, a) == [g |-> g, w |-> <<w>>, p |-> <<a>>, x |-> <<>>, m |-> <<>>, mods |-> <<>>]
\* the letter a qwc group has on wire i (0 when every member is the identity there)
LetterOn(group, i) == LET nz == {group[j][i] : j \in DOMAIN group} \ {0} IN IF nz = {} THEN 0 ELSE CHOOSE l \in nz : TRUE
RefGates(group, n, sign) == LET S[i \in 0..n] == IF i = 0 THEN <<>> ELSE
      LET l == LetterOn(group, i) IN
      IF l = 1 THEN Append(S[i-1], GateRec("RY", i, -sign)) ELSE IF l = 2 THEN Append(S[i-1], GateRec("RX", i, sign)) ELSE S[i-1]
   IN S[n]
First(ls) == LET f == SelectSeq(ls, LAMBDA t : ~t[2]) IN IF Len(f) = 0 THEN "" ELSE f[1][1]

TypeLaws(n, words, coeffs, ty) == Bind(FirstFit(words, ty, 1, <<>>), LAMBDA idx :
   LET gw == WordsOf(words, idx)  gcf == CoefsOf(idx)
       \* two groups holding an unrelated pair (first fit guarantees one for every later group)
       merged == IF Len(idx) < 2 THEN idx ELSE <<idx[1] \o idx[2]>> \o SubSeq(idx, 3, Len(idx))
   IN First(<< <<"index-accepts-reference", IndexClause(words, ty, idx) = "ok">>,
               <<"group-accepts-reference", GroupClause(n, words, coeffs, ty, gw, gcf) = "ok">>,
               <<"index-rejects-merge", Len(idx) < 2 \/ IndexClause(words, ty, merged) = "relation-violated">>,
               <<"group-rejects-merge", Len(idx) < 2 \/ GroupClause(n, words, coeffs, ty, WordsOf(words, merged), CoefsOf(merged)) = "relation-violated">>,
               <<"index-rejects-drop", Len(words) = 0 \/ IndexClause(words, ty, <<Tail(idx[1])>> \o Tail(idx)) = "not-a-partition">>,
               <<"index-rejects-duplicate", Len(words) = 0 \/ IndexClause(words, ty, Append(idx, <<0>>)) = "not-a-partition">>,
               <<"group-rejects-swapped-coefficients",
                 Len(words) < 2 \/ GroupClause(n, words, [coeffs EXCEPT ![1] = coeffs[2], ![2] = coeffs[1]], ty, gw, gcf) = "coefficient-detached">> >>))
DiagLaws(n, words) == Bind(FirstFit(words, "qwc", 1, <<>>), LAMBDA idx :
   LET gw == WordsOf(words, idx)  gcf == CoefsOf(idx) IN
   Bind(TLCEval([g \in DOMAIN idx |-> LET img == [j \in DOMAIN gw[g] |-> PDiagImage(gw[g][j])]
                                        gates == RefGates(gw[g], n, 1) IN
                 <<DiagClause(n, gw[g], gcf[g], gates, img, gcf[g]),
                   DiagClauseFull(n, gw[g], gcf[g], gates, img, gcf[g]),
                   IF Len(gates) = 0 THEN "skip"
                   ELSE DiagClauseFull(n, gw[g], gcf[g], [gates EXCEPT ![1] = [@ EXCEPT !.p = <<-gates[1].p[1]>>]], img, gcf[g]),
                   IF \A j \in DOMAIN gw[g] : PIsZType(gw[g][j]) THEN "skip" ELSE DiagClauseFull(n, gw[g], gcf[g], <<>>, img, gcf[g]),
                   IF Len(gates) = 0 THEN "skip"
                   ELSE DiagClause(n, gw[g], gcf[g], [gates EXCEPT ![1] = [@ EXCEPT !.p = <<-gates[1].p[1]>>]], img, gcf[g]),
                   IF \A j \in DOMAIN gw[g] : PIsZType(gw[g][j]) THEN "skip" ELSE DiagClause(n, gw[g], gcf[g], <<>>, img, gcf[g])>>]), LAMBDA res :
      First(<< <<"diag-accepts-documented-rotations", \A g \in DOMAIN res : res[g][1] = "ok">>,
               <<"diag-rejects-one-inverted-rotation", \A g \in DOMAIN res : res[g][5] \in {"skip", "not-diagonalized"}>>,
               <<"diag-rejects-missing-rotations", \A g \in DOMAIN res : res[g][6] \in {"skip", "not-diagonalized"}>>,
               <<"diag-product-evaluation-agrees-with-full-matrices",
                 \A g \in DOMAIN res : res[g][1] = res[g][2] /\ res[g][5] = res[g][3] /\ res[g][6] = res[g][4]>> >>)))
Result == LET n == c.n
              words == PSetToSeq({PWordOfIdx(i, n) : i \in c.s})
              coeffs == [i \in DOMAIN words |-> CoefOf(i)]
              laws == <<TypeLaws(n, words, coeffs, "qwc"), TypeLaws(n, words, coeffs, "commuting"),
                        TypeLaws(n, words, coeffs, "anticommuting"), DiagLaws(n, words)>>
              f == SelectSeq(laws, LAMBDA t : t # "")
          IN [bad |-> IF Len(f) = 0 THEN "" ELSE f[1],
              out |-> [n |-> n, words |-> words,
                       ref |-> [t \in 1..3 |-> [g \in DOMAIN FirstFit(words, Types[t], 1, <<>>) |-> Len(FirstFit(words, Types[t], 1, <<>>)[g])]]]]
Emit == /\ ~done /\ done' = TRUE /\ c' = c
        /\ \E res \in {Result} : bad' = res.bad /\ PrintT(ToJson(res.out))
Next == Emit
Sound == bad = ""
=============================================================================
