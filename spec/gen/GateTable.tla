----------------------------- MODULE GateTable ------------------------------
(* Generator for C02 (REPLAY): enumerates gate instances over the whole angle lattice and   *)
(* emits, per instance, the exact documented matrix; TLC also checks exact unitarity of     *)
(* every emitted reference matrix.  One behaviour per instance: Init picks it, Emit prints. *)
EXTENDS Gates, Json, FiniteSets
CONSTANT Grid3        \* angle values used for the 2/3-parameter gates (full product)
VARIABLES c, done
G(g, w, p, x) == [g |-> g, w |-> w, p |-> p, x |-> x, m |-> <<>>, mods |-> <<>>]
W(n) == [i \in 1..n |-> i]
NoParam == {<<"Identity",1>>,<<"PauliX",1>>,<<"PauliY",1>>,<<"PauliZ",1>>,<<"Hadamard",1>>,<<"S",1>>,<<"T",1>>,<<"SX",1>>,
            <<"CNOT",2>>,<<"CY",2>>,<<"CZ",2>>,<<"CH",2>>,<<"SWAP",2>>,<<"ISWAP",2>>,<<"SISWAP",2>>,<<"ECR",2>>,
            <<"Toffoli",3>>,<<"CCZ",3>>,<<"CSWAP",3>>,<<"QubitSum",3>>,<<"QubitCarry",4>>}
OneParam == {<<"RX",1>>,<<"RY",1>>,<<"RZ",1>>,<<"PhaseShift",1>>,<<"U1",1>>,<<"GlobalPhase",1>>,
             <<"CRX",2>>,<<"CRY",2>>,<<"CRZ",2>>,<<"ControlledPhaseShift",2>>,<<"CPhaseShift00",2>>,<<"CPhaseShift01",2>>,
             <<"CPhaseShift10",2>>,<<"IsingXX",2>>,<<"IsingYY",2>>,<<"IsingZZ",2>>,<<"IsingXY",2>>,<<"PSWAP",2>>,
             <<"SingleExcitation",2>>,<<"SingleExcitationPlus",2>>,<<"SingleExcitationMinus",2>>,<<"FermionicSWAP",2>>,
             <<"DoubleExcitation",4>>,<<"DoubleExcitationPlus",4>>,<<"DoubleExcitationMinus",4>>,
             <<"MultiRZ",1>>,<<"MultiRZ",2>>,<<"MultiRZ",3>>}
Words == UNION {[1..n -> 0..3] : n \in 1..2} \cup {<<1,2,3>>, <<3,0,1>>, <<2,2,0>>, <<0,0,0>>}
Cvs == UNION {[1..n -> 0..1] : n \in 1..3}
Cases ==
     {G(t[1], W(t[2]), <<>>, <<>>) : t \in NoParam}
\cup {G(t[1], W(t[2]), <<a>>, <<>>) : t \in OneParam, a \in 0..N-1}
\cup {G("PauliRot", W(Len(pw)), <<a>>, pw) : pw \in Words, a \in 0..N-1}
\cup {G("U2", W(1), <<a, b>>, <<>>) : a \in Grid3, b \in Grid3}
\cup {G(g, W(IF g = "CRot" THEN 2 ELSE 1), <<a, b, d>>, <<>>) : g \in {"Rot", "U3", "CRot"}, a \in Grid3, b \in Grid3, d \in Grid3}
\cup {G("MultiControlledX", W(Len(cv)+1), <<>>, cv) : cv \in Cvs}
\cup {G("QFT", W(n), <<>>, <<>>) : n \in 1..(IF M >= 3 THEN 3 ELSE 2)}
Init == c \in Cases /\ done = FALSE
Rev(n) == [i \in 1..n |-> n + 1 - i]
\* mat = the documented matrix; rev = the same gate with its wires listed in reverse inside a register in
\* natural order (binds ApplyGate's wire convention to qp.matrix(op, wire_order=...))
Emit == ~done /\ done' = TRUE /\ c' = c /\
        LET g == GateM(c)  n == Len(c.w) IN
        PrintT(ToJson([c |-> c, mat |-> g,
                       rev |-> IF n >= 2 /\ n <= 3 THEN ApplyGate(Ident(2^n), g, Rev(n), n) ELSE [k |-> 0, e |-> <<>>]]))
Next == Emit
Unitary == IsUnitary(GateM(c))
NCases == Cardinality(Cases)
=============================================================================
