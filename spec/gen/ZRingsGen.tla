----------------------------- MODULE ZRingsGen ------------------------------
(***************************************************************************)
(* C16 model check + generator.  TLC proves the ring laws ON THE REFERENCE *)
(* (ZRings.tla) for every element of a coefficient box and emits, per      *)
(* element x, one row with the expected result of every enumerated         *)
(* operation (x op y for all y of the box, the unary operations, integer   *)
(* operations, conversions) for REPLAY on pennylane's ZSqrtTwo / ZOmega /  *)
(* DyadicMatrix / SO3Matrix classes.                                       *)
(*   mode "s2"   x in Z[sqrt2], box B2: pair laws (all y), row emitted     *)
(*   mode "s2t"  (x, y) in the box B2: triple laws (all z)                 *)
(*   mode "om"   x in Z[omega], box BO: pair laws (y in box BP), row emitted;*)
(*               the product is cross-checked against Cyclo.tla (M = 3)    *)
(*   mode "omt"  (x, y) in the box BT: triple laws (all z)                 *)
(*   mode "mat"  A = word over {H, T} of length <= WLEN: unitarity, SO(3)  *)
(*               orthogonality and homomorphism, (anti)automorphisms,      *)
(*               associativity / distributivity with all B, row emitted    *)
(***************************************************************************)
EXTENDS ZRings, Json, FiniteSets, SequencesExt
CONSTANTS MODES,       \* the subset of {"s2", "s2t", "om", "omt", "mat"} to run (one JVM)
          B2,          \* coefficient box of Z[sqrt2]: pairs and triples
          BO, BP, BE,  \* Z[omega]: x in box BO; pair laws against every y in box BP; emitted rows against every y in box BE
          BT, SPARSE,  \* Z[omega] triples: x, y in box BT, z in box BT with at most SPARSE non-zero coefficients
          WLEN         \* words over {H, T} up to this length
VARIABLES mode, i, j, done
vars == <<mode, i, j, done>>
C == INSTANCE Cyclo WITH M <- 3

Box(B) == (-B)..B
S2Set(B) == Box(B) \X Box(B)
OmSet(B) == Box(B) \X Box(B) \X Box(B) \X Box(B)
S2Seq == TLCEval(SetToSeq(S2Set(B2)))
OmSeq == TLCEval(SetToSeq(OmSet(BO)))
OmTSeq == TLCEval(SetToSeq(OmSet(BT)))
OmZT == TLCEval({z \in OmSet(BT) : Cardinality({m \in 1..4 : z[m] # 0}) <= SPARSE})
OmESeq == TLCEval(SetToSeq(OmSet(BE)))            \* the operands y of the emitted rows
NOmE == Len(OmESeq)
NS2 == Len(S2Seq)
NOm == Len(OmSeq)
NOmT == Len(OmTSeq)
ToCyclo(z) == <<z[4], z[3], z[2], z[1]>>
Ints == <<-3, -2, -1, 1, 2, 3>>                  \* integer operands
PosInts == <<1, 2, 3>>                           \* divisors for // and %

(* ------------------------------ words -> matrices ---------------------- *)
WordSeq == TLCEval(SetToSeq(UNION {[1..n -> {1, 2}] : n \in 0..WLEN}))
NW == Len(WordSeq)
RECURSIVE MatOfWord(_, _)
MatOfWord(w, n) == IF n = 0 THEN M2Id ELSE M2Mul(MatOfWord(w, n - 1), IF w[n] = 1 THEN M2H ELSE M2T)
Mats == TLCEval([n \in 1..NW |-> MatOfWord(WordSeq[n], Len(WordSeq[n]))])
SO3s == TLCEval([n \in 1..NW |-> SO3Ref(Mats[n])])

Init == /\ done = FALSE /\ mode \in MODES
        /\ CASE mode = "s2" -> (i \in 1..NS2 /\ j = 0)
             [] mode = "s2t" -> (i \in 1..NS2 /\ j \in 1..NS2)
             [] mode = "om" -> (i \in 1..NOm /\ j = 0)
             [] mode = "omt" -> (i \in 1..NOmT /\ j \in 1..NOmT)
             [] mode = "mat" -> (i \in 1..NW /\ j = 0)

(* ------------------------------- rows ---------------------------------- *)
S2Row(x) ==
  [kind |-> "s2", x |-> x,
   add |-> [n \in 1..NS2 |-> S2AddV(x, S2Seq[n])], sub |-> [n \in 1..NS2 |-> S2SubV(x, S2Seq[n])],
   mul |-> [n \in 1..NS2 |-> S2MulV(x, S2Seq[n])],
   quot |-> [n \in 1..NS2 |-> IF S2Seq[n] # S2Zero /\ S2Divides(S2Seq[n], x) THEN S2Quot(x, S2Seq[n]) ELSE <<>>],
   neg |-> S2Neg(x), conj |-> S2Conj(x), adj2 |-> S2Adj2(x), abs |-> S2Norm(x),
   pow |-> [n \in 1..5 |-> S2Pow(x, n - 1)], toom |-> S2ToOm(x),
   addi |-> [n \in 1..Len(Ints) |-> S2Add(x, S2Int(Ints[n]))], muli |-> [n \in 1..Len(Ints) |-> S2Scale(Ints[n], x)],
   rsubi |-> [n \in 1..Len(Ints) |-> S2Sub(S2Int(Ints[n]), x)],
   fdiv |-> [n \in 1..Len(PosInts) |-> <<x[1] \div PosInts[n], x[2] \div PosInts[n]>>],
   modi |-> [n \in 1..Len(PosInts) |-> <<x[1] % PosInts[n], x[2] % PosInts[n]>>],
   roots |-> SetToSeq(S2Roots(x, B2)), sq |-> S2Mul(x, x)]

SmallS2 == TLCEval(SetToSeq(S2Set(1)))
OmRow(x) ==
  [kind |-> "om", x |-> x,
   add |-> [n \in 1..NOmE |-> OmAddV(x, OmESeq[n])], sub |-> [n \in 1..NOmE |-> OmSubV(x, OmESeq[n])],
   mul |-> [n \in 1..NOmE |-> OmMulV(x, OmESeq[n])],
   neg |-> OmNeg(x), conj |-> OmConj(x), adj2 |-> OmAdj2(x), abs |-> OmAbs(x), norm |-> OmNormEl(x),
   pow |-> [n \in 1..4 |-> OmPow(x, n - 1)],
   real |-> OmIsReal(x), tos2 |-> IF OmIsReal(x) THEN OmToS2(x) ELSE <<>>,
   addi |-> [n \in 1..Len(Ints) |-> OmAdd(x, OmInt(Ints[n]))], muli |-> [n \in 1..Len(Ints) |-> OmScale(Ints[n], x)],
   rsubi |-> [n \in 1..Len(Ints) |-> OmSub(OmInt(Ints[n]), x)],
   fdiv |-> [n \in 1..Len(PosInts) |-> [m \in 1..4 |-> x[m] \div PosInts[n]]],
   fsp |-> [n \in 1..Len(SmallS2) |-> [m \in 1..Len(SmallS2) |-> OmFromSqrtPair(SmallS2[n], SmallS2[m], x)]],
   mr2 |-> OmMulRoot2(x), r2div |-> OmRoot2Divides(x)]

MatRow(n) ==
  LET A == Mats[n] IN
  [kind |-> "mat", w |-> WordSeq[n], raw |-> A, canon |-> M2Canon(A), so3 |-> M3Canon(SO3s[n]),
   neg |-> M2Canon(M2Neg(A)), conj |-> M2Canon(M2Conj(A)), adj2 |-> M2Canon(M2Adj2(A)),
   x2 |-> M2Canon(M2ScaleOm(A, OmInt(2))), xw |-> M2Canon(M2ScaleOm(A, OmW)),
   m2k |-> M2Canon(M2Mult2k(A, 1)), add1 |-> M2Canon(M2Add(A, M2Id)),
   prod |-> [m \in 1..NW |-> M2Canon(M2Mul(A, Mats[m]))],
   sum |-> [m \in 1..NW |-> M2Canon(M2Add(A, Mats[m]))],
   so3prod |-> [m \in 1..NW |-> M3Canon(M3Mul(SO3s[n], SO3s[m]))]]

Header == [kind |-> "hdr", s2 |-> S2Seq, om |-> OmESeq, ints |-> Ints, pos |-> PosInts, small |-> SmallS2, words |-> WordSeq]
Emit == /\ ~done /\ done' = TRUE /\ UNCHANGED <<mode, i, j>>
        /\ (i = 1 /\ j \in {0, 1} /\ mode = CHOOSE m \in MODES : TRUE) => PrintT(ToJson(Header))
        /\ CASE mode = "s2" -> \A x \in {S2Seq[i]} : PrintT(ToJson(S2Row(x)))
             [] mode = "om" -> \A x \in {OmSeq[i]} : PrintT(ToJson(OmRow(x)))
             [] mode = "mat" -> PrintT(ToJson(MatRow(i)))
             [] OTHER -> TRUE
Next == Emit

(* ------------------------------- laws: Z[sqrt2] ------------------------ *)
\* (intermediate results are bound as elements of singleton sets so that TLC evaluates each of them once)
S2Unary(x) ==
  /\ S2AddV(x, S2Zero) = x /\ S2MulV(x, S2One) = x /\ S2MulV(x, S2Zero) = S2Zero /\ S2AddV(x, S2NegV(x)) = S2Zero
  /\ S2Adj2V(S2Adj2V(x)) = x /\ S2Conj(x) = x
  /\ S2MulV(x, S2Adj2V(x)) = S2Int(S2NormV(x)) /\ S2NormV(x) = x[1] * x[1] - 2 * (x[2] * x[2])
  /\ (S2NormV(x) = 0 <=> x = S2Zero)
  /\ \A e \in {S2ToOmV(x)} : /\ OmToS2V(e) = x /\ OmIsRealV(e) /\ OmConjV(e) = e
                              /\ OmAdj2V(e) = S2ToOmV(S2Adj2V(x))
  /\ S2Pow(x, 3) = S2Mul(x, S2MulV(x, x)) /\ S2Pow(x, 0) = S2One /\ S2Pow(x, 1) = x
  /\ \A n \in 1..Len(PosInts) : LET d == PosInts[n]  q == <<x[1] \div d, x[2] \div d>>  r == <<x[1] % d, x[2] % d>> IN
        S2AddV(S2ScaleV(d, q), r) = x /\ r[1] \in 0..d - 1 /\ r[2] \in 0..d - 1
S2Pair(x, y) ==
  \A xy \in {S2MulV(x, y)}, s \in {S2AddV(x, y)}, ex \in {S2ToOmV(x)}, ey \in {S2ToOmV(y)} :
  /\ s = S2AddV(y, x) /\ xy = S2MulV(y, x)
  /\ S2SubV(x, y) = S2AddV(x, S2NegV(y)) /\ S2AddV(S2SubV(x, y), y) = x
  /\ S2Adj2V(xy) = S2MulV(S2Adj2V(x), S2Adj2V(y)) /\ S2Adj2V(s) = S2AddV(S2Adj2V(x), S2Adj2V(y))
  /\ S2NormV(xy) = S2NormV(x) * S2NormV(y)
  /\ S2ToOmV(xy) = OmMulV(ex, ey) /\ S2ToOmV(s) = OmAddV(ex, ey)
  /\ (xy = S2Zero => (x = S2Zero \/ y = S2Zero))
  /\ y # S2Zero => /\ (\E q \in S2Set(B2 + 2) : S2MulV(q, y) = x) => S2DividesV(y, x)
                   /\ S2DividesV(y, x) => S2MulV(S2QuotV(x, y), y) = x
                   /\ S2DividesV(y, xy) /\ S2QuotV(xy, y) = x
S2Triple(x, y, z) ==
  \A xy \in {S2MulV(x, y)}, yz \in {S2MulV(y, z)}, xz \in {S2MulV(x, z)} :
  /\ S2AddV(S2AddV(x, y), z) = S2AddV(x, S2AddV(y, z)) /\ S2MulV(xy, z) = S2MulV(x, yz)
  /\ S2MulV(x, S2AddV(y, z)) = S2AddV(xy, xz)
  /\ S2MulV(S2AddV(x, y), z) = S2AddV(xz, yz)
LawS2 == (mode = "s2" /\ done) => \A x \in {S2Seq[i]} : S2Unary(x) /\ \A y \in S2Set(B2) : S2Pair(x, y)
LawS2T == (mode = "s2t" /\ done) => \A x \in {S2Seq[i]}, y \in {S2Seq[j]} : \A z \in S2Set(B2) : S2Triple(x, y, z)

(* ------------------------------- laws: Z[omega] ------------------------ *)
OmConsts ==
  /\ OmMulV(OmW, OmMulV(OmW, OmMulV(OmW, OmW))) = OmNegV(OmOne) /\ OmMulV(OmRoot2, OmRoot2) = OmInt(2)
  /\ OmMulV(OmI, OmI) = OmNegV(OmOne) /\ OmConjV(OmW) = OmNegV(OmMulV(OmW, OmMulV(OmW, OmW)))
  /\ OmAdj2V(OmRoot2) = OmNegV(OmRoot2) /\ OmMulV(OmW, OmW) = OmI /\ OmSubV(OmW, OmMulV(OmW, OmI)) = OmRoot2
OmUnary(x) ==
  \A nx \in {OmNormElV(x)}, r2 \in {OmMulV(x, OmRoot2)} :
  /\ OmAddV(x, OmZero) = x /\ OmMulV(x, OmOne) = x /\ OmMulV(OmOne, x) = x /\ OmMulV(x, OmZero) = OmZero
  /\ OmAddV(x, OmNegV(x)) = OmZero /\ OmConjV(OmConjV(x)) = x /\ OmAdj2V(OmAdj2V(x)) = x
  /\ OmConjV(OmAdj2V(x)) = OmAdj2V(OmConjV(x))
  /\ OmIsRealV(nx) /\ OmConjV(nx) = nx
  /\ \A ab \in {OmAbs(x)} : ab >= 0 /\ (ab = 0 <=> x = OmZero) /\ OmMulV(nx, OmAdj2V(nx)) = OmInt(ab)
  /\ LET s == x[1] * x[1] + x[2] * x[2] + x[3] * x[3] + x[4] * x[4]
         t == x[1] * x[2] + x[2] * x[3] + x[3] * x[4] - x[4] * x[1] IN OmToS2V(nx) = <<s, t>>
  /\ OmIsRealV(x) => S2ToOmV(OmToS2V(x)) = x
  /\ OmIsRealV(x) <=> OmConjV(x) = x
  /\ OmRoot2Divides(x) => OmMulRoot2(OmDivRoot2(x)) = x
  /\ SeqAllEvenV(OmMulV(r2, OmRoot2)) /\ OmHalveV(OmMulV(r2, OmRoot2)) = x
  /\ OmPow(x, 3) = OmMulV(x, OmMulV(x, x)) /\ OmPow(x, 0) = OmOne /\ OmPow(x, 1) = x
  /\ OmConjV(x) = ToCyclo(C!Conj(ToCyclo(x)))
OmPair(x, y, nx) ==
  \A xy \in {OmMulV(x, y)}, s \in {OmAddV(x, y)}, ny \in {OmNormElV(y)} :
  /\ s = OmAddV(y, x) /\ xy = OmMulV(y, x)
  /\ OmSubV(x, y) = OmAddV(x, OmNegV(y)) /\ OmAddV(OmSubV(x, y), y) = x
  /\ OmConjV(xy) = OmMulV(OmConjV(x), OmConjV(y)) /\ OmConjV(s) = OmAddV(OmConjV(x), OmConjV(y))
  /\ OmAdj2V(xy) = OmMulV(OmAdj2V(x), OmAdj2V(y)) /\ OmAdj2V(s) = OmAddV(OmAdj2V(x), OmAdj2V(y))
  /\ OmNormElV(xy) = OmMulV(nx, ny)
  /\ S2NormV(OmToS2V(OmNormElV(xy))) = S2NormV(OmToS2V(nx)) * S2NormV(OmToS2V(ny))
  /\ (xy = OmZero => (x = OmZero \/ y = OmZero))
  /\ xy = ToCyclo(C!Mul(ToCyclo(x), ToCyclo(y)))                 \* second, independent implementation (Cyclo.tla, M = 3)
\* on the small box also: the generic negacyclic convolution of Cyclo.tla, and exact divisibility y | x*y
OmPairT(x, y) ==
  \A xy \in {OmMulV(x, y)} :
  /\ xy = OmMulDef(x, y) /\ OmConjV(x) = OmConjDef(x) /\ OmAdj2V(x) = OmAdj2Def(x)
  /\ \A cx \in {ToCyclo(x)}, cy \in {ToCyclo(y)} : xy = ToCyclo(C!MulG(cx, cy)) /\ xy = ToCyclo(C!Mul(cx, cy))
  /\ y # OmZero => OmDividesV(y, xy)
  /\ (y # OmZero /\ OmAbs(y) > OmAbs(x) /\ x # OmZero) => ~OmDividesV(y, x)       \* a divisor cannot have the larger norm
\* x, y fixed per state: xy, x + y are passed in evaluated
OmTriple(x, y, z, xy, s) ==
  \A yz \in {OmMulV(y, z)}, xz \in {OmMulV(x, z)} :
  /\ OmAddV(s, z) = OmAddV(x, OmAddV(y, z)) /\ OmMulV(xy, z) = OmMulV(x, yz)
  /\ OmMulV(x, OmAddV(y, z)) = OmAddV(xy, xz)
  /\ OmMulV(s, z) = OmAddV(xz, yz)
\* pairs are checked once per unordered pair (every conjunct of OmPair is symmetric or checks both orders)
LawOm == (mode = "om" /\ done) => \A x \in {OmSeq[i]} :
            /\ OmUnary(x) /\ (i = 1 => OmConsts)
            /\ \A nx \in {OmNormElV(x)} :
                  IF BP = BO THEN \A n \in i..NOm : \A y \in {OmSeq[n]} : OmPair(x, y, nx)
                  ELSE \A y \in OmSet(BP) : OmPair(x, y, nx)
LawOmT == (mode = "omt" /\ done) => \A x \in {OmTSeq[i]}, y \in {OmTSeq[j]} :
             /\ OmPairT(x, y)
             /\ \A xy \in {OmMulV(x, y)}, s \in {OmAddV(x, y)} : \A z \in OmZT : OmTriple(x, y, z, xy, s)

(* ------------------------------- laws: matrices ------------------------ *)
MatUnary(n) ==
  \A A \in {Mats[n]}, R \in {SO3s[n]} : \A cA \in {M2CanonV(A)} :
  /\ M2IsUnitary(A) /\ M2ValEqV(cA, A) /\ ~M2ReducibleV(cA) /\ cA.k >= 0
  /\ M2ValEq(M2MulV(A, M2Id), A) /\ M2ValEq(M2MulV(M2Id, A), A) /\ M2IsZero(M2AddV(A, M2NegV(A)))
  /\ SO3AllRealV(A)
  /\ M3ValEq(M3MulV(R, M3TransposeV(R)), M3Id) /\ M3ValEq(M3CanonV(R), R)
  /\ M2ValEq(M2ConjV(M2ConjV(A)), A) /\ M2ValEq(M2Adj2V(M2Adj2V(A)), A)
  /\ M2ValEq(M2Mult2kV(A, 1), M2ScaleOmV(A, OmInt(2))) /\ M2ValEq(M2AddV(A, A), M2ScaleOmV(A, OmInt(2)))
MatPair(n, m) ==
  \A A \in {Mats[n]}, B \in {Mats[m]} : \A AB \in {M2MulV(A, B)}, S \in {M2AddV(A, B)} :
  /\ M3ValEq(SO3RefV(AB), M3MulV(SO3s[n], SO3s[m]))                         \* SO(3) is a homomorphism
  /\ M2ValEq(M2ConjV(AB), M2MulV(M2ConjV(A), M2ConjV(B))) /\ M2ValEq(M2ConjV(S), M2AddV(M2ConjV(A), M2ConjV(B)))
  /\ M2ValEq(M2Adj2V(AB), M2MulV(M2Adj2V(A), M2Adj2V(B))) /\ M2ValEq(M2Adj2V(S), M2AddV(M2Adj2V(A), M2Adj2V(B)))
  /\ M2ValEq(M2DaggerV(AB), M2MulV(M2DaggerV(B), M2DaggerV(A)))
  /\ M2ValEq(S, M2AddV(B, A))
  /\ \A D \in {M2MulV(M2T, M2H)} : \A BD \in {M2MulV(B, D)}, AD \in {M2MulV(A, D)} :
        /\ M2ValEq(M2MulV(AB, D), M2MulV(A, BD))
        /\ M2ValEq(M2MulV(A, M2AddV(B, D)), M2AddV(AB, AD))
        /\ M2ValEq(M2MulV(S, D), M2AddV(AD, BD))
        /\ M2ValEq(M2AddV(S, D), M2AddV(A, M2AddV(B, D)))
LawMat == (mode = "mat" /\ done) => MatUnary(i) /\ \A m \in 1..NW : MatPair(i, m)
=============================================================================
