----------------------------- MODULE ZRingsGen ------------------------------
(***************************************************************************)
(* C16 model check + generator.  TLC proves the ring laws ON THE REFERENCE *)
(* (ZRings.tla) for every element of a coefficient box and emits, per      *)
(* element x, one row with the expected result of every enumerated         *)
(* operation (x op y for all y of the box, the unary operations, integer   *)
(* operations, conversions) for REPLAY on pennylane's ZSqrtTwo / ZOmega /  *)
(* DyadicMatrix / SO3Matrix classes.                                       *)
(*   MODE "s2"   x in Z[sqrt2], box B2: pair laws (all y), row emitted     *)
(*   MODE "s2t"  (x, y) in the box B2: triple laws (all z)                 *)
(*   MODE "om"   x in Z[omega], box BO: pair laws (all y), row emitted;    *)
(*               the product is cross-checked against Cyclo.tla (M = 3)    *)
(*   MODE "omt"  (x, y) in the box BT: triple laws (all z)                 *)
(*   MODE "mat"  A = word over {H, T} of length <= WLEN: unitarity, SO(3)  *)
(*               orthogonality and homomorphism, (anti)automorphisms,      *)
(*               associativity / distributivity with all B, row emitted    *)
(***************************************************************************)
EXTENDS ZRings, Json, FiniteSets, SequencesExt
CONSTANTS MODE, B2, BO, BT, WLEN
VARIABLES i, j, done
vars == <<i, j, done>>
C == INSTANCE Cyclo WITH M <- 3

Box(B) == (-B)..B
S2Set(B) == Box(B) \X Box(B)
OmSet(B) == Box(B) \X Box(B) \X Box(B) \X Box(B)
S2Seq == TLCEval(SetToSeq(S2Set(B2)))
OmSeq == TLCEval(SetToSeq(OmSet(BO)))
OmTSeq == TLCEval(SetToSeq(OmSet(BT)))
NS2 == Len(S2Seq)
NOm == Len(OmSeq)
NOmT == Len(OmTSeq)
ToCyclo(z) == <<z[4], z[3], z[2], z[1]>>
Ints == <<-3, -2, -1, 1, 2, 3>>                  \* integer operands
PosInts == <<1, 2, 3>>                           \* divisors for // and %

(* ------------------------------ words -> matrices ---------------------- *)
WordSeq == TLCEval(SetToSeq(UNION {[1..n -> {1, 2}] : n \in 0..WLEN}))
NW == Len(WordSeq)
RECURSIVE MatOfWord(_, _)
MatOfWord(w, n) == IF n = 0 THEN M2Id ELSE M2Mul(MatOfWord(w, n - 1), IF w[n] = 1 THEN M2H ELSE M2T)
Mats == TLCEval([n \in 1..NW |-> MatOfWord(WordSeq[n], Len(WordSeq[n]))])
SO3s == TLCEval([n \in 1..NW |-> SO3Ref(Mats[n])])

Init == /\ done = FALSE
        /\ CASE MODE = "s2" -> (i \in 1..NS2 /\ j = 0)
             [] MODE = "s2t" -> (i \in 1..NS2 /\ j \in 1..NS2)
             [] MODE = "om" -> (i \in 1..NOm /\ j = 0)
             [] MODE = "omt" -> (i \in 1..NOmT /\ j \in 1..NOmT)
             [] MODE = "mat" -> (i \in 1..NW /\ j = 0)

(* ------------------------------- rows ---------------------------------- *)
S2Row(x) ==
  [kind |-> "s2", x |-> x,
   add |-> [n \in 1..NS2 |-> S2Add(x, S2Seq[n])], sub |-> [n \in 1..NS2 |-> S2Sub(x, S2Seq[n])],
   mul |-> [n \in 1..NS2 |-> S2Mul(x, S2Seq[n])],
   quot |-> [n \in 1..NS2 |-> LET y == S2Seq[n] IN IF y # S2Zero /\ S2Divides(y, x) THEN S2Quot(x, y) ELSE <<>>],
   neg |-> S2Neg(x), conj |-> S2Conj(x), adj2 |-> S2Adj2(x), abs |-> S2Norm(x),
   pow |-> [n \in 1..5 |-> S2Pow(x, n - 1)], toom |-> S2ToOm(x),
   addi |-> [n \in 1..Len(Ints) |-> S2Add(x, S2Int(Ints[n]))], muli |-> [n \in 1..Len(Ints) |-> S2Scale(Ints[n], x)],
   rsubi |-> [n \in 1..Len(Ints) |-> S2Sub(S2Int(Ints[n]), x)],
   fdiv |-> [n \in 1..Len(PosInts) |-> <<x[1] \div PosInts[n], x[2] \div PosInts[n]>>],
   modi |-> [n \in 1..Len(PosInts) |-> <<x[1] % PosInts[n], x[2] % PosInts[n]>>],
   roots |-> SetToSeq(S2Roots(x, B2)), sq |-> S2Mul(x, x)]

SmallS2 == TLCEval(SetToSeq(S2Set(1)))
OmRow(x) ==
  [kind |-> "om", x |-> x,
   add |-> [n \in 1..NOm |-> OmAdd(x, OmSeq[n])], sub |-> [n \in 1..NOm |-> OmSub(x, OmSeq[n])],
   mul |-> [n \in 1..NOm |-> OmMul(x, OmSeq[n])],
   neg |-> OmNeg(x), conj |-> OmConj(x), adj2 |-> OmAdj2(x), abs |-> OmAbs(x), norm |-> OmNormEl(x),
   pow |-> [n \in 1..4 |-> OmPow(x, n - 1)],
   real |-> OmIsReal(x), tos2 |-> IF OmIsReal(x) THEN OmToS2(x) ELSE <<>>,
   addi |-> [n \in 1..Len(Ints) |-> OmAdd(x, OmInt(Ints[n]))], muli |-> [n \in 1..Len(Ints) |-> OmScale(Ints[n], x)],
   rsubi |-> [n \in 1..Len(Ints) |-> OmSub(OmInt(Ints[n]), x)],
   fdiv |-> [n \in 1..Len(PosInts) |-> [m \in 1..4 |-> x[m] \div PosInts[n]]],
   fsp |-> [n \in 1..Len(SmallS2) |-> [m \in 1..Len(SmallS2) |-> OmFromSqrtPair(SmallS2[n], SmallS2[m], x)]],
   mr2 |-> OmMulRoot2(x), r2div |-> OmRoot2Divides(x)]

MatRow(n) ==
  LET A == Mats[n] IN
  [kind |-> "mat", w |-> WordSeq[n], raw |-> A, canon |-> M2Canon(A), so3 |-> M3Canon(SO3s[n]),
   neg |-> M2Canon(M2Neg(A)), conj |-> M2Canon(M2Conj(A)), adj2 |-> M2Canon(M2Adj2(A)),
   x2 |-> M2Canon(M2ScaleOm(A, OmInt(2))), xw |-> M2Canon(M2ScaleOm(A, OmW)),
   m2k |-> M2Canon(M2Mult2k(A, 1)), add1 |-> M2Canon(M2Add(A, M2Id)),
   prod |-> [m \in 1..NW |-> M2Canon(M2Mul(A, Mats[m]))],
   sum |-> [m \in 1..NW |-> M2Canon(M2Add(A, Mats[m]))],
   so3prod |-> [m \in 1..NW |-> M3Canon(M3Mul(SO3s[n], SO3s[m]))]]

Header == [kind |-> "hdr", s2 |-> S2Seq, om |-> IF MODE = "om" THEN OmSeq ELSE <<>>, ints |-> Ints, pos |-> PosInts,
           small |-> SmallS2, words |-> IF MODE = "mat" THEN WordSeq ELSE <<>>]
Emit == /\ ~done /\ done' = TRUE /\ UNCHANGED <<i, j>>
        /\ (i = 1 /\ j \in {0, 1}) => PrintT(ToJson(Header))
        /\ CASE MODE = "s2" -> PrintT(ToJson(S2Row(S2Seq[i])))
             [] MODE = "om" -> PrintT(ToJson(OmRow(OmSeq[i])))
             [] MODE = "mat" -> PrintT(ToJson(MatRow(i)))
             [] OTHER -> TRUE
Next == Emit

(* ------------------------------- laws: Z[sqrt2] ------------------------ *)
S2Unary(x) ==
  /\ S2Add(x, S2Zero) = x /\ S2Mul(x, S2One) = x /\ S2Mul(x, S2Zero) = S2Zero /\ S2Add(x, S2Neg(x)) = S2Zero
  /\ S2Adj2(S2Adj2(x)) = x /\ S2Conj(x) = x
  /\ S2Mul(x, S2Adj2(x)) = S2Int(S2Norm(x)) /\ S2Norm(x) = x[1] * x[1] - 2 * (x[2] * x[2])
  /\ (S2Norm(x) = 0 <=> x = S2Zero)
  /\ OmToS2(S2ToOm(x)) = x /\ OmIsReal(S2ToOm(x)) /\ OmConj(S2ToOm(x)) = S2ToOm(x)
  /\ OmAdj2(S2ToOm(x)) = S2ToOm(S2Adj2(x))
  /\ S2Pow(x, 3) = S2Mul(x, S2Mul(x, x))
  /\ \A n \in 1..Len(PosInts) : LET d == PosInts[n]  q == <<x[1] \div d, x[2] \div d>>  r == <<x[1] % d, x[2] % d>> IN
        S2Add(S2Scale(d, q), r) = x /\ r[1] \in 0..d - 1 /\ r[2] \in 0..d - 1
S2Pair(x, y) ==
  /\ S2Add(x, y) = S2Add(y, x) /\ S2Mul(x, y) = S2Mul(y, x)
  /\ S2Sub(x, y) = S2Add(x, S2Neg(y)) /\ S2Add(S2Sub(x, y), y) = x
  /\ S2Adj2(S2Mul(x, y)) = S2Mul(S2Adj2(x), S2Adj2(y)) /\ S2Adj2(S2Add(x, y)) = S2Add(S2Adj2(x), S2Adj2(y))
  /\ S2Norm(S2Mul(x, y)) = S2Norm(x) * S2Norm(y)
  /\ S2ToOm(S2Mul(x, y)) = OmMul(S2ToOm(x), S2ToOm(y)) /\ S2ToOm(S2Add(x, y)) = OmAdd(S2ToOm(x), S2ToOm(y))
  /\ (S2Mul(x, y) = S2Zero => (x = S2Zero \/ y = S2Zero))
  /\ y # S2Zero => /\ (\E q \in S2Set(3 * B2) : S2Mul(q, y) = x) => S2Divides(y, x)
                   /\ S2Divides(y, x) => S2Mul(S2Quot(x, y), y) = x
S2Triple(x, y, z) ==
  /\ S2Add(S2Add(x, y), z) = S2Add(x, S2Add(y, z)) /\ S2Mul(S2Mul(x, y), z) = S2Mul(x, S2Mul(y, z))
  /\ S2Mul(x, S2Add(y, z)) = S2Add(S2Mul(x, y), S2Mul(x, z))
  /\ S2Mul(S2Add(x, y), z) = S2Add(S2Mul(x, z), S2Mul(y, z))
LawS2 == (MODE = "s2" /\ done) => LET x == S2Seq[i] IN S2Unary(x) /\ \A y \in S2Set(B2) : S2Pair(x, y)
LawS2T == (MODE = "s2t" /\ done) => \A z \in S2Set(B2) : S2Triple(S2Seq[i], S2Seq[j], z)

(* ------------------------------- laws: Z[omega] ------------------------ *)
OmUnary(x) ==
  /\ OmAdd(x, OmZero) = x /\ OmMul(x, OmOne) = x /\ OmMul(OmOne, x) = x /\ OmMul(x, OmZero) = OmZero
  /\ OmAdd(x, OmNeg(x)) = OmZero /\ OmConj(OmConj(x)) = x /\ OmAdj2(OmAdj2(x)) = x
  /\ OmConj(OmAdj2(x)) = OmAdj2(OmConj(x))
  /\ OmIsReal(OmNormEl(x)) /\ OmConj(OmNormEl(x)) = OmNormEl(x)
  /\ OmAbs(x) >= 0 /\ (OmAbs(x) = 0 <=> x = OmZero)
  /\ OmMul(OmNormEl(x), OmAdj2(OmNormEl(x))) = OmInt(OmAbs(x))
  /\ LET s == x[1] * x[1] + x[2] * x[2] + x[3] * x[3] + x[4] * x[4]
         t == x[1] * x[2] + x[2] * x[3] + x[3] * x[4] - x[4] * x[1] IN OmToS2(OmNormEl(x)) = <<s, t>>
  /\ OmIsReal(x) => S2ToOm(OmToS2(x)) = x
  /\ OmIsReal(x) <=> OmConj(x) = x
  /\ OmMul(OmW, OmMul(OmW, OmMul(OmW, OmW))) = OmNeg(OmOne) /\ OmMul(OmRoot2, OmRoot2) = OmInt(2)
  /\ OmMul(OmI, OmI) = OmNeg(OmOne) /\ OmConj(OmW) = OmNeg(OmMul(OmW, OmMul(OmW, OmW))) /\ OmAdj2(OmRoot2) = OmNeg(OmRoot2)
  /\ OmRoot2Divides(x) => OmMulRoot2(OmDivRoot2(x)) = x
  /\ OmRoot2Divides(OmMulRoot2(x)) /\ OmDivRoot2(OmMulRoot2(x)) = x
OmPair(x, y) ==
  /\ OmAdd(x, y) = OmAdd(y, x) /\ OmMul(x, y) = OmMul(y, x)
  /\ OmSub(x, y) = OmAdd(x, OmNeg(y)) /\ OmAdd(OmSub(x, y), y) = x
  /\ OmConj(OmMul(x, y)) = OmMul(OmConj(x), OmConj(y)) /\ OmConj(OmAdd(x, y)) = OmAdd(OmConj(x), OmConj(y))
  /\ OmAdj2(OmMul(x, y)) = OmMul(OmAdj2(x), OmAdj2(y)) /\ OmAdj2(OmAdd(x, y)) = OmAdd(OmAdj2(x), OmAdj2(y))
  /\ OmNormEl(OmMul(x, y)) = OmMul(OmNormEl(x), OmNormEl(y))
  /\ OmAbs(OmMul(x, y)) = OmAbs(x) * OmAbs(y)
  /\ (OmMul(x, y) = OmZero => (x = OmZero \/ y = OmZero))
  /\ OmMul(x, y) = ToCyclo(C!MulG(ToCyclo(x), ToCyclo(y)))       \* second, independent implementation
  /\ OmMul(x, y) = ToCyclo(C!Mul(ToCyclo(x), ToCyclo(y)))
  /\ OmConj(x) = ToCyclo(C!Conj(ToCyclo(x)))
  /\ (y # OmZero /\ OmDivides(y, OmMul(x, y)))
OmTriple(x, y, z) ==
  /\ OmAdd(OmAdd(x, y), z) = OmAdd(x, OmAdd(y, z)) /\ OmMul(OmMul(x, y), z) = OmMul(x, OmMul(y, z))
  /\ OmMul(x, OmAdd(y, z)) = OmAdd(OmMul(x, y), OmMul(x, z))
  /\ OmMul(OmAdd(x, y), z) = OmAdd(OmMul(x, z), OmMul(y, z))
LawOm == (MODE = "om" /\ done) => LET x == OmSeq[i] IN OmUnary(x) /\ \A y \in OmSet(BO) : (y = OmZero \/ OmPair(x, y))
LawOmT == (MODE = "omt" /\ done) => \A z \in OmSet(BT) : OmTriple(OmTSeq[i], OmTSeq[j], z)

(* ------------------------------- laws: matrices ------------------------ *)
MatUnary(n) ==
  LET A == Mats[n]  R == SO3s[n] IN
  /\ M2IsUnitary(A) /\ M2ValEq(M2Canon(A), A) /\ ~M2Reducible(M2Canon(A)) /\ M2Canon(A).k >= 0
  /\ M2ValEq(M2Mul(A, M2Id), A) /\ M2ValEq(M2Mul(M2Id, A), A) /\ M2IsZero(M2Add(A, M2Neg(A)))
  /\ \A a \in 1..3, b \in 1..3 : SO3EntReal(A, a, b)
  /\ M3ValEq(M3Mul(R, M3Transpose(R)), M3Id) /\ M3ValEq(M3Canon(R), R)
  /\ M2ValEq(M2Conj(M2Conj(A)), A) /\ M2ValEq(M2Adj2(M2Adj2(A)), A)
  /\ M2ValEq(M2Mult2k(A, 1), M2ScaleOm(A, OmInt(2))) /\ M2ValEq(M2Add(A, A), M2ScaleOm(A, OmInt(2)))
MatPair(n, m) ==
  LET A == Mats[n]  B == Mats[m] IN
  /\ M3ValEq(SO3Ref(M2Mul(A, B)), M3Mul(SO3s[n], SO3s[m]))                  \* SO(3) is a homomorphism
  /\ M2ValEq(M2Conj(M2Mul(A, B)), M2Mul(M2Conj(A), M2Conj(B))) /\ M2ValEq(M2Conj(M2Add(A, B)), M2Add(M2Conj(A), M2Conj(B)))
  /\ M2ValEq(M2Adj2(M2Mul(A, B)), M2Mul(M2Adj2(A), M2Adj2(B))) /\ M2ValEq(M2Adj2(M2Add(A, B)), M2Add(M2Adj2(A), M2Adj2(B)))
  /\ M2ValEq(M2Dagger(M2Mul(A, B)), M2Mul(M2Dagger(B), M2Dagger(A)))
  /\ M2ValEq(M2Add(A, B), M2Add(B, A))
  /\ \A D \in {M2H, M2T, M2Mul(M2T, M2H)} :
        /\ M2ValEq(M2Mul(M2Mul(A, B), D), M2Mul(A, M2Mul(B, D)))
        /\ M2ValEq(M2Mul(A, M2Add(B, D)), M2Add(M2Mul(A, B), M2Mul(A, D)))
        /\ M2ValEq(M2Mul(M2Add(A, B), D), M2Add(M2Mul(A, D), M2Mul(B, D)))
        /\ M2ValEq(M2Add(M2Add(A, B), D), M2Add(A, M2Add(B, D)))
LawMat == (MODE = "mat" /\ done) => MatUnary(i) /\ \A m \in 1..NW : MatPair(i, m)
=============================================================================
