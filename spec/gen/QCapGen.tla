------------------------------ MODULE QCapGen -------------------------------
(***************************************************************************)
(* Generator for C42 (REPLAY): the behaviours of spec/gen/QProgGen.tla     *)
(* (every program of the QProg grammar run through the Queuing state       *)
(* machine under its invariants), emitted in the form the capture          *)
(* round-trip needs: the program, the table of all objects, the final      *)
(* tape (operators then measurements, or the documented error when an      *)
(* operator follows a measurement) and the values returned by the          *)
(* top-level loops (the "ret" micro-actions of Flat(prog) whose path has   *)
(* length 1), in program order.                                            *)
(***************************************************************************)
EXTENDS QProgGen
TopRets == LET r == SelectSeq(acts, LAMBDA a : a.a = "ret" /\ Len(a.p) = 1) IN [i \in 1..Len(r) |-> r[i].r]
EmitCap == IF status = "done"
           THEN PrintT(ToJson([prog |-> prog, flav |-> flav, objs |-> objs, tape |-> Tape, rets |-> TopRets, nacts |-> Len(acts)]))
           ELSE TRUE
=============================================================================
