------------------------------- MODULE GF2Gen -------------------------------
(***************************************************************************)
(* C50 generator / model check.  One behaviour per binary matrix of every  *)
(* shape in Shapes: Gauss-Jordan elimination runs one row operation per    *)
(* TLC step; TLC checks at every step that the row space is preserved and  *)
(* T*A = mat, and at the end that the elimination read-offs (RREF, rank,   *)
(* solvability, particular solution, number of solutions, kernel basis)    *)
(* equal the brute-force definitions over all 2^n vectors, for every       *)
(* right-hand side.  The finished case is emitted with its expected values *)
(* for REPLAY into pennylane.math.binary_*.                                *)
(***************************************************************************)
EXTENDS GF2, Json
CONSTANTS Shapes,          \* set of <<m, n>>: every binary matrix of these shapes is enumerated
          Extra            \* set of [m, n, A]: further (larger, seeded) matrices
VARIABLES m, n, A, e, done
vars == <<m, n, A, e, done>>
Init == /\ \/ \E sh \in Shapes : m = sh[1] /\ n = sh[2] /\ A \in Mats(m, n)
           \/ \E x \in Extra : m = x.m /\ n = x.n /\ A = x.A
        /\ e = ElimInit(A, m) /\ done = FALSE
Step == ~ElimDone(e, m, n) /\ e' = ElimStep(e, m, n) /\ UNCHANGED <<m, n, A, done>>
BitsOf(k, w) == [i \in 1..w |-> (k \div 2^(w - i)) % 2]
Sols == [k \in 1..2^m |-> LET b == BitsOf(k - 1, m)  ok == SolvableE(e, b, m) IN
            [b |-> b, ok |-> ok, x |-> IF ok THEN ParticularE(e, b, m, n) ELSE <<>>, ns |-> NumSolutionsE(e, b, m, n)]]
\* (= TRUE keeps TLC from splitting the disjunction in ElimDone into two sub-actions, which would emit twice)
Emit == /\ ElimDone(e, m, n) = TRUE /\ ~done /\ done' = TRUE /\ UNCHANGED <<m, n, A, e>>
        /\ PrintT(ToJson([m |-> m, n |-> n, A |-> A, rref |-> e.mat, rank |-> RankE(e), piv |-> e.piv,
                          sols |-> Sols, kern |-> KernelBasisE(e, n)]))
Next == Step \/ Emit

\* every elimination step is a row operation: row space preserved, transformation tracked
StepInv == /\ RowSpace(e.mat, m, n) = RowSpace(A, m, n)
           /\ MatMul(e.T, A, m, m, n) = e.mat
           /\ RankE(e) = e.r - 1
\* (ELIM) = (BF) when the elimination has finished
RrefAgree == done => /\ e.mat = RrefBF(A, m, n) /\ IsRREF(e.mat, m, n)
                                  /\ \A R \in {A} : IsRREF(R, m, n) => R = e.mat     \* an RREF input is a fixpoint
RankAgree == done => /\ RankE(e) = RankBF(A, m, n) /\ RankE(e) = ColRankBF(A, m, n)
SolveAgree == done =>
  \A b \in Vecs(m) : LET S == Solutions(A, b, m, n) IN
     /\ SolvableE(e, b, m) <=> S # {}
     /\ SolvableE(e, b, m) <=> b \in ColSpace(A, m, n)
     /\ SolvableE(e, b, m) => ParticularE(e, b, m, n) \in S
     /\ Cardinality(S) = NumSolutionsE(e, b, m, n)
KernelAgree == done =>
  LET kb == KernelBasisE(e, n)  k == n - RankE(e) IN
     /\ Len(kb) = k /\ RowSpace(kb, k, n) = Kernel(A, m, n) /\ Cardinality(Kernel(A, m, n)) = 2^k
\* the pivot columns are the greedy left-to-right column basis
GreedyAgree == done =>
  \A j \in 1..n : (\E i \in 1..RankE(e) : e.piv[i] = j)
                  <=> IndependentBF(Col(A, j, m), [i \in 1..m |-> SubSeq(A[i], 1, j - 1)], m, j - 1)
=============================================================================
