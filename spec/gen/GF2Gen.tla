------------------------------- MODULE GF2Gen -------------------------------
(***************************************************************************)
(* C50 generator / model check.  One behaviour per binary matrix of every  *)
(* shape in Shapes (and per matrix in Extra):                              *)
(*   prep  the brute-force objects are computed once: rsp = the row space  *)
(*         (all 2^m row combinations) and img = the map x |-> A x over all *)
(*         2^n vectors;                                                    *)
(*   elim  Gauss-Jordan elimination runs one row operation per TLC step;   *)
(*         TLC checks at every step that the row space is preserved and    *)
(*         T*A = mat;                                                      *)
(*   done  TLC checks that the elimination read-offs (RREF, rank,          *)
(*         solvability, particular solution, number of solutions, kernel   *)
(*         basis, pivot columns) equal the brute-force definitions, for    *)
(*         every right-hand side, and the case is emitted with its         *)
(*         expected values for REPLAY into pennylane.math.binary_*.        *)
(*         The systems the consumers pose are read off the same            *)
(*         elimination and checked against their brute-force definitions: *)
(*         the symmetry group of the Hamiltonian with terms (x|z) = rows   *)
(*         of A (SymAgree; replayed into qchem.symmetry_generators) and    *)
(*         the RowCol row selections of a regular A (RowSelAgree; replayed *)
(*         into transforms.intermediate_reps.rowcol).                      *)
(***************************************************************************)
EXTENDS GF2, Json
CONSTANTS Shapes,          \* set of <<m, n>>: every binary matrix of these shapes is enumerated
          Extra            \* set of [m, n, A]: further (larger, seeded) matrices
VARIABLES m, n, A, e, pc, rsp, img
vars == <<m, n, A, e, pc, rsp, img>>
Init == /\ \/ \E sh \in Shapes : m = sh[1] /\ n = sh[2] /\ A \in Mats(m, n)
           \/ \E x \in Extra : m = x.m /\ n = x.n /\ A = x.A
        /\ e = ElimInit(A, m) /\ pc = "prep" /\ rsp = {} /\ img = <<>>
Prep == /\ pc = "prep" /\ pc' = "elim"
        /\ rsp' = RowSpace(A, m, n)
        /\ img' = [x \in Vecs(n) |-> MulVec(A, x, m, n)]
        /\ UNCHANGED <<m, n, A, e>>
\* (= TRUE / = FALSE keep TLC from splitting the disjunction in ElimDone into two sub-actions, which would emit twice)
Step == /\ pc = "elim" /\ ElimDone(e, m, n) = FALSE
        /\ e' = ElimStep(e, m, n) /\ UNCHANGED <<m, n, A, pc, rsp, img>>
BitsOf(k, w) == [i \in 1..w |-> (k \div 2^(w - i)) % 2]
Sols == [k \in 1..2^m |-> LET b == BitsOf(k - 1, m)  ok == SolvableE(e, b, m) IN
            [b |-> b, ok |-> ok, x |-> IF ok THEN ParticularE(e, b, m, n) ELSE <<>>, ns |-> NumSolutionsE(e, b, m, n)]]
\* the systems the consumers pose, read off the same elimination:
\* (SYM) n = 2q, the rows of A are the terms (x|z) of a Hamiltonian: a basis of its symmetry group is the kernel basis with
\*       the halves exchanged (<<>> for odd n);
\* (ROWSEL) A regular: the rows of A whose sum is e_i are selected by row i of T = A^-1 (<<>> when A is not regular)
HasSym == n > 0 /\ n % 2 = 0
IsRegular == m = n /\ RankE(e) = n
SymBasisE == IF HasSym THEN LET kb == KernelBasisE(e, n) IN [k \in 1..Len(kb) |-> SwapHalves(kb[k], n \div 2)] ELSE <<>>
RowSelE == IF IsRegular THEN e.T ELSE <<>>
Emit == /\ pc = "elim" /\ ElimDone(e, m, n) = TRUE /\ pc' = "done" /\ UNCHANGED <<m, n, A, e, rsp, img>>
        /\ PrintT(ToJson([m |-> m, n |-> n, A |-> A, rref |-> e.mat, rank |-> RankE(e), piv |-> e.piv,
                          sols |-> Sols, kern |-> KernelBasisE(e, n), sym |-> SymBasisE, inv |-> RowSelE]))
Next == Prep \/ Step \/ Emit

\* the brute-force objects, read from the state
ColSp == {img[x] : x \in Vecs(n)}
SolSet(b) == {x \in Vecs(n) : img[x] = b}
\* span of the first j-1 columns = images of the vectors supported on 1..j-1
PrefixSpan(j) == {img[x] : x \in {y \in Vecs(n) : \A k \in j..n : y[k] = 0}}
\* the state-bound objects are the GF2 definitions (checked right after prep; every right-hand side for the small shapes)
PrepOK == (pc = "elim" /\ e.c = 1) =>
  /\ rsp = RowSpace(A, m, n) /\ ColSp = ColSpace(A, m, n) /\ SolSet(Zero(m)) = Kernel(A, m, n)
  /\ \A b \in (IF m * n <= 8 THEN Vecs(m) ELSE {img[[i \in 1..n |-> 1]]}) : SolSet(b) = Solutions(A, b, m, n)
\* every elimination step is a row operation: row space preserved, transformation tracked
StepInv == pc # "prep" => /\ RowSpace(e.mat, m, n) = rsp
                          /\ MatMul(e.T, A, m, m, n) = e.mat
                          /\ RankE(e) = e.r - 1
\* (ELIM) = (BF) when the elimination has finished
RrefAgree == pc = "done" => /\ e.mat = RrefOfSpace(rsp, m, n) /\ IsRREF(e.mat, m, n)
                            /\ (IsRREF(A, m, n) => A = e.mat)                      \* an RREF input is a fixpoint
RankAgree == pc = "done" => /\ 2^RankE(e) = Cardinality(rsp) /\ 2^RankE(e) = Cardinality(ColSp)
SolveAgree == pc = "done" =>
  \A b \in Vecs(m) : LET S == SolSet(b)  ok == SolvableE(e, b, m) IN
     /\ ok <=> S # {}
     /\ ok <=> b \in ColSp
     /\ ok => ParticularE(e, b, m, n) \in S
     /\ Cardinality(S) = NumSolutionsE(e, b, m, n)
KernelAgree == pc = "done" =>
  LET kb == KernelBasisE(e, n)  k == n - RankE(e)  ker == SolSet(Zero(m)) IN
     /\ Len(kb) = k /\ RowSpace(kb, k, n) = ker /\ Cardinality(ker) = 2^k
\* the pivot columns are the greedy left-to-right column basis
GreedyAgree == pc = "done" =>
  \A j \in 1..n : (\E i \in 1..RankE(e) : e.piv[i] = j) <=> Col(A, j, m) \notin PrefixSpan(j)
\* the symmetry group (brute force over the symplectic form) is the kernel with the halves exchanged, and the read-off spans it
SymAgree == (pc = "done" /\ HasSym) =>
  LET q == n \div 2  G == SymGroup(A, m, q)  sb == SymBasisE IN
     /\ G = {SwapHalves(x, q) : x \in SolSet(Zero(m))}
     /\ RowSpace(sb, Len(sb), n) = G /\ Cardinality(G) = 2^Len(sb)
     /\ \A k \in 1..Len(sb) : \A r \in 1..m : Symp(A[r], sb[k], q) = 0
\* the row selection for e_i exists and is unique exactly for regular A, and is row i of T
RowSelAgree == pc = "done" =>
  /\ IsRegular => \A i \in 1..n : RowSelections(A, i, n) = {e.T[i]}
  /\ (m = n /\ ~IsRegular) => \E i \in 1..n : RowSelections(A, i, n) = {}
=============================================================================
