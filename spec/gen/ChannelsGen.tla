---------------------------- MODULE ChannelsGen -----------------------------
(***************************************************************************)
(* C28, model + generator for the channel table.  One behaviour per        *)
(* channel instance of the parameter grid (endpoints 0 and 1 included).    *)
(* TLC decides on the REFERENCE (Channels.tla):                            *)
(*   Complete   sum_t b_t^dagger a_t = I  (for Kraus-form instances this   *)
(*              is literally  sum K^dagger K = I)                          *)
(*   InDomain   the instance is in the documented parameter domain         *)
(* and emits the exact terms, whether they are literal Kraus operators,    *)
(* and the exact superoperator sum_t a_t (x) conj(b_t) for the REPLAY      *)
(* against op.kraus_matrices().                                            *)
(* Grid: p with sqrt(p), sqrt(1-p) rational (Pythagorean fractions),       *)
(* further rationals for operators of the form sqrt(c) P (mixtures),       *)
(* gamma with sqrt(1-gamma) rational; Deep adds more points.               *)
(***************************************************************************)
EXTENDS Channels, Json, FiniteSets
CONSTANT Deep
VARIABLES inst, emitted

Rq(a, b) == <<a, b>>
Pyth == {Rq(0, 1), Rq(1, 1), Rq(9, 25), Rq(16, 25)} \cup (IF Deep THEN {Rq(25, 169), Rq(144, 169), Rq(64, 289)} ELSE {Rq(144, 169)})
Mixt == Pyth \cup {Rq(1, 2), Rq(1, 10), Rq(3, 4)} \cup (IF Deep THEN {Rq(1, 3), Rq(2, 7), Rq(99, 100)} ELSE {})
\* gamma with 1 - gamma a rational square
Gam == {Rq(0, 1), Rq(1, 1), Rq(9, 25), Rq(16, 25), Rq(3, 4), Rq(5, 9)} \cup (IF Deep THEN {Rq(8, 9), Rq(21, 25), Rq(24, 25), Rq(144, 169), Rq(15, 16)} ELSE {})
Resets == {pp \in ({Rq(0, 1), Rq(1, 4), Rq(1, 2), Rq(9, 25), Rq(16, 25), Rq(1, 1)} \cup (IF Deep THEN {Rq(1, 10), Rq(4, 9)} ELSE {})) \X
                  ({Rq(0, 1), Rq(1, 4), Rq(1, 2), Rq(9, 25), Rq(16, 25), Rq(1, 1)} \cup (IF Deep THEN {Rq(1, 10), Rq(4, 9)} ELSE {}))
             : RIn01(RAdd(pp[1], pp[2]))}
Words == UNION {[1..k -> 0..3] : k \in 1..2} \cup {<<1, 2, 3>>, <<3, 0, 1>>, <<0, 0, 0>>, <<2, 2, 2>>}
           \cup (IF Deep THEN [1..3 -> 0..3] ELSE {})
W(k) == [i \in 1..k |-> i]
\* ThermalRelaxationError <<pe, eT1, eT2>>: eT2 <= eT1 is the Kraus regime (T2 <= T1), eT1 < eT2 <= sqrt(eT1) the Choi regime
Thermals == {<<Rq(1, 2), Rq(17, 25), Rq(3, 5)>>, <<Rq(0, 1), Rq(5, 9), Rq(1, 3)>>, <<Rq(1, 4), Rq(1, 2), Rq(1, 4)>>, <<Rq(1, 1), Rq(9, 25), Rq(9, 25)>>,
             <<Rq(1, 2), Rq(1, 1), Rq(1, 1)>>,
             <<Rq(1, 4), Rq(9, 25), Rq(1, 2)>>, <<Rq(1, 2), Rq(16, 25), Rq(3, 4)>>, <<Rq(0, 1), Rq(1, 4), Rq(2, 5)>>, <<Rq(1, 1), Rq(9, 25), Rq(1, 2)>>}
            \cup (IF Deep THEN {<<Rq(1, 3), Rq(1, 2), Rq(2, 3)>>, <<Rq(3, 4), Rq(4, 9), Rq(1, 3)>>, <<Rq(1, 10), Rq(9, 10), Rq(9, 10)>>} ELSE {})
C(ch, k, q, x) == [ch |-> ch, w |-> W(k), q |-> q, x |-> x]
Grid ==
       {C(ch, 1, <<p>>, <<>>) : ch \in {"BitFlip", "PhaseFlip"}, p \in Mixt}
  \cup {C("DepolarizingChannel", 1, <<p>>, <<>>) : p \in Mixt \cup {Rq(48, 49), Rq(48, 169)}}
  \cup {C(ch, 1, <<g>>, <<>>) : ch \in {"AmplitudeDamping", "PhaseDamping"}, g \in Gam}
  \cup {C("GeneralizedAmplitudeDamping", 1, <<g, p>>, <<>>) : g \in Gam, p \in Pyth}
  \cup {C("ResetError", 1, <<pp[1], pp[2]>>, <<>>) : pp \in Resets}
  \cup {C("PauliError", Len(wd), <<p>>, wd) : wd \in Words, p \in {Rq(0, 1), Rq(1, 1), Rq(9, 25), Rq(1, 2)}}
  \cup {C("ThermalRelaxationError", 1, t, <<>>) : t \in Thermals}

Init == inst \in Grid /\ emitted = FALSE
Terms == ChannelTerms(inst)
QOut(x1) == [k |-> x1.m.k, e |-> x1.m.e, d |-> x1.d]
Emit == /\ ~emitted /\ emitted' = TRUE /\ inst' = inst
        /\ Bind(Terms, LAMBDA ts :
             PrintT(ToJson([c |-> inst, kraus |-> IsKrausForm(ts),
                            a |-> [t \in 1..Len(ts) |-> QOut(ts[t].a)], b |-> [t \in 1..Len(ts) |-> QOut(ts[t].b)],
                            sup |-> QOut(SuperOp(ts))])))
Next == Emit
\* ---------------------------------------------------------------- decided on the reference
InDomain == ValidChannel(inst)
Complete == IsComplete(Terms)
NInst == Cardinality(Grid)
=============================================================================
