----------------------------- MODULE QAOAModel ------------------------------
(***************************************************************************)
(* C72, the reference decided on itself.  One behaviour per graph: EVERY   *)
(* labelled simple graph on 0..NN nodes (kind "g") and EVERY directed      *)
(* graph on 1..ND nodes (kind "d").  Check names the first law of          *)
(* QAOAObj that fails on the graph, over ALL bitstrings:                   *)
(*  g: maxcut objective = -(number of cut edges); the minimisers of the    *)
(*     unconstrained max_independent_set / min_vertex_cover / max_clique   *)
(*     objectives are exactly the maximum independent sets / minimum       *)
(*     vertex covers / maximum cliques, and so are the minimisers of the   *)
(*     constrained objectives among the feasible bitstrings; constrained   *)
(*     objectives count the selected vertices; edge_driver: rewarded and   *)
(*     penalised colourings of an edge differ by 1 and the documented      *)
(*     Pauli formulas for the reward sets {00,01,10} and {11,01,10} are    *)
(*     reproduced; mixers: bit_flip_mixer(b) maps a basis state |x> to     *)
(*     sum over the vertices whose neighbours all carry colour b of the    *)
(*     state with that vertex flipped (checked through its matrix          *)
(*     elements computed from the sentence), xy_mixer / x_mixer are        *)
(*     Hermitian with the documented number of terms                       *)
(*  d: H_netflow = 4 sum_i (out_i - in_i)^2, H_outflow = 4 sum_i s_i(s_i   *)
(*     -1) for the selected edges; both vanish exactly on the edge sets    *)
(*     with zero net flow and out flow <= 1 at every node                  *)
(* Invariant Lawful: bad = "".                                             *)
(***************************************************************************)
EXTENDS QAOAObj
CONSTANTS NN, ND
VARIABLES c, done, bad

Pairs(n) == SelectSeq(AllPairs(n), LAMBDA p : p[1] < p[2])
DPairs(n) == SelectSeq(AllPairs(n), LAMBDA p : p[1] # p[2])
GraphOf(n, mask) == LET ps == Pairs(n) IN [n |-> n, e |-> SelectSeq(ps, LAMBDA p :
                       LET k == CHOOSE q \in DOMAIN ps : ps[q] = p IN (mask \div 2^(k - 1)) % 2 = 1)]
DigraphOf(n, mask) == LET ps == DPairs(n) IN [n |-> n, e |-> SelectSeq(ps, LAMBDA p :
                       LET k == CHOOSE q \in DOMAIN ps : ps[q] = p IN (mask \div 2^(k - 1)) % 2 = 1)]
Cases == UNION {{[kind |-> "g", n |-> n, mask |-> m] : m \in 0..(2^((n * (n - 1)) \div 2) - 1)} : n \in 0..NN}
         \cup UNION {{[kind |-> "d", n |-> n, mask |-> m] : m \in 0..(2^(n * (n - 1)) - 1)} : n \in 1..ND}
Init == c \in Cases /\ done = FALSE /\ bad = ""

First(ls) == LET f == SelectSeq(ls, LAMBDA t : ~t[2]) IN IF Len(f) = 0 THEN "" ELSE f[1][1]
Sel(x) == {i \in DOMAIN x : x[i] = 1}
IsIndep(G, S) == \A i, j \in S : i # j => ~Adj(G, i, j)
IsCover(G, S) == \A k \in DOMAIN G.e : G.e[k][1] \in S \/ G.e[k][2] \in S
IsClique(G, S) == \A i, j \in S : i # j => Adj(G, i, j)
Cut(G, x) == SumE(G, LAMBDA i, j : IF x[i] # x[j] THEN 1 ELSE 0)
ArgMin(X, f(_)) == {x \in X : \A y \in X : f(x) <= f(y)}
Largest(X) == {x \in X : \A y \in X : Cardinality(Sel(x)) >= Cardinality(Sel(y))}
Smallest(X) == {x \in X : \A y \in X : Cardinality(Sel(x)) <= Cardinality(Sel(y))}
ValidRewards == {R \in SUBSET Colourings : RewardOK(R) /\ Cardinality(R) \in 1..3}

\* action of a sentence on a basis state: <y| S |x> for the unique y reached by each word (X, Y flip; Y, Z give phases)
FlipOf(w, x) == [i \in DOMAIN x |-> IF w[i] \in {1, 2} THEN 1 - x[i] ELSE x[i]]
\* word |x> = i^(#Y) * prod_{Y,Z positions} (-1)^{x_i} |flip>
WordAmp(w, x) == LET A[i \in 0..Len(w)] == IF i = 0 THEN GdOne ELSE
                        CASE w[i] = 2 -> GdMul(A[i-1], GdMul(GdI, GdInt(Zv(x, i))))
                          [] w[i] = 3 -> GdMul(A[i-1], GdInt(Zv(x, i)))
                          [] OTHER -> A[i-1]
                 IN A[Len(w)]
MatEl(S, ws, y, x) == LET A[k \in 0..Len(ws)] == IF k = 0 THEN GdZero ELSE
                          IF FlipOf(ws[k], x) = y THEN GdAdd(A[k-1], GdMul(S[ws[k]], WordAmp(ws[k], x))) ELSE A[k-1]
                      IN A[Len(ws)]
FlipAt(x, v) == [i \in DOMAIN x |-> IF i = v THEN 1 - x[i] ELSE x[i]]
\* documented meaning of bit_flip_mixer: a bit flip on v is performed only when all neighbours of v are in state b
BitFlipMeaning(G, b) == Bind(BitFlipS(G, b), LAMBDA S : Bind2(PSetToSeq(DOMAIN S), Bitstrings(G.n), LAMBDA ws, X :
   \A x \in X : \A y \in X :
      LET vs == {v \in 1..G.n : FlipAt(x, v) = y /\ \A w \in Nbrs(G, v) : x[w] = b} IN
      MatEl(S, ws, y, x) = GdInt(Cardinality(vs))))

Table(X, f(_)) == TLCEval([x \in X |-> f(x)])
ArgMinT(X, T) == {x \in X : \A y \in X : T[x] <= T[y]}
MinimiserLaws(G, Gc, X) ==
  Bind2(TLCEval({x \in X : IsIndep(G, Sel(x))}), TLCEval({x \in X : IsCover(G, Sel(x))}), LAMBDA XI, XC : Bind(TLCEval({x \in X : IsClique(G, Sel(x))}), LAMBDA XQ :
  First(<< <<"mis-unconstrained-minimisers", ArgMinT(X, Table(X, LAMBDA x : MISQ(G, FALSE, x))) = Largest(XI)>>,
           <<"mis-constrained-minimisers", ArgMinT(XI, Table(XI, LAMBDA x : MISQ(G, TRUE, x))) = Largest(XI)>>,
           <<"mvc-unconstrained-minimisers", ArgMinT(X, Table(X, LAMBDA x : MVCQ(G, FALSE, x))) = Smallest(XC)>>,
           <<"mvc-constrained-minimisers", ArgMinT(XC, Table(XC, LAMBDA x : MVCQ(G, TRUE, x))) = Smallest(XC)>>,
           <<"clique-unconstrained-minimisers", ArgMinT(X, Table(X, LAMBDA x : MaxCliqueQ(G, FALSE, x))) = Largest(XQ)>>,
           <<"clique-unconstrained-is-mis-of-complement", \A x \in X : MaxCliqueQ(G, FALSE, x) = MISQ(Gc, FALSE, x)>>,
           <<"clique-constrained-minimisers", ArgMinT(XQ, Table(XQ, LAMBDA x : MaxCliqueQ(G, TRUE, x))) = Largest(XQ)>> >>)))
GLaws(G) == Bind2(Bitstrings(G.n), Complement(G), LAMBDA X, Gc :
  First(<< <<"maxcut=-cut", \A x \in X : MaxCutQ(G, x) = -4 * Cut(G, x)>>,
           <<"bit_driver", \A x \in X : BitDriverQ(G.n, 1, x) = 4 * (G.n - 2 * Cardinality(Sel(x))) /\ BitDriverQ(G.n, 0, x) = -BitDriverQ(G.n, 1, x)>>,
           <<"edge_driver-difference", \A R \in ValidRewards : \A a \in Colourings : \A d \in Colourings :
                 (a \in R /\ d \notin R) => EdgeEnergyQ(R, d[1], d[2]) - EdgeEnergyQ(R, a[1], a[2]) = 4>>,
           <<"edge_driver-traceless", \A R \in ValidRewards : SumN(4, LAMBDA q : EdgeEnergyQ(R, (q - 1) \div 2, (q - 1) % 2)) = 0>>,
           <<"edge_driver-doc-formula-00-01-10", \A x \in X : EdgeDriverQ(G, RIndep, x) = SumE(G, LAMBDA i, j : Zv(x,i) * Zv(x,j) - Zv(x,i) - Zv(x,j))>>,
           <<"edge_driver-doc-formula-11-01-10", \A x \in X : EdgeDriverQ(G, RCover, x) = SumE(G, LAMBDA i, j : Zv(x,i) * Zv(x,j) + Zv(x,i) + Zv(x,j))>>,
           <<MinimiserLaws(G, Gc, X), MinimiserLaws(G, Gc, X) = "">>,
           <<"complement", WellFormedGraph(Gc) /\ \A i, j \in 1..G.n : i # j => (Adj(Gc, i, j) <=> ~Adj(G, i, j))>>,
           <<"bit_flip-meaning-0", BitFlipMeaning(G, 0)>>,
           <<"bit_flip-meaning-1", BitFlipMeaning(G, 1)>>,
           <<"xy-terms", Cardinality(DOMAIN XYMixerS(G)) = 2 * Len(G.e) /\ SIsHermitian(XYMixerS(G))>>,
           <<"x-terms", Cardinality(DOMAIN XMixerS(G.n)) = G.n>> >>))

OutSel(G, x, i) == Cardinality({k \in DOMAIN G.e : G.e[k][1] = i /\ x[k] = 1})
InSel(G, x, i) == Cardinality({k \in DOMAIN G.e : G.e[k][2] = i /\ x[k] = 1})
DLaws(G) == LET X == Bitstrings(Len(G.e)) IN
  First(<< <<"netflow", \A x \in X : NetFlowH(G, x) = 4 * SumN(G.n, LAMBDA i : (OutSel(G, x, i) - InSel(G, x, i)) * (OutSel(G, x, i) - InSel(G, x, i)))>>,
           <<"outflow", \A x \in X : OutFlowH(G, x) = 4 * SumN(G.n, LAMBDA i : OutSel(G, x, i) * (OutSel(G, x, i) - 1))>>,
           <<"penalty-zero-iff-cycles", \A x \in X : (NetFlowH(G, x) + OutFlowH(G, x) = 0) <=>
                  \A i \in 1..G.n : OutSel(G, x, i) = InSel(G, x, i) /\ OutSel(G, x, i) <= 1>>,
           <<"penalty-nonnegative", \A x \in X : NetFlowH(G, x) >= 0 /\ OutFlowH(G, x) >= 0>>,
           <<"cycle-mixer-hermitian", SIsHermitian(CycleMixerS(G))>> >>)

Check == /\ ~done /\ done' = TRUE /\ UNCHANGED c
         /\ bad' = IF c.kind = "g" THEN Bind(GraphOf(c.n, c.mask), LAMBDA G : GLaws(G))
                   ELSE Bind(DigraphOf(c.n, c.mask), LAMBDA G : DLaws(G))
Next == Check
Lawful == bad = ""
=============================================================================
