---------------------------- MODULE LieAlgModel -----------------------------
(***************************************************************************)
(* C55, the reference decided on itself + generator for the involution     *)
(* REPLAY.  One behaviour per case.                                        *)
(*  kind "inv"  every Pauli word a on n <= NW wires.  Laws: for every      *)
(*      documented involution (and every position of its distinguished     *)
(*      wire) the sign ThetaSign on the algebra element i*a equals the     *)
(*      MATRIX definition of the documentation evaluated in the exact      *)
(*      ring: x -> x^* (AI, CI), Y_w x^* Y_w (AII), Z_w x Z_w (AIII, BDI,  *)
(*      CII with p = q), Y_w x Y_w (DIII), x(+)y -> y(+)x = X_w x X_w on   *)
(*      block-diagonal x (A, BD, C), -x^T (concurrence), and               *)
(*      Y..Y x^* Y..Y (even-odd, quant-ph/0701193), and theta(theta(x)) =  *)
(*      x.  Emits the expected answer (sign = +1 <=> True) of every        *)
(*      involution function for the word.                                  *)
(*  kind "pair" every pair of words (a, b) on n <= NW wires.  Laws:        *)
(*      theta([x, y]) = [theta x, theta y] for x = i a, y = i b: for       *)
(*      anticommuting words [a, b] = 2 a b, so the law is sign(a b) =      *)
(*      sign(a) sign(b) (for commuting words both sides vanish); the       *)
(*      block-diagonal domain of A / BD / C is closed under the bracket;   *)
(*      IBracket on words = i * PauliAlg's commutator.                     *)
(*  kind "sent" NS pseudo-random lists of real sentences.  Laws: IBracket  *)
(*      = i * SCommutator; theta is an automorphism on sentences;          *)
(*      fraction-free elimination: the echelon is triangular, every input  *)
(*      and every integer combination of the inputs reduces to zero, a     *)
(*      combination plus a word outside all supports does not, the number  *)
(*      of rows never exceeds the number of inputs nor of distinct words.  *)
(* Invariant Lawful: bad = "".                                             *)
(***************************************************************************)
EXTENDS LieAlg, Json
CONSTANTS NW, NS, SEED
VARIABLES c, done, bad

InvCases == UNION {{[kind |-> "inv", n |-> n, a |-> a] : a \in PWords(n)} : n \in 1..NW}
PairCases == UNION {{[kind |-> "pair", n |-> n, a |-> a, b |-> b] : a \in PWords(n), b \in PWords(n)} : n \in 1..NW}
SentCases == {[kind |-> "sent", i |-> i] : i \in 1..NS}
Init == c \in InvCases \cup PairCases \cup SentCases /\ done = FALSE /\ bad = ""
First(ls) == LET f == SelectSeq(ls, LAMBDA t : ~t[2]) IN IF Len(f) = 0 THEN "" ELSE f[1][1]

\* (kind, position) variants on n wires; unwired kinds carry position 0
Variants(n) == {<<k, 0>> : k \in InvKinds \ WiredKinds} \cup {<<k, p>> : k \in WiredKinds, p \in 1..n}

\* ---------------------------------------------------- matrix definitions
MConj(aa) == Bind(aa, LAMBDA a : [k |-> a.k, e |-> TLCEval([r \in 1..Len(a.e) |-> TLCEval([q \in 1..Len(a.e[r]) |-> Conj(a.e[r][q])])])])
MTranspose(aa) == MConj(Dagger(aa))
Sandwich(q, xx) == MatMul(PWToMat(q), MatMul(xx, PWToMat(q)))
ThetaMat(kind, pos, n, X) ==
   CASE kind \in {"AI", "CI"} -> MConj(X)
     [] kind = "AII" -> Sandwich(WordAt(n, pos, 2), MConj(X))
     [] kind \in {"AIII", "BDI", "CII"} -> Sandwich(WordAt(n, pos, 3), X)
     [] kind = "DIII" -> Sandwich(WordAt(n, pos, 2), X)
     [] kind \in SwapKinds -> Sandwich(WordAt(n, pos, 1), X)
     [] kind = "concurrence" -> PMatNeg(MTranspose(X))
     [] kind = "even_odd" -> Sandwich([j \in 1..n |-> 2], MConj(X))
InvLaws(n, a) == Bind(PMatScaleG(GdI, PWToMat(a)), LAMBDA X :
   First(<< <<"sign-equals-matrix-definition", \A v \in Variants(n) : InDomain(v[1], v[2], a) =>
                  EqExact(ThetaMat(v[1], v[2], n, X), PMatScaleG(GdInt(ThetaSign(v[1], v[2], a)), X))>>,
            <<"theta-squared", \A v \in Variants(n) : InDomain(v[1], v[2], a) =>
                  EqExact(ThetaMat(v[1], v[2], n, ThetaMat(v[1], v[2], n, X)), X)>>,
            <<"sign-is-a-sign", \A v \in Variants(n) : ThetaSign(v[1], v[2], a) \in {1, -1}>>,
            <<"swap-agrees-with-Y-conjugation-on-its-domain", \A v \in Variants(n) : (v[1] \in SwapKinds /\ InDomain(v[1], v[2], a)) =>
                  ThetaSign(v[1], v[2], a) = ThetaSign("DIII", v[2], a)>> >>))
InvOut(n, a) == [kind |-> "inv", n |-> n, a |-> a,
                 signs |-> LET vs == {v \in Variants(n) : InDomain(v[1], v[2], a)}
                               RECs == {[k |-> v[1], p |-> v[2], s |-> ThetaSign(v[1], v[2], a)] : v \in vs}
                           IN RECs]

PairLaws(n, a, b) ==
   First(<< <<"automorphism", PAnticommutes(a, b) => \A v \in Variants(n) : (InDomain(v[1], v[2], a) /\ InDomain(v[1], v[2], b)) =>
                  ThetaSign(v[1], v[2], PWMul(a, b).w) = ThetaSign(v[1], v[2], a) * ThetaSign(v[1], v[2], b)>>,
            <<"swap-domain-closed", \A v \in Variants(n) : (v[1] \in SwapKinds /\ InDomain(v[1], v[2], a) /\ InDomain(v[1], v[2], b)) =>
                  InDomain(v[1], v[2], PWMul(a, b).w)>>,
            <<"ibracket-words", SEq(IBracket(SWord(a), SWord(b)), SScale(GdI, PCommutator(a, b)))>>,
            <<"ibracket-real", SIsReal(IBracket(SWord(a), SWord(b)))>> >>)

\* --------------------------------------------------- pseudo-random sentences
RndP == 46337
RndX(i) == LET R[j \in 0..60] == IF j = 0 THEN (i * 7919 + SEED * 104729 + 1) % RndP ELSE (R[j-1] * 16807 + 17) % RndP IN R
Coefs == << <<1,0,0>>, <<-1,0,0>>, <<1,0,1>>, <<2,0,0>>, <<-3,0,1>>, <<3,0,2>>, <<1,0,0>>, <<-1,0,1>> >>
\* k sentences of 1..3 terms over a small pool of words (so that supports overlap and dependencies occur)
SentCase(i) == Bind(TLCEval(RndX(i)), LAMBDA x :
  LET r == x[1] % 10
      n == IF NW = 1 \/ r = 0 THEN 1 ELSE IF NW = 2 \/ r <= 4 THEN 2 ELSE 3
      np == 2 + (x[2] % 5)
      pool == [j \in 1..np |-> PWordOfIdx(x[2 + j] % (4^n), n)]
      k == 2 + (x[10] % 3)
      sp == [q \in 1..k |-> [j \in 1..(1 + (x[10 + q] % 3)) |-> <<pool[(x[14 + 4*q + j] % np) + 1], Coefs[(x[34 + 4*q + j] % 8) + 1]>>]]
      lam == [q \in 1..k |-> (x[54 + q] % 5) - 2]
  IN [n |-> n, sp |-> sp, lam |-> lam, fresh |-> PWordOfIdx(x[60] % (4^n), n)])
SentLaws(n, es, lam, fresh) ==
  Bind2(EchelonOf(es), TLCEval(UNION {DOMAIN es[q] : q \in DOMAIN es}), LAMBDA rows, supp :
  Bind(LET A[q \in 0..Len(es)] == IF q = 0 THEN SZero ELSE SAdd(A[q-1], SScale(GdInt(lam[q]), es[q])) IN A[Len(es)], LAMBDA comb :
   First(<< <<"ibracket", \A p, q \in DOMAIN es : SEq(IBracket(es[p], es[q]), SScale(GdI, SCommutator(es[p], es[q])))>>,
            <<"ibracket-antisymmetric", \A p, q \in DOMAIN es : SEq(IBracket(es[p], es[q]), SNeg(IBracket(es[q], es[p])))>>,
            <<"theta-automorphism", \A v \in Variants(n) : v[1] \notin SwapKinds => \A p, q \in DOMAIN es : p < q =>
                  SEq(ThetaS(v[1], v[2], IBracket(es[p], es[q])), IBracket(ThetaS(v[1], v[2], es[p]), ThetaS(v[1], v[2], es[q])))>>,
            <<"theta-involutive", \A v \in Variants(n) : \A p \in DOMAIN es : SEq(ThetaS(v[1], v[2], ThetaS(v[1], v[2], es[p])), es[p])>>,
            <<"no-arithmetic-bound", ~EchelonOvf(rows)>>,
            <<"echelon-triangular", EchelonOK(rows)>>,
            <<"echelon-size", Len(rows) <= Len(es) /\ Len(rows) <= Cardinality(supp)>>,
            <<"inputs-in-span", \A q \in DOMAIN es : InSpan(es[q], rows)>>,
            <<"combination-in-span", InSpan(comb, rows)>>,
            <<"fresh-word-not-in-span", fresh \notin supp => ~InSpan(SAdd(comb, SWord(fresh)), rows)>>,
            <<"single-word-span", \A w \in supp : (\E q \in DOMAIN es : DOMAIN es[q] = {w}) => InSpan(SWord(w), rows)>>,
            <<"primitive-multiple-in-span", \A q \in DOMAIN es : InSpan(SPrim(es[q]), rows)>> >>)))
SentResult(i) == Bind(SentCase(i), LAMBDA k : Bind(TLCEval([q \in DOMAIN k.sp |-> SFromPairs(k.sp[q])]), LAMBDA es :
   [bad |-> SentLaws(k.n, es, k.lam, k.fresh), out |-> [kind |-> "sent", i |-> i, n |-> k.n]]))

Result == CASE c.kind = "inv" -> [bad |-> InvLaws(c.n, c.a), out |-> InvOut(c.n, c.a)]
            [] c.kind = "pair" -> [bad |-> PairLaws(c.n, c.a, c.b), out |-> [kind |-> "pair", n |-> c.n]]
            [] c.kind = "sent" -> SentResult(c.i)
Emit == /\ ~done /\ done' = TRUE /\ c' = c
        /\ \E res \in {Result} : bad' = res.bad /\ (IF c.kind = "inv" THEN PrintT(ToJson(res.out)) ELSE TRUE)
Next == Emit
Lawful == bad = ""
=============================================================================
