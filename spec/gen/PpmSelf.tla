------------------------------ MODULE PpmSelf -------------------------------
(***************************************************************************)
(* Model-checks the measurement semantics of Ppm.tla against its laws: for *)
(* every Pauli word of length 1..3 the two outcome projectors are          *)
(* complementary orthogonal Hermitian idempotents resolving the word       *)
(* (P0 + P1 = I, P0 - P1 = P, Pb Pb = Pb, P0 P1 = 0), and the one-wire Z   *)
(* word is the computational-basis measurement.                            *)
(***************************************************************************)
EXTENDS Ppm
Words == {<<a>> : a \in 1..3} \cup {<<a, b>> : a, b \in 1..3} \cup {<<a, b, c>> : a, b, c \in 1..3}
VARIABLE sw
Init == sw \in Words
Next == UNCHANGED sw
ProjLaws ==
  LET P0 == PProj(sw, 0)  P1 == PProj(sw, 1)  Id == Ident(2^Len(sw)) IN
  /\ EqExact(MAdd(P0, P1), Id)
  /\ EqExact(MAdd(P0, MNeg(P1)), PauliM(sw))
  /\ EqExact(MatMul(P0, P0), P0) /\ EqExact(MatMul(P1, P1), P1)
  /\ IsZeroM(MatMul(P0, P1)) /\ IsZeroM(MatMul(P1, P0))
  /\ EqExact(Dagger(P0), P0) /\ EqExact(Dagger(P1), P1)
  /\ (sw = <<3>> => EqExact(P0, MP0) /\ EqExact(P1, MP1))
=============================================================================
