------------------------------ MODULE WiresGen -------------------------------
(* Generator for C45 (REPLAY).  One behaviour per case: Init/Pick choose a case, Emit prints the case and *)
(* the expected outcome computed by WiresSet; the invariant Laws checks the algebraic laws of the      *)
(* specification on every case.  Labels are ids 1..NL; a Wires object is a duplicate-free sequence.    *)
(*   op = "new"    : Wires(a) for EVERY sequence a up to MaxNew (with duplicates: must be rejected)    *)
(*   op = "pair"   : all binary operations on (a, b)                                                   *)
(*   op = "triple" : all_wires / shared_wires / unique_wires on [a, b, c]                              *)
(*   op = "sub"    : a.subset(idx, periodic_boundary = per)     (positions are 0-based)                *)
(*   op = "map"    : a.map(m)                                    m = sequence of <<label, image>>      *)
EXTENDS WiresSet, Json
CONSTANTS NL, MaxLen, NL3, MaxLen3, MaxNew,
          Keys,        \* sequence of sort keys, one per Python label table
          IdxVals,     \* positions tried by subset
          Maps         \* set of wire maps
VARIABLES c, ph

L == 1..NL
AllSeqs(m) == UNION {[1..k -> L] : k \in 0..m}
Wset(m) == {s \in AllSeqs(m) : DupFree(s)}
Wset3 == {s \in UNION {[1..k -> 1..NL3] : k \in 0..MaxLen3} : DupFree(s)}      \* operands of the three-object helpers
IdxSeqs == UNION {[1..k -> IdxVals] : k \in 0..2}
Case(op, a, b, cc, idx, per, m) == [op |-> op, a |-> a, b |-> b, c |-> cc, idx |-> idx, per |-> per, m |-> m]
\* Two-level enumeration: Init picks the operation and its first operand (few initial states, computed sequentially by TLC),
\* Pick chooses the remaining operands (explored by all workers in parallel), Emit prints the case.
E == <<>>
WL == Wset(MaxLen)
Init == /\ ph = 0
        /\ \/ \E a \in AllSeqs(MaxNew) : c = Case("new", a, E, E, E, FALSE, E)
           \/ \E a \in WL, op \in {"pair", "sub", "map"} : c = Case(op, a, E, E, E, FALSE, E)
           \/ \E a \in Wset3 : c = Case("triple", a, E, E, E, FALSE, E)
Pick == /\ ph = 0 /\ ph' = 1
        /\ \/ c.op = "new" /\ c' = c
           \/ c.op = "pair" /\ \E b \in WL : c' = [c EXCEPT !.b = b]
           \/ c.op = "triple" /\ \E b \in Wset3, cc \in Wset3 : c' = [c EXCEPT !.b = b, !.c = cc]
           \/ c.op = "sub" /\ \E i \in IdxSeqs, p \in BOOLEAN : c' = [c EXCEPT !.idx = i, !.per = p]
           \/ c.op = "map" /\ \E m \in Maps : c' = [c EXCEPT !.m = m]

ExpNew(a) == [ok |-> DupFree(a), seq |-> IF DupFree(a) THEN a ELSE <<>>]
ExpPair(a, b) ==
  [union |-> SortedSeq(Union(a, b)), inter |-> SortedSeq(Inter(a, b)), diff |-> SortedSeq(Diff(a, b)),
   rdiff |-> SortedSeq(Diff(b, a)), sym |-> SortedSeq(WSymDiff(a, b)),
   all |-> AllWires(<<a, b>>), shared |-> Shared(<<a, b>>), unique |-> Unique(<<a, b>>),
   sorted |-> [k \in 1..Len(Keys) |-> AllWiresSorted(<<a, b>>, Keys[k])],
   eq |-> Eq(a, b), sameset |-> LSet(a) = LSet(b), contains |-> WContains(a, b),
   index |-> Indices(a, b), indices_ok |-> IndicesDefined(a, b)]
ExpTriple(a, b, cc) == [all |-> AllWires(<<a, b, cc>>), shared |-> Shared(<<a, b, cc>>), unique |-> Unique(<<a, b, cc>>)]
ExpSub(a, idx, per) ==
  IF ~SubsetInDomain(a, idx, per) THEN [dom |-> FALSE, ok |-> FALSE, seq |-> <<>>]
  ELSE IF ~SubsetDefined(a, idx, per) THEN [dom |-> TRUE, ok |-> FALSE, seq |-> <<>>]
  ELSE [dom |-> TRUE, ok |-> TRUE, seq |-> Subset(a, idx, per)]
ExpMap(a, m) == [ok |-> MapDefined(a, m), seq |-> IF MapDefined(a, m) THEN MapSeq(a, m) ELSE <<>>]

Exp(cs) == CASE cs.op = "new"    -> ExpNew(cs.a)
             [] cs.op = "pair"   -> ExpPair(cs.a, cs.b)
             [] cs.op = "triple" -> ExpTriple(cs.a, cs.b, cs.c)
             [] cs.op = "sub"    -> ExpSub(cs.a, cs.idx, cs.per)
             [] cs.op = "map"    -> ExpMap(cs.a, cs.m)

Emit == ph = 1 /\ ph' = 2 /\ c' = c /\ PrintT(ToJson([c |-> c, exp |-> Exp(c)]))
Next == Pick \/ Emit

Laws == ph # 1 \/
        CASE c.op = "pair"   -> LawPair(c.a, c.b) /\ \A k \in 1..Len(Keys) : LawSorted(c.a, c.b, Keys[k])
          [] c.op = "triple" -> LawTriple(c.a, c.b, c.c)
          [] c.op = "sub"    -> LawSubset(c.a, c.idx, c.per)
          [] c.op = "map"    -> LawMap(c.a, c.m)
          [] OTHER           -> (DupFree(c.a) <=> Cardinality(LSet(c.a)) = Len(c.a))
=============================================================================
