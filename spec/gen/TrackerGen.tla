----------------------------- MODULE TrackerGen ------------------------------
(* Generator for C73: explores Tracker (exhaustively, or by seeded random simulation) and emits every maximal history  *)
(* of tracker-context operations and device entry-point calls, together with the totals and history the spec expects   *)
(* at its end.                                                                                                         *)
EXTENDS Tracker, Json
Done == /\ Len(steps) = MaxSteps
        /\ PrintT(ToJson([persistent |-> persistent, steps |-> steps, exp |-> [active |-> active, tot |-> tot, hist |-> hist]]))
        /\ steps' = Append(steps, [a |-> "end", kind |-> "", batch |-> <<>>])
        /\ UNCHANGED <<persistent, active, depth, tot, hist, latest, ledger>>
GenNext == Next \/ Done
=============================================================================
