-------------------------------- MODULE Arith --------------------------------
(***************************************************************************)
(* C56: the documented classical functions of PennyLane's arithmetic       *)
(* templates, transcribed from the class docstrings (NOT from the          *)
(* decompositions):                                                        *)
(*   Adder, PhaseAdder (between QFT / QFT^-1), SemiAdder, OutAdder,        *)
(*   Multiplier, OutMultiplier, SignedOutMultiplier, ModExp, OutSquare,    *)
(*   SignedOutSquare, OutPoly, IntegerComparator, Incrementer,             *)
(*   TemporaryAND (+ its adjoint), QubitSum, QubitCarry,                   *)
(* plus the generic "controlled" wrapper (identity unless all controls are *)
(* 1) for the templates that register their own controlled rule.           *)
(*                                                                         *)
(* A configuration c is a record                                           *)
(*   t    template name                                                    *)
(*   k    the integer constant (Adder/PhaseAdder/Multiplier k, ModExp      *)
(*        base, IntegerComparator value)                                   *)
(*   mod  the modulus (0 when the template has none)                       *)
(*   flag geq of IntegerComparator / output_wires_zeroed, as 0 or 1        *)
(*   cv   control values of TemporaryAND                                   *)
(*   poly OutPoly polynomial: sequence of monomials [c |-> coefficient,    *)
(*        e |-> exponent per input register]                               *)
(*   nc   number of control wires of the controlled wrapper (0 = none)     *)
(*   wk   index of the work register in `lay` (0 = none)                   *)
(*   lay  the registers in the documented order (control register first    *)
(*        when nc > 0), each a sequence of wire labels 0..N-1 (big endian: *)
(*        first wire = most significant bit)                               *)
(*   N    total number of wires                                            *)
(* A basis input is a sequence v of register values aligned with lay; the  *)
(* function F(c, v) gives the register values after the template.  Enc     *)
(* turns register values into the index of the computational basis state   *)
(* on wires 0..N-1 (wire 0 most significant), which is what the harness    *)
(* prepares and reads off.                                                 *)
(***************************************************************************)
EXTENDS Integers, Sequences, FiniteSets, TLC

RECURSIVE Gcd(_, _)
Gcd(a, b) == IF b = 0 THEN a ELSE Gcd(b, a % b)
RECURSIVE IPow(_, _)
IPow(b, e) == IF e = 0 THEN 1 ELSE b * IPow(b, e - 1)
RECURSIVE PowMod(_, _, _)
PowMod(b, e, m) == IF e = 0 THEN 1 % m ELSE (b * PowMod(b, e - 1, m)) % m
RECURSIVE SumSeq(_)
SumSeq(s) == IF s = <<>> THEN 0 ELSE Head(s) + SumSeq(Tail(s))
RECURSIVE ProdSeq(_)
ProdSeq(s) == IF s = <<>> THEN 1 ELSE Head(s) * ProdSeq(Tail(s))

\* two's complement reading of an L-bit register value
Signed(v, L) == IF L > 0 /\ v >= 2^(L - 1) THEN v - 2^L ELSE v
\* i-th bit (1 = most significant) of an L-bit value
Bit(v, L, i) == (v \div 2^(L - i)) % 2
\* bit of wire w in a basis-state index over N wires (wire 0 most significant)
WireBit(idx, N, w) == (idx \div 2^(N - 1 - w)) % 2

Mono(m, xs) == m.c * ProdSeq([i \in 1..Len(xs) |-> IPow(xs[i], m.e[i])])
PolyEval(p, xs) == SumSeq([j \in 1..Len(p) |-> Mono(p[j], xs)])

Sizes(c) == [r \in 1..Len(c.lay) |-> Len(c.lay[r])]
\* sizes / values of the base template (without the control register)
BSizes(c) == IF c.nc = 0 THEN Sizes(c) ELSE Tail(Sizes(c))

Templates == {"Adder", "PhaseAdder", "SemiAdder", "OutAdder", "Multiplier", "OutMultiplier", "SignedOutMultiplier",
              "ModExp", "OutSquare", "SignedOutSquare", "OutPoly", "IntegerComparator", "Incrementer",
              "TemporaryAND", "AdjTemporaryAND", "QubitSum", "QubitCarry"}

\* ------------------------------------------------------------------ layout sanity
AllWires(c) == UNION {{c.lay[r][i] : i \in 1..Len(c.lay[r])} : r \in 1..Len(c.lay)}
LayoutOK(c) ==
  /\ SumSeq(Sizes(c)) = c.N
  /\ AllWires(c) = 0..(c.N - 1)                 \* every wire in exactly one register position
  /\ c.nc = (IF c.nc = 0 THEN 0 ELSE Len(c.lay[1]))
  /\ c.wk \in 0..Len(c.lay)

\* ------------------------------------------------------------------ documented preconditions on the parameters
\* s = sizes of the base registers
PreB(c, s) ==
  CASE c.t = "Adder" ->
         /\ Len(s) = 2 /\ s[1] >= 1 /\ c.mod >= 2 /\ c.mod <= 2^s[1]
         /\ IF c.mod = 2^s[1] THEN s[2] \in {0, 2} ELSE s[2] = 2
    [] c.t = "PhaseAdder" ->
         /\ Len(s) = 2 /\ s[1] >= 1 /\ c.mod >= 2
         /\ IF c.mod = 2^s[1] THEN s[2] \in {0, 1} ELSE (s[2] = 1 /\ c.mod <= 2^(s[1] - 1))
    [] c.t = "SemiAdder" -> Len(s) = 3 /\ s[1] >= 1 /\ s[2] >= 1
    [] c.t = "OutAdder" ->
         /\ Len(s) = 4 /\ s[1] >= 1 /\ s[2] >= 1 /\ s[3] >= 1 /\ c.mod >= 2 /\ c.mod <= 2^s[3]
         /\ IF c.mod = 2^s[3] THEN s[4] \in {0, 2} ELSE s[4] = 2
    [] c.t = "Multiplier" ->
         /\ Len(s) = 2 /\ s[1] >= 1 /\ c.mod >= 2 /\ c.mod <= 2^s[1] /\ Gcd(c.k % c.mod, c.mod) = 1
         /\ s[2] = (IF c.mod = 2^s[1] THEN s[1] ELSE s[1] + 2)
    [] c.t = "OutMultiplier" ->
         /\ Len(s) = 4 /\ s[1] >= 1 /\ s[2] >= 1 /\ s[3] >= 1 /\ c.mod >= 2 /\ c.mod <= 2^s[3]
         /\ (c.mod = 2^s[3] \/ s[4] >= 2)
    [] c.t = "SignedOutMultiplier" ->
         /\ Len(s) = 4 /\ s[1] >= 1 /\ s[2] >= 1 /\ s[3] >= 1
         /\ s[4] >= (IF c.flag = 1 THEN 2 ELSE 2 * s[3] + 1)
    [] c.t = "ModExp" ->
         /\ Len(s) = 3 /\ s[1] >= 1 /\ s[2] >= 1 /\ c.mod >= 2 /\ c.mod <= 2^s[2] /\ Gcd(c.k % c.mod, c.mod) = 1
         /\ s[3] = (IF c.mod = 2^s[2] THEN s[2] ELSE s[2] + 2)
    [] c.t = "OutSquare" ->
         /\ Len(s) = 3 /\ s[1] >= 1 /\ s[2] >= 1
         /\ s[3] >= (IF c.flag = 1 THEN (IF s[2] < s[1] + 1 THEN s[2] ELSE s[1] + 1) ELSE s[2])
    [] c.t = "SignedOutSquare" ->
         /\ Len(s) = 3 /\ s[1] >= 2 /\ s[2] >= 1
         /\ s[3] >= (IF c.flag = 1 THEN (IF s[2] < s[1] THEN s[2] ELSE s[1]) ELSE s[2])
    [] c.t = "OutPoly" ->
         /\ Len(s) >= 3 /\ c.mod >= 2 /\ c.mod <= 2^s[Len(s) - 1]
         /\ \A j \in 1..Len(c.poly) : Len(c.poly[j].e) = Len(s) - 2
         /\ IF c.mod = 2^s[Len(s) - 1] THEN s[Len(s)] \in {0, 2} ELSE s[Len(s)] = 2
    [] c.t = "IntegerComparator" -> Len(s) = 3 /\ s[1] >= 1 /\ s[2] = 1 /\ c.k >= 0
    [] c.t = "Incrementer" -> Len(s) = 2 /\ s[1] >= 1
    [] c.t \in {"TemporaryAND", "AdjTemporaryAND"} -> s = <<1, 1, 1>> /\ Len(c.cv) = 2
    [] c.t = "QubitSum" -> s = <<1, 1, 1>>
    [] c.t = "QubitCarry" -> s = <<1, 1, 1, 1>>
    [] OTHER -> FALSE
Pre(c) == c.t \in Templates /\ LayoutOK(c) /\ PreB(c, BSizes(c))

\* ------------------------------------------------------------------ documented input domain (base registers)
AndBit(c, v) == IF v[1] = c.cv[1] /\ v[2] = c.cv[2] THEN 1 ELSE 0
DomB(c, s, v) ==
  CASE c.t = "Adder" -> v[1] < c.mod
    [] c.t = "PhaseAdder" -> v[1] < c.mod /\ (c.mod # 2^s[1] => v[1] < 2^(s[1] - 1))
    [] c.t = "OutAdder" -> v[1] < c.mod /\ v[2] < c.mod /\ v[3] < c.mod
    [] c.t = "Multiplier" -> v[1] < c.mod
    [] c.t = "OutMultiplier" -> v[1] < c.mod /\ v[2] < c.mod /\ v[3] < c.mod /\ (c.flag = 1 => v[3] = 0)
    [] c.t = "SignedOutMultiplier" -> c.flag = 1 => v[3] = 0
    [] c.t = "ModExp" -> v[1] < c.mod /\ v[2] < c.mod
    [] c.t \in {"OutSquare", "SignedOutSquare"} -> c.flag = 1 => v[2] = 0
    [] c.t = "OutPoly" -> \A i \in 1..(Len(v) - 1) : v[i] < c.mod
    [] c.t = "TemporaryAND" -> v[3] = 0
    [] c.t = "AdjTemporaryAND" -> v[3] = AndBit(c, v)
    [] OTHER -> TRUE

\* ------------------------------------------------------------------ documented functions (base registers)
FB(c, s, v) ==
  CASE c.t \in {"Adder", "PhaseAdder"} -> <<(v[1] + c.k) % c.mod, 0>>
    [] c.t = "SemiAdder" -> <<v[1], (v[1] + v[2]) % 2^s[2], 0>>
    [] c.t = "OutAdder" -> <<v[1], v[2], (v[3] + v[1] + v[2]) % c.mod, 0>>
    [] c.t = "Multiplier" -> <<(v[1] * c.k) % c.mod, 0>>
    [] c.t = "OutMultiplier" -> <<v[1], v[2], (v[3] + v[1] * v[2]) % c.mod, 0>>
    [] c.t = "SignedOutMultiplier" -> <<v[1], v[2], (v[3] + Signed(v[1], s[1]) * Signed(v[2], s[2])) % 2^s[3], 0>>
    [] c.t = "ModExp" -> <<v[1], (v[2] * PowMod(c.k % c.mod, v[1], c.mod)) % c.mod, 0>>
    [] c.t = "OutSquare" -> <<v[1], (v[2] + v[1] * v[1]) % 2^s[2], 0>>
    [] c.t = "SignedOutSquare" -> <<v[1], (v[2] + Signed(v[1], s[1]) * Signed(v[1], s[1])) % 2^s[2], 0>>
    [] c.t = "OutPoly" ->
         LET m == Len(v) - 2 IN
         [i \in 1..Len(v) |-> IF i = m + 1 THEN (v[m + 1] + PolyEval(c.poly, SubSeq(v, 1, m))) % c.mod
                              ELSE IF i = m + 2 THEN 0 ELSE v[i]]
    [] c.t = "IntegerComparator" -> <<v[1], IF (c.flag = 1) = (v[1] >= c.k) THEN 1 - v[2] ELSE v[2], 0>>
    [] c.t = "Incrementer" -> <<(v[1] + 1) % 2^s[1], 0>>
    [] c.t = "TemporaryAND" -> <<v[1], v[2], AndBit(c, v)>>
    [] c.t = "AdjTemporaryAND" -> <<v[1], v[2], 0>>
    [] c.t = "QubitSum" -> <<v[1], v[2], (v[1] + v[2] + v[3]) % 2>>
    [] c.t = "QubitCarry" -> <<v[1], v[2], (v[2] + v[3]) % 2, (v[2] * v[3] + v[4] + ((v[2] + v[3]) % 2) * v[1]) % 2>>

\* ------------------------------------------------------------------ controlled wrapper, work register
InDom(c, v) ==
  /\ (c.wk > 0 => v[c.wk] = 0)                                  \* work wires are handed over in |0>
  /\ IF c.nc = 0 THEN DomB(c, Sizes(c), v) ELSE DomB(c, BSizes(c), Tail(v))
F(c, v) ==
  IF c.nc = 0 THEN FB(c, Sizes(c), v)
  ELSE IF v[1] = 2^c.nc - 1 THEN <<v[1]>> \o FB(c, BSizes(c), Tail(v)) ELSE v

\* all value tuples for the registers
RECURSIVE Tuples(_)
Tuples(s) == IF s = <<>> THEN {<<>>} ELSE {<<x>> \o t : x \in 0..(2^Head(s) - 1), t \in Tuples(Tail(s))}
\* work registers only ever hold 0 in the domain: do not enumerate their other values
EnumSizes(c) == [r \in 1..Len(c.lay) |-> IF r = c.wk THEN 0 ELSE Len(c.lay[r])]
Dom(c) == {v \in Tuples(EnumSizes(c)) : InDom(c, v)}

EncReg(x, w, N) == SumSeq([i \in 1..Len(w) |-> Bit(x, Len(w), i) * 2^(N - 1 - w[i])])
Enc(c, v) == SumSeq([r \in 1..Len(v) |-> EncReg(v[r], c.lay[r], c.N)])

\* the documented function tabulated over the documented domain (evaluate once: wrap in TLCEval)
FTable(c) == [v \in Dom(c) |-> F(c, v)]
\* the table of the configuration: basis-state index in -> basis-state index out, over the documented domain
TableT(c, ft) == {<<Enc(c, v), Enc(c, ft[v])>> : v \in DOMAIN ft}
Table(c) == TableT(c, FTable(c))

\* ------------------------------------------------------------------ properties of the documented functions themselves
\* outputs fit their registers
FitsT(c, ft) == \A v \in DOMAIN ft : \A r \in 1..Len(v) : ft[v][r] >= 0 /\ ft[v][r] < 2^Len(c.lay[r])
\* a unitary can only implement an injective map
InjectiveT(ft) == Cardinality({ft[v] : v \in DOMAIN ft}) = Cardinality(DOMAIN ft)
\* work register restored
WorkRestoredT(c, ft) == c.wk > 0 => \A v \in DOMAIN ft : ft[v][c.wk] = 0
\* Enc is faithful (distinct register values give distinct basis states)
EncInjectiveT(c, ft) == Cardinality({Enc(c, v) : v \in DOMAIN ft}) = Cardinality(DOMAIN ft)
Fits(c) == FitsT(c, FTable(c))
Injective(c) == InjectiveT(FTable(c))
WorkRestored(c) == WorkRestoredT(c, FTable(c))
=============================================================================
