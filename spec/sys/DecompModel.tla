---------------------------- MODULE DecompModel -----------------------------
(***************************************************************************)
(* C12: what the documentation of qp.transforms.decompose promises, as     *)
(* predicates over a configuration                                         *)
(*   c = [graph  : graph-based system enabled,                             *)
(*        gs     : target gate set as a sequence of canonical names,       *)
(*        ww     : num_work_wires (-1 = None, unlimited),                  *)
(*        mx     : max_expansion (-1 = None),                              *)
(*        custom : "none" | "fixed" | "alt" | "nullphase" (fixed_decomps   *)
(*                 {GlobalPhase: null_decomp}),                            *)
(*        stopk  : 0 = no stopping_condition, k > 0 = the stopping         *)
(*                 condition `len(op.wires) <= k`]                         *)
(* and over the observation of one call.  Shared by the configuration      *)
(* generator (DecompCfgGen) and the trace spec (Trace_Decompose).          *)
(***************************************************************************)
EXTENDS Integers, Sequences, FiniteSets
\* failures the transform signals when it cannot reach the gate set
DecompErrors == {"DecompositionError", "DecompositionUndefinedError", "RecursionError"}
\* fixed_decomps / alt_decomps "are only functional with" the graph system: the call is rejected with a TypeError otherwise
ExpectTypeError(c) == ~c.graph /\ c.custom # "none"
\* the circuit is implemented exactly, global phase included (GlobalPhase operators carry it); only when the user maps
\* GlobalPhase to the null decomposition is the phase dropped
Rel(c) == IF c.custom = "nullphase" THEN "phase" ELSE "exact"
\* the gate-set clause is promised only when the expansion depth is unbounded
GateSetClause(c) == c.mx < 0
InSeq(s, x) == \E i \in 1..Len(s) : s[i] = x
\* an operator of the result is acceptable: in the gate set, accepted by the stopping condition, wire bookkeeping,
\* left in place under the documented warning (no decomposition defined / graph unable to solve)
Allowed(c, warned, graphwarn, o) ==
   \/ InSeq(c.gs, o.name) \/ o.stop \/ o.name \in {"Allocate", "Deallocate"}
   \/ InSeq(warned, o.name) \/ (c.graph /\ graphwarn)
\* ---------------------------------------------------------------------------------------------------------------
\* devices.preprocess.decompose: the device-side entry point of the same transform (stopping condition = "the device
\* accepts the operator").  Shape of one call
\*   d = [graph  : graph-based system enabled (target_gates given),
\*        skip   : skip_initial_state_prep,
\*        lead   : "none" | "BasisState" | "StatePrep"  (class of the first operator: a StatePrepBase or not),
\*        leadok : the stopping condition accepts the leading state preparation,
\*        rest   : "empty" | "accepted" | "mixed"  (the other operators: none / all accepted / some rejected)]
\* Documented: operators are decomposed until the stopping condition accepts them; "if skip_initial_state_prep the first
\* operator will not be decomposed if it inherits from StatePrepBase"; failure raises `error` (default DeviceError).
DevErrors == DecompErrors \cup {"DeviceError"}
DevLeads == {"none", "BasisState", "StatePrep"}
DevRests == {"empty", "accepted", "mixed"}
\* operator i of the result is acceptable: accepted by the stopping condition, the exempted leading state preparation, or
\* (graph system only, as in the transform) left in place under the documented "not assumed to have a decomposition" warning
DevAllowed(d, warned, i, o) == \/ o.stop \/ (i = 1 /\ d.skip /\ o.prep) \/ o.name \in {"Allocate", "Deallocate"}
                               \/ (d.graph /\ InSeq(warned, o.name))
\* the leading state preparation stays in place / something has to be decomposed (else: raise)
DevPrepKept(d) == d.lead # "none" /\ (d.skip \/ d.leadok)
DevMustChange(d) == (d.lead # "none" /\ ~d.skip /\ ~d.leadok) \/ d.rest = "mixed"
\* the recorded input ins = <<[name, stop, prep]>> has the shape d claims
DevShapeOK(d, ins) ==
   LET hasLead == Len(ins) >= 1 /\ ins[1].prep
       from == IF hasLead THEN 2 ELSE 1 IN
   /\ (d.lead = "none" <=> ~hasLead)
   /\ (hasLead => ins[1].name = d.lead /\ ins[1].stop = d.leadok)
   /\ (~hasLead => ~d.leadok)
   /\ (d.rest = "empty" <=> Len(ins) < from)
   /\ (d.rest = "accepted" <=> (Len(ins) >= from /\ \A i \in from..Len(ins) : ins[i].stop))
   /\ (d.rest = "mixed" <=> \E i \in from..Len(ins) : ~ins[i].stop)
\* "universal enough" subsets of the six-gate universe: an entangler and two rotation axes (or one axis and Hadamard)
Rots == {"RX", "RY", "RZ"}
Universal(S) == /\ ("CNOT" \in S \/ "CZ" \in S)
                /\ \/ Cardinality(S \cap Rots) >= 2
                   \/ (Cardinality(S \cap Rots) >= 1 /\ "Hadamard" \in S)
=============================================================================
