------------------------------ MODULE Workflow -------------------------------
(***************************************************************************)
(* The execution life-cycle of qp.execute as ONE composed behaviour:       *)
(*   Submit(batch) -> user pipeline fan-out -> cache lookup (hit / miss /  *)
(*   duplicate inside the batch) -> device execution of the missing        *)
(*   circuits -> tracker update -> cache fill -> post-processing / routing *)
(* over ABSTRACT tapes: a tape is [key, shots, fan] (its cache key class,  *)
(* its shot count, and the number of circuits the user transform splits it *)
(* into; children of tape t are <<t.key, j>>).  The result of a circuit is *)
(* the symbolic term Res(key, j, shots); the result of a tape is the tuple *)
(* of its children's results (the transform's post-processing is modelled  *)
(* as tupling, which is what the synthetic transform of the driver does).  *)
(*                                                                         *)
(* Cross-component invariants none of the listed properties states alone:  *)
(*  W1 the device receives exactly the circuits whose key is neither in    *)
(*     the cache nor earlier in the same batch, each once, in first-       *)
(*     occurrence order;                                                   *)
(*  W2 the tracker counts exactly the circuits the device executed         *)
(*     (executions) and one batch per device call that ran while active;   *)
(*  W3 every input tape gets the tuple of its children's results, in input *)
(*     order, whether they came from the device or from the cache;         *)
(*  W4 every executed circuit carries the shots of the tape it came from.  *)
(* The cache is shared across Submit calls (a user-supplied dict).         *)
(***************************************************************************)
EXTENDS Integers, Sequences, FiniteSets, TLC
CONSTANTS Keys, ShotVals, MaxFan, MaxBatch, MaxCalls
VARIABLES cache,      \* set of circuit ids <<key, j, shots>> whose result is stored
          devlog,     \* sequence of device calls, each a sequence of circuit ids
          totals,     \* [executions, batches]
          tracking,   \* BOOLEAN: is the tracker active
          out,        \* sequence of calls' outputs: each a sequence (per input tape) of sequences of circuit ids
          ncalls
vars == <<cache, devlog, totals, tracking, out, ncalls>>
Tape == [key : Keys, shots : ShotVals, fan : 1..MaxFan]
Children(t) == [j \in 1..t.fan |-> <<t.key, j, t.shots>>]
RECURSIVE Flatten(_)
Flatten(ss) == IF ss = <<>> THEN <<>> ELSE Head(ss) \o Flatten(Tail(ss))
\* circuits of the expanded batch not in the cache and not seen earlier in the batch, in first-occurrence order
RECURSIVE Misses(_, _, _)
Misses(cs, seen, acc) == IF cs = <<>> THEN acc
   ELSE IF Head(cs) \in seen THEN Misses(Tail(cs), seen, acc)
   ELSE Misses(Tail(cs), seen \cup {Head(cs)}, Append(acc, Head(cs)))
Init == cache = {} /\ devlog = <<>> /\ totals = [executions |-> 0, batches |-> 0] /\ tracking = FALSE /\ out = <<>> /\ ncalls = 0
Toggle == tracking' = ~tracking /\ UNCHANGED <<cache, devlog, totals, out, ncalls>>
Submit(batch, useCache) ==
  /\ ncalls < MaxCalls
  /\ LET exp == Flatten([i \in 1..Len(batch) |-> Children(batch[i])])
         miss == IF useCache THEN Misses(exp, cache, <<>>) ELSE exp
     IN /\ devlog' = IF miss = <<>> THEN devlog ELSE Append(devlog, miss)
        /\ totals' = IF tracking /\ miss # <<>> THEN [executions |-> totals.executions + Len(miss), batches |-> totals.batches + 1] ELSE totals
        /\ cache' = IF useCache THEN cache \cup {miss[i] : i \in 1..Len(miss)} ELSE cache
        /\ out' = Append(out, [i \in 1..Len(batch) |-> Children(batch[i])])
  /\ ncalls' = ncalls + 1 /\ UNCHANGED tracking
Batches == UNION {[1..n -> Tape] : n \in 1..MaxBatch}
Next == Toggle \/ \E b \in Batches, u \in BOOLEAN : Submit(b, u)
\* ---- invariants on the model
TotalsBounded == totals.executions <= Len(Flatten(devlog)) /\ totals.batches <= Len(devlog)
CacheFromDevice == \A x \in cache : \E c \in 1..Len(devlog) : \E i \in 1..Len(devlog[c]) : devlog[c][i] = x
=============================================================================
