------------------------------- MODULE QInfo --------------------------------
(***************************************************************************)
(* C49: reference definitions of the quantum-information functions,        *)
(* evaluated EXACTLY (ring Z[zeta_N][1/2], GF(2), integers), written from   *)
(* the textbook / documented definitions:                                  *)
(*                                                                         *)
(*  reduced density matrix   rho_S[x,y] = SUM_e rho[(x,e),(y,e)]            *)
(*      (explicit index contraction; S an ORDERED list of wires, the first  *)
(*      listed wire is the most significant bit of x; e runs over the       *)
(*      complement in ascending wire order)                                 *)
(*  partial trace over T     = rho_S with S the ascending complement of T   *)
(*  purity                   Tr(rho_S^2)                                    *)
(*  fidelity of pure states  |<a|b>|^2 ; pure vs mixed  <a|rho|a>           *)
(*  matrix expansion         E[i,j] = G[sub(i),sub(j)] if i,j agree on the  *)
(*      wires G does not act on, else 0   (explicit tensor re-indexing)     *)
(*  entropies of stabiliser states: S(A) = (rank_GF(2) of the generators    *)
(*      restricted to the X/Z columns of A) - |A|, in units of ln 2         *)
(*      (Fattal et al.); the spectrum of rho_A is flat, so vn = max = min   *)
(*      entropy and purity = 2^-S.  The tableau is tracked gate by gate.    *)
(*  diagonal dyadic states rho = diag(c_i)/2^k: every entropy, relative     *)
(*      entropy and mutual information is an integer combination of         *)
(*      ln p (p prime) over 2^k; trace distance SUM|c_i-d_i| / 2^(k+1).     *)
(*                                                                         *)
(* One behaviour per case (tid); a circuit is evaluated one gate per TLC    *)
(* step; the result record is computed in one step into `res`, printed in   *)
(* the next, where the self-checks (three independent definitions of the    *)
(* stabiliser entropy agree: GF(2) brute-force rank, GF(2) elimination      *)
(* rank, exact ring purity; re-indexing = CMat!ApplyGate on the identity;   *)
(* traces = 1; hermiticity) are folded into `chk` (INVARIANT ChkOK).        *)
(*                                                                         *)
(* Cases (JSON, all fields always present):                                *)
(*  [kind |-> "circ", n, a, b: gate records, wa, wb, wk: rho = (wa|a><a| +  *)
(*     wb|b><b|)/2^wk, stab: 0/1 (a is Clifford; then wb = 0), subs:        *)
(*     ordered wire lists for RDMs, mi: <<A, B>> pairs of wire lists]       *)
(*  [kind |-> "diag", n, k, c, d: numerators, mi]                           *)
(*  [kind |-> "expand", n, gate, ws]                                        *)
(***************************************************************************)
EXTENDS Gates, Json, IOUtils, FiniteSets
CONSTANT NCASES
GF == INSTANCE GF2
Cases == JsonDeserialize(IOEnv.TRACE_FILE)
VARIABLES tid, pos, va, vb, tab, rho, res, chk
vars == <<tid, pos, va, vb, tab, rho, res, chk>>
Case == Cases[tid]

Max2(a, b) == IF a > b THEN a ELSE b
(* ------------------------------ scalars [c, k] ------------------------- *)
SAdd(x, y) == LET kk == Max2(x.k, y.k) IN
   [c |-> Add(Scale(2^(kk - x.k), x.c), Scale(2^(kk - y.k), y.c)), k |-> kk]
SZero == [c |-> Zero, k |-> 0]
RECURSIVE SNormV(_)
SNormV(s) == IF s.k > 0 /\ AllEven(s.c) THEN SNormV([c |-> Halve(s.c), k |-> s.k - 1]) ELSE s
SNorm(s) == Bind(s, LAMBDA v : SNormV(v))
SIsReal(s) == Conj(s.c) = s.c

(* ------------------------------ matrices ------------------------------- *)
\* |a><b| for column vectors a, b
Outer(aa, bb) == Bind2(aa, bb, LAMBDA a, b :
  Norm([k |-> a.k + b.k, e |-> TLCEval([i \in 1..Len(a.e) |-> TLCEval([j \in 1..Len(b.e) |-> Mul(a.e[i][1], Conj(b.e[j][1]))])])]))
QScale(c, aa) == Bind(aa, LAMBDA a :
  [k |-> a.k, e |-> TLCEval([i \in 1..Len(a.e) |-> TLCEval([j \in 1..Len(a.e[1]) |-> Scale(c, a.e[i][j])])])])
QAdd(aa, bb) == Bind2(aa, bb, LAMBDA a, b : LET kk == Max2(a.k, b.k) IN
  Bind2(ScaleUp(a, kk), ScaleUp(b, kk), LAMBDA x, y :
    Norm([k |-> kk, e |-> TLCEval([i \in 1..Len(x.e) |-> TLCEval([j \in 1..Len(x.e[1]) |-> Add(x.e[i][j], y.e[i][j])])])])))
\* rho = (wa |a><a| + wb |b><b|) / 2^wk
Mixture(a, b, wa, wb, wk) ==
  Bind(IF wb = 0 THEN QScale(wa, Outer(a, a)) ELSE QAdd(QScale(wa, Outer(a, a)), QScale(wb, Outer(b, b))), LAMBDA m :
    Norm([k |-> m.k + wk, e |-> m.e]))
Trace(RR) == Bind(RR, LAMBDA R :
  SNorm([c |-> LET S[i \in 0..Len(R.e)] == IF i = 0 THEN Zero ELSE Add(S[i-1], R.e[i][i]) IN S[Len(R.e)], k |-> R.k]))
SOne == [c |-> One, k |-> 0]
IsHermitian(RR) == Bind(RR, LAMBDA R : \A i \in 1..Len(R.e) : \A j \in 1..Len(R.e) : R.e[i][j] = Conj(R.e[j][i]))

(* ------------------- index placement and contraction ------------------- *)
\* the n-wire basis index that carries the bits of x (first listed wire most significant) on the wires ws, 0 elsewhere
Idx(x, ws, n) == LET q == Len(ws)
                     S[t \in 0..q] == IF t = 0 THEN 0 ELSE S[t-1] + Bit(x, t, q) * 2^(n - ws[t])
                 IN S[q]
InSeq(w, ws) == \E t \in 1..Len(ws) : ws[t] = w
\* ascending complement
Compl(ws, n) == LET R[w \in 0..n] == IF w = 0 THEN <<>> ELSE IF InSeq(w, ws) THEN R[w-1] ELSE Append(R[w-1], w) IN R[n]
\* wires of a subset mask (wire w <-> bit 2^(n-w)), ascending
MaskWires(m, n) == LET R[w \in 0..n] == IF w = 0 THEN <<>> ELSE IF Bit(m, w, n) = 1 THEN Append(R[w-1], w) ELSE R[w-1] IN R[n]
MaskOf(ws, n) == LET S[t \in 0..Len(ws)] == IF t = 0 THEN 0 ELSE S[t-1] + 2^(n - ws[t]) IN S[Len(ws)]

RDM(RR, ws, n) == Bind(RR, LAMBDA R :
  LET q == Len(ws)  ne == 2^(n - Len(ws)) IN
  Bind2(TLCEval([x \in 0..2^q-1 |-> Idx(x, ws, n)]), Bind(Compl(ws, n), LAMBDA cs : TLCEval([e \in 0..ne-1 |-> Idx(e, cs, n)])), LAMBDA ps, pc :
    Norm([k |-> R.k, e |-> TLCEval([x \in 1..2^q |-> TLCEval([y \in 1..2^q |->
        LET S[e \in 0..ne] == IF e = 0 THEN Zero ELSE Add(S[e-1], R.e[ps[x-1] + pc[e-1] + 1][ps[y-1] + pc[e-1] + 1]) IN S[ne]])])])))
\* Tr(R^2)
PurityOf(RR) == Bind(RR, LAMBDA R : LET d == Len(R.e) IN
  SNorm([c |-> LET Row[x \in 0..d] == IF x = 0 THEN Zero ELSE
                     LET Cc[y \in 0..d] == IF y = 0 THEN Row[x-1] ELSE
                           IF IsZero(R.e[x][y]) THEN Cc[y-1] ELSE Add(Cc[y-1], Mul(R.e[x][y], R.e[y][x]))
                     IN Cc[d]
               IN Row[d],
         k |-> 2 * R.k]))
\* <a|b>
Inner(aa, bb) == Bind2(aa, bb, LAMBDA a, b :
  SNorm([c |-> LET S[i \in 0..Len(a.e)] == IF i = 0 THEN Zero ELSE Add(S[i-1], Mul(Conj(a.e[i][1]), b.e[i][1])) IN S[Len(a.e)],
         k |-> a.k + b.k]))
AbsSq(s) == SNorm([c |-> Mul(s.c, Conj(s.c)), k |-> 2 * s.k])
\* <a|R|a>
Sandwich(aa, RR) == Bind2(aa, RR, LAMBDA a, R : Inner(a, MatMul(R, a)))

(* ------------------------ matrix expansion ----------------------------- *)
SubOf(i, ws, n) == LET q == Len(ws) S[t \in 0..q] == IF t = 0 THEN 0 ELSE 2 * S[t-1] + Bit(i, ws[t], n) IN S[q]
RestOf(i, ws, n) == LET q == Len(ws) S[t \in 0..q] == IF t = 0 THEN i ELSE S[t-1] - Bit(i, ws[t], n) * 2^(n - ws[t]) IN S[q]
ExpandDef(gg, ws, n) == Bind(gg, LAMBDA g :
  Bind2(TLCEval([i \in 0..2^n-1 |-> SubOf(i, ws, n)]), TLCEval([i \in 0..2^n-1 |-> RestOf(i, ws, n)]), LAMBDA sub, rest :
    [k |-> g.k, e |-> TLCEval([i \in 1..2^n |-> TLCEval([j \in 1..2^n |->
        IF rest[i-1] = rest[j-1] THEN g.e[sub[i-1] + 1][sub[j-1] + 1] ELSE Zero])])]))

(* ------------------------ stabiliser tableau --------------------------- *)
\* n generators, each a bit vector of length 2n: X part 1..n, Z part n+1..2n (signs are irrelevant for entropies)
TabInit(n) == [i \in 1..n |-> [j \in 1..2*n |-> IF j = n + i THEN 1 ELSE 0]]
Xor(a, b) == (a + b) % 2
CliffordNames == {"Identity", "PauliX", "PauliY", "PauliZ", "Hadamard", "S", "CNOT", "CZ", "SWAP"}
RowStep(r, ins, n) ==
  LET g == ins.g  w == ins.w IN
  CASE g = "Hadamard" -> [r EXCEPT ![w[1]] = r[n + w[1]], ![n + w[1]] = r[w[1]]]
    [] g = "S" -> [r EXCEPT ![n + w[1]] = Xor(r[n + w[1]], r[w[1]])]
    [] g = "CNOT" -> [r EXCEPT ![w[2]] = Xor(r[w[2]], r[w[1]]), ![n + w[1]] = Xor(r[n + w[1]], r[n + w[2]])]
    [] g = "CZ" -> [r EXCEPT ![n + w[1]] = Xor(r[n + w[1]], r[w[2]]), ![n + w[2]] = Xor(r[n + w[2]], r[w[1]])]
    [] g = "SWAP" -> [r EXCEPT ![w[1]] = r[w[2]], ![w[2]] = r[w[1]], ![n + w[1]] = r[n + w[2]], ![n + w[2]] = r[n + w[1]]]
    [] g \in {"Identity", "PauliX", "PauliY", "PauliZ"} -> r
TabStep(t, ins, n) == [i \in 1..n |-> RowStep(t[i], ins, n)]
\* generators restricted to the columns of the wires A
TabSub(t, A, n) == LET q == Len(A) IN [i \in 1..n |-> [j \in 1..2*q |-> IF j <= q THEN t[i][A[j]] ELSE t[i][n + A[j - q]]]]
RECURSIVE ElimRun(_, _, _)
ElimRun(e, m, nn) == IF GF!ElimDone(e, m, nn) THEN e ELSE ElimRun(GF!ElimStep(e, m, nn), m, nn)
EntRankBF(t, A, n) == GF!RankBF(TabSub(t, A, n), n, 2 * Len(A)) - Len(A)
EntRankE(t, A, n) == GF!RankE(ElimRun(GF!ElimInit(TabSub(t, A, n), n), n, 2 * Len(A))) - Len(A)
\* the exponent r with purity = 2^-r, or -1 when the purity is not a power of 1/2
EntFromPurity(p) == IF \E r \in 0..p.k : p.c = Int2C(2^(p.k - r)) THEN CHOOSE r \in 0..p.k : p.c = Int2C(2^(p.k - r)) ELSE -1

(* ------------------------ diagonal dyadic states ----------------------- *)
Primes == <<2, 3, 5, 7, 11, 13, 17, 19, 23, 29, 31>>
NP == Len(Primes)
RECURSIVE Val(_, _)
Val(p, x) == IF x > 0 /\ x % p = 0 THEN 1 + Val(p, x \div p) ELSE 0
SumSeq(s) == LET S[i \in 0..Len(s)] == IF i = 0 THEN 0 ELSE S[i-1] + s[i] IN S[Len(s)]
AbsI(x) == IF x < 0 THEN -x ELSE x
\* marginal numerators on the (ascending) wires A
Marg(c, A, n) == LET q == Len(A) cs == Compl(A, n) ne == 2^(n - Len(A)) IN
  [x \in 1..2^q |-> SumSeq([e \in 1..ne |-> c[Idx(x-1, A, n) + Idx(e-1, cs, n) + 1]])]
\* S = (1/2^k) SUM_p EntNum[p] ln p      (SUM c = 2^k)
EntNum(c, k) == [pi \in 1..NP |-> (IF pi = 1 THEN k * 2^k ELSE 0) - SumSeq([i \in 1..Len(c) |-> c[i] * Val(Primes[pi], c[i])])]
\* S(c || d) = (1/2^k) SUM_p RelNum[p] ln p, infinite when supp c is not inside supp d
RelInf(c, d) == \E i \in 1..Len(c) : c[i] > 0 /\ d[i] = 0
RelNum(c, d) == [pi \in 1..NP |-> SumSeq([i \in 1..Len(c) |-> IF c[i] = 0 THEN 0 ELSE c[i] * (Val(Primes[pi], c[i]) - Val(Primes[pi], d[i]))])]
MaxSeq(s) == LET S[i \in 0..Len(s)] == IF i = 0 THEN 0 ELSE Max2(S[i-1], s[i]) IN S[Len(s)]
Support(s) == Cardinality({i \in 1..Len(s) : s[i] > 0})
VSub3(a, b, c) == [i \in 1..NP |-> a[i] + b[i] - c[i]]
UnionSorted(A, B, n) == MaskWires(MaskOf(A, n) + MaskOf(B, n), n)

(* ------------------------ result records ------------------------------- *)
CircRes ==
  LET n == Case.n  nm == 2^Case.n - 1 IN
  Bind(TLCEval([m \in 1..nm |-> RDM(rho, MaskWires(m, n), n)]), LAMBDA RD :
  Bind(TLCEval([m \in 1..nm |-> PurityOf(RD[m])]), LAMBDA PU :
  Bind(Inner(va, vb), LAMBDA ov :
    [tid |-> tid, kind |-> "circ", skip |-> FALSE,
     a |-> va, b |-> vb, rho |-> rho,
     tr |-> Trace(rho), herm |-> IsHermitian(rho),
     rdm |-> [j \in 1..Len(Case.subs) |-> RDM(rho, Case.subs[j], n)],
     rdma |-> IF Case.wb = 0 THEN <<>> ELSE [j \in 1..Len(Case.subs) |-> RDM(Outer(va, va), Case.subs[j], n)],
     rtr |-> [m \in 1..nm |-> Trace(RD[m])],
     pur |-> PU,
     ov |-> ov, fid |-> AbsSq(ov), fam |-> Sandwich(va, rho), fbm |-> Sandwich(vb, rho),
     entp |-> IF Case.stab = 1 THEN [m \in 1..nm |-> EntFromPurity(PU[m])] ELSE <<>>,
     entbf |-> IF Case.stab = 1 THEN [m \in 1..nm |-> EntRankBF(tab, MaskWires(m, n), n)] ELSE <<>>,
     ent |-> IF Case.stab = 1 THEN [m \in 1..nm |-> EntRankE(tab, MaskWires(m, n), n)] ELSE <<>>,
     mi |-> IF Case.stab = 1 THEN [j \in 1..Len(Case.mi) |->
                 EntRankE(tab, MaskWires(MaskOf(Case.mi[j][1], n), n), n) + EntRankE(tab, MaskWires(MaskOf(Case.mi[j][2], n), n), n)
                 - EntRankE(tab, UnionSorted(Case.mi[j][1], Case.mi[j][2], n), n)] ELSE <<>>])))
CircChk(r) ==
  /\ r.tr = SOne /\ r.herm
  /\ \A m \in 1..Len(r.rtr) : r.rtr[m] = SOne
  /\ \A m \in 1..Len(r.pur) : SIsReal(r.pur[m])
  /\ r.pur[Len(r.pur)] = (IF Case.wb = 0 THEN SOne ELSE r.pur[Len(r.pur)])          \* a pure state has purity 1
  /\ SIsReal(r.fid) /\ SIsReal(r.fam)
  /\ Case.stab = 1 => \A m \in 1..Len(r.ent) : r.ent[m] = r.entbf[m] /\ r.ent[m] = r.entp[m] /\ r.ent[m] >= 0

DiagRes ==
  LET n == Case.n  nm == 2^Case.n - 1  k == Case.k  c == Case.c  d == Case.d IN
  Bind2(TLCEval([m \in 1..nm |-> Marg(c, MaskWires(m, n), n)]), TLCEval([m \in 1..nm |-> Marg(d, MaskWires(m, n), n)]), LAMBDA mc, md :
  Bind(TLCEval([m \in 1..nm |-> EntNum(mc[m], k)]), LAMBDA en :
    [tid |-> tid, kind |-> "diag", skip |-> FALSE,
     margc |-> mc, margd |-> md, entc |-> en, entd |-> [m \in 1..nm |-> EntNum(md[m], k)],
     mx |-> [m \in 1..nm |-> MaxSeq(mc[m])], cnt |-> [m \in 1..nm |-> Support(mc[m])],
     relinf |-> RelInf(c, d), rel |-> IF RelInf(c, d) THEN <<>> ELSE RelNum(c, d),
     relinf2 |-> RelInf(d, c), rel2 |-> IF RelInf(d, c) THEN <<>> ELSE RelNum(d, c),
     td |-> SumSeq([i \in 1..Len(c) |-> AbsI(c[i] - d[i])]),
     fprod |-> [i \in 1..Len(c) |-> c[i] * d[i]],
     mi |-> [j \in 1..Len(Case.mi) |-> VSub3(en[MaskOf(Case.mi[j][1], n)], en[MaskOf(Case.mi[j][2], n)],
                                            en[MaskOf(Case.mi[j][1], n) + MaskOf(Case.mi[j][2], n)])]]))
DiagChk(r) == /\ SumSeq(Case.c) = 2^Case.k /\ SumSeq(Case.d) = 2^Case.k
              /\ \A m \in 1..Len(r.margc) : SumSeq(r.margc[m]) = 2^Case.k
              /\ r.td <= 2 * 2^Case.k

ExpandRes ==
  Bind(GateM(Case.gate), LAMBDA g :
  Bind(ExpandDef(g, Case.ws, Case.n), LAMBDA ex :
    [tid |-> tid, kind |-> "expand", skip |-> FALSE, mat |-> g, exp |-> ex,
     agree |-> EqExact(ex, ApplyGate(Ident(2^Case.n), g, Case.ws, Case.n))]))
ExpandChk(r) == r.agree

(* ------------------------ the state machine ---------------------------- *)
La == IF Case.kind = "circ" THEN Len(Case.a) ELSE 0
Lb == IF Case.kind = "circ" THEN Len(Case.b) ELSE 0
Init == /\ tid \in 1..NCASES /\ pos = 0
        /\ va = <<>> /\ vb = <<>> /\ tab = <<>> /\ rho = <<>> /\ res = <<>> /\ chk = TRUE
Load == /\ pos = 0 /\ pos' = 1
        /\ IF Case.kind = "circ"
           THEN /\ va' = BasisCol(2^Case.n, 0) /\ vb' = BasisCol(2^Case.n, 0)
                /\ tab' = IF Case.stab = 1 THEN TabInit(Case.n) ELSE <<>>
           ELSE UNCHANGED <<va, vb, tab>>
        /\ UNCHANGED <<tid, rho, res, chk>>
StepA == /\ pos >= 1 /\ pos <= La
         /\ LET ins == Case.a[pos] IN
            /\ va' = ApplyGate(va, GateM(ins), ins.w, Case.n)
            /\ tab' = IF Case.stab = 1 THEN TabStep(tab, ins, Case.n) ELSE tab
         /\ pos' = pos + 1 /\ UNCHANGED <<tid, vb, rho, res, chk>>
StepB == /\ pos > La /\ pos <= La + Lb
         /\ LET ins == Case.b[pos - La] IN vb' = ApplyGate(vb, GateM(ins), ins.w, Case.n)
         /\ pos' = pos + 1 /\ UNCHANGED <<tid, va, tab, rho, res, chk>>
\* overflow guard for the 32-bit integers: the largest product formed below is (max coefficient)^2 * H * D^2
Safe(m) == MaxAbsM(m) * MaxAbsM(m) < 2^29 \div (H * Len(m.e) * Len(m.e))
Mix == /\ pos = La + Lb + 1 /\ pos' = pos + 1
       /\ rho' = IF Case.kind = "circ" /\ MaxAbsM(va) < 2^10 /\ MaxAbsM(vb) < 2^10
                 THEN Mixture(va, vb, Case.wa, Case.wb, Case.wk) ELSE <<>>
       /\ UNCHANGED <<tid, va, vb, tab, res, chk>>
Compute == /\ pos = La + Lb + 2 /\ pos' = pos + 1
           /\ res' = CASE Case.kind = "circ" -> IF rho # <<>> /\ Safe(rho) THEN CircRes ELSE [tid |-> tid, kind |-> "circ", skip |-> TRUE]
                       [] Case.kind = "diag" -> DiagRes
                       [] Case.kind = "expand" -> ExpandRes
           /\ UNCHANGED <<tid, va, vb, tab, rho, chk>>
Emit == /\ pos = La + Lb + 3 /\ pos' = pos + 1
        /\ PrintT(ToJson(res))
        /\ chk' = IF res.skip THEN TRUE ELSE
                  CASE Case.kind = "circ" -> CircChk(res) [] Case.kind = "diag" -> DiagChk(res) [] Case.kind = "expand" -> ExpandChk(res)
        /\ va' = <<>> /\ vb' = <<>> /\ rho' = <<>> /\ res' = <<>> /\ tab' = <<>> /\ UNCHANGED tid
Next == Load \/ StepA \/ StepB \/ Mix \/ Compute \/ Emit
ChkOK == chk
=============================================================================
