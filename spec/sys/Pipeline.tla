------------------------------- MODULE Pipeline -------------------------------
(***************************************************************************)
(* C23, construction API.  The CompilePipeline list API as a state machine *)
(* over the list model of PipelineOps: one action per public call          *)
(*   CompilePipeline(...)  append  add_transform  +=  +  transform +       *)
(*   extend  insert  pop  remove  *  n*  [a:b:s]  [i]  add_marker          *)
(*   remove_marker  copy                                                   *)
(* The state is the abstract pipeline (sequence of transform kinds and     *)
(* markers) and the history of calls with the model's expected outcome     *)
(* after each call.  TLC explores every history up to MaxSteps calls       *)
(* (or random ones in simulation mode) and checks on the MODEL:            *)
(*   MkInBounds      every marker level is within 0..Len                   *)
(*   AtMostOneFinal  the documented rejections keep at most one terminal   *)
(*                   transform in the pipeline                             *)
(*   ConvOK          the model's own marker convention satisfies the       *)
(*                   order-preservation conjunct used to judge the code    *)
(*   ExpandPaired    a transform with an expand_transform that entered     *)
(*                   through this API is still directly preceded by it     *)
(*                   -- in the SAME configuration (x(7) by xe(7)) --       *)
(*                   as long as no call separated them on purpose          *)
(* A history ends after a rejected call, and after a call outside the      *)
(* documented use (insert with a negative index).                          *)
(***************************************************************************)
EXTENDS PipelineOps, Randomization
CONSTANTS MaxSteps,      \* edit calls after the constructor
          Inits,         \* set of [P |-> seq of kinds, Pm |-> markers in list form]: constructor arguments
          Kinds,         \* transform kinds offered to append / insert / + ...
          RemKinds,      \* kinds offered to remove
          Labels,        \* marker labels
          MulNs,         \* repetition counts
          Slices,        \* set of <<a, b, step>> (None = 99)
          Operands,      \* pipelines used as right operand of += / + / extend: [P, Pm]
          NegInsert,     \* BOOLEAN: also offer insert(-1, .) (outside the documented use; ends the history)
          Sample         \* 0: every call is explored;  k > 0 (random deep histories): k calls drawn at random per state,
                         \*    rejected ones only as the last call of a history
VARIABLES st, hist, ended, convok, split
vars == <<st, hist, ended, convok, split>>

O(op, k, i, j, s, l, P, Pm) == [op |-> op, k |-> k, i |-> i, j |-> j, s |-> s, l |-> l, P |-> P, Pm |-> Pm]
O1(op, k) == O(op, k, 0, 0, 0, "", <<>>, <<>>)
OI(op, k, i) == O(op, k, i, 0, 0, "", <<>>, <<>>)

OpsOf(s) ==
  LET n == Len(s.seq) IN
       {O1(op, k) : op \in {"append", "iadd", "add", "radd"}, k \in Kinds}
  \cup {O1("addt", k) : k \in Kinds \cap {"a", "xp", "xk"}} \cup {O1("copy", "")}
  \cup {OI("insert", k, i) : k \in Kinds, i \in 0..n}
  \cup (IF NegInsert THEN {OI("insert", k, -1) : k \in Kinds \cap {"a", "x"}} ELSE {})
  \cup {OI("pop", "", i) : i \in ((-n - 1)..n) \cup {None}}
  \cup {O1("remove", k) : k \in RemKinds}
  \cup {OI("mul", "", m) : m \in MulNs} \cup {OI("rmul", "", 2)}
  \cup {O("slice", "", t[1], t[2], t[3], "", <<>>, <<>>) : t \in Slices}
  \cup {OI("get", "", i) : i \in {0, -1, n}}
  \cup {O("addm", "", v, 0, 0, lb, <<>>, <<>>) : lb \in Labels \cup {"user"}, v \in ((-1)..(n + 1)) \cup {None}}
  \cup {O("delm", "", 0, 0, 0, lb, <<>>, <<>>) : lb \in Labels}
  \* (an operand whose marker labels collide with the pipeline's is left out: which of the two wins is not specified)
  \cup {O(op, "", 0, 0, 0, "", q.P, q.Pm) : op \in {"iaddP", "addP", "extP"},
                                             q \in {r \in Operands : DOMAIN MkOf(r.Pm) \cap DOMAIN s.mk = {}}}
  \cup {O("extL", "", 0, 0, 0, "", <<"a", "x">>, <<>>)}

Undocumented(o) == o.op = "insert" /\ o.i < 0

LabelOrder == <<"m", "n", "q">>
MkList(f) == LET present == SelectSeq(LabelOrder, LAMBDA lb : lb \in DOMAIN f) IN
             [p \in 1..Len(present) |-> [l |-> present[p], v |-> f[present[p]]]]

Rec(o, E) == [o |-> o, err |-> E.err, seq |-> E.seq, ret |-> E.ret, mk |-> MkList(E.mk)]

Apply(o) ==
  \E E \in {Eff(st, o)} :            \* (bound once: TLC would re-evaluate a LET definition at every use)
  /\ st' = [seq |-> E.seq, mk |-> E.mk]
  /\ hist' = Append(hist, Rec(o, E))
  /\ ended' = (E.err # "" \/ Undocumented(o))
  /\ convok' = (convok /\ (E.err # "" \/ MarkerVerdict(st, o, E, E.mk) = ""))
  \* a call that puts something between an expand transform and its transform separates the pair on purpose
  /\ split' = (split \/ o.op \in {"insert", "slice", "pop"})

Init == /\ st = [seq |-> <<>>, mk |-> EmptyMk] /\ hist = <<>> /\ ended = FALSE /\ convok = TRUE /\ split = FALSE
Next == /\ ~ended
        /\ IF hist = <<>> THEN \E q \in Inits : Apply(O("init", "", 0, 0, 0, "", q.P, q.Pm))
           ELSE /\ Len(hist) <= MaxSteps
                /\ IF Sample = 0 THEN \E o \in OpsOf(st) : Apply(o)
                   ELSE \E o \in RandomSubset(Sample, OpsOf(st)) : (Len(hist) = MaxSteps \/ Eff(st, o).err = "") /\ Apply(o)

\* ------------------------------------------------------------------ invariants of the model
MkInBounds == \A lb \in DOMAIN st.mk : st.mk[lb] >= 0 /\ st.mk[lb] <= Len(st.seq)
AtMostOneFinal == NFinal(st.seq) <= 1
ConvOK == convok
ExpandPaired == split \/ \A p \in 1..Len(st.seq) : Expand(st.seq[p]) # "" => (p > 1 /\ st.seq[p - 1] = Expand(st.seq[p]))
\* NOT an invariant of the API as documented/implemented (append after a terminal transform is accepted): reported as a count
FinalLast == \A p \in 1..Len(st.seq) : IsFinal(st.seq[p]) => p = Len(st.seq)
Maximal == ended \/ Len(hist) = MaxSteps + 1
=============================================================================
