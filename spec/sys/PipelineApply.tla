---------------------------- MODULE PipelineApply -----------------------------
(***************************************************************************)
(* C23, application.  Applying a compile pipeline to a batch of tapes and  *)
(* post-processing the executed results, modelled the way the code does it *)
(* (CompilePipeline.__call_tapes / _batch_postprocessing /                 *)
(* _apply_postprocessing_stack), one TLC step per critical section:        *)
(*   Stage    apply the next transform to every tape of the current batch, *)
(*            concatenate the children, push the list of (slice, fn)       *)
(*   Execute  run the final batch ("execution" returns the tape's tag)     *)
(*   Post     pop one entry of the stack: every fn gets results[slice]     *)
(* against the reference semantics of PipelineOps: R(t, 1) = the term      *)
(* obtained by applying the transforms to t one after another by hand.     *)
(* A case is (pipe, batch): pipe a sequence of fan-out tables (colour ->   *)
(* 0..MaxFan children; 0 = the tape is dropped / split into none), batch a *)
(* sequence of colours.  TLC explores EVERY pipeline of up to MaxStages    *)
(* stages with every table and every batch up to MaxBatch tapes and checks *)
(*   Routing      the post-processed results are <<R(t, pipe) : t in batch>>*)
(*                in input order                                            *)
(*   SlicesCover  the slices pushed by a stage partition the next batch     *)
(*   Shape        the number of results equals the number of tapes of the   *)
(*                level they belong to, at every step of the unwinding      *)
(***************************************************************************)
EXTENDS PipelineOps
CONSTANTS C,            \* number of tape colours
          MaxFan,       \* maximal fan-out of a stage
          MaxStages, MaxBatch,
          Mut           \* 0 = the algorithm as documented;  1 = negative control of the model: a stage that forgets to
                        \*     advance `start` (every slice begins at 0) -- Routing must then be violated
VARIABLES pipe, batch, s, cur, stack, phase, res, leaves, allsl
vars == <<pipe, batch, s, cur, stack, phase, res, leaves, allsl>>
Base == MaxFan + 1

Tables == [0..(C - 1) -> 0..MaxFan]
Pipes == UNION {[1..n -> Tables] : n \in 0..MaxStages}
Batches == UNION {[1..n -> 0..(C - 1)] : n \in 0..MaxBatch}
Roots(b) == [i \in 1..Len(b) |-> [id |-> i, c |-> b[i]]]

InitWith(p, b) == /\ pipe = p /\ batch = b /\ s = 1 /\ cur = Roots(b) /\ stack = <<>> /\ phase = "xform"
                  /\ res = <<>> /\ leaves = <<>> /\ allsl = <<>>
Init == \E p \in Pipes, b \in Batches : InitWith(p, b)

\* for bound_transform in self:  new_tapes, fn = transform(tape); slices.append(slice(start, end)); ...
\* (values are bound with \E x \in {e} so that TLC evaluates each of them once)
Stage == /\ phase = "xform" /\ s <= Len(pipe)
         /\ \E kids \in {[i \in 1..Len(cur) |-> Children(cur[i], pipe[s], Base, C)]} :
            \E fans \in {[i \in 1..Len(cur) |-> Len(kids[i])]} :
            \E sl \in {IF Mut = 1 THEN [i \in 1..Len(cur) |-> [lo |-> 0, hi |-> fans[i]]] ELSE SlicesOf(fans)} :
            /\ cur' = Flatten(kids)
            /\ stack' = Append(stack, [i \in 1..Len(cur) |-> [lo |-> sl[i].lo, hi |-> sl[i].hi, t |-> cur[i], k |-> s]])
            /\ allsl' = Append(allsl, [i \in 1..Len(cur) |-> <<sl[i].lo, sl[i].hi>>])      \* observation: the slices of every stage
         /\ s' = s + 1 /\ UNCHANGED <<pipe, batch, phase, res, leaves>>
\* the caller executes the batch returned by the pipeline
Execute == /\ phase = "xform" /\ s > Len(pipe)
           /\ res' = [i \in 1..Len(cur) |-> Leaf(cur[i])] /\ leaves' = [i \in 1..Len(cur) |-> cur[i].id]
           /\ phase' = "post" /\ UNCHANGED <<pipe, batch, s, cur, stack, allsl>>
\* for postprocessing in reversed(stack): results = tuple(fn(results[sl]) for fn, sl in zip(fns, slices))
Post == /\ phase = "post" /\ stack # <<>>
        /\ LET top == stack[Len(stack)] IN
           res' = [i \in 1..Len(top) |-> Node(top[i].k, top[i].t, SubSeq(res, top[i].lo + 1, top[i].hi))]
        /\ stack' = SubSeq(stack, 1, Len(stack) - 1) /\ UNCHANGED <<pipe, batch, s, cur, phase, leaves, allsl>>
Finish == /\ phase = "post" /\ stack = <<>> /\ phase' = "done" /\ UNCHANGED <<pipe, batch, s, cur, stack, res, leaves, allsl>>
Next == Stage \/ Execute \/ Post \/ Finish

Expected == [i \in 1..Len(batch) |-> R(Roots(batch)[i], 1, pipe, Base, C)]
Routing == phase = "done" => res = Expected
SlicesCover == \A lv \in 1..Len(stack) :
                 LET e == stack[lv] IN
                 /\ \A i \in 1..Len(e) : e[i].lo <= e[i].hi /\ (i > 1 => e[i].lo = e[i - 1].hi)
                 /\ (Len(e) > 0 => e[1].lo = 0)
Shape == phase = "post" => Len(res) = (IF stack = <<>> THEN Len(batch) ELSE
                                        LET e == stack[Len(stack)] IN IF Len(e) = 0 THEN 0 ELSE e[Len(e)].hi)
\* number of stages where some tape is dropped / split into several, for the vacuity counts
NDropped == Cardinality({k \in 1..Len(pipe) : \E c \in 0..(C - 1) : pipe[k][c] = 0})
=============================================================================
