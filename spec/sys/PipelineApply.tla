---------------------------- MODULE PipelineApply -----------------------------
(***************************************************************************)
(* C23, application.  Applying a compile pipeline to a batch of tapes and  *)
(* post-processing the executed results, modelled the way the code does it *)
(* (CompilePipeline.__call_tapes / _batch_postprocessing /                 *)
(* _apply_postprocessing_stack), one TLC step per critical section:        *)
(*   Stage    apply the next transform to every tape of the current batch, *)
(*            concatenate the children, push the list of (slice, fn)       *)
(*   Execute  run the final batch ("execution" returns the tape's tag)     *)
(*   Post     pop one entry of the stack: every fn gets results[slice]     *)
(* against the reference semantics of PipelineOps: R(t, 1) = the term      *)
(* obtained by applying the transforms to t one after another by hand.     *)
(* A case is (pipe, batch): pipe a sequence of fan-out tables (colour ->   *)
(* 0..MaxFan children; 0 = the tape is dropped / split into none), batch a *)
(* sequence of colours.  TLC explores EVERY pipeline of up to MaxStages    *)
(* stages with every table and every batch up to MaxBatch tapes and checks *)
(*   Routing      the post-processed results are <<R(t, pipe) : t in batch>>*)
(*                in input order                                            *)
(*   SlicesCover  the slices pushed by a stage partition the next batch     *)
(*   Shape        the number of results equals the number of tapes of the   *)
(*                level they belong to, at every step of the unwinding      *)
(* With a classical cotransform on the last stage (hybrid gradient         *)
(* transforms) every tape ENTERING that stage contributes its own classical *)
(* Jacobian: results carry Node(CotK, t, ..) and Routing demands that t is  *)
(* the tape whose gradient is being chained (per-tape, not per-transform).  *)
(***************************************************************************)
EXTENDS PipelineOps
CONSTANTS C,            \* number of tape colours
          MaxFan,       \* maximal fan-out of a stage
          MaxStages, MaxBatch,
          CotStages,    \* pipelines of 1..CotStages stages (on a one-tape batch, as a QNode gives) are also explored with a
                        \* CLASSICAL COTRANSFORM on their last stage (a hybrid gradient transform)
          Muts          \* 0 = the algorithm as documented (the invariants speak about these behaviours only).
                        \* Negative controls of the model, explored for pipelines of <= 2 stages (Routing must fail for each):
                        \*   1 = a stage that forgets to advance `start` (every slice begins at 0)
                        \*   2 = the classical Jacobian looked up per transform only (every tape gets the one of tape 0)
VARIABLES pipe, batch, s, cur, stack, phase, res, leaves, allsl, cot, mut
vars == <<pipe, batch, s, cur, stack, phase, res, leaves, allsl, cot, mut>>
Base == MaxFan + 1
CotK == 99              \* tag of the classical cotransform node: Node(CotK, t, <<x>>) = "x chained with the classical Jacobian of tape t"

Tables == [0..(C - 1) -> 0..MaxFan]
Pipes == UNION {[1..n -> Tables] : n \in 0..MaxStages}
Batches == UNION {[1..n -> 0..(C - 1)] : n \in 0..MaxBatch}
Roots(b) == [i \in 1..Len(b) |-> [id |-> i, c |-> b[i]]]

InitWith(p, b, ct, m) == /\ pipe = p /\ batch = b /\ s = 1 /\ cur = Roots(b) /\ stack = <<>> /\ phase = "xform"
                         /\ res = <<>> /\ leaves = <<>> /\ allsl = <<>> /\ cot = ct /\ mut = m
Init == \E p \in Pipes, b \in Batches, m \in Muts :
          \E ct \in (IF Len(p) >= 1 /\ Len(p) <= CotStages /\ Len(b) = 1 THEN BOOLEAN ELSE {FALSE}) :
             (m = 2 => ct) /\ (m # 0 => Len(p) <= 2) /\ InitWith(p, b, ct, m)

\* for bound_transform in self:  new_tapes, fn = transform(tape); slices.append(slice(start, end)); ...
\*     jac = cotransform_cache.get_classical_jacobian(bound_transform, tape_idx)
\*     classical_fns.append(partial(cotransform, cjac=jac, tape=tape))
\* if cotransform: stack.append(classical batch post-processing, fn i on results[i]);  stack.append(batch post-processing)
\* The classical Jacobian of a tape is a function of the tape (its gate parameters' dependence on the QNode arguments):
\* symbolically it IS the tape's identity.
\* (values are bound with \E x \in {e} so that TLC evaluates each of them once)
Stage == /\ phase = "xform" /\ s <= Len(pipe)
         /\ \E kids \in {[i \in 1..Len(cur) |-> Children(cur[i], pipe[s], Base, C)]} :
            \E fans \in {[i \in 1..Len(cur) |-> Len(kids[i])]} :
            \E sl \in {IF mut = 1 THEN [i \in 1..Len(cur) |-> [lo |-> 0, hi |-> fans[i]]] ELSE SlicesOf(fans)} :
            \E q \in {[i \in 1..Len(cur) |-> [lo |-> sl[i].lo, hi |-> sl[i].hi, t |-> cur[i], k |-> s]]} :
            \E cl \in {[i \in 1..Len(cur) |-> [lo |-> i - 1, hi |-> i, t |-> IF mut = 2 THEN cur[1] ELSE cur[i], k |-> CotK]]} :
            /\ cur' = Flatten(kids)
            /\ stack' = IF cot /\ s = Len(pipe) THEN Append(Append(stack, cl), q) ELSE Append(stack, q)
            /\ allsl' = Append(allsl, [i \in 1..Len(cur) |-> <<sl[i].lo, sl[i].hi>>])      \* observation: the slices of every stage
         /\ s' = s + 1 /\ UNCHANGED <<pipe, batch, phase, res, leaves, cot, mut>>
\* the caller executes the batch returned by the pipeline
Execute == /\ phase = "xform" /\ s > Len(pipe)
           /\ res' = [i \in 1..Len(cur) |-> Leaf(cur[i])] /\ leaves' = [i \in 1..Len(cur) |-> cur[i].id]
           /\ phase' = "post" /\ UNCHANGED <<pipe, batch, s, cur, stack, allsl, cot, mut>>
\* for postprocessing in reversed(stack): results = tuple(fn(results[sl]) for fn, sl in zip(fns, slices))
Post == /\ phase = "post" /\ stack # <<>>
        /\ LET top == stack[Len(stack)] IN
           res' = [i \in 1..Len(top) |-> Node(top[i].k, top[i].t, SubSeq(res, top[i].lo + 1, top[i].hi))]
        /\ stack' = SubSeq(stack, 1, Len(stack) - 1) /\ UNCHANGED <<pipe, batch, s, cur, phase, leaves, allsl, cot, mut>>
Finish == /\ phase = "post" /\ stack = <<>> /\ phase' = "done" /\ UNCHANGED <<pipe, batch, s, cur, stack, res, leaves, allsl, cot, mut>>
Next == Stage \/ Execute \/ Post \/ Finish

\* reference semantics with the classical cotransform: the gradient of tape t is chained with the Jacobian of t ITSELF
RECURSIVE RC(_, _)
RC(t, st) ==
  IF st > Len(pipe) THEN Leaf(t)
  ELSE LET ch == Children(t, pipe[st], Base, C)
           body == Node(st, t, [j \in 1..Len(ch) |-> RC(ch[j], st + 1)]) IN
       IF cot /\ st = Len(pipe) THEN Node(CotK, t, <<body>>) ELSE body
Expected == IF cot THEN [i \in 1..Len(batch) |-> RC(Roots(batch)[i], 1)]
            ELSE [i \in 1..Len(batch) |-> R(Roots(batch)[i], 1, pipe, Base, C)]
Routing == (phase = "done" /\ mut = 0) => res = Expected
SlicesCover == mut # 0 \/ \A lv \in 1..Len(stack) :
                 LET e == stack[lv] IN
                 /\ \A i \in 1..Len(e) : e[i].lo <= e[i].hi /\ (i > 1 => e[i].lo = e[i - 1].hi)
                 /\ (Len(e) > 0 => e[1].lo = 0)
Shape == (phase = "post" /\ mut = 0) => Len(res) = (IF stack = <<>> THEN Len(batch) ELSE
                                        LET e == stack[Len(stack)] IN IF Len(e) = 0 THEN 0 ELSE e[Len(e)].hi)
\* number of stages where some tape is dropped / split into several, for the vacuity counts
NDropped == Cardinality({k \in 1..Len(pipe) : \E c \in 0..(C - 1) : pipe[k][c] = 0})
=============================================================================
