--------------------------------- MODULE Roto ---------------------------------
(***************************************************************************)
(* C61, Rotosolve / Rotoselect: "find the exact minimum of each            *)
(* single-parameter sinusoidal sub-problem", in integer arithmetic.        *)
(*                                                                         *)
(* Objective over P scalar parameters (flattened argument entries),        *)
(* generator choice gen[d] in 1..3 (Rotosolve always uses generator 1):    *)
(*   F(theta, gen) = sum_d ( A[gen[d]][d] * s_d + C0[gen[d]][d] )          *)
(*                   + sum_{d<e} B[d][e] * s_d * s_e ,                     *)
(*   s_d = sin( fq[d] * theta[d] + ph[gen[d]][d] )                         *)
(* with a RATIONAL positive frequency fq[d] = fn[d] / fd[d] per parameter  *)
(* (integers, and non-integers below and above 1: what Rotosolve accepts   *)
(* through `spectra`) and lattice phases ph in units of pi/12.             *)
(*                                                                         *)
(* Units.  Parameter d is a lattice integer x[d] in units of pi/(12 fn[d]);*)
(* its sine argument fq*theta + ph = x[d] + fd[d]*ph is then an integer in *)
(* units of pi/(12 fd[d]): a full turn is Per = 24 fd, a quarter turn      *)
(* Qt = 6 fd, and one period of theta (2 pi / fq) is also 24 fd x-units.   *)
(*                                                                         *)
(* Every parameter enters through ONE sinusoid, so each one-parameter      *)
(* restriction is a single sinusoid  a * sin(fq*theta + ph) + const  with  *)
(*   a = A[g][d] + sum_e B[d][e] s_e .                                     *)
(* Its exact minima are the theta with sin(fq*theta + ph) = -sign(a), i.e. *)
(*   x + fd*ph = -Qt sign(a)  (mod Per)                      [Minimiser]   *)
(* and every one of them is a lattice integer.                             *)
(* The harness starts every parameter where its sine is rational:          *)
(* -1, -1/2, 0, 1/2 or 1 (argument a multiple of pi/2, or pi/6 off a       *)
(* multiple of pi), and picks A odd, B a multiple of 4: then a is an odd   *)
(* integer (never 0), every sine stays in {-1, -1/2, 0, 1/2, 1} and 4 F is *)
(* an integer.  The spec keeps S = 2 s (integers -2..2), F4 = 4 F and      *)
(* Amp2 = 2 a.  F is affine in each s_d, so a point is a minimum over ALL  *)
(* theta iff it is no worse than s_d = -1 and s_d = +1 (SubMin, checked by *)
(* TLC on the model after every sub-step).                                 *)
(*                                                                         *)
(* pr = [kind, P, tr, fn, fd, A, ph, C0, B, k0, g0]:  tr[d] trainable,     *)
(*   k0[d] in {0,1,3,5,6,7,9,11}: the initial sine argument in units of    *)
(*   pi/6 (x0 derived).                                                    *)
(***************************************************************************)
EXTENDS Integers, Sequences, FiniteSets, TLC

Sgn(a) == IF a > 0 THEN 1 ELSE IF a < 0 THEN -1 ELSE 0
AbsI(a) == IF a < 0 THEN -a ELSE a
Per(pr, d) == 24 * pr.fd[d]
Qt(pr, d) == 6 * pr.fd[d]
\* TWICE the sine of an argument k in units of pi/(12 fd), where that is rational; 9 = not exact
Sin2(k, fd) ==
  LET r == k % (24 * fd) IN
  IF r % (2 * fd) # 0 THEN 9
  ELSE LET m == r \div (2 * fd) IN       \* the argument is m * pi/6
       IF m \in {0, 6} THEN 0 ELSE IF m \in {1, 5} THEN 1 ELSE IF m = 3 THEN 2
       ELSE IF m \in {7, 11} THEN -1 ELSE IF m = 9 THEN -2 ELSE 9
Arg(pr, x, g, d) == x + pr.fd[d] * pr.ph[g][d]

X0(pr) == [d \in 1..pr.P |-> 2 * pr.fd[d] * pr.k0[d] - pr.fd[d] * pr.ph[pr.g0[d]][d]]
S0(pr) == [d \in 1..pr.P |-> Sin2(2 * pr.fd[d] * pr.k0[d], pr.fd[d])]
WellPosed(pr) == \A d \in 1..pr.P : /\ pr.fn[d] >= 1 /\ pr.fd[d] >= 1 /\ S0(pr)[d] # 9
                                    /\ Arg(pr, X0(pr)[d], pr.g0[d], d) = 2 * pr.fd[d] * pr.k0[d]

RECURSIVE SumTo(_, _)
SumTo(f, n) == IF n = 0 THEN 0 ELSE SumTo(f, n - 1) + f[n]
\* 4 F for doubled sines S and generators gen
F(pr, S, gen) ==
  SumTo([d \in 1..pr.P |-> 2 * pr.A[gen[d]][d] * S[d] + 4 * pr.C0[gen[d]][d]
                           + SumTo([e \in 1..pr.P |-> IF e > d THEN pr.B[d][e] * S[d] * S[e] ELSE 0], pr.P)], pr.P)
\* twice the amplitude of the restriction to parameter d under generator g
Amp(pr, S, g, d) == 2 * pr.A[g][d] + SumTo([e \in 1..pr.P |-> IF e # d THEN pr.B[d][e] * S[e] ELSE 0], pr.P)
\* minimal value (times 4) of the restriction to parameter d under generator g
SubMinVal(pr, S, gen, g, d) ==
  LET a == Amp(pr, S, g, d) IN
  F(pr, [S EXCEPT ![d] = -2 * Sgn(a)], [gen EXCEPT ![d] = g])
Minimiser(pr, g, d, a, theta) == (Arg(pr, theta, g, d) + Qt(pr, d) * Sgn(a)) % Per(pr, d) = 0
Gens(pr) == IF pr.kind = "rotoselect" THEN 1..3 ELSE {1}
\* the best value over the generators on offer for parameter d (Rotosolve: the current generator only)
BestVal(pr, S, gen, d) ==
  LET vals == {SubMinVal(pr, S, gen, g, d) : g \in (IF pr.kind = "rotoselect" THEN 1..3 ELSE {gen[d]})} IN
  CHOOSE v \in vals : \A w \in vals : v <= w
\* the generator Rotoselect ends up with when it keeps the LAST of equally good ones (mechanism, only used by the generator)
PickGen(pr, S, gen, d) ==
  IF pr.kind # "rotoselect" THEN gen[d]
  ELSE LET best == BestVal(pr, S, gen, d) IN
       CHOOSE g \in 1..3 : SubMinVal(pr, S, gen, g, d) = best /\ \A h \in 1..3 : (h > g => SubMinVal(pr, S, gen, h, d) # best)
Tie(pr, S, gen, d) == pr.kind = "rotoselect" /\
  Cardinality({g \in 1..3 : SubMinVal(pr, S, gen, g, d) = BestVal(pr, S, gen, d)}) > 1
\* the representative the documented range gives: Rotosolve adds a shift in (-pi/fq, pi/fq] (half a period either way) to the
\* old value, Rotoselect (frequency 1) returns the angle in (-pi, pi]
Representative(pr, g, d, a, old) ==
  LET base == IF pr.kind = "rotoselect" THEN 0 ELSE old
      r == (0 - Qt(pr, d) * Sgn(a) - Arg(pr, base, g, d)) % Per(pr, d)
      sf == IF 2 * r <= Per(pr, d) THEN r ELSE r - Per(pr, d)
  IN base + sf
=============================================================================
