--------------------------------- MODULE Roto ---------------------------------
(***************************************************************************)
(* C61, Rotosolve / Rotoselect: "find the exact minimum of each            *)
(* single-parameter sinusoidal sub-problem", in integer arithmetic.        *)
(*                                                                         *)
(* Angles are lattice integers in units of pi/16 (2 pi = 32).  Objective   *)
(* over P scalar parameters (flattened argument entries), generator        *)
(* choice gen[d] in 1..3 (Rotosolve always uses generator 1):              *)
(*   F(x, gen) = sum_d ( A[gen[d]][d] * s_d + C0[gen[d]][d] )              *)
(*               + sum_{d<e} B[d][e] * s_d * s_e ,                         *)
(*   s_d = sin( fq[d] * x[d] + ph[gen[d]][d] )                             *)
(* Every parameter enters through ONE sinusoid, so each one-parameter      *)
(* restriction is a single sinusoid  a * sin(fq*theta + ph) + const  with  *)
(*   a = A[g][d] + sum_e B[d][e] s_e .                                     *)
(* Its exact minima are the theta with sin(fq*theta + ph) = -sign(a), i.e. *)
(*   fq * theta + ph = -8 sign(a)  (mod 32)                  [Minimiser]   *)
(* The harness starts every parameter where its sine is -1, 0 or 1 and     *)
(* picks A odd, B even: then a is never 0, every s_d stays in {-1, 0, 1}   *)
(* and F is an integer.  F is affine in each s_d, so a point is a minimum  *)
(* over ALL theta iff it is no worse than s_d = -1 and s_d = +1            *)
(* (SubMin, checked by TLC on the model after every sub-step).             *)
(*                                                                         *)
(* pr = [kind, P, tr, fq, A, ph, C0, B, k0, g0]:  tr[d] trainable,         *)
(*   k0[d] in {0, 8, 16, 24} the initial sine argument (x0 derived).       *)
(***************************************************************************)
EXTENDS Integers, Sequences, FiniteSets, TLC

Sgn(a) == IF a > 0 THEN 1 ELSE IF a < 0 THEN -1 ELSE 0
AbsI(a) == IF a < 0 THEN -a ELSE a
\* exact sine of a lattice angle that is a multiple of pi/2; 9 = not exact
SinL(k) == LET r == k % 32 IN IF r = 0 \/ r = 16 THEN 0 ELSE IF r = 8 THEN 1 ELSE IF r = 24 THEN -1 ELSE 9
Arg(pr, x, g, d) == pr.fq[d] * x + pr.ph[g][d]

X0(pr) == [d \in 1..pr.P |-> (pr.k0[d] - pr.ph[pr.g0[d]][d]) \div pr.fq[d]]
S0(pr) == [d \in 1..pr.P |-> SinL(pr.k0[d])]
WellPosed(pr) == \A d \in 1..pr.P : pr.fq[d] * X0(pr)[d] + pr.ph[pr.g0[d]][d] = pr.k0[d]

RECURSIVE SumTo(_, _)
SumTo(f, n) == IF n = 0 THEN 0 ELSE SumTo(f, n - 1) + f[n]
\* F for sines S and generators gen
F(pr, S, gen) ==
  SumTo([d \in 1..pr.P |-> pr.A[gen[d]][d] * S[d] + pr.C0[gen[d]][d]
                           + SumTo([e \in 1..pr.P |-> IF e > d THEN pr.B[d][e] * S[d] * S[e] ELSE 0], pr.P)], pr.P)
\* amplitude of the restriction to parameter d under generator g
Amp(pr, S, g, d) == pr.A[g][d] + SumTo([e \in 1..pr.P |-> IF e # d THEN pr.B[d][e] * S[e] ELSE 0], pr.P)
\* minimal value of the restriction to parameter d under generator g
SubMinVal(pr, S, gen, g, d) ==
  LET a == Amp(pr, S, g, d) IN
  F(pr, [S EXCEPT ![d] = -Sgn(a)], [gen EXCEPT ![d] = g])
Minimiser(pr, g, d, a, theta) == (Arg(pr, theta, g, d) + 8 * Sgn(a)) % 32 = 0
Gens(pr) == IF pr.kind = "rotoselect" THEN 1..3 ELSE {1}
\* the best value over the generators on offer for parameter d (Rotosolve: the current generator only)
BestVal(pr, S, gen, d) ==
  LET vals == {SubMinVal(pr, S, gen, g, d) : g \in (IF pr.kind = "rotoselect" THEN 1..3 ELSE {gen[d]})} IN
  CHOOSE v \in vals : \A w \in vals : v <= w
\* the generator Rotoselect ends up with when it keeps the LAST of equally good ones (mechanism, only used by the generator)
PickGen(pr, S, gen, d) ==
  IF pr.kind # "rotoselect" THEN gen[d]
  ELSE LET best == BestVal(pr, S, gen, d) IN
       CHOOSE g \in 1..3 : SubMinVal(pr, S, gen, g, d) = best /\ \A h \in 1..3 : (h > g => SubMinVal(pr, S, gen, h, d) # best)
Tie(pr, S, gen, d) == pr.kind = "rotoselect" /\
  Cardinality({g \in 1..3 : SubMinVal(pr, S, gen, g, d) = BestVal(pr, S, gen, d)}) > 1
\* the representative the documented range gives: Rotosolve adds a shift in (-pi/fq, pi/fq] to the old value,
\* Rotoselect returns the angle in (-pi, pi]
Representative(pr, g, d, a, old) ==
  LET base == IF pr.kind = "rotoselect" THEN 0 ELSE old
      r == (0 - 8 * Sgn(a) - Arg(pr, base, g, d)) % 32
      sf == IF r <= 16 THEN r ELSE r - 32
  IN base + sf \div pr.fq[d]
=============================================================================
