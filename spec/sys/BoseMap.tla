------------------------------- MODULE BoseMap -------------------------------
(***************************************************************************)
(* BOSON-TO-QUBIT MAPPINGS (C54): what a bosonic word / sentence IS on the *)
(* truncated Fock space, and how Fock states are stored in qubits by the   *)
(* binary, unary and Christiansen mappings.  Pure operators over the exact *)
(* field Q(sqrt2, sqrt3, sqrt5, sqrt7) (MultiQuad).                        *)
(*                                                                         *)
(* DATA                                                                    *)
(*  letter  <<j, t>>: mode j in 1..nm (PennyLane mode j-1), t = 1 creation *)
(*          b_j^dagger, t = 0 annihilation b_j                             *)
(*  word    sequence of letters, the operator product left to right        *)
(*  terms   sequence of [c |-> rational <<n,d>>, w |-> word]  (a sentence) *)
(*  Fock state  s in [1..nm -> 0..d-1], d = number of states kept per mode *)
(*                                                                         *)
(* DEFINITIONS (textbook / documentation, not PennyLane's code)            *)
(*  LadderEntry  <m| b |n> = sqrt(n) [m = n-1],  <m| b^dagger |n> =        *)
(*               sqrt(n+1) [m = n+1], on states 0..d-1 only (truncation)   *)
(*  two definitions of the operator of a sentence, compared by TLC         *)
(*  (spec/gen/BoseMapGen.tla) wherever the dense one is affordable:        *)
(*    DenseTerms  sum_k c_k prod_i LetterMat(w_k[i]) as dense matrices,    *)
(*                the product taken in word order                          *)
(*    Column      the same operator applied to one basis state, letter by  *)
(*                letter from the right, as a sparse vector                *)
(*  encodings (one block of qubits per mode, mode j owns the j-th block)   *)
(*    binary        ceil(log2 d) qubits; qubit k of the block holds bit k  *)
(*                  of the occupation number (least significant first, as  *)
(*                  in the documented example b^dagger -> 0.683 X0 ...)    *)
(*    unary         d qubits; occupation n <-> only qubit n of the block   *)
(*                  is 1 (documented example: |1><0| -> sigma+_1 sigma-_0) *)
(*    christiansen  1 qubit, d = 2; b^dagger = (X - iY)/2 = |1><0|         *)
(***************************************************************************)
EXTENDS MultiQuad

BAdjWord(w) == [i \in 1..Len(w) |-> LET l == w[Len(w) + 1 - i] IN <<l[1], 1 - l[2]>>]
BAdjTerms(ts) == [k \in DOMAIN ts |-> [c |-> ts[k].c, w |-> BAdjWord(ts[k].w)]]
WordModes(w) == {w[i][1] : i \in DOMAIN w}
TermsModes(ts) == UNION {WordModes(ts[k].w) : k \in DOMAIN ts}

LadderEntry(t, m, n) == IF t = 0 THEN (IF m = n - 1 THEN MQSqrt(n) ELSE MQZero)
                                 ELSE (IF m = n + 1 THEN MQSqrt(n + 1) ELSE MQZero)

(* ------------------------------ Fock states ----------------------------- *)
RECURSIVE IPow(_, _)
IPow(b, e) == IF e = 0 THEN 1 ELSE b * IPow(b, e - 1)
FockDim(d, nm) == IPow(d, nm)
\* index 1..d^nm of a state (mode 1 is the fastest digit) and back
RECURSIVE FockIdx0(_, _, _)
FockIdx0(s, d, j) == IF j = 0 THEN 0 ELSE s[j] * IPow(d, j - 1) + FockIdx0(s, d, j - 1)
FockIdx(s, d) == 1 + FockIdx0(s, d, Len(s))
FockOf(i, d, nm) == [j \in 1..nm |-> ((i - 1) \div IPow(d, j - 1)) % d]

(* ------------------------------ dense definition ------------------------ *)
LetterMat(l, d, nm) == LET D == FockDim(d, nm) IN
  TLCEval([r \in 1..D |-> TLCEval([c \in 1..D |->
     LET sr == FockOf(r, d, nm)  sc == FockOf(c, d, nm) IN
     IF \A j \in 1..nm : j = l[1] \/ sr[j] = sc[j] THEN LadderEntry(l[2], sr[l[1]], sc[l[1]]) ELSE MQZero])])
RECURSIVE DenseWordFrom(_, _, _, _)
\* the product of the letters i..Len(w), in word order
DenseWordFrom(w, i, d, nm) == IF i > Len(w) THEN MQMatId(FockDim(d, nm))
                              ELSE MQMatMul(LetterMat(w[i], d, nm), DenseWordFrom(w, i + 1, d, nm))
DenseWord(w, d, nm) == DenseWordFrom(w, 1, d, nm)
RECURSIVE DenseTermsFrom(_, _, _, _)
DenseTermsFrom(ts, k, d, nm) == IF k > Len(ts) THEN MQMatZero(FockDim(d, nm))
                                ELSE MQMatAdd(MQMatScale(ts[k].c, DenseWord(ts[k].w, d, nm)), DenseTermsFrom(ts, k + 1, d, nm))
DenseTerms(ts, d, nm) == DenseTermsFrom(ts, 1, d, nm)

(* ------------------------------ sparse definition ----------------------- *)
\* a vector is a function from the Fock states with a non-zero amplitude to that amplitude
VZero == [s \in {} |-> MQZero]
VBasis(s) == [x \in {s} |-> MQOne]
VGet(v, s) == IF s \in DOMAIN v THEN v[s] ELSE MQZero
VAdd(uu, vv) == MQBind2(uu, vv, LAMBDA u, v :
   MQBind(TLCEval([s \in DOMAIN u \cup DOMAIN v |-> MQAdd(VGet(u, s), VGet(v, s))]), LAMBDA f :
      TLCEval([s \in {x \in DOMAIN f : ~MQIsZero(f[x])} |-> f[s]])))
VScale(q, v) == IF RIsZero(q) THEN VZero ELSE [s \in DOMAIN v |-> MQScale(q, v[s])]
Shift(s, j, t) == [s EXCEPT ![j] = IF t = 1 THEN @ + 1 ELSE @ - 1]
\* a ladder operator moves every basis state to at most one basis state, injectively
ApplyLetter(l, vv, d) == MQBind(vv, LAMBDA v :
   LET j == l[1]  t == l[2]
       ok == {s \in DOMAIN v : IF t = 1 THEN s[j] + 1 <= d - 1 ELSE s[j] >= 1} IN
   TLCEval([s2 \in {Shift(s, j, t) : s \in ok} |->
              LET s == Shift(s2, j, 1 - t) IN MQMul(LadderEntry(t, s2[j], s[j]), v[s])]))
RECURSIVE ApplyWordFrom(_, _, _, _)
\* b_{w[1]} ... b_{w[k]} v : the last letter acts first
ApplyWordFrom(w, k, v, d) == IF k = 0 THEN v ELSE ApplyWordFrom(w, k - 1, ApplyLetter(w[k], v, d), d)
ApplyWord(w, v, d) == ApplyWordFrom(w, Len(w), v, d)
RECURSIVE ColumnFrom(_, _, _, _)
ColumnFrom(ts, k, s, d) == IF k > Len(ts) THEN VZero
                           ELSE VAdd(VScale(ts[k].c, ApplyWord(ts[k].w, VBasis(s), d)), ColumnFrom(ts, k + 1, s, d))
\* (sum_k c_k w_k) |s>
Column(ts, s, d) == ColumnFrom(ts, 1, s, d)
\* the dense matrix agrees with the columns
DenseAgrees(ts, d, nm) == MQBind(DenseTerms(ts, d, nm), LAMBDA A :
   \A c \in 1..FockDim(d, nm) : MQBind(Column(ts, FockOf(c, d, nm), d), LAMBDA v :
      \A r \in 1..FockDim(d, nm) : A[r][c] = VGet(v, FockOf(r, d, nm))))
\* <r| O^dagger |c> = <c| O |r>  (all entries are real)
AdjAgrees(ts, d, nm) == LET D == FockDim(d, nm) IN
   MQBind2(TLCEval([c \in 1..D |-> Column(ts, FockOf(c, d, nm), d)]), TLCEval([c \in 1..D |-> Column(BAdjTerms(ts), FockOf(c, d, nm), d)]),
           LAMBDA A, B : \A r \in 1..D, c \in 1..D : VGet(B[c], FockOf(r, d, nm)) = VGet(A[r], FockOf(c, d, nm)))

(* ------------------------------ encodings ------------------------------- *)
MapNames == {"binary", "unary", "christiansen"}
CeilLog2(d) == CHOOSE k \in 0..31 : IPow(2, k) >= d /\ (k = 0 \/ IPow(2, k - 1) < d)
MapDefined(map, d) == d >= 2 /\ (map = "christiansen" => d = 2)
QubitsPerMode(map, d) == CASE map = "binary" -> CeilLog2(d) [] map = "unary" -> d [] map = "christiansen" -> 1
\* wire labels are 0-based integers; mode j (1-based) owns the j-th block
Block(map, d, j) == LET q == QubitsPerMode(map, d) IN ((j - 1) * q)..(j * q - 1)
EncOnes(map, d, j, n) == LET base == (j - 1) * QubitsPerMode(map, d) IN
   CASE map = "binary" -> {base + k : k \in {k \in 0..(QubitsPerMode(map, d) - 1) : (n \div IPow(2, k)) % 2 = 1}}
     [] map = "unary" -> {base + n}
     [] map = "christiansen" -> IF n = 1 THEN {base} ELSE {}
\* the set of qubits that are 1 in the computational basis state storing the Fock state s
EncState(map, d, s) == UNION {EncOnes(map, d, j, s[j]) : j \in 1..Len(s)}
\* different Fock states are stored in different basis states
EncInjective(map, d, nm) == \A a \in 1..FockDim(d, nm), b \in 1..FockDim(d, nm) :
   a # b => EncState(map, d, FockOf(a, d, nm)) # EncState(map, d, FockOf(b, d, nm))
=============================================================================
