--------------------------- MODULE DatasetListEdit ----------------------------
(***************************************************************************)
(* pennylane.data: a LIST attribute of a live dataset that is read and     *)
(* edited in place.  `d.a = [v1, ..., vk]` makes d.a a list-like           *)
(* collection (DatasetList, "a list-like collection type", a python        *)
(* MutableSequence); the model is the python list it stands for, written   *)
(* from the documentation of the list operations (s.insert(i, x) is        *)
(* s[i:i] = [x]; del s[i]; s[i] = x; s.append(x); negative indices count   *)
(* from the end; an index out of range raises IndexError except in insert, *)
(* which clamps) -- not from the code.                                      *)
(*                                                                         *)
(* State: `lst` the sequence of value tokens the attribute holds (token k  *)
(* = the k-th value handed to the dataset), `loc` where the dataset lives  *)
(* ("mem": Dataset(), "file": Dataset.open(path, "w")), `tok` next token.  *)
(* One action per public call; the READS are calls of the history too      *)
(* (what was read before an edit is part of the history):                  *)
(*   Get(i)      d.a[i]                      returns <<lst[i]>>            *)
(*   GetAll      list(d.a)                   returns lst                   *)
(*   Insert(i)   d.a.insert(i, value)                                      *)
(*   Append      d.a.append(value)                                         *)
(*   Del(i)      del d.a[i]                                                *)
(*   SetItem(i)  d.a[i] = value                                            *)
(*   Save        d.write(other path, "w"); Dataset.open(other path,"copy") *)
(*               returns lst as read from disk; the live object untouched  *)
(*   Reopen      (file) d.close(); d = Dataset.open(path, "a")             *)
(* Every event carries what the call must return (`ret`), the length       *)
(* afterwards (`len`) and the exception class ("" / "IndexError").         *)
(***************************************************************************)
EXTENDS Integers, Sequences, TLC

CONSTANTS MaxLen,       \* lists never grow beyond this length
          MaxSteps,
          Cfgs          \* set of [start |-> initial length, loc |-> "mem" | "file", m |-> number of free calls]

VARIABLES lst, loc, tok, n, ev, cfg
vars == <<lst, loc, tok, n, ev, cfg>>

Ev0 == [act |-> "", i |-> 0, v |-> 0, ret |-> <<>>, len |-> 0, err |-> ""]
L == Len(lst)
\* python index normalisation
Norm(i) == IF i < 0 THEN i + L ELSE i
Valid(i) == Norm(i) >= 0 /\ Norm(i) < L
Clamp(i) == IF Norm(i) < 0 THEN 0 ELSE IF Norm(i) > L THEN L ELSE Norm(i)
\* indices tried at length L: every position, the last one counted from the end, one position out of range
Idx == (0..L) \cup {-1}

Init == /\ cfg \in Cfgs /\ lst = [k \in 1..cfg.start |-> k] /\ loc = cfg.loc /\ tok = cfg.start + 1 /\ n = 0
        /\ ev = [Ev0 EXCEPT !.act = "Start", !.len = cfg.start]

Keep(e) == /\ UNCHANGED <<lst, loc, tok>> /\ ev' = [e EXCEPT !.len = L]
Raise(e) == /\ UNCHANGED <<lst, loc>> /\ ev' = [e EXCEPT !.len = L, !.err = "IndexError"]

Get(i) == LET e == [Ev0 EXCEPT !.act = "Get", !.i = i] IN
          IF Valid(i) THEN Keep([e EXCEPT !.ret = <<lst[Norm(i) + 1]>>]) ELSE Raise(e) /\ UNCHANGED tok
GetAll == Keep([Ev0 EXCEPT !.act = "GetAll", !.ret = lst])
Save == Keep([Ev0 EXCEPT !.act = "Save", !.ret = lst])
Reopen == loc = "file" /\ Keep([Ev0 EXCEPT !.act = "Reopen"])

Insert(i) ==
  /\ L < MaxLen
  /\ LET k == Clamp(i) IN lst' = SubSeq(lst, 1, k) \o <<tok>> \o SubSeq(lst, k + 1, L)
  /\ tok' = tok + 1 /\ UNCHANGED loc
  /\ ev' = [Ev0 EXCEPT !.act = "Insert", !.i = i, !.v = tok, !.len = L + 1]
AppendV ==
  /\ L < MaxLen
  /\ lst' = Append(lst, tok) /\ tok' = tok + 1 /\ UNCHANGED loc
  /\ ev' = [Ev0 EXCEPT !.act = "Append", !.v = tok, !.len = L + 1]
Del(i) == LET e == [Ev0 EXCEPT !.act = "Del", !.i = i] IN
  IF Valid(i) THEN /\ lst' = SubSeq(lst, 1, Norm(i)) \o SubSeq(lst, Norm(i) + 2, L)
                   /\ UNCHANGED <<loc, tok>> /\ ev' = [e EXCEPT !.len = L - 1]
  ELSE Raise(e) /\ UNCHANGED tok
\* the value is handed over (token issued) whether or not the index is accepted
SetItem(i) == LET e == [Ev0 EXCEPT !.act = "SetItem", !.i = i, !.v = tok] IN
  /\ tok' = tok + 1
  /\ IF Valid(i) THEN /\ lst' = [lst EXCEPT ![Norm(i) + 1] = tok] /\ UNCHANGED loc /\ ev' = [e EXCEPT !.len = L]
     ELSE Raise(e)

Call == \/ \E i \in Idx : Get(i) \/ Insert(i) \/ Del(i) \/ SetItem(i)
        \/ GetAll \/ Save \/ Reopen \/ AppendV
Next == n < MaxSteps /\ n < cfg.m /\ n' = n + 1 /\ UNCHANGED cfg /\ Call
Spec == Init /\ [][Next]_vars

\* ------------------------------------------------------------------ invariants
TypeOK == /\ L <= MaxLen /\ loc \in {"mem", "file"} /\ tok \in Nat /\ \A k \in 1..L : lst[k] \in 1..(tok - 1)
          /\ ev.len = L
\* every value was handed over once: a list never shows one value at two positions
Distinct == \A j, k \in 1..L : j # k => lst[j] # lst[k]

\* ------------------------------------------------------------------ the documented list operations, pointwise
\* (stated independently of the SubSeq formulation of the actions)
L2 == Len(lst')
InsertProp == ev'.act \in {"Insert", "Append"} =>
   /\ L2 = L + 1
   /\ \E k \in 1..L2 : /\ lst'[k] = ev'.v
                       /\ \A j \in 1..L2 : (j < k => lst'[j] = lst[j]) /\ (j > k => lst'[j] = lst[j - 1])
                       /\ (ev'.act = "Append" => k = L2)
                       /\ (ev'.act = "Insert" /\ ev'.i >= 0 /\ ev'.i <= L => k = ev'.i + 1)      \* x ends up AT index i
                       /\ (ev'.act = "Insert" /\ ev'.i = -1 /\ L > 0 => k = L)                   \* before the last element
DelProp == (ev'.act = "Del" /\ ev'.err = "") =>
   /\ L2 = L - 1
   /\ \E k \in 1..L : /\ \A j \in 1..L2 : (j < k => lst'[j] = lst[j]) /\ (j >= k => lst'[j] = lst[j + 1])
                      /\ (ev'.i >= 0 => k = ev'.i + 1) /\ (ev'.i = -1 => k = L)
SetProp == (ev'.act = "SetItem" /\ ev'.err = "") =>
   /\ L2 = L
   /\ \E k \in 1..L : /\ lst'[k] = ev'.v /\ \A j \in 1..L : j # k => lst'[j] = lst[j]
                      /\ (ev'.i >= 0 => k = ev'.i + 1) /\ (ev'.i = -1 => k = L)
ReadOnly == (ev'.act \in {"Get", "GetAll", "Save", "Reopen"} \/ ev'.err # "") => lst' = lst
GetProp == /\ (ev'.act = "Get" /\ ev'.err = "" /\ ev'.i >= 0) => ev'.ret = <<lst[ev'.i + 1]>>
           /\ (ev'.act = "Get" /\ ev'.err = "" /\ ev'.i = -1) => ev'.ret = <<lst[L]>>
           /\ (ev'.act \in {"GetAll", "Save"}) => ev'.ret = lst
ErrProp == ev'.err # "" <=> (ev'.act \in {"Get", "Del", "SetItem"} /\ (ev'.i >= L \/ (ev'.i = -1 /\ L = 0)))
ListProps == [][InsertProp /\ DelProp /\ SetProp /\ ReadOnly /\ GetProp /\ ErrProp]_vars
=============================================================================
