---------------------------- MODULE ExecutorMix ------------------------------
(***************************************************************************)
(* Batch layer on top of Executor (device layer switched on) for C31: the  *)
(* batch handed to default.qubit.execute is no longer "n anonymous tasks"  *)
(* but has a COMPOSITION and may be LARGE.                                 *)
(*                                                                         *)
(*   mask[i] = 1   circuit i has finite shots: its result depends on the   *)
(*                 seed it is given                                        *)
(*   mask[i] = 0   circuit i is analytic: its result is a function of the  *)
(*                 circuit alone ("analytic results equal serial           *)
(*                 execution"), whatever seed it is handed                 *)
(*   chunk         how the pool hands tasks to workers: 1 = one task at a  *)
(*                 time (serial, concurrent.futures pools), c > 1 = the    *)
(*                 batch is chopped into consecutive chunks of c tasks and *)
(*                 a worker takes a whole chunk (multiprocessing.Pool.map: *)
(*                 "chops the iterable into a number of chunks which it    *)
(*                 submits to the process pool as separate tasks",         *)
(*                 c = ceil(n / (4 * workers)))                            *)
(*                                                                         *)
(* Every composition of batches of up to AllUpTo circuits is explored;     *)
(* larger batches take their composition from a periodic family (all       *)
(* finite, alternating from either start, one / two finite in three).      *)
(*                                                                         *)
(* What the caller can observe of a value v = Res(i, s) is Obs(v): the     *)
(* seed is visible only through a finite-shot circuit.  The property-level *)
(* invariants are those of Executor stated on observations:                *)
(*   MixOrderPreserved   the list handed to the caller is a prefix of what *)
(*                       a sequential map over (batch, drawn seeds) gives  *)
(*   MixReproducible     every returned list is a function of (seed,       *)
(*                       batch) alone                                      *)
(*                                                                         *)
(* MixBug # "none": deliberately wrong variants, model-level negative      *)
(* controls that show WHICH inputs a check has to exercise (TLC must find  *)
(* them violating the property, and only inside the stated input class:    *)
(* BoundarySeeds / BoundaryLarge hold, Rejected reports the violations):    *)
(*   "seed-iff-first-finite"  seeds are drawn only when the first circuit  *)
(*        has finite shots, otherwise tasks sample from fresh entropy      *)
(*        (two values, chosen nondeterministically): correct on every      *)
(*        batch that starts with a finite-shot circuit or is homogeneous   *)
(*   "collect-by-text-id"     results gathered by the decimal TEXT of the  *)
(*        0-based task index: correct for batches of up to 10 circuits     *)
(***************************************************************************)
EXTENDS Executor
CONSTANTS AllUpTo,     \* batches of up to AllUpTo circuits: every composition
          MaskFilter,  \* "any" | "first-finite" (only compositions that start finite or are all analytic) | "all-finite"
          ChunkModes,  \* subset of {"single", "pool"}
          MixBug
VARIABLES mask, chunk
mvars == <<vars, mask, chunk>>

ASSUME Device /\ Bug = "none"

MaxOf(a, b) == IF a >= b THEN a ELSE b
MinOf(a, b) == IF a <= b THEN a ELSE b

\* ------------------------------------------------------------ compositions
Family(n0) == {[i \in 1..n0 |-> IF (i + a) % p < q THEN 1 ELSE 0] : a \in 0..2, p \in 2..3, q \in 1..2}
MaskSet(n0) ==
  LET base == IF n0 <= AllUpTo THEN [1..n0 -> {0, 1}] ELSE Family(n0)
  IN IF MaskFilter = "first-finite" THEN {m \in base : n0 = 0 \/ m[1] = 1 \/ \A i \in 1..n0 : m[i] = 0}
     ELSE IF MaskFilter = "all-finite" THEN {m \in base : \A i \in 1..n0 : m[i] = 1}
     ELSE base
ChunkSize(n0, w0, mode) == IF mode = "pool" THEN MaxOf(1, (n0 + 4 * w0 - 1) \div (4 * w0)) ELSE 1

MixInit == \E n0 \in TaskCounts, w0 \in WorkerCounts, r0 \in Seeds, mode \in ChunkModes :
             /\ InitWith(n0, w0, r0) /\ mask \in MaskSet(n0) /\ chunk = ChunkSize(n0, w0, mode)

\* ------------------------------------------------------------ observations
Entropy == 500                       \* marker "no seed": outside the range of the generator (0..63)
TaskOf(v) == v \div 1000
Obs(v) == IF mask[TaskOf(v)] = 1 THEN v ELSE 1000 * TaskOf(v)
\* = [i \in 1..n |-> Obs(ExpectedOut(k)[i])], with the seeds of round k computed once
MixExpected(k) == LET sd == TLCEval(ExpectedSeeds(k)) IN TLCEval([i \in 1..n |-> Obs(Res(i, sd[i]))])
ObsOuts == [k \in 1..Len(outs) |-> [i \in 1..Len(outs[k]) |-> Obs(outs[k][i])]]

\* ------------------------------------------------------------ actions
MDrawSeeds ==
  /\ phase = "idle"
  /\ IF MixBug = "seed-iff-first-finite" /\ n > 0 /\ mask[1] = 0
       THEN seeds' = [i \in 1..n |-> Entropy] /\ rng' = rng
       ELSE seeds' = Draws(rng, n) /\ rng' = After(rng, n)
  /\ phase' = "run"
  /\ UNCHANGED <<n, w, rng0, round, nsub, queue, running, done, out, collected, corder, outs, corders, mask, chunk>>

ChunkOf(i) == (i - 1) \div chunk
IsHead(i) == (i - 1) % chunk = 0
Dispatched == (1..nsub) \ SeqSet(queue)
OpenChunks == {c \in 0..ChunkOf(n) : /\ \E j \in Dispatched : ChunkOf(j) = c
                                      /\ \E t \in 1..n : ChunkOf(t) = c /\ t \notin DOMAIN done}
MCanTake(i) ==
  IF chunk = 1
  THEN i \in Pending /\ Cardinality(running) < w
  ELSE /\ i \in SeqSet(queue)
       /\ IF IsHead(i)
          THEN /\ \A j \in SeqSet(queue) : IsHead(j) => i <= j      \* chunks are taken in batch order
               /\ Cardinality(OpenChunks) < w                        \* by a worker that holds no chunk
               /\ nsub >= MinOf(n, i + chunk - 1)                    \* a chunk is handed over as a whole
          ELSE (i - 1) \in DOMAIN done                               \* same worker, next task of its chunk
MDispatch(i) ==
  /\ phase = "run" /\ MCanTake(i)
  /\ Take(i)
  /\ UNCHANGED <<n, w, rng0, phase, round, nsub, done, out, collected, corder, rng, seeds, outs, corders, mask, chunk>>

MComplete(i) ==
  /\ phase = "run" /\ i \in running
  /\ \E s \in (IF seeds[i] = Entropy THEN {Entropy + 1, Entropy + 2} ELSE {seeds[i]}) : Finish(i, Res(i, s))
  /\ UNCHANGED <<n, w, rng0, phase, round, nsub, queue, out, collected, rng, seeds, outs, corders, mask, chunk>>

RECURSIVE Digits(_)
Digits(x) == IF x < 10 THEN <<x>> ELSE Append(Digits(x \div 10), x % 10)
RECURSIVE LexLess(_, _)
LexLess(a, b) == IF a = <<>> THEN b # <<>>
                 ELSE IF b = <<>> THEN FALSE
                 ELSE IF a[1] # b[1] THEN a[1] < b[1] ELSE LexLess(Tail(a), Tail(b))
TextBefore(i, j) == LexLess(Digits(i - 1), Digits(j - 1))
MCollect ==
  /\ phase = "run"
  /\ \E k \in DOMAIN done \ collected :
       /\ IF MixBug = "collect-by-text-id"
          THEN DOMAIN done = 1..n /\ \A j \in (1..n) \ collected : j = k \/ TextBefore(k, j)
          ELSE k = Len(out) + 1
       /\ Gather(k)
  /\ UNCHANGED <<n, w, rng0, phase, round, nsub, queue, running, done, corder, rng, seeds, outs, corders, mask, chunk>>

MixNext == \/ MDrawSeeds
           \/ \E i \in 1..n : (Submit(i) /\ UNCHANGED <<mask, chunk>>) \/ MDispatch(i) \/ MComplete(i)
           \/ MCollect
           \/ (FinishRound /\ UNCHANGED <<mask, chunk>>)

\* ------------------------------------------------------------ invariants
MixTypeOK == TypeOK /\ mask \in [1..n -> {0, 1}] /\ chunk >= 1
MixOrderPreserved == (phase = "run" /\ out # <<>>) => LET e == MixExpected(round) IN \A k \in 1..Len(out) : Obs(out[k]) = e[k]
MixReproducible == \A k \in 1..Len(outs) : LET e == MixExpected(k) IN \A i \in 1..n : Obs(outs[k][i]) = e[i]
\* an analytic circuit never shows the seed it was handed
AnalyticSeedFree == \A k \in 1..Len(outs) : \A i \in 1..n : mask[i] = 0 => Obs(outs[k][i]) = Res(i, 0)
MixProgress == phase = "end" \/ ENABLED MixNext
\* input classes outside of which the wrong variants are indistinguishable from the correct model
PropOK == MixOrderPreserved /\ MixReproducible
BoundarySeeds == PropOK \/ (n > 0 /\ mask[1] = 0 /\ \E i \in 1..n : mask[i] = 1)       \* analytic first, finite shots later
BoundaryLarge == PropOK \/ n > 10                                                       \* more than ten circuits
\* CONSTRAINT: reports every finished behaviour that returned something else than (seed, batch) determine
Rejected == IF phase = "end" /\ ~MixReproducible THEN PrintT(<<"V", "rejected", n, w>>) ELSE TRUE
\* ACTION_CONSTRAINT for large batches: the caller hands over the whole batch before the pool starts on it (executor.map
\* receives complete lists); the interleaving of Submit with the rest is explored exhaustively on small batches
SubmitFirst == (phase = "run" /\ nsub < n) => nsub' = nsub + 1
\* the completion history is not part of the state the invariants talk about
MixView == <<n, w, rng0, phase, round, nsub, queue, running, done, out, collected, rng, seeds, outs, mask, chunk>>
=============================================================================
