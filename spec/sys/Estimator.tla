------------------------------ MODULE Estimator ------------------------------
(***************************************************************************)
(* C47: resource estimation (pennylane.estimator) as a state machine.      *)
(*                                                                         *)
(* State: the auxiliary-wire bookkeeping of WireResourceManager (zeroed,   *)
(* any-state, algorithmic wires, tight budget) plus the gate counts.       *)
(* One action per primitive thing an estimate does:                        *)
(*     Grab(n)  = grab_zeroed(n)      Free(n) = free_wires(n)              *)
(*     CountGate(g, k)  = k more occurrences of gate g                     *)
(* written from the class documentation:                                   *)
(*   grab_zeroed: n zeroed wires become any-state wires; when fewer than n *)
(*     zeroed wires are available, a tight budget raises, otherwise the    *)
(*     missing wires are created (zeroed drops to 0, any-state grows by n) *)
(*   free_wires: n any-state wires become zeroed wires; freeing more than  *)
(*     the available any-state wires raises                                *)
(*   a raising call leaves the bookkeeping unchanged                       *)
(* Ghost fields (grabbed, freed, extra, z0, a0) make "accounts for every   *)
(* allocation" a state invariant.                                          *)
(*                                                                         *)
(* A workflow is a sequence of TERMS (resource operators):                 *)
(*   leaf g | composite c (its decomposition is Lib[c]) | adj(b) |         *)
(*   ctrl(b, nc) | pow(b, z) | prod(<<b1,k1>>, ...)                        *)
(* Decomp gives the documented decomposition of a term, Events flattens a  *)
(* workflow into the history of Grab/Free/CountGate events an estimate     *)
(* performs with respect to a gate set, DenCount is the independent        *)
(* denotational count ("sum of the parts, repetition multiplies").         *)
(***************************************************************************)
EXTENDS Integers, Sequences, FiniteSets, TLC

\* ------------------------------------------------------------------ wire bookkeeping
WM0(z, a, algo, tight) == [z |-> z, a |-> a, algo |-> algo, tight |-> tight,
                           z0 |-> z, a0 |-> a, extra |-> 0, grabbed |-> 0, freed |-> 0]
GrabOK(s, n) == ~(s.tight /\ n > s.z)
Grab(s, n) == IF n > s.z THEN [s EXCEPT !.z = 0, !.a = @ + n, !.extra = @ + (n - s.z), !.grabbed = @ + n]
                         ELSE [s EXCEPT !.z = @ - n, !.a = @ + n, !.grabbed = @ + n]
FreeOK(s, n) == n <= s.a
Free(s, n) == [s EXCEPT !.a = @ - n, !.z = @ + n, !.freed = @ + n]
TotalWires(s) == s.z + s.a + s.algo

\* the property-level conjuncts of C47 on the bookkeeping
NonNegS(s)      == s.z >= 0 /\ s.a >= 0
TotalGeAlgoS(s) == TotalWires(s) >= s.algo
AccountedS(s)   == /\ s.a = s.a0 + s.grabbed - s.freed              \* every grab / free is reflected
                   /\ s.z + s.a = s.z0 + s.a0 + s.extra             \* wires are only ever created, never lost
                   /\ s.extra >= 0 /\ (s.tight => s.extra = 0)      \* a tight budget never creates wires

\* ------------------------------------------------------------------ terms
Leaf(g)     == [t |-> "leaf", g |-> g,  n |-> 0,  kids |-> <<>>]
Comp(c)     == [t |-> "comp", g |-> c,  n |-> 0,  kids |-> <<>>]
Adj(b)      == [t |-> "adj",  g |-> "", n |-> 0,  kids |-> << <<b, 1>> >>]
Ctrl(b, nc) == [t |-> "ctrl", g |-> "", n |-> nc, kids |-> << <<b, 1>> >>]
Pow(b, z)   == [t |-> "pow",  g |-> "", n |-> z,  kids |-> << <<b, 1>> >>]
Prod(fs)    == [t |-> "prod", g |-> "", n |-> 0,  kids |-> fs]
Base(x)     == x.kids[1][1]

\* decomposition entries
Gate(b, n)  == [k |-> "gate",  b |-> b,        n |-> n]
Alloc(n)    == [k |-> "alloc", b |-> Leaf(""), n |-> n]
Dealloc(n)  == [k |-> "free",  b |-> Leaf(""), n |-> n]

CONSTANTS Lib,       \* [composite name |-> sequence of decomposition entries]
          Width      \* [leaf / composite name |-> number of wires it acts on]

\* adjoint / controlled version of one decomposition entry (documented: adjoint swaps allocation and release,
\* control leaves them alone)
AdjAct(a)      == CASE a.k = "gate"  -> Gate(Adj(a.b), a.n)
                    [] a.k = "alloc" -> Dealloc(a.n)
                    [] a.k = "free"  -> Alloc(a.n)
CtrlAct(a, nc) == IF a.k = "gate" THEN Gate(Ctrl(a.b, nc), a.n) ELSE a

RECURSIVE Decomp(_)
Decomp(x) ==
  CASE x.t = "comp" -> Lib[x.g]
    [] x.t = "prod" -> TLCEval([i \in 1..Len(x.kids) |-> Gate(x.kids[i][1], x.kids[i][2])])      \* each factor, its count
    [] x.t = "pow"  -> << Gate(Base(x), x.n) >>                                          \* z repetitions of the base
    [] x.t = "adj"  -> IF Base(x).t = "adj" THEN << Gate(Base(Base(x)), 1) >>            \* adjoint of adjoint = base
                       ELSE LET d == TLCEval(Decomp(Base(x))) IN TLCEval([i \in 1..Len(d) |-> AdjAct(d[Len(d) + 1 - i])])
    [] x.t = "ctrl" -> IF Base(x).t = "ctrl" THEN << Gate(Ctrl(Base(Base(x)), x.n + Base(x).n), 1) >>
                       ELSE LET d == TLCEval(Decomp(Base(x))) IN TLCEval([i \in 1..Len(d) |-> CtrlAct(d[i], x.n)])

\* A term is counted (not decomposed) when it is a leaf, a leaf under adjoint / control wrappers (the harness puts the
\* wrapped leaf names into the gate set), or a bare composite that is a member of the gate set GS.
RECURSIVE IsLeafStack(_)
IsLeafStack(x) == x.t = "leaf" \/ (x.t \in {"adj", "ctrl"} /\ IsLeafStack(Base(x)))
RECURSIVE StackBase(_)
StackBase(x) == IF x.t \in {"leaf", "comp"} THEN x.g ELSE StackBase(Base(x))
Counted(x, GS) == IsLeafStack(x) \/ (x.t = "comp" /\ x.g \in GS)

RECURSIVE NetAlloc(_)
NetAlloc(d) == IF d = <<>> THEN 0
               ELSE (CASE d[1].k = "alloc" -> d[1].n [] d[1].k = "free" -> 0 - d[1].n [] OTHER -> 0) + NetAlloc(Tail(d))

\* events
ECount(g, n) == [e |-> "count", g |-> g,  n |-> n]
EGrab(n)     == [e |-> "grab",  g |-> "", n |-> n]
EFree(n)     == [e |-> "free",  g |-> "", n |-> n]

\* The history of one operator occurring `scalar` times.  Mechanism (drift level): a decomposition that releases exactly
\* what it allocates is repeated in series, so its wires are grabbed once; otherwise the amounts scale with the repetitions.
RECURSIVE RunTerm(_, _, _)
RECURSIVE RunActs(_, _, _, _)
RunTerm(x, scalar, GS) ==
  IF Counted(x, GS) THEN << ECount(StackBase(x), scalar) >>
  ELSE LET d == TLCEval(Decomp(x)) IN RunActs(d, scalar, NetAlloc(d) # 0, GS)
RunActs(d, scalar, scaled, GS) ==
  IF d = <<>> THEN <<>>
  ELSE LET a == d[1]
           amt == IF scaled THEN a.n * scalar ELSE a.n
           ev == CASE a.k = "gate"  -> RunTerm(a.b, scalar * a.n, GS)
                   [] a.k = "alloc" -> << EGrab(amt) >>
                   [] a.k = "free"  -> << EFree(amt) >>
       IN ev \o RunActs(Tail(d), scalar, scaled, GS)

RECURSIVE Events(_, _)
Events(wf, GS) == IF wf = <<>> THEN <<>> ELSE RunTerm(wf[1], 1, GS) \o Events(Tail(wf), GS)

\* ------------------------------------------------------------------ denotational counts (the property's reading)
\* occurrences of every gate in one application of x, as a vector over all names: the sum over the parts, each multiplied
\* by its repetitions
GateNames == DOMAIN Width
VecZero == [g \in GateNames |-> 0]
VecUnit(h) == [g \in GateNames |-> IF g = h THEN 1 ELSE 0]
VecAdd(u, v) == [g \in GateNames |-> u[g] + v[g]]
VecScale(k, u) == [g \in GateNames |-> k * u[g]]
RECURSIVE DenVec(_, _)
RECURSIVE DenActs(_, _)
DenVec(x, GS) == IF Counted(x, GS) THEN VecUnit(StackBase(x)) ELSE TLCEval(DenActs(TLCEval(Decomp(x)), GS))
DenActs(d, GS) == IF d = <<>> THEN VecZero
                  ELSE LET r == TLCEval(DenActs(Tail(d), GS)) IN
                       IF d[1].k = "gate" THEN TLCEval(VecAdd(VecScale(d[1].n, TLCEval(DenVec(d[1].b, GS))), r)) ELSE r
RECURSIVE DenSeq(_, _)
DenSeq(wf, GS) == IF wf = <<>> THEN VecZero ELSE TLCEval(VecAdd(TLCEval(DenVec(wf[1], GS)), TLCEval(DenSeq(Tail(wf), GS))))

\* number of wires an operator acts on (no wire labels: the operators of a workflow are assumed to overlap)
RECURSIVE TermWidth(_)
RECURSIVE MaxKidWidth(_)
TermWidth(x) == CASE x.t \in {"leaf", "comp"} -> Width[x.g]
                  [] x.t = "ctrl" -> TermWidth(Base(x)) + x.n
                  [] x.t = "prod" -> MaxKidWidth(x.kids)
                  [] OTHER -> TermWidth(Base(x))
MaxKidWidth(ks) == IF ks = <<>> THEN 0
                   ELSE LET w == TermWidth(ks[1][1])  r == MaxKidWidth(Tail(ks)) IN IF w > r THEN w ELSE r
RECURSIVE AlgoWires(_)
AlgoWires(wf) == IF wf = <<>> THEN 0
                 ELSE LET w == TermWidth(wf[1])  r == AlgoWires(Tail(wf)) IN IF w > r THEN w ELSE r
=============================================================================
