------------------------------- MODULE OpHeap -------------------------------
(***************************************************************************)
(* C06  Copies, pickles, pytrees and rebinding reproduce operators.        *)
(*                                                                         *)
(* An operator / measurement process is a heap node: an immutable skeleton *)
(* (class, wires, shape of the non-parameter attributes) plus references   *)
(* to MUTABLE CELLS -- one per parameter container and one for the         *)
(* hyper-parameter dictionary / operand list.  The CONTENT of a node is    *)
(* what is read through its cells; so an in-place write to a cell changes  *)
(* the content of every node that references the cell.                     *)
(*                                                                         *)
(* Actions (one per public way of reproducing an object), each producing a *)
(* new node from a source node:                                            *)
(*   shallow   copy.copy            may share every cell                   *)
(*   deep      copy.deepcopy        every cell fresh                       *)
(*   pickle    loads(dumps(x))      every cell fresh                       *)
(*   flat_pl   qp.pytrees flatten/unflatten      leaves passed through     *)
(*   flat_jax  jax.tree_util flatten/unflatten   leaves passed through     *)
(*   bind      capture primitive bind + evaluation, leaves passed through  *)
(*   rebind    bind_new_parameters(x, newp)      parameters := newp        *)
(* and  mutate(m, c, v): an in-place write to cell c of node m.            *)
(*                                                                         *)
(* Every action appends an EVENT record; the property is stated on events  *)
(* (operator Fails) so that exactly the same definitions judge the model   *)
(* (invariants below) and the events recorded from the real code           *)
(* (Trace_OpHeap.tla).                                                     *)
(***************************************************************************)
EXTENDS Integers, Sequences, FiniteSets, TLC

CONSTANTS MaxSteps,     \* length of the histories explored
          NParams,      \* parameter cells of the root object
          DeepMode      \* "spec": deepcopy as the property demands;
                        \* "keepleaves": a deepcopy that keeps the parameter leaves (negative control of the model)

VARIABLES heap,         \* sequence: cell id -> abstract value
          nodes,        \* sequence of nodes [cls, wires, shape, pc (param cells), hc (hyper cell), act, from]
          hist          \* sequence of event records

vars == <<heap, nodes, hist>>

Preserving == {"shallow", "deep", "pickle", "flat_pl", "flat_jax", "bind"}
Creating   == Preserving \cup {"rebind"}
PVals == {"v0", "v1"}       \* the two parameter sets of an instance
HVals == {"h0", "h1"}

SeqToSet(s) == {s[j] : j \in 1..Len(s)}

(* ------------------------------------------------------------------ the property, on event records ---------- *)
(* e = [act, src, dst, pre, post, cells, newp, eq, exc, mc, prov]                                                *)
(*   pre[k] / post[k]  content of node k before / after the action: [cls, wires, params, hyper, shape, ifc]      *)
(*   cells[k]          SET of mutable cells reachable from node k after the action                               *)
(*   newp              the new parameters handed to rebind;  eq: the library's own equality (dst, src)           *)
(*   exc               "" or the exception class the action raised (then dst = 0)                                *)
(*   mc                the cell written by mutate;  prov[k] = [act, src]: how node k was made                    *)
Made(e) == e.exc = "" /\ e.dst > 0
D(e) == e.post[e.dst]
S(e) == e.pre[e.src]
DeepPair(e, k, m) == \/ (e.prov[m].act = "deep" /\ e.prov[m].src = k)
                     \/ (e.prov[k].act = "deep" /\ e.prov[k].src = m)

Fails(e) ==
  LET made == Made(e)
      pres == e.act \in Preserving /\ made
      reb  == e.act = "rebind" /\ made
  IN  (IF e.act \in Creating /\ e.exc # "" THEN {"raises"} ELSE {})
      \cup (IF pres /\ D(e).cls # S(e).cls THEN {"content:cls"} ELSE {})
      \cup (IF pres /\ D(e).wires # S(e).wires THEN {"content:wires"} ELSE {})
      \cup (IF pres /\ D(e).params # S(e).params THEN {"content:params"} ELSE {})
      \cup (IF pres /\ (D(e).hyper # S(e).hyper \/ D(e).shape # S(e).shape) THEN {"content:hyper"} ELSE {})
      \cup (IF pres /\ e.act # "bind" /\ D(e).ifc # S(e).ifc THEN {"content:interface"} ELSE {})
      \cup (IF pres /\ ~e.eq THEN {"equal"} ELSE {})
      \cup (IF reb /\ D(e).params # e.newp THEN {"rebind:params"} ELSE {})
      \cup (IF reb /\ D(e).cls # S(e).cls THEN {"rebind:cls"} ELSE {})
      \cup (IF reb /\ D(e).wires # S(e).wires THEN {"rebind:wires"} ELSE {})
      \cup (IF reb /\ D(e).shape # S(e).shape THEN {"rebind:attributes"} ELSE {})
      \cup (IF e.act = "deep" /\ made /\ e.cells[e.dst] \cap e.cells[e.src] # {} THEN {"deep:shared-cells"} ELSE {})
      \cup (IF e.act \in Creating /\ e.post[e.src] # e.pre[e.src] THEN {"source-changed"} ELSE {})
      \cup (IF e.act = "mutate" /\ \E k \in 1..Len(e.pre) : DeepPair(e, k, e.src) /\ e.post[k] # e.pre[k]
            THEN {"mutation-leaks"} ELSE {})

(* mechanism-level expectations (drift, never a verdict): nodes other than the source keep their content under a  *)
(* creating action; a write to cell c changes only nodes that reach c                                             *)
Drift(e) ==
      (IF e.act \in Creating /\ \E k \in 1..Len(e.pre) : k # e.src /\ e.post[k] # e.pre[k] THEN {"frame"} ELSE {})
 \cup (IF e.act = "mutate" /\ \E k \in 1..Len(e.pre) : e.mc \notin e.cells[k] /\ e.post[k] # e.pre[k] THEN {"mutframe"} ELSE {})
 \cup (IF e.act = "mutate" /\ e.post[e.src] = e.pre[e.src] THEN {"mutation-invisible"} ELSE {})

(* ------------------------------------------------------------------ the model ------------------------------- *)
ContentIn(h, n) == [cls |-> n.cls, wires |-> n.wires, shape |-> n.shape, ifc |-> "numpy",
                    params |-> [i \in 1..Len(n.pc) |-> h[n.pc[i]]], hyper |-> h[n.hc]]
CellsOf(n) == SeqToSet(n.pc) \cup {n.hc}

Init == /\ heap = [c \in 1..(NParams + 1) |-> IF c <= NParams THEN "v0" ELSE "h0"]
        /\ nodes = << [cls |-> "C", wires |-> <<"w1", "w2">>, shape |-> "S", pc |-> [i \in 1..NParams |-> i], hc |-> NParams + 1,
                       act |-> "root", from |-> 0] >>
        /\ hist = <<>>

Event(act, s, d, h2, n2, newp, mc) ==
  [act |-> act, src |-> s, dst |-> d,
   pre   |-> [k \in 1..Len(nodes) |-> ContentIn(heap, nodes[k])],
   post  |-> [k \in 1..Len(n2) |-> ContentIn(h2, n2[k])],
   cells |-> [k \in 1..Len(n2) |-> CellsOf(n2[k])],
   newp |-> newp, exc |-> "", mc |-> mc,
   eq |-> IF act \in Preserving THEN ContentIn(h2, n2[d]) = ContentIn(heap, nodes[s]) ELSE TRUE,
   prov |-> [k \in 1..Len(n2) |-> [act |-> n2[k].act, src |-> n2[k].from]]]

\* the new node and the cells it allocates, for each way of reproducing node s
Fresh(n, act, s) ==     \* every cell fresh, values copied
  LET b == Len(heap) np == Len(n.pc)
  IN [node |-> [n EXCEPT !.pc = [i \in 1..np |-> b + i], !.hc = b + np + 1, !.act = act, !.from = s],
      add  |-> [i \in 1..(np + 1) |-> IF i <= np THEN heap[n.pc[i]] ELSE heap[n.hc]]]
KeepLeaves(n, act, s) ==  \* parameter leaves passed through, containers rebuilt
  [node |-> [n EXCEPT !.hc = Len(heap) + 1, !.act = act, !.from = s], add |-> <<heap[n.hc]>>]
ShareAll(n, act, s) == [node |-> [n EXCEPT !.act = act, !.from = s], add |-> <<>>]
WithParams(n, s, newp) ==
  LET b == Len(heap) np == Len(n.pc)
  IN [node |-> [n EXCEPT !.pc = [i \in 1..np |-> b + i], !.hc = b + np + 1, !.act = "rebind", !.from = s],
      add  |-> [i \in 1..(np + 1) |-> IF i <= np THEN newp[i] ELSE heap[n.hc]]]

Made2(act, s, newp) ==
  LET n == nodes[s]
  IN CASE act = "shallow" -> ShareAll(n, act, s)
       [] act = "deep" -> IF DeepMode = "spec" THEN Fresh(n, act, s) ELSE KeepLeaves(n, act, s)
       [] act = "pickle" -> Fresh(n, act, s)
       [] act \in {"flat_pl", "flat_jax", "bind"} -> KeepLeaves(n, act, s)
       [] act = "rebind" -> WithParams(n, s, newp)

Create(act, s, newp) ==
  /\ Len(hist) < MaxSteps
  /\ LET m == Made2(act, s, newp)
         h2 == heap \o m.add
         n2 == Append(nodes, m.node)
     IN /\ heap' = h2 /\ nodes' = n2
        /\ hist' = Append(hist, Event(act, s, Len(n2), h2, n2, newp, 0))

Mutate(m, c, v) ==
  /\ Len(hist) < MaxSteps
  /\ c \in CellsOf(nodes[m]) /\ v # heap[c]
  /\ (c \in SeqToSet(nodes[m].pc) => v \in PVals) /\ (c = nodes[m].hc => v \in HVals)
  /\ LET h2 == [heap EXCEPT ![c] = v]
     IN /\ heap' = h2 /\ UNCHANGED nodes
        /\ hist' = Append(hist, Event("mutate", m, m, h2, nodes, <<>>, c))

Next == \/ \E s \in 1..Len(nodes), act \in Preserving : Create(act, s, <<>>)
        \/ \E s \in 1..Len(nodes), v \in PVals : Create("rebind", s, [i \in 1..NParams |-> v])
        \/ \E m \in 1..Len(nodes), c \in 1..Len(heap), v \in PVals \cup HVals : Mutate(m, c, v)

(* ------------------------------------------------------------------ invariants of the model ------------------- *)
Last == hist[Len(hist)]
PropertyOK   == hist = <<>> \/ Fails(Last) = {}
NoDrift      == hist = <<>> \/ Drift(Last) \subseteq {}
DeepDisjoint == hist = <<>> \/ "deep:shared-cells" \notin Fails(Last)
Isolation    == hist = <<>> \/ "mutation-leaks" \notin Fails(Last)
\* stronger than the per-event statement: a deep copy reaches no cell of ANY older node
DeepFresh == \A k \in 1..Len(nodes) : nodes[k].act = "deep" =>
                \A j \in 1..(k - 1) : CellsOf(nodes[k]) \cap CellsOf(nodes[j]) = {}
\* witness for the negative control of the model (DeepMode = "keepleaves"): TLC must find a history in which BOTH the cell
\* graph and an in-place write expose the shared leaves, i.e. it must report NegWitness as violated
NegWitness == ~(\E i, j \in 1..Len(hist) : "deep:shared-cells" \in Fails(hist[i]) /\ "mutation-leaks" \in Fails(hist[j]))
TypeOK == /\ Len(nodes) = 1 + Cardinality({j \in 1..Len(hist) : hist[j].act \in Creating})
          /\ \A k \in 1..Len(nodes) : CellsOf(nodes[k]) \subseteq 1..Len(heap)
=============================================================================
