------------------------------ MODULE WiresSet -------------------------------
(***************************************************************************)
(* C45: Wires as an ordered set of labels.  Pure operators, no variables.  *)
(* A label is a small positive integer id (the Python side keeps a table   *)
(* id -> actual label mixing ints, strings and tuples); a Wires object is  *)
(* a duplicate-free sequence of ids.  Written from the class docstrings:   *)
(*   union / intersection / difference / symmetric_difference: the set     *)
(*     operation on the labels (the order of the result is not documented) *)
(*   all_wires    : labels appearing in any object, in order of first      *)
(*                  appearance; sort=True: by value if all labels are ints *)
(*                  else by their str representation                       *)
(*   shared_wires : labels appearing in every object, in the order of the  *)
(*                  first object                                           *)
(*   unique_wires : labels appearing in exactly one object, in order of    *)
(*                  appearance                                             *)
(*   index/indices: 0-based position(s); a missing label is an error       *)
(*   map          : relabel position-wise; every label needs an image and  *)
(*                  the images must be unique                              *)
(*   subset       : labels at the given positions, in the given order;     *)
(*                  periodic_boundary takes positions modulo the length    *)
(*   ==, hash     : equal iff the same labels in the same order            *)
(***************************************************************************)
EXTENDS Integers, Sequences, FiniteSets, SequencesExt, TLC

LSet(s) == {s[i] : i \in 1..Len(s)}
DupFree(s) == \A i, j \in 1..Len(s) : i # j => s[i] # s[j]
SortedSeq(S) == SetToSortSeq(S, LAMBDA x, y : x < y)
\* the subsequence of s at the positions in I (ascending)
Filter(s, I) == LET idx == SortedSeq(I) IN TLCEval([k \in 1..Len(idx) |-> s[idx[k]]])

Union(a, b) == LSet(a) \cup LSet(b)
Inter(a, b) == LSet(a) \cap LSet(b)
Diff(a, b) == LSet(a) \ LSet(b)
WSymDiff(a, b) == (LSet(a) \ LSet(b)) \cup (LSet(b) \ LSet(a))

RECURSIVE Concat(_)
Concat(list) == IF list = <<>> THEN <<>> ELSE list[1] \o Concat(Tail(list))

AllWires(list) == LET c == TLCEval(Concat(list)) IN Filter(c, {i \in 1..Len(c) : \A j \in 1..i-1 : c[j] # c[i]})
Shared(list) == Filter(list[1], {i \in 1..Len(list[1]) : \A k \in 1..Len(list) : list[1][i] \in LSet(list[k])})
Count(list, x) == Cardinality({k \in 1..Len(list) : x \in LSet(list[k])})
Unique(list) == LET c == TLCEval(Concat(list)) IN Filter(c, {i \in 1..Len(c) : Count(list, c[i]) = 1})

\* K = [isint |-> set of ids whose label is a Python int, ival |-> id -> int value, srank |-> id -> rank of str(label)]
SortKey(S, K, x) == IF S \subseteq K.isint THEN K.ival[x] ELSE K.srank[x]
AllWiresSorted(list, K) == LET S == LSet(Concat(list)) IN SetToSortSeq(S, LAMBDA x, y : SortKey(S, K, x) < SortKey(S, K, y))

\* 0-based position, -1 = not found (the implementation must raise)
Index(s, x) == IF x \in LSet(s) THEN (CHOOSE i \in 1..Len(s) : s[i] = x) - 1 ELSE -1
Indices(s, t) == [k \in 1..Len(t) |-> Index(s, t[k])]
IndicesDefined(s, t) == \A k \in 1..Len(t) : t[k] \in LSet(s)

\* a wire map is a sequence of pairs <<label, image>> with distinct first components
MapDom(m) == {m[i][1] : i \in 1..Len(m)}
Image(m, x) == m[CHOOSE i \in 1..Len(m) : m[i][1] = x][2]
MapSeq(s, m) == [i \in 1..Len(s) |-> Image(m, s[i])]
MapDefined(s, m) == LSet(s) \subseteq MapDom(m) /\ DupFree(MapSeq(s, m))

Eff(s, i, per) == IF per THEN i % Len(s) ELSE i
\* the documented domain of subset: non-negative positions (any integer when periodic, on a non-empty object),
\* no position selected twice
SubsetInDomain(s, idx, per) == /\ (per => Len(s) >= 1)
                               /\ (~per => \A k \in 1..Len(idx) : idx[k] >= 0)
                               /\ DupFree([k \in 1..Len(idx) |-> Eff(s, idx[k], per)])
SubsetDefined(s, idx, per) == \A k \in 1..Len(idx) : Eff(s, idx[k], per) \in 0..Len(s)-1
Subset(s, idx, per) == [k \in 1..Len(idx) |-> s[Eff(s, idx[k], per) + 1]]

Eq(a, b) == a = b
WContains(a, b) == LSet(b) \subseteq LSet(a)

(***************************************************************************)
(* Algebraic laws of the specification itself.                             *)
(***************************************************************************)
Pos(s, x) == CHOOSE i \in 1..Len(s) : s[i] = x /\ \A j \in 1..i-1 : s[j] # x
\* for duplicate-free t: t is a subsequence of s
IsSubsequence(t, s) == LSet(t) \subseteq LSet(s) /\ \A i, j \in 1..Len(t) : i < j => Pos(s, t[i]) < Pos(s, t[j])
LawPair(a, b) ==
  LET all == AllWires(<<a, b>>)  sh == Shared(<<a, b>>)  un == Unique(<<a, b>>) IN
  /\ DupFree(all) /\ LSet(all) = Union(a, b) /\ SubSeq(all, 1, Len(a)) = a
  /\ DupFree(sh) /\ LSet(sh) = Inter(a, b) /\ IsSubsequence(sh, a)
  /\ DupFree(un) /\ LSet(un) = WSymDiff(a, b) /\ IsSubsequence(un, a \o b)
  /\ WSymDiff(a, b) = Union(a, b) \ Inter(a, b)
  /\ Union(a, b) = Union(b, a) /\ Inter(a, b) = Inter(b, a) /\ WSymDiff(a, b) = WSymDiff(b, a)
  /\ Diff(a, b) \cap LSet(b) = {} /\ Diff(a, b) \cup Inter(a, b) = LSet(a)
  /\ Cardinality(Union(a, b)) + Cardinality(Inter(a, b)) = Len(a) + Len(b)
  /\ AllWires(<<a, a>>) = a /\ Shared(<<a, a>>) = a /\ Unique(<<a, a>>) = <<>>
  /\ AllWires(<<a>>) = a /\ Shared(<<a>>) = a /\ Unique(<<a>>) = a
  /\ LSet(AllWires(<<b, a>>)) = LSet(all) /\ LSet(Shared(<<b, a>>)) = LSet(sh)
  /\ (Eq(a, b) <=> (Len(a) = Len(b) /\ \A i \in 1..Len(a) : a[i] = b[i]))
  /\ (Eq(a, b) => LSet(a) = LSet(b))
  /\ (WContains(a, b) <=> Inter(a, b) = LSet(b))
  /\ \A i \in 1..Len(a) : Index(a, a[i]) = i - 1
  /\ LET t == Shared(<<b, a>>) IN IndicesDefined(a, t) /\ Subset(a, Indices(a, t), FALSE) = t
  /\ (IndicesDefined(a, b) <=> WContains(a, b))
LawTriple(a, b, c) ==
  LET l == <<a, b, c>> IN
  /\ AllWires(l) = AllWires(<<AllWires(<<a, b>>), c>>) /\ AllWires(l) = AllWires(<<a, AllWires(<<b, c>>)>>)
  /\ Shared(l) = Shared(<<Shared(<<a, b>>), c>>)
  /\ DupFree(Unique(l)) /\ LSet(Unique(l)) = {x \in LSet(AllWires(l)) : Count(l, x) = 1}
  /\ LSet(Shared(l)) = {x \in LSet(AllWires(l)) : Count(l, x) = 3}
  /\ LSet(Unique(l)) \cap LSet(Shared(l)) = {}
LawSorted(a, b, K) ==
  LET s == AllWiresSorted(<<a, b>>, K)  S == Union(a, b) IN
  /\ LSet(s) = S /\ Len(s) = Cardinality(S)
  /\ \A i \in 1..Len(s)-1 : SortKey(S, K, s[i]) < SortKey(S, K, s[i+1])
LawMap(a, m) ==
  /\ (MapDefined(a, m) => Len(MapSeq(a, m)) = Len(a) /\ DupFree(MapSeq(a, m)))
  /\ LET id == [i \in 1..Len(a) |-> <<a[i], a[i]>>] IN MapDefined(a, id) /\ MapSeq(a, id) = a
  /\ (MapDefined(a, m) => LET r == MapSeq(a, m)  inv == [i \in 1..Len(a) |-> <<r[i], a[i]>>]
                          IN MapDefined(r, inv) /\ MapSeq(r, inv) = a)
LawSubset(a, idx, per) ==
  (SubsetInDomain(a, idx, per) /\ SubsetDefined(a, idx, per)) =>
     LET r == Subset(a, idx, per) IN
     /\ Len(r) = Len(idx) /\ DupFree(r) /\ LSet(r) \subseteq LSet(a)
     /\ \A k \in 1..Len(idx) : Index(a, r[k]) = Eff(a, idx[k], per)
     /\ Subset(a, [i \in 1..Len(a) |-> i - 1], FALSE) = a
=============================================================================
