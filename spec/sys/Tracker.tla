------------------------------- MODULE Tracker -------------------------------
(***************************************************************************)
(* C73  The device execution tracker (qp.Tracker + the simulator_tracking  *)
(* bookkeeping of the device entry points), written from the documentation *)
(* of Tracker (active / persistent / reset on enter; totals = running sums,*)
(* history = every value in order, latest = the last set of values) and of *)
(* simulator_tracking (meaning of every keyword).                          *)
(*                                                                         *)
(* A circuit is abstracted to  [s: total shots (0 = analytic),             *)
(*   g: number of groups of mutually commuting measurements,               *)
(*   b: parameter-broadcast batch size (0 = none), n: number of gates,     *)
(*   t: number of trainable parameters (0 = nothing to differentiate),     *)
(*   m: the measurement processes of the circuit as a sorted sequence of   *)
(*      codes kind*8 + shape (kind: 1 expval, 2 var, 3 probs, 4 sample,    *)
(*      5 counts; shape: 0 no observable, 1 X, 2 Y, 3 Z, 4 product)].      *)
(* "executions" = circuits that quantum hardware would have to run         *)
(*   = g * max(b,1);  "shots" = s * executions (docs example: 50 shots,    *)
(*   two non-commuting expectation values -> 100).                         *)
(*                                                                         *)
(* State: active, persistent, tot (running sums), hist (per keyword, in    *)
(* order), latest; ghost `ledger`: what the device actually performed      *)
(* while the tracker was active since the last reset (the independent      *)
(* count).  The resources of a circuit are Res(c) = <<n>> \o m: the entry  *)
(* recorded for a circuit must describe THAT circuit (its gates and its    *)
(* measurement processes), also when a neighbour in the same batch has the *)
(* same gates.  "derivatives" / "jvps" / "vjps" are, per the documentation,*)
(* the number of circuits SUBMITTED to the entry point: t does not enter   *)
(* any count (a circuit without trainable parameters is still submitted    *)
(* and the device still answers for it).  `latest` holds for every keyword *)
(* <<>> (not in the latest update) or <<value>>.                           *)
(* One action per public call: Enter / Exit (context manager),    *)
(* On / Off (tracker.active = ...), Reset, Call(kind, batch) for each of   *)
(* the seven device entry points.                                          *)
(***************************************************************************)
EXTENDS Integers, Sequences, FiniteSets, TLC
CONSTANTS Calls,        \* set of [kind: STRING, batch: Seq(circuit)]
          Ctl,          \* subset of {"enter","exit","exitx","on","off","reset"}
          Persist,      \* subset of BOOLEAN: values of Tracker(persistent=...)
          PreEnter,     \* TRUE: every history starts with an "enter" step
          MaxSteps
VARIABLES persistent, active, depth, tot, hist, latest, ledger, steps
vars == <<persistent, active, depth, tot, hist, latest, ledger, steps>>

NumKeySeq == <<"batches", "simulations", "executions", "shots", "derivative_batches", "derivatives",
               "execute_and_derivative_batches", "jvp_batches", "jvps", "execute_and_jvp_batches",
               "vjp_batches", "vjps", "execute_and_vjp_batches">>
AllKeySeq == NumKeySeq \o <<"resources", "results">>
NumKeys == {NumKeySeq[i] : i \in 1..Len(NumKeySeq)}
AllKeys == {AllKeySeq[i] : i \in 1..Len(AllKeySeq)}
ExecAnd == {"execute_and_compute_derivatives", "execute_and_compute_jvp", "execute_and_compute_vjp"}
Kinds == {"execute", "compute_derivatives", "compute_jvp", "compute_vjp"} \cup ExecAnd

Zero == [k \in NumKeys |-> 0]
EmptyH == [k \in AllKeys |-> <<>>]
NoLatest == [k \in AllKeys |-> <<>>]

Execs(c) == c.g * (IF c.b > 0 THEN c.b ELSE 1)
ShotsOf(c) == c.s * Execs(c)
Res(c) == <<c.n>> \o c.m

\* ------------------------------------------------------------ Tracker.update, and what each entry point reports
Upd(st, kv) ==
  [tot    |-> [k \in NumKeys |-> IF k \in DOMAIN kv THEN st.tot[k] + kv[k] ELSE st.tot[k]],
   hist   |-> [k \in AllKeys |-> IF k \in DOMAIN kv THEN Append(st.hist[k], kv[k]) ELSE st.hist[k]],
   latest |-> [k \in AllKeys |-> IF k \in DOMAIN kv THEN <<kv[k]>> ELSE <<>>]]
RECURSIVE ApplyAll(_, _)
ApplyAll(st, us) == IF us = <<>> THEN st ELSE ApplyAll(Upd(st, Head(us)), Tail(us))

ExecKV(c) == IF c.s > 0
             THEN [simulations |-> 1, executions |-> Execs(c), results |-> 1, shots |-> ShotsOf(c), resources |-> Res(c)]
             ELSE [simulations |-> 1, executions |-> Execs(c), results |-> 1, resources |-> Res(c)]
ResKV(B) == [i \in 1..Len(B) |-> [resources |-> Res(B[i])]]
Updates(kind, B) ==
  CASE kind = "execute"                         -> <<[batches |-> 1]>> \o [i \in 1..Len(B) |-> ExecKV(B[i])]
    [] kind = "compute_derivatives"             -> <<[derivative_batches |-> 1, derivatives |-> Len(B)]>>
    [] kind = "execute_and_compute_derivatives" -> ResKV(B) \o <<[execute_and_derivative_batches |-> 1, executions |-> Len(B), derivatives |-> Len(B)]>>
    [] kind = "compute_jvp"                     -> <<[jvp_batches |-> 1, jvps |-> Len(B)]>>
    [] kind = "execute_and_compute_jvp"         -> ResKV(B) \o <<[execute_and_jvp_batches |-> 1, executions |-> Len(B), jvps |-> Len(B)]>>
    [] kind = "compute_vjp"                     -> <<[vjp_batches |-> 1, vjps |-> Len(B)]>>
    [] kind = "execute_and_compute_vjp"         -> ResKV(B) \o <<[execute_and_vjp_batches |-> 1, executions |-> Len(B), vjps |-> Len(B)]>>

\* ------------------------------------------------------------ actions
Init == /\ persistent \in Persist /\ depth = (IF PreEnter THEN 1 ELSE 0) /\ active = PreEnter
        /\ tot = Zero /\ hist = EmptyH /\ latest = NoLatest /\ ledger = <<>>
        /\ steps = IF PreEnter THEN <<[a |-> "enter", kind |-> "", batch |-> <<>>]>> ELSE <<>>
Log(a, kind, batch) == steps' = Append(steps, [a |-> a, kind |-> kind, batch |-> batch])
Clear == tot' = Zero /\ hist' = EmptyH /\ latest' = NoLatest /\ ledger' = <<>>
Keep == UNCHANGED <<tot, hist, latest, ledger>>

Enter == /\ (IF persistent THEN Keep ELSE Clear) /\ active' = TRUE /\ depth' = depth + 1
         /\ Log("enter", "", <<>>) /\ UNCHANGED persistent
Exit(a) == /\ depth > 0 /\ active' = FALSE /\ depth' = depth - 1 /\ Keep /\ Log(a, "", <<>>) /\ UNCHANGED persistent
SetActive(a, v) == active' = v /\ Keep /\ Log(a, "", <<>>) /\ UNCHANGED <<persistent, depth>>
Reset == Clear /\ Log("reset", "", <<>>) /\ UNCHANGED <<persistent, active, depth>>
Call(kind, B) ==
  /\ IF active
     THEN LET st == ApplyAll([tot |-> tot, hist |-> hist, latest |-> latest], Updates(kind, B)) IN
          /\ tot' = st.tot /\ hist' = st.hist /\ latest' = st.latest
          /\ ledger' = Append(ledger, [kind |-> kind, batch |-> B])
     ELSE Keep
  /\ Log("call", kind, B) /\ UNCHANGED <<persistent, active, depth>>
DoCtl(a) == CASE a = "enter" -> Enter [] a = "exit" -> Exit("exit") [] a = "exitx" -> Exit("exitx")
              [] a = "on" -> SetActive("on", TRUE) [] a = "off" -> SetActive("off", FALSE) [] a = "reset" -> Reset
Next == /\ Len(steps) < MaxSteps
        /\ \/ \E a \in Ctl : DoCtl(a)
           \/ \E c \in Calls : Call(c.kind, c.batch)

\* ------------------------------------------------------------ the property: the tracker equals the independent count
Of(K) == SelectSeq(ledger, LAMBDA e : e.kind \in K)
RECURSIVE Flat(_), SumOf(_), ExecHist(_)
Flat(s) == IF s = <<>> THEN <<>> ELSE Head(s).batch \o Flat(Tail(s))           \* circuits of the entries, in order
SumOf(s) == IF s = <<>> THEN 0 ELSE Head(s) + SumOf(Tail(s))
ExecHist(s) == IF s = <<>> THEN <<>>
               ELSE (IF Head(s).kind = "execute" THEN [i \in 1..Len(Head(s).batch) |-> Execs(Head(s).batch[i])]
                     ELSE <<Len(Head(s).batch)>>) \o ExecHist(Tail(s))
Circs(K) == Flat(Of(K))
Executed == Circs({"execute"})
LedgerTotals ==
  /\ tot["batches"] = Len(Of({"execute"}))
  /\ tot["simulations"] = Len(Executed)
  /\ tot["executions"] = SumOf([i \in 1..Len(Executed) |-> Execs(Executed[i])]) + Len(Circs(ExecAnd))
  /\ tot["shots"] = SumOf([i \in 1..Len(Executed) |-> ShotsOf(Executed[i])])
  /\ tot["derivative_batches"] = Len(Of({"compute_derivatives"}))
  /\ tot["execute_and_derivative_batches"] = Len(Of({"execute_and_compute_derivatives"}))
  /\ tot["derivatives"] = Len(Circs({"compute_derivatives", "execute_and_compute_derivatives"}))
  /\ tot["jvp_batches"] = Len(Of({"compute_jvp"}))
  /\ tot["execute_and_jvp_batches"] = Len(Of({"execute_and_compute_jvp"}))
  /\ tot["jvps"] = Len(Circs({"compute_jvp", "execute_and_compute_jvp"}))
  /\ tot["vjp_batches"] = Len(Of({"compute_vjp"}))
  /\ tot["execute_and_vjp_batches"] = Len(Of({"execute_and_compute_vjp"}))
  /\ tot["vjps"] = Len(Circs({"compute_vjp", "execute_and_compute_vjp"}))
\* history lists each one in order
HistoryInOrder ==
  /\ LET R == Circs({"execute"} \cup ExecAnd) IN hist["resources"] = [i \in 1..Len(R) |-> Res(R[i])]
  /\ hist["executions"] = ExecHist(Of({"execute"} \cup ExecAnd))
  /\ LET F == SelectSeq(Executed, LAMBDA c : c.s > 0) IN hist["shots"] = [i \in 1..Len(F) |-> ShotsOf(F[i])]
  /\ Len(hist["results"]) = Len(Executed) /\ Len(hist["batches"]) = Len(Of({"execute"}))
  /\ LET D == Of({"compute_derivatives", "execute_and_compute_derivatives"}) IN hist["derivatives"] = [i \in 1..Len(D) |-> Len(D[i].batch)]
TotalsAreSums == \A k \in NumKeys : tot[k] = SumOf(hist[k])
LatestOK(la, h) == \A k \in AllKeys : la[k] # <<>> => (Len(la[k]) = 1 /\ h[k] # <<>> /\ la[k][1] = h[k][Len(h[k])])
LatestConsistent == LatestOK(latest, hist)
FreshAfterEnter == (~persistent /\ steps # <<>> /\ steps[Len(steps)].a = "enter") => (tot = Zero /\ hist = EmptyH /\ ledger = <<>>)
\* state abstraction for model checking without the history of steps
NoSteps == <<persistent, active, depth, tot, hist, latest, ledger, Len(steps)>>
=============================================================================
