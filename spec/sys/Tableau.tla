------------------------------- MODULE Tableau -------------------------------
(***************************************************************************)
(* C70: the stabilizer-tableau model of a Clifford circuit (Aaronson &     *)
(* Gottesman, "Improved simulation of stabilizer circuits", Sec. III - the  *)
(* representation default.clifford documents for qp.state()).              *)
(*                                                                         *)
(* A tableau on n wires is a sequence of 2n rows                           *)
(*        [x |-> <<bits>>, z |-> <<bits>>, r |-> bit]                      *)
(* row i (1..n)   = U X_i U^+  (destabilizer generators)                   *)
(* row n+i        = U Z_i U^+  (stabilizer generators of U|0..0>)          *)
(* and a row denotes the Pauli operator (-1)^r * prod_j W_j with           *)
(* W_j = I, X, Y, Z for (x_j, z_j) = (0,0), (1,0), (1,1), (0,1).           *)
(*                                                                         *)
(* Pure operators, no variables.  Only the three update rules of the paper *)
(* (Hadamard, phase, CNOT) are primitive; every other gate of the table is *)
(* a textbook product of those (global phases do not act on a tableau).    *)
(* All names carry the prefix Tb: the module is EXTENDed next to the ring  *)
(* modules (Trace_Clifford.tla), where TLC checks it against the exact     *)
(* state-vector semantics.                                                 *)
(***************************************************************************)
EXTENDS Integers, Sequences, FiniteSets, TLC

TbXor(a, b) == (a + b) % 2
TbRowI(n) == [x |-> [j \in 1..n |-> 0], z |-> [j \in 1..n |-> 0], r |-> 0]
TbInit(n) == [i \in 1..2*n |-> [x |-> [j \in 1..n |-> IF i <= n /\ j = i THEN 1 ELSE 0],
                                z |-> [j \in 1..n |-> IF i > n /\ j = i - n THEN 1 ELSE 0], r |-> 0]]

(* ---- the three update rules (AG Sec. III), one row at a time ---- *)
TbH(row, a) == [x |-> [row.x EXCEPT ![a] = row.z[a]], z |-> [row.z EXCEPT ![a] = row.x[a]],
                r |-> TbXor(row.r, row.x[a] * row.z[a])]
TbS(row, a) == [x |-> row.x, z |-> [row.z EXCEPT ![a] = TbXor(row.z[a], row.x[a])],
                r |-> TbXor(row.r, row.x[a] * row.z[a])]
TbCX(row, a, b) == [x |-> [row.x EXCEPT ![b] = TbXor(row.x[b], row.x[a])],
                    z |-> [row.z EXCEPT ![a] = TbXor(row.z[a], row.z[b])],
                    r |-> TbXor(row.r, row.x[a] * row.z[b] * TbXor(TbXor(row.x[b], row.z[a]), 1))]

(* ---- the gate table: a gate record (Gates.tla format) as a time-ordered sequence of primitives <<kind, a, b>> ---- *)
TbIsAdj(ins) == Len(ins.mods) = 1 /\ ins.mods[1].t = "adj"
TbPlain(ins) == Len(ins.mods) = 0
TbqH(a) == << <<"H", a, 0>> >>
TbqS(a) == << <<"S", a, 0>> >>
TbqSdg(a) == TbqS(a) \o TbqS(a) \o TbqS(a)
TbqZ(a) == TbqS(a) \o TbqS(a)
TbqX(a) == TbqH(a) \o TbqZ(a) \o TbqH(a)
TbqCX(a, b) == << <<"CX", a, b>> >>
TbqCZ(a, b) == TbqH(b) \o TbqCX(a, b) \o TbqH(b)
TbqSWAP(a, b) == TbqCX(a, b) \o TbqCX(b, a) \o TbqCX(a, b)
TbKnown == {"Identity", "GlobalPhase", "Hadamard", "S", "PauliX", "PauliY", "PauliZ", "SX", "CNOT", "CZ", "CY", "SWAP", "ISWAP"}
TbSelfAdjoint == {"Identity", "Hadamard", "PauliX", "PauliY", "PauliZ", "CNOT", "CZ", "CY", "SWAP"}
TbSupported(ins) == /\ ins.g \in TbKnown
                    /\ \/ TbPlain(ins)
                       \/ TbIsAdj(ins) /\ ins.g \in TbSelfAdjoint \cup {"S", "SX", "ISWAP", "GlobalPhase"}
TbPrims(ins) ==
  LET a == ins.w[1]  b == IF Len(ins.w) >= 2 THEN ins.w[2] ELSE 0  adj == TbIsAdj(ins) IN
  CASE ins.g \in {"Identity", "GlobalPhase"} -> <<>>
    [] ins.g = "Hadamard" -> TbqH(a)
    [] ins.g = "S"        -> IF adj THEN TbqSdg(a) ELSE TbqS(a)
    [] ins.g = "PauliZ"   -> TbqZ(a)
    [] ins.g = "PauliX"   -> TbqX(a)
    [] ins.g = "PauliY"   -> TbqZ(a) \o TbqX(a)                                     \* Y = i X Z
    [] ins.g = "SX"       -> TbqH(a) \o (IF adj THEN TbqSdg(a) ELSE TbqS(a)) \o TbqH(a)  \* sqrt(X) = H S H
    [] ins.g = "CNOT"     -> TbqCX(a, b)
    [] ins.g = "CZ"       -> TbqCZ(a, b)
    [] ins.g = "CY"       -> TbqSdg(b) \o TbqCX(a, b) \o TbqS(b)                       \* CY = (1 (x) S) CX (1 (x) S^+)
    [] ins.g = "SWAP"     -> TbqSWAP(a, b)
    [] ins.g = "ISWAP"    -> TbqSWAP(a, b) \o (IF adj THEN TbqSdg(a) \o TbqSdg(b) ELSE TbqS(a) \o TbqS(b)) \o TbqCZ(a, b)

TbPrimRow(row, p) == CASE p[1] = "H" -> TbH(row, p[2]) [] p[1] = "S" -> TbS(row, p[2]) [] p[1] = "CX" -> TbCX(row, p[2], p[3])
TbRowThrough(row, ps) == LET S[k \in 0..Len(ps)] == IF k = 0 THEN row ELSE TbPrimRow(S[k-1], ps[k]) IN S[Len(ps)]
TbApply(tab, ins) == LET ps == TbPrims(ins) IN TLCEval([i \in 1..Len(tab) |-> TbRowThrough(tab[i], ps)])

(* ---- Pauli algebra on rows ---- *)
\* symplectic product: 1 iff the two Pauli operators anticommute
TbAnti(p, q) == LET n == Len(p.x)
                    S[j \in 0..n] == IF j = 0 THEN 0 ELSE S[j-1] + p.x[j] * q.z[j] + p.z[j] * q.x[j] IN S[n] % 2
\* exponent of i picked up when the one-qubit Pauli (x1,z1) is multiplied by (x2,z2)   (AG, function g)
TbG(x1, z1, x2, z2) == CASE x1 = 0 /\ z1 = 0 -> 0
                         [] x1 = 1 /\ z1 = 1 -> z2 - x2
                         [] x1 = 1 /\ z1 = 0 -> z2 * (2 * x2 - 1)
                         [] x1 = 0 /\ z1 = 1 -> x2 * (1 - 2 * z2)
\* product p * q of two COMMUTING rows (the power of i is then 0 or 2 mod 4)
TbMul(p, q) == LET n == Len(p.x)
                   S[j \in 0..n] == IF j = 0 THEN 2 * p.r + 2 * q.r ELSE S[j-1] + TbG(p.x[j], p.z[j], q.x[j], q.z[j])
               IN [x |-> [j \in 1..n |-> TbXor(p.x[j], q.x[j])], z |-> [j \in 1..n |-> TbXor(p.z[j], q.z[j])],
                   r |-> (S[n] % 4) \div 2, odd |-> S[n] % 2]
TbRowOfWord(pw) == [x |-> [j \in 1..Len(pw) |-> IF pw[j] \in {1, 2} THEN 1 ELSE 0],
                    z |-> [j \in 1..Len(pw) |-> IF pw[j] \in {2, 3} THEN 1 ELSE 0], r |-> 0]
TbWordOfRow(row) == [j \in 1..Len(row.x) |-> CASE row.x[j] = 0 /\ row.z[j] = 0 -> 0 [] row.x[j] = 1 /\ row.z[j] = 0 -> 1
                                               [] row.x[j] = 1 /\ row.z[j] = 1 -> 2 [] OTHER -> 3]

(* Expectation value <psi| P |psi> of the signed Pauli row P in the stabilizer state of the tableau: 0 when P          *)
(* anticommutes with a stabilizer generator; otherwise P = +-(product of the generators whose destabilizer partner   *)
(* anticommutes with P) and the value is that sign.  99 = the tableau is inconsistent (never for a valid tableau).   *)
TbExpectRow(tab, n, P) ==
  IF \E i \in n+1..2*n : TbAnti(tab[i], P) = 1 THEN 0
  ELSE LET S[i \in 0..n] == IF i = 0 THEN TbRowI(n)
                            ELSE IF TbAnti(tab[i], P) = 1 THEN LET m == TbMul(tab[n+i], S[i-1]) IN [x |-> m.x, z |-> m.z, r |-> m.r]
                            ELSE S[i-1]
           acc == S[n]
       IN IF acc.x # P.x \/ acc.z # P.z THEN 99 ELSE IF acc.r = P.r THEN 1 ELSE -1
TbExpect(tab, n, pw) == TbExpectRow(tab, n, TbRowOfWord(pw))

(* ---- what makes 2n rows a tableau ---- *)
TbIsRow(row, n) == /\ Len(row.x) = n /\ Len(row.z) = n /\ row.r \in {0, 1}
                   /\ \A j \in 1..n : row.x[j] \in {0, 1} /\ row.z[j] \in {0, 1}
TbShape(tab, n) == Len(tab) = 2 * n /\ \A i \in 1..2*n : TbIsRow(tab[i], n)
TbStabCommute(tab, n) == \A i, j \in n+1..2*n : TbAnti(tab[i], tab[j]) = 0
\* no non-empty product of the stabilizer generators is (+-) the identity: the GF(2) rank of their (x|z) vectors is n
\* (Gaussian elimination, one column per level of the recursion)
TbXZ(row) == row.x \o row.z
TbVecXor(u, v) == [j \in 1..Len(u) |-> TbXor(u[j], v[j])]
RECURSIVE TbRank(_, _)
TbRank(vs, col) ==
  IF vs = <<>> \/ col > Len(vs[1]) THEN 0
  ELSE LET piv == {i \in 1..Len(vs) : vs[i][col] = 1} IN
       IF piv = {} THEN TbRank(vs, col + 1)
       ELSE LET p == CHOOSE i \in piv : \A j \in piv : i <= j
                rest == TLCEval([k \in 1..Len(vs)-1 |-> LET i == IF k < p THEN k ELSE k + 1 IN
                                   IF vs[i][col] = 1 THEN TbVecXor(vs[i], vs[p]) ELSE vs[i]])
            IN 1 + TbRank(rest, col + 1)
TbStabIndependent(tab, n) == TbRank([i \in 1..n |-> TbXZ(tab[n+i])], 1) = n
\* destabilizer i anticommutes with stabilizer i only; destabilizers commute with each other
TbPairing(tab, n) == /\ \A i, j \in 1..n : TbAnti(tab[i], tab[n+j]) = (IF i = j THEN 1 ELSE 0)
                     /\ \A i, j \in 1..n : TbAnti(tab[i], tab[j]) = 0
TbValid(tab, n) == TbShape(tab, n) /\ TbStabCommute(tab, n) /\ TbPairing(tab, n)
=============================================================================
