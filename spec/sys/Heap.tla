-------------------------------- MODULE Heap ---------------------------------
(***************************************************************************)
(* Objects are immutable once created (C18: transforms never modify their  *)
(* input).  A tape object refers to a CONTAINER (the Python list returned  *)
(* by QuantumScript.operations is the internal list) and carries scalar    *)
(* attributes; what an observer sees of a tape is Value(o): the content of *)
(* its container plus its attributes.  A transform receives a tape and     *)
(* produces new tapes.  The documented behaviour is TCopy (a fresh         *)
(* container) or TShare (the new tape refers to the same, untouched        *)
(* container).  The defect pattern is TAliasWrite: the transform obtains   *)
(* the input's container and writes to it in place.                        *)
(*                                                                         *)
(* Property (action property over all histories Create; Transform_k;       *)
(* Transform_j; Execute ...):                                              *)
(*   Immutable == [][\A o \in DOMAIN objs : Value(o)' = Value(o)]_vars      *)
(* and its state form BornEqual (every object still has the value it was   *)
(* born with), ExecStable (executing an object gives the result determined *)
(* by the value it was born with).                                         *)
(* With AliasWrites = FALSE TLC proves these on all histories up to the    *)
(* bound; with AliasWrites = TRUE TLC must produce a counterexample (the    *)
(* design-level explanation of the two known PennyLane defects).           *)
(***************************************************************************)
EXTENDS Integers, Sequences, FiniteSets, TLC
CONSTANTS MaxObjs, MaxCells, Vals, AliasWrites
VARIABLES cells,    \* container id -> content
          objs,     \* object id -> [cell |-> container id, meta |-> attribute value]
          born,     \* ghost: object id -> value at creation
          lastexec, \* <<object id, result>> of the last Execute (or <<0, 0>>)
          hist      \* sequence of events
vars == <<cells, objs, born, lastexec, hist>>

Value(o) == [ops |-> cells[objs[o].cell], meta |-> objs[o].meta]
Sem(v) == v                       \* the result of executing a tape is a function of its observable value
NObj == Len(objs)
NCell == Len(cells)

Init == /\ cells = <<>> /\ objs = <<>> /\ born = <<>> /\ lastexec = <<0, 0>> /\ hist = <<>>

NewObj(c, m, content, ev) ==
  /\ objs' = Append(objs, [cell |-> c, meta |-> m])
  /\ born' = Append(born, [ops |-> content, meta |-> m])
  /\ hist' = Append(hist, ev) /\ lastexec' = <<0, 0>>

Create(v, m) ==
  /\ NObj < MaxObjs /\ NCell < MaxCells
  /\ cells' = Append(cells, v)
  /\ NewObj(NCell + 1, m, v, [e |-> "create", in |-> 0, out |-> NObj + 1])

\* the transform builds its output in a fresh container
TCopy(o, v, m) ==
  /\ NObj < MaxObjs /\ NCell < MaxCells
  /\ cells' = Append(cells, v)
  /\ NewObj(NCell + 1, m, v, [e |-> "transform-copy", in |-> o, out |-> NObj + 1])
\* the output refers to the input's container, which is left alone
TShare(o, m) ==
  /\ NObj < MaxObjs
  /\ cells' = cells
  /\ NewObj(objs[o].cell, m, cells[objs[o].cell], [e |-> "transform-share", in |-> o, out |-> NObj + 1])
\* the transform writes into the container it was handed
TAliasWrite(o, v, m) ==
  /\ AliasWrites /\ NObj < MaxObjs
  /\ cells' = [cells EXCEPT ![objs[o].cell] = v]
  /\ NewObj(objs[o].cell, m, v, [e |-> "transform-alias-write", in |-> o, out |-> NObj + 1])

Execute(o) ==
  /\ lastexec' = <<o, Sem(Value(o))>>
  /\ hist' = Append(hist, [e |-> "execute", in |-> o, out |-> 0])
  /\ UNCHANGED <<cells, objs, born>>

Next == /\ Len(hist) < MaxObjs + 2
        /\ \/ \E v \in Vals, m \in {0, 1} : Create(v, m)
           \/ \E o \in 1..NObj, v \in Vals, m \in {0, 1} : TCopy(o, v, m) \/ TAliasWrite(o, v, m)
           \/ \E o \in 1..NObj, m \in {0, 1} : TShare(o, m)
           \/ \E o \in 1..NObj : lastexec[1] # o /\ Execute(o)

Immutable == [][\A o \in 1..NObj : Value(o)' = Value(o)]_vars
BornEqual == \A o \in 1..NObj : Value(o) = born[o]
ExecStable == lastexec[1] # 0 => lastexec[2] = Sem(born[lastexec[1]])
=============================================================================
