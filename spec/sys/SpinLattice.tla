----------------------------- MODULE SpinLattice -----------------------------
(***************************************************************************)
(* LATTICES AND SPIN-MODEL HAMILTONIANS (C69).  Pure operators.            *)
(*                                                                         *)
(* GEOMETRY.  A shape is a Bravais lattice (dim primitive vectors) with a  *)
(* basis of sublattice positions, given as INTEGER tuples in a scaled      *)
(* coordinate system together with the quadratic form QF = squared length: *)
(*   chain/square/rectangle/cubic  unit vectors                            *)
(*   lieb, bcc, fcc                cartesian coordinates x 2               *)
(*   diamond                       cartesian coordinates x 4               *)
(*   triangle/honeycomb/kagome     point (X, Y) = (X/12, Y sqrt(3)/12),    *)
(*                                 QF = X^2 + 3 Y^2                        *)
(* Sites are (cell, sublattice) pairs numbered row-major over the cells    *)
(* (first axis slowest), sublattice fastest, from 0.                       *)
(* NEIGHBOURS, brute force: the k-th neighbour distance d_k is the k-th    *)
(* smallest distinct non-zero distance between points of the INFINITE      *)
(* lattice; sites u # v are k-th neighbours iff some admissible image of v *)
(* (images exist along periodic axes only) lies at distance d_k from u.    *)
(* E_k is the set of such pairs <<u, v>>, u < v.                           *)
(* NNFwd / Coordination / DistRatios: textbook combinatorial descriptions used *)
(* by SpinLatticeGen to cross-check the geometry tables.                   *)
(*                                                                         *)
(* HAMILTONIANS: the sums printed in the documentation of                  *)
(* transverse_ising, heisenberg, kitaev, fermi_hubbard, emery, haldane,    *)
(* spin_hamiltonian, as exact Pauli sentences on n wires (wire = site + 1; *)
(* fermionic models: mode = 2 site + spin + 1 through FermiMap).           *)
(***************************************************************************)
EXTENDS FermiMap

ShapeNames == {"chain", "square", "rectangle", "triangle", "honeycomb", "kagome", "lieb", "cubic", "bcc", "fcc", "diamond"}
Tri == {"triangle", "honeycomb", "kagome"}
DimOf(sh) == IF sh = "chain" THEN 1 ELSE IF sh \in {"cubic", "bcc", "fcc", "diamond"} THEN 3 ELSE 2
Vecs(sh) == CASE sh = "chain" -> << <<1>> >>
              [] sh \in {"square", "rectangle"} -> << <<0, 1>>, <<1, 0>> >>
              [] sh = "lieb" -> << <<0, 2>>, <<2, 0>> >>
              [] sh \in Tri -> << <<12, 0>>, <<6, 6>> >>
              [] sh = "cubic" -> << <<1, 0, 0>>, <<0, 1, 0>>, <<0, 0, 1>> >>
              [] sh \in {"bcc", "fcc"} -> << <<2, 0, 0>>, <<0, 2, 0>>, <<0, 0, 2>> >>
              [] sh = "diamond" -> << <<0, 2, 2>>, <<2, 0, 2>>, <<2, 2, 0>> >>
Poss(sh) == CASE sh = "chain" -> << <<0>> >>
              [] sh \in {"square", "rectangle", "triangle"} -> << <<0, 0>> >>
              [] sh = "lieb" -> << <<0, 0>>, <<1, 0>>, <<0, 1>> >>
              [] sh = "honeycomb" -> << <<0, 0>>, <<6, 2>> >>
              [] sh = "kagome" -> << <<0, 0>>, <<-3, 3>>, <<3, 3>> >>
              [] sh = "cubic" -> << <<0, 0, 0>> >>
              [] sh = "bcc" -> << <<0, 0, 0>>, <<1, 1, 1>> >>
              [] sh = "fcc" -> << <<0, 0, 0>>, <<1, 1, 0>>, <<1, 0, 1>>, <<0, 1, 1>> >>
              [] sh = "diamond" -> << <<0, 0, 0>>, <<1, 1, 1>> >>
NSub(sh) == Len(Poss(sh))
KMAX == 3
WIN == KMAX + 1
\* displacement from sublattice s in cell 0 to sublattice s2 in cell dl (vs, ps: the VALUES of Vecs, Poss), and its squared length
DispV(vs, ps, dim, s, s2, dl) ==
   [x \in 1..dim |-> ps[s2][x] - ps[s][x] + dl[1] * vs[1][x] + (IF dim >= 2 THEN dl[2] * vs[2][x] ELSE 0) + (IF dim >= 3 THEN dl[3] * vs[3][x] ELSE 0)]
QFV(tri, dim, v) == IF tri THEN v[1] * v[1] + 3 * v[2] * v[2]
                    ELSE v[1] * v[1] + (IF dim >= 2 THEN v[2] * v[2] ELSE 0) + (IF dim >= 3 THEN v[3] * v[3] ELSE 0)
Disp(sh, s, s2, dl) == DispV(Vecs(sh), Poss(sh), DimOf(sh), s, s2, dl)
MinOfSet(S) == CHOOSE x \in S : \A y \in S : x <= y
Trip(sh) == {<<s, s2, dl>> : s \in 1..NSub(sh), s2 \in 1..NSub(sh), dl \in [1..DimOf(sh) -> (-WIN)..WIN]}
\* [d |-> <<d_1, d_2, d_3>>, offs |-> offs[s][k] = set of <<s2, dl>> at distance d_k from (cell 0, s)]
NbrOf(sh) == Bind2(Vecs(sh), Poss(sh), LAMBDA vs, ps : Bind2(DimOf(sh), sh \in Tri, LAMBDA dim, tri :
   Bind(TLCEval({<<t, Bind(TLCEval(DispV(vs, ps, dim, t[1], t[2], t[3])), LAMBDA v : QFV(tri, dim, v))>> : t \in Trip(sh)}), LAMBDA td :
   Bind(TLCEval({p[2] : p \in td} \ {0}), LAMBDA ds :
     LET d1 == MinOfSet(ds)  d2 == MinOfSet(ds \ {d1})  d3 == MinOfSet(ds \ {d1, d2})  dk == <<d1, d2, d3>>
     IN Bind(TLCEval({x \in td : x[2] \in {d1, d2, d3}}), LAMBDA near :
        [d |-> dk,
         offs |-> TLCEval([s \in 1..NSub(sh) |-> TLCEval([k \in 1..KMAX |->
                     TLCEval({<<p[1][2], p[1][3]>> : p \in {x \in near : x[1][1] = s /\ x[2] = dk[k]}})])])])))))
NbrTab == TLCEval([sh \in ShapeNames |-> NbrOf(sh)])

\* ------------------------------------------------- textbook cross-checks
\* forward nearest-neighbour bonds <<s, s2, dl>> of one cell (the symmetric closure is the neighbour relation)
NNFwd(sh) == CASE sh = "chain" -> {<<1, 1, <<1>>>>}
   [] sh \in {"square", "rectangle"} -> {<<1, 1, <<1, 0>>>>, <<1, 1, <<0, 1>>>>}
   [] sh = "triangle" -> {<<1, 1, <<1, 0>>>>, <<1, 1, <<0, 1>>>>, <<1, 1, <<1, -1>>>>}
   [] sh = "honeycomb" -> {<<1, 2, <<0, 0>>>>, <<1, 2, <<-1, 0>>>>, <<1, 2, <<0, -1>>>>}
   [] sh = "kagome" -> {<<1, 2, <<0, 0>>>>, <<1, 3, <<0, 0>>>>, <<2, 3, <<0, 0>>>>,
                        <<1, 2, <<1, -1>>>>, <<1, 3, <<0, -1>>>>, <<2, 3, <<-1, 0>>>>}
   [] sh = "lieb" -> {<<1, 2, <<0, 0>>>>, <<1, 3, <<0, 0>>>>, <<2, 1, <<0, 1>>>>, <<3, 1, <<1, 0>>>>}
   [] sh = "cubic" -> {<<1, 1, <<1, 0, 0>>>>, <<1, 1, <<0, 1, 0>>>>, <<1, 1, <<0, 0, 1>>>>}
   [] sh = "bcc" -> {<<2, 1, dl>> : dl \in [1..3 -> {0, 1}]}
   [] OTHER -> {}
NegV(dl) == [d \in DOMAIN dl |-> -dl[d]]
NNSym(sh) == NNFwd(sh) \cup {<<t[2], t[1], NegV(t[3])>> : t \in NNFwd(sh)}
NNGeo(sh) == UNION {{<<s, o[1], o[2]>> : o \in NbrTab[sh].offs[s][1]} : s \in 1..NSub(sh)}
\* coordination numbers z_1, z_2, z_3 of the first sublattice (textbook values); 0 = not asserted
Coordination(sh) == CASE sh = "chain" -> <<2, 2, 2>> [] sh \in {"square", "rectangle"} -> <<4, 4, 4>> [] sh = "triangle" -> <<6, 6, 6>>
   [] sh = "honeycomb" -> <<3, 6, 3>> [] sh = "kagome" -> <<4, 4, 6>> [] sh = "lieb" -> <<4, 0, 0>> [] sh = "cubic" -> <<6, 12, 8>>
   [] sh = "bcc" -> <<8, 6, 12>> [] sh = "fcc" -> <<12, 6, 24>> [] sh = "diamond" -> <<4, 12, 12>>
\* squared neighbour distances relative to d_1^2 as <<num, den>> pairs d_k^2 / d_1^2 (textbook)
DistRatios(sh) == CASE sh = "chain" -> <<1, 4, 9>> [] sh \in {"square", "rectangle"} -> <<1, 2, 4>> [] sh = "triangle" -> <<1, 3, 4>>
   [] sh = "honeycomb" -> <<1, 3, 4>> [] sh = "kagome" -> <<1, 3, 4>> [] sh = "lieb" -> <<1, 2, 4>> [] sh = "cubic" -> <<1, 2, 3>>
   [] sh = "bcc" -> <<3, 4, 8>> [] sh = "fcc" -> <<1, 2, 3>> [] sh = "diamond" -> <<3, 8, 11>>
GeometryLaws(sh) == LET t == NbrTab[sh] IN
   /\ (NNFwd(sh) # {} => NNSym(sh) = NNGeo(sh))
   /\ \A k \in 1..KMAX : Coordination(sh)[k] = 0 \/ Cardinality(t.offs[1][k]) = Coordination(sh)[k]
   /\ \A k \in 1..KMAX : t.d[k] * DistRatios(sh)[1] = t.d[1] * DistRatios(sh)[k]
   /\ \A s \in 1..NSub(sh) : \A k \in 1..KMAX : \A o \in t.offs[s][k] : \A d \in 1..DimOf(sh) : o[2][d] \in (-KMAX)..KMAX

\* ------------------------------------------------------------ finite lattice
MaxOfSeq(q) == CHOOSE x \in {q[i] : i \in DOMAIN q} : \A i \in DOMAIN q : q[i] <= x
CellSet(nc) == {c \in [1..Len(nc) -> 0..(MaxOfSeq(nc) - 1)] : \A d \in 1..Len(nc) : c[d] < nc[d]}
CellNo(c, nc) == LET S[d \in 0..Len(nc)] == IF d = 0 THEN 0 ELSE S[d-1] * nc[d] + c[d] IN S[Len(nc)]
SiteId(c, s, nc, nsl) == CellNo(c, nc) * nsl + (s - 1)
NCells(nc) == LET S[d \in 0..Len(nc)] == IF d = 0 THEN 1 ELSE S[d-1] * nc[d] IN S[Len(nc)]
\* inverse of CellNo
CellOf(q, nc) == [d \in 1..Len(nc) |-> LET below == LET S[e \in d..Len(nc)] == IF e = d THEN 1 ELSE S[e-1] * nc[e] IN S[Len(nc)]
                                       IN (q \div below) % nc[d]]
ShiftC(c, dl) == [d \in DOMAIN c |-> c[d] + dl[d]]
Adm(c, nc, bc) == \A d \in DOMAIN c : bc[d] \/ (c[d] >= 0 /\ c[d] < nc[d])
WrapC(c, nc) == [d \in DOMAIN c |-> c[d] % nc[d]]
OrdPair(p) == IF p[1] <= p[2] THEN p ELSE <<p[2], p[1]>>
RawPairs(sh, nc, bc, k) == LET nsl == NSub(sh)  offs == NbrTab[sh].offs IN
   UNION {{<<SiteId(c, s, nc, nsl), SiteId(WrapC(ShiftC(c, o[2]), nc), o[1], nc, nsl)>> :
              o \in {x \in offs[s][k] : Adm(ShiftC(c, x[2]), nc, bc)}} : c \in CellSet(nc), s \in 1..nsl}
\* [n |-> number of sites, E |-> E[k] for k in 1..K, loops |-> a site is its own k-th neighbour through an image (degenerate)]
LatticeOf(sh, nc, bc, K) == Bind(TLCEval([k \in 1..K |-> TLCEval(RawPairs(sh, nc, bc, k))]), LAMBDA raw :
   [n |-> NCells(nc) * NSub(sh),
    E |-> TLCEval([k \in 1..K |-> TLCEval({OrdPair(p) : p \in {q \in raw[k] : q[1] # q[2]}})]),
    loops |-> \E k \in 1..K : \E q \in raw[k] : q[1] = q[2]])
\* number of leading classes that are all realised in the finite lattice
SolidPrefix(lat, K) == Cardinality({k \in 1..K : \A j \in 1..k : lat.E[j] # {}})
Overlap(lat, K) == \E k \in 1..K : \E j \in (k+1)..K : lat.E[k] \cap lat.E[j] # {}

RECURSIVE SeqOfSet(_)
SeqOfSet(S) == IF S = {} THEN <<>> ELSE LET x == CHOOSE y \in S : TRUE IN <<x>> \o SeqOfSet(S \ {x})
RECURSIVE Flat(_)
Flat(ss) == IF ss = <<>> THEN <<>> ELSE Head(ss) \o Flat(Tail(ss))
\* sequence of <<u, v, k>> over all classes
EdgeSeq(lat, K) == Flat([k \in 1..K |-> LET q == SeqOfSet(lat.E[k]) IN [i \in DOMAIN q |-> <<q[i][1], q[i][2], k>>]])

\* ------------------------------------------------------------ spin models
W1(u, l, n) == [i \in 1..n |-> IF i = u + 1 THEN l ELSE 0]
W2(u, l1, v, l2, n) == [i \in 1..n |-> IF i = u + 1 THEN l1 ELSE IF i = v + 1 THEN l2 ELSE 0]
Cf(x) == GdNorm(x)
\* coupling of the edge <<u, v, k>>: per-order list J[k], or (when J is empty) the site matrix Jm[u+1][v+1]
EdgeCf(J, Jm, e) == IF Len(J) > 0 THEN Cf(J[e[3]]) ELSE Cf(Jm[e[1] + 1][e[2] + 1])
\* H = - SUM_<uv> J Z_u Z_v - h SUM_u X_u
IsingPairs(es, n, J, Jm, h) ==
   [i \in DOMAIN es |-> <<W2(es[i][1], 3, es[i][2], 3, n), GdNeg(EdgeCf(J, Jm, es[i]))>>]
   \o [u \in 1..n |-> <<W1(u - 1, 1, n), GdNeg(Cf(h))>>]
\* H = SUM_<uv> (Jx X X + Jy Y Y + Jz Z Z);  J[k] = <<Jx, Jy, Jz>> or Jm[axis][u+1][v+1]
HeisPairs(es, n, J, Jm) ==
   Flat([i \in DOMAIN es |-> [a \in 1..3 |->
           <<W2(es[i][1], a, es[i][2], a, n), IF Len(J) > 0 THEN Cf(J[es[i][3]][a]) ELSE Cf(Jm[a][es[i][1] + 1][es[i][2] + 1])>>]])
\* Kitaev honeycomb: XX on A(c)-B(c), YY on B(c)-A(c + e_2), ZZ on B(c)-A(c + e_1)  (site numbering of the documented example)
KitaevBonds(nc, bc) == LET dls == << <<0, 0>>, <<0, 1>>, <<1, 0>> >> IN
   Flat([a \in 1..3 |-> LET q == SeqOfSet({c \in CellSet(nc) : Adm(ShiftC(c, dls[a]), nc, bc)}) IN
          [i \in DOMAIN q |-> IF a = 1 THEN <<SiteId(q[i], 1, nc, 2), SiteId(q[i], 2, nc, 2), a>>
                              ELSE <<SiteId(q[i], 2, nc, 2), SiteId(WrapC(ShiftC(q[i], dls[a]), nc), 1, nc, 2), a>>]])
KitaevPairs(nc, bc, n, Kc) == LET b == KitaevBonds(nc, bc) IN [i \in DOMAIN b |-> <<W2(b[i][1], b[i][3], b[i][2], b[i][3], n), Cf(Kc[b[i][3]])>>]
\* custom edges ce[i] = <<u0, v0, l1, l2, coef>> translated over all cells; custom nodes cn[i] = <<u, l, coef>> (not translated)
CustomBonds(nc, bc, nsl, ce) ==
   Flat([i \in DOMAIN ce |->
      LET su == (ce[i][1] % nsl) + 1  sv == (ce[i][2] % nsl) + 1
          cu == CellOf(ce[i][1] \div nsl, nc)  cv == CellOf(ce[i][2] \div nsl, nc)
          t == [d \in 1..Len(nc) |-> cv[d] - cu[d]]
          q == SeqOfSet({c \in CellSet(nc) : Adm(ShiftC(c, t), nc, bc)})
      IN [m \in DOMAIN q |-> <<SiteId(q[m], su, nc, nsl), SiteId(WrapC(ShiftC(q[m], t), nc), sv, nc, nsl), i>>]])
CustomPairs(nc, bc, nsl, n, ce, cn) == LET b == CustomBonds(nc, bc, nsl, ce) IN
   [i \in DOMAIN b |-> <<W2(b[i][1], ce[b[i][3]][3], b[i][2], ce[b[i][3]][4], n), Cf(ce[b[i][3]][5])>>]
   \o [i \in DOMAIN cn |-> <<W1(cn[i][1], cn[i][2], n), Cf(cn[i][3])>>]

\* ------------------------------------------------------- fermionic models
Mode(u, sp) == 2 * u + sp + 1
Hop(a, b) == << <<a, 1>>, <<b, 0>> >>
Num(a) == << <<a, 1>>, <<a, 0>> >>
FT(w, c) == [w |-> w, c |-> c]
\* - t SUM_<uv>,s (c+_us c_vs + c+_vs c_us)
HopTerms(es, T, Tm) == Flat([i \in DOMAIN es |-> LET u == es[i][1]  v == es[i][2]  t == GdNeg(EdgeCf(T, Tm, es[i])) IN
   << FT(Hop(Mode(u, 0), Mode(v, 0)), t), FT(Hop(Mode(v, 0), Mode(u, 0)), t),
      FT(Hop(Mode(u, 1), Mode(v, 1)), t), FT(Hop(Mode(v, 1), Mode(u, 1)), t) >>])
\* U SUM_u n_u,up n_u,down
CoulombTerms(ns, U) == [u \in 1..ns |-> FT(Num(Mode(u - 1, 0)) \o Num(Mode(u - 1, 1)), Cf(U[u]))]
\* V SUM_<uv> (n_u,up + n_u,down)(n_v,up + n_v,down)
InterTerms(es, V, Vm) == Flat([i \in DOMAIN es |-> LET u == es[i][1]  v == es[i][2]  c == EdgeCf(V, Vm, es[i]) IN
   << FT(Num(Mode(u, 0)) \o Num(Mode(v, 0)), c), FT(Num(Mode(u, 0)) \o Num(Mode(v, 1)), c),
      FT(Num(Mode(u, 1)) \o Num(Mode(v, 0)), c), FT(Num(Mode(u, 1)) \o Num(Mode(v, 1)), c) >>])
\* Haldane: - t1 SUM_<uv>,s (c+_u c_v + h.c.) - t2 SUM_<<uv>>,s (e^{i phi} c+_u c_v + e^{-i phi} c+_v c_u), u < v, e^{i phi} = i^p
HaldaneTerms(es, T1, T1m, T2, T2m, ph, phm) == Flat([i \in DOMAIN es |-> LET u == es[i][1]  v == es[i][2] IN
   IF es[i][3] = 1 THEN LET t == GdNeg(EdgeCf(T1, T1m, <<u, v, 1>>)) IN
        << FT(Hop(Mode(u, 0), Mode(v, 0)), t), FT(Hop(Mode(v, 0), Mode(u, 0)), t),
           FT(Hop(Mode(u, 1), Mode(v, 1)), t), FT(Hop(Mode(v, 1), Mode(u, 1)), t) >>
   ELSE LET t == GdNeg(EdgeCf(T2, T2m, <<u, v, 1>>))  p == IF Len(ph) > 0 THEN ph[1] ELSE phm[u + 1][v + 1]
            f == GdMul(t, GdIPow(p))  b == GdMul(t, GdIPow(4 - p)) IN
        << FT(Hop(Mode(u, 0), Mode(v, 0)), f), FT(Hop(Mode(v, 0), Mode(u, 0)), b),
           FT(Hop(Mode(u, 1), Mode(v, 1)), f), FT(Hop(Mode(v, 1), Mode(u, 1)), b) >>])
=============================================================================
