---------------------------- MODULE KernelCalls ------------------------------
(***************************************************************************)
(* C68: kernel utilities with an INTEGER valued synthetic kernel function. *)
(*                                                                         *)
(* Data points are small integers, the kernel k(x, y) is one of a few      *)
(* integer families (symmetric, symmetric and normalised k(x,x) = 1,       *)
(* asymmetric probe).  The module models                                   *)
(*                                                                         *)
(*  kernel_matrix(X1, X2, k)      M[i][j] = k(X1[i], X2[j]); every entry   *)
(*      is one call of k (one action per call, row-major)                  *)
(*  square_kernel_matrix(X, k, assume_normalized_kernel)                    *)
(*      one action per call of k: the pairs i < j (the value is mirrored   *)
(*      to [j][i]), then the diagonal: evaluated, or set to 1 without any  *)
(*      call when assume_normalized_kernel.  The documented meaning is the *)
(*      ENTRYWISE matrix K[i][j] = k(X[i], X[j]) (diagonal 1 under the     *)
(*      option); INVARIANTS: for a symmetric kernel the matrix built by    *)
(*      the calls equals the entrywise matrix, it is symmetric, it has a   *)
(*      unit diagonal when the kernel is normalised or the option is set,  *)
(*      no pair is evaluated twice, the number of calls is N(N-1)/2 (+N).  *)
(*      Which calls are made is MECHANISM (drift when the code differs);   *)
(*      the matrix is the property.                                        *)
(*  polarity / target_alignment (documented formulas)                      *)
(*      P  = SUM_ij y~_i y~_j K_ij,   y~_i = y_i / n_{y_i} when rescaling   *)
(*      TA = <K, T>_F / (|K|_F |T|_F),   T = y~ y~^T                       *)
(*      as exact integers: y~_i = u_i / L with L = lcm(n+, n-), so         *)
(*      P = s / L^2 (or s when not rescaling) and TA^2 = s^2 / (kk * tt)   *)
(*      with the sign of s;  INVARIANT: s^2 <= kk * tt (Cauchy-Schwarz).   *)
(*  threshold / flip / displace (and closest_psd without fixed diagonal)   *)
(*      on K = W diag(ev) W^T / s for integer matrices W with orthogonal   *)
(*      columns (W^T W = s I), integer eigenvalues ev: the documented       *)
(*      outputs are W diag(f(ev)) W^T / s with f = max(.,0), |.|,          *)
(*      . - min(ev) (only when min(ev) < 0).  INVARIANT: K w_c = ev_c w_c.  *)
(*                                                                         *)
(* Init picks (kind, sizes, family), Pick the data (explored in parallel), *)
(* then one action per kernel call, then Emit prints the case with the     *)
(* expected call log / matrix / numbers (REPLAY into pennylane.kernels).   *)
(***************************************************************************)
EXTENDS Integers, Sequences, FiniteSets, TLC, Json
CONSTANTS MaxN,        \* data set sizes 1..MaxN
          Vals,        \* point values for data sets
          BigVals,     \* point values for the largest data sets of the alignment cases (size MaxN)
          ERange,      \* eigenvalues of the post-processing cases: -ERange..ERange
          MaxKM,       \* kernel_matrix: sizes 1..MaxKM on both sides
          KMVals       \* point values of the kernel_matrix data sets
VARIABLES ph, cs, log, mat, pc
vars == <<ph, cs, log, mat, pc>>

Abs(x) == IF x < 0 THEN -x ELSE x
EVals == (-ERange)..ERange
Fams == {"prod", "dist", "norm", "asym"}
SymFam(f) == f # "asym"
NormFam(f) == f = "norm"
K(f, x, y) == CASE f = "prod" -> x * y + 1
                [] f = "dist" -> 3 - Abs(x - y)
                [] f = "norm" -> IF x = y THEN 1 ELSE ((x + y) % 3) - 1
                [] f = "asym" -> 3 * x - y + 1
RECURSIVE GCD(_, _)
GCD(a, b) == IF b = 0 THEN a ELSE GCD(b, a % b)
LCM(a, b) == IF a = 0 THEN b ELSE IF b = 0 THEN a ELSE (a \div GCD(a, b)) * b
Sum1(f, n) == LET S[i \in 0..n] == IF i = 0 THEN 0 ELSE S[i-1] + f[i] IN S[n]
Sum2(g(_, _), n, m) == LET R[i \in 0..n] == IF i = 0 THEN 0 ELSE
                            LET Cc[j \in 0..m] == IF j = 0 THEN R[i-1] ELSE Cc[j-1] + g(i, j) IN Cc[m]
                       IN R[n]
None == -99
Blank(n, m) == [i \in 1..n |-> [j \in 1..m |-> None]]

(* ---------------- the documented (entrywise) meanings ------------------ *)
Entrywise(X, f, an) == [i \in 1..Len(X) |-> [j \in 1..Len(X) |-> IF i = j /\ an THEN 1 ELSE K(f, X[i], X[j])]]
EntrywiseKM(X1, X2, f) == [i \in 1..Len(X1) |-> [j \in 1..Len(X2) |-> K(f, X1[i], X2[j])]]
IsSymmetric(m) == \A i \in 1..Len(m) : \A j \in 1..Len(m) : m[i][j] = m[j][i]
UnitDiag(m) == \A i \in 1..Len(m) : m[i][i] = 1
\* pairs i < j in row-major order
UpperPairs(n) == LET R[i \in 0..n] == IF i = 0 THEN <<>> ELSE R[i-1] \o [t \in 1..(n - i) |-> <<i, i + t>>] IN R[n]
NoDup(s) == \A a \in 1..Len(s) : \A b \in 1..Len(s) : a # b => s[a] # s[b]

(* ---------------- polarity / alignment as integers --------------------- *)
NPlus(Y) == Cardinality({i \in 1..Len(Y) : Y[i] = 1})
LOf(Y, rs) == IF rs THEN LCM(NPlus(Y), Len(Y) - NPlus(Y)) ELSE 1
UOf(Y, rs) == LET np == NPlus(Y) nm == Len(Y) - NPlus(Y) L == LOf(Y, rs) IN
              [i \in 1..Len(Y) |-> IF rs THEN (IF Y[i] = 1 THEN L \div np ELSE -(L \div nm)) ELSE Y[i]]
AlignRec(Kmat, Y, rs) ==
  LET n == Len(Y)  u == UOf(Y, rs)  L == LOf(Y, rs) IN
  [s |-> Sum2(LAMBDA i, j : u[i] * u[j] * Kmat[i][j], n, n),
   kk |-> Sum2(LAMBDA i, j : Kmat[i][j] * Kmat[i][j], n, n),
   tt |-> Sum2(LAMBDA i, j : (u[i] * u[j]) * (u[i] * u[j]), n, n),
   L |-> L, u |-> u]

(* ---------------- post-processing on a known eigen-decomposition ------- *)
W2 == << <<1, 1>>, <<1, -1>> >>
W3 == << <<1, -2, -2>>, <<-2, 1, -2>>, <<-2, -2, 1>> >>
W4a == << <<1, 1, 1, 1>>, <<1, -1, 1, -1>>, <<1, 1, -1, -1>>, <<1, -1, -1, 1>> >>
W4b == << <<1, -1, -1, -1>>, <<-1, 1, -1, -1>>, <<-1, -1, 1, -1>>, <<-1, -1, -1, 1>> >>
Bases == [w2 |-> [W |-> W2, s |-> 2], w3 |-> [W |-> W3, s |-> 9], w4a |-> [W |-> W4a, s |-> 4], w4b |-> [W |-> W4b, s |-> 4]]
BaseNames == {"w2", "w3", "w4a", "w4b"}
\* numerators over s of W diag(ev) W^T / s
Compose(W, ev) == LET d == Len(W) IN [i \in 1..d |-> [j \in 1..d |-> Sum1([c \in 1..d |-> W[i][c] * ev[c] * W[j][c]], d)]]
MinOf(ev) == CHOOSE x \in {ev[i] : i \in 1..Len(ev)} : \A i \in 1..Len(ev) : x <= ev[i]
Max0(x) == IF x < 0 THEN 0 ELSE x
PsdRec(b, ev) ==
  LET W == Bases[b].W  d == Len(W)  mn == MinOf(ev) IN
  [K |-> Compose(W, ev), s |-> Bases[b].s, ev |-> ev,
   thr |-> Compose(W, [c \in 1..d |-> Max0(ev[c])]),
   flip |-> Compose(W, [c \in 1..d |-> Abs(ev[c])]),
   disp |-> Compose(W, [c \in 1..d |-> IF mn < 0 THEN ev[c] - mn ELSE ev[c]]),
   already |-> mn >= 0]
OrthoOK(b) == LET W == Bases[b].W d == Len(W) IN
  \A a \in 1..d : \A c \in 1..d : Sum1([i \in 1..d |-> W[i][a] * W[i][c]], d) = (IF a = c THEN Bases[b].s ELSE 0)
EigenOK(b, ev) == LET W == Bases[b].W d == Len(W) Kn == Compose(W, ev) IN
  \A c \in 1..d : \A i \in 1..d : Sum1([j \in 1..d |-> Kn[i][j] * W[j][c]], d) = Bases[b].s * ev[c] * W[i][c]

(* ---------------- state machine ---------------------------------------- *)
Init == /\ ph = "pick" /\ log = <<>> /\ mat = <<>> /\ pc = 0
        /\ cs \in {[kind |-> "sq", N |-> n, fam |-> f] : n \in 1..MaxN, f \in Fams}
              \cup {[kind |-> "al", N |-> n, fam |-> f] : n \in 1..MaxN, f \in Fams \ {"asym"}}
              \cup {[kind |-> "km", N |-> n, N2 |-> m, fam |-> f] : n \in 1..MaxKM, m \in 1..MaxKM, f \in Fams}
              \cup {[kind |-> "psd", base |-> b] : b \in BaseNames}
Pick ==
  /\ ph = "pick" /\ pc' = 0 /\ log' = <<>>
  /\ CASE cs.kind = "sq" ->
            \E X \in [1..cs.N -> Vals], an \in BOOLEAN :
               /\ cs' = [kind |-> "sq", N |-> cs.N, fam |-> cs.fam, X |-> X, an |-> an]
               /\ mat' = Blank(cs.N, cs.N) /\ ph' = "upper"
       [] cs.kind = "al" ->
            \E X \in [1..cs.N -> (IF cs.N = MaxN THEN BigVals ELSE Vals)], Y \in [1..cs.N -> {-1, 1}], an \in BOOLEAN, rs \in BOOLEAN :
               /\ cs' = [kind |-> "al", N |-> cs.N, fam |-> cs.fam, X |-> X, Y |-> Y, an |-> an, rs |-> rs]
               /\ mat' = Entrywise(X, cs.fam, an) /\ ph' = "emit"
       [] cs.kind = "km" ->
            \E X1 \in [1..cs.N -> KMVals], X2 \in [1..cs.N2 -> KMVals] :
               /\ cs' = [kind |-> "km", N |-> cs.N, N2 |-> cs.N2, fam |-> cs.fam, X |-> X1, X2 |-> X2]
               /\ mat' = Blank(cs.N, cs.N2) /\ ph' = "cross"
       [] cs.kind = "psd" ->
            \E ev \in [1..Len(Bases[cs.base].W) -> EVals] :
               /\ cs' = [kind |-> "psd", base |-> cs.base, ev |-> ev]
               /\ mat' = <<>> /\ ph' = "emit"
\* one call of the kernel on the next pair i < j; the value is mirrored
Upper ==
  /\ ph = "upper"
  /\ LET ps == UpperPairs(cs.N) IN
     IF pc < Len(ps)
     THEN LET i == ps[pc + 1][1]  j == ps[pc + 1][2]  v == K(cs.fam, cs.X[i], cs.X[j]) IN
          /\ log' = Append(log, <<i, j>>)
          /\ mat' = [mat EXCEPT ![i][j] = v, ![j][i] = v]
          /\ pc' = pc + 1 /\ ph' = ph
     ELSE /\ pc' = 0 /\ ph' = "diag" /\ UNCHANGED <<log, mat>>
  /\ UNCHANGED cs
Diag ==
  /\ ph = "diag"
  /\ IF cs.an
     THEN /\ mat' = [i \in 1..cs.N |-> [mat[i] EXCEPT ![i] = 1]] /\ ph' = "emit" /\ UNCHANGED <<log, pc>>       \* no call at all
     ELSE IF pc < cs.N
          THEN /\ log' = Append(log, <<pc + 1, pc + 1>>)
               /\ mat' = [mat EXCEPT ![pc + 1][pc + 1] = K(cs.fam, cs.X[pc + 1], cs.X[pc + 1])]
               /\ pc' = pc + 1 /\ ph' = ph
          ELSE /\ ph' = "emit" /\ UNCHANGED <<log, mat, pc>>
  /\ UNCHANGED cs
Cross ==
  /\ ph = "cross"
  /\ IF pc < cs.N * cs.N2
     THEN LET i == (pc \div cs.N2) + 1  j == (pc % cs.N2) + 1 IN
          /\ log' = Append(log, <<i, j>>)
          /\ mat' = [mat EXCEPT ![i][j] = K(cs.fam, cs.X[i], cs.X2[j])]
          /\ pc' = pc + 1 /\ ph' = ph
     ELSE /\ ph' = "emit" /\ UNCHANGED <<log, mat, pc>>
  /\ UNCHANGED cs
Emit ==
  /\ ph = "emit" /\ ph' = "done"
  /\ PrintT(ToJson(
       CASE cs.kind = "sq" -> [kind |-> "sq", c |-> cs, log |-> log, mat |-> mat, sym |-> SymFam(cs.fam),
                               unit |-> cs.an \/ NormFam(cs.fam)]
         [] cs.kind = "km" -> [kind |-> "km", c |-> cs, log |-> log, mat |-> mat]
         [] cs.kind = "al" -> [kind |-> "al", c |-> cs, mat |-> mat, al |-> AlignRec(mat, cs.Y, cs.rs)]
         [] cs.kind = "psd" -> [kind |-> "psd", c |-> cs, r |-> PsdRec(cs.base, cs.ev)]))
  /\ UNCHANGED <<cs, log, mat, pc>>
Next == Pick \/ Upper \/ Diag \/ Cross \/ Emit

(* ---------------- invariants ------------------------------------------- *)
AtEmit == ph = "emit"
SquareOK == (AtEmit /\ cs.kind = "sq") =>
  /\ NoDup(log)
  /\ Len(log) = (cs.N * (cs.N - 1)) \div 2 + (IF cs.an THEN 0 ELSE cs.N)
  /\ SymFam(cs.fam) => (mat = Entrywise(cs.X, cs.fam, cs.an) /\ IsSymmetric(mat))
  /\ (cs.an \/ NormFam(cs.fam)) => UnitDiag(mat)
  /\ \A i \in 1..cs.N : \A j \in 1..cs.N : mat[i][j] # None
CrossOK == (AtEmit /\ cs.kind = "km") =>
  /\ mat = EntrywiseKM(cs.X, cs.X2, cs.fam) /\ NoDup(log) /\ Len(log) = cs.N * cs.N2
AlignOK == (AtEmit /\ cs.kind = "al") =>
  LET a == AlignRec(mat, cs.Y, cs.rs) IN
  /\ a.s * a.s <= a.kk * a.tt
  /\ a.tt > 0
  /\ ~cs.rs => a.tt = cs.N * cs.N
PsdOK == (AtEmit /\ cs.kind = "psd") =>
  /\ OrthoOK(cs.base) /\ EigenOK(cs.base, cs.ev)
  /\ LET r == PsdRec(cs.base, cs.ev) IN
     /\ IsSymmetric(r.K) /\ IsSymmetric(r.thr) /\ IsSymmetric(r.flip) /\ IsSymmetric(r.disp)
     /\ r.already => (r.thr = r.K /\ r.flip = r.K /\ r.disp = r.K)
\* negative control (FALSE claim, must be refuted through the asymmetric probe kernel)
NegEntrywiseAlways == (AtEmit /\ cs.kind = "sq") => mat = Entrywise(cs.X, cs.fam, cs.an)
=============================================================================
