------------------------------ MODULE ExecConv -------------------------------
(***************************************************************************)
(* Argument conventions of executor.submit / map / starmap, written from   *)
(* the Python documentation of the built-ins they are documented to        *)
(* mirror (pure operators, no variables):                                  *)
(*   submit(fn, args.., kw..)       = fn(args.., kw..)                      *)
(*   map(fn, it_1 .. it_r, kw..)    = [fn(it_1[j], .., it_r[j], kw..)       *)
(*                                     for j < min(len(it_q))]              *)
(*      ("stops when the shortest iterable is exhausted"; kwargs are        *)
(*       broadcast to every call, as the executor API documents)            *)
(*   starmap(fn, tuples, kw..)      = [fn(t[1], .., t[m], kw..) for t in tuples] *)
(* results are returned as a list.                                          *)
(*                                                                         *)
(* A call is a record [api, fn, its, haskw, k]:                             *)
(*   its = the iterables (map) / the argument tuples (starmap) /            *)
(*         <<args>> (submit);  haskw: keyword k=<k> supplied.               *)
(* Task functions are a small table of pure integer functions (mirrored    *)
(* one to one by harness/exec_tasks.py), chosen so that swapping,          *)
(* dropping or packing arguments changes the value.                        *)
(***************************************************************************)
EXTENDS Integers, Sequences, FiniteSets, TLC

FnNames == {"sq", "ident", "sub", "lin3", "subk", "sqk", "vsum", "seven"}
\* number of positional parameters; -1 = variadic (star-args)
Arity(fn) == CASE fn = "sq" -> 1 [] fn = "ident" -> 1 [] fn = "sub" -> 2 [] fn = "lin3" -> 3
               [] fn = "subk" -> 2 [] fn = "sqk" -> 1 [] fn = "vsum" -> -1 [] fn = "seven" -> 0
TakesK(fn) == fn \in {"subk", "sqk"}

RECURSIVE WSum(_, _)
WSum(a, p) == IF a = <<>> THEN 0 ELSE p * Head(a) + WSum(Tail(a), 10 * p)

\* fn applied to the positional tuple a and keyword k: k = 0 is the default of the keyword parameter
Fn(fn, a, k) ==
  CASE fn = "sq" -> a[1] * a[1]
    [] fn = "ident" -> a[1]
    [] fn = "sub" -> a[1] - a[2]
    [] fn = "lin3" -> a[1] + 10 * a[2] + 100 * a[3]
    [] fn = "subk" -> a[1] - a[2] + 1000 * k
    [] fn = "sqk" -> a[1] * a[1] + 1000 * k
    [] fn = "vsum" -> WSum(a, 1)
    [] fn = "seven" -> 7

ArgsOK(fn, a, haskw) == /\ (Arity(fn) = -1 \/ Len(a) = Arity(fn))
                        /\ (haskw => TakesK(fn))

Min(S) == CHOOSE x \in S : \A y \in S : x <= y
\* the argument tuple of every task of the call, in input order
TaskArgs(c) ==
  IF c.api = "map"
  THEN LET m == Min({Len(c.its[q]) : q \in 1..Len(c.its)})
       IN [j \in 1..m |-> [q \in 1..Len(c.its) |-> c.its[q][j]]]
  ELSE c.its          \* starmap: the tuples themselves; submit: the single tuple <<args>>

\* the built-in is defined on this call (it would not raise)
Defined(c) ==
  /\ c.api \in {"map", "starmap", "submit"}
  /\ (c.api = "map" => Len(c.its) >= 1)
  /\ (c.api = "submit" => Len(c.its) = 1)
  /\ \A j \in 1..Len(TaskArgs(c)) : ArgsOK(c.fn, TaskArgs(c)[j], c.haskw)
  /\ (c.haskw => TakesK(c.fn))

KOf(c) == IF c.haskw THEN c.k ELSE 0
Expected(c) == LET ta == TaskArgs(c) IN [j \in 1..Len(ta) |-> Fn(c.fn, ta[j], KOf(c))]

\* law used as oracle self-check: map over iterables = starmap over the zipped tuples
AsStarmap(c) == [c EXCEPT !.api = "starmap", !.its = TaskArgs(c)]
=============================================================================
