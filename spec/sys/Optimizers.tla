------------------------------ MODULE Optimizers ------------------------------
(***************************************************************************)
(* C61.  The documented update rules of the gradient optimizers of         *)
(* pennylane.optimize, transcribed from the class docstrings, over EXACT   *)
(* numbers.  Nothing here is a float:                                      *)
(*   * hyperparameters, parameters, gradients, accumulators are rationals  *)
(*     <<n, d>> (Rat.tla).  The harness only uses dyadic values (eta = 1/4,*)
(*     beta = 1/2, integer objective coefficients), for which float64      *)
(*     arithmetic is exact; the generator's invariant Dyadic certifies it. *)
(*   * the adaptive rules divide by a square root.  A parameter is an      *)
(*     ALGEBRAIC number  r + sum_j c_j * sqrt(q_j)  (record [r, s], s a    *)
(*     sequence of <<c_j, q_j>>, q_j a positive rational that is not a     *)
(*     perfect square); a square root of a perfect square is folded into   *)
(*     the rational part, so "the accumulators are perfect squares" gives  *)
(*     a rational expectation.  The harness evaluates the few radicals.    *)
(*                                                                         *)
(* Objective family (fixed between spec and harness; N arguments, each a   *)
(* vector of D elements, o = [q, b, r, m]):                                *)
(*   f(a_1..a_N) = sum_e ( sum_i q_i a_i[e]^2 + b_i a_i[e]                 *)
(*                         + [N >= 2] r a_1[e] a_N[e] )                    *)
(* o.m = <<a, b, d>> is the metric tensor [[a, b], [b, d]] handed to the   *)
(* natural-gradient optimizers (argument with trained index j uses a+j-1). *)
(* While a parameter has radical terms only linear objectives are          *)
(* admissible (their gradient does not depend on the parameters), so that  *)
(* gradients and accumulators are always rational.                         *)
(*                                                                         *)
(* Configuration c = [kind, eta, m, b2, eps, lam, train, D, x0]:           *)
(*   m = momentum (momentum, nesterov, momentum_qng), decay (rmsprop),     *)
(*       beta1 (adam);  train[i] = argument i is trainable.                *)
(* State st = [x, xprev, acc, sm, t, mt].                                  *)
(***************************************************************************)
EXTENDS Rat, FiniteSets, TLC

Kinds == {"gd", "momentum", "nesterov", "adagrad", "rmsprop", "adam", "qng", "momentum_qng"}
ResetKinds == {"momentum", "nesterov", "adagrad", "rmsprop", "adam"}
QngKinds == {"qng", "momentum_qng"}

(* ------------------------------------------------------------ square roots *)
RECURSIVE ISqrtB(_, _, _)
ISqrtB(n, lo, hi) == IF lo >= hi THEN lo
                     ELSE LET mid == (lo + hi + 1) \div 2 IN
                          IF mid * mid <= n THEN ISqrtB(n, mid, hi) ELSE ISqrtB(n, lo, mid - 1)
ISqrt(n) == ISqrtB(n, 0, IF n < 46340 THEN n ELSE 46340)          \* floor(sqrt(n)), 0 <= n < 2^31
IsSq(n) == n >= 0 /\ ISqrt(n) * ISqrt(n) = n
RIsSquare(q) == IsSq(q[1]) /\ IsSq(q[2])                          \* q in normal form
RSqrt(q) == <<ISqrt(q[1]), ISqrt(q[2])>>
RECURSIVE RPow(_, _)
RPow(q, k) == IF k = 0 THEN ROne ELSE RMul(q, RPow(q, k - 1))
RSq(q) == RMul(q, q)
RECURSIVE IsPow2(_)
IsPow2(d) == d = 1 \/ (d > 1 /\ d % 2 = 0 /\ IsPow2(d \div 2))

(* ------------------------------------------------------------ algebraic numbers *)
ARat(q) == [r |-> q, s |-> <<>>]
AZero == ARat(RZero)
AIsRat(a) == a.s = <<>>
RECURSIVE ScaleTerms(_, _)
ScaleTerms(k, s) == IF s = <<>> THEN <<>> ELSE <<<<RMul(k, s[1][1]), s[1][2]>>>> \o ScaleTerms(k, Tail(s))
AScale(k, a) == IF RIsZero(k) THEN AZero ELSE [r |-> RMul(k, a.r), s |-> ScaleTerms(k, a.s)]
AAdd(a, b) == [r |-> RAdd(a.r, b.r), s |-> a.s \o b.s]
ASub(a, b) == AAdd(a, AScale(RInt(-1), b))
\* c * sqrt(q), q >= 0
ASqrtTerm(c, q) == IF RIsZero(c) \/ RIsZero(q) THEN AZero
                   ELSE IF RIsSquare(q) THEN ARat(RMul(c, RSqrt(q)))
                   ELSE [r |-> RZero, s |-> <<<<c, q>>>>]

\* compact output form for the harness: <<n, d, c1n, c1d, q1n, q1d, c2n, ...>>
RECURSIVE TermsOut(_)
TermsOut(s) == IF s = <<>> THEN <<>> ELSE <<s[1][1][1], s[1][1][2], s[1][2][1], s[1][2][2]>> \o TermsOut(Tail(s))
AlgOut(a) == <<a.r[1], a.r[2]>> \o TermsOut(a.s)
XOut(x) == [i \in DOMAIN x |-> [e \in DOMAIN x[i] |-> AlgOut(x[i][e])]]

(* ------------------------------------------------------------ shapes *)
NArgs(c) == Len(c.train)
TrIndex(c, i) == Cardinality({j \in 1..i : c.train[j]})           \* position of argument i among the trainable ones
NTrain(c) == TrIndex(c, NArgs(c))
ZeroMat(c) == [i \in 1..NArgs(c) |-> [e \in 1..c.D |-> RZero]]
Init0(c) == LET x0 == [i \in 1..NArgs(c) |-> [e \in 1..c.D |-> ARat(c.x0[i][e])]] IN
            [x |-> x0, xprev |-> x0, acc |-> ZeroMat(c), sm |-> ZeroMat(c), t |-> 0, mt |-> <<>>]
RatPart(x) == [i \in DOMAIN x |-> [e \in DOMAIN x[i] |-> x[i][e].r]]
AllRat(x) == \A i \in DOMAIN x : \A e \in DOMAIN x[i] : AIsRat(x[i][e])

RECURSIVE RSumN(_, _)
RSumN(f, n) == IF n = 0 THEN RZero ELSE RAdd(RSumN(f, n - 1), f[n])
RECURSIVE ASumN(_, _)
ASumN(f, n) == IF n = 0 THEN AZero ELSE AAdd(ASumN(f, n - 1), f[n])

(* ------------------------------------------------------------ the objective family *)
Linear(o) == o.r = 0 /\ \A i \in DOMAIN o.q : o.q[i] = 0
Partner(N, i) == IF N >= 2 /\ i = 1 THEN N ELSE IF N >= 2 /\ i = N THEN 1 ELSE 0
\* d f / d a_i[e] at the rational point p
GradAt(o, p, i, e) ==
  LET N == Len(p)
      own == RAdd(RMul(RInt(2 * o.q[i]), p[i][e]), RInt(o.b[i]))
      k == Partner(N, i)
  IN IF k = 0 \/ o.r = 0 THEN own ELSE RAdd(own, RMul(RInt(o.r), p[k][e]))
\* f at the rational point p
CostRat(o, p) ==
  LET N == Len(p)
      D == Len(p[1])
      ElemCost(e) == RAdd(RSumN([i \in 1..N |-> RAdd(RMul(RInt(o.q[i]), RSq(p[i][e])), RMul(RInt(o.b[i]), p[i][e]))], N),
                          IF N >= 2 /\ o.r # 0 THEN RMul(RInt(o.r), RMul(p[1][e], p[N][e])) ELSE RZero)
  IN RSumN([e \in 1..D |-> ElemCost(e)], D)
\* f at the algebraic point x (radical terms only under a linear objective, where f is linear in them)
CostAlg(o, x) ==
  LET N == Len(x)
      D == Len(x[1])
      Rad(i, e) == AScale(RInt(o.b[i]), [r |-> RZero, s |-> x[i][e].s])
  IN AAdd(ARat(CostRat(o, RatPart(x))),
          ASumN([i \in 1..N |-> ASumN([e \in 1..D |-> Rad(i, e)], D)], N))

(* ------------------------------------------------------------ metric tensors (natural gradient) *)
\* M = <<a, b, d>> stands for [[a, b], [b, d]] (D = 2) or [[a]] (D = 1)
RegMetric(c, o, j) == <<RAdd(RInt(o.m[1] + j - 1), c.lam), RInt(o.m[2]), RAdd(RInt(o.m[3]), c.lam)>>
MDet(M) == RSub(RMul(M[1], M[3]), RSq(M[2]))
MOk(M, D) == IF D = 1 THEN ~RIsZero(M[1]) ELSE ~RIsZero(MDet(M))
\* M^-1 g
MSolve(M, g, D) ==
  IF D = 1 THEN <<RDiv(g[1], M[1])>>
  ELSE LET det == MDet(M) IN
       <<RDiv(RSub(RMul(M[3], g[1]), RMul(M[2], g[2])), det), RDiv(RSub(RMul(M[1], g[2]), RMul(M[2], g[1])), det)>>

(* ------------------------------------------------------------ element-wise documented rules *)
\* g gradient, a / s accumulators before the step, t1 the step count after the step.
\* result: a, s accumulators after the step; d = x(t) - x(t+1); ok = FALSE when the formula divides by zero
ElemUpd(c, g, a, s, t1) ==
  CASE c.kind = "gd" ->
         \* x(t+1) = x(t) - eta grad f(x(t))
         [a |-> a, s |-> s, d |-> ARat(RMul(c.eta, g)), ok |-> TRUE]
    [] c.kind \in {"momentum", "nesterov"} ->
         \* a(t+1) = m a(t) + eta grad f(.) ;  x(t+1) = x(t) - a(t+1)
         LET a1 == RAdd(RMul(c.m, a), RMul(c.eta, g)) IN [a |-> a1, s |-> s, d |-> ARat(a1), ok |-> TRUE]
    [] c.kind \in {"adagrad", "rmsprop"} ->
         \* adagrad: a(t+1) = sum_k g_k^2 ; rmsprop: a(t+1) = gamma a(t) + (1 - gamma) g^2
         \* x(t+1) = x(t) - eta / sqrt(a(t+1) + eps) * g
         LET a1 == IF c.kind = "adagrad" THEN RAdd(a, RSq(g)) ELSE RAdd(RMul(c.m, a), RMul(RSub(ROne, c.m), RSq(g)))
             R == RAdd(a1, c.eps)
         IN IF R[1] <= 0 THEN [a |-> a1, s |-> s, d |-> AZero, ok |-> FALSE]
            ELSE [a |-> a1, s |-> s, d |-> ASqrtTerm(RDiv(RMul(c.eta, g), R), R), ok |-> TRUE]      \* g / sqrt(R) = (g / R) sqrt(R)
    [] c.kind = "adam" ->
         \* a(t+1) = b1 a + (1 - b1) g ; b(t+1) = b2 b + (1 - b2) g^2 ; eta(t+1) = eta sqrt(1 - b2^(t+1)) / (1 - b1^(t+1))
         \* x(t+1) = x(t) - eta(t+1) a(t+1) / (sqrt(b(t+1)) + eps)
         LET fm == RAdd(RMul(c.m, a), RMul(RSub(ROne, c.m), g))
             sm == RAdd(RMul(c.b2, s), RMul(RSub(ROne, c.b2), RSq(g)))
             U == RSub(ROne, RPow(c.b2, t1))
             B == RSub(ROne, RPow(c.m, t1))
         IN IF RIsZero(B) \/ U[1] < 0 \/ (RIsZero(c.eps) /\ RIsZero(sm)) THEN [a |-> fm, s |-> sm, d |-> AZero, ok |-> FALSE]
            ELSE LET C == RDiv(RMul(c.eta, fm), B) IN
                 IF RIsZero(c.eps) THEN [a |-> fm, s |-> sm, d |-> ASqrtTerm(C, RDiv(U, sm)), ok |-> TRUE]
                 ELSE LET e2 == RSq(c.eps) IN
                      IF sm = e2 THEN [a |-> fm, s |-> sm, d |-> ASqrtTerm(RDiv(C, RMul(RInt(2), c.eps)), U), ok |-> TRUE]
                      ELSE \* C sqrt(U) / (sqrt(S) + eps) = K (sqrt(U S) - eps sqrt(U)),  K = C / (S - eps^2)
                           LET K == RDiv(C, RSub(sm, e2)) IN
                           [a |-> fm, s |-> sm, ok |-> TRUE,
                            d |-> AAdd(ASqrtTerm(K, RMul(U, sm)), ASqrtTerm(RNeg(RMul(K, c.eps)), U))]
    [] OTHER -> [a |-> a, s |-> s, d |-> AZero, ok |-> FALSE]

(* ------------------------------------------------------------ one public call *)
\* call = [k |-> "step" | "cost" | "cost_gf" | "reset", rc |-> recompute_tensor, o |-> objective, ks |-> <<>>]
\* result: ok = "ok" | "inadmissible" (outside the exact fragment) | "undefined" (formula divides by zero);
\*         st = state after the call; cost = f(x(t)) (the pre-step parameters); g = gradient used;
\*         u = natural-gradient direction (qng kinds, else g); shc = f at the point where nesterov takes the gradient
Fail(c, st, why) == [ok |-> why, st |-> st, cost |-> AZero, g |-> ZeroMat(c), u |-> ZeroMat(c), shc |-> RZero]
Do(c, st, call) ==
  IF call.k = "reset"
  THEN [ok |-> "ok", st |-> [st EXCEPT !.acc = ZeroMat(c), !.sm = ZeroMat(c), !.t = 0], cost |-> AZero,
        g |-> ZeroMat(c), u |-> ZeroMat(c), shc |-> RZero]
  ELSE
  LET o == call.o
      N == NArgs(c)
      D == c.D
  IN IF ~(AllRat(st.x) \/ Linear(o)) THEN Fail(c, st, "inadmissible")
     ELSE
     LET xr == TLCEval(RatPart(st.x))
         \* nesterov takes the gradient at x - m a (all trainable arguments shifted), everything else at x
         p == IF c.kind = "nesterov"
              THEN TLCEval([i \in 1..N |-> [e \in 1..D |-> IF c.train[i] THEN RSub(xr[i][e], RMul(c.m, st.acc[i][e])) ELSE xr[i][e]]])
              ELSE xr
         G == TLCEval([i \in 1..N |-> [e \in 1..D |-> IF c.train[i] THEN GradAt(o, p, i, e) ELSE RZero]])
         t1 == st.t + 1
         cost == CostAlg(o, st.x)
         shc == IF c.kind = "nesterov" THEN CostRat(o, p) ELSE RZero
     IN IF c.kind \in QngKinds
        THEN LET mt == IF call.rc \/ st.mt = <<>> THEN TLCEval([j \in 1..NTrain(c) |-> RegMetric(c, o, j)]) ELSE st.mt IN
             IF \E j \in 1..NTrain(c) : ~MOk(mt[j], D) THEN Fail(c, st, "undefined")
             ELSE LET U == TLCEval([i \in 1..N |-> IF c.train[i] THEN MSolve(mt[TrIndex(c, i)], G[i], D) ELSE [e \in 1..D |-> RZero]])
                      \* qng: x(t+1) = x(t) - eta g^-1 grad f ;  momentum_qng: x(t+1) = x(t) + rho (x(t) - x(t-1)) - eta g^-1 grad f
                      nx == TLCEval([i \in 1..N |-> [e \in 1..D |->
                               IF ~c.train[i] THEN st.x[i][e]
                               ELSE LET base == IF c.kind = "qng" THEN xr[i][e]
                                                ELSE RAdd(xr[i][e], RMul(c.m, RSub(xr[i][e], st.xprev[i][e].r)))
                                    IN ARat(RSub(base, RMul(c.eta, U[i][e])))]])
                  IN [ok |-> "ok", st |-> [st EXCEPT !.x = nx, !.xprev = st.x, !.mt = mt, !.t = t1], cost |-> cost, g |-> G, u |-> U, shc |-> shc]
        ELSE LET W == TLCEval([i \in 1..N |-> [e \in 1..D |-> ElemUpd(c, G[i][e], st.acc[i][e], st.sm[i][e], t1)]]) IN
             IF \E i \in 1..N : c.train[i] /\ \E e \in 1..D : ~W[i][e].ok THEN Fail(c, st, "undefined")
             ELSE LET nx == TLCEval([i \in 1..N |-> [e \in 1..D |-> IF c.train[i] THEN ASub(st.x[i][e], W[i][e].d) ELSE st.x[i][e]]])
                      na == TLCEval([i \in 1..N |-> [e \in 1..D |-> IF c.train[i] THEN W[i][e].a ELSE st.acc[i][e]]])
                      ns == TLCEval([i \in 1..N |-> [e \in 1..D |-> IF c.train[i] THEN W[i][e].s ELSE st.sm[i][e]]])
                  IN [ok |-> "ok", st |-> [st EXCEPT !.x = nx, !.xprev = st.x, !.acc = na, !.sm = ns, !.t = t1], cost |-> cost, g |-> G, u |-> G, shc |-> shc]

\* which calls make sense for which optimizer (call.ks: restriction of an alphabet entry to some optimizers, <<>> = all)
Applicable(c, call) == /\ (call.ks = <<>> \/ \E j \in 1..Len(call.ks) : call.ks[j] = c.kind)
                       /\ (call.k = "reset" => c.kind \in ResetKinds)
                       /\ (~call.rc => (c.kind \in QngKinds /\ call.k # "reset"))

(* ------------------------------------------------------------ range guard (TLC integers are 32 bit; an overflow is an error, never silent) *)
RSmall(q, nb, db) == Abs(q[1]) <= nb /\ q[2] <= db
ASmall(a) == /\ RSmall(a.r, 2048, 64) /\ Len(a.s) <= 6
             /\ \A j \in 1..Len(a.s) : RSmall(a.s[j][1], 2048, 2048) /\ RSmall(a.s[j][2], 1048576, 65536)
Small(c, st) == \A i \in 1..NArgs(c) : \A e \in 1..c.D :
                  /\ ASmall(st.x[i][e]) /\ ASmall(st.xprev[i][e])
                  /\ RSmall(st.acc[i][e], 1048576, 4096) /\ RSmall(st.sm[i][e], 1048576, 4096)
=============================================================================
