------------------------------ MODULE DecompCtx ------------------------------
(***************************************************************************)
(* C66  Local decomposition-rule contexts (qp.decomposition.local_decomps, *)
(* add_decomps, list_decomps, fixed decompositions) run by several threads.*)
(*                                                                         *)
(* Abstract state                                                          *)
(*   glob        the global registry  [d: Ops -> Seq(rule), f: Ops -> rule]*)
(*               (f[o] = 0: no fixed rule)                                 *)
(*   stack[t]    thread t's stack of open local contexts; a frame holds    *)
(*               the context's own registry (d, f), a fresh context id and *)
(*               the view that was current when it was entered (`saved`)   *)
(*   rules are fresh integers 1,2,..; ghost tables: origin[r] = id of the  *)
(*               context the rule was created in (0 = global registry),    *)
(*               kind[r] in {"add","fix"}, opOf[r], ctxT[c] = thread that  *)
(*               opened context c.                                         *)
(* One action per public call / critical section:                          *)
(*   Enter(t)    `with local_decomps():`  the new context starts from the  *)
(*               view current in t                                         *)
(*   Exit(t)     normal exit of t's innermost context                      *)
(*   Raise(t,k)  an exception raised in t's innermost context propagates   *)
(*               out of k nested contexts                                  *)
(*   Add(t,o)    add_decomps(o, <fresh rule>) in t's current context       *)
(*   Dup(t,o)    add_decomps(o, <rule already listed>): rejected, no change*)
(*   Fix(t,o)    fix a fresh rule for o (only inside a local context)      *)
(* What a thread observes: List(t,o) = list_decomps, Fixed(t,o).           *)
(***************************************************************************)
EXTENDS Integers, Sequences, FiniteSets, TLC
CONSTANTS NThreads, NOps, MaxDepth, MaxOps, MaxEvents
VARIABLES glob, stack, origin, kind, opOf, ctxT, nops, hist
vars == <<glob, stack, origin, kind, opOf, ctxT, nops, hist>>

Threads == 1..NThreads
Ops == 1..NOps
SeqSet(s) == {s[i] : i \in 1..Len(s)}
Last(s) == s[Len(s)]
EmptyReg == [d |-> [o \in Ops |-> <<>>], f |-> [o \in Ops |-> 0]]

Init == /\ glob = EmptyReg /\ stack = [t \in Threads |-> <<>>]
        /\ origin = <<>> /\ kind = <<>> /\ opOf = <<>> /\ ctxT = <<>> /\ nops = 0 /\ hist = <<>>

\* ------------------------------------------------------------ views (explicit-state versions are used by trace validation)
ViewOf(stk, glb, t) == IF t \notin DOMAIN stk \/ stk[t] = <<>> THEN glb ELSE [d |-> Last(stk[t]).d, f |-> Last(stk[t]).f]
ListOf(stk, glb, t, o) == LET v == ViewOf(stk, glb, t) IN IF v.f[o] # 0 THEN <<v.f[o]>> ELSE v.d[o]
FixedOf(stk, glb, t, o) == ViewOf(stk, glb, t).f[o]
ActiveOf(stk, t) == IF t \notin DOMAIN stk THEN {} ELSE {stk[t][i].id : i \in 1..Len(stk[t])}
View(t) == ViewOf(stack, glob, t)
List(t, o) == ListOf(stack, glob, t, o)
Fixed(t, o) == FixedOf(stack, glob, t, o)
Active(t) == ActiveOf(stack, t)
Depth(t) == Len(stack[t])
RulesIn(v) == UNION {SeqSet(v.d[o]) : o \in Ops} \cup ({v.f[o] : o \in Ops} \ {0})

\* ------------------------------------------------------------ actions
Log(e, t, o, k, r) == hist' = Append(hist, [e |-> e, t |-> t, o |-> o, k |-> k, r |-> r])

Enter(t) ==
  /\ Depth(t) < MaxDepth
  /\ stack' = [stack EXCEPT ![t] = Append(@, [d |-> View(t).d, f |-> View(t).f, id |-> Len(ctxT) + 1, saved |-> View(t)])]
  /\ ctxT' = Append(ctxT, t)
  /\ Log("enter", t, 0, 0, 0) /\ UNCHANGED <<glob, origin, kind, opOf, nops>>

Unwind(t, k) == stack' = [stack EXCEPT ![t] = SubSeq(@, 1, Len(@) - k)]
Exit(t) == /\ Depth(t) > 0 /\ Unwind(t, 1) /\ Log("exit", t, 0, 1, 0)
           /\ UNCHANGED <<glob, origin, kind, opOf, ctxT, nops>>
Raise(t, k) == /\ k \in 1..Depth(t) /\ Unwind(t, k) /\ Log("raise", t, 0, k, 0)
               /\ UNCHANGED <<glob, origin, kind, opOf, ctxT, nops>>

NewRule == Len(origin) + 1
Here(t) == IF stack[t] = <<>> THEN 0 ELSE Last(stack[t]).id
Register(t, o, knd) == /\ origin' = Append(origin, Here(t)) /\ kind' = Append(kind, knd) /\ opOf' = Append(opOf, o)
                       /\ nops' = nops + 1
Add(t, o) ==
  /\ nops < MaxOps
  /\ IF stack[t] = <<>> THEN /\ glob' = [glob EXCEPT !.d[o] = Append(@, NewRule)] /\ stack' = stack
     ELSE /\ stack' = [stack EXCEPT ![t][Len(stack[t])].d[o] = Append(@, NewRule)] /\ glob' = glob
  /\ Register(t, o, "add") /\ Log("add", t, o, 0, NewRule) /\ UNCHANGED ctxT
Fix(t, o) ==
  /\ nops < MaxOps /\ stack[t] # <<>>
  /\ stack' = [stack EXCEPT ![t][Len(stack[t])].f[o] = NewRule]
  /\ Register(t, o, "fix") /\ Log("fix", t, o, 0, NewRule) /\ UNCHANGED <<glob, ctxT>>
Dup(t, o) ==
  /\ nops < MaxOps /\ View(t).d[o] # <<>>
  /\ nops' = nops + 1 /\ Log("dup", t, o, 0, View(t).d[o][1])
  /\ UNCHANGED <<glob, stack, origin, kind, opOf, ctxT>>

Step(t) == \/ Enter(t) \/ Exit(t) \/ (\E k \in 1..MaxDepth : Raise(t, k))
           \/ (\E o \in Ops : Add(t, o) \/ Fix(t, o) \/ Dup(t, o))
Next == Len(hist) < MaxEvents /\ \E t \in Threads : Step(t)

\* ------------------------------------------------------------ the property, as invariants of the design
\* nothing created inside a local context is ever in the global registry
GlobalClean == \A r \in RulesIn(glob) : origin[r] = 0
\* every rule held by a frame of thread t was created globally or in a context of t that is still open at or below it
NoCrossLeak == \A t \in Threads : \A i \in 1..Len(stack[t]) : \A r \in RulesIn(stack[t][i]) :
                  origin[r] = 0 \/ origin[r] \in {stack[t][j].id : j \in 1..i}
\* a rule added in a context that is still open is visible to its thread
OwnVisible == \A t \in Threads : \A r \in 1..Len(origin) :
                  (origin[r] \in Active(t) /\ kind[r] = "add") => r \in SeqSet(View(t).d[opOf[r]])
\* leaving a context (normally or by an exception) gives back the enclosing view: enclosing frames are frozen while
\* an inner context is open, and the global registry seen at entry has only grown by global additions
IsPrefix(s, u) == Len(s) <= Len(u) /\ SubSeq(u, 1, Len(s)) = s
ExitRestores == \A t \in Threads : \A i \in 1..Len(stack[t]) :
                  IF i > 1 THEN stack[t][i].saved = [d |-> stack[t][i-1].d, f |-> stack[t][i-1].f]
                  ELSE /\ \A o \in Ops : IsPrefix(stack[t][1].saved.d[o], glob.d[o])
                       /\ stack[t][1].saved.f = glob.f
\* context ids on a stack belong to the thread and are increasing
StackSane == \A t \in Threads : \A i \in 1..Len(stack[t]) :
                  ctxT[stack[t][i].id] = t /\ (i > 1 => stack[t][i-1].id < stack[t][i].id)
\* state abstraction for model checking without the history
NoHist == <<glob, stack, origin, kind, opOf, ctxT, nops, Len(hist)>>
=============================================================================
