----------------------------- MODULE SynthClass -----------------------------
(***************************************************************************)
(* C14: what kind of unitary is being synthesised, decided EXACTLY.        *)
(* The inputs of the unitary-synthesis check are words over Clifford+T     *)
(* (+controlled) gates, i.e. matrices over D[omega] = Z[zeta_8][1/2]       *)
(* (ring level M = 3).  This module classifies such a matrix without any   *)
(* floating point and without PennyLane:                                   *)
(*   * one qubit:  diagonal / anti-diagonal / diagonal in the X basis      *)
(*     (the degenerate points of the ZYZ, ZXZ, XYX, XZX Euler angles);     *)
(*   * two qubits: identity, scalar, diagonal, monomial, local product     *)
(*     A (x) B (operator-Schmidt rank 1, by vanishing 2x2 minors of the    *)
(*     realigned matrix) and the MINIMAL NUMBER OF CNOTs, transcribed from *)
(*     Shende, Bullock, Markov, quant-ph/0308045, Prop. III.1-III.3: for   *)
(*     u in SU(4) and gamma(u) = u (Y(x)Y) u^T (Y(x)Y)                     *)
(*        0 CNOTs iff gamma(u) = +-I                                       *)
(*        1 CNOT  iff tr gamma(u) = 0 and gamma(u)^2 = -I                  *)
(*        2 CNOTs iff tr gamma(u) is real                                  *)
(*        3 CNOTs otherwise.                                               *)
(*     For U in U(4) with d = det U the normalisation u = d^(-1/4) U gives *)
(*     gamma(u) = +-d^(-1/2) gamma(U), so the criteria read, homogeneously *)
(*        0: gamma(U) = lambda I with lambda^2 = d                         *)
(*        1: tr gamma(U) = 0 and gamma(U)^2 = -d I                         *)
(*        2: (tr gamma(U))^2 * conj(d)  is a non-negative real             *)
(*     all of which are decidable in the ring (sign of a + b sqrt2 by      *)
(*     integer comparison).                                                *)
(* Scalars are 1x1 matrices [k, e] so that the power-of-two denominators   *)
(* are carried and normalised by CMat.                                     *)
(***************************************************************************)
EXTENDS Gates, FiniteSets
ASSUME M = 3

SyT(aa) == Bind(aa, LAMBDA a : [k |-> a.k, e |-> TLCEval([i \in 1..Len(a.e[1]) |-> TLCEval([j \in 1..Len(a.e) |-> a.e[j][i]])])])
SySc(k, x) == Norm(Mx(k, << <<x>> >>))
SyMul(a, b) == MatMul(a, b)
SyAdd(a, b) == MAdd(a, b)
SyNeg(a) == MNeg(a)
SyIsZero(a) == IsZero(a.e[1][1])
SyEntry(m, i, j) == SySc(m.k, m.e[i][j])
SyTrace(m) == LET S[i \in 0..Len(m.e)] == IF i = 0 THEN Zero ELSE Add(S[i-1], m.e[i][i]) IN SySc(m.k, S[Len(m.e)])
SyMinor(m, r1, r2, ca, cb) == SySc(2 * m.k, Sub(Mul(m.e[r1][ca], m.e[r2][cb]), Mul(m.e[r1][cb], m.e[r2][ca])))
\* Laplace expansion of a 4x4 determinant along rows 1,2 (every factor normalised: all minors of a unitary have modulus <= 1)
SyDet4(mm) == Bind(mm, LAMBDA m :
   LET Pr(a, b, c, d) == SyMul(SyMinor(m, 1, 2, a, b), SyMinor(m, 3, 4, c, d)) IN
   SyAdd(SyAdd(SyAdd(Pr(1,2,3,4), SyNeg(Pr(1,3,2,4))), SyAdd(Pr(1,4,2,3), Pr(2,3,1,4))),
         SyAdd(SyNeg(Pr(2,4,1,3)), Pr(3,4,1,2))))
SyDet2(m) == SyMinor(m, 1, 2, 1, 2)

\* ---------------------------------------------------------------- shape predicates (any dimension)
SyIsDiag(m) == \A i \in 1..Len(m.e) : \A j \in 1..Len(m.e) : i # j => IsZero(m.e[i][j])
SyIsScalar(m) == SyIsDiag(m) /\ \A i \in 1..Len(m.e) : m.e[i][i] = m.e[1][1]
SyIsIdentity(m) == EqExact(m, Ident(Len(m.e)))
SyIsMonomial(m) == \A i \in 1..Len(m.e) : Cardinality({j \in 1..Len(m.e) : ~IsZero(m.e[i][j])}) = 1
SyIsAntiDiag2(m) == IsZero(m.e[1][1]) /\ IsZero(m.e[2][2])

\* ---------------------------------------------------------------- two qubits
SyYY == Kron(MY, MY)
SyGamma(u) == MatMul(MatMul(MatMul(u, SyYY), SyT(u)), SyYY)
\* U[(i,k),(j,l)] realigned to R[(i,j),(k,l)]; U = A (x) B iff R has rank 1
SyRe(m, p, q) == m.e[2 * (p \div 2) + (q \div 2) + 1][2 * (p % 2) + (q % 2) + 1]
SyIsLocal(mm) == Bind(mm, LAMBDA m :
   \A p \in 0..3 : \A pp \in 0..3 : \A q \in 0..3 : \A qq \in 0..3 :
      (p < pp /\ q < qq) => Mul(SyRe(m, p, q), SyRe(m, pp, qq)) = Mul(SyRe(m, p, qq), SyRe(m, pp, q)))
\* sign of the real number a + b*sqrt2
SyNonNegAB(a, b) == IF a >= 0 /\ b >= 0 THEN TRUE ELSE IF a < 0 /\ b < 0 THEN FALSE
                    ELSE IF a >= 0 THEN a * a >= 2 * b * b ELSE 2 * b * b >= a * a
\* x = x1 + x2 w + x3 w^2 + x4 w^3 (w = e^{i pi/4}):  Im x = x3 + (x2+x4)/sqrt2,  Re x = x1 + (x2-x4)/sqrt2
SyRealNonNeg(s) == LET x == s.e[1][1] IN x[3] = 0 /\ x[2] + x[4] = 0 /\ SyNonNegAB(x[1], x[2])
SyCnotClass(uu) == Bind(uu, LAMBDA u :
   Bind2(SyGamma(u), SyDet4(u), LAMBDA g, d :
     Bind(SyTrace(g), LAMBDA t :
       IF SyIsScalar(g) /\ EqExact(SyMul(SyEntry(g, 1, 1), SyEntry(g, 1, 1)), d) THEN 0
       ELSE IF SyIsZero(t) /\ EqExact(MatMul(g, g), Kron(SyNeg(d), Ident(4))) THEN 1
       ELSE IF SyRealNonNeg(SyMul(SyMul(t, t), Dagger(d))) THEN 2
       ELSE 3)))
\* the classification must not depend on local factors, on the order of the two wires, or on inversion
SyLoc1 == Kron(MatMul(MS, MH), MT)
SyLoc2 == Kron(MatMul(MH, MT), MatMul(MS, MH))
SyClassInvariant(u, c) ==
   /\ SyCnotClass(Dagger(u)) = c
   /\ SyCnotClass(MatMul(MatMul(SyLoc1, u), SyLoc2)) = c
   /\ SyCnotClass(MatMul(MatMul(MSWAP, u), MSWAP)) = c
   /\ (c = 0) = SyIsLocal(u)

\* flag word of a matrix (bit set): 1 identity, 2 scalar, 4 diagonal, 8 monomial, 16 anti-diagonal (1 qubit),
\* 32 diagonal in the X basis (1 qubit), 64 anti-diagonal in the X basis (1 qubit), 128 local product (2 qubits)
SyFlags(uu) == Bind(uu, LAMBDA u :
   LET n2 == Len(u.e) = 2
       hx == IF n2 THEN MatMul(MatMul(MH, u), MH) ELSE u IN
   (IF SyIsIdentity(u) THEN 1 ELSE 0) + (IF SyIsScalar(u) THEN 2 ELSE 0) + (IF SyIsDiag(u) THEN 4 ELSE 0)
   + (IF SyIsMonomial(u) THEN 8 ELSE 0) + (IF n2 /\ SyIsAntiDiag2(u) THEN 16 ELSE 0)
   + (IF n2 /\ SyIsDiag(hx) THEN 32 ELSE 0) + (IF n2 /\ SyIsAntiDiag2(hx) THEN 64 ELSE 0)
   + (IF Len(u.e) = 4 /\ SyIsLocal(u) THEN 128 ELSE 0))
=============================================================================
