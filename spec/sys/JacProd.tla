------------------------------- MODULE JacProd -------------------------------
(***************************************************************************)
(* C39: Jacobian products as explicit integer tensor contractions, from    *)
(* the definitions in the documentation of qml.gradients.vjp / jvp:        *)
(*     vjp_j = sum_i dy_i J_ij          jvp_i = sum_j J_ij t_j             *)
(* where i runs over ALL output entries of the tape (every entry of every  *)
(* measurement, for every shot copy of a shot vector) and j over all       *)
(* entries of all trainable parameters.                                    *)
(*                                                                         *)
(* A shape is a record                                                     *)
(*   meas : sequence of measurement sizes (0 = scalar result, n > 0 =      *)
(*          result of shape (n,), e.g. probs)                              *)
(*   pars : sequence of parameter sizes (0 = scalar parameter, n > 0 =     *)
(*          parameter of shape (n,))                                       *)
(*   cop  : 0 = no shot vector, n >= 2 = shot vector with n copies         *)
(* The Jacobian is J[c][m][p][i][l] (copy, measurement, parameter, output  *)
(* entry, parameter entry), the cotangent dy[c][m][i], the tangent         *)
(* t[p][l].  A shot vector returns one result per copy: the JVP keeps the  *)
(* copy index, the VJP sums over it (the cotangent of every copy flows     *)
(* back to the same parameters).                                           *)
(*                                                                         *)
(* Second part: the Jacobian of an affine classical pre-processing         *)
(* g(w) = A w + b, computed by exact differences g(w0 + e_j) - g(w0).      *)
(***************************************************************************)
EXTENDS Integers, Sequences, TLC

Sz(s) == IF s = 0 THEN 1 ELSE s
NCop(sh) == IF sh.cop = 0 THEN 1 ELSE sh.cop
NM(sh) == Len(sh.meas)
NP(sh) == Len(sh.pars)

RECURSIVE SumTo(_, _)
SumTo(f, k) == IF k = 0 THEN 0 ELSE SumTo(f, k - 1) + f[k]
Sum(f, n) == SumTo(f, n)                     \* f[1] + ... + f[n]

VJP(sh, J, dy) ==
  [p \in 1..NP(sh) |-> [l \in 1..Sz(sh.pars[p]) |->
     Sum([c \in 1..NCop(sh) |->
        Sum([m \in 1..NM(sh) |->
           Sum([i \in 1..Sz(sh.meas[m]) |-> dy[c][m][i] * J[c][m][p][i][l]], Sz(sh.meas[m]))], NM(sh))], NCop(sh))]]
JVP(sh, J, t) ==
  [c \in 1..NCop(sh) |-> [m \in 1..NM(sh) |-> [i \in 1..Sz(sh.meas[m]) |->
     Sum([p \in 1..NP(sh) |->
        Sum([l \in 1..Sz(sh.pars[p]) |-> J[c][m][p][i][l] * t[p][l]], Sz(sh.pars[p]))], NP(sh))]]]

\* pairings of output-shaped / parameter-shaped tensors
PairOut(sh, a, b) ==
  Sum([c \in 1..NCop(sh) |-> Sum([m \in 1..NM(sh) |->
     Sum([i \in 1..Sz(sh.meas[m]) |-> a[c][m][i] * b[c][m][i]], Sz(sh.meas[m]))], NM(sh))], NCop(sh))
PairPar(sh, a, b) ==
  Sum([p \in 1..NP(sh) |-> Sum([l \in 1..Sz(sh.pars[p]) |-> a[p][l] * b[p][l]], Sz(sh.pars[p]))], NP(sh))
\* the defining duality of the two products: <dy, J t> = <dy J, t>
Adjoint(sh, J, dy, t, v, jv) == PairOut(sh, dy, jv) = PairPar(sh, v, t)

ZeroOut(sh) == [c \in 1..NCop(sh) |-> [m \in 1..NM(sh) |-> [i \in 1..Sz(sh.meas[m]) |-> 0]]]
ZeroPar(sh) == [p \in 1..NP(sh) |-> [l \in 1..Sz(sh.pars[p]) |-> 0]]

(* ------------------------------ flat numbering of entries -------------- *)
RECURSIVE SizesTo(_, _)
SizesTo(s, k) == IF k = 0 THEN 0 ELSE SizesTo(s, k - 1) + Sz(s[k])
OutPerCopy(sh) == SizesTo(sh.meas, NM(sh))
NOut(sh) == NCop(sh) * OutPerCopy(sh)
NPar(sh) == SizesTo(sh.pars, NP(sh))
FlatOut(sh, c, m, i) == (c - 1) * OutPerCopy(sh) + SizesTo(sh.meas, m - 1) + i
FlatPar(sh, p, l) == SizesTo(sh.pars, p - 1) + l

(* ------------------------------ affine pre-processing ------------------ *)
\* prog: sequence of gate arguments [a |-> coefficient sequence over the n inputs, b |-> constant, const |-> BOOLEAN]
\* (const = TRUE: the gate argument is a literal number, it is no row of the Jacobian)
Eval(g, w) == g.b + Sum([j \in 1..Len(w) |-> g.a[j] * w[j]], Len(w))
Bump(w, j) == [w EXCEPT ![j] = @ + 1]
Rows(prog) == SelectSeq(prog, LAMBDA g : ~g.const)
ClassicalJac(prog, w0) == LET rows == Rows(prog) IN
  [r \in 1..Len(rows) |-> [j \in 1..Len(w0) |-> Eval(rows[r], Bump(w0, j)) - Eval(rows[r], w0)]]
=============================================================================
