----------------------------- MODULE ShiftRule ------------------------------
(***************************************************************************)
(* C35: generated parameter-shift rules are exact for their spectra.       *)
(*                                                                         *)
(* A rule for the n-th derivative is a finite list of terms (c_j, s_j):    *)
(*        d^n f / dx^n (x) = SUM_j c_j f(x + s_j).                         *)
(* It is exact on EVERY trigonometric polynomial with frequency set Omega  *)
(* (at every point) iff it is exact on the basis e^{i w x}, w in           *)
(* +-Omega u {0}, i.e. iff the finitely many DEFINING IDENTITIES           *)
(*        SUM_j c_j e^{i w s_j} = (i w)^n      for all w in +-Omega u {0}  *)
(* hold (for rules over several parameters: the product form               *)
(*   SUM_j c_j PROD_p e^{i w_p s_{j,p}} = PROD_p (i w_p)^{n_p} ).          *)
(*                                                                         *)
(* Exact domain.  Frequencies are rationals <<p, q>>; shifts are lattice   *)
(* integers a meaning s = a * 4 pi / N  (N = 2^M, the angle lattice of     *)
(* Cyclo.tla).  Then  w * s = 2 pi (2 p a / q) / N  and the phase          *)
(* e^{i w s} = zeta^(2pa/q) is a ring element whenever q | 2pa.  The       *)
(* coefficients c_j of real rules are irrational floats: this module       *)
(* supplies the EXACT phases and decides every discrete conjunct; the sum  *)
(* SUM_j c_j * phase is formed by the driver in float64.                   *)
(*                                                                         *)
(* Discrete part, from the documentation:                                  *)
(*  - frequencies_to_period: T = 2 pi / gcd(Omega) (PeriodQ, in lattice    *)
(*    units, a rational); T is a common period of every e^{i w x}          *)
(*    (PeriodSound, proved on the model by ShiftRuleGen).                  *)
(*  - higher orders: the rule of order n is the n-fold iterate of the      *)
(*    first-order rule; its shifts are the n-fold sums of first-order      *)
(*    shifts, folded into [-T/2, T/2) (Fold, Candidates).                  *)
(*  - process_shifts: no two terms share a shift, terms are sorted by |s|  *)
(*    with the positive shift first on ties (Sorted, DistinctRows).        *)
(*  - the first-order system is determined iff the matrix sin(w_i s_j) is  *)
(*    non-singular; 2i sin(w s) = zeta^e - zeta^-e, so the determinant is  *)
(*    a ring element and non-singularity is decided exactly (Determined).  *)
(***************************************************************************)
EXTENDS Cyclo, FiniteSets, FiniteSetsExt

AbsI(x) == IF x < 0 THEN -x ELSE x
RECURSIVE GcdR(_, _)
GcdR(a, b) == IF b = 0 THEN a ELSE GcdR(b, a % b)
GcdI(a, b) == GcdR(AbsI(a), AbsI(b))
LcmI(a, b) == (a \div GcdI(a, b)) * b
QNorm(n, d) == LET g == GcdI(n, d) IN IF n = 0 THEN <<0, 1>> ELSE <<n \div g, d \div g>>        \* d > 0

\* fr: a sequence of rationals <<p, q>>, p > 0, q > 0
WellFormedFreqs(fr) == /\ Len(fr) >= 1
                       /\ \A i \in 1..Len(fr) : fr[i][1] > 0 /\ fr[i][2] > 0 /\ GcdI(fr[i][1], fr[i][2]) = 1
                       /\ \A i, j \in 1..Len(fr) : i # j => fr[i] # fr[j]
LcmDen(fr) == LET S[i \in 0..Len(fr)] == IF i = 0 THEN 1 ELSE LcmI(S[i-1], fr[i][2]) IN S[Len(fr)]
GcdNum(fr) == LET Q == LcmDen(fr)
                  S[i \in 0..Len(fr)] == IF i = 0 THEN 0 ELSE GcdI(S[i-1], fr[i][1] * (Q \div fr[i][2])) IN S[Len(fr)]
\* gcd(Omega) = GcdNum / LcmDen ;  T = 2 pi / gcd(Omega) ;  T / (4 pi / N) = N * LcmDen / (2 * GcdNum)
PeriodQ(fr) == QNorm(N * LcmDen(fr), 2 * GcdNum(fr))
PeriodOnLattice(fr) == PeriodQ(fr)[2] = 1
PeriodL(fr) == PeriodQ(fr)[1]

\* phase exponent: e^{i w s} = zeta^PhaseExp(w, a) for w = <<p, q>>, s = a * 4 pi / N
PhaseOnLattice(w, a) == (2 * w[1] * a) % w[2] = 0
PhaseExp(w, a) == (2 * w[1] * a) \div w[2]
Phase(w, a) == Zeta(PhaseExp(w, a))
ZeroFreq == <<0, 1>>

\* a period T (lattice units) is sound for w iff e^{i w T} = 1
PeriodSound(fr) == PeriodOnLattice(fr) =>
   \A i \in 1..Len(fr) : PhaseOnLattice(fr[i], PeriodL(fr)) /\ PhaseExp(fr[i], PeriodL(fr)) % N = 0
\* ... and it is the SMALLEST positive lattice period with that property
PeriodMinimal(fr) == PeriodOnLattice(fr) =>
   \A t \in 1..(PeriodL(fr) - 1) : \E i \in 1..Len(fr) : ~(PhaseOnLattice(fr[i], t) /\ PhaseExp(fr[i], t) % N = 0)

\* fold s into [-T/2, T/2) by a multiple of T
Fold(s, T) == (((2 * s + T) % (2 * T)) - T) \div 2
RECURSIVE SumsOf(_, _)
SumsOf(S, n) == IF n = 0 THEN {0} ELSE LET R == SumsOf(S, n - 1) IN {a + b : a \in R, b \in S}
\* shifts that can occur in the order-n iterate of a first-order rule with shifts +-base
Candidates(base, n, T) == LET B == base \cup {-b : b \in base} IN
   IF n = 1 THEN B ELSE {Fold(s, T) : s \in SumsOf(B, n)}

\* documented default (equidistant) shifts (2 mu - 1) pi / (2 R f_min), mu = 1..R, in lattice units, when they are on the lattice
MinFreq(fr) == CHOOSE i \in 1..Len(fr) : \A j \in 1..Len(fr) : fr[i][1] * fr[j][2] <= fr[j][1] * fr[i][2]
DefaultOnLattice(fr) == LET f == fr[MinFreq(fr)]  R == Len(fr) IN
   \A mu \in 1..R : ((2 * mu - 1) * f[2] * N) % (8 * R * f[1]) = 0
DefaultShifts(fr) == LET f == fr[MinFreq(fr)]  R == Len(fr) IN
   {((2 * mu - 1) * f[2] * N) \div (8 * R * f[1]) : mu \in 1..R}

\* exact determinant of the matrix (2i sin(w_i s_j)) = (zeta^e - zeta^-e), Leibniz formula (R <= 4)
Sin2i(w, a) == Sub(Zeta(PhaseExp(w, a)), Zeta(-PhaseExp(w, a)))
Inversions(pi, R) == Cardinality({ij \in (1..R) \X (1..R) : ij[1] < ij[2] /\ pi[ij[1]] > pi[ij[2]]})
DetSin(fr, sh) ==      \* fr: sequence of frequencies, sh: sequence of lattice shifts, equal length R
  LET R == Len(fr)
      E == TLCEval([i \in 1..R |-> TLCEval([j \in 1..R |-> Sin2i(fr[i], sh[j])])])
      Term(pi) == LET P[i \in 0..R] == IF i = 0 THEN One ELSE Mul(P[i-1], E[i][pi[i]]) IN
                  IF Inversions(pi, R) % 2 = 0 THEN P[R] ELSE Neg(P[R])
  IN FoldSet(LAMBDA pi, acc : Add(acc, Term(pi)), Zero, Permutations(1..R))
Determined(fr, sh) == /\ \A i \in 1..Len(fr), j \in 1..Len(sh) : PhaseOnLattice(fr[i], sh[j])
                      /\ ~IsZero(DetSin(fr, sh))

(* ------------------- discrete conjuncts on a reported rule ------------- *)
\* rows: sequence of rows, a row is a sequence of lattice shifts (one per parameter)
DistinctRows(rows) == \A i, j \in 1..Len(rows) : i # j => rows[i] # rows[j]
\* documented order of process_shifts (single parameter): by |s|, positive first on ties
Sorted(rows) == \A i \in 1..(Len(rows) - 1) :
   LET a == rows[i][1]  b == rows[i+1][1] IN AbsI(a) < AbsI(b) \/ (AbsI(a) = AbsI(b) /\ a >= b)
InRange(rows, p, T) == \A i \in 1..Len(rows) : -T <= 2 * rows[i][p] /\ 2 * rows[i][p] < T
DistinctModPeriod(rows, T) == \A i, j \in 1..Len(rows) : i # j => (rows[i][1] - rows[j][1]) % T # 0
=============================================================================
