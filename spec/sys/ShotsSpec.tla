------------------------------ MODULE ShotsSpec ------------------------------
(***************************************************************************)
(* C44: documented meaning of a shot specification (pennylane Shots).      *)
(* Pure operators, no variables.  Written from the class documentation:    *)
(*   a specification is None, a positive int, or a sequence whose entries  *)
(*   are positive ints or (shots, copies) pairs;                           *)
(*   its meaning is the EXPANDED LIST of shot counts, one element per      *)
(*   execution (None = the empty list = analytic execution).               *)
(* Everything the class exposes is a function of that list:                *)
(*   total_shots  = sum of the list (None for the empty list)              *)
(*   iteration    = the list                                               *)
(*   shot_vector  = run-length encoding of the list (adjacent equal counts *)
(*                  are merged: (10,100,(100,3)) -> 10x1, 100x4)           *)
(*   bins         = consecutive half-open index ranges, one per element    *)
(*   partitioned  = more than one element                                  *)
(*   a + b        = concatenation (None is the unit)                       *)
(*   a * (p/q)    = element-wise floor(n*p/q)   (doc: [7,(100,2)]*1.5 =    *)
(*                  10x1, 150x2), re-merged afterwards                     *)
(* Encoding of a specification (JSON compatible):                          *)
(*   [k |-> "none"|"int"|"seq", n |-> int, e |-> << <<n, c>>, ... >>]      *)
(*   an entry <<n, 0>> is the bare int n, <<n, c>> (c >= 1) the pair (n,c) *)
(***************************************************************************)
EXTENDS Integers, Sequences, FiniteSets, SequencesExt, TLC

NONE == -1          \* encoding of total_shots = None

Rep(n, c) == [i \in 1..c |-> n]
CopiesOf(en) == IF en[2] = 0 THEN 1 ELSE en[2]

RECURSIVE ExpandEntries(_)
ExpandEntries(es) == IF es = <<>> THEN <<>> ELSE Rep(es[1][1], CopiesOf(es[1])) \o ExpandEntries(Tail(es))

Expand(s) == CASE s.k = "none" -> <<>>
               [] s.k = "int"  -> <<s.n>>
               [] s.k = "seq"  -> ExpandEntries(s.e)

ValidEntry(en) == en[1] >= 1 /\ en[2] >= 0
ValidSpec(s) == CASE s.k = "none" -> TRUE
                  [] s.k = "int"  -> s.n >= 1
                  [] s.k = "seq"  -> Len(s.e) >= 1 /\ \A i \in 1..Len(s.e) : ValidEntry(s.e[i])

RECURSIVE Sum(_)
Sum(l) == IF l = <<>> THEN 0 ELSE l[1] + Sum(Tail(l))

Total(l) == IF l = <<>> THEN NONE ELSE Sum(l)

\* run-length encoding, declaratively: a run starts wherever the value differs from its left neighbour
Starts(l) == {i \in 1..Len(l) : i = 1 \/ l[i] # l[i-1]}
RLE(l) == LET ss == SetToSortSeq(Starts(l), LAMBDA x, y : x < y)
          IN TLCEval([k \in 1..Len(ss) |-> <<l[ss[k]], (IF k < Len(ss) THEN ss[k+1] ELSE Len(l) + 1) - ss[k]>>])

RECURSIVE UnRLE(_)
UnRLE(v) == IF v = <<>> THEN <<>> ELSE Rep(v[1][1], v[1][2]) \o UnRLE(Tail(v))

Prefix(l, i) == Sum(SubSeq(l, 1, i))
Bins(l) == TLCEval([i \in 1..Len(l) |-> <<Prefix(l, i-1), Prefix(l, i)>>])

Partitioned(l) == Len(l) > 1
NumCopies(l) == Len(l)

Add(l1, l2) == l1 \o l2

\* scaling by the rational p/q (q >= 1): every count becomes floor(n*p/q)
Scale(l, p, q) == TLCEval([i \in 1..Len(l) |-> (l[i] * p) \div q])
\* the result is a shot specification only if every scaled count is still a positive integer
ScaleDefined(l, p, q) == \A i \in 1..Len(l) : (l[i] * p) \div q >= 1

\* everything observable about a Shots object, as one record
View(l) == [total |-> Total(l), list |-> l, vec |-> RLE(l), bins |-> Bins(l), part |-> Partitioned(l), ncopies |-> NumCopies(l)]

(***************************************************************************)
(* Algebraic laws of the specification itself (checked by TLC over the     *)
(* enumerated domain; they guard the oracle, not the implementation).      *)
(***************************************************************************)
NoAdjacentEqual(v) == \A i \in 1..Len(v)-1 : v[i][1] # v[i+1][1]
RECURSIVE WeightedSum(_)
WeightedSum(v) == IF v = <<>> THEN 0 ELSE v[1][1] * v[1][2] + WeightedSum(Tail(v))

LawRLE(l) == LET v == RLE(l) IN
             /\ UnRLE(v) = l
             /\ NoAdjacentEqual(v)
             /\ \A i \in 1..Len(v) : v[i][2] >= 1
             /\ WeightedSum(v) = Sum(l)
             /\ RLE(UnRLE(v)) = v
             /\ Len(v) <= Len(l)
             /\ (Len(v) = 0) = (l = <<>>)
LawBins(l) == LET b == Bins(l) IN
              /\ Len(b) = Len(l)
              /\ \A i \in 1..Len(l) : b[i][2] - b[i][1] = l[i]
              /\ \A i \in 1..Len(l)-1 : b[i][2] = b[i+1][1]
              /\ (l # <<>> => b[1][1] = 0 /\ b[Len(l)][2] = Total(l))
LawTotal(l) == /\ (Total(l) = NONE) = (l = <<>>)
               /\ ((\A i \in 1..Len(l) : l[i] >= 1) => (l = <<>> \/ Total(l) >= Len(l)))
LawSpec(s) == LET l == Expand(s) IN
              /\ (s.k = "seq" => Len(l) = Sum([i \in 1..Len(s.e) |-> CopiesOf(s.e[i])]))
              /\ (s.k = "seq" => Sum(l) = Sum([i \in 1..Len(s.e) |-> s.e[i][1] * CopiesOf(s.e[i])]))
              /\ (s.k = "int" => View(l) = [total |-> s.n, list |-> <<s.n>>, vec |-> << <<s.n, 1>> >>, bins |-> << <<0, s.n>> >>,
                                            part |-> FALSE, ncopies |-> 1])
              /\ (s.k = "none" => View(l) = [total |-> NONE, list |-> <<>>, vec |-> <<>>, bins |-> <<>>, part |-> FALSE, ncopies |-> 0])
LawAdd(l1, l2) == LET s == Add(l1, l2)  bs == Bins(s)  b1 == Bins(l1)  b2 == Bins(l2)  t1 == Sum(l1) IN
              /\ Sum(s) = Sum(l1) + Sum(l2)
              /\ Len(s) = Len(l1) + Len(l2)
              /\ Add(l1, <<>>) = l1 /\ Add(<<>>, l2) = l2
              /\ UnRLE(RLE(l1) \o RLE(l2)) = s                  \* concatenating shot vectors = concatenating lists
              /\ RLE(UnRLE(RLE(l1) \o RLE(l2))) = RLE(s)
              /\ Add(Add(l1, l2), l1) = Add(l1, Add(l2, l1))
              /\ \A i \in 1..Len(l1) : bs[i] = b1[i]
              /\ \A i \in 1..Len(l2) : bs[Len(l1) + i] = <<b2[i][1] + t1, b2[i][2] + t1>>
LawScale(l, p, q) == LET s == Scale(l, p, q) IN
              /\ Len(s) = Len(l)
              /\ Scale(l, 1, 1) = l
              /\ \A i \in 1..Len(l) : q * s[i] <= l[i] * p /\ l[i] * p < q * (s[i] + 1)
              /\ (q = 1 => Sum(s) = p * Sum(l))
              /\ (q = 1 => Scale(s, 2, 1) = Scale(l, 2 * p, 1))
              /\ (p >= q => \A i \in 1..Len(l) : s[i] >= l[i])
              /\ Scale(l, 2 * p, 2 * q) = s
=============================================================================
