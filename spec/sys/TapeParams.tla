----------------------------- MODULE TapeParams ------------------------------
(***************************************************************************)
(* Parameter bookkeeping of a quantum script (QuantumScript / QuantumTape): *)
(* a heap of tapes, each a sequence of operations and measurements whose    *)
(* numeric parameters are addressed in three ways that must agree:          *)
(*   * the flat parameter list      get_parameters(trainable_only=False)    *)
(*   * the per-parameter info       par_info[i] = (op_idx, p_idx)           *)
(*   * the trainable indices        trainable_params (a set of flat indices)*)
(* and bind_new_parameters(values, indices), which addresses by flat index. *)
(*                                                                         *)
(* Written from the documentation of QuantumScript: "parameters are given  *)
(* in order of appearance", par_info lists (operation, operation index,    *)
(* argument index) of the operations and of the measured observables that  *)
(* have parameters, bind_new_parameters returns "a new tape containing the *)
(* new parameters at the provided indices, with the parameters at all other*)
(* indices remaining the same", copy returns an independent tape.          *)
(*                                                                         *)
(* A tape is  [ops : Seq(Op), meas : Seq(Op), tr : SUBSET Nat, shots : Nat] *)
(* an Op is   [k : STRING, v : Seq(Int), sub : Seq(Op)]   (k = gate /        *)
(* observable kind, v = its OWN parameters, abstract integers: the driver  *)
(* maps v to 0.1*v, the reserved value PiHalf to pi/2; sub = its operands). *)
(* Operators nest: "Ham" (linear combination: v = one coefficient per term, *)
(* sub = the terms), "SProd" (v = <<scalar>>, sub = <<base>>), "Sum" /      *)
(* "Prod" (v = <<>>, sub = operands), "Adjoint" (sub = <<base>>); every     *)
(* operand may itself carry any number of parameters.  The parameters of    *)
(* an operator, "in order of appearance", are (Paths): for a linear        *)
(* combination, term by term, the coefficient followed by the parameters   *)
(* of the term; for every other operator its own parameters followed by    *)
(* the parameters of its operands in order.  A parameter is addressed by   *)
(* its PATH in the operator tree, never by offset arithmetic.              *)
(* One action per public call: Construct (Init), Copy, CopyTr, CopyShots,  *)
(* CopyOps, Bind, BindCur, SetTrainable, Expand.  Tapes are never changed  *)
(* after creation except by SetTrainable on the addressed tape.            *)
(***************************************************************************)
EXTENDS Integers, Sequences, FiniteSets, TLC
CONSTANTS Bases,        \* set of initial tapes
          MaxSteps, MaxTapes
VARIABLES heap,         \* sequence of tapes: tape id = position
          hist          \* sequence of step records (the history, with the spec's expected outcome)
vars == <<heap, hist>>

PiHalf == 999
Prim == {"RX", "RY", "RZ", "CNOT", "PhaseShift"}

\* ------------------------------------------------------------------ helpers
Abs(x) == IF x < 0 THEN -x ELSE x
RECURSIVE SortedSeq(_)
SortedSeq(S) == IF S = {} THEN <<>> ELSE LET m == CHOOSE x \in S : \A y \in S : x <= y IN <<m>> \o SortedSeq(S \ {m})
SeqSet(s) == {s[i] : i \in 1..Len(s)}
RangeSeq(n) == [i \in 1..n |-> i - 1]                        \* <<0, 1, ..., n-1>>

\* ------------------------------------------------------------------ parameters of one (possibly nested) operator
\* a path is <<0, j>> (own parameter j) or <<i>> \o path (descend into operand i)
RECURSIVE Paths(_), PathsFrom(_, _)
PathsFrom(op, i) == IF i > Len(op.sub) THEN <<>>
                    ELSE LET ps == Paths(op.sub[i]) IN
                         (IF op.k = "Ham" THEN << <<0, i>> >> ELSE <<>>) \o [j \in 1..Len(ps) |-> <<i>> \o ps[j]] \o PathsFrom(op, i + 1)
Paths(op) == (IF op.k = "Ham" THEN <<>> ELSE [j \in 1..Len(op.v) |-> <<0, j>>]) \o PathsFrom(op, 1)
RECURSIVE Get(_, _), Put(_, _, _)
Get(op, p) == IF p[1] = 0 THEN op.v[p[2]] ELSE Get(op.sub[p[1]], Tail(p))
Put(op, p, x) == IF p[1] = 0 THEN [op EXCEPT !.v[p[2]] = x] ELSE [op EXCEPT !.sub[p[1]] = Put(@, Tail(p), x)]
\* op.data: the parameters of the operator in order of appearance
Data(op) == LET ps == TLCEval(Paths(op)) IN TLCEval([j \in 1..Len(ps) |-> Get(op, ps[j])])
RECURSIVE Shape(_)
Shape(op) == [k |-> op.k, n |-> Len(op.v), sub |-> [i \in 1..Len(op.sub) |-> Shape(op.sub[i])]]
WellFormed(op) == /\ (op.k = "Ham" => Len(op.v) = Len(op.sub)) /\ (op.k = "SProd" => Len(op.v) = 1 /\ Len(op.sub) = 1)
                  /\ (op.k \in {"Sum", "Prod", "Adjoint"} => op.v = <<>> /\ Len(op.sub) >= 1)
Nested(op) == op.sub # <<>>
\* an operand that carries more than one parameter and is followed by further parameters of the same operator
RECURSIVE DeepLayout(_)
DeepLayout(op) == \/ \E i, j \in 1..Len(op.sub) : i < j /\ Len(Data(op.sub[i])) >= 2 /\ (op.k = "Ham" \/ Len(Data(op.sub[j])) >= 1)
                  \/ \E i \in 1..Len(op.sub) : DeepLayout(op.sub[i])

RECURSIVE FlatFrom(_, _)
FlatFrom(c, i) == IF i > Len(c) THEN <<>> ELSE Data(c[i]) \o FlatFrom(c, i + 1)
Flat(c) == FlatFrom(c, 1)

\* ------------------------------------------------------------------ the three views
Circuit(t) == t.ops \o t.meas
\* par_info: for every operation, then every measured observable, one entry per parameter: <<op_idx, p_idx>> (0-based)
RECURSIVE ParInfoFrom(_, _)
ParInfoFrom(c, i) == IF i > Len(c) THEN <<>>
                     ELSE [p \in 1..Len(Data(c[i])) |-> <<i - 1, p - 1>>] \o ParInfoFrom(c, i + 1)
ParInfo(t) == TLCEval(ParInfoFrom(Circuit(t), 1))
NumPar(t) == Len(ParInfo(t))
ValAt(t, a) == Data(Circuit(t)[a[1] + 1])[a[2] + 1]
\* get_parameters(trainable_only=False): in order of appearance (AllParamsByInfo: the same read through par_info)
AllParams(t) == TLCEval(Flat(Circuit(t)))
AllParamsByInfo(t) == LET pi == ParInfo(t) IN TLCEval([i \in 1..Len(pi) |-> ValAt(t, pi[i])])
\* get_parameters(): the trainable ones, in order of appearance
TrainParams(t) == LET s == SortedSeq(t.tr) ap == AllParams(t) IN TLCEval([k \in 1..Len(s) |-> ap[s[k] + 1]])
\* get_parameters(operations_only=True): trainable parameters of operations only
OpsTrainParams(t) == LET s == SortedSeq({i \in t.tr : i < Len(Flat(t.ops))}) ap == AllParams(t) IN TLCEval([k \in 1..Len(s) |-> ap[s[k] + 1]])

\* bind_new_parameters(vals, idxs): idxs a sorted sequence of distinct flat indices, vals of the same length:
\* flat index -> par_info -> (operator, position in the operator's parameters) -> path -> the value at that path is replaced
RECURSIVE BindFrom(_, _, _, _, _)
BindFrom(c, pi, vals, idxs, k) ==
  IF k > Len(idxs) THEN c
  ELSE LET a == pi[idxs[k] + 1]
           ci == a[1] + 1
           op2 == Put(c[ci], Paths(c[ci])[a[2] + 1], vals[k])
       IN BindFrom([c EXCEPT ![ci] = op2], pi, vals, idxs, k + 1)
BindF(t, vals, idxs) ==
  LET c2 == TLCEval(BindFrom(Circuit(t), ParInfo(t), vals, idxs, 1))
  IN TLCEval([ops |-> SubSeq(c2, 1, Len(t.ops)), meas |-> SubSeq(c2, Len(t.ops) + 1, Len(c2)), tr |-> t.tr, shots |-> t.shots])

\* ------------------------------------------------------------------ expansion (documented decompositions)
Leaf(k, v) == [k |-> k, v |-> v, sub |-> <<>>]
Op1(k, a) == Leaf(k, <<a>>)
Rev(s) == [i \in 1..Len(s) |-> s[Len(s) + 1 - i]]
\* a product applies its operands right to left; the adjoint of a sequence is the reversed sequence of adjoints,
\* the adjoint of a rotation is the rotation by the negated angle
Decomp(op) ==
  CASE op.k = "Rot" -> <<Op1("RZ", op.v[1]), Op1("RY", op.v[2]), Op1("RZ", op.v[3])>>
    [] op.k = "U2"  -> <<Leaf("Rot", <<op.v[2], PiHalf, -op.v[2]>>), Op1("PhaseShift", op.v[2]), Op1("PhaseShift", op.v[1])>>
    [] op.k = "U3"  -> <<Leaf("Rot", <<op.v[3], op.v[1], -op.v[3]>>), Op1("PhaseShift", op.v[3]), Op1("PhaseShift", op.v[2])>>
    [] op.k = "IsingXX" -> <<Leaf("CNOT", <<>>), Op1("RX", op.v[1]), Leaf("CNOT", <<>>)>>
    [] op.k = "Prod" -> Rev(op.sub)
    [] op.k = "Adjoint" /\ op.sub[1].k \in {"RX", "RY", "RZ", "PhaseShift"} -> <<Op1(op.sub[1].k, -op.sub[1].v[1])>>
    [] op.k = "Adjoint" /\ op.sub[1].k = "CNOT" -> <<op.sub[1]>>
    [] op.k = "Adjoint" /\ op.sub[1].k = "Rot" ->
         <<Op1("RZ", -op.sub[1].v[3]), Op1("RY", -op.sub[1].v[2]), Op1("RZ", -op.sub[1].v[1])>>
    [] OTHER -> <<op>>
RECURSIVE ExpandOps(_)
ExpandOps(ops) == IF ops = <<>> THEN <<>>
                  ELSE (IF Head(ops).k \in Prim \/ Decomp(Head(ops)) = <<Head(ops)>> THEN <<Head(ops)>> ELSE ExpandOps(Decomp(Head(ops)))) \o ExpandOps(Tail(ops))
\* the parameters of t are told apart by their absolute value (needed to trace a parameter through an expansion)
DistinctAbs(t) == LET ap == AllParams(t) IN /\ \A i, j \in 1..Len(ap) : i # j => Abs(ap[i]) # Abs(ap[j])
                                            /\ \A i \in 1..Len(ap) : Abs(ap[i]) # PiHalf
\* a parameter of the expanded circuit is trainable iff it derives from a trainable parameter of the original
DerivedTrainable(told, allnew) == LET ap == AllParams(told) IN
  {j \in 0..Len(allnew) - 1 : \E i \in told.tr : Abs(allnew[j + 1]) = Abs(ap[i + 1])}
ExpandF(t) == LET t1 == [ops |-> ExpandOps(t.ops), meas |-> t.meas, tr |-> {}, shots |-> t.shots]
              IN TLCEval([t1 EXCEPT !.tr = DerivedTrainable(t, AllParams(t1))])

\* ------------------------------------------------------------------ projection emitted to / compared with the code
Proj(t) == [ops |-> t.ops, meas |-> t.meas, tr |-> SortedSeq(t.tr), shots |-> t.shots,
            pi |-> ParInfo(t), all |-> AllParams(t), tp |-> TrainParams(t), otp |-> OpsTrainParams(t)]

\* ------------------------------------------------------------------ actions
Init == \E b \in Bases : heap = <<b>> /\ hist = <<[a |-> "construct", t |-> 0, arg |-> <<>>, vals |-> <<>>, res |-> "ok", new |-> 1, exp |-> Proj(b)]>>

Step(a, t, arg, vals, res, new, exp) == hist' = Append(hist, [a |-> a, t |-> t, arg |-> arg, vals |-> vals, res |-> res, new |-> new, exp |-> exp])
NewTape(a, t, arg, vals, nt0) == /\ Len(heap) < MaxTapes
                                 /\ \E nt \in {TLCEval(nt0)} :
                                      /\ heap' = Append(heap, nt)
                                      /\ Step(a, t, arg, vals, "ok", Len(heap) + 1, Proj(nt))

Ids == 1..Len(heap)
\* copy() / copy(copy_operations=True): an equal, independent tape
Copy(t, deep) == NewTape(IF deep THEN "copy_deep" ELSE "copy", t, <<>>, <<>>, heap[t])
\* copy(trainable_params=S)
TrFamily(n) == {{}, {0}, {n - 1}, {0, n - 1}, {i \in 0..n - 1 : i % 2 = 1}, 0..n - 1} \cap SUBSET (0..n - 1)
CopyTr(t, S) == NewTape("copy_tr", t, SortedSeq(S), <<>>, [heap[t] EXCEPT !.tr = S])
\* copy(shots=s)
CopyShots(t, s) == NewTape("copy_shots", t, <<s>>, <<>>, [heap[t] EXCEPT !.shots = s])
\* copy(operations=ops[:-1]): new operations; the trainable indices are recomputed (all parameters)
CopyOps(t) == LET t1 == [heap[t] EXCEPT !.ops = SubSeq(@, 1, Len(@) - 1)] IN
              /\ Len(heap[t].ops) >= 1
              /\ NewTape("copy_ops", t, <<>>, <<>>, [t1 EXCEPT !.tr = 0..NumPar(t1) - 1])
\* bind_new_parameters(fresh values, idxs)
BindFamily(t) == LET n == NumPar(heap[t]) IN
  ({<<i>> : i \in 0..n - 1} \cup {RangeSeq(n), SortedSeq(heap[t].tr), SortedSeq({0, n - 1} \cap (0..n - 1)), SortedSeq({i \in 0..n - 1 : i % 2 = 0})}) \ {<<>>}
Fresh(k) == 20 * Len(hist) + k            \* larger than every value in the heap: bases use 1..9, step s uses 20 s + 1 ..
Bind(t, idxs) == LET vals == [k \in 1..Len(idxs) |-> Fresh(k)] IN
                 NewTape("bind", t, idxs, vals, BindF(heap[t], vals, idxs))
\* binding the current parameters (all of them / the trainable ones): an equal tape
BindCur(t, which) == LET x == heap[t]
                         idxs == IF which = "all" THEN RangeSeq(NumPar(x)) ELSE SortedSeq(x.tr)
                         vals == IF which = "all" THEN AllParams(x) ELSE TrainParams(x) IN
                     NewTape(IF which = "all" THEN "bindcur_all" ELSE "bindcur_tr", t, idxs, vals, BindF(x, vals, idxs))
\* tape.trainable_params = S: accepted iff every index addresses a parameter
SetFamily(n) == TrFamily(n) \cup {{n}, {0, n + 1}, {-1}}
SetTrainable(t, S) ==
  IF S \subseteq 0..NumPar(heap[t]) - 1
  THEN /\ heap' = [heap EXCEPT ![t].tr = S]
       /\ Step("set_tr", t, SortedSeq(S), <<>>, "ok", t, Proj(heap'[t]))
  ELSE /\ heap' = heap
       /\ Step("set_tr", t, SortedSeq(S), <<>>, "ValueError", t, Proj(heap[t]))
\* decompose to the primitive gate set
Expand(t) == /\ DistinctAbs(heap[t])
             /\ NewTape("expand", t, <<>>, <<>>, ExpandF(heap[t]))

Next == /\ Len(hist) <= MaxSteps
        /\ \E t \in Ids :
             \/ \E d \in BOOLEAN : Copy(t, d)
             \/ \E S \in TrFamily(NumPar(heap[t])) : CopyTr(t, S)
             \/ CopyShots(t, 7)
             \/ CopyOps(t)
             \/ \E idxs \in BindFamily(t) : Bind(t, idxs)
             \/ \E w \in {"all", "tr"} : BindCur(t, w)
             \/ \E S \in SetFamily(NumPar(heap[t])) : SetTrainable(t, S)
             \/ Expand(t)

\* ------------------------------------------------------------------ invariants decided by TLC on the model
\* (1) the three views agree on every tape of every reachable heap
TapeOK(t) ==
  /\ \A i \in 1..Len(Circuit(t)) : WellFormed(Circuit(t)[i])
  /\ t.tr \subseteq 0..NumPar(t) - 1
  /\ AllParamsByInfo(t) = AllParams(t)
  /\ Len(TrainParams(t)) = Cardinality(t.tr)
  /\ \A k \in 1..Len(TrainParams(t)) : TrainParams(t)[k] = ValAt(t, ParInfo(t)[SortedSeq(t.tr)[k] + 1])
  /\ \A i \in 1..NumPar(t) : LET a == ParInfo(t)[i] IN a[1] < Len(Circuit(t)) /\ a[2] < Len(Data(Circuit(t)[a[1] + 1]))
  /\ \A i, j \in 1..NumPar(t) : i < j => (ParInfo(t)[i][1] < ParInfo(t)[j][1] \/ (ParInfo(t)[i][1] = ParInfo(t)[j][1] /\ ParInfo(t)[i][2] < ParInfo(t)[j][2]))
Consistent == \A i \in Ids : TapeOK(heap[i])
\* (2) binding the current parameters reproduces the tape
BindCurrentIdentity == \A i \in Ids : LET t == heap[i] IN
  /\ BindF(t, AllParams(t), RangeSeq(NumPar(t))) = t
  /\ BindF(t, TrainParams(t), SortedSeq(t.tr)) = t
\* (3) bind changes exactly the addressed slots (values) and nothing else (kinds, arities, trainable set, shots)
Last == hist[Len(hist)]
SameShape(x, y) == /\ Len(x.ops) = Len(y.ops) /\ Len(x.meas) = Len(y.meas)
                   /\ \A i \in 1..Len(Circuit(x)) : Shape(Circuit(x)[i]) = Shape(Circuit(y)[i])
BindExact == Last.a = "bind" =>
  LET old == heap[Last.t] new == heap[Last.new] IN
  /\ SameShape(old, new) /\ new.tr = old.tr /\ new.shots = old.shots
  /\ \A j \in 0..NumPar(old) - 1 :
       AllParams(new)[j + 1] = IF \E k \in 1..Len(Last.arg) : Last.arg[k] = j
                               THEN Last.vals[CHOOSE k \in 1..Len(Last.arg) : Last.arg[k] = j] ELSE AllParams(old)[j + 1]
\* (4) expansion: only primitive gates remain, measurements untouched, and exactly the parameters deriving from
\*     trainable parameters are trainable (every trainable parameter of the original is still represented)
ExpandOK == Last.a = "expand" =>
  LET old == heap[Last.t] new == heap[Last.new] IN
  /\ \A i \in 1..Len(new.ops) : new.ops[i].k \in Prim
  /\ new.meas = old.meas /\ new.tr \subseteq 0..NumPar(new) - 1
  /\ {Abs(AllParams(new)[j + 1]) : j \in new.tr} = {Abs(AllParams(old)[i + 1]) : i \in old.tr}
\* (5) copies are independent: no action changes an existing tape, except SetTrainable its own target
Frame == [][\A i \in Ids : (~(Last'.a = "set_tr" /\ Last'.t = i)) => heap'[i] = heap[i]]_vars
CopyEqual == Last.a \in {"copy", "copy_deep", "bindcur_all", "bindcur_tr"} => heap[Last.new] = heap[Last.t]
=============================================================================
