------------------------------ MODULE NoiseIns ------------------------------
(***************************************************************************)
(* C25: where add_noise / insert put their operations -- a model written   *)
(* from the documentation of qp.add_noise, qp.NoiseModel, the conditionals *)
(* in qp.noise and qp.noise.insert.                                        *)
(*                                                                         *)
(* object evaluated by a conditional                                       *)
(*   [k |-> "op",   g |-> gate name,  w |-> wires, a |-> lattice angle,    *)
(*                  np |-> number of parameters (0/1), prep |-> BOOLEAN]   *)
(*   [k |-> "meas", g |-> "expval" | "probs" | "var", w |-> wires, ...]    *)
(* conditional (uniform record [t, g, ws, th, l, r]):                      *)
(*   opeq  type equals g[1]            opin  type among g                  *)
(*   win   wires subset of ws          weq   wire set equals ws            *)
(*   pgt   has a parameter and it exceeds th (a user BooleanFn)            *)
(*   meq   measurement of return type g[1]                                 *)
(*   and / or / xor (l, r), not (l)    -- the bitwise combinations         *)
(* noise  [k, ch, ch2]:                                                    *)
(*   pw     partial_wires(ch): one ch per wire of the operation, after it  *)
(*   first  a noise function queuing ch on the first wire of the operation *)
(*   around a noise function queuing ch(first wire), the operation itself, *)
(*          ch2(last wire): custom queuing, noise before and after         *)
(* add_noise: for every operation, in circuit order, the conditionals of   *)
(* the model are evaluated in the order they appear; each one that holds   *)
(* adds its noise around what has been built for that operation so far.    *)
(* Readout noise: for every measurement the conditionals of meas_map that  *)
(* hold append their noise (one ch per measured wire) after all circuit    *)
(* operations, before that measurement only.                               *)
(* insert(op, position, before): "start" / "end" add the operation(s) on   *)
(* every wire of the tape (wire order of the tape) after the state         *)
(* preparations / after the last gate; "all" after every gate on each of   *)
(* its wires; a list of gate types: after (before = TRUE: before) every    *)
(* gate of one of these types, on each of its wires.                       *)
(*                                                                         *)
(* Output operations: [g, w, src]: src = i > 0 for the i-th operation of   *)
(* the input circuit, src = 0 for an inserted operation g on wires w.      *)
(***************************************************************************)
EXTENDS Integers, Sequences, FiniteSets, TLC

SeqSet(s) == {s[i] : i \in 1..Len(s)}

RECURSIVE Eval(_, _)
Eval(c, o) ==
  CASE c.t = "opeq" -> o.k = "op" /\ o.g = c.g[1]
    [] c.t = "opin" -> o.k = "op" /\ o.g \in SeqSet(c.g)
    [] c.t = "win"  -> SeqSet(o.w) \subseteq SeqSet(c.ws)
    [] c.t = "weq"  -> SeqSet(o.w) = SeqSet(c.ws)
    [] c.t = "pgt"  -> o.k = "op" /\ o.np = 1 /\ o.a > c.th
    [] c.t = "meq"  -> o.k = "meas" /\ o.g = c.g[1]
    [] c.t = "and"  -> Eval(c.l, o) /\ Eval(c.r, o)
    [] c.t = "or"   -> Eval(c.l, o) \/ Eval(c.r, o)
    [] c.t = "xor"  -> Eval(c.l, o) # Eval(c.r, o)
    [] c.t = "not"  -> ~Eval(c.l, o)

N(ch, w) == [g |-> ch, w |-> <<w>>, src |-> 0]
Orig(o, i) == [g |-> o.g, w |-> o.w, src |-> i]
NPre(nz, o) == IF nz.k = "around" THEN <<N(nz.ch, o.w[1])>> ELSE <<>>
NPost(nz, o) == CASE nz.k = "pw" -> [i \in 1..Len(o.w) |-> N(nz.ch, o.w[i])]
                  [] nz.k = "first" -> <<N(nz.ch, o.w[1])>>
                  [] nz.k = "around" -> <<N(nz.ch2, o.w[Len(o.w)])>>

\* what add_noise builds for one operation
OneOp(model, o, idx) ==
  LET F[j \in 0..Len(model)] == IF j = 0 THEN <<Orig(o, idx)>>
        ELSE IF Eval(model[j].c, o) THEN NPre(model[j].nz, o) \o F[j-1] \o NPost(model[j].nz, o) ELSE F[j-1]
  IN F[Len(model)]
AddNoise(circ, model) ==
  LET F[i \in 0..Len(circ)] == IF i = 0 THEN <<>> ELSE F[i-1] \o OneOp(model, circ[i], i) IN F[Len(circ)]
\* readout noise of one measurement
Readout(mmodel, m) ==
  LET F[j \in 0..Len(mmodel)] == IF j = 0 THEN <<>>
        ELSE IF Eval(mmodel[j].c, m) THEN F[j-1] \o [i \in 1..Len(m.w) |-> N(mmodel[j].nz.ch, m.w[i])] ELSE F[j-1]
  IN F[Len(mmodel)]
\* number of conditional hits (vacuity statistics)
Hits(circ, model) == Cardinality({<<i, j>> \in (1..Len(circ)) \X (1..Len(model)) : Eval(model[j].c, circ[i])})

-----------------------------------------------------------------------------
\* wires of a tape in order of first appearance: operations first, then measurements
Firsts(ws) == LET F[i \in 0..Len(ws)] == IF i = 0 THEN <<>> ELSE IF ws[i] \in SeqSet(F[i-1]) THEN F[i-1] ELSE Append(F[i-1], ws[i])
              IN F[Len(ws)]
Flat(objs) == LET F[i \in 0..Len(objs)] == IF i = 0 THEN <<>> ELSE F[i-1] \o objs[i].w IN F[Len(objs)]
TapeWires(circ, meas) == Firsts(Flat(circ) \o Flat(meas))
NPreps(circ) == LET F[i \in 0..Len(circ)] == IF i = 0 THEN 0 ELSE IF F[i-1] = i - 1 /\ circ[i].prep THEN i ELSE F[i-1] IN F[Len(circ)]
\* the inserted operation(s) nz (a sequence of names: a single operation or a quantum function) on each wire of ws
PerWires(nz, ws) == LET F[i \in 0..Len(ws)] == IF i = 0 THEN <<>> ELSE F[i-1] \o [t \in 1..Len(nz) |-> N(nz[t], ws[i])] IN F[Len(ws)]
Insert(circ, meas, cfg) ==
  LET np == NPreps(circ)
      tw == TapeWires(circ, meas)
      Body[i \in np..Len(circ)] ==
        IF i = np THEN <<>>
        ELSE LET o == circ[i]
                 hit == cfg.pos = "all" \/ (cfg.pos = "types" /\ o.g \in SeqSet(cfg.types))
                 nn == IF hit THEN PerWires(cfg.nz, o.w) ELSE <<>>
             IN Body[i-1] \o (IF cfg.before THEN nn \o <<Orig(o, i)>> ELSE <<Orig(o, i)>> \o nn)
  IN [i \in 1..np |-> Orig(circ[i], i)]
     \o (IF cfg.pos = "start" THEN PerWires(cfg.nz, tw) ELSE <<>>)
     \o Body[Len(circ)]
     \o (IF cfg.pos = "end" THEN PerWires(cfg.nz, tw) ELSE <<>>)
=============================================================================
