------------------------------ MODULE FromSamples ------------------------------
(***************************************************************************)
(* C30: statistics of an array of computational-basis samples, written as  *)
(* direct arithmetic on the array (the meaning the documentation of        *)
(* expval / var / probs / counts / sample gives to finite-shot results).   *)
(*                                                                         *)
(* A sample array X is a sequence of shots; a shot is a sequence of bits,  *)
(* one per position of the wire order.  A measurement process is a record  *)
(*   kind  : "probs" | "counts" | "expval" | "var" | "sample"              *)
(*   src   : what is read off a shot                                       *)
(*     "wires"  the bits at positions sel (<<>> = all wires), in that order *)
(*     "mvlist" a list of mid-circuit measurement values on positions sel  *)
(*     "eig"    ev[b], b the basis-state index of the bits at sel (first   *)
(*              wire = most significant bit), ev a table of rationals      *)
(*     "obs"    sum_t c_t prod_{w in ws_t} z_w, z = 1 - 2 bit  (a diagonal *)
(*              observable: linear combination of Pauli-Z words)           *)
(*     "proj"   1 if the bits at sel equal st, else 0 (basis projector)    *)
(*     "mv"     sum_t c_t prod_{w in ws_t} bit_w (arithmetic on mid-       *)
(*              circuit measurement values; m & n = m*n, ~m = 1 - m, ...)  *)
(*   ao    : all_outcomes (counts)                                         *)
(* Rationals are normalised pairs <<n, d>> (Rat.tla).                      *)
(*                                                                         *)
(* Two independent definitions: from the shots (Result) and from the       *)
(* dictionary of full-width counts (ResultC); FromSamplesGen checks that   *)
(* they agree on every enumerated array.                                   *)
(***************************************************************************)
EXTENDS Rat, FiniteSets, TLC

RECURSIVE Pow2(_)
Pow2(k) == IF k = 0 THEN 1 ELSE 2 * Pow2(k - 1)
Iota(n) == [j \in 1..n |-> j]

\* basis-state index of the bits of `row` at positions sel; sel[1] is the most significant bit
RECURSIVE IdxUpTo(_, _, _)
IdxUpTo(row, sel, j) == IF j = 0 THEN 0 ELSE 2 * IdxUpTo(row, sel, j - 1) + row[sel[j]]
Index(row, sel) == IdxUpTo(row, sel, Len(sel))
\* the k-bit binary expansion of b, most significant bit first
BitsOf(b, k) == [j \in 1..k |-> (b \div Pow2(k - j)) % 2]

BitKind(mp) == mp.src \in {"wires", "mvlist"}             \* outcomes are bit strings; otherwise rational values
SelOf(mp, nw) == IF mp.sel = <<>> THEN Iota(nw) ELSE mp.sel

(* ------------------------------ value of one shot ---------------------- *)
RECURSIVE Mono(_, _, _, _)
Mono(ws, row, z, j) == IF j = 0 THEN 1 ELSE Mono(ws, row, z, j - 1) * (IF z THEN 1 - 2 * row[ws[j]] ELSE row[ws[j]])
RECURSIVE PolyUpTo(_, _, _, _)
PolyUpTo(terms, row, z, k) ==
  IF k = 0 THEN RZero
  ELSE RAdd(PolyUpTo(terms, row, z, k - 1), RMul(terms[k].c, RInt(Mono(terms[k].ws, row, z, Len(terms[k].ws)))))
ShotVal(mp, row) ==
  CASE mp.src = "eig"  -> mp.ev[Index(row, mp.sel) + 1]
    [] mp.src = "obs"  -> PolyUpTo(mp.terms, row, TRUE, Len(mp.terms))
    [] mp.src = "mv"   -> PolyUpTo(mp.terms, row, FALSE, Len(mp.terms))
    [] mp.src = "proj" -> IF \A j \in 1..Len(mp.sel) : row[mp.sel[j]] = mp.st[j] THEN ROne ELSE RZero
\* every value the measurement can take on nw wires (the outcome set of all_outcomes)
ValueDomain(mp, nw) == {ShotVal(mp, BitsOf(f, nw)) : f \in 0..(Pow2(nw) - 1)}

(* ------------------------------ from the shots ------------------------- *)
RECURSIVE RSumUpTo(_, _)
RSumUpTo(v, k) == IF k = 0 THEN RZero ELSE RAdd(RSumUpTo(v, k - 1), v[k])
Mean(v) == RDiv(RSumUpTo(v, Len(v)), RInt(Len(v)))
Vals(mp, X) == [i \in 1..Len(X) |-> ShotVal(mp, X[i])]
Expval(mp, X) == Mean(TLCEval(Vals(mp, X)))
\* variance = mean squared deviation from the mean (population variance, as numpy.var)
Variance(mp, X) ==
  LET v == TLCEval(Vals(mp, X))  m == Mean(v)
  IN Mean([i \in 1..Len(v) |-> RMul(RSub(v[i], m), RSub(v[i], m))])
\* the textbook identity, used as a model invariant
VarianceAlt(mp, X) ==
  LET v == TLCEval(Vals(mp, X))  m == Mean(v)
  IN RSub(Mean([i \in 1..Len(v) |-> RMul(v[i], v[i])]), RMul(m, m))

BitCount(X, sel, b) == Cardinality({i \in 1..Len(X) : Index(X[i], sel) = b})
ProbsVec(X, sel) == [b \in 1..Pow2(Len(sel)) |-> RNorm(BitCount(X, sel, b - 1), Len(X))]
\* counts as sets of <<outcome index, count>> resp. <<value num, value den, count>>
BitCounts(X, sel, ao) ==
  {p \in {<<b, BitCount(X, sel, b)>> : b \in 0..(Pow2(Len(sel)) - 1)} : ao \/ p[2] > 0}
ValCounts(mp, X, nw) ==
  LET v == TLCEval(Vals(mp, X))
      seen == {v[i] : i \in 1..Len(v)}
      keys == IF mp.ao THEN ValueDomain(mp, nw) \cup seen ELSE seen
  IN {<<q[1], q[2], Cardinality({i \in 1..Len(v) : v[i] = q})>> : q \in keys}
BitRows(X, sel) == [i \in 1..Len(X) |-> [j \in 1..Len(sel) |-> X[i][sel[j]]]]

\* the result of measurement process mp on the shots X (nw wires).  counts: a set; everything else a sequence / a rational
Result(mp, X, nw) ==
  CASE mp.kind = "probs"  -> ProbsVec(X, SelOf(mp, nw))
    [] mp.kind = "counts" -> IF BitKind(mp) THEN BitCounts(X, SelOf(mp, nw), mp.ao) ELSE ValCounts(mp, X, nw)
    [] mp.kind = "expval" -> Expval(mp, X)
    [] mp.kind = "var"    -> Variance(mp, X)
    [] mp.kind = "sample" -> IF BitKind(mp) THEN BitRows(X, SelOf(mp, nw)) ELSE Vals(mp, X)

\* shot_range = (lo, hi), Python convention (0-based, half open): shots lo+1 .. hi
ShotRange(X, lo, hi) == SubSeq(X, lo + 1, hi)
\* bins of size bs: consecutive shots, or (the other partition into bins of that size an implementation may use) strided
BinsContig(X, bs) == [b \in 1..(Len(X) \div bs) |-> SubSeq(X, (b - 1) * bs + 1, b * bs)]
BinsStrided(X, bs) == LET nb == Len(X) \div bs IN [b \in 1..nb |-> [k \in 1..bs |-> X[(k - 1) * nb + b]]]

(* ------------------------------ from the counts dictionary ------------- *)
\* C[f + 1] = number of shots whose full bit string (all nw wires, wire order) has index f
FullCounts(X, nw) == [f \in 1..Pow2(nw) |-> BitCount(X, Iota(nw), f - 1)]
RECURSIVE ISumUpTo(_, _)
ISumUpTo(c, k) == IF k = 0 THEN 0 ELSE ISumUpTo(c, k - 1) + c[k]
Total(C) == ISumUpTo(C, Len(C))
\* weighted mean of g(f) over the dictionary
RECURSIVE WSumUpTo(_, _, _)
WSumUpTo(C, g, k) == IF k = 0 THEN RZero ELSE RAdd(WSumUpTo(C, g, k - 1), RMul(RInt(C[k]), g[k]))
WMean(C, g) == RDiv(WSumUpTo(C, g, Len(C)), RInt(Total(C)))
MargCount(C, nw, sel, b) ==
  LET hit == [f \in 1..Len(C) |-> IF Index(BitsOf(f - 1, nw), sel) = b THEN C[f] ELSE 0] IN ISumUpTo(hit, Len(C))
ValCount(mp, C, nw, q) ==
  LET hit == [f \in 1..Len(C) |-> IF ShotVal(mp, BitsOf(f - 1, nw)) = q THEN C[f] ELSE 0] IN ISumUpTo(hit, Len(C))
ResultC(mp, C, nw) ==
  LET sel == SelOf(mp, nw)
      g == TLCEval([f \in 1..Len(C) |-> IF BitKind(mp) THEN RZero ELSE ShotVal(mp, BitsOf(f - 1, nw))])
  IN
  CASE mp.kind = "probs"  -> [b \in 1..Pow2(Len(sel)) |-> RNorm(MargCount(C, nw, sel, b - 1), Total(C))]
    [] mp.kind = "counts" ->
         IF BitKind(mp)
         THEN {p \in {<<b, MargCount(C, nw, sel, b)>> : b \in 0..(Pow2(Len(sel)) - 1)} : mp.ao \/ p[2] > 0}
         ELSE LET seen == {g[f] : f \in {h \in 1..Len(C) : C[h] > 0}}
                  keys == IF mp.ao THEN ValueDomain(mp, nw) \cup seen ELSE seen
              IN {<<q[1], q[2], ValCount(mp, C, nw, q)>> : q \in keys}
    [] mp.kind = "expval" -> WMean(C, g)
    [] mp.kind = "var"    -> LET m == WMean(C, g) IN WMean(C, [f \in 1..Len(C) |-> RMul(RSub(g[f], m), RSub(g[f], m))])

(* ------------------------------ laws of the specification -------------- *)
RECURSIVE SumLast(_)
SumLast(T) == IF T = {} THEN 0 ELSE LET p == CHOOSE q \in T : TRUE IN p[Len(p)] + SumLast(T \ {p})
Laws(mp, X, nw) ==
  LET r == TLCEval(Result(mp, X, nw)) IN
  CASE mp.kind = "probs"  -> /\ RSumUpTo(r, Len(r)) = ROne
                             /\ r = ResultC(mp, FullCounts(X, nw), nw)
    [] mp.kind = "counts" -> /\ SumLast(r) = Len(X)
                             /\ r = ResultC(mp, FullCounts(X, nw), nw)
                             /\ LET obs == {p \in r : p[Len(p)] > 0} IN
                                  obs = Result([mp EXCEPT !.ao = FALSE], X, nw)
    [] mp.kind = "expval" -> r = ResultC(mp, FullCounts(X, nw), nw)
    [] mp.kind = "var"    -> /\ r = ResultC(mp, FullCounts(X, nw), nw)
                             /\ r = VarianceAlt(mp, X)
                             /\ r[1] >= 0
                             /\ (r[1] = 0) = (\A i \in 1..Len(X) : ShotVal(mp, X[i]) = ShotVal(mp, X[1]))
    [] mp.kind = "sample" -> Len(r) = Len(X)
=============================================================================
