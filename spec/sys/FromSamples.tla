------------------------------ MODULE FromSamples ------------------------------
(***************************************************************************)
(* C30: statistics of an array of computational-basis samples, written as  *)
(* direct arithmetic on the array (the meaning the documentation of        *)
(* expval / var / probs / counts / sample gives to finite-shot results).   *)
(*                                                                         *)
(* A shot is a sequence of nw bits, one per position of the wire order; it *)
(* is identified with its basis-state index (first wire = most significant *)
(* bit).  A sample array is the sequence ix of the shots' indices + 1.     *)
(* A measurement process is a record                                       *)
(*   kind  : "probs" | "counts" | "expval" | "var" | "sample"              *)
(*   src   : what is read off a shot                                       *)
(*     "wires"  the bits at positions sel (<<>> = all wires), in that order *)
(*     "mvlist" a list of mid-circuit measurement values on positions sel  *)
(*     "eig"    ev[b + 1], b the index of the bits at sel, ev a table of   *)
(*              rationals (eigenvalues in computational-basis order)       *)
(*     "obs"    sum_t c_t prod_{w in ws_t} z_w, z = 1 - 2 bit  (a diagonal *)
(*              observable: linear combination of Pauli-Z words)           *)
(*     "proj"   1 if the bits at sel equal st, else 0 (basis projector)    *)
(*     "herm"   a Hermitian observable given as a matrix on the wires sel, *)
(*              whose spectrum (with multiplicity, in ANY order) is ev:    *)
(*              the samples are taken in its eigenbasis and outcome b is   *)
(*              the b-th smallest eigenvalue (eigenvalues of a Hermitian   *)
(*              matrix are listed in ascending order), i.e. SortAsc(ev)[b+1] *)
(*     "mv"     sum_t c_t prod_{w in ws_t} bit_w (arithmetic on mid-       *)
(*              circuit measurement values; m & n = m*n, ~m = 1 - m, ...)  *)
(*   ao    : all_outcomes (counts)                                         *)
(* Rationals are normalised pairs <<n, d>> (Rat.tla).                      *)
(*                                                                         *)
(* Compile tabulates, once per measurement process, the outcome of every   *)
(* possible shot: the index of the selected bits ("wires" / "mvlist") or   *)
(* the value ShotVal as an integer numerator over the common denominator   *)
(* den of the process' values.  Result is then plain integer arithmetic    *)
(* over the shots; ResultC is the same statistic computed from the         *)
(* dictionary of full-width counts (what process_counts is given).         *)
(***************************************************************************)
EXTENDS Rat, FiniteSets, TLC

RECURSIVE Pow2(_)
Pow2(k) == IF k = 0 THEN 1 ELSE 2 * Pow2(k - 1)
Iota(n) == [j \in 1..n |-> j]

\* basis-state index of the bits of `row` at positions sel; sel[1] is the most significant bit
RECURSIVE IdxUpTo(_, _, _)
IdxUpTo(row, sel, j) == IF j = 0 THEN 0 ELSE 2 * IdxUpTo(row, sel, j - 1) + row[sel[j]]
Index(row, sel) == IdxUpTo(row, sel, Len(sel))
\* the k-bit binary expansion of b, most significant bit first
BitsOf(b, k) == [j \in 1..k |-> (b \div Pow2(k - j)) % 2]

BitKind(mp) == mp.src \in {"wires", "mvlist"}             \* outcomes are bit strings; otherwise rational values
SelOf(mp, nw) == IF mp.sel = <<>> THEN Iota(nw) ELSE mp.sel

(* ------------------------------ value of one shot ---------------------- *)
\* the rationals of qs in ascending order (with multiplicity)
RECURSIVE SortAsc(_)
SortAsc(qs) ==
  IF qs = <<>> THEN <<>>
  ELSE LET i == CHOOSE i \in 1..Len(qs) : \A j \in 1..Len(qs) : ~RLess(qs[j], qs[i])
       IN <<qs[i]>> \o SortAsc([j \in 1..(Len(qs) - 1) |-> IF j < i THEN qs[j] ELSE qs[j + 1]])
\* law of SortAsc: ascending, and every value occurs as often as in qs
SortLaw(qs) == LET s == SortAsc(qs) IN
  /\ Len(s) = Len(qs)
  /\ \A j \in 1..(Len(s) - 1) : ~RLess(s[j + 1], s[j])
  /\ \A j \in 1..Len(qs) : Cardinality({i \in 1..Len(qs) : qs[i] = qs[j]}) = Cardinality({i \in 1..Len(s) : s[i] = qs[j]})
RECURSIVE Mono(_, _, _, _)
Mono(ws, row, z, j) == IF j = 0 THEN 1 ELSE Mono(ws, row, z, j - 1) * (IF z THEN 1 - 2 * row[ws[j]] ELSE row[ws[j]])
RECURSIVE PolyUpTo(_, _, _, _)
PolyUpTo(terms, row, z, k) ==
  IF k = 0 THEN RZero
  ELSE RAdd(PolyUpTo(terms, row, z, k - 1), RMul(terms[k].c, RInt(Mono(terms[k].ws, row, z, Len(terms[k].ws)))))
ShotVal(mp, row) ==
  CASE mp.src = "eig"  -> mp.ev[Index(row, mp.sel) + 1]
    [] mp.src = "obs"  -> PolyUpTo(mp.terms, row, TRUE, Len(mp.terms))
    [] mp.src = "mv"   -> PolyUpTo(mp.terms, row, FALSE, Len(mp.terms))
    [] mp.src = "herm" -> SortAsc(mp.ev)[Index(row, mp.sel) + 1]
    [] mp.src = "proj" -> IF \A j \in 1..Len(mp.sel) : row[mp.sel[j]] = mp.st[j] THEN ROne ELSE RZero

\* the outcome of every possible shot: tab[f + 1] for the shot with index f
Compile(mp, nw) ==
  LET sel == SelOf(mp, nw)
      rows == TLCEval([f \in 1..Pow2(nw) |-> TLCEval(BitsOf(f - 1, nw))])
      vals == IF BitKind(mp) THEN <<>> ELSE TLCEval([f \in 1..Pow2(nw) |-> ShotVal(mp, rows[f])])
      D == IF BitKind(mp) THEN 1 ELSE CommonDen(vals)
  IN [kind |-> mp.kind, bit |-> BitKind(mp), ao |-> mp.ao, nw |-> nw, sel |-> sel, k |-> Len(sel), den |-> D,
      tab |-> IF BitKind(mp) THEN [f \in 1..Pow2(nw) |-> Index(rows[f], sel)] ELSE NumsOver(vals, D)]

(* ------------------------------ from the shots ------------------------- *)
RECURSIVE ISumUpTo(_, _)
ISumUpTo(c, k) == IF k = 0 THEN 0 ELSE ISumUpTo(c, k - 1) + c[k]
ISum(c) == ISumUpTo(c, Len(c))
Outcomes(cm, ix) == [i \in 1..Len(ix) |-> cm.tab[ix[i]]]
Times(out, v) == Cardinality({i \in 1..Len(out) : out[i] = v})
KeyCount(n, D, c) == LET q == RNorm(n, D) IN <<q[1], q[2], c>>

\* out = Outcomes(cm, ix), an explicit sequence
Probs(cm, out) == [b \in 1..Pow2(cm.k) |-> RNorm(Times(out, b - 1), Len(out))]
Counts(cm, out) ==
  IF cm.bit THEN {p \in {<<b, Times(out, b)>> : b \in 0..(Pow2(cm.k) - 1)} : cm.ao \/ p[2] > 0}
  ELSE LET seen == {out[i] : i \in 1..Len(out)}
           keys == IF cm.ao THEN seen \cup {cm.tab[f] : f \in 1..Len(cm.tab)} ELSE seen
       IN {KeyCount(n, cm.den, Times(out, n)) : n \in keys}
Expval(cm, out) == RNorm(ISum(out), cm.den * Len(out))
\* variance = mean squared deviation from the mean (population variance): with v_i = n_i / D and mean T / (D N),
\* sum_i (v_i - mean)^2 / N = sum_i (N n_i - T)^2 / (D^2 N^3)
Variance(cm, out) ==
  LET N == Len(out)  T == ISum(out)
      dev == [i \in 1..N |-> (N * out[i] - T) * (N * out[i] - T)]
  IN RNorm(ISum(dev), cm.den * cm.den * N * N * N)
\* the textbook identity E[x^2] - E[x]^2 = (N sum n_i^2 - T^2) / (D^2 N^2), used as a law
VarianceAlt(cm, out) ==
  LET N == Len(out)  T == ISum(out)
  IN RNorm(N * ISum([i \in 1..N |-> out[i] * out[i]]) - T * T, cm.den * cm.den * N * N)
Samples(cm, ix, out) ==
  IF cm.bit THEN [i \in 1..Len(ix) |-> LET row == BitsOf(ix[i] - 1, cm.nw) IN [j \in 1..cm.k |-> row[cm.sel[j]]]]
  ELSE [i \in 1..Len(out) |-> RNorm(out[i], cm.den)]

\* the result of the compiled measurement process cm on the shots ix.  counts: a set of <<outcome index, count>> resp.
\* <<value num, value den, count>>; probs / sample: a sequence; expval / var: a rational
Result(cm, ix) ==
  LET out == TLCEval(Outcomes(cm, ix)) IN
  CASE cm.kind = "probs"  -> Probs(cm, out)
    [] cm.kind = "counts" -> Counts(cm, out)
    [] cm.kind = "expval" -> Expval(cm, out)
    [] cm.kind = "var"    -> Variance(cm, out)
    [] cm.kind = "sample" -> Samples(cm, ix, out)

\* shots given as bit rows -> indices + 1
IndicesOf(X, nw) == [i \in 1..Len(X) |-> Index(X[i], Iota(nw)) + 1]
\* shot_range = (lo, hi), Python convention (0-based, half open): shots lo+1 .. hi
ShotRange(ix, lo, hi) == SubSeq(ix, lo + 1, hi)
\* bins of size bs: consecutive shots, or (the other partition into bins of that size an implementation may use) strided
BinsContig(ix, bs) == [b \in 1..(Len(ix) \div bs) |-> SubSeq(ix, (b - 1) * bs + 1, b * bs)]
BinsStrided(ix, bs) == LET nb == Len(ix) \div bs IN [b \in 1..nb |-> [k \in 1..bs |-> ix[(k - 1) * nb + b]]]

(* ------------------------------ from the counts dictionary ------------- *)
\* C[f] = number of shots with index f - 1 (full width, wire order)
FullCounts(ix, nw) == [f \in 1..Pow2(nw) |-> Cardinality({i \in 1..Len(ix) : ix[i] = f})]
\* number of shots whose outcome is v
Weight(cm, C, v) == ISum([f \in 1..Len(C) |-> IF cm.tab[f] = v THEN C[f] ELSE 0])
ResultC(cm, C) ==
  LET N == ISum(C) IN
  CASE cm.kind = "probs"  -> [b \in 1..Pow2(cm.k) |-> RNorm(Weight(cm, C, b - 1), N)]
    [] cm.kind = "counts" ->
         IF cm.bit THEN {p \in {<<b, Weight(cm, C, b)>> : b \in 0..(Pow2(cm.k) - 1)} : cm.ao \/ p[2] > 0}
         ELSE LET seen == {cm.tab[f] : f \in {h \in 1..Len(C) : C[h] > 0}}
                  keys == IF cm.ao THEN seen \cup {cm.tab[f] : f \in 1..Len(cm.tab)} ELSE seen
              IN {KeyCount(n, cm.den, Weight(cm, C, n)) : n \in keys}
    [] cm.kind = "expval" -> RNorm(ISum([f \in 1..Len(C) |-> C[f] * cm.tab[f]]), cm.den * N)
    [] cm.kind = "var"    ->
         LET T == ISum([f \in 1..Len(C) |-> C[f] * cm.tab[f]])
         IN RNorm(ISum([f \in 1..Len(C) |-> C[f] * (N * cm.tab[f] - T) * (N * cm.tab[f] - T)]), cm.den * cm.den * N * N * N)

(* ------------------------------ laws of the specification -------------- *)
RECURSIVE SumLast(_)
SumLast(T) == IF T = {} THEN 0 ELSE LET p == CHOOSE q \in T : TRUE IN p[Len(p)] + SumLast(T \ {p})
RECURSIVE RSumUpTo(_, _)
RSumUpTo(v, k) == IF k = 0 THEN RZero ELSE RAdd(RSumUpTo(v, k - 1), v[k])
\* the measurement process whose value on every shot is minus the value of cm (value kinds): the expectation value and every
\* sampled value / counts key change sign (in particular the table <<-1, 1>> is not the table <<1, -1>>), the variance does not
Negated(cm) == [cm EXCEPT !.tab = [f \in 1..Len(cm.tab) |-> -cm.tab[f]]]
\* r = Result(cm, ix), C = FullCounts(ix, cm.nw)
Laws(cm, ix, r, C) ==
  CASE cm.kind = "probs"  -> /\ RSumUpTo(r, Len(r)) = ROne
                             /\ r = ResultC(cm, C)
    [] cm.kind = "counts" -> /\ SumLast(r) = Len(ix)
                             /\ r = ResultC(cm, C)
                             /\ (~cm.bit => Result(Negated(cm), ix) = {<<-p[1], p[2], p[3]>> : p \in r})
                             /\ {p \in r : p[Len(p)] > 0} = Result([cm EXCEPT !.ao = FALSE], ix)
    [] cm.kind = "expval" -> /\ r = ResultC(cm, C)
                             /\ Result(Negated(cm), ix) = RNeg(r)
    [] cm.kind = "var"    -> /\ r = ResultC(cm, C)
                             /\ Result(Negated(cm), ix) = r
                             /\ r = VarianceAlt(cm, TLCEval(Outcomes(cm, ix)))
                             /\ r[1] >= 0
                             /\ (r[1] = 0) = (\A i \in 1..Len(ix) : cm.tab[ix[i]] = cm.tab[ix[1]])
    [] cm.kind = "sample" -> Len(r) = Len(ix)
=============================================================================
