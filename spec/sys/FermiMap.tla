------------------------------ MODULE FermiMap ------------------------------
(***************************************************************************)
(* FERMION-TO-QUBIT MAPPINGS (C53; used by C69 for the fermionic models).  *)
(* Pure operators on top of the exact Pauli algebra (PauliAlg, M = 3).     *)
(*                                                                         *)
(* DATA                                                                    *)
(*  ladder letter  <<j, t>>: mode j in 1..n (PennyLane orbital j-1),       *)
(*                 t = 1 creation a_j^dagger, t = 0 annihilation a_j       *)
(*  fermi word     sequence of ladder letters (operator product, left to   *)
(*                 right); <<>> is the identity                            *)
(*  fermi terms    sequence of records [w |-> fermi word, c |-> <<re,im,k>>]*)
(*  encoding       binary n x n matrix B (B[i][j], qubit i, mode j): the   *)
(*                 occupation vector f is stored as the qubit basis state  *)
(*                 q = B f over GF(2)                                      *)
(*                                                                         *)
(* DEFINITIONS (each written from its textbook / documented statement)     *)
(*  JWLetter   a_j = Z_1..Z_{j-1} (X_j + iY_j)/2, a_j^dagger = ... (X-iY)/2 *)
(*  ParLetter  the parity mapping as printed in the documentation:         *)
(*             a_j^dagger = (Z_{j-1} X_j - iY_j)/2 X_{j+1} .. X_n          *)
(*  EncLetter(B) the ladder operator in an arbitrary linear encoding B:    *)
(*             a_j^(t) = X_U Z_P (1 +- Z_F)/2  with U = column j of B      *)
(*             (qubits flipped with mode j), F = row j of B^-1 (qubits     *)
(*             whose parity is the occupation of j), P = sum of the rows   *)
(*             1..j-1 of B^-1 (parity of the modes before j)               *)
(*  BIdent, BParity (prefix sums), BFenwick (Bravyi-Kitaev: qubit i holds  *)
(*             the sum of the modes i - lowbit(i) + 1 .. i) and its block  *)
(*             recursive definition BKBlock (beta_2x = [[b,0],[A,b]])      *)
(*  ConjB      the action of the basis change |f> -> |B f> on Pauli words  *)
(*             (X_j -> X_{col j}, Z_j -> Z_{row j of B^-1}), the FIXED     *)
(*             Clifford relating the encodings                             *)
(*  PermMat    the same basis change as an exact 2^n x 2^n matrix          *)
(* spec/gen/FermiMapGen.tla model-checks the laws connecting them (CAR,    *)
(* matrices, conjugation) before anything is compared with PennyLane.      *)
(*                                                                         *)
(* The "L" sentence operators avoid PWordIdx (4^n overflows for n > 15).   *)
(***************************************************************************)
EXTENDS PauliAlg

\* ------------------------------------------------- sentences on long words
PLexLess(u, v) == LET d == {i \in 1..Len(u) : u[i] # v[i]} IN
                  d # {} /\ LET m == CHOOSE i \in d : \A k \in d : i <= k IN u[m] < v[m]
RECURSIVE PSetToSeqL(_)
PSetToSeqL(S) == IF S = {} THEN <<>> ELSE
   LET m == CHOOSE x \in S : \A y \in S : x = y \/ PLexLess(x, y) IN <<m>> \o PSetToSeqL(S \ {m})
\* sum of a sequence of <<word, coefficient>> pairs, one function update per pair
SFromPairsL(pp) == Bind(TLCEval(pp), LAMBDA ps :
   LET ws == {ps[k][1] : k \in DOMAIN ps}
       A[k \in 0..Len(ps)] == IF k = 0 THEN [w \in ws |-> GdZero]
                              ELSE [A[k-1] EXCEPT ![ps[k][1]] = GdAdd(@, ps[k][2])]
   IN SNorm(A[Len(ps)]))
SFromTermsL(ts) == SFromPairsL([k \in DOMAIN ts |-> <<ts[k].w, GdNorm(ts[k].c)>>])
SPairsL(s) == LET q == PSetToSeqL(DOMAIN s) IN [k \in DOMAIN q |-> <<q[k], s[q[k]]>>]
STermsL(s) == LET q == PSetToSeqL(DOMAIN s) IN [k \in DOMAIN q |-> [w |-> q[k], c |-> s[q[k]]]]
SMulL(ss, tt) == Bind2(ss, tt, LAMBDA s, t : Bind2(PSetToSeqL(DOMAIN s), PSetToSeqL(DOMAIN t), LAMBDA us, vs : LET lv == Len(vs) IN
   SFromPairsL([k \in 1..(Len(us) * lv) |->
       LET u == us[((k-1) \div lv) + 1]  v == vs[((k-1) % lv) + 1]  r == PWMul(u, v)
       IN <<r.w, GdMul(GdIPow(r.p), GdMul(s[u], t[v]))>>])))
SIdent(n) == SWord(PIdWord(n))
\* adjoint: Pauli words are Hermitian, coefficients are conjugated
SAdj(s) == SNorm([w \in DOMAIN s |-> GdConj(s[w])])
SAntiComm(s, t) == SAdd(SMulL(s, t), SMulL(t, s))
GdHalf == <<1, 0, 1>>
WordOn(S, l, n) == [i \in 1..n |-> IF i \in S THEN l ELSE 0]

\* ------------------------------------------------------------ Jordan-Wigner
JWLetter(j, t, n) ==
   LET zs(l) == [i \in 1..n |-> IF i < j THEN 3 ELSE IF i = j THEN l ELSE 0]
   IN SFromPairsL(<< <<zs(1), GdHalf>>, <<zs(2), IF t = 1 THEN <<0, -1, 1>> ELSE <<0, 1, 1>> >> >>)

\* ---------------------------------------------- parity mapping (as documented)
ParLetter(j, t, n) ==
   LET w1 == [i \in 1..n |-> IF i = j - 1 THEN 3 ELSE IF i >= j THEN 1 ELSE 0]
       w2 == [i \in 1..n |-> IF i = j THEN 2 ELSE IF i > j THEN 1 ELSE 0]
   IN SFromPairsL(<< <<w1, GdHalf>>, <<w2, IF t = 1 THEN <<0, -1, 1>> ELSE <<0, 1, 1>> >> >>)

\* ------------------------------------------------------- linear encodings
BIdent(n) == [i \in 1..n |-> [j \in 1..n |-> IF i = j THEN 1 ELSE 0]]
BParity(n) == [i \in 1..n |-> [j \in 1..n |-> IF j <= i THEN 1 ELSE 0]]
RECURSIVE LowBit(_)
LowBit(i) == IF i % 2 = 1 THEN 1 ELSE 2 * LowBit(i \div 2)
BFenwick(n) == [i \in 1..n |-> [j \in 1..n |-> IF i - LowBit(i) < j /\ j <= i THEN 1 ELSE 0]]
\* block recursion of the Bravyi-Kitaev matrix for a power of two (Seeley, Richard, Love): bottom row of the lower left block is 1
RECURSIVE BKBlock(_)
BKBlock(d) == IF d = 1 THEN <<<<1>>>> ELSE
   LET h == d \div 2  b == BKBlock(h) IN
   [i \in 1..d |-> [j \in 1..d |-> IF i <= h THEN (IF j <= h THEN b[i][j] ELSE 0)
                                    ELSE IF j > h THEN b[i-h][j-h] ELSE (IF i = d THEN 1 ELSE 0)]]
BTopLeft(B, n) == [i \in 1..n |-> [j \in 1..n |-> B[i][j]]]
BIsUnitLower(B, n) == \A i \in 1..n : B[i][i] = 1 /\ \A j \in (i+1)..n : B[i][j] = 0
BRowAdd(u, v) == [k \in DOMAIN u |-> (u[k] + v[k]) % 2]
\* inverse of a unit lower triangular matrix by forward substitution: X[i] = e_i + SUM_{j<i, B[i][j]=1} X[j]
BInv(B, n) == LET R[i \in 0..n] == IF i = 0 THEN <<>> ELSE
                    Bind(R[i-1], LAMBDA prev : Append(prev,
                       LET S[j \in 0..(i-1)] == IF j = 0 THEN [k \in 1..n |-> IF k = i THEN 1 ELSE 0]
                                                ELSE IF B[i][j] = 1 THEN BRowAdd(S[j-1], prev[j]) ELSE S[j-1]
                       IN S[i-1]))
              IN R[n]
BMul(A, B, n) == [i \in 1..n |-> [j \in 1..n |-> Cardinality({k \in 1..n : A[i][k] = 1 /\ B[k][j] = 1}) % 2]]
BApply(B, f, n) == [i \in 1..n |-> Cardinality({k \in 1..n : B[i][k] = 1 /\ f[k] = 1}) % 2]
\* the three index sets of mode j
EncU(B, j, n) == {i \in 1..n : B[i][j] = 1}
EncF(Bi, j, n) == {k \in 1..n : Bi[j][k] = 1}
EncP(Bi, j, n) == {k \in 1..n : Cardinality({m \in 1..(j-1) : Bi[m][k] = 1}) % 2 = 1}
EncLetterI(B, Bi, j, t, n) ==
   SScale(GdHalf, SMulL(SWord(WordOn(EncU(B, j, n), 1, n)),
                  SMulL(SWord(WordOn(EncP(Bi, j, n), 3, n)),
                        SAdd(SIdent(n), SScale(GdInt(IF t = 1 THEN 1 ELSE -1), SWord(WordOn(EncF(Bi, j, n), 3, n)))))))
EncLetter(B, j, t, n) == Bind(BInv(B, n), LAMBDA Bi : EncLetterI(B, Bi, j, t, n))

MapNames == {"jw", "par", "bk"}
BOf(map, n) == CASE map = "jw" -> BIdent(n) [] map = "par" -> BParity(n) [] map = "bk" -> BFenwick(n)
\* the documented letter of each mapping (jw, par: transcribed formulas; bk: the Fenwick-tree encoding)
MapLetter(map, j, t, n) == CASE map = "jw" -> JWLetter(j, t, n) [] map = "par" -> ParLetter(j, t, n) [] map = "bk" -> EncLetter(BFenwick(n), j, t, n)
\* table of all letters of a mapping on n qubits: tab[j][t+1]
LetterTable(map, n) == TLCEval([j \in 1..n |-> TLCEval([tt \in 1..2 |-> MapLetter(map, j, tt - 1, n)])])
\* image of a fermi word / of fermi terms under a letter table
WordImageT(tab, w, n) == LET A[k \in 0..Len(w)] == IF k = 0 THEN SIdent(n) ELSE SMulL(A[k-1], tab[w[k][1]][w[k][2] + 1]) IN A[Len(w)]
TermsImageT(tab, ts, n) ==
   LET A[k \in 0..Len(ts)] == IF k = 0 THEN <<>> ELSE
          Bind(SScale(GdNorm(ts[k].c), WordImageT(tab, ts[k].w, n)), LAMBDA s : A[k-1] \o SPairsL(s))
   IN SFromPairsL(A[Len(ts)])
WordImage(map, w, n) == Bind(LetterTable(map, n), LAMBDA tab : WordImageT(tab, w, n))
TermsImage(map, ts, n) == Bind(LetterTable(map, n), LAMBDA tab : TermsImageT(tab, ts, n))
FAdjWord(w) == [k \in 1..Len(w) |-> <<w[Len(w) + 1 - k][1], 1 - w[Len(w) + 1 - k][2]>>]

\* ------------------------------------------------------------- wire maps
\* A wire map is an injective sequence wm: wire i of the n-qubit register is renamed to label wm[i] \in 1..K ("a dictionary
\* defining how to map the orbitals of the Fermi operator to qubit wires").  Renaming is a PURE relabelling of the image: the
\* letter on wire i moves to label wm[i], every other label carries the identity, coefficients are untouched; it is applied
\* ONCE to the image of the whole operator (word or sentence alike).  The labels may overlap the wires (a permutation of 1..n).
WireMaps(n, K) == {f \in [1..n -> 1..K] : \A i \in 1..n : \A j \in 1..n : i # j => f[i] # f[j]}
RelabelWord(w, wm, K) == [p \in 1..K |-> IF \E i \in DOMAIN wm : wm[i] = p THEN w[CHOOSE i \in DOMAIN wm : wm[i] = p] ELSE 0]
SRelabel(ss, wm, K) == Bind(ss, LAMBDA s : Bind(PSetToSeqL(DOMAIN s), LAMBDA q :
   SFromPairsL([k \in DOMAIN q |-> <<RelabelWord(q[k], wm, K), s[q[k]]>>])))

\* --------------------------------------------- the fixed Clifford |f> -> |B f>
\* image of a single-wire Pauli: X_j -> X_{column j of B}; Z_j -> Z_{row j of B^-1}; Y_j = i X_j Z_j
ConjLetter(B, Bi, j, l, n) ==
   LET xw == PW(WordOn(EncU(B, j, n), 1, n))  zw == PW(WordOn(EncF(Bi, j, n), 3, n))
   IN CASE l = 0 -> PW(PIdWord(n)) [] l = 1 -> xw [] l = 3 -> zw
        [] l = 2 -> LET r == PMul(xw, zw) IN [p |-> (r.p + 1) % 4, w |-> r.w]
ConjWord(B, Bi, w, n) == LET A[k \in 0..n] == IF k = 0 THEN PW(PIdWord(n)) ELSE PMul(A[k-1], ConjLetter(B, Bi, k, w[k], n)) IN A[n]
ConjB(B, ss, n) == Bind2(ss, BInv(B, n), LAMBDA s, Bi : Bind(PSetToSeqL(DOMAIN s), LAMBDA q :
   SFromPairsL([k \in DOMAIN q |-> LET r == ConjWord(B, Bi, q[k], n) IN <<r.w, GdMul(GdIPow(r.p), s[q[k]])>>])))
\* basis index (0-based, wire 1 most significant) <-> bit vector
BitsOf(x, n) == [i \in 1..n |-> (x \div 2^(n - i)) % 2]
IdxOf(f, n) == LET S[i \in 0..n] == IF i = 0 THEN 0 ELSE 2 * S[i-1] + f[i] IN S[n]
PermMat(B, n) == LET d == 2^n IN
   [k |-> 0, e |-> TLCEval([r \in 1..d |-> TLCEval([c \in 1..d |-> IF IdxOf(BApply(B, BitsOf(c - 1, n), n), n) = r - 1 THEN One ELSE Zero])])]
\* textbook matrix of a ladder operator in the occupation basis: Z x .. x Z x s x I x .. x I, s = |0><1| (annihilation) or |1><0|
LadderMat(t) == IF t = 0 THEN [k |-> 0, e |-> << <<Zero, One>>, <<Zero, Zero>> >>] ELSE [k |-> 0, e |-> << <<Zero, Zero>>, <<One, Zero>> >>]
RECURSIVE LadderMatR(_, _, _, _)
LadderMatR(j, t, n, i) == LET f == IF i < j THEN PLetMat(3) ELSE IF i = j THEN LadderMat(t) ELSE PLetMat(0)
                          IN IF i = n THEN f ELSE Kron(f, LadderMatR(j, t, n, i + 1))
OccLadderMat(j, t, n) == LadderMatR(j, t, n, 1)
=============================================================================
