------------------------------ MODULE WireAlloc ------------------------------
(***************************************************************************)
(* The dynamic wire allocator behind resolve_dynamic_wires (_WireManager), *)
(* modelled step for step: two LIFO registers (zeroed / any-state), the    *)
(* loan table recording to which register a wire returns, the growing      *)
(* integer pool min_int, resets of any-state wires.  Ghost state: `clean`  *)
(* (does this concrete wire hold |0> ?) and the static wires.              *)
(*                                                                         *)
(* One action per _WireManager critical section:                           *)
(*   AllocZeroFromZeroed  AllocZeroByReset  AllocAnyFromAny                *)
(*   AllocAnyFromZeroed   (each preceded by AddNewWire when both registers *)
(*   are empty, as in get_wire)   Dealloc   AllocFail                      *)
(* A dynamic wire is used (made dirty) right after allocation; a           *)
(* `restored` allocation is brought back to its allocation-time state      *)
(* before Dealloc (the program honours its promise).                       *)
(*                                                                         *)
(* Wires: concrete wire labels are integers: register wires are 1..9,      *)
(* static wires are those in Static, pool wires are MinInt0, MinInt0+1 ... *)
(***************************************************************************)
EXTENDS Integers, Sequences, FiniteSets, TLC
CONSTANTS Configs,      \* set of [z: seq, a: seq, mi: Int (-1 = None), ar: BOOLEAN, static: set]
          MaxEvents, MaxDyn
VARIABLES cfg, zeroedReg, anyReg, loaned, minInt, wireMap, dealloc, clean, cleanAt, rest, nextDyn, hist, bad
vars == <<cfg, zeroedReg, anyReg, loaned, minInt, wireMap, dealloc, clean, cleanAt, rest, nextDyn, hist, bad>>

Range(f) == {f[x] : x \in DOMAIN f}
SeqSet(s) == {s[i] : i \in 1..Len(s)}
Pop(s) == SubSeq(s, 1, Len(s) - 1)
Last(s) == s[Len(s)]
Put(f, k, v) == [x \in DOMAIN f \cup {k} |-> IF x = k THEN v ELSE f[x]]
Drop(f, k) == [x \in DOMAIN f \ {k} |-> f[x]]

InitWith(c) ==
  /\ cfg = c /\ zeroedReg = c.z /\ anyReg = c.a /\ loaned = <<>> /\ minInt = c.mi
  /\ wireMap = <<>> /\ dealloc = {} /\ nextDyn = 1 /\ hist = <<>> /\ bad = ""
  /\ clean = [w \in SeqSet(c.z) \cup SeqSet(c.a) |-> w \in SeqSet(c.z)]
  /\ cleanAt = <<>> /\ rest = <<>>
Init == \E c \in Configs : InitWith(c)

\* ------------------------------------------------------------ property-level conjuncts
LiveWires == Range(wireMap)
\* (A) no two live dynamic wires share a concrete wire
NoAlias == \A d1, d2 \in DOMAIN wireMap : d1 # d2 => wireMap[d1] # wireMap[d2]
\* (B) a dynamic wire lands on a static wire only if that wire was handed to the allocator
Handed == SeqSet(cfg.z) \cup SeqSet(cfg.a)
NoStatic == \A d \in DOMAIN wireMap : wireMap[d] \in cfg.static => wireMap[d] \in Handed
\* (C) recorded by the alloc actions in `bad` (a zero-state request must receive a clean wire)
Good == bad = ""
\* model-only sanity: a wire is never both free and on loan, registers hold no duplicates
RegsDisjoint ==
  /\ SeqSet(zeroedReg) \cap SeqSet(anyReg) = {}
  /\ (SeqSet(zeroedReg) \cup SeqSet(anyReg)) \cap DOMAIN loaned = {}
  /\ Cardinality(SeqSet(zeroedReg)) = Len(zeroedReg) /\ Cardinality(SeqSet(anyReg)) = Len(anyReg)
  /\ DOMAIN loaned = LiveWires

\* ------------------------------------------------------------ the allocator, as the code does it
\* get_wire: if both registers are empty, _add_new_wire first (error when min_int is None)
NeedNew == zeroedReg = <<>> /\ anyReg = <<>>
ZR1 == IF NeedNew /\ minInt >= 0 THEN <<minInt>> ELSE zeroedReg      \* zeroed register after the optional add
MI1 == IF NeedNew /\ minInt >= 0 THEN minInt + 1 ELSE minInt
CL1 == IF NeedNew /\ minInt >= 0 THEN Put(clean, minInt, TRUE) ELSE clean

\* the model's choice for a request: [w, reset, retTo, zr, ar, mi] or "fail"
RECURSIVE ZeroChoice(_, _, _, _)
ZeroChoice(zr, ar, mi, r) ==
  IF zr # <<>> THEN [ok |-> TRUE, w |-> Last(zr), reset |-> FALSE, ret |-> IF r THEN "zero" ELSE "any", zr |-> Pop(zr), ar |-> ar, mi |-> mi, new |-> FALSE]
  ELSE IF cfg.ar /\ ar # <<>> THEN [ok |-> TRUE, w |-> Last(ar), reset |-> TRUE, ret |-> IF r THEN "zero" ELSE "any", zr |-> zr, ar |-> Pop(ar), mi |-> mi, new |-> FALSE]
  ELSE IF cfg.ar THEN [ok |-> FALSE]            \* the code pops from an empty list here (IndexError)
  ELSE IF mi < 0 THEN [ok |-> FALSE]
  ELSE LET c == ZeroChoice(<<mi>>, ar, mi + 1, r) IN [c EXCEPT !.new = TRUE]
AnyChoice(zr, ar, mi, r) ==
  IF ar # <<>> THEN [ok |-> TRUE, w |-> Last(ar), reset |-> FALSE, ret |-> "any", zr |-> zr, ar |-> Pop(ar), mi |-> mi, new |-> FALSE]
  ELSE IF zr # <<>> THEN [ok |-> TRUE, w |-> Last(zr), reset |-> FALSE, ret |-> IF r THEN "zero" ELSE "any", zr |-> Pop(zr), ar |-> ar, mi |-> mi, new |-> FALSE]
  ELSE [ok |-> FALSE]
ModelChoice(st, r) ==
  IF NeedNew /\ minInt < 0 THEN [ok |-> FALSE]
  ELSE IF st = "zero" THEN ZeroChoice(ZR1, anyReg, MI1, r) ELSE AnyChoice(ZR1, anyReg, MI1, r)

\* Effect of granting concrete wire w to a new dynamic wire (shared by the model and by trace validation,
\* where w / reset are the IMPLEMENTATION's choices): ghost update and conjunct (C).
Grant(d, st, r, w, reset, ret, zr, ar, mi) ==
  LET cl0 == IF w \in DOMAIN clean THEN clean ELSE Put(clean, w, TRUE)      \* a brand-new pool wire is |0>
      cl1 == IF reset THEN Put(cl0, w, TRUE) ELSE cl0 IN
  /\ zeroedReg' = zr /\ anyReg' = ar /\ minInt' = mi
  /\ loaned' = Put(loaned, w, ret)
  /\ wireMap' = Put(wireMap, d, w)
  /\ cleanAt' = Put(cleanAt, d, cl1[w]) /\ rest' = Put(rest, d, r)
  /\ clean' = Put(cl1, w, FALSE)                     \* the program uses the wire at once
  /\ bad' = IF bad # "" THEN bad
            ELSE IF st = "zero" /\ ~cl1[w] THEN "zero-request-got-dirty-wire"
            ELSE IF w \in LiveWires THEN "aliases-live-wire"
            ELSE IF w \in cfg.static /\ w \notin Handed THEN "lands-on-static-wire"
            ELSE ""
  /\ nextDyn' = nextDyn + 1 /\ UNCHANGED <<cfg, dealloc>>

Alloc(st, r) ==
  /\ nextDyn <= MaxDyn /\ bad = ""
  /\ LET c == ModelChoice(st, r) IN
     IF c.ok THEN /\ Grant(nextDyn, st, r, c.w, c.reset, c.ret, c.zr, c.ar, c.mi)
                  /\ hist' = Append(hist, [e |-> "alloc", d |-> nextDyn, st |-> st, r |-> r, w |-> c.w, reset |-> c.reset])
     ELSE /\ hist' = Append(hist, [e |-> "alloc", d |-> nextDyn, st |-> st, r |-> r, w |-> -1, reset |-> FALSE])
          /\ bad' = "alloc-failed"       \* not a property violation: the transform raises AllocationError; history ends
          /\ UNCHANGED <<cfg, zeroedReg, anyReg, loaned, minInt, wireMap, dealloc, clean, cleanAt, rest, nextDyn>>

\* Dealloc(d): return_wire. Ghost: a restored wire is back in its allocation-time state.
Release(d) ==
  LET w == wireMap[d] IN
  /\ loaned' = Drop(loaned, w)
  /\ IF loaned[w] = "zero" THEN zeroedReg' = Append(zeroedReg, w) /\ anyReg' = anyReg
                            ELSE anyReg' = Append(anyReg, w) /\ zeroedReg' = zeroedReg
  /\ wireMap' = Drop(wireMap, d) /\ dealloc' = dealloc \cup {d}
  /\ clean' = Put(clean, w, IF rest[d] THEN cleanAt[d] ELSE FALSE)
  /\ UNCHANGED <<cfg, minInt, cleanAt, rest, nextDyn, bad>>
Dealloc(d) == /\ d \in DOMAIN wireMap /\ bad = "" /\ Release(d)
              /\ hist' = Append(hist, [e |-> "dealloc", d |-> d, st |-> "", r |-> FALSE, w |-> wireMap[d], reset |-> FALSE])

Next == /\ Len(hist) < MaxEvents
        /\ \/ \E st \in {"zero", "any"}, r \in BOOLEAN : Alloc(st, r)
           \/ \E d \in DOMAIN wireMap : Dealloc(d)

\* (C') a wire sitting in the zeroed register is clean -- the inductive reason (C) holds
ZeroedRegClean == \A i \in 1..Len(zeroedReg) : clean[zeroedReg[i]]
PropertyOK == bad \in {"", "alloc-failed"}
=============================================================================
