------------------------------ MODULE KeyModel ------------------------------
(***************************************************************************)
(* The cache key, as a model of WHAT THE CODE DOES (DESIGN 3.3): a         *)
(* transcription of the canonicalisation rules of QuantumScript.hash and   *)
(* the operators' __hash__ -- not of their arithmetic.  Equality of two    *)
(* model keys stands for equality of the two Python hashes.                *)
(*                                                                         *)
(*   tape key   = fingerprint list: op keys, measurement keys, then the    *)
(*                trainable indices and the shot counts APPENDED FLAT      *)
(*                (fingerprint.extend(trainable); fingerprint.extend(shots))*)
(*   op key     = (name, canonical parameters, wires, hyper-parameters,    *)
(*                array data)                                              *)
(*   canonical parameter: named rotations RX RY RZ PhaseShift Rot U1 U2 U3 *)
(*                are reduced mod 2*pi, CRX CRY CRZ CRot mod 4*pi, every   *)
(*                other parameter is taken as it is; ARRAY DATA (the vector *)
(*                of StatePrep / Projector, the matrix of QubitUnitary /   *)
(*                Hermitian / BlockEncode, ...) is taken as it is, real    *)
(*                AND imaginary part of every entry (field m: an exact     *)
(*                normalised ring matrix, <<>> for gates without data)     *)
(*   measurement key = (type, observable type + observable data, wires)    *)
(*   A tape OBJECT has no key of its own: the key of an object is the key  *)
(*   of its current CONTENT, however the object was obtained (constructed, *)
(*   copy(...) of a tape whose hash was already read, bind_new_parameters) *)
(*   symbolic operators (Adjoint, Pow, generic Controlled) hash their base *)
(*                operator with the BASE's own rule                        *)
(*   ctrl(op) with one control of value 1 on a bare RX/RY/RZ/Rot/          *)
(*                PhaseShift/U1 is the named gate CRX/.../ControlledPhase- *)
(*                Shift (so it gets that gate's rule)                      *)
(*                                                                         *)
(* Operators are gate records of Gates.tla: [g, w, p, x, m, mods], angles  *)
(* are lattice integers; TwoPi is the lattice length of 2*pi.  A tape is   *)
(* [ops, meas, tr, shots].  Pure operators, no variables.                  *)
(***************************************************************************)
EXTENDS Integers, Sequences
CONSTANT TwoPi

Red2pi == {"RX", "RY", "RZ", "PhaseShift", "Rot", "U1", "U2", "U3"}
Red4pi == {"CRX", "CRY", "CRZ", "CRot"}
Canon(g, a) == IF g \in Red2pi THEN a % TwoPi ELSE IF g \in Red4pi THEN a % (2 * TwoPi) ELSE a
CanonP(g, p) == [i \in 1..Len(p) |-> Canon(g, p[i])]
NamedCtrl(g) == CASE g = "RX" -> "CRX" [] g = "RY" -> "CRY" [] g = "RZ" -> "CRZ" [] g = "Rot" -> "CRot"
                  [] g \in {"PhaseShift", "U1"} -> "ControlledPhaseShift" [] OTHER -> ""
BaseKey(g, p, x, m) == <<g, CanonP(g, p), x, m>>

\* key of the term r with its first i modifiers applied (mods are innermost first)
RECURSIVE TermKey(_, _)
TermKey(r, i) ==
  IF i = 0 THEN BaseKey(r.g, r.p, r.x, r.m)
  ELSE LET md == r.mods[i] IN
       CASE md.t = "adj"  -> <<"Adjoint", TermKey(r, i - 1)>>
         [] md.t = "pow"  -> <<"Pow", md.z, TermKey(r, i - 1)>>
         [] md.t = "ctrl" -> IF i = 1 /\ md.cv = <<1>> /\ NamedCtrl(r.g) # ""
                             THEN BaseKey(NamedCtrl(r.g), r.p, r.x, r.m)
                             ELSE <<"C", TermKey(r, i - 1), md.cv>>
\* wires are compared as one list (control wires first): equal structure + equal list = equal wires at every level
OpKey(r) == <<TermKey(r, Len(r.mods)), r.w>>
MeasKey(m) == <<m.t, m.obs, m.w>>
Key(t) == [ops  |-> [i \in 1..Len(t.ops) |-> OpKey(t.ops[i])],
           meas |-> [i \in 1..Len(t.meas) |-> MeasKey(t.meas[i])],
           tail |-> t.tr \o t.shots]
KeyEq(t1, t2) == Key(t1) = Key(t2)
=============================================================================
