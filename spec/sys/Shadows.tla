------------------------------ MODULE Shadows ------------------------------
(***************************************************************************)
(* Classical shadows with random single-qubit Pauli measurements (C60),    *)
(* exactly, in the ring Z[zeta_8][1/2] (M = 3).  Written from the          *)
(* documentation of qp.ClassicalShadow / qp.classical_shadow:              *)
(*                                                                         *)
(*  * a snapshot is a pair (recipe r, outcome b), one entry per measured   *)
(*    qubit; recipe 0 / 1 / 2 = measurement of Pauli X / Y / Z; bit 0 = the *)
(*    +1 eigenvalue was sampled, bit 1 = the -1 eigenvalue;                *)
(*  * the measurement of Pauli r_i is the basis change U_i followed by a   *)
(*    computational-basis measurement, U = H (X), H S^dagger (Y), I (Z);   *)
(*  * the local snapshot is  3 U_i^dagger |b_i><b_i| U_i - I,  the global   *)
(*    snapshot is their tensor product (first measured wire = most         *)
(*    significant), the estimate of an observable O from one snapshot is   *)
(*    tr(snapshot O), estimates are averaged over the snapshots.           *)
(*                                                                         *)
(* The protocol: every recipe has probability 3^-n, and given the recipe   *)
(* the outcome b has the Born probability |<b| (U_1 x ... x U_n) |psi>|^2. *)
(* Scalars are records [c, k] = (sum c_i zeta^i) / 2^k.                     *)
(* Nothing here mentions how PennyLane computes these quantities (it uses  *)
(* (I + (-1)^b P)/2 and a closed formula for Pauli words).                 *)
(***************************************************************************)
EXTENDS Gates

\* ---------------------------------------------------------------- index <-> digits (first wire most significant)
RecOf(ri, n)  == [i \in 1..n |-> (ri \div 3^(n-i)) % 3]
BitsOf(bi, n) == [i \in 1..n |-> (bi \div 2^(n-i)) % 2]
WordOf(wi, n) == [i \in 1..n |-> (wi \div 4^(n-i)) % 4]          \* 0,1,2,3 = I,X,Y,Z

\* ---------------------------------------------------------------- scalars
Sc(c, k) == [c |-> c, k |-> k]
SZero == Sc(Zero, 0)
SOne  == Sc(One, 0)
RECURSIVE SNormV(_)
SNormV(x) == IF x.k > 0 /\ AllEven(x.c) THEN SNormV(Sc(Halve(x.c), x.k - 1)) ELSE x
SNorm(xx) == Bind(xx, LAMBDA x : SNormV(x))
SAdd(xx, yy) == Bind2(xx, yy, LAMBDA x, y : LET kk == IF x.k > y.k THEN x.k ELSE y.k IN
                  SNormV(Sc(Add(Scale(2^(kk - x.k), x.c), Scale(2^(kk - y.k), y.c)), kk)))
SEq(xx, yy) == Bind2(xx, yy, LAMBDA x, y : LET kk == IF x.k > y.k THEN x.k ELSE y.k IN
                  Scale(2^(kk - x.k), x.c) = Scale(2^(kk - y.k), y.c))
SScale(a, x) == Sc(Scale(a, x.c), x.k)                           \* integer a
SMul(x, y) == SNorm(Sc(Mul(x.c, y.c), x.k + y.k))
SIsZero(x) == IsZero(x.c)
\* scalar times matrix
SMulM(xx, mm) == Bind2(xx, mm, LAMBDA x, m :
   Norm([k |-> m.k + x.k, e |-> TLCEval([i \in 1..Len(m.e) |-> TLCEval([j \in 1..Len(m.e[i]) |-> EMul(m.e[i][j], x.c)])])]))
ZeroM(d) == [k |-> 0, e |-> TLCEval([i \in 1..d |-> TLCEval([j \in 1..d |-> Zero])])]
TrM(mm) == Bind(mm, LAMBDA m : Sc(LET S[i \in 0..Len(m.e)] == IF i = 0 THEN Zero ELSE Add(S[i-1], m.e[i][i]) IN S[Len(m.e)], m.k))
\* tr(a b)
TrProd(aa, bb) == Bind2(aa, bb, LAMBDA a, b :
   LET d == Len(a.e)
       Row(i) == LET S[j \in 0..d] == IF j = 0 THEN Zero ELSE
                        IF a.e[i][j] = Zero \/ b.e[j][i] = Zero THEN S[j-1] ELSE Add(S[j-1], EMul(a.e[i][j], b.e[j][i]))
                 IN S[d]
       T[i \in 0..d] == IF i = 0 THEN Zero ELSE Add(T[i-1], Row(i))
   IN SNormV(Sc(T[d], a.k + b.k)))
IsHermitian(mm) == Bind(mm, LAMBDA m : \A i \in 1..Len(m.e) : \A j \in i..Len(m.e) : m.e[i][j] = Conj(m.e[j][i]))

\* ---------------------------------------------------------------- the documented snapshot
UBX == MH
UBY == MatMul(MH, Dagger(MS))
UB(r) == CASE r = 0 -> UBX [] r = 1 -> UBY [] r = 2 -> MI
Ket(b) == BasisCol(2, b)
KetBra(b) == MatMul(Ket(b), Dagger(Ket(b)))
\* 3 U^dagger |b><b| U - I
Snap1(r, b) == MAdd(MScale(Int2C(3), MatMul(Dagger(UB(r)), MatMul(KetBra(b), UB(r)))), MScale(Neg(One), MI))
Snap1Tab == TLCEval([r1 \in 1..3 |-> TLCEval([b1 \in 1..2 |-> Snap1(r1 - 1, b1 - 1)])])
RECURSIVE KronUpTo(_, _)
KronUpTo(ms, i) == IF i = 1 THEN ms[1] ELSE Kron(KronUpTo(ms, i - 1), ms[i])
\* r, b: sequences over the measured qubits
Snapshot(r, b) == KronUpTo([i \in 1..Len(r) |-> Snap1Tab[r[i] + 1][b[i] + 1]], Len(r))
\* estimate of the Pauli word pw (0..3 per measured qubit) from one snapshot
Estimate(r, b, pw) == TrProd(Snapshot(r, b), PauliM(pw))

\* ---------------------------------------------------------------- the measurement
\* rotate measured wire ws[j] with the basis change of recipe r[j]
RECURSIVE RotateOn(_, _, _, _, _)
RotateOn(v, ws, r, j, n) == IF j > Len(ws) THEN v
   ELSE RotateOn(IF r[j] = 2 THEN v ELSE ApplyGate(v, UB(r[j]), <<ws[j]>>, n), ws, r, j + 1, n)
Abs2(v, i) == Sc(Mul(Conj(v.e[i][1]), v.e[i][1]), 2 * v.k)
\* Born probability of reading b on the wires ws of the (already rotated) state phi
ProbOn(phi, ws, b, n) ==
  LET S[i \in 0..2^n] == IF i = 0 THEN SZero ELSE
        IF \A j \in 1..Len(ws) : Bit(i - 1, ws[j], n) = b[j] THEN SAdd(S[i-1], Abs2(phi, i)) ELSE S[i-1]
  IN S[2^n]
\* conditional probability of outcome b given recipe r (the recipe itself has probability 3^-Len(ws))
CondProb(psi, ws, r, b, n) == Bind(RotateOn(psi, ws, r, 1, n), LAMBDA phi : ProbOn(phi, ws, b, n))

\* ---------------------------------------------------------------- exact quantities of a pure state
Inner(a, b) == Sc(LET S[i \in 0..Len(a.e)] == IF i = 0 THEN Zero ELSE Add(S[i-1], Mul(Conj(a.e[i][1]), b.e[i][1])) IN S[Len(a.e)],
                  a.k + b.k)
RECURSIVE ApplyWord(_, _, _, _)
ApplyWord(v, pw, i, n) == IF i > Len(pw) THEN v
   ELSE ApplyWord(IF pw[i] = 0 THEN v ELSE ApplyGate(v, Pauli1(pw[i]), <<i>>, n), pw, i + 1, n)
ExpvalOf(psi, pw, n) == Bind(psi, LAMBDA v : SNorm(Inner(v, ApplyWord(v, pw, 1, n))))
RhoOf(psi) == Bind(psi, LAMBDA v : MatMul(v, Dagger(v)))
=============================================================================
