----------------------------- MODULE SpecsModel ------------------------------
(***************************************************************************)
(* C46: what a resource summary of a circuit (qp.specs, tape.specs) must   *)
(* say, computed directly from the circuit, and the algebra of symbolic    *)
(* resource counts.  Pure operators, no variables.                         *)
(*                                                                         *)
(* A circuit is a sequence of operations                                   *)
(*    [g |-> type name, w |-> sequence of wires (ints), dep |-> sequence   *)
(*     of indices of earlier operations it is classically controlled by]   *)
(* An operation without wires (w = <<>>, e.g. a global phase given no      *)
(* wires) acts on all wires of the circuit.  `mw` is the set of wires the  *)
(* terminal measurements mention (they are wires of the circuit too).      *)
(*                                                                         *)
(*  Counts    : number of operations of each type                          *)
(*  NumWires  : number of distinct wires of operations and measurements    *)
(*  Depth     : number of operations on a longest path of the dependency   *)
(*              DAG: i -> j iff i < j and (they share a wire or j is       *)
(*              classically controlled by i)                               *)
(*  DepthASAP : the same number obtained by scheduling every operation as  *)
(*              early as possible (per-wire clocks) - an independent       *)
(*              definition; Laws demands they agree.                       *)
(***************************************************************************)
EXTENDS Integers, Sequences, FiniteSets, SequencesExt, TLC

SeqSet(s) == {s[i] : i \in 1..Len(s)}
MaxOf(S) == IF S = {} THEN 0 ELSE CHOOSE x \in S : \A y \in S : y <= x

OpWires(c) == UNION {SeqSet(c[i].w) : i \in 1..Len(c)}
AllWires(c, mw) == OpWires(c) \cup mw
NumWires(c, mw) == Cardinality(AllWires(c, mw))
Eff(c, mw, i) == IF c[i].w = <<>> THEN AllWires(c, mw) ELSE SeqSet(c[i].w)       \* wires operation i touches

Types(c) == {c[i].g : i \in 1..Len(c)}
CountOf(c, g) == Cardinality({i \in 1..Len(c) : c[i].g = g})
Counts(c) == [g \in Types(c) |-> CountOf(c, g)]

\* ---- depth, definition 1: longest path in the dependency DAG
Dep(c, mw, i, j) == i < j /\ (Eff(c, mw, i) \cap Eff(c, mw, j) # {} \/ i \in SeqSet(c[j].dep))
\* Levels(c, mw, j): for every operation up to j the number of operations on a longest path ending in it
RECURSIVE Levels(_, _, _)
Levels(c, mw, j) == IF j = 0 THEN <<>>
                    ELSE LET prev == TLCEval(Levels(c, mw, j - 1)) IN
                         Append(prev, 1 + MaxOf({prev[i] : i \in {k \in 1..(j - 1) : Dep(c, mw, k, j)}}))
Depth(c, mw) == MaxOf(SeqSet(TLCEval(Levels(c, mw, Len(c)))))

\* ---- depth, definition 2: as-soon-as-possible schedule with one clock per wire
RECURSIVE Sched(_, _, _, _, _)
Sched(c, mw, j, clock, times) ==      \* clock: [wire -> time of the last operation on it], times: layer of each operation
  IF j > Len(c) THEN times
  ELSE LET ws == Eff(c, mw, j)
           t  == 1 + MaxOf({clock[x] : x \in ws} \cup {times[i] : i \in SeqSet(c[j].dep)})
       IN Sched(c, mw, j + 1, TLCEval([x \in DOMAIN clock |-> IF x \in ws THEN t ELSE clock[x]]), Append(times, t))
DepthASAP(c, mw) == MaxOf(SeqSet(TLCEval(Sched(c, mw, 1, [x \in AllWires(c, mw) |-> 0], <<>>))))

Summary(c, mw) == [counts |-> Counts(c), total |-> Len(c), wires |-> NumWires(c, mw), depth |-> Depth(c, mw)]

\* ---- laws of the summary itself (they guard the oracle)
RECURSIVE SumCounts(_, _)
SumCounts(c, T) == IF T = {} THEN 0 ELSE LET g == CHOOSE g \in T : TRUE IN CountOf(c, g) + SumCounts(c, T \ {g})
OpsOnWire(c, mw, x) == Cardinality({i \in 1..Len(c) : x \in Eff(c, mw, i)})
LawCircuit(c, mw) ==
  LET d == Depth(c, mw) IN
  /\ d = DepthASAP(c, mw)
  /\ d <= Len(c) /\ (Len(c) > 0 => d >= 1)
  /\ \A x \in AllWires(c, mw) : d >= OpsOnWire(c, mw, x)                \* operations on one wire are totally ordered
  /\ Len(c) = SumCounts(c, Types(c))                                 \* the counts partition the operations
\* appending an operation: counts grow by one in its type; the depth never shrinks and grows by at most one unless the new
\* operation brings new wires to earlier wire-less operations
LawAppend(c, mw, op) ==
  LET c2 == Append(c, op) IN
  /\ CountOf(c2, op.g) = CountOf(c, op.g) + 1
  /\ \A g \in Types(c) \ {op.g} : CountOf(c2, g) = CountOf(c, g)
  /\ Depth(c2, mw) >= Depth(c, mw)
  /\ ((\A i \in 1..Len(c) : c[i].w # <<>>) \/ SeqSet(op.w) \subseteq AllWires(c, mw)) => Depth(c2, mw) <= Depth(c, mw) + 1

(***************************************************************************)
(* Symbolic resource counts (pennylane.resource.Expression): polynomials   *)
(* with integer coefficients.  A monomial is a non-decreasing sequence of  *)
(* variable indices, a polynomial a function monomial -> non-zero          *)
(* coefficient (<<>> -> 0 is never stored: the zero polynomial is the      *)
(* empty function).  The meaning of a polynomial is its value under every  *)
(* assignment (PEval); "add and scale consistently" = the operations       *)
(* commute with PEval (LawPoly).                                           *)
(***************************************************************************)
PCoef(p, m) == IF m \in DOMAIN p THEN p[m] ELSE 0
PNorm(f) == LET nz == {m \in DOMAIN f : f[m] # 0} IN TLCEval([m \in nz |-> f[m]])
PConst(k) == IF k = 0 THEN <<>> ELSE (<<>> :> k)
PAdd(p, q) == PNorm([m \in (DOMAIN p) \cup (DOMAIN q) |-> PCoef(p, m) + PCoef(q, m)])
PScale(p, k) == PNorm([m \in DOMAIN p |-> k * p[m]])

\* merge of two non-decreasing sequences
RECURSIVE Merge(_, _)
Merge(a, b) == IF a = <<>> THEN b ELSE IF b = <<>> THEN a
               ELSE IF a[1] <= b[1] THEN <<a[1]>> \o Merge(Tail(a), b) ELSE <<b[1]>> \o Merge(a, Tail(b))
RECURSIVE SumSeq(_)
SumSeq(s) == IF s = <<>> THEN 0 ELSE s[1] + SumSeq(Tail(s))
PMul(p, q) ==
  LET pairs == (DOMAIN p) \X (DOMAIN q)
      monos == {Merge(pr[1], pr[2]) : pr \in pairs}
      ps == TLCEval(SetToSeq(pairs))
      coef(m) == SumSeq([i \in 1..Len(ps) |-> IF Merge(ps[i][1], ps[i][2]) = m THEN p[ps[i][1]] * q[ps[i][2]] ELSE 0])
  IN PNorm([m \in monos |-> coef(m)])

RECURSIVE Without(_, _)
Without(m, v) == IF m = <<>> THEN <<>> ELSE IF m[1] = v THEN Without(Tail(m), v) ELSE <<m[1]>> \o Without(Tail(m), v)
RECURSIVE IntPow(_, _)
IntPow(b, e) == IF e = 0 THEN 1 ELSE b * IntPow(b, e - 1)
PSubs(p, v, val) ==                     \* substitute variable v by the integer val
  LET monos == {Without(m, v) : m \in DOMAIN p}
      ms == TLCEval(SetToSeq(DOMAIN p))
      coef(m2) == SumSeq([i \in 1..Len(ms) |-> IF Without(ms[i], v) = m2 THEN p[ms[i]] * IntPow(val, Len(ms[i]) - Len(m2)) ELSE 0])
  IN PNorm([m2 \in monos |-> coef(m2)])

RECURSIVE MonoVal(_, _)
MonoVal(m, env) == IF m = <<>> THEN 1 ELSE env[m[1]] * MonoVal(Tail(m), env)
PEval(p, env) == LET ms == TLCEval(SetToSeq(DOMAIN p)) IN SumSeq([i \in 1..Len(ms) |-> p[ms[i]] * MonoVal(ms[i], env)])
PVars(p) == UNION {SeqSet(m) : m \in DOMAIN p}
PIsConst(p) == (DOMAIN p) \subseteq {<<>>}

LawPoly(p, q, k, v, val, Envs) ==
  /\ \A env \in Envs :
       /\ PEval(PAdd(p, q), env) = PEval(p, env) + PEval(q, env)
       /\ PEval(PMul(p, q), env) = PEval(p, env) * PEval(q, env)
       /\ PEval(PScale(p, k), env) = k * PEval(p, env)
       /\ (env[v] = val => PEval(PSubs(p, v, val), env) = PEval(p, env))
  /\ PAdd(p, q) = PAdd(q, p) /\ PMul(p, q) = PMul(q, p)
  /\ PAdd(p, PScale(p, -1)) = <<>>
  /\ PScale(p, k) = PMul(p, PConst(k))
  /\ v \notin PVars(PSubs(p, v, val))
  /\ \A m \in DOMAIN PAdd(p, q) : PAdd(p, q)[m] # 0
=============================================================================
