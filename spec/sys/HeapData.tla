------------------------------ MODULE HeapData -------------------------------
(***************************************************************************)
(* C18, the parameter level of the heap.  The operators of a tape refer to *)
(* their parameters; a parameter is a DATUM that is either an immutable    *)
(* scalar (python float, numpy scalar: `x += y` rebinds x to a new datum)  *)
(* or a mutable array owned by the circuit (numpy ndarray, autograd        *)
(* tensor: `x += y` writes into the datum).  What an observer sees of a    *)
(* tape is Value(o): the values of the data its operators refer to.        *)
(*                                                                         *)
(* A merging pass (global phases, rotations, embeddings) adds parameters   *)
(* up.  Documented behaviour: TMergeFresh (the sum is a new datum) or      *)
(* TKeep (operators, hence data, are shared and left alone).  Defect       *)
(* pattern: TMergeInPlace, the accumulator IS the first parameter of the   *)
(* input and later ones are added with `+=`.                               *)
(*                                                                         *)
(* TLC: BornEqual / Immutable hold on all histories without in-place       *)
(* accumulation; with it they fail IF AND ONLY IF mutable data exist       *)
(* (Mutables = TRUE) - with immutable scalars the defect pattern is        *)
(* unobservable.  Hence the representation of the parameters is a          *)
(* dimension of the input space that the generator (HeapGen.tla, Reps) has *)
(* to enumerate.                                                           *)
(***************************************************************************)
EXTENDS Integers, Sequences, FiniteSets, TLC
CONSTANTS MaxObjs, MaxData, Vals, Mutables, InPlaceAcc
VARIABLES data,   \* datum id -> [mut |-> BOOLEAN, val |-> number]
          objs,   \* object id -> sequence of datum ids (the parameters of its operators, in order)
          born,   \* ghost: object id -> Value at creation
          hist
vars == <<data, objs, born, hist>>
NObj == Len(objs)
NDat == Len(data)
Value(o) == [n \in 1..Len(objs[o]) |-> data[objs[o][n]].val]
RECURSIVE SumV(_, _)
SumV(s, n) == IF n = 0 THEN 0 ELSE data[s[n]].val + SumV(s, n - 1)
Kinds == IF Mutables THEN BOOLEAN ELSE {FALSE}

Init == data = <<>> /\ objs = <<>> /\ born = <<>> /\ hist = <<>>

\* the user builds a circuit with two parameters, both of one representation
Create(v1, v2, mut) ==
  /\ NObj < MaxObjs /\ NDat + 2 <= MaxData
  /\ data' = data \o <<[mut |-> mut, val |-> v1], [mut |-> mut, val |-> v2]>>
  /\ objs' = Append(objs, <<NDat + 1, NDat + 2>>)
  /\ born' = Append(born, <<v1, v2>>)
  /\ hist' = Append(hist, [e |-> "create", in |-> 0])
\* nothing to merge / operators reused: the output refers to the same data
TKeep(o) ==
  /\ NObj < MaxObjs
  /\ objs' = Append(objs, objs[o]) /\ born' = Append(born, Value(o)) /\ data' = data
  /\ hist' = Append(hist, [e |-> "transform-keep", in |-> o])
\* phi = 0; for p in params: phi += p      (a fresh datum)
TMergeFresh(o) ==
  /\ NObj < MaxObjs /\ NDat < MaxData /\ Len(objs[o]) > 1
  /\ LET s == SumV(objs[o], Len(objs[o])) IN
     /\ data' = Append(data, [mut |-> data[objs[o][1]].mut, val |-> s])
     /\ objs' = Append(objs, <<NDat + 1>>) /\ born' = Append(born, <<s>>)
  /\ hist' = Append(hist, [e |-> "transform-merge-fresh", in |-> o])
\* phi = params[0]; for p in params[1:]: phi += p
TMergeInPlace(o) ==
  /\ InPlaceAcc /\ NObj < MaxObjs /\ Len(objs[o]) > 1
  /\ LET acc == objs[o][1]
         s == SumV(objs[o], Len(objs[o])) IN
     IF data[acc].mut
     THEN /\ data' = [data EXCEPT ![acc].val = s]               \* += writes into the input's array
          /\ objs' = Append(objs, <<acc>>) /\ born' = Append(born, <<s>>)
     ELSE /\ NDat < MaxData                                      \* += rebinds: a new scalar
          /\ data' = Append(data, [mut |-> FALSE, val |-> s])
          /\ objs' = Append(objs, <<NDat + 1>>) /\ born' = Append(born, <<s>>)
  /\ hist' = Append(hist, [e |-> "transform-merge-in-place", in |-> o])

Next == \/ \E v1, v2 \in Vals, mut \in Kinds : Create(v1, v2, mut)
        \/ \E o \in 1..NObj : TKeep(o) \/ TMergeFresh(o) \/ TMergeInPlace(o)

Immutable == [][\A o \in 1..NObj : Value(o)' = Value(o)]_vars
BornEqual == \A o \in 1..NObj : Value(o) = born[o]
=============================================================================
