------------------------------ MODULE Folding -------------------------------
(***************************************************************************)
(* C25: global unitary folding, transcribed from the documentation of      *)
(* qp.noise.fold_global.  A circuit is the list L_1 .. L_d; a folded       *)
(* circuit is a list of signed indices (+i = L_i, -i = adjoint(L_i)):      *)
(*                                                                         *)
(*   fold(U) = U (U^dag U)^n (L_d^dag .. L_{d-k+1}^dag)(L_{d-k+1} .. L_d)  *)
(*                                                                         *)
(* as a circuit list: the d gates, n times (all adjoints in reverse order, *)
(* then the d gates), then the adjoints of the last k gates in reverse     *)
(* order followed by the last k gates, with                                *)
(*   n = floor((lambda - 1) / 2),                                          *)
(*   k = floor(((lambda - 1) mod 2) * d / 2)       (documented rounding).  *)
(* The scale factor is the rational lambda = q / Den (a dyadic grid).      *)
(*                                                                         *)
(* Property level ("gate count matching the scale factor"): the folded     *)
(* length d + 2nd + 2k is one of the two achievable lengths bracketing     *)
(* lambda * d, i.e. k is floor or ceiling of ((lambda-1) mod 2) d / 2.     *)
(* Which of the two is taken when they differ is mechanism level (the      *)
(* documentation says floor).                                              *)
(*                                                                         *)
(* TLC checks for every d <= MaxD and every grid point:                    *)
(*   Reduces  the folded word freely reduces to L_1 .. L_d (U_out = U_in   *)
(*            for any gates whatsoever),                                   *)
(*   LenOK    its length is d + 2nd + 2k,                                  *)
(*   Bracket  Den*len(floor) <= q*d < Den*(len(floor) + 2) and the         *)
(*            ceiling variant is within 2 above,                           *)
(* and emits the table (d, q, n, kfloor, kceil, both folded words).        *)
(***************************************************************************)
EXTENDS Integers, Sequences, TLC, Json
CONSTANTS MaxD, Den, MaxScale

NFold(q) == (q - Den) \div (2 * Den)
FracNum(q) == (q - Den) % (2 * Den)               \* ((lambda - 1) mod 2) in units of 1/Den
KFloor(d, q) == (FracNum(q) * d) \div (2 * Den)
KExact(d, q) == (FracNum(q) * d) % (2 * Den) = 0
KCeil(d, q) == IF KExact(d, q) THEN KFloor(d, q) ELSE KFloor(d, q) + 1

Base(d) == [i \in 1..d |-> i]
AdjRev(d, k) == [i \in 1..k |-> -(d - i + 1)]
Suffix(d, k) == [i \in 1..k |-> d - k + i]
RECURSIVE Rep(_, _)
Rep(s, n) == IF n = 0 THEN <<>> ELSE s \o Rep(s, n - 1)
Folded(d, n, k) == Base(d) \o Rep(AdjRev(d, d) \o Base(d), n) \o AdjRev(d, k) \o Suffix(d, k)

RECURSIVE Reduce(_, _)
Reduce(stack, rest) ==
  IF rest = <<>> THEN stack
  ELSE IF Len(stack) > 0 /\ stack[Len(stack)] = -Head(rest) THEN Reduce(SubSeq(stack, 1, Len(stack) - 1), Tail(rest))
  ELSE Reduce(Append(stack, Head(rest)), Tail(rest))

VARIABLES d, q, done
Init == d \in 1..MaxD /\ q \in Den..(MaxScale * Den) /\ done = FALSE
Row == [d |-> d, q |-> q, den |-> Den, n |-> NFold(q), kfloor |-> KFloor(d, q), kceil |-> KCeil(d, q),
        wfloor |-> Folded(d, NFold(q), KFloor(d, q)), wceil |-> Folded(d, NFold(q), KCeil(d, q))]
Next == ~done /\ PrintT(ToJson(Row)) /\ done' = TRUE /\ UNCHANGED <<d, q>>

Reduces == /\ Reduce(<<>>, Folded(d, NFold(q), KFloor(d, q))) = Base(d)
           /\ Reduce(<<>>, Folded(d, NFold(q), KCeil(d, q))) = Base(d)
LenOK == /\ Len(Folded(d, NFold(q), KFloor(d, q))) = d + 2 * NFold(q) * d + 2 * KFloor(d, q)
         /\ Len(Folded(d, NFold(q), KCeil(d, q))) = d + 2 * NFold(q) * d + 2 * KCeil(d, q)
         /\ KCeil(d, q) <= d /\ KFloor(d, q) >= 0
Bracket == LET lf == d + 2 * NFold(q) * d + 2 * KFloor(d, q)
               lc == d + 2 * NFold(q) * d + 2 * KCeil(d, q)
           IN /\ Den * lf <= q * d /\ q * d < Den * (lf + 2)
              /\ Den * lc >= q * d /\ Den * lc < q * d + 2 * Den
              /\ (KExact(d, q) => Den * lf = q * d)
=============================================================================
