------------------------------ MODULE Executor ------------------------------
(***************************************************************************)
(* Backend-generic model of a task executor (pennylane.concurrency:        *)
(* serial / multiprocessing.Pool / concurrent.futures process + thread     *)
(* pools) serving one map / starmap / submit call, written from the        *)
(* documented contract: "map provided function to all iterables, each      *)
(* index running on the executor backend", results returned as a list in   *)
(* input order, at most max_workers tasks at a time.                       *)
(*                                                                         *)
(* One action per critical section:                                        *)
(*   Submit(i)    the caller hands task i (input order) to the pool        *)
(*   Dispatch(i)  a free worker takes a pending task                       *)
(*   Complete(i)  ANY running task finishes  <- the schedule nondeterminism*)
(*   Collect      the caller takes the next result in INPUT order          *)
(*   FinishRound  the call returns                                         *)
(* Device layer (default.qubit.execute, used by C31):                      *)
(*   DrawSeeds    one seed per task is drawn from the device generator     *)
(*                strictly BEFORE any task is handed out                   *)
(*   FinishRound  also re-seeds the device generator ("reset _rng")        *)
(*                                                                         *)
(* Task i of the batch has abstract argument i; its result is the          *)
(* injective term Res(i, seed_i) (seed 0 without device layer).            *)
(* The generator is an abstract PRNG (full-period LCG mod 64).             *)
(*                                                                         *)
(* Bug # "none" switches on a deliberately wrong variant; they exist only  *)
(* as model-level negative controls (TLC must report an invariant          *)
(* violation for each of them):                                            *)
(*   "collect-as-completed"  results gathered in completion order          *)
(*   "shared-rng"            tasks draw from the shared generator when     *)
(*                           they run instead of receiving a seed          *)
(*   "draw-at-dispatch"      seed drawn when the task is dispatched (wrong *)
(*                           as soon as dispatch is not first-in-first-out)*)
(***************************************************************************)
EXTENDS Integers, Sequences, FiniteSets, TLC
CONSTANTS TaskCounts,    \* set of batch sizes explored (Init picks one)
          WorkerCounts,  \* set of pool sizes explored
          Fifo,          \* TRUE: workers take the head of the queue (all native pools); FALSE: any pending task
          Device,        \* TRUE: device layer (seeded execution)
          Rounds,        \* number of consecutive calls on the same executor / device
          Seeds,         \* set of initial generator states
          Bug
VARIABLES n, w, rng0,            \* chosen in Init, never changed
          phase,                 \* "idle" -> "run" -> ("idle" | "end")
          round, nsub, queue, running, done, out, collected, corder, rng, seeds,
          outs, corders          \* history: per finished round, the returned list and the completion order
vars == <<n, w, rng0, phase, round, nsub, queue, running, done, out, collected, corder, rng, seeds, outs, corders>>

SeqSet(s) == {s[i] : i \in 1..Len(s)}
Without(s, x) == SelectSeq(s, LAMBDA y : y # x)
Put(f, k, v) == [x \in DOMAIN f \cup {k} |-> IF x = k THEN v ELSE f[x]]

\* ------------------------------------------------------------ abstract generator and results
Nxt(r) == (5 * r + 3) % 64
Reseed(r) == (13 * r + 7) % 64
RECURSIVE Draws(_, _)
Draws(r, k) == IF k = 0 THEN <<>> ELSE <<r>> \o Draws(Nxt(r), k - 1)
RECURSIVE After(_, _)
After(r, k) == IF k = 0 THEN r ELSE After(Nxt(r), k - 1)
Res(i, s) == 1000 * i + s

\* what the documentation promises, as a function of (rng0, n) ONLY: no schedule, no worker count
RECURSIVE RoundRng(_, _, _)
RoundRng(r0, m, k) == IF k = 1 THEN r0 ELSE Reseed(After(RoundRng(r0, m, k - 1), m))
ExpectedSeeds(k) == Draws(RoundRng(rng0, n, k), n)
ExpectedOut(k) == [i \in 1..n |-> Res(i, IF Device THEN ExpectedSeeds(k)[i] ELSE 0)]

\* ------------------------------------------------------------ initial state
StartRound == /\ nsub = 0 /\ queue = <<>> /\ running = {} /\ done = <<>> /\ out = <<>> /\ collected = {}
              /\ corder = <<>> /\ seeds = <<>>
InitWith(n0, w0, r0) ==
  /\ n = n0 /\ w = w0 /\ rng0 = r0 /\ rng = r0 /\ round = 1 /\ outs = <<>> /\ corders = <<>>
  /\ phase = IF Device /\ Bug \notin {"shared-rng", "draw-at-dispatch"} THEN "idle" ELSE "run"
  /\ StartRound
Init == \E n0 \in TaskCounts, w0 \in WorkerCounts, r0 \in Seeds : InitWith(n0, w0, r0)

\* ------------------------------------------------------------ actions
DrawSeeds ==
  /\ phase = "idle"
  /\ seeds' = Draws(rng, n) /\ rng' = After(rng, n) /\ phase' = "run"
  /\ UNCHANGED <<n, w, rng0, round, nsub, queue, running, done, out, collected, corder, outs, corders>>

Submit(i) ==
  /\ phase = "run" /\ i = nsub + 1 /\ i <= n
  /\ nsub' = i /\ queue' = Append(queue, i)
  /\ UNCHANGED <<n, w, rng0, phase, round, running, done, out, collected, corder, rng, seeds, outs, corders>>

Pending == IF Fifo THEN (IF queue = <<>> THEN {} ELSE {Head(queue)}) ELSE SeqSet(queue)

\* a free worker takes task i
Take(i) == /\ running' = running \cup {i} /\ queue' = Without(queue, i)
Dispatch(i) ==
  /\ phase = "run" /\ i \in Pending /\ Cardinality(running) < w
  /\ Take(i)
  /\ IF Bug = "draw-at-dispatch" THEN seeds' = Put(seeds, i, rng) /\ rng' = Nxt(rng)
                                 ELSE UNCHANGED <<seeds, rng>>
  /\ UNCHANGED <<n, w, rng0, phase, round, nsub, done, out, collected, corder, outs, corders>>

SeedOf(i) == IF ~Device THEN 0 ELSE IF Bug = "shared-rng" THEN rng ELSE seeds[i]
\* running task i finishes with value v
Finish(i, v) == /\ running' = running \ {i} /\ done' = Put(done, i, v) /\ corder' = Append(corder, i)
Complete(i) ==
  /\ phase = "run" /\ i \in running
  /\ Finish(i, Res(i, SeedOf(i)))
  /\ rng' = IF Device /\ Bug = "shared-rng" THEN Nxt(rng) ELSE rng
  /\ UNCHANGED <<n, w, rng0, phase, round, nsub, queue, out, collected, seeds, outs, corders>>

\* the caller's result list grows in input order
Gather(k) == /\ out' = Append(out, done[k]) /\ collected' = collected \cup {k}
Collect ==
  /\ phase = "run"
  /\ \E k \in DOMAIN done \ collected :
       /\ (Bug # "collect-as-completed" => k = Len(out) + 1)
       /\ Gather(k)
  /\ UNCHANGED <<n, w, rng0, phase, round, nsub, queue, running, done, corder, rng, seeds, outs, corders>>

FinishRound ==
  /\ phase = "run" /\ Len(out) = n
  /\ outs' = Append(outs, out) /\ corders' = Append(corders, corder)
  /\ rng' = IF Device THEN Reseed(rng) ELSE rng
  /\ round' = round + 1
  /\ phase' = IF round >= Rounds THEN "end"
              ELSE IF Device /\ Bug \notin {"shared-rng", "draw-at-dispatch"} THEN "idle" ELSE "run"
  /\ nsub' = 0 /\ queue' = <<>> /\ running' = {} /\ done' = <<>> /\ out' = <<>> /\ collected' = {}
  /\ corder' = <<>> /\ seeds' = <<>>
  /\ UNCHANGED <<n, w, rng0>>

Next == \/ DrawSeeds
        \/ \E i \in 1..n : Submit(i) \/ Dispatch(i) \/ Complete(i)
        \/ Collect
        \/ FinishRound

\* ------------------------------------------------------------ invariants
TypeOK ==
  /\ phase \in {"idle", "run", "end"} /\ nsub \in 0..n /\ running \subseteq 1..n
  /\ SeqSet(queue) \subseteq 1..n /\ DOMAIN done \subseteq 1..n /\ collected \subseteq DOMAIN done
WorkerBound == Cardinality(running) <= w
\* every submitted task is in exactly one place; nothing is lost, nothing runs twice
ExactlyOnce ==
  /\ Cardinality(SeqSet(queue)) = Len(queue)
  /\ SeqSet(queue) \cap running = {} /\ SeqSet(queue) \cap DOMAIN done = {} /\ running \cap DOMAIN done = {}
  /\ SeqSet(queue) \cup running \cup DOMAIN done = 1..nsub
\* C65 / C31 order preservation and schedule independence: whatever happened so far, the list handed to the
\* caller is a prefix of the list a plain sequential map would produce
OrderPreserved == phase = "run" => \A k \in 1..Len(out) : out[k] = ExpectedOut(round)[k]
\* C31 reproducibility: every finished round returned the value determined by (rng0, n) alone, hence two
\* behaviours (two devices, any two schedules, any two worker counts) with equal rng0 return equal lists
Reproducible == \A k \in 1..Len(outs) : outs[k] = ExpectedOut(k)
\* C31 mechanism: all seeds exist before the first task is handed out
SeedsBeforeDispatch == (Device /\ phase = "run" /\ (running # {} \/ DOMAIN done # {})) => DOMAIN seeds = 1..n
RngOK == (Device /\ phase = "idle") => rng = RoundRng(rng0, n, round)
\* the call always returns: the only states without a successor are final
Progress == phase = "end" \/ ENABLED Next
=============================================================================
