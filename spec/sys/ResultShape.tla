----------------------------- MODULE ResultShape -----------------------------
(***************************************************************************)
(* C32: the structure of a returned result is a function of the REQUEST.   *)
(* Pure operators, no variables.  Written from the "Return Type            *)
(* Specification" (pennylane/workflow/return_types_spec.rst), the          *)
(* documentation of the measurement functions and of the gradient          *)
(* transforms; nothing here mentions a device, an interface or a           *)
(* differentiation method.                                                 *)
(*                                                                         *)
(* Nesting, from the outside to the inside (return type specification):    *)
(*   1. tape in the batch      - always a tuple for a batch                *)
(*   2. shot entry             - a tuple iff the shots are partitioned     *)
(*                               (more than one execution in the list)     *)
(*   3. measurement            - a tuple iff the tape has >= 2 measurements*)
(*   4. parameter broadcasting - NO tuple: a leading axis of the array     *)
(*                               (a batch size of 1 is still an axis)      *)
(*   5. fundamental measurement shape                                      *)
(* Jacobians follow the same nesting, with the parameter axes appended:    *)
(*   - tape level (gradient transforms, device derivatives): inside every  *)
(*     measurement a tuple over the trainable parameters (skipped when     *)
(*     there is exactly one), each entry shaped like the measurement;      *)
(*   - QNode level (autograd / jax / torch Jacobians): every result array  *)
(*     of shape s becomes an array of shape s ++ shape(argument), wrapped  *)
(*     in a tuple over the arguments when several are differentiated.      *)
(*                                                                         *)
(* Request encoding (JSON compatible):                                     *)
(*   tape  = [shots |-> expanded list of shot counts (<<>> = analytic),    *)
(*            meas  |-> sequence of [kind |-> string, w |-> #wires],       *)
(*            b     |-> broadcast size (0 = not broadcast)]                *)
(*   kinds : "expval" "var" "purity" "vnentropy" (scalars),                *)
(*           "probs" (w wires, 0 = all), "sample" (w wires, 0 = all),      *)
(*           "sampleobs" (samples of an observable), "counts" (a dict),    *)
(*           "state" (pure state vector), "dm" (density matrix of w wires) *)
(* Abstract shape tree:                                                    *)
(*   [k |-> "T", s |-> <<>>, c |-> children]   tuple (or list)             *)
(*   [k |-> "A", s |-> dims, c |-> <<>>]       array / scalar of shape dims*)
(*   [k |-> "D", s |-> <<>>, c |-> <<>>]       dictionary (counts)         *)
(***************************************************************************)
EXTENDS Integers, Sequences, TLC

T(ch) == [k |-> "T", s |-> <<>>, c |-> ch]
A(sh) == [k |-> "A", s |-> sh, c |-> <<>>]
D == [k |-> "D", s |-> <<>>, c |-> <<>>]

RECURSIVE Pow2(_)
Pow2(n) == IF n = 0 THEN 1 ELSE 2 * Pow2(n - 1)

NW(m, n) == IF m.w = 0 THEN n ELSE m.w          \* wires measured: none given = all wires of the circuit

Scalars == {"expval", "var", "purity", "vnentropy"}
NeedsShots == {"sample", "sampleobs", "counts"}
NeedsAnalytic == {"state", "dm", "purity", "vnentropy"}
Kinds == Scalars \cup NeedsShots \cup NeedsAnalytic \cup {"probs"}

(* fundamental shape of one measurement executed with s shots (s = 0: analytic) on an n-wire circuit *)
Fund(m, s, n) ==
  CASE m.kind \in Scalars   -> <<>>
    [] m.kind = "probs"     -> <<Pow2(NW(m, n))>>
    [] m.kind = "sample"    -> <<s, NW(m, n)>>          \* (shots, wires), no squeezing of singleton axes
    [] m.kind = "sampleobs" -> <<s>>
    [] m.kind = "state"     -> <<Pow2(n)>>
    [] m.kind = "dm"        -> <<Pow2(NW(m, n)), Pow2(NW(m, n))>>

BShape(b) == IF b = 0 THEN <<>> ELSE <<b>>

Leaf(m, s, n, b) ==
  IF m.kind = "counts" THEN (IF b = 0 THEN D ELSE T([i \in 1..b |-> D]))       \* one dictionary per batch entry
  ELSE A(BShape(b) \o Fund(m, s, n))

ValidTape(t, n) ==
  /\ Len(t.meas) >= 1 /\ t.b >= 0
  /\ \A j \in 1..Len(t.shots) : t.shots[j] >= 1
  /\ \A i \in 1..Len(t.meas) :
        /\ t.meas[i].kind \in Kinds /\ t.meas[i].w \in 0..n
        /\ (t.meas[i].kind \in NeedsShots => t.shots # <<>>)
        /\ (t.meas[i].kind \in NeedsAnalytic => t.shots = <<>>)

Partitioned(t) == Len(t.shots) > 1
ShotOf(t, j) == IF t.shots = <<>> THEN 0 ELSE t.shots[j]

(* --- results ---------------------------------------------------------- *)
MeasLevel(t, s, n) ==
  IF Len(t.meas) = 1 THEN Leaf(t.meas[1], s, n, t.b)
  ELSE T([i \in 1..Len(t.meas) |-> Leaf(t.meas[i], s, n, t.b)])

TapeTree(t, n) ==
  IF Partitioned(t) THEN T([j \in 1..Len(t.shots) |-> MeasLevel(t, t.shots[j], n)])
  ELSE MeasLevel(t, ShotOf(t, 1), n)

BatchTree(ts, n) == T([i \in 1..Len(ts) |-> TapeTree(ts[i], n)])

(* --- tolerated variant: mechanism drift, NOT part of the specification --- *)
(* The return type specification says that a batch size of 1 is still a leading axis.  Statistics computed  *)
(* from samples (expval / var / probs with finite shots) are observed WITHOUT that axis when the batch size  *)
(* is 1.  The property statement only says that the shape is a function of the request, so a driver may     *)
(* count an observation equal to this variant as drift - provided every configuration shows the same tree.  *)
SqKinds == Scalars \cup {"probs"}
LeafSq(m, s, n, b) == IF b = 1 /\ s > 0 /\ m.kind \in SqKinds THEN A(Fund(m, s, n)) ELSE Leaf(m, s, n, b)
MeasLevelSq(t, s, n) ==
  IF Len(t.meas) = 1 THEN LeafSq(t.meas[1], s, n, t.b)
  ELSE T([i \in 1..Len(t.meas) |-> LeafSq(t.meas[i], s, n, t.b)])
TapeTreeSq(t, n) ==
  IF Partitioned(t) THEN T([j \in 1..Len(t.shots) |-> MeasLevelSq(t, t.shots[j], n)])
  ELSE MeasLevelSq(t, ShotOf(t, 1), n)
BatchTreeSq(ts, n) == T([i \in 1..Len(ts) |-> TapeTreeSq(ts[i], n)])

(* --- Jacobians, tape level: P trainable scalar parameters --------------- *)
ParLevel(sh, P) == IF P = 1 THEN A(sh) ELSE T([p \in 1..P |-> A(sh)])
JLeafT(m, s, n, b, P) == ParLevel(BShape(b) \o Fund(m, s, n), P)
JMeasLevelT(t, s, n, P) ==
  IF Len(t.meas) = 1 THEN JLeafT(t.meas[1], s, n, t.b, P)
  ELSE T([i \in 1..Len(t.meas) |-> JLeafT(t.meas[i], s, n, t.b, P)])
JacTapeTree(t, n, P) ==
  IF Partitioned(t) THEN T([j \in 1..Len(t.shots) |-> JMeasLevelT(t, t.shots[j], n, P)])
  ELSE JMeasLevelT(t, ShotOf(t, 1), n, P)
JacBatchTree(ts, n, Ps) == T([i \in 1..Len(ts) |-> JacTapeTree(ts[i], n, Ps[i])])

Differentiable(t) == \A i \in 1..Len(t.meas) : t.meas[i].kind \notin {"counts", "sample", "sampleobs"}

(* --- Jacobians, QNode level: args = sequence of argument shapes; wrap = the arguments were requested as a tuple *)
ArgLevel(sh, args, wrap) ==
  IF wrap THEN T([a \in 1..Len(args) |-> A(sh \o args[a])]) ELSE A(sh \o args[1])
JLeafQ(m, s, n, b, args, wrap) == ArgLevel(BShape(b) \o Fund(m, s, n), args, wrap)
JMeasLevelQ(t, s, n, args, wrap) ==
  IF Len(t.meas) = 1 THEN JLeafQ(t.meas[1], s, n, t.b, args, wrap)
  ELSE T([i \in 1..Len(t.meas) |-> JLeafQ(t.meas[i], s, n, t.b, args, wrap)])
JacQNodeTree(t, n, args, wrap) ==
  IF Partitioned(t) THEN T([j \in 1..Len(t.shots) |-> JMeasLevelQ(t, t.shots[j], n, args, wrap)])
  ELSE JMeasLevelQ(t, ShotOf(t, 1), n, args, wrap)

RECURSIVE Prod(_)
Prod(sh) == IF sh = <<>> THEN 1 ELSE sh[1] * Prod(Tail(sh))
RECURSIVE NumScalars(_)
NumScalars(args) == IF args = <<>> THEN 0 ELSE Prod(args[1]) + NumScalars(Tail(args))

(* --- tree utilities (used by the laws and by the trace validator) ------- *)
RECURSIVE Skeleton(_)
Skeleton(tr) == IF tr.k = "T" THEN T([i \in 1..Len(tr.c) |-> Skeleton(tr.c[i])])
                ELSE IF tr.k = "A" THEN A(<<>>) ELSE D
RECURSIVE WellFormed(_)
WellFormed(tr) == /\ DOMAIN tr = {"k", "s", "c"}
                  /\ tr.k \in {"T", "A", "D"}
                  /\ (tr.k # "A" => tr.s = <<>>)
                  /\ (tr.k # "T" => tr.c = <<>>)
                  /\ \A i \in 1..Len(tr.s) : tr.s[i] \in Nat
                  /\ \A i \in 1..Len(tr.c) : WellFormed(tr.c[i])
RECURSIVE Depth(_)
RECURSIVE MaxDepth(_, _)
MaxDepth(ch, i) == IF i > Len(ch) THEN 0
                   ELSE LET d == Depth(ch[i])  r == MaxDepth(ch, i + 1) IN IF d > r THEN d ELSE r
Depth(tr) == IF tr.k = "T" THEN 1 + MaxDepth(tr.c, 1) ELSE 0
RECURSIVE Leaves(_)
RECURSIVE LeavesOf(_, _)
LeavesOf(ch, i) == IF i > Len(ch) THEN <<>> ELSE Leaves(ch[i]) \o LeavesOf(ch, i + 1)
Leaves(tr) == IF tr.k = "T" THEN LeavesOf(tr.c, 1) ELSE <<tr>>

(* append the axes `ax` to every array leaf / wrap every array leaf in a tuple over the argument shapes *)
RECURSIVE AppendAxes(_, _, _)
AppendAxes(tr, args, wrap) ==
  IF tr.k = "T" THEN T([i \in 1..Len(tr.c) |-> AppendAxes(tr.c[i], args, wrap)])
  ELSE IF tr.k = "A" THEN ArgLevel(tr.s, args, wrap) ELSE tr
RECURSIVE PrependAxis(_, _)
PrependAxis(tr, b) ==
  IF tr.k = "T" THEN T([i \in 1..Len(tr.c) |-> PrependAxis(tr.c[i], b)])
  ELSE IF tr.k = "A" THEN A(<<b>> \o tr.s) ELSE T([i \in 1..b |-> D])
RECURSIVE ParamTuple(_, _)
ParamTuple(tr, P) ==
  IF tr.k = "T" THEN T([i \in 1..Len(tr.c) |-> ParamTuple(tr.c[i], P)])
  ELSE IF tr.k = "A" THEN ParLevel(tr.s, P) ELSE tr

(* --- laws of the specification (checked by TLC on every enumerated request) *)
One(t, i) == [t EXCEPT !.meas = <<t.meas[i]>>]
OneShot(t, j) == [t EXCEPT !.shots = <<t.shots[j]>>]
Unbatched(t) == [t EXCEPT !.b = 0]

(* the statement of the property, clause by clause *)
LawSingleUnwrapped(t, n) ==      \* a single measurement is unwrapped: no tuple unless shots / counts-broadcast ask for one
  (Len(t.meas) = 1 /\ ~Partitioned(t) /\ ~(t.meas[1].kind = "counts" /\ t.b > 0)) => TapeTree(t, n).k # "T"
LawMeasTuple(t, n) ==            \* multiple measurements become a tuple whose entries are the single-measurement results
  (Len(t.meas) >= 2 /\ ~Partitioned(t)) =>
     LET tr == TapeTree(t, n) IN
     /\ tr.k = "T" /\ Len(tr.c) = Len(t.meas)
     /\ \A i \in 1..Len(t.meas) : tr.c[i] = TapeTree(One(t, i), n)
LawShotTuple(t, n) ==            \* shot vectors add an outer tuple whose entries are the results of the single executions
  /\ (Partitioned(t) =>
        LET tr == TapeTree(t, n) IN
        /\ tr.k = "T" /\ Len(tr.c) = Len(t.shots)
        /\ \A j \in 1..Len(t.shots) : tr.c[j] = TapeTree(OneShot(t, j), n))
  /\ (Len(t.shots) = 1 => Depth(TapeTree(t, n)) <= 1 + (IF t.b > 0 THEN 1 ELSE 0))     \* a single entry is not a vector
LawBroadcast(t, n) ==            \* broadcasting adds one leading axis and no nesting (dictionaries: one per entry)
  t.b > 0 => TapeTree(t, n) = PrependAxis(TapeTree(Unbatched(t), n), t.b)
LawBatch(ts, n) ==
  LET tr == BatchTree(ts, n) IN tr.k = "T" /\ Len(tr.c) = Len(ts) /\ \A i \in 1..Len(ts) : tr.c[i] = TapeTree(ts[i], n)
LawJacQ(t, n, args, wrap) ==     \* Jacobians: the nesting of the result with the parameter axes appended
  Differentiable(t) =>
    /\ JacQNodeTree(t, n, args, wrap) = AppendAxes(TapeTree(t, n), args, wrap)
    /\ (~wrap => Skeleton(JacQNodeTree(t, n, args, wrap)) = Skeleton(TapeTree(t, n)))
LawJacT(t, n, P) ==
  (Differentiable(t) /\ P >= 1) =>
    /\ JacTapeTree(t, n, P) = ParamTuple(TapeTree(t, n), P)
    /\ (P = 1 => JacTapeTree(t, n, P) = TapeTree(t, n))
    /\ Len(Leaves(JacTapeTree(t, n, P))) = P * Len(Leaves(TapeTree(t, n)))
LawWellFormed(t, n) == WellFormed(TapeTree(t, n)) /\ Depth(TapeTree(t, n)) <= 3
=============================================================================
