----------------------------- MODULE FiniteDiff -----------------------------
(***************************************************************************)
(* C36: finite-difference coefficients, from the documentation of          *)
(* finite_diff_coeffs.  A rule (c_i, s_i), i = 1..N, approximates the n-th *)
(* derivative at x0 by sum_i c_i y(x0 + s_i h) / h^n.  It "has its stated  *)
(* accuracy" (differentiates every polynomial of degree < n + a exactly)   *)
(* iff the moment conditions                                               *)
(*        sum_i c_i s_i^j = j! [j = n]        for all 0 <= j < n + a       *)
(* hold (Taylor expansion; the monomials span the polynomials).            *)
(*                                                                         *)
(* Two definitions:                                                        *)
(*  (D) declarative: MomentsHold(coeffs, shifts, n, n + a), evaluated      *)
(*      exactly over the common denominator in two-limb integers; and      *)
(*      PolyExact, the statement itself on a family of polynomials;        *)
(*  (S) constructive: the strategies fix the sample points (forward        *)
(*      x0, x0+h, ...; backward x0, x0-h, ...; center symmetric around     *)
(*      x0); the rule is the solution of the linear moment system on the   *)
(*      SMALLEST stencil of the family on which it is solvable, computed   *)
(*      by Gauss-Jordan elimination over the rationals, one pivot per      *)
(*      step (ElimStep).  FiniteDiffGen checks (S) satisfies (D).          *)
(***************************************************************************)
EXTENDS Rat, FiniteSets, TLC

Strategies == {"forward", "backward", "center"}
RECURSIVE IPow(_, _)
IPow(s, j) == IF j = 0 THEN 1 ELSE s * IPow(s, j - 1)
RECURSIVE Fact(_)
Fact(j) == IF j <= 1 THEN 1 ELSE j * Fact(j - 1)
MinOfSet(S) == CHOOSE x \in S : \A y \in S : x <= y

\* the first M sample points of a strategy, in units of h (center: M odd)
Stencil(st, M) == CASE st = "forward" -> [i \in 1..M |-> i - 1]
                    [] st = "backward" -> [i \in 1..M |-> -(i - 1)]
                    [] st = "center" -> [i \in 1..M |-> i - 1 - ((M - 1) \div 2)]
FirstSize(st) == 1
NextSize(st, M) == IF st = "center" THEN M + 2 ELSE M + 1

(* ------------------------- (D) declarative conditions ------------------ *)
\* coeffs, shifts: sequences of rationals of equal length.  With c_i = P_i/L and s_i = S_i/K the j-th moment condition
\* reads  sum_i P_i S_i^j = L K^j j! [j = n]  over the integers.
RECURSIVE BigSum(_, _, _, _)
BigSum(P, S, j, k) == IF k = 0 THEN BigZero ELSE BigAdd(BigSum(P, S, j, k - 1), BigMulPow(BigInt(P[k]), S[k], j))
MomentHolds(P, S, L, K, n, j) ==
  BigSum(P, S, j, Len(P)) = (IF j = n THEN BigMulFact(BigMulPow(BigInt(L), K, j), j) ELSE BigZero)
\* the least j < R whose moment condition fails, or -1
FirstBadMoment(coeffs, shifts, n, R) ==
  LET L == CommonDen(coeffs)  K == CommonDen(shifts)
      P == TLCEval(NumsOver(coeffs, L))  S == TLCEval(NumsOver(shifts, K))
      bad == {j \in 0..(R - 1) : ~MomentHolds(P, S, L, K, n, j)}
  IN IF bad = {} THEN -1 ELSE MinOfSet(bad)
MomentsHold(coeffs, shifts, n, R) == FirstBadMoment(coeffs, shifts, n, R) = -1

\* the statement itself on the polynomials p(x) = sum_k a_k x^k, a \in [0..(R-1) -> {0, 1}]: sum_i c_i p(s_i) = p^(n)(0) = n! a_n
\* (integer shifts; plain integers, for small R)
RECURSIVE Horner(_, _, _, _)
Horner(a, s, R, k) == IF k = R THEN 0 ELSE a[k] + s * Horner(a, s, R, k + 1)
PolyVal(a, s, R) == Horner(a, s, R, 0)
RECURSIVE PSum(_, _, _, _, _)
PSum(P, S, a, R, k) == IF k = 0 THEN 0 ELSE PSum(P, S, a, R, k - 1) + P[k] * PolyVal(a, S[k], R)
PolyExact(coeffs, ishifts, n, R) ==
  LET L == CommonDen(coeffs)  P == TLCEval(NumsOver(coeffs, L)) IN
  \A a \in [0..(R - 1) -> {0, 1}] : PSum(P, ishifts, a, R, Len(P)) = L * Fact(n) * a[n]

(* ------------------------- (S) the moment system ----------------------- *)
\* augmented R x (M+1) matrix: row j+1 is the j-th moment condition on the stencil, last column the right-hand side
SysInit(n, R, st, M) ==
  LET sh == Stencil(st, M) IN
  [mat |-> [j \in 1..R |-> [k \in 1..(M + 1) |-> IF k <= M THEN RInt(IPow(sh[k], j - 1))
                                                   ELSE RInt(IF j - 1 = n THEN Fact(n) ELSE 0)]],
   r |-> 1, c |-> 1, piv |-> <<>>]
ElimDone(e, R, M) == e.r > R \/ e.c > M
ElimStep(e, R, M) ==
  LET cand == {i \in e.r..R : ~RIsZero(e.mat[i][e.c])} IN
  IF cand = {} THEN [e EXCEPT !.c = @ + 1]
  ELSE IF RIsZero(e.mat[e.r][e.c])
       THEN LET k == MinOfSet(cand) IN [e EXCEPT !.mat = [@ EXCEPT ![e.r] = e.mat[k], ![k] = e.mat[e.r]]]
       ELSE LET p == e.mat[e.r][e.c]
                prow == TLCEval([k \in 1..(M + 1) |-> RDiv(e.mat[e.r][k], p)])
            IN [e EXCEPT !.mat = [i \in 1..R |-> IF i = e.r THEN prow
                                               ELSE IF RIsZero(e.mat[i][e.c]) THEN e.mat[i]
                                               ELSE [k \in 1..(M + 1) |-> RSub(e.mat[i][k], RMul(e.mat[i][e.c], prow[k]))]],
                         !.piv = Append(@, e.c), !.r = @ + 1, !.c = @ + 1]
\* read-offs, valid when ElimDone
Consistent(e, R, M) == \A i \in (Len(e.piv) + 1)..R : RIsZero(e.mat[i][M + 1])
Unique(e, M) == Len(e.piv) = M
Solution(e, M) == [k \in 1..M |-> e.mat[k][M + 1]]          \* when Unique: pivot k sits in row k
=============================================================================
