----------------------------- MODULE DatasetStore -----------------------------
(***************************************************************************)
(* pennylane.data: datasets, their attributes and the HDF5 files behind    *)
(* them, written from the documentation of Dataset / Dataset.open /        *)
(* Dataset.write / Dataset.read (docstrings) -- not from the code.         *)
(*                                                                         *)
(* State: `files` (path -> exists?, attribute -> value), `ds` (python      *)
(* variable slot -> none / open / closed dataset; an open dataset is       *)
(* either in memory with its own contents, or bound to a file whose        *)
(* contents it shows and edits in place), `tok` (next value token).        *)
(* A value is opaque: a token (the k-th value ever assigned is token k;    *)
(* the harness maps tokens to concrete python values), or a nested         *)
(* dataset (one level: attribute -> token).                                *)
(*                                                                         *)
(* One action per public call:                                             *)
(*   New            Dataset()                                              *)
(*   SetAttr        d.a = value            (a not present)                 *)
(*   SetNested      d.a = s                (s a Dataset: value copy)       *)
(*   SetInner       d.a.x = value          (d.a a nested dataset)          *)
(*   DelAttr        del d.a                                                *)
(*   WritePath      s.write(path, mode, attributes, overwrite=)            *)
(*   WriteDS        s.write(t, attributes=, overwrite=)   t a Dataset      *)
(*   Open           Dataset.open(path, mode)   mode w, w-, a, r, copy      *)
(*   ReadPath       d.read(path, attributes, overwrite=)                   *)
(*   ReadDS         d.read(s, attributes, overwrite=)     s a Dataset      *)
(*   Close          d.close()                                              *)
(* Documented conflict rule of write/read: an attribute already present    *)
(* in the destination is kept unless overwrite=True; attributes=None       *)
(* copies every attribute.  Nothing in the documentation lets write/read   *)
(* change or close their source.                                           *)
(*                                                                         *)
(* Restriction (assumption of the check): at most one open handle per      *)
(* path at any time; attribute lists name attributes of the source.        *)
(***************************************************************************)
EXTENDS Integers, Sequences, FiniteSets, TLC

CONSTANTS D,            \* dataset slots: 1..k
          P,            \* paths: 1..m
          AttrSeq,      \* attribute names in canonical order, e.g. <<"a", "b">>
          MaxSteps,
          OpenModes,    \* subset of {"w", "w-", "a", "r", "copy"}
          WriteModes,   \* subset of {"w", "w-", "a"}
          Nested,       \* BOOLEAN: nested datasets
          Canon         \* BOOLEAN: symmetry breaking on slots / fresh paths / fresh attribute names

VARIABLES ds, files, tok, n, ev
vars == <<ds, files, tok, n, ev>>

A == {AttrSeq[i] : i \in 1..Len(AttrSeq)}
Idx(a) == CHOOSE i \in 1..Len(AttrSeq) : AttrSeq[i] = a

\* ------------------------------------------------------------------ values and contents
NoInner == [a \in A |-> 0]
Absent == [k |-> "-", t |-> 0, c |-> NoInner]
Leaf(t) == [k |-> "v", t |-> t, c |-> NoInner]
Sub(c) == [k |-> "d", t |-> 0, c |-> c]
Empty == [a \in A |-> Absent]
Present(c) == {a \in A : c[a].k # "-"}

NoDS == [st |-> "none", kind |-> "mem", path |-> 0, rw |-> FALSE, c |-> Empty]
ClosedDS == [NoDS EXCEPT !.st = "closed"]
MemDS(c) == [st |-> "open", kind |-> "mem", path |-> 0, rw |-> TRUE, c |-> c]
FileDS(p, rw) == [st |-> "open", kind |-> "file", path |-> p, rw |-> rw, c |-> Empty]
NoFile == [ex |-> FALSE, c |-> Empty]

IsOpen(d) == ds[d].st = "open"
Free(d) == ~IsOpen(d)
Writable(d) == IsOpen(d) /\ ds[d].rw
View(d) == IF ds[d].kind = "file" THEN files[ds[d].path].c ELSE ds[d].c
Held(p) == \E d \in D : IsOpen(d) /\ ds[d].kind = "file" /\ ds[d].path = p

\* the documented conflict rule
Merge(base, sel, ow) == [a \in A |-> IF sel[a].k # "-" /\ (ow \/ base[a].k = "-") THEN sel[a] ELSE base[a]]
Sel(c, all, attrs) == [a \in A |-> IF all \/ a \in attrs THEN c[a] ELSE Absent]
AttrChoices(c) == {<<TRUE, {}>>} \cup {<<FALSE, {a}>> : a \in Present(c)}

Ev0 == [act |-> "", d |-> 0, s |-> 0, p |-> 0, a |-> "", x |-> "", mode |-> "", all |-> TRUE, attrs |-> {},
        ow |-> FALSE, v |-> 0, err |-> ""]

Init == /\ ds = [d \in D |-> NoDS] /\ files = [p \in P |-> NoFile] /\ tok = 1 /\ n = 0 /\ ev = Ev0

\* d shows / edits contents c from now on
PutView(d, c) ==
  IF ds[d].kind = "file" THEN files' = [files EXCEPT ![ds[d].path].c = c] /\ ds' = ds
  ELSE ds' = [ds EXCEPT ![d].c = c] /\ files' = files
Fail(e, why) == /\ UNCHANGED <<ds, files, tok>> /\ ev' = [e EXCEPT !.err = why]

\* ------------------------------------------------------------------ actions (one per public call)
New(d) ==
  /\ Free(d)
  /\ ds' = [ds EXCEPT ![d] = MemDS(Empty)] /\ UNCHANGED <<files, tok>>
  /\ ev' = [Ev0 EXCEPT !.act = "New", !.d = d]

SetAttr(d, a) ==
  /\ Writable(d) /\ View(d)[a].k = "-"
  /\ PutView(d, [View(d) EXCEPT ![a] = Leaf(tok)]) /\ tok' = tok + 1
  /\ ev' = [Ev0 EXCEPT !.act = "Set", !.d = d, !.a = a, !.v = tok]

SetNested(d, a, s) ==
  /\ Nested /\ Writable(d) /\ IsOpen(s) /\ s # d /\ View(d)[a].k = "-"
  /\ \A b \in A : View(s)[b].k # "d"                               \* nesting depth one
  /\ PutView(d, [View(d) EXCEPT ![a] = Sub([b \in A |-> View(s)[b].t])]) /\ UNCHANGED tok
  /\ ev' = [Ev0 EXCEPT !.act = "SetDS", !.d = d, !.a = a, !.s = s]

SetInner(d, a, x) ==
  /\ Nested /\ Writable(d) /\ View(d)[a].k = "d" /\ View(d)[a].c[x] = 0
  /\ PutView(d, [View(d) EXCEPT ![a].c[x] = tok]) /\ tok' = tok + 1
  /\ ev' = [Ev0 EXCEPT !.act = "SetIn", !.d = d, !.a = a, !.x = x, !.v = tok]

DelAttr(d, a) ==
  /\ Writable(d) /\ View(d)[a].k # "-"
  /\ PutView(d, [View(d) EXCEPT ![a] = Absent]) /\ UNCHANGED tok
  /\ ev' = [Ev0 EXCEPT !.act = "Del", !.d = d, !.a = a]

WritePath(s, p, mode, all, attrs, ow) ==
  /\ IsOpen(s) /\ ~Held(p) /\ mode \in WriteModes /\ (all \/ attrs \subseteq Present(View(s)))
  /\ LET e == [Ev0 EXCEPT !.act = "WritePath", !.s = s, !.p = p, !.mode = mode, !.all = all, !.attrs = attrs, !.ow = ow] IN
     IF mode = "w-" /\ files[p].ex THEN Fail(e, "exists")
     ELSE LET base == IF mode = "a" /\ files[p].ex THEN files[p].c ELSE Empty IN
          /\ files' = [files EXCEPT ![p] = [ex |-> TRUE, c |-> Merge(base, Sel(View(s), all, attrs), ow)]]
          /\ UNCHANGED <<ds, tok>> /\ ev' = e

WriteDS(s, t, all, attrs, ow) ==
  /\ IsOpen(s) /\ Writable(t) /\ s # t /\ (all \/ attrs \subseteq Present(View(s)))
  /\ PutView(t, Merge(View(t), Sel(View(s), all, attrs), ow)) /\ UNCHANGED tok
  /\ ev' = [Ev0 EXCEPT !.act = "WriteDS", !.s = s, !.d = t, !.all = all, !.attrs = attrs, !.ow = ow]

Open(d, p, mode) ==
  /\ Free(d) /\ ~Held(p) /\ mode \in OpenModes
  /\ LET e == [Ev0 EXCEPT !.act = "Open", !.d = d, !.p = p, !.mode = mode] IN
     IF mode \in {"r", "copy"} /\ ~files[p].ex THEN Fail(e, "missing")
     ELSE IF mode = "w-" /\ files[p].ex THEN Fail(e, "exists")
     ELSE /\ ev' = e /\ UNCHANGED tok
          /\ ds' = [ds EXCEPT ![d] = IF mode = "copy" THEN MemDS(files[p].c) ELSE FileDS(p, mode # "r")]
          /\ files' = IF mode \in {"w", "w-"} \/ (mode = "a" /\ ~files[p].ex)
                      THEN [files EXCEPT ![p] = [ex |-> TRUE, c |-> Empty]] ELSE files

ReadPath(d, p, all, attrs, ow) ==
  /\ Writable(d) /\ ~Held(p) /\ (files[p].ex => (all \/ attrs \subseteq Present(files[p].c)))
  /\ LET e == [Ev0 EXCEPT !.act = "ReadPath", !.d = d, !.p = p, !.all = all, !.attrs = attrs, !.ow = ow] IN
     IF ~files[p].ex THEN Fail(e, "missing")
     ELSE /\ PutView(d, Merge(View(d), Sel(files[p].c, all, attrs), ow)) /\ UNCHANGED tok /\ ev' = e

ReadDS(d, s, all, attrs, ow) ==
  /\ Writable(d) /\ IsOpen(s) /\ s # d /\ (all \/ attrs \subseteq Present(View(s)))
  /\ PutView(d, Merge(View(d), Sel(View(s), all, attrs), ow)) /\ UNCHANGED tok      \* s stays open and unchanged
  /\ ev' = [Ev0 EXCEPT !.act = "ReadDS", !.d = d, !.s = s, !.all = all, !.attrs = attrs, !.ow = ow]

Close(d) ==
  /\ IsOpen(d)
  /\ ds' = [ds EXCEPT ![d] = ClosedDS] /\ UNCHANGED <<files, tok>>
  /\ ev' = [Ev0 EXCEPT !.act = "Close", !.d = d]

\* the call described by an event record (used by scripted prefixes and by trace validation)
Do(e) ==
  CASE e.act = "New" -> New(e.d)
    [] e.act = "Set" -> SetAttr(e.d, e.a)
    [] e.act = "SetDS" -> SetNested(e.d, e.a, e.s)
    [] e.act = "SetIn" -> SetInner(e.d, e.a, e.x)
    [] e.act = "Del" -> DelAttr(e.d, e.a)
    [] e.act = "WritePath" -> WritePath(e.s, e.p, e.mode, e.all, e.attrs, e.ow)
    [] e.act = "WriteDS" -> WriteDS(e.s, e.d, e.all, e.attrs, e.ow)
    [] e.act = "Open" -> Open(e.d, e.p, e.mode)
    [] e.act = "ReadPath" -> ReadPath(e.d, e.p, e.all, e.attrs, e.ow)
    [] e.act = "ReadDS" -> ReadDS(e.d, e.s, e.all, e.attrs, e.ow)
    [] e.act = "Close" -> Close(e.d)
    [] OTHER -> FALSE

\* ------------------------------------------------------------------ generator: symmetry breaking
LowestFree(d) == ~Canon \/ \A e \in D : e < d => IsOpen(e)
PathOK(p) == ~Canon \/ files[p].ex \/ \A q \in P : q < p => files[q].ex
InUse(c) == Present(c) \cup {x \in A : \E a \in A : c[a].c[x] # 0}
Seen == UNION ({InUse(View(d)) : d \in {e \in D : IsOpen(e)}} \cup {InUse(files[p].c) : p \in P})
AttrOK(a) == ~Canon \/ a \in Seen \/ \A b \in A \ Seen : Idx(a) <= Idx(b)
InnerOK(d, a, x) == ~Canon \/ \A y \in A : (View(d)[a].c[y] = 0 /\ y # x) => Idx(x) < Idx(y)
Bools == {FALSE, TRUE}

Next ==
  /\ n < MaxSteps /\ ev.err = "" /\ n' = n + 1
  /\ \/ \E d \in D : LowestFree(d) /\ Free(d) /\ New(d)
     \/ \E d \in D, a \in A : AttrOK(a) /\ SetAttr(d, a)
     \/ \E d, s \in D, a \in A : AttrOK(a) /\ SetNested(d, a, s)
     \/ \E d \in D, a, x \in A : InnerOK(d, a, x) /\ SetInner(d, a, x)
     \/ \E d \in D, a \in A : DelAttr(d, a)
     \/ \E s \in D, p \in P, m \in WriteModes, ow \in Bools :
          IsOpen(s) /\ PathOK(p) /\ \E ch \in AttrChoices(View(s)) : WritePath(s, p, m, ch[1], ch[2], ow)
     \/ \E s, t \in D, ow \in Bools : IsOpen(s) /\ \E ch \in AttrChoices(View(s)) : WriteDS(s, t, ch[1], ch[2], ow)
     \/ \E d \in D, p \in P, m \in OpenModes : LowestFree(d) /\ PathOK(p) /\ Open(d, p, m)
     \/ \E d \in D, p \in P, ow \in Bools :
          PathOK(p) /\ \E ch \in AttrChoices(files[p].c) : ReadPath(d, p, ch[1], ch[2], ow)
     \/ \E d, s \in D, ow \in Bools : IsOpen(s) /\ \E ch \in AttrChoices(View(s)) : ReadDS(d, s, ch[1], ch[2], ow)
     \/ \E d \in D : Close(d)

Spec == Init /\ [][Next]_vars

\* ------------------------------------------------------------------ invariants of the model
Vals == [k : {"-", "v", "d"}, t : Nat, c : [A -> Nat]]
TypeOK ==
  /\ \A d \in D : /\ ds[d].st \in {"none", "open", "closed"} /\ ds[d].kind \in {"mem", "file"}
                  /\ ds[d].path \in P \cup {0} /\ ds[d].rw \in BOOLEAN /\ \A a \in A : ds[d].c[a] \in Vals
  /\ \A p \in P : files[p].ex \in BOOLEAN /\ \A a \in A : files[p].c[a] \in Vals
OneHandle == \A d1, d2 \in D : (IsOpen(d1) /\ IsOpen(d2) /\ ds[d1].kind = "file" /\ ds[d2].kind = "file"
                                /\ ds[d1].path = ds[d2].path) => d1 = d2
HandleHasFile == \A d \in D : (IsOpen(d) /\ ds[d].kind = "file") => files[ds[d].path].ex
NoFileNoData == \A p \in P : ~files[p].ex => files[p].c = Empty
\* every token visible anywhere was issued by a Set before, values are well formed
TokOK(c) == \A a \in A : /\ (c[a].k = "v" => c[a].t \in 1..(tok - 1) /\ c[a].c = NoInner)
                         /\ (c[a].k = "-" => c[a] = Absent)
                         /\ (c[a].k = "d" => c[a].t = 0 /\ \A x \in A : c[a].c[x] \in 0..(tok - 1))
Provenance == (\A d \in D : TokOK(ds[d].c)) /\ (\A p \in P : TokOK(files[p].c))
\* a token is assigned by exactly one Set: two attributes of one container holding the same token got it by copying
\* from different sources -- impossible inside one container, because copies keep attribute names
OneTokenPerContainer(c) == \A a, b \in A : (a # b /\ c[a].k = "v" /\ c[b].k = "v") => c[a].t # c[b].t
TokensNamed == (\A d \in D : OneTokenPerContainer(ds[d].c)) /\ (\A p \in P : OneTokenPerContainer(files[p].c))

\* ------------------------------------------------------------------ documented postconditions, as action properties
Src(e) == IF e.act \in {"WritePath", "WriteDS", "ReadDS", "SetDS"} THEN e.s ELSE 0
\* (1) write / read / nested assignment never change or close their source
SourceKept == \A s \in D : s = Src(ev') => (IsOpen(s)' /\ View(s)' = View(s))
\* (2) a failed call changes nothing
ErrorKeeps == ev'.err # "" => UNCHANGED <<ds, files, tok>>
\* (3) frame: only the destination changes.  destination = a path, or the contents of an in-memory dataset
DestPath(e) == IF e.act \in {"WritePath", "Open"} THEN e.p
               ELSE IF e.act \in {"Set", "SetDS", "SetIn", "Del", "WriteDS", "ReadPath", "ReadDS"} /\ ds[e.d].kind = "file" THEN ds[e.d].path
               ELSE 0
DestSlot(e) == IF e.act \in {"New", "Open", "Close", "Set", "SetDS", "SetIn", "Del", "WriteDS", "ReadPath", "ReadDS"} THEN e.d ELSE 0
Frame == /\ \A p \in P : p # DestPath(ev') => files'[p] = files[p]
         /\ \A d \in D : d # DestSlot(ev') => ds'[d] = ds[d]
\* (4) mode "w" creates the file anew: exactly the selected attributes of the source
WriteFresh == (ev'.act = "WritePath" /\ ev'.mode = "w")
              => files'[ev'.p] = [ex |-> TRUE, c |-> Sel(View(ev'.s), ev'.all, ev'.attrs)]
\* (5) without overwrite, whatever the destination held it still holds
KeepWithoutOverwrite ==
  /\ \A p \in P : (ev'.act = "WritePath" /\ ev'.p = p /\ ev'.mode = "a" /\ ev'.err = "" /\ ~ev'.ow)
                   => \A a \in Present(files[p].c) : files'[p].c[a] = files[p].c[a]
  /\ \A d \in D : (ev'.act \in {"WriteDS", "ReadPath", "ReadDS"} /\ ev'.d = d /\ ev'.err = "" /\ ~ev'.ow)
                   => \A a \in Present(View(d)) : View(d)'[a] = View(d)[a]
\* (6) with overwrite, every selected attribute of the source is what the destination shows afterwards;
\*     in both cases an attribute absent from the destination arrives from the source
Chosen(a) == ev'.all \/ a \in ev'.attrs
SourceWins ==
  /\ \A s \in D, p \in P : (ev'.act = "WritePath" /\ ev'.s = s /\ ev'.p = p /\ ev'.err = "")
       => \A a \in Present(View(s)) : (Chosen(a) /\ (ev'.ow \/ ev'.mode # "a" \/ files[p].c[a].k = "-")) => files'[p].c[a] = View(s)[a]
  /\ \A s, d \in D : (ev'.act \in {"WriteDS", "ReadDS"} /\ ev'.s = s /\ ev'.d = d)
       => \A a \in Present(View(s)) : (Chosen(a) /\ (ev'.ow \/ View(d)[a].k = "-")) => View(d)'[a] = View(s)[a]
  /\ \A d \in D, p \in P : (ev'.act = "ReadPath" /\ ev'.d = d /\ ev'.p = p /\ ev'.err = "")
       => \A a \in Present(files[p].c) : (Chosen(a) /\ (ev'.ow \/ View(d)[a].k = "-")) => View(d)'[a] = files[p].c[a]
\* (7) copy mode detaches: an in-memory dataset never shares its contents with a file
\*     (follows from Frame; stated for the Open itself)
CopyIsSnapshot == (ev'.act = "Open" /\ ev'.mode = "copy" /\ ev'.err = "") => (ds'[ev'.d].kind = "mem" /\ ds'[ev'.d].c = files[ev'.p].c)

ActionProps == /\ SourceKept /\ ErrorKeeps /\ Frame /\ WriteFresh /\ KeepWithoutOverwrite
               /\ SourceWins /\ CopyIsSnapshot
PropsHold == [][ActionProps]_vars
=============================================================================
