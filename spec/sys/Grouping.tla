------------------------------ MODULE Grouping ------------------------------
(***************************************************************************)
(* C52: relational specification of observable grouping and of the         *)
(* diagonalisation of qubit-wise commuting groups (pure definitions).      *)
(* Words, coefficients and relations come from PauliAlg; gates from the    *)
(* reference table Gates.tla; all matrices exact (CMat, M >= 3 for the     *)
(* pi/2 rotations).                                                        *)
(*  GroupClause(n, words, coeffs, ty, groups, cgroups) = "ok" iff the      *)
(*     (word, coefficient) pairs of the groups are exactly the input       *)
(*     multiset (each term once, its coefficient attached) and the members *)
(*     of each group pairwise satisfy ty in {"qwc","commuting",            *)
(*     "anticommuting"}; otherwise the name of the violated clause.        *)
(*  IndexClause(words, ty, idx) likewise for groups of positions 0..m-1.   *)
(*  DiagClause(n, group, gc, gates, images, ic) = "ok" iff with U the      *)
(*     exact unitary of the gates  U P U^dagger = image  for every member  *)
(*     P (decided as U P = image U, U being unitary), every image is a     *)
(*     Z-type word and the coefficients are unchanged.                     *)
(***************************************************************************)
EXTENDS Gates, PauliAlg

\* ------------------------------------------------------------ the relation
Rel(ty, u, v) == CASE ty = "qwc" -> PQWC(u, v) [] ty = "commuting" -> PCommutes(u, v) [] ty = "anticommuting" -> PAnticommutes(u, v)
PairwiseRel(ty, g) == \A i, j \in DOMAIN g : i < j => Rel(ty, g[i], g[j])
RECURSIVE FlatFrom(_, _)
FlatFrom(gs, i) == IF i > Len(gs) THEN <<>> ELSE gs[i] \o FlatFrom(gs, i + 1)
Flat(gs) == FlatFrom(gs, 1)
CountIn(q, x) == Cardinality({i \in DOMAIN q : q[i] = x})
SameMultiset(aa, bb) == Bind2(TLCEval(aa), TLCEval(bb), LAMBDA a, b :
   Len(a) = Len(b) /\ \A x \in {a[i] : i \in DOMAIN a} : CountIn(a, x) = CountIn(b, x))
IsWord(w, n) == Len(w) = n /\ \A i \in 1..n : w[i] \in 0..3
PairsOf(ws, cs) == [i \in DOMAIN ws |-> <<ws[i], GdNorm(cs[i])>>]

\* ------------------------------------------------------ enabling conditions
GroupClause(n, words, coeffs, ty, groups, cgroups) ==
   IF Len(groups) # Len(cgroups) \/ \E g \in DOMAIN groups : Len(groups[g]) # Len(cgroups[g]) THEN "shape"
   ELSE Bind2(Flat(groups), Flat(cgroups), LAMBDA fg, fc :
        IF \E i \in DOMAIN fg : ~IsWord(fg[i], n) THEN "malformed-member"
        ELSE IF ~SameMultiset(fg, words) THEN "not-a-partition"
        ELSE IF ~SameMultiset(PairsOf(fg, fc), PairsOf(words, coeffs)) THEN "coefficient-detached"
        ELSE IF \E g \in DOMAIN groups : ~PairwiseRel(ty, groups[g]) THEN "relation-violated"
        ELSE "ok")
IndexClause(words, ty, idx) ==
   LET m == Len(words) IN
   IF ~SameMultiset(Flat(idx), [i \in 1..m |-> i - 1]) THEN "not-a-partition"
   ELSE IF \E g \in DOMAIN idx : ~Bind(TLCEval([i \in DOMAIN idx[g] |-> words[idx[g][i] + 1]]), LAMBDA gw : PairwiseRel(ty, gw)) THEN "relation-violated"
   ELSE "ok"
RECURSIVE CircU(_, _, _)
CircU(gs, i, n) == IF i = 0 THEN Ident(2^n) ELSE ApplyGate(CircU(gs, i - 1, n), GateM(gs[i]), gs[i].w, n)
DiagPre(n, group, gc, images, ic) ==
   IF Len(images) # Len(group) \/ Len(ic) # Len(group) \/ Len(gc) # Len(group) THEN "shape"
   ELSE IF \E i \in DOMAIN images : ~IsWord(images[i], n) THEN "malformed-image"
   ELSE IF \E i \in DOMAIN images : ~PIsZType(images[i]) THEN "image-not-Z-type"
   ELSE IF \E i \in DOMAIN group : ~GdEq(gc[i], ic[i]) THEN "coefficient-changed"
   ELSE ""
\* (full) U is a product of gates of the reference table, hence unitary: U P U^dagger = D  <=>  U P = D U (both products have a
\* monomial factor, which keeps the exact evaluation cheap)
DiagFullOK(n, group, gates, images) ==
   Bind(CircU(gates, Len(gates), n), LAMBDA U :
        \A i \in DOMAIN group : EqExact(MatMul(U, PWToMat(group[i])), MatMul(PWToMat(images[i]), U)))
\* (product) when every gate acts on one wire, U = (x)_i U_i and  U P U^dagger = D  <=>  for every wire U_i P_i U_i^dagger = s_i D_i with
\* signs s_i = +-1 whose product is +1 (tensor factors are unique up to scalars; P_i, D_i are Hermitian unitaries).
\* GroupingGen model-checks that the two evaluations agree.
AllSingleWire(gates) == \A k \in DOMAIN gates : Len(gates[k].w) = 1
RECURSIVE WireU(_, _, _)
WireU(gates, k, i) == IF k = 0 THEN Ident(2) ELSE
                      IF gates[k].w = <<i>> THEN MatMul(GateM(gates[k]), WireU(gates, k - 1, i)) ELSE WireU(gates, k - 1, i)
ConjSign(U, p, d) == Bind2(MatMul(U, PLetMat(p)), MatMul(PLetMat(d), U), LAMBDA up, du :
                        IF EqExact(up, du) THEN 1 ELSE IF EqExact(up, PMatNeg(du)) THEN -1 ELSE 0)
DiagProductOK(n, group, gates, images) ==
   Bind(TLCEval([i \in 1..n |-> WireU(gates, Len(gates), i)]), LAMBDA Us :
   Bind(TLCEval([t \in {<<i, group[j][i], images[j][i]>> : i \in 1..n, j \in DOMAIN group} |-> ConjSign(Us[t[1]], t[2], t[3])]), LAMBDA sg :
      \A j \in DOMAIN group : LET Pr[i \in 0..n] == IF i = 0 THEN 1 ELSE Pr[i-1] * sg[<<i, group[j][i], images[j][i]>>] IN Pr[n] = 1))
DiagClauseFull(n, group, gc, gates, images, ic) ==
   Bind(DiagPre(n, group, gc, images, ic), LAMBDA pre :
        IF pre # "" THEN pre ELSE IF DiagFullOK(n, group, gates, images) THEN "ok" ELSE "not-diagonalized")
DiagClause(n, group, gc, gates, images, ic) ==
   Bind(DiagPre(n, group, gc, images, ic), LAMBDA pre :
        IF pre # "" THEN pre
        ELSE IF (IF AllSingleWire(gates) THEN DiagProductOK(n, group, gates, images) ELSE DiagFullOK(n, group, gates, images)) THEN "ok"
        ELSE "not-diagonalized")
=============================================================================
