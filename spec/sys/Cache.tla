------------------------------- MODULE Cache --------------------------------
(***************************************************************************)
(* Result caching in qp.execute: the two-phase protocol of _cache_transform *)
(* over a user-visible cache (a dict, or an LRU cache with Pending          *)
(* markers), one action per critical section:                               *)
(*                                                                          *)
(*   Submit(t) / Start     the caller assembles a batch and calls execute   *)
(*   TransformHit          `key in cache`           -> nothing is executed  *)
(*   TransformMiss         cache[key] := Pending    -> the tape is executed *)
(*   Execute               the device runs the emitted tapes                *)
(*   MissPost              cache[key] := result; return it                  *)
(*   HitPost               return cache[key]   (KeyError / Pending = error) *)
(*   Finish                execute() returns                                *)
(*                                                                          *)
(* post-processing runs in batch order.  A cache configuration is           *)
(*   [kind |-> "true", ms]  cache=True: a fresh LRU(cachesize) per execute  *)
(*   [kind |-> "dict", 0]   a dict supplied by the user, shared             *)
(*   [kind |-> "lru", ms]   an LRUCache(ms) supplied by the user, shared    *)
(* (ms = 0: unbounded).  The LRU discipline is the documented one: a store  *)
(* or a successful read makes the key most recent, a membership test does   *)
(* not; a store of a new key into a full cache evicts the least recent key. *)
(*                                                                          *)
(* Tapes are abstract ids 1..nt of a `world` [key, res]: key[t] is the      *)
(* cache key class (KeyModel.Key), res[t] the class of the exact result     *)
(* (res[t] < 0: a finite-shot tape, its sampled result is not constrained). *)
(*                                                                          *)
(* Property C05 on the model:                                               *)
(*   I1  NoMissing : every HitPost finds a result                           *)
(*   I2  Sound     : the value returned for an analytic tape t is res[t]    *)
(* With an unbounded cache and a key-sound world (key[t1] = key[t2] =>      *)
(* res[t1] = res[t2]) both hold; TLC shows what happens otherwise.          *)
(***************************************************************************)
EXTENDS Integers, Sequences, FiniteSets, TLC
CONSTANT Worlds    \* set of [id, nt, key, res, sym, both, cfgs, maxBatch, maxExecs, maxTotal]
VARIABLES world, ccfg, cache, phase, batch, pos, plan, emitted, devres, nd, out, log, nexec, total, seen, hist, err
vars == <<world, ccfg, cache, phase, batch, pos, plan, emitted, devres, nd, out, log, nexec, total, seen, hist, err>>

Pending == 0
KeyOf(t) == world.key[t]
ResOf(t) == world.res[t]

\* ------------------------------------------------------------ the cache: a sequence of [k, v], least recent first
Keys(c) == {c[i].k : i \in 1..Len(c)}
Lookup(c, k) == c[CHOOSE i \in 1..Len(c) : c[i].k = k].v
Without(c, k) == SelectSeq(c, LAMBDA e : e.k # k)
Full(c, ms) == ms > 0 /\ Len(c) >= ms
\* keys evicted by cache[k] := v
PutEvict(c, ms, k) == IF k \notin Keys(c) /\ Full(c, ms) THEN <<c[1].k>> ELSE <<>>
Put(c, ms, k, v) == LET c1 == IF k \in Keys(c) THEN Without(c, k) ELSE IF Full(c, ms) THEN Tail(c) ELSE c
                    IN Append(c1, [k |-> k, v |-> v])
Touch(c, k) == Append(Without(c, k), [k |-> k, v |-> Lookup(c, k)])

Ev(op, k, v, r, ev) == [op |-> op, k |-> k, v |-> v, r |-> r, ev |-> ev]

Init == /\ world \in Worlds /\ ccfg \in world.cfgs
        /\ cache = <<>> /\ phase = "idle" /\ batch = <<>> /\ pos = 1 /\ plan = <<>> /\ emitted = <<>> /\ devres = <<>>
        /\ nd = 1 /\ out = <<>> /\ log = <<>> /\ nexec = 0 /\ total = 0 /\ seen = 0 /\ hist = <<>> /\ err = ""

\* ------------------------------------------------------------ the caller
Submit(t) ==
  /\ phase = "idle" /\ err = ""
  /\ Len(batch) < world.maxBatch /\ total < world.maxTotal /\ nexec < world.maxExecs
  /\ (ccfg.kind = "true" => nexec = 0)       \* cache=True builds a fresh cache per call: later calls repeat the first
  /\ (world.sym => t <= seen + 1)            \* interchangeable tapes: first occurrences in increasing order
  /\ batch' = Append(batch, t) /\ total' = total + 1 /\ seen' = IF t > seen THEN t ELSE seen
  /\ UNCHANGED <<world, ccfg, cache, phase, pos, plan, emitted, devres, nd, out, log, nexec, hist, err>>
Start ==
  /\ phase = "idle" /\ err = "" /\ batch # <<>>
  /\ phase' = "transform" /\ pos' = 1 /\ plan' = <<>> /\ emitted' = <<>> /\ devres' = <<>> /\ nd' = 1 /\ out' = <<>> /\ log' = <<>>
  /\ cache' = IF ccfg.kind = "true" THEN <<>> ELSE cache
  /\ UNCHANGED <<world, ccfg, batch, nexec, total, seen, hist, err>>

\* ------------------------------------------------------------ _cache_transform, first phase (one tape at a time)
TransformHit ==
  /\ phase = "transform" /\ pos <= Len(batch)
  /\ LET k == KeyOf(batch[pos]) IN
     /\ k \in Keys(cache)
     /\ plan' = Append(plan, "hit") /\ log' = Append(log, Ev("has", k, -1, 1, <<>>))
  /\ pos' = pos + 1
  /\ UNCHANGED <<world, ccfg, cache, phase, batch, emitted, devres, nd, out, nexec, total, seen, hist, err>>
TransformMiss ==
  /\ phase = "transform" /\ pos <= Len(batch)
  /\ LET k == KeyOf(batch[pos]) IN
     /\ k \notin Keys(cache)
     /\ cache' = Put(cache, ccfg.ms, k, Pending)
     /\ plan' = Append(plan, "miss") /\ emitted' = Append(emitted, batch[pos])
     /\ log' = log \o <<Ev("has", k, -1, 0, <<>>), Ev("set", k, Pending, 1, PutEvict(cache, ccfg.ms, k))>>
  /\ pos' = pos + 1
  /\ UNCHANGED <<world, ccfg, phase, batch, devres, nd, out, nexec, total, seen, hist, err>>
Execute ==
  /\ phase = "transform" /\ pos > Len(batch)
  /\ devres' = [i \in 1..Len(emitted) |-> ResOf(emitted[i])]
  /\ phase' = "post" /\ pos' = 1 /\ nd' = 1
  /\ UNCHANGED <<world, ccfg, cache, batch, plan, emitted, out, log, nexec, total, seen, hist, err>>

\* ------------------------------------------------------------ second phase: post-processing in batch order
Close(e) == /\ hist' = Append(hist, [batch |-> batch, plan |-> plan, out |-> out', log |-> log', err |-> e])
            /\ phase' = "idle" /\ batch' = <<>> /\ nexec' = nexec + 1 /\ err' = e
MissPost ==
  /\ phase = "post" /\ pos <= Len(batch) /\ plan[pos] = "miss"
  /\ LET k == KeyOf(batch[pos])  v == devres[nd] IN
     /\ cache' = Put(cache, ccfg.ms, k, v)
     /\ out' = Append(out, v)
     /\ log' = Append(log, Ev("set", k, v, 1, PutEvict(cache, ccfg.ms, k)))
  /\ nd' = nd + 1 /\ pos' = pos + 1
  /\ UNCHANGED <<world, ccfg, phase, batch, plan, emitted, devres, nexec, total, seen, hist, err>>
HitPost ==
  /\ phase = "post" /\ pos <= Len(batch) /\ plan[pos] = "hit"
  /\ LET k == KeyOf(batch[pos]) IN
     IF k \notin Keys(cache)
     THEN /\ log' = Append(log, Ev("get", k, -1, 0, <<>>)) /\ out' = out /\ Close("missing-key")
          /\ UNCHANGED <<cache, pos>>
     ELSE IF Lookup(cache, k) = Pending
     THEN /\ log' = Append(log, Ev("get", k, Pending, 1, <<>>)) /\ out' = out /\ Close("pending-result")
          /\ cache' = Touch(cache, k) /\ UNCHANGED pos
     ELSE /\ log' = Append(log, Ev("get", k, Lookup(cache, k), 1, <<>>))
          /\ out' = Append(out, Lookup(cache, k)) /\ cache' = Touch(cache, k) /\ pos' = pos + 1
          /\ UNCHANGED <<phase, batch, nexec, hist, err>>
  /\ UNCHANGED <<world, ccfg, plan, emitted, devres, nd, total, seen>>
Finish ==
  /\ phase = "post" /\ pos > Len(batch)
  /\ out' = out /\ log' = log /\ Close("")
  /\ UNCHANGED <<world, ccfg, cache, pos, plan, emitted, devres, nd, total, seen>>

Next == (\E t \in 1..world.nt : Submit(t)) \/ Start \/ TransformHit \/ TransformMiss \/ Execute \/ MissPost \/ HitPost \/ Finish

\* ------------------------------------------------------------ the property on the model
\* I1: every HitPost finds a result
NoMissing == err = ""
\* I2: the value returned for an analytic tape is that tape's own result
SoundOut(b, o) == \A i \in 1..Len(o) : ResOf(b[i]) > 0 => o[i] = ResOf(b[i])
Sound == (phase # "idle" => SoundOut(batch, out)) /\ \A e \in 1..Len(hist) : SoundOut(hist[e].batch, hist[e].out)
\* key soundness of the world (what I2 reduces to when the cache is unbounded)
KeySound(w) == \A t1, t2 \in 1..w.nt : (w.key[t1] = w.key[t2] /\ (w.res[t1] > 0 \/ w.res[t2] > 0)) => w.res[t1] = w.res[t2]
\* structural invariants of the mechanism
Bounded == ccfg.ms > 0 => Len(cache) <= ccfg.ms
UniqueKeys == Cardinality(Keys(cache)) = Len(cache)
NoPendingAtRest == (phase = "idle" /\ err = "") => \A i \in 1..Len(cache) : cache[i].v # Pending
EmittedAreMisses == phase = "post" => Len(devres) = Cardinality({i \in 1..Len(plan) : plan[i] = "miss"})
=============================================================================
