----------------------------- MODULE PipelineOps -----------------------------
(***************************************************************************)
(* C23.  Pure definitions shared by the CompilePipeline specifications.    *)
(*                                                                         *)
(* Part 1: the LIST MODEL of the construction API.  A pipeline is a        *)
(* sequence of transform kinds plus markers (label -> level, level v means *)
(* "after the v-th transform", 0 = before everything).  Every public edit  *)
(* call is an operator  Eff(st, o)  returning the state the corresponding  *)
(* Python list operation produces, written from the documentation:         *)
(*   - a transform with an expand_transform contributes the UNIT           *)
(*     <<expand, transform>>, both bound to the same positional / keyword  *)
(*     configuration; pop / remove of the transform also removes the       *)
(*     identically configured expand transform directly in front of it;    *)
(*   - documented rejections: a second terminal (final) transform          *)
(*     ("already has a terminal transform"), insert of a terminal transform*)
(*     into a non-empty pipeline, `*` of a pipeline with a terminal        *)
(*     transform, negative repetition, marker label/level errors,          *)
(*     IndexError of pop/[] exactly like a Python list.                    *)
(* Markers.  What the statement fixes ("behaves like the list operations") *)
(* is ORDER: a marker sits in a gap of the list; an edit may not move it   *)
(* across a transform that survives the edit, may not push it out of       *)
(* 0..Len, and only slicing / remove_marker may delete it.  AllowedLv      *)
(* formalises this with the provenance map of the edit.  Where the gap is  *)
(* ambiguous (insert exactly at the marker) any choice is accepted; the    *)
(* concrete convention `mk` below is mechanism only (drift).               *)
(*                                                                         *)
(* Part 2: the APPLICATION MODEL.  Tapes carry an id and a colour; stage s *)
(* of a pipeline is a fan-out table colour -> number of children (0 =      *)
(* dropped / split into none); results are symbolic terms                  *)
(*   R(t, s) = Leaf(t)                          when s > Len(pipe)         *)
(*   R(t, s) = Node(s, t, <<R(c, s+1) : c in Children(t, s)>>)             *)
(* i.e. "apply the transforms one after another by hand".                  *)
(***************************************************************************)
EXTENDS Integers, Sequences, FiniteSets, TLC

None == 99                       \* Python None in an integer slot (slice bound, pop(), add_marker level)

\* ---------------------------------------------------------------- transform kinds
IsFinal(k) == k \in {"f", "g"}
\* "xp" / "xk" are the transform x CONFIGURED with a positional / a keyword argument (x(7), x(c=7)): the companion expand
\* entry is the expand transform bound to the SAME configuration ("xep" / "xek"), never the unconfigured "xe" -- this is
\* what pop / remove recognise the pair by, and what makes the pipeline agree with transform(tape, 7) applied by hand
Expand(k) == CASE k = "x" -> "xe" [] k = "xp" -> "xep" [] k = "xk" -> "xek" [] k = "g" -> "ge" [] OTHER -> ""
Unit(k) == IF Expand(k) = "" THEN <<k>> ELSE <<Expand(k), k>>
HasFinal(s) == \E p \in 1..Len(s) : IsFinal(s[p])
NFinal(s) == Cardinality({p \in 1..Len(s) : IsFinal(s[p])})
Protected == {"top", "user", "gradient", "device", "all", "all-mlir"}

RECURSIVE Units(_)
Units(ks) == IF ks = <<>> THEN <<>> ELSE Unit(Head(ks)) \o Units(Tail(ks))

\* ---------------------------------------------------------------- small helpers
Id(n) == [p \in 1..n |-> p]
Zeros(n) == [p \in 1..n |-> 0]
Shift(s, d) == [p \in 1..Len(s) |-> s[p] + d]
InsertAt(s, i, u) == SubSeq(s, 1, i) \o u \o SubSeq(s, i + 1, Len(s))        \* i = gap index 0..Len(s)
\* the increasing sequence of the elements of a finite set of integers
RECURSIVE SortedSeq(_)
SortedSeq(S) == IF S = {} THEN <<>> ELSE LET m == CHOOSE x \in S : \A y \in S : x <= y IN <<m>> \o SortedSeq(S \ {m})
Pick(s, idx) == [p \in 1..Len(idx) |-> s[idx[p]]]                             \* idx: sequence of positions
RECURSIVE Repeat(_, _)
Repeat(s, n) == IF n <= 0 THEN <<>> ELSE s \o Repeat(s, n - 1)

\* markers as functions label -> level;  MkOf turns the JSON form <<[l |-> "m", v |-> 1], ...>> into one
MkOf(ms) == [lb \in {ms[p].l : p \in 1..Len(ms)} |-> ms[CHOOSE p \in 1..Len(ms) : ms[p].l = lb].v]
MkMerge(f, g) == [lb \in DOMAIN f \cup DOMAIN g |-> IF lb \in DOMAIN g THEN g[lb] ELSE f[lb]]
MkMap(f, Op(_)) == [lb \in DOMAIN f |-> Op(f[lb])]
MkDrop(f, S) == [lb \in DOMAIN f \ S |-> f[lb]]
EmptyMk == [lb \in {} |-> 0]

\* ---------------------------------------------------------------- Python index arithmetic (documented list semantics)
NormIns(i, n) == IF i < 0 THEN (IF n + i < 0 THEN 0 ELSE n + i) ELSE IF i > n THEN n ELSE i     \* list.insert clamps
InRange(i, n) == i >= -n /\ i < n                                                            \* list[i], list.pop(i)
Pos(i, n) == (IF i < 0 THEN n + i ELSE i) + 1                                                \* 1-based position
\* slice(a, b, s).indices(n): 0-based first index, count
SlLo(n, a, s) == IF s > 0 THEN (IF a = None THEN 0 ELSE IF a < 0 THEN (IF n + a < 0 THEN 0 ELSE n + a) ELSE IF a > n THEN n ELSE a)
                 ELSE (IF a = None THEN n - 1 ELSE IF a < 0 THEN (IF n + a < 0 THEN -1 ELSE n + a) ELSE IF a > n - 1 THEN n - 1 ELSE a)
SlHi(n, b, s) == IF s > 0 THEN (IF b = None THEN n ELSE IF b < 0 THEN (IF n + b < 0 THEN 0 ELSE n + b) ELSE IF b > n THEN n ELSE b)
                 ELSE (IF b = None THEN -1 ELSE IF b < 0 THEN (IF n + b < 0 THEN -1 ELSE n + b) ELSE IF b > n - 1 THEN n - 1 ELSE b)
SlCount(lo, hi, s) == IF s > 0 THEN (IF hi > lo THEN ((hi - lo - 1) \div s) + 1 ELSE 0)
                      ELSE (IF lo > hi THEN ((lo - hi - 1) \div (-s)) + 1 ELSE 0)
SlPositions(n, a, b, s) == LET lo == SlLo(n, a, s)  hi == SlHi(n, b, s) IN
                           [p \in 1..SlCount(lo, hi, s) |-> lo + (p - 1) * s + 1]            \* 1-based positions

\* ---------------------------------------------------------------- the list model: Eff(st, o)
\* st = [seq, mk];  o = [op, k, i, j, s, l, P, Pm]  (uniform shape; unused slots "" / 0 / <<>>);
\* o.Pm, the markers of an operand pipeline, is in list form <<[l |-> label, v |-> level], ...>>
\* result: err ("" = accepted), seq, ret (kind returned by pop / []), mk (model's marker convention),
\*         prov  : new position -> old position in st.seq (0 = new element),
\*         prov2 : new position -> position in the operand pipeline o.P (0 = not from it),
\*         must  : labels that have to survive,  free : labels whose level is fixed by the call itself
Res(seq, ret, mk, prov, prov2, must) == [err |-> "", seq |-> seq, ret |-> ret, mk |-> mk, prov |-> prov, prov2 |-> prov2, must |-> must]
Fail(e, st) == [err |-> e, seq |-> st.seq, ret |-> "", mk |-> st.mk, prov |-> Id(Len(st.seq)), prov2 |-> Zeros(Len(st.seq)),
                must |-> DOMAIN st.mk]

\* level of a marker after deleting the positions `rem`: the number of surviving transforms in front of it
Contract(v, rem) == v - Cardinality({r \in rem : r <= v})

EffAddUnit(st, u) ==          \* append / += / + / add_transform of a single transform
  LET n == Len(st.seq) IN Res(st.seq \o u, "", st.mk, Id(n) \o Zeros(Len(u)), Zeros(n + Len(u)), DOMAIN st.mk)

EffConcat(st, P, Pm) ==       \* += / + / extend with a pipeline operand (its markers move by Len)
  LET n == Len(st.seq)  m == Len(P) IN
  Res(st.seq \o P, "", MkMerge(st.mk, MkMap(Pm, LAMBDA v : v + n)), Id(n) \o Zeros(m), Zeros(n) \o Id(m), DOMAIN st.mk \cup DOMAIN Pm)

EffDelete(st, rem, ret) ==
  LET keep == SortedSeq((1..Len(st.seq)) \ rem) IN
  Res(Pick(st.seq, keep), ret, MkMap(st.mk, LAMBDA v : Contract(v, rem)), keep, Zeros(Len(keep)), DOMAIN st.mk)

Eff(st, o) ==
  LET seq == st.seq  n == Len(st.seq)  mk == st.mk IN
  CASE o.op = "init" ->                                     \* CompilePipeline(*transforms) then add_marker calls
         Res(Units(o.P), "", MkOf(o.Pm), Zeros(Len(Units(o.P))), Zeros(Len(Units(o.P))), DOMAIN MkOf(o.Pm))
    [] o.op \in {"append", "addt", "iadd", "add"} ->
         IF HasFinal(seq) /\ IsFinal(o.k) THEN Fail("TransformError", st) ELSE EffAddUnit(st, Unit(o.k))
    [] o.op \in {"iaddP", "addP", "extP"} ->
         IF HasFinal(seq) /\ HasFinal(o.P) THEN Fail("TransformError", st) ELSE EffConcat(st, o.P, MkOf(o.Pm))
    [] o.op = "extL" ->                                      \* extend with a list of (non-terminal) transforms
         EffAddUnit(st, Units(o.P))
    [] o.op = "radd" ->                                      \* transform + pipeline
         IF HasFinal(seq) /\ IsFinal(o.k) THEN Fail("TransformError", st)
         ELSE LET u == Unit(o.k)  d == Len(Unit(o.k)) IN
              Res(u \o seq, "", MkMap(mk, LAMBDA v : v + d), Zeros(d) \o Id(n), Zeros(d + n), DOMAIN mk)
    [] o.op = "insert" ->
         IF n > 0 /\ IsFinal(o.k) THEN Fail("TransformError", st)
         ELSE LET u == Unit(o.k)  d == Len(Unit(o.k))  g == NormIns(o.i, n) IN
              Res(InsertAt(seq, g, u), "", MkMap(mk, LAMBDA v : IF v >= g THEN v + d ELSE v),
                  Id(g) \o Zeros(d) \o [p \in 1..(n - g) |-> g + p], Zeros(n + d), DOMAIN mk)
    [] o.op = "pop" ->
         LET i == IF o.i = None THEN -1 ELSE o.i IN
         IF ~InRange(i, n) THEN Fail("IndexError", st)
         ELSE LET p == Pos(i, n)  k == seq[Pos(i, n)]
                  rem == IF p > 1 /\ Expand(k) # "" /\ seq[p - 1] = Expand(k) THEN {p - 1, p} ELSE {p} IN
              EffDelete(st, rem, k)
    [] o.op = "remove" ->
         EffDelete(st, {p \in 1..n : seq[p] = o.k} \cup {p \in 1..(n - 1) : Expand(o.k) # "" /\ seq[p] = Expand(o.k) /\ seq[p + 1] = o.k}, "")
    [] o.op \in {"mul", "rmul"} ->
         IF o.i < 0 THEN Fail("ValueError", st)
         ELSE IF HasFinal(seq) THEN Fail("TransformError", st)
         \* p * 0 is the empty pipeline: its markers may collapse to level 0 or be dropped (no list analogue); they must not stay out of bounds
         ELSE IF o.i = 0 THEN Res(<<>>, "", MkMap(mk, LAMBDA v : 0), <<>>, <<>>, {})
         ELSE Res(Repeat(seq, o.i), "", mk, Id(n) \o Zeros(n * (o.i - 1)), Zeros(n * o.i), DOMAIN mk)
    [] o.op = "slice" ->
         LET idx == SlPositions(n, o.i, o.j, o.s)  lo == SlLo(n, o.i, o.s)  hi == SlHi(n, o.j, o.s)
             kept == IF o.s # 1 THEN {} ELSE {lb \in DOMAIN mk : lo <= mk[lb] /\ (mk[lb] < hi \/ (mk[lb] = hi /\ hi = n))} IN
         Res(Pick(seq, idx), "", [lb \in kept |-> mk[lb] - lo], idx, Zeros(Len(idx)),
             \* documented by example (p[1:] keeps the marker in front of its first transform and the end marker):
             \* a marker in front of / inside the range survives, one at the very end survives when the slice reaches the end
             IF o.s # 1 THEN {} ELSE {lb \in DOMAIN mk : lo <= mk[lb] /\ (mk[lb] < hi \/ (mk[lb] = hi /\ hi = n))})
    [] o.op = "get" ->
         IF ~InRange(o.i, n) THEN Fail("IndexError", st)
         ELSE Res(seq, seq[Pos(o.i, n)], mk, Id(n), Zeros(n), DOMAIN mk)
    [] o.op = "addm" ->
         IF o.l \in Protected \/ o.l \in DOMAIN mk THEN Fail("ValueError", st)
         ELSE IF o.i # None /\ (o.i < 0 \/ o.i > n) THEN Fail("ValueError", st)
         ELSE Res(seq, "", MkMerge(mk, [lb \in {o.l} |-> IF o.i = None THEN n ELSE o.i]), Id(n), Zeros(n), DOMAIN mk \cup {o.l})
    [] o.op = "delm" ->
         IF o.l \notin DOMAIN mk THEN Fail("ValueError", st)
         ELSE Res(seq, "", MkDrop(mk, {o.l}), Id(n), Zeros(n), DOMAIN mk \ {o.l})
    [] o.op = "copy" -> Res(seq, "", mk, Id(n), Zeros(n), DOMAIN mk)

\* ---------------------------------------------------------------- marker conjuncts (property level)
\* levels a marker that was at level v may legitimately have after an edit with provenance prov (new -> old position):
\* every surviving transform stays on the same side of the marker
AllowedLv(v, prov) ==
  {w \in 0..Len(prov) : \A p \in 1..Len(prov) : prov[p] # 0 => ((prov[p] <= v) <=> (p <= w))}

\* verdict of the observed markers `obs` (function) after edit o on state st with model result E;  "" = fine
MarkerVerdict(st, o, E, obs) ==
  LET n2 == Len(E.seq)
      Pm == MkOf(o.Pm)
      src == MkMerge(st.mk, Pm)
      fixed == IF o.op = "addm" THEN {o.l} ELSE IF o.op = "init" THEN DOMAIN Pm ELSE {} IN
  IF \E lb \in E.must : lb \notin DOMAIN obs THEN "marker-dropped"
  ELSE IF \E lb \in DOMAIN obs : lb \notin DOMAIN src \cup fixed THEN "marker-spurious"
  ELSE IF o.op = "delm" /\ o.l \in DOMAIN obs THEN "marker-not-removed"
  ELSE IF \E lb \in DOMAIN obs : obs[lb] < 0 \/ obs[lb] > n2 THEN "marker-out-of-bounds"
  ELSE IF \E lb \in fixed : obs[lb] # E.mk[lb] THEN "marker-level-differs-from-request"
  ELSE IF o.op = "slice" /\ o.s # 1 THEN ""
  ELSE IF \E lb \in (DOMAIN obs \cap DOMAIN st.mk) \ fixed : obs[lb] \notin AllowedLv(st.mk[lb], E.prov) THEN "marker-crosses-transform"
  ELSE IF \E lb \in (DOMAIN obs \cap DOMAIN Pm) \ (fixed \cup DOMAIN st.mk) : obs[lb] \notin AllowedLv(Pm[lb], E.prov2) THEN "operand-marker-crosses-transform"
  ELSE ""

\* ---------------------------------------------------------------- application model
\* a tape is [id, c];  a stage is a function colour -> fan-out;  Base > max fan-out makes child ids unique
Child(t, j, Base, C) == [id |-> t.id * Base + j, c |-> (t.c + j) % C]
Children(t, stage, Base, C) == [j \in 1..stage[t.c] |-> Child(t, j, Base, C)]
Leaf(t) == [k |-> 0, t |-> t.id, a |-> <<>>]                 \* "execution" returns the tape's tag
Node(s, t, args) == [k |-> s, t |-> t.id, a |-> args]        \* post-processing of stage s for input tape t

RECURSIVE R(_, _, _, _, _)
R(t, s, pipe, Base, C) ==
  IF s > Len(pipe) THEN Leaf(t)
  ELSE LET ch == Children(t, pipe[s], Base, C) IN Node(s, t, [j \in 1..Len(ch) |-> R(ch[j], s + 1, pipe, Base, C)])

RECURSIVE Flatten(_)
Flatten(ss) == IF ss = <<>> THEN <<>> ELSE Head(ss) \o Flatten(Tail(ss))
RECURSIVE SumSeq(_)
SumSeq(s) == IF s = <<>> THEN 0 ELSE Head(s) + SumSeq(Tail(s))
\* slices [lo, hi) of a batch whose i-th tape has fans[i] children laid out contiguously in order
SlicesOf(fans) == [i \in 1..Len(fans) |-> [lo |-> SumSeq(SubSeq(fans, 1, i - 1)), hi |-> SumSeq(SubSeq(fans, 1, i))]]
=============================================================================
