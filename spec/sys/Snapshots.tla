----------------------------- MODULE Snapshots ------------------------------
(***************************************************************************)
(* C71: a circuit with snapshots and the dictionary qp.snapshots returns.  *)
(*                                                                         *)
(* A program is a sequence of items                                        *)
(*    [t |-> "gate"]                            one block of gates         *)
(*    [t |-> "snap", tag, mk, sh]               qp.Snapshot(tag, mk, sh)   *)
(* tag = "" means no tag; mk is the kind of the snapshot's measurement     *)
(* ("state" = the default); sh the shots option.                           *)
(*                                                                         *)
(* DECLARATIVE statement (from the documentation of qp.snapshots):         *)
(*   the result is a dictionary with one entry per snapshot, whose key is  *)
(*   the tag, or - without a tag - the index of the snapshot in order of   *)
(*   appearance among ALL snapshots, and whose value is the snapshot's     *)
(*   measurement of the circuit TRUNCATED at the snapshot (the gates       *)
(*   before it); plus "execution_results" = the measurements of the whole  *)
(*   circuit, i.e. of the circuit with the snapshots deleted.              *)
(* A value is represented by the number of gate blocks it is measured      *)
(* after (`prefix`); the harness turns a prefix into the exact value with  *)
(* TapeEval.tla.                                                           *)
(*                                                                         *)
(* OPERATIONAL model: an executor walks the program, applies gates,        *)
(* records at a snapshot the measurement of its CURRENT state, and returns *)
(* the final measurement.  TLC checks that the executor's dictionary is    *)
(* the declarative one for every program (SnapEqualsPrefix, FinalUnchanged,*)
(* KeysDistinct).                                                          *)
(***************************************************************************)
EXTENDS Integers, Sequences, FiniteSets
VARIABLES prog, phase, pc, applied, nsnap, dict, res

SnGate == [t |-> "gate", tag |-> "", mk |-> "", sh |-> ""]
SnSnap(tag, mk, sh) == [t |-> "snap", tag |-> tag, mk |-> mk, sh |-> sh]
SnGatesBefore(p, i) == Cardinality({j \in 1..(i - 1) : p[j].t = "gate"})
SnSnapsBefore(p, i) == Cardinality({j \in 1..(i - 1) : p[j].t = "snap"})
SnNGates(p) == SnGatesBefore(p, Len(p) + 1)
SnNSnaps(p) == SnSnapsBefore(p, Len(p) + 1)
SnKey(it, idx) == IF it.tag # "" THEN [t |-> "str", s |-> it.tag, i |-> 0] ELSE [t |-> "int", s |-> "", i |-> idx]
SnPos(p, k) == CHOOSE i \in 1..Len(p) : p[i].t = "snap" /\ SnSnapsBefore(p, i) = k - 1
\* the documented dictionary, in order of appearance
SnExpected(p) == [k \in 1..SnNSnaps(p) |->
   LET i == SnPos(p, k) IN [key |-> SnKey(p[i], k - 1), prefix |-> SnGatesBefore(p, i), mk |-> p[i].mk, sh |-> p[i].sh, pos |-> i]]
\* the circuit with its snapshots deleted
SnStrip(p) == SelectSeq(p, LAMBDA it : it.t = "gate")

\* ---- the executor
SnRunInit == /\ phase = "run" /\ pc = 1 /\ applied = 0 /\ nsnap = 0 /\ dict = <<>> /\ res = -1
SnStep == /\ phase = "run" /\ pc <= Len(prog)
          /\ IF prog[pc].t = "gate"
             THEN applied' = applied + 1 /\ UNCHANGED <<nsnap, dict>>
             ELSE /\ dict' = Append(dict, [key |-> SnKey(prog[pc], nsnap), prefix |-> applied, mk |-> prog[pc].mk, sh |-> prog[pc].sh, pos |-> pc])
                  /\ nsnap' = nsnap + 1 /\ UNCHANGED applied
          /\ pc' = pc + 1 /\ UNCHANGED <<prog, phase, res>>
SnDone == /\ phase = "run" /\ pc = Len(prog) + 1 /\ res = -1
          /\ res' = applied /\ UNCHANGED <<prog, phase, pc, applied, nsnap, dict>>

\* ---- invariants
SnapEqualsPrefix == phase = "run" => \A k \in 1..Len(dict) : dict[k].prefix = SnGatesBefore(prog, dict[k].pos)
FinalUnchanged == (phase = "run" /\ res # -1) => (res = Len(SnStrip(prog)) /\ dict = SnExpected(prog))
TagsDistinct(p) == \A i \in 1..Len(p) : \A j \in 1..Len(p) : (i # j /\ p[i].t = "snap" /\ p[j].t = "snap" /\ p[i].tag # "") => p[i].tag # p[j].tag
KeysDistinct == (phase = "run" /\ TagsDistinct(prog)) => \A a \in 1..Len(dict) : \A b \in 1..Len(dict) : a # b => dict[a].key # dict[b].key
\* negative control (must be VIOLATED): "the index among the UNTAGGED snapshots" is a different naming rule
SnUntaggedBefore(p, i) == Cardinality({j \in 1..(i - 1) : p[j].t = "snap" /\ p[j].tag = ""})
NegIndexAmongUntagged == (phase = "run" /\ res # -1) =>
   \A k \in 1..Len(dict) : dict[k].key.t = "int" => dict[k].key.i = SnUntaggedBefore(prog, dict[k].pos)
=============================================================================
