------------------------------ MODULE MeasSplit ------------------------------
(***************************************************************************)
(* C20 / C33: what "a batch of tapes plus a post-processing function gives *)
(* the results of the original tape" means, exactly (pure definitions).    *)
(*                                                                         *)
(* A measurement list is a sequence of                                     *)
(*   [t |-> "expval" | "var", terms |-> <<[w |-> word, c |-> <<re,im,k>>]>>]*)
(*        the observable is the Pauli sentence SUM c * word (PauliAlg);    *)
(*        identity words and repeated words allowed (constant offsets)     *)
(*   [t |-> "probs", w |-> <<wire positions>>]                             *)
(*   [t |-> "other", sup |-> <<wire positions>>]  (an observable that is   *)
(*        not a Pauli sentence; only its support is known)                 *)
(* The RESULT of a measurement list on a tape is defined from the exact    *)
(* Pauli-word expectations <w> and probabilities of that tape's final      *)
(* state (computed by TapeEval.tla, ring elements [c, k] = c / 2^k):       *)
(*   expval(S) = SUM_w S[w] <w>          var(S) = expval(S*S) - expval(S)^2*)
(*   (S*S by PauliAlg.SMul, phases included)    probs(w) = the vector      *)
(* flattened measurement by measurement, broadcast variants in order.      *)
(*                                                                         *)
(* Recombine(in, outs, A, b): the (affine) post-processing  x |-> A x + b  *)
(* applied to the exact results of the OUTPUT tapes equals the exact       *)
(* result of the INPUT tape, entry by entry and in order.                  *)
(* GroupRel(rel, tape): the observables measured together on one output    *)
(* tape are pairwise qubit-wise commuting / commuting / on disjoint wires  *)
(* / alone, as the grouping strategy promises.                             *)
(* ZBasis(tape): only I / Z letters are left (diagonalised).               *)
(***************************************************************************)
EXTENDS PauliAlg

\* ---------------------------------------------------------- exact scalars
\* [c, k, st]: c / 2^k in normal form (k minimal); st = "ok" | "overflow" | "missing" (32-bit guard, absent value)
Mx(a, b) == IF a > b THEN a ELSE b
RECURSIVE VNormR(_, _)
VNormR(c, k) == IF k > 0 /\ AllEven(c) THEN VNormR(Halve(c), k - 1) ELSE <<c, k>>
VMk(c, k) == Bind(VNormR(c, k), LAMBDA nk : [c |-> nk[1], k |-> nk[2], st |-> "ok"])
VBad(why) == [c |-> Zero, k |-> 0, st |-> why]
VZero == [c |-> Zero, k |-> 0, st |-> "ok"]
VOfRaw(r) == VMk(r.c, r.k)
VSt(x, y) == IF x.st # "ok" THEN x.st ELSE y.st
Fits(c, d) == d <= 28 /\ MaxAbs(c) < 2^(28 - d)
VAdd(xx, yy) == Bind2(xx, yy, LAMBDA x, y :
   IF VSt(x, y) # "ok" THEN VBad(VSt(x, y)) ELSE
   LET kk == Mx(x.k, y.k) IN
   IF ~Fits(x.c, kk - x.k) \/ ~Fits(y.c, kk - y.k) THEN VBad("overflow")
   ELSE VMk(Add(Scale(2^(kk - x.k), x.c), Scale(2^(kk - y.k), y.c)), kk))
VNeg(x) == [x EXCEPT !.c = Neg(x.c)]
VMul(xx, yy) == Bind2(xx, yy, LAMBDA x, y :
   IF VSt(x, y) # "ok" THEN VBad(VSt(x, y)) ELSE
   IF MaxAbs(x.c) >= 2^13 \/ MaxAbs(y.c) >= 2^13 THEN VBad("overflow") ELSE VMk(Mul(x.c, y.c), x.k + y.k))
Ab(z) == IF z < 0 THEN -z ELSE z
\* multiplication by a Gaussian dyadic coefficient <<re, im, k>>
VScaleG(g, xx) == Bind(xx, LAMBDA x :
   IF x.st # "ok" THEN x ELSE
   IF Ab(g[1]) > 2^12 \/ Ab(g[2]) > 2^12 \/ MaxAbs(x.c) >= 2^15 THEN VBad("overflow")
   ELSE VMk(IF g[2] = 0 THEN Scale(g[1], x.c) ELSE Mul(GdToRing(g), x.c), x.k + g[3]))
VEq(x, y) == x.c = y.c /\ x.k = y.k
VOfG(g) == VMk(GdToRing(g), g[3])

\* ---------------------------------------------------------- results
\* vr = [wv |-> <<[w |-> word, v |-> raw]>>, pv |-> <<[w |-> wires, v |-> <<raw>>]>>]: exact values of one tape variant
LookupW(vr, w) == LET S == {i \in DOMAIN vr.wv : vr.wv[i].w = w} IN
                  IF S = {} THEN VBad("missing") ELSE VOfRaw(vr.wv[CHOOSE i \in S : TRUE].v)
ExpvalSent(vr, ss) == Bind(ss, LAMBDA s : Bind(PSetToSeq(DOMAIN s), LAMBDA q :
   LET A[i \in 0..Len(q)] == IF i = 0 THEN VZero ELSE VAdd(A[i-1], VScaleG(s[q[i]], LookupW(vr, q[i]))) IN A[Len(q)]))
MeasVals(m, vr) ==
   CASE m.t = "expval" -> <<ExpvalSent(vr, SFromTerms(m.terms))>>
     [] m.t = "var" -> Bind(SFromTerms(m.terms), LAMBDA s : Bind(ExpvalSent(vr, s), LAMBDA e :
                         <<VAdd(ExpvalSent(vr, SMul(s, s)), VNeg(VMul(e, e)))>>))
     [] m.t = "probs" -> LET S == {i \in DOMAIN vr.pv : vr.pv[i].w = m.w} IN
                         IF S = {} THEN <<VBad("missing")>>
                         ELSE Bind(vr.pv[CHOOSE i \in S : TRUE].v, LAMBDA pv : [j \in DOMAIN pv |-> VOfRaw(pv[j])])
     [] OTHER -> <<VBad("missing")>>
RECURSIVE CatSeq(_, _)
CatSeq(ss, i) == IF i > Len(ss) THEN <<>> ELSE ss[i] \o CatSeq(ss, i + 1)
\* flattened result of one tape: measurement-major, then broadcast variant, then entry
TapeRes(tp) == CatSeq([j \in DOMAIN tp.meas |-> CatSeq([v \in DOMAIN tp.vars |-> MeasVals(tp.meas[j], tp.vars[v])], 1)], 1)
BatchRes(tapes) == CatSeq([t \in DOMAIN tapes |-> TapeRes(tapes[t])], 1)

\* ---------------------------------------------------------- the clauses
\* row = <<[j |-> column, c |-> <<re,im,k>>]>> (sparse), off = <<re,im,k>>
RowVal(row, off, r) == LET A[i \in 0..Len(row)] == IF i = 0 THEN VOfG(off)
                                                  ELSE IF row[i].j > Len(r) THEN VBad("missing")
                                                  ELSE VAdd(A[i-1], VScaleG(row[i].c, r[row[i].j])) IN A[Len(row)]
Recombine(tin, touts, rows, offs) ==
   Bind2(TLCEval(TapeRes(tin)), TLCEval(BatchRes(touts)), LAMBDA e, r :
      IF Len(rows) # Len(e) \/ Len(offs) # Len(e) THEN <<"result-shape", 0>>
      ELSE Bind(TLCEval([i \in DOMAIN e |-> RowVal(rows[i], offs[i], r)]), LAMBDA got :
           LET st == {got[i].st : i \in DOMAIN got} \cup {e[i].st : i \in DOMAIN e} IN
           IF "missing" \in st THEN <<"missing-value", 0>>
           ELSE IF "overflow" \in st THEN <<"skip-overflow", 0>>
           ELSE LET bad == {i \in DOMAIN e : ~VEq(got[i], e[i])} IN
                IF bad = {} THEN <<"ok", 0>> ELSE <<"recombination-mismatch", CHOOSE i \in bad : \A j \in bad : i <= j>>))

ZWordOn(ws, n) == [i \in 1..n |-> IF \E t \in DOMAIN ws : ws[t] = i THEN 3 ELSE 0]
SupWord(ws, n) == [i \in 1..n |-> IF \E t \in DOMAIN ws : ws[t] = i THEN 9 ELSE 0]
\* the observables measured together on a tape, as words (probabilities on wires = Z on those wires)
MeasWords(m, n) == CASE m.t = "probs" -> <<ZWordOn(m.w, n)>>
                     [] m.t = "other" -> <<SupWord(m.sup, n)>>
                     [] OTHER -> [i \in DOMAIN m.terms |-> m.terms[i].w]
TapeWords(tp, n) == CatSeq([j \in DOMAIN tp.meas |-> MeasWords(tp.meas[j], n)], 1)
Disjoint(u, v) == PSupport(u) \cap PSupport(v) = {}
HasOther(tp) == \E j \in DOMAIN tp.meas : tp.meas[j].t = "other"
GroupRel(rel, tp, n) ==
   Bind(TLCEval(TapeWords(tp, n)), LAMBDA ws :
   CASE rel = "none" -> TRUE
     [] rel = "single" -> Len(tp.meas) <= 1
     [] rel = "wires" -> \A i, j \in DOMAIN ws : i < j => Disjoint(ws[i], ws[j])
     [] rel = "qwc" -> ~HasOther(tp) /\ \A i, j \in DOMAIN ws : i < j => PQWC(ws[i], ws[j])
     [] rel = "commuting" -> ~HasOther(tp) /\ \A i, j \in DOMAIN ws : i < j => PCommutes(ws[i], ws[j])
     [] OTHER -> FALSE)
ZBasis(tp, n) == ~HasOther(tp) /\ Bind(TLCEval(TapeWords(tp, n)), LAMBDA ws : \A i \in DOMAIN ws : PIsZType(ws[i]))

\* verdict of one recorded transform call r = [n, rel, zonly, exact, tin, touts, rows, offs]
SplitVerdict(r) ==
   IF \E t \in DOMAIN r.touts : ~GroupRel(r.rel, r.touts[t], r.n) THEN <<"group-relation", CHOOSE t \in DOMAIN r.touts : ~GroupRel(r.rel, r.touts[t], r.n)>>
   ELSE IF r.zonly /\ \E t \in DOMAIN r.touts : ~ZBasis(r.touts[t], r.n) THEN <<"not-z-basis", CHOOSE t \in DOMAIN r.touts : ~ZBasis(r.touts[t], r.n)>>
   ELSE IF ~r.exact THEN <<"ok-structure", 0>>
   ELSE Recombine(r.tin, r.touts, r.rows, r.offs)
=============================================================================
