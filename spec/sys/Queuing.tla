------------------------------ MODULE Queuing -------------------------------
(***************************************************************************)
(* The recording mechanism of PennyLane (pennylane/core/queuing.py) as a   *)
(* state machine, written from the module documentation:                   *)
(*   stack   QueuingManager._active_contexts (innermost last)              *)
(*   saved   the stacks put aside by nested stop_recording() blocks        *)
(*   queues  queue id -> ordered, duplicate-free sequence of object ids    *)
(*   objs    object id -> term [k, p, iv, a]  (a = operand object ids)     *)
(* One action per public call:                                             *)
(*   Enter / Exit            AnnotatedQueue.__enter__ / __exit__           *)
(*   EnterTape / Exit        QuantumTape.__enter__ / __exit__              *)
(*   StopEnter / StopExit    QueuingManager.stop_recording()               *)
(*   Create(term, operands)  constructing an operator / wrapper /          *)
(*                           measurement: the operands leave the ACTIVE    *)
(*                           queue, the new object is appended to it       *)
(*   CreateMany(terms, ops)  a transform queuing several new operators     *)
(* qp.apply is Create of a copy (see QProgGen.DoApply).                    *)
(* Ghost variables give the declarative reading of the property:           *)
(*   created[q]   objects constructed while q was the active context       *)
(*   consumed[q]  objects handed to a wrapper constructor while q active   *)
(*   unrec        objects constructed while nothing was recording          *)
(***************************************************************************)
EXTENDS Integers, Sequences, FiniteSets, TLC
VARIABLES stack, saved, queues, objs, created, consumed, unrec
qvars == <<stack, saved, queues, objs, created, consumed, unrec>>

SeqSet(s) == {s[i] : i \in 1..Len(s)}
Last(s) == s[Len(s)]
Pop(s) == SubSeq(s, 1, Len(s) - 1)
Without(s, S) == SelectSeq(s, LAMBDA x : x \notin S)

\* QueuingManager.append / remove: only the innermost active context is touched; an object is in a queue at most once
AppendTo(qs, st, o) == IF st = <<>> THEN qs ELSE [qs EXCEPT ![Last(st)] = IF o \in SeqSet(@) THEN @ ELSE Append(@, o)]
RemoveFrom(qs, st, S) == IF st = <<>> THEN qs ELSE [qs EXCEPT ![Last(st)] = Without(@, S)]

QInit == /\ stack = <<>> /\ saved = <<>> /\ queues = <<>> /\ objs = <<>>
         /\ created = <<>> /\ consumed = <<>> /\ unrec = {}

Enter == /\ queues' = Append(queues, <<>>) /\ stack' = Append(stack, Len(queues) + 1)
         /\ created' = Append(created, <<>>) /\ consumed' = Append(consumed, {})
         /\ UNCHANGED <<saved, objs, unrec>>
Exit == /\ stack # <<>> /\ stack' = Pop(stack)
        /\ UNCHANGED <<saved, queues, objs, created, consumed, unrec>>
StopEnter == /\ saved' = Append(saved, stack) /\ stack' = <<>>
             /\ UNCHANGED <<queues, objs, created, consumed, unrec>>
StopExit == /\ saved # <<>> /\ stack' = Last(saved) /\ saved' = Pop(saved)
            /\ UNCHANGED <<queues, objs, created, consumed, unrec>>

\* with QuantumTape() as t: the tape object is queued in the enclosing context, then becomes the active context
EnterTape(term) ==
  LET o == Len(objs) + 1 IN
  /\ objs' = Append(objs, term)
  /\ queues' = Append(AppendTo(queues, stack, o), <<>>)
  /\ stack' = Append(stack, Len(queues) + 1)
  /\ IF stack = <<>> THEN unrec' = unrec \cup {o} /\ created' = Append(created, <<>>)
     ELSE created' = Append([created EXCEPT ![Last(stack)] = Append(@, o)], <<>>) /\ unrec' = unrec
  /\ consumed' = Append(consumed, {})
  /\ UNCHANGED saved

Create(term, ops) ==
  LET o == Len(objs) + 1 IN
  /\ objs' = Append(objs, term)
  /\ queues' = AppendTo(RemoveFrom(queues, stack, ops), stack, o)
  /\ IF stack = <<>> THEN unrec' = unrec \cup {o} /\ UNCHANGED <<created, consumed>>
     ELSE /\ created' = [created EXCEPT ![Last(stack)] = Append(@, o)]
          /\ consumed' = [consumed EXCEPT ![Last(stack)] = @ \cup ops]
          /\ unrec' = unrec
  /\ UNCHANGED <<stack, saved>>

\* several new objects taking `ops` out of the active queue; nothing happens when nothing records
CreateMany(terms, ops) ==
  LET n == Len(terms)  ids == [j \in 1..n |-> Len(objs) + j] IN
  IF stack = <<>> \/ n = 0 THEN UNCHANGED qvars
  ELSE /\ objs' = objs \o terms
       /\ queues' = [queues EXCEPT ![Last(stack)] = Without(@, ops) \o ids]
       /\ created' = [created EXCEPT ![Last(stack)] = @ \o ids]
       /\ consumed' = [consumed EXCEPT ![Last(stack)] = @ \cup ops]
       /\ UNCHANGED <<stack, saved, unrec>>

(* ------------------------------------------------------------------ the property, on the model *)
NoDup == \A q \in 1..Len(queues) : Cardinality(SeqSet(queues[q])) = Len(queues[q])
\* recorded in program order: object ids are handed out in construction order
ProgramOrder == \A q \in 1..Len(queues) : \A i \in 1..(Len(queues[q]) - 1) : queues[q][i] < queues[q][i + 1]
\* every object constructed in a context is recorded there unless a wrapper constructor took it - and nothing else is
RecordedExactly == \A q \in 1..Len(queues) : queues[q] = Without(created[q], consumed[q])
\* nothing constructed under stop_recording is recorded anywhere
NothingUnderStop == \A q \in 1..Len(queues) : SeqSet(queues[q]) \cap unrec = {}
\* a consumed operand is not recorded next to its wrapper
ConsumedGone == \A q \in 1..Len(queues) : SeqSet(queues[q]) \cap consumed[q] = {}
StackSane == /\ \A i \in 1..Len(stack) : stack[i] \in 1..Len(queues)
             /\ Cardinality(SeqSet(stack)) = Len(stack)
\* only the innermost active context ever changes (action property)
InnermostOnlyStep == \A q \in 1..Len(queues) : (stack = <<>> \/ q # Last(stack)) => queues'[q] = queues[q]
InnermostOnly == [][InnermostOnlyStep]_qvars
=============================================================================
