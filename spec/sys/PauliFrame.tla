----------------------------- MODULE PauliFrame ------------------------------
(***************************************************************************)
(* C74 (second sentence)  Pauli tracking: propagating a Pauli byproduct    *)
(* frame through a Clifford gate satisfies  C P C^dagger = P'  (up to a    *)
(* global phase) for EVERY frame.                                          *)
(*                                                                         *)
(* State: a Pauli frame, one pair <<x, z>> per wire meaning X^x Z^z        *)
(* ((1,1) is Y up to phase).  One action per Clifford gate of the tracker  *)
(* alphabet {H, S, CNOT, X, Y, Z, I} on every wire placement.  The model's *)
(* update rules are the textbook conjugation rules                         *)
(*     H: X <-> Z        S: X -> Y, Z -> Z                                 *)
(*     CNOT: Xc -> Xc Xt, Zc -> Zc, Xt -> Xt, Zt -> Zc Zt                  *)
(*     Paulis, identity: every Pauli is mapped to itself (up to a sign)    *)
(* and the invariant Sound (checked by TLC on every reachable transition,  *)
(* all 4^NW frames are initial) states the PROPERTY itself on exact        *)
(* matrices over Z[zeta_8][1/2]:  U_C . P(frame) . U_C^dagger  is a scalar *)
(* multiple of  P(frame').  Linear additionally checks that the update is  *)
(* a homomorphism of the frame group (frames multiply by XOR).             *)
(* Use with M = 3.                                                         *)
(***************************************************************************)
EXTENDS Gates
CONSTANT NW
Bits == {0, 1}
Xor(a, b) == (a + b) % 2
Frames == [1..NW -> Bits \X Bits]
ZeroFrame == [i \in 1..NW |-> <<0, 0>>]
FXor(f, g) == [i \in 1..NW |-> <<Xor(f[i][1], g[i][1]), Xor(f[i][2], g[i][2])>>]

\* ---- the tracker alphabet: gate records on the NW-wire register
OneQ == {"Hadamard", "S", "PauliX", "PauliY", "PauliZ", "Identity"}
GateRec(g, w) == [g |-> g, w |-> w, p |-> <<>>, x |-> <<>>, m |-> <<>>, mods |-> <<>>]
Ops == {GateRec(g, <<i>>) : g \in OneQ, i \in 1..NW}
       \cup {GateRec("CNOT", <<ij[1], ij[2]>>) : ij \in {p \in (1..NW) \X (1..NW) : p[1] # p[2]}}

\* ---- textbook update rules (local: pairs of the gate's own wires)
ConjH(a) == <<a[2], a[1]>>
ConjS(a) == <<a[1], Xor(a[1], a[2])>>
ConjCNOT(c, t) == << <<c[1], Xor(c[2], t[2])>>, <<Xor(c[1], t[1]), t[2]>> >>
Local(g, fs) == CASE g = "Hadamard" -> <<ConjH(fs[1])>>
                  [] g = "S" -> <<ConjS(fs[1])>>
                  [] g = "CNOT" -> ConjCNOT(fs[1], fs[2])
                  [] OTHER -> fs
Apply(op, f) == LET loc == Local(op.g, [j \in 1..Len(op.w) |-> f[op.w[j]]]) IN
   [i \in 1..NW |-> IF \E j \in 1..Len(op.w) : op.w[j] = i THEN loc[CHOOSE j \in 1..Len(op.w) : op.w[j] = i] ELSE f[i]]

\* ---- exact semantics
Letter(a) == IF a[1] = 1 THEN (IF a[2] = 1 THEN 2 ELSE 1) ELSE (IF a[2] = 1 THEN 3 ELSE 0)
FrameM(f) == PauliM([i \in 1..NW |-> Letter(f[i])])
OpU(op) == ApplyGate(Ident(2^NW), GateM(op), op.w, NW)
\* C P C^dagger = c * P'   for some scalar c
ConjM(op, f) == Bind(OpU(op), LAMBDA u : MatMul(MatMul(u, FrameM(f)), Dagger(u)))
ConjSound(op, f, g) == EqUpToScalar(ConjM(op, f), FrameM(g))

VARIABLES fr, prev, last
vars == <<fr, prev, last>>
None == GateRec("none", <<>>)
Init == fr \in Frames /\ prev = fr /\ last = None
Step(op) == fr' = Apply(op, fr) /\ prev' = fr /\ last' = op
Next == \E op \in Ops : Step(op)
Sound == last = None \/ ConjSound(last, prev, fr)
Linear == \A op \in Ops : \A g \in Frames : Apply(op, FXor(fr, g)) = FXor(Apply(op, fr), Apply(op, g))
\* the frame image is unique: no other frame satisfies the conjugation equation
Unique == last = None \/ Bind(ConjM(last, prev), LAMBDA c : \A g \in Frames : g = fr \/ ~EqUpToScalar(c, FrameM(g)))
=============================================================================
