--------------------------- MODULE Trace_ShiftRule ---------------------------
(***************************************************************************)
(* C35 trace validation.  One record per call of generate_shift_rule       *)
(* (one parameter) or generate_multi_shift_rule (two parameters) whose     *)
(* reported shifts are lattice points:                                     *)
(*   [pars |-> << [fr |-> <<<<p,q>>,..>>, n |-> order, user |-> 0/1,       *)
(*                 ush |-> <<user shifts>>] >>,                            *)
(*    rows |-> << <<shift of parameter 1, ...>> per reported term >> ]     *)
(* TLC decides the discrete conjuncts (ShiftRule.tla) on the reported      *)
(* shifts and EMITS, for every frequency tuple (w_1, +-w_2) with           *)
(* w_p in Omega_p u {0}, the exact phase  PROD_p e^{i w_p s_{j,p}}  of     *)
(* every reported term as a ring element, plus the exact period.  The      *)
(* driver forms SUM_j c_j * phase_j with the reported float coefficients   *)
(* and compares with PROD_p (i w_p)^{n_p}.  (The tuples with the opposite  *)
(* overall sign are the complex conjugates: the coefficients are real.)    *)
(***************************************************************************)
EXTENDS ShiftRule, Json, IOUtils, SequencesExt
CONSTANT NTRACES
Traces == JsonDeserialize(IOEnv.TRACE_FILE)
VARIABLES tid, done
Tr == Traces[tid]

FreqsOf(p) == {p.fr[i] : i \in 1..Len(p.fr)} \cup {ZeroFreq}
NP(t) == Len(t.pars)
Col(t, p) == {t.rows[j][p] : j \in 1..Len(t.rows)}
AllOnLattice(t) == \A p \in 1..NP(t) : \A w \in FreqsOf(t.pars[p]) : \A a \in Col(t, p) : PhaseOnLattice(w, a)
WellFormed(t) == /\ NP(t) \in {1, 2}
                 /\ \A p \in 1..NP(t) : WellFormedFreqs(t.pars[p].fr) /\ t.pars[p].n >= 1
                 /\ \A j \in 1..Len(t.rows) : Len(t.rows[j]) = NP(t)

Combos(t) == IF NP(t) = 1 THEN {<<w, ZeroFreq, 1>> : w \in FreqsOf(t.pars[1])}
             ELSE {cb \in {<<w1, w2, sg>> : w1 \in FreqsOf(t.pars[1]), w2 \in FreqsOf(t.pars[2]), sg \in {1, -1}} :
                     cb[3] = 1 \/ (cb[1] # ZeroFreq /\ cb[2] # ZeroFreq)}
PhaseOf(t, cb, j) == IF NP(t) = 1 THEN Phase(cb[1], t.rows[j][1])
                     ELSE Zeta(PhaseExp(cb[1], t.rows[j][1]) + cb[3] * PhaseExp(cb[2], t.rows[j][2]))
Phases(t) == {[w1 |-> cb[1], w2 |-> cb[2], sg |-> cb[3], z |-> [j \in 1..Len(t.rows) |-> PhaseOf(t, cb, j)]] : cb \in Combos(t)}

\* discrete conjuncts; "na" when the conjunct does not apply to the record
B(x) == IF x THEN "ok" ELSE "no"
BaseOf(p) == IF p.user = 1 THEN {p.ush[i] : i \in 1..Len(p.ush)}
             ELSE IF DefaultOnLattice(p.fr) THEN DefaultShifts(p.fr) ELSE {}
CandOK(t, p) == LET pp == t.pars[p] IN
   IF ~PeriodOnLattice(pp.fr) \/ BaseOf(pp) = {} THEN "na"
   ELSE B(Col(t, p) \subseteq Candidates(BaseOf(pp), pp.n, PeriodL(pp.fr)))
RangeOK(t, p) == LET pp == t.pars[p] IN
   IF ~PeriodOnLattice(pp.fr) \/ (pp.n = 1 /\ pp.user = 1) THEN "na" ELSE B(InRange(t.rows, p, PeriodL(pp.fr)))
Discrete(t) ==
  [distinct |-> B(DistinctRows(t.rows)),
   sorted   |-> IF NP(t) = 1 THEN B(Sorted(t.rows)) ELSE "na",
   modper   |-> IF NP(t) = 1 /\ PeriodOnLattice(t.pars[1].fr) /\ ~(t.pars[1].n = 1 /\ t.pars[1].user = 1)
                THEN B(DistinctModPeriod(t.rows, PeriodL(t.pars[1].fr))) ELSE "na",
   range    |-> [p \in 1..NP(t) |-> RangeOK(t, p)],
   cand     |-> [p \in 1..NP(t) |-> CandOK(t, p)],
   nterms   |-> Len(t.rows)]

Init == tid \in 1..NTRACES /\ done = FALSE
Next == /\ ~done /\ done' = TRUE /\ UNCHANGED tid
        /\ IF ~WellFormed(Tr) THEN PrintT(ToJson([tid |-> tid, st |-> "malformed"]))
           ELSE IF ~AllOnLattice(Tr) THEN PrintT(ToJson([tid |-> tid, st |-> "offlattice"]))
           ELSE PrintT(ToJson([tid |-> tid, st |-> "ok", per |-> [p \in 1..NP(Tr) |-> PeriodQ(Tr.pars[p].fr)],
                               d |-> Discrete(Tr), ph |-> Phases(Tr)]))
=============================================================================
