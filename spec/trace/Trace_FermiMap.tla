--------------------------- MODULE Trace_FermiMap ---------------------------
(***************************************************************************)
(* Trace validation for C53.  Each record of the batch file holds IMAGES   *)
(* returned by the real jordan_wigner / parity_transform / bravyi_kitaev   *)
(* (exact Gaussian-dyadic Pauli sentences on n qubits) and is accepted iff *)
(* they satisfy the clause of the property named by op:                    *)
(*   "prod"  out = image(x * y), a = image(x), b = image(y):  out = a b    *)
(*   "sum"   out = image(cf * x + y):                  out = cf a + b      *)
(*   "adj"   out = image(adjoint x):                   out = a^dagger      *)
(*   "car"   a = image of the letter (i, ta), b = image of (j, tb):        *)
(*           a b + b a = 1 if i = j and ta # tb, else 0                    *)
(*   "same"  out = image of a rewriting of x by the anticommutation rules  *)
(*           (FermiWord.shift_operator), a = image(x):       out = a       *)
(*   "equiv" a = Jordan-Wigner image of x, out = image of x under map:     *)
(*           out = C a C^dagger with C the fixed basis change |f> -> |B f> *)
(*   "def"   out = image of the fermi terms fs under map: equals the       *)
(*           definitional image computed by FermiMap                       *)
(* exact = FALSE: a returned coefficient was not a Gaussian dyadic.        *)
(* A verdict <<"V", tid, clause>> is printed for EVERY record.             *)
(***************************************************************************)
EXTENDS FermiMap, Json, IOUtils
CONSTANT NTRACES
Traces == JsonDeserialize(IOEnv.TRACE_FILE)
VARIABLES tid, done
Init == tid \in 1..NTRACES /\ done = FALSE
WFTerms(ts, n) == \A k \in DOMAIN ts : Len(ts[k].w) = n /\ \A i \in 1..n : ts[k].w[i] \in 0..3
WellFormed(r) == WFTerms(r.a, r.n) /\ WFTerms(r.b, r.n) /\ WFTerms(r.out, r.n)
Holds(r, A, B, O) ==
   CASE r.op = "prod" -> SEq(O, SMulL(A, B))
     [] r.op = "sum" -> SEq(O, SAdd(SScale(GdNorm(r.cf), A), B))
     [] r.op = "adj" -> SEq(O, SAdj(A))
     [] r.op = "car" -> SEq(SAntiComm(A, B), IF r.i = r.j /\ r.ta # r.tb THEN SIdent(r.n) ELSE SZero)
     [] r.op = "same" -> SEq(O, A)
     [] r.op = "equiv" -> SEq(O, ConjB(BOf(r.map, r.n), A, r.n))
     [] r.op = "def" -> SEq(O, TermsImage(r.map, r.fs, r.n))
Verdict(r) ==
   IF ~r.exact THEN "inexact-coefficient"
   ELSE IF ~WellFormed(r) THEN "malformed-output"
   ELSE Bind2(SFromTermsL(r.a), SFromTermsL(r.b), LAMBDA A, B : Bind(SFromTermsL(r.out), LAMBDA O :
        IF Holds(r, A, B, O) THEN "ok" ELSE r.op \o "-violated"))
Check == /\ ~done /\ done' = TRUE /\ UNCHANGED tid
         /\ PrintT(<<"V", tid, Verdict(Traces[tid])>>)
Next == Check
=============================================================================
