------------------------------ MODULE TapeEval -------------------------------
(***************************************************************************)
(* Reference semantics of a tape (DESIGN 3.2 `Tape.tla`), evaluated one    *)
(* instruction per TLC step on the state |0..0>, exactly, in the ring.     *)
(*                                                                         *)
(* A case:  [n, ops: <<instr>>, meas: <<m>>]                               *)
(*  instr = gate record (Gates.tla)                                        *)
(*        | [g |-> "MEASURE", w |-> <<wire>>, x |-> <<reset, post>>]       *)
(*             reset in {0,1}; post in {0 (none), 1 (keep 0), 2 (keep 1)}  *)
(*        | [g |-> "COND", tt |-> <<outcome strings>>, op |-> gate record] *)
(*             op is applied in the branches whose outcome string so far   *)
(*             is listed in tt  (the truth table of the condition)         *)
(*        | [g |-> "PROJ", w, x |-> <<basis state bits>>]  projector       *)
(*        | [g |-> "GEN", of |-> gate record]   multiply by A = dU/dtheta  *)
(*             U^-1 of that one-parameter gate (Gates.AGen): placed right  *)
(*             after the gate it turns the state into d(psi)/d(theta)      *)
(*  m     = [t |-> "expval", pw |-> <<0..3 per wire>>]                     *)
(*        | [t |-> "probs", w |-> <<wires>>] | [t |-> "state"]             *)
(*                                                                         *)
(* Mid-circuit measurement IS branching: the state is a sequence of        *)
(* branches [o |-> outcomes so far, v |-> unnormalised state vector]; a    *)
(* MEASURE splits every branch with the projectors (I +- Z)/2; all         *)
(* branches are carried, so the weights (squared norms) are exact Born     *)
(* probabilities.  At the end TLC EMITS the exact expected value of every  *)
(* requested measurement (summed over branches) and the branch weights,    *)
(* as ring elements [c, k] = (sum c_i zeta^i)/2^k; the harness compares    *)
(* the implementation's floats against them (numeric observations never    *)
(* enter TLC).                                                             *)
(***************************************************************************)
EXTENDS Gates, Json, IOUtils
CONSTANT NCASES
Cases == JsonDeserialize(IOEnv.TRACE_FILE)
VARIABLES tid, pos, br
Case == Cases[tid]
D == 2^Case.n
Init == /\ tid \in 1..NCASES /\ pos = 1
        /\ br = << [o |-> <<>>, v |-> BasisCol(2^Cases[tid].n, 0)] >>

\* projector onto bit value b of wire w (zero the other amplitudes)
Project(v, w, b, n) ==
  [k |-> v.k, e |-> TLCEval([i \in 1..2^n |-> IF Bit(i-1, w, n) = b THEN v.e[i] ELSE <<Zero>>])]
FlipIf(v, w, b, n) == IF b = 1 THEN ApplyGate(v, MX, <<w>>, n) ELSE v
IsZeroV(v) == \A i \in 1..Len(v.e) : IsZero(v.e[i][1])

RECURSIVE MeasureAll(_, _, _, _)
MeasureAll(bs, i, ins, n) ==
  IF i > Len(bs) THEN <<>> ELSE
  LET b == bs[i]  w == ins.w[1]  reset == ins.x[1]  post == ins.x[2]
      mk(bit) == [o |-> Append(b.o, bit), v |-> IF reset = 1 THEN FlipIf(Project(b.v, w, bit, n), w, bit, n) ELSE Project(b.v, w, bit, n)]
      keep == IF post = 0 THEN <<mk(0), mk(1)>> ELSE IF post = 1 THEN <<mk(0)>> ELSE <<mk(1)>>
      nz == SelectSeq(keep, LAMBDA x : ~IsZeroV(x.v))
  IN nz \o MeasureAll(bs, i + 1, ins, n)

InTT(o, tt) == \E j \in 1..Len(tt) : tt[j] = o

Step ==
  /\ pos <= Len(Case.ops)
  /\ LET ins == Case.ops[pos] IN
     br' = CASE ins.g = "MEASURE" -> MeasureAll(br, 1, ins, Case.n)
             [] ins.g = "COND" -> [i \in 1..Len(br) |->
                    IF InTT(br[i].o, ins.tt) THEN [br[i] EXCEPT !.v = ApplyGate(br[i].v, GateM(ins.op), ins.op.w, Case.n)] ELSE br[i]]
             [] ins.g = "PROJ" -> [i \in 1..Len(br) |->
                    [br[i] EXCEPT !.v = [k |-> br[i].v.k, e |-> TLCEval([r \in 1..D |->
                        IF \A t \in 1..Len(ins.w) : Bit(r-1, ins.w[t], Case.n) = ins.x[t] THEN br[i].v.e[r] ELSE <<Zero>>])]]]
             [] ins.g = "GEN" -> [i \in 1..Len(br) |-> [br[i] EXCEPT !.v = ApplyGate(br[i].v, AGen(ins.of), ins.of.w, Case.n)]]
             [] OTHER -> [i \in 1..Len(br) |-> [br[i] EXCEPT !.v = ApplyGate(br[i].v, GateM(ins), ins.w, Case.n)]]
  /\ pos' = pos + 1 /\ UNCHANGED tid

\* <psi|phi> with both vectors as D x 1 matrices; result [c, k]
Inner(a, b) == [c |-> LET S[i \in 0..Len(a.e)] == IF i = 0 THEN Zero ELSE Add(S[i-1], Mul(Conj(a.e[i][1]), b.e[i][1])) IN S[Len(a.e)],
                k |-> a.k + b.k]
RECURSIVE ApplyWord(_, _, _, _)
ApplyWord(v, pw, i, n) == IF i > Len(pw) THEN v
   ELSE ApplyWord(IF pw[i] = 0 THEN v ELSE ApplyGate(v, Pauli1(pw[i]), <<i>>, n), pw, i + 1, n)
\* scalars [c,k] are added after aligning exponents
SAdd(x, y) == LET kk == IF x.k > y.k THEN x.k ELSE y.k IN
   [c |-> Add(Scale(2^(kk - x.k), x.c), Scale(2^(kk - y.k), y.c)), k |-> kk]
SZero == [c |-> Zero, k |-> 0]
SumOver(f(_)) == LET S[i \in 0..Len(br)] == IF i = 0 THEN SZero ELSE SAdd(S[i-1], f(br[i])) IN S[Len(br)]
Expval(pw) == SumOver(LAMBDA b : Inner(b.v, ApplyWord(b.v, pw, 1, Case.n)))
\* probability of outcome idx (0-based, first listed wire most significant) on wires w
SubIndex(r, w, n) == LET S[t \in 0..Len(w)] == IF t = 0 THEN 0 ELSE 2*S[t-1] + Bit(r, w[t], n) IN S[Len(w)]
ProbOf(b, w, idx) == [c |-> LET S[r \in 0..D] == IF r = 0 THEN Zero ELSE
                              IF SubIndex(r-1, w, Case.n) = idx THEN Add(S[r-1], Mul(Conj(b.v.e[r][1]), b.v.e[r][1])) ELSE S[r-1]
                            IN S[D], k |-> 2 * b.v.k]
Probs(w) == [idx \in 1..2^Len(w) |-> SumOver(LAMBDA b : ProbOf(b, w, idx - 1))]
Weight(b) == Inner(b.v, b.v)
MeasVal(m) == CASE m.t = "expval" -> [t |-> "expval", v |-> <<Expval(m.pw)>>]
                [] m.t = "probs" -> [t |-> "probs", v |-> Probs(m.w)]
                [] m.t = "state" -> [t |-> "state", v |-> [i \in 1..D |-> [c |-> br[1].v.e[i][1], k |-> br[1].v.k]]]
MaxCoef == LET mx(a, b) == IF a > b THEN a ELSE b
               S[i \in 0..Len(br)] == IF i = 0 THEN 0 ELSE mx(S[i-1], MaxAbsM(br[i].v)) IN S[Len(br)]
Finish ==
  /\ pos = Len(Case.ops) + 1
  /\ PrintT(ToJson([tid |-> tid, overflow |-> MaxCoef >= 2^12,
                    meas |-> [j \in 1..Len(Case.meas) |-> MeasVal(Case.meas[j])],
                    bw |-> [i \in 1..Len(br) |-> [o |-> br[i].o, w |-> Weight(br[i])]]]))
  /\ pos' = pos + 1 /\ br' = <<>> /\ UNCHANGED tid
Next == Step \/ Finish
=============================================================================
