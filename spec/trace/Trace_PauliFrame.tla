-------------------------- MODULE Trace_PauliFrame ---------------------------
(***************************************************************************)
(* Trace validation of qp.ftqc.commute_clifford_op against PauliFrame.tla. *)
(* A case is a recorded history                                            *)
(*   [seq: <<gate records on wires 1..NW>>, f: initial frame (NW pairs),   *)
(*    outs: <<frame after each gate>> (as returned by the code, written    *)
(*    back to the wires of the gate), exc: "" | exception class of the     *)
(*    LAST call (the history stops there)]                                 *)
(* Every step is validated against the PROPERTY on exact matrices          *)
(* (C P C^dagger = scalar * P') - not against the model's table; the table *)
(* is compared as well and a disagreement that does not break the property *)
(* would be drift (it cannot happen: Unique holds in PauliFrame).          *)
(* At the end the whole history is validated once more against the         *)
(* product unitary:  (C_k..C_1) P (C_k..C_1)^dagger = scalar * P_final.    *)
(* Verdict <<"V", tid, clause, drift>>.                                    *)
(***************************************************************************)
EXTENDS PauliFrame, Json, IOUtils
CONSTANT NCASES
Cases == JsonDeserialize(IOEnv.TRACE_FILE)
VARIABLES tid, pos, U, bad, drift
Case == Cases[tid]
Supported == {"Hadamard", "S", "CNOT"}
AsFrame(s) == [i \in 1..NW |-> <<s[i][1], s[i][2]>>]
FrameAt(k) == IF k = 0 THEN AsFrame(Case.f) ELSE AsFrame(Case.outs[k])

TInit == tid \in 1..NCASES /\ pos = 1 /\ U = Ident(2^NW) /\ bad = "" /\ drift = 0
         /\ fr = ZeroFrame /\ prev = ZeroFrame /\ last = None
StepOk == /\ pos <= Len(Case.outs)
          /\ LET op == Case.seq[pos]  a == FrameAt(pos - 1)  b == FrameAt(pos) IN
             /\ bad' = IF bad = "" /\ ~ConjSound(op, a, b) THEN "conjugation-mismatch" ELSE bad
             /\ drift' = drift + (IF Apply(op, a) = b THEN 0 ELSE 1)
             /\ U' = ApplyGate(U, GateM(op), op.w, NW)
             /\ fr' = b /\ prev' = a /\ last' = op
          /\ pos' = pos + 1 /\ UNCHANGED tid
Finish == /\ pos = Len(Case.outs) + 1
          /\ LET whole == EqUpToScalar(MatMul(MatMul(U, FrameM(AsFrame(Case.f))), Dagger(U)), FrameM(FrameAt(Len(Case.outs))))
                 clause == IF bad # "" THEN bad
                           ELSE IF ~whole THEN "history-mismatch"
                           ELSE IF Case.exc = "" THEN (IF Len(Case.outs) = Len(Case.seq) THEN "ok" ELSE "truncated")
                           ELSE IF Case.seq[Len(Case.outs) + 1].g \in Supported THEN "supported-gate-raised"
                           ELSE "ok-raised"
             IN PrintT(<<"V", tid, clause, drift>>)
          /\ pos' = pos + 1 /\ UNCHANGED <<tid, U, bad, drift, fr, prev, last>>
TNext == StepOk \/ Finish
=============================================================================
