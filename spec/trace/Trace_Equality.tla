--------------------------- MODULE Trace_Equality ---------------------------
(***************************************************************************)
(* C04  Operator equality is an equivalence compatible with hashing and    *)
(* matrices.                                                               *)
(*                                                                         *)
(* Trace specification.  One case = one recorded comparison of two objects *)
(* a, b (operators or measurement processes) built by the driver:          *)
(*    kind  "rebuild" | "copy" | "deepcopy"   b is built from the same     *)
(*          data as a (ident = TRUE)                                       *)
(*          "mut:<field>"  b = a with exactly one field changed            *)
(*          (structurally, or by >= one lattice step = pi/4 >> tolerance)  *)
(*          "triple"  a, rebuild(a), copy(a): the three pairwise answers   *)
(*    eaa ebb eab eba   recorded qp.equal answers  "T" | "F" | "E:<class>" *)
(*    hab               "T" iff hash(a) = hash(b)                          *)
(*    a, b              the DENOTATION operands: linear combinations       *)
(*                      SUM_j c_j * PROD gs_j of reference-table gates     *)
(*                      (c = <<re, im, k>> = (re + i*im)/2^k) on a joint   *)
(*                      register of n wires; hasop = FALSE for measurement *)
(*                      processes without an observable                    *)
(*    ta, tb, wa, wb    kind tag / wire list of a measurement process      *)
(*                      ("op", <<>> for operators)                         *)
(*    xa, xb            attributes that are NOT part of the denoted map    *)
(*                      (sampling seed, subsystem partition): evidence     *)
(*                                                                         *)
(* The action Compare(a, b) is enabled iff                                 *)
(*   (R) eaa = ebb = "T"                                    reflexive      *)
(*   (S) eab = eba                                          symmetric      *)
(*   (I) ident => eab = "T" /\ hab = "T"     identical data: equal, equal  *)
(*                                           hashes                        *)
(*   (M) eab = "T" => Sem(a) = Sem(b)        equal objects denote the same *)
(*                                           linear map                    *)
(* where Sem is the exact matrix over Z[zeta_N][1/2] on the joint register *)
(* (Gates.tla), recomputed here by TLC, together with the measurement kind *)
(* and wire list.  Triples: all six answers "T" (=> transitivity).         *)
(* Reported as evidence only (never a clause): eab = "T" with different    *)
(* hashes for objects NOT built from identical data (the statement asks    *)
(* equal hashes only for identical data); agreement of the structural      *)
(* model EqModel (equality of canonical encodings) and of KeyModel.OpKey   *)
(* with the code (model drift).                                            *)
(* One verdict <<"V", tid, clause, sem, hashflag, attrflag, eqmodel,       *)
(* keymodel>> per case.                                                    *)
(***************************************************************************)
EXTENDS Gates, PauliAlg, Json, IOUtils
CONSTANT NCASES
KM == INSTANCE KeyModel WITH TwoPi <- N \div 2
Cases == JsonDeserialize(IOEnv.TRACE_FILE)
VARIABLES tid, pos, Ua, Ub
Case == Cases[tid]

\* exact matrix of a linear combination of gate products (each product applied gate by gate, sparse application)
RECURSIVE EqChain(_, _, _, _)
EqChain(u, gs, i, n) == IF i > Len(gs) THEN u ELSE EqChain(ApplyGate(u, GateM(gs[i]), gs[i].w, n), gs, i + 1, n)
EqTerm(t, n) == IF t.c = <<1, 0, 0>> THEN EqChain(Ident(2^n), t.gs, 1, n) ELSE PMatScaleG(t.c, EqChain(Ident(2^n), t.gs, 1, n))
SemM(op, n) ==
   LET A[j \in 0..Len(op.terms)] == IF j = 0 THEN PMatZero(2^n) ELSE PMatAdd(A[j-1], EqTerm(op.terms[j], n))
   IN IF Len(op.terms) = 1 THEN EqTerm(op.terms[1], n) ELSE A[Len(op.terms)]

Init == tid \in 1..NCASES /\ pos = 1 /\ Ua = <<>> /\ Ub = <<>>
EvalA == /\ pos = 1
         /\ Ua' = IF Case.hasop THEN SemM(Case.a, Case.n) ELSE <<>>
         /\ pos' = 2 /\ UNCHANGED <<tid, Ub>>
EvalB == /\ pos = 2
         /\ Ub' = IF Case.hasop THEN SemM(Case.b, Case.n) ELSE <<>>
         /\ pos' = 3 /\ UNCHANGED <<tid, Ua>>

\* "same" | "diff" | "kind" (different measurement kind / wire list) | "overflow"
SemRel == IF Case.ta # Case.tb \/ Case.wa # Case.wb THEN "kind"
          ELSE IF ~Case.hasop THEN "same"
          ELSE IF ~InBound(Ua) \/ ~InBound(Ub) THEN "overflow"
          ELSE IF EqExact(Ua, Ub) THEN "same" ELSE "diff"

PairClause(sem) ==
   IF Case.eaa # "T" \/ Case.ebb # "T" THEN "not-reflexive"
   ELSE IF Case.eab # Case.eba THEN "not-symmetric"
   ELSE IF Case.ident /\ Case.eab # "T" THEN "identical-not-equal"
   ELSE IF Case.ident /\ Case.hab # "T" THEN "identical-hash-differs"
   ELSE IF Case.eab = "T" /\ sem = "diff" THEN "equal-but-different-map"
   ELSE IF Case.eab = "T" /\ sem = "kind" THEN "equal-but-different-kind"
   ELSE IF Case.ident /\ sem # "same" THEN "spec-inconsistent"          \* identical data must denote the same map
   ELSE "ok"
TripleClause ==
   IF \E k \in 1..Len(Case.tri) : Case.tri[k] # "T" THEN
        (IF Case.tri[1] = "T" /\ Case.tri[2] = "T" /\ Case.tri[3] # "T" THEN "not-transitive" ELSE "identical-not-equal")
   ELSE "ok"
\* evidence flags (never part of the clause)
\* (tuples longer than 80 characters are pretty-printed over several lines: the flags are kept short)
\*   "hd" equal but hashes differ   "hc" unequal with equal hashes (collision, allowed)   "ai" attribute ignored by equal
\*   "a" / "d" the structural model agrees / drifts from the code
HashFlag == IF Case.eab = "T" /\ Case.hab = "F" /\ ~Case.ident THEN "hd"
            ELSE IF Case.eab = "F" /\ Case.hab = "T" THEN "hc" ELSE "-"
AttrFlag == IF Case.eab = "T" /\ Case.xa # Case.xb THEN "ai" ELSE "-"
\* the structural model: equality of canonical encodings / of model keys, compared with the code's answers
EqModelFlag == IF ~Case.enc THEN "-" ELSE IF (Case.ra = Case.rb) = (Case.eab = "T") THEN "a" ELSE "d"
KeyModelFlag == IF ~Case.enc \/ Case.hab \notin {"T", "F"} THEN "-"
                ELSE IF (KM!OpKey(Case.ra) = KM!OpKey(Case.rb)) = (Case.hab = "T") THEN "a" ELSE "d"

Decide ==
  /\ pos = 3
  /\ IF Case.kind = "triple"
     THEN PrintT(<<"V", tid, TripleClause, "na", "-", "-", "-", "-">>)
     ELSE Bind(SemRel, LAMBDA sem :
            IF sem = "overflow" THEN PrintT(<<"V", tid, "overflow", sem, "-", "-", "-", "-">>)
            ELSE PrintT(<<"V", tid, PairClause(sem), sem, HashFlag, AttrFlag, EqModelFlag, KeyModelFlag>>))
  /\ pos' = 4 /\ Ua' = <<>> /\ Ub' = <<>> /\ UNCHANGED tid
Next == EvalA \/ EvalB \/ Decide
=============================================================================
