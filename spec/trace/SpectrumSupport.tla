--------------------------- MODULE SpectrumSupport ---------------------------
(***************************************************************************)
(* C59: the exact Fourier spectrum of a sampled function (1 or 2 inputs).  *)
(*                                                                         *)
(* A trace holds the EXACT values of an expectation value (ring scalars    *)
(* [c, k] = (sum c_i zeta^i)/2^k computed by TapeEval.tla) on a full grid  *)
(* of one period:  f[a1*G2 + a2 + 1] = F(a1 * P1/G1, a2 * P2/G2),          *)
(* 0 <= a_d < G_d, where G_d divides N = 2^M and F has period P_d in its   *)
(* d-th input (G2 = 1 for a function of one input).  Then                  *)
(*    F(x1, x2) = SUM_{k1,k2} C_{k1,k2} e^{2 pi i (k1 x1/P1 + k2 x2/P2)}   *)
(* and, when F is band limited below G_d/2 in each input,                  *)
(*    G1 G2 C_{k1,k2} = SUM_a f(a) zeta^{-(k1 a1 N/G1 + k2 a2 N/G2)}       *)
(* is a ring element: the coefficients and the support of the spectrum     *)
(* are exact.  The inverse transform is checked on every trace             *)
(* (SUM_k Coef(k) zeta^{+k.a} = G1 G2 f(a)) as a self-check of the         *)
(* transform.                                                              *)
(*                                                                         *)
(* decl[d] lists the frequency indices |k_d| the implementation reports    *)
(* for input d (the driver converts a reported frequency w to w P_d/2pi    *)
(* and drops non-integers, which cannot cover anything).  Verdict "ok"     *)
(* iff for each input d every k_d that occurs with a non-zero coefficient  *)
(* has |k_d| (signed residue mod G_d) in decl[d] u {0}.                    *)
(* TLC also EMITS the coefficients (times G1 G2 2^K) for the comparison    *)
(* with fourier.coefficients.                                              *)
(***************************************************************************)
EXTENDS Cyclo, Json, IOUtils, FiniteSets, SequencesExt
CONSTANT NTRACES
Traces == JsonDeserialize(IOEnv.TRACE_FILE)
VARIABLES tid, done

GA(t) == t.g[1]
GB(t) == t.g[2]
Size(t) == GA(t) * GB(t)
WellFormed(t) == /\ Len(t.g) = 2 /\ GA(t) >= 1 /\ GB(t) >= 1 /\ N % GA(t) = 0 /\ N % GB(t) = 0
                 /\ Len(t.f) = Size(t) /\ Len(t.decl) = 2
\* (S[i-1] is bound once: TLC does not memoise recursive function definitions)
KmaxOf(t) == LET S[i \in 0..Len(t.f)] == IF i = 0 THEN 0 ELSE LET p == S[i-1] IN IF t.f[i].k > p THEN t.f[i].k ELSE p IN S[Len(t.f)]
\* the samples over the common denominator 2^K
Vals(t, K) == TLCEval([i \in 1..Size(t) |-> Scale(2^(K - t.f[i].k), t.f[i].c)])
Expo(t, k1, k2, i) == k1 * ((i - 1) \div GB(t)) * (N \div GA(t)) + k2 * ((i - 1) % GB(t)) * (N \div GB(t))
\* G1 G2 2^K C_{k1,k2}
Coef(t, V, k1, k2) == LET S[i \in 0..Size(t)] == IF i = 0 THEN Zero ELSE Add(S[i-1], MulZeta(V[i], -Expo(t, k1, k2, i))) IN S[Size(t)]
Coefs(t, V) == TLCEval([k1 \in 1..GA(t) |-> TLCEval([k2 \in 1..GB(t) |-> Coef(t, V, k1 - 1, k2 - 1)])])
\* inverse transform at grid point i:  SUM_k Coef(k) zeta^{+k.a}  =  G1 G2 * V[i]
InvAt(t, C, i) == LET n == Size(t)
                      S[j \in 0..n] == IF j = 0 THEN Zero ELSE
                         LET k1 == (j - 1) \div GB(t)  k2 == (j - 1) % GB(t) IN Add(S[j-1], MulZeta(C[k1 + 1][k2 + 1], Expo(t, k1, k2, i)))
                  IN S[n]
InverseOK(t, V, C) == \A i \in 1..Size(t) : InvAt(t, C, i) = Scale(Size(t), V[i])

Signed(k, G) == IF 2 * k > G THEN k - G ELSE k
AbsI(x) == IF x < 0 THEN -x ELSE x
NonZero(t, C) == {kk \in (0..GA(t) - 1) \X (0..GB(t) - 1) : ~IsZero(C[kk[1] + 1][kk[2] + 1])}
SuppA(t, C) == {AbsI(Signed(kk[1], GA(t))) : kk \in NonZero(t, C)}
SuppB(t, C) == {AbsI(Signed(kk[2], GB(t))) : kk \in NonZero(t, C)}
Decl(t, d) == {t.decl[d][i] : i \in 1..Len(t.decl[d])} \cup {0}
\* a coefficient at the Nyquist index G/2 cannot be told from an alias: the driver keeps the band limit strictly below it
Verdict(t, C) == IF ~(SuppA(t, C) \subseteq Decl(t, 1)) THEN "undeclared-frequency-input-1"
                 ELSE IF ~(SuppB(t, C) \subseteq Decl(t, 2)) THEN "undeclared-frequency-input-2" ELSE "ok"

Init == tid \in 1..NTRACES /\ done = FALSE
Next == /\ ~done /\ done' = TRUE /\ UNCHANGED tid
        /\ LET t == Traces[tid] IN
           IF ~WellFormed(t) THEN PrintT(ToJson([tid |-> tid, v |-> "bad-trace"]))
           ELSE LET K == KmaxOf(t)
                    V == Vals(t, K)
                    C == Coefs(t, V)
                IN PrintT(ToJson([tid |-> tid, v |-> Verdict(t, C), K |-> K, sa |-> SetToSortSeq(SuppA(t, C), <), sb |-> SetToSortSeq(SuppB(t, C), <),
                                  inv |-> InverseOK(t, V, C), coef |-> C]))
=============================================================================
