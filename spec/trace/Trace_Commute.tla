--------------------------- MODULE Trace_Commute ----------------------------
(***************************************************************************)
(* C08  Commutation checks are sound.                                      *)
(*                                                                         *)
(* Specification (from the statement):                                     *)
(*    Commute(A, B) == Sem(A) . Sem(B) = Sem(B) . Sem(A)                   *)
(* on the joint wire set, Sem = exact matrices over Z[zeta_N][1/2] from    *)
(* the reference gate table (Gates.tla); for two Pauli words the textbook  *)
(* criterion PCommutes (an even number of anticommuting positions).        *)
(*                                                                         *)
(* Trace action  IsCommuting(a, b, answer):  one recorded call each of     *)
(* qp.is_commuting(a, b) and qp.is_commuting(b, a).  It is enabled iff     *)
(*    answer = "T"  =>  Commute(a, b)                       (soundness)    *)
(*    both Pauli words  =>  (answer = "T" <=> PCommutes(a, b)) (exactness) *)
(* An exception ("E:<class>") is no report; "F" for a commuting pair is    *)
(* conservative and allowed unless both operands are Pauli words.          *)
(*                                                                         *)
(* A case:  [n, a: operand, b: operand, ab, ba]                            *)
(*   operand = [terms |-> << [c |-> <<re, im, k>>, gs |-> <<gate records   *)
(*              in circuit order>>] >>]  meaning  SUM_j c_j * PROD gs_j    *)
(*   (a plain gate is one term with coefficient 1 and one record; a Pauli  *)
(*   word is one term, coefficient 1, one PauliWord / PauliX.. record).    *)
(* Histories: the same action also validates answers given inside one     *)
(* commutation-DAG construction (many is_commuting calls over a circuit in *)
(* which gate types recur on the same wires with other parameters): for    *)
(* nodes i < j of the DAG, "j is not a successor of i" is the recorded     *)
(* answer "T" for (op_i, op_j), a direct edge i -> j the answer "F"; the   *)
(* operands are re-encoded on the pair's joint register.  The answer to a  *)
(* pair must be sound for THAT pair's parameters, whatever was asked       *)
(* before in the same construction.                                        *)
(* One verdict <<"V", tid, clause_ab, clause_ba, commute, words>> per case.*)
(***************************************************************************)
EXTENDS Gates, PauliAlg, Json, IOUtils
CONSTANT NCASES
Cases == JsonDeserialize(IOEnv.TRACE_FILE)
VARIABLES tid, pos, Ua, Ub
Case == Cases[tid]

\* op . u  for a matrix u (2^n rows): every product is evaluated by sparse gate application (ApplyGate), never by a
\* dense matrix product
RECURSIVE Chain(_, _, _, _)
Chain(u, gs, i, n) == IF i > Len(gs) THEN u ELSE Chain(ApplyGate(u, GateM(gs[i]), gs[i].w, n), gs, i + 1, n)
TermApply(t, u, n) == IF t.c = <<1, 0, 0>> THEN Chain(u, t.gs, 1, n) ELSE PMatScaleG(t.c, Chain(u, t.gs, 1, n))
OpApply(op, uu, n) == Bind(uu, LAMBDA u :
   LET A[j \in 0..Len(op.terms)] == IF j = 0 THEN PMatZero(2^n) ELSE PMatAdd(A[j-1], TermApply(op.terms[j], u, n))
   IN IF Len(op.terms) = 1 THEN TermApply(op.terms[1], u, n) ELSE A[Len(op.terms)])
OpM(op, n) == OpApply(op, Ident(2^n), n)

\* ---- Pauli words
PauliNames == {"PauliX", "PauliY", "PauliZ", "Identity", "PauliWord"}
IsWord(op) == /\ Len(op.terms) = 1 /\ op.terms[1].c = <<1, 0, 0>> /\ Len(op.terms[1].gs) = 1
              /\ op.terms[1].gs[1].g \in PauliNames /\ Len(op.terms[1].gs[1].mods) = 0
Letter(r, j) == CASE r.g = "PauliX" -> 1 [] r.g = "PauliY" -> 2 [] r.g = "PauliZ" -> 3 [] r.g = "Identity" -> 0
                  [] r.g = "PauliWord" -> r.x[j]
WordOf(op, n) == LET r == op.terms[1].gs[1] IN
   [i \in 1..n |-> IF \E j \in 1..Len(r.w) : r.w[j] = i THEN Letter(r, CHOOSE j \in 1..Len(r.w) : r.w[j] = i) ELSE 0]

Init == tid \in 1..NCASES /\ pos = 1 /\ Ua = <<>> /\ Ub = <<>>
EvalA == pos = 1 /\ Ua' = OpM(Case.a, Case.n) /\ pos' = 2 /\ UNCHANGED <<tid, Ub>>
EvalB == pos = 2 /\ Ub' = OpM(Case.b, Case.n) /\ pos' = 3 /\ UNCHANGED <<tid, Ua>>

Clause(ans, commute, words) ==
   IF ans = "T" /\ ~commute THEN "unsound-true"
   ELSE IF words /\ ans = "F" /\ commute THEN "pauli-word-inexact"
   ELSE IF words /\ ans \notin {"T", "F"} THEN "pauli-word-no-answer"
   ELSE IF ans = "F" /\ commute THEN "ok-conservative"
   ELSE IF ans \notin {"T", "F"} THEN "ok-raised"
   ELSE "ok"
Products == pos = 3 /\ Ua' = OpApply(Case.a, Ub, Case.n) /\ Ub' = OpApply(Case.b, Ua, Case.n) /\ pos' = 4 /\ UNCHANGED tid
\* here Ua = A.B and Ub = B.A
Decide ==
  /\ pos = 4
  /\ LET words == IsWord(Case.a) /\ IsWord(Case.b)
     IN IF ~InBound(Ua) \/ ~InBound(Ub) THEN PrintT(<<"V", tid, "overflow", "overflow", 0, 0>>)
        ELSE Bind(EqExact(Ua, Ub), LAMBDA commute :
          \* the spec's two definitions of commutation must agree on Pauli words (self-consistency of the oracle)
          IF words /\ (PCommutes(WordOf(Case.a, Case.n), WordOf(Case.b, Case.n)) # commute)
          THEN PrintT(<<"V", tid, "spec-inconsistent", "spec-inconsistent", 0, 1>>)
          ELSE PrintT(<<"V", tid, Clause(Case.ab, commute, words), Clause(Case.ba, commute, words),
                        IF commute THEN 1 ELSE 0, IF words THEN 1 ELSE 0>>))
  /\ pos' = 5 /\ Ua' = <<>> /\ Ub' = <<>> /\ UNCHANGED tid
Next == EvalA \/ EvalB \/ Products \/ Decide
=============================================================================
