----------------------------- MODULE Trace_QAOA -----------------------------
(***************************************************************************)
(* Trace validation for C72.  Each record is one Hamiltonian returned by   *)
(* pennylane.qaoa for one graph, as an exact Pauli sentence:               *)
(*  [fn, part, con, n, e, rw, b, lw, out, exact, emit]                     *)
(*  fn    "maxcut" "mis" "mvc" "maxclique" "edge_driver" "bit_driver"      *)
(*        "mwc" (max_weight_cycle; n nodes, e[k] = directed edge of wire   *)
(*        k as given by the returned mapping, ge = the edges of the input  *)
(*        graph) | "x_mixer" "xy_mixer" "bit_flip" "cycle_mixer"           *)
(*  part  "cost" | "mixer" (second element returned by a cost function)    *)
(*  con   constrained flag; rw reward colourings <<a,b>>; b bit;           *)
(*  lw    log-weights (dyadics) per wire for mwc                           *)
(*  out   terms of the returned operator over the nodes 1..n (mwc: over    *)
(*        the wires 1..Len(e))                                             *)
(* Verdict: the diagonal of a cost Hamiltonian (Z-type words evaluated on  *)
(* EVERY bitstring by TLC) equals the QAOAObj objective of the bitstring;  *)
(* a mixer equals the documented operator as a sentence.  The third        *)
(* component reports whether the literal docstring formula of the          *)
(* unconstrained Hamiltonians (without the factor 1/4) would also agree    *)
(* (evidence only).  With emit the expected diagonal is printed for the    *)
(* numeric comparison with the dense matrix of the operator.               *)
(***************************************************************************)
EXTENDS QAOAObj, Json, IOUtils
CONSTANT NTRACES
Traces == JsonDeserialize(IOEnv.TRACE_FILE)
VARIABLES tid, done
Init == tid \in 1..NTRACES /\ done = FALSE

GraphR(r) == [n |-> r.n, e |-> r.e]
Reward(r) == {r.rw[k] : k \in DOMAIN r.rw}
NW(r) == IF r.fn \in {"mwc", "cycle_mixer"} THEN Len(r.e) ELSE r.n
WellFormed(r) == \A k \in DOMAIN r.out : Len(r.out[k].w) = NW(r) /\ \A i \in 1..NW(r) : r.out[k].w[i] \in 0..3
InputOK(r) == IF r.fn \in {"mwc", "cycle_mixer"}
              THEN WellFormedDigraph(GraphR(r)) /\ EdgeSet(GraphR(r)) = {r.ge[k] : k \in DOMAIN r.ge} /\ Len(r.e) = Len(r.ge)
              ELSE WellFormedGraph(GraphR(r))

\* expected diagonal entry (a dyadic) of the cost Hamiltonian at bitstring x
Objective(r, G, x) ==
   CASE r.fn = "maxcut" -> QToGd(MaxCutQ(G, x))
     [] r.fn = "mis" -> QToGd(MISQ(G, r.con, x))
     [] r.fn = "mvc" -> QToGd(MVCQ(G, r.con, x))
     [] r.fn = "maxclique" -> QToGd(MaxCliqueQ(G, r.con, x))
     [] r.fn = "edge_driver" -> QToGd(EdgeDriverQ(G, Reward(r), x))
     [] r.fn = "bit_driver" -> QToGd(BitDriverQ(G.n, r.b, x))
     [] r.fn = "mwc" -> MWCG(G, r.lw, r.con, x)
Literal(r, G, x) ==
   CASE r.fn = "mis" -> QToGd(MISLitQ(G, x))
     [] r.fn = "mvc" -> QToGd(MVCLitQ(G, x))
     [] r.fn = "maxclique" -> QToGd(MaxCliqueLitQ(G, x))
ExpectedMixer(r, G) ==
   CASE r.fn \in {"x_mixer", "maxcut"} -> XMixerS(G.n)
     [] r.fn = "xy_mixer" -> XYMixerS(G)
     [] r.fn = "bit_flip" -> BitFlipS(G, r.b)
     [] r.fn = "cycle_mixer" -> CycleMixerS(G)
     [] r.fn = "mis" -> IF r.con THEN BitFlipS(G, 0) ELSE XMixerS(G.n)
     [] r.fn = "mvc" -> IF r.con THEN BitFlipS(G, 1) ELSE XMixerS(G.n)
     [] r.fn = "maxclique" -> IF r.con THEN BitFlipS(Complement(G), 0) ELSE XMixerS(G.n)
     [] r.fn = "mwc" -> IF r.con THEN CycleMixerS(G) ELSE XMixerS(Len(G.e))

\* reward sets of size 0 or 4: the documentation defines no energy; all colourings must get the same energy
Degenerate(r) == r.fn = "edge_driver" /\ Cardinality(Reward(r)) \in {0, 4}
CostVerdict(r, G) == LET nw == NW(r)  ts == r.out IN
   IF ~TermsDiagonal(ts) THEN "not-diagonal"
   ELSE IF Degenerate(r) THEN (IF \A q \in 0..(2^nw - 1) : DiagAt(ts, XOfIdx(q, nw)) = DiagAt(ts, XOfIdx(0, nw)) THEN "ok" ELSE "not-constant")
   ELSE IF \A q \in 0..(2^nw - 1) : Bind(XOfIdx(q, nw), LAMBDA x : DiagAt(ts, x) = Objective(r, G, x)) THEN "ok" ELSE "diag-differs"
HasLiteral(r) == r.part = "cost" /\ r.fn \in {"mis", "mvc", "maxclique"} /\ ~r.con
LitVerdict(r, G) == IF ~HasLiteral(r) \/ ~TermsDiagonal(r.out) THEN "na"
   ELSE IF \A q \in 0..(2^r.n - 1) : Bind(XOfIdx(q, r.n), LAMBDA x : DiagAt(r.out, x) = Literal(r, G, x)) THEN "lit-same" ELSE "lit-differs"
Verdict(r) ==
   IF ~r.exact THEN "inexact-coefficient"
   ELSE IF ~InputOK(r) THEN (IF r.fn \in {"mwc", "cycle_mixer"} THEN "bad-mapping" ELSE "bad-input")
   ELSE IF ~WellFormed(r) THEN "malformed-output"
   ELSE Bind(GraphR(r), LAMBDA G :
        IF r.part = "cost" THEN CostVerdict(r, G)
        ELSE IF SEq(SFromTerms(r.out), ExpectedMixer(r, G)) THEN "ok" ELSE "mixer-differs")
Check == /\ ~done /\ done' = TRUE /\ UNCHANGED tid
         /\ LET r == Traces[tid] IN
            /\ PrintT(<<"V", tid, Verdict(r), IF r.exact /\ InputOK(r) /\ WellFormed(r) THEN LitVerdict(r, GraphR(r)) ELSE "na">>)
            /\ IF r.emit /\ r.part = "cost" /\ ~Degenerate(r) /\ InputOK(r)
               THEN PrintT(ToJson([tid |-> tid, diag |-> LET nw == NW(r) IN [q \in 1..(2^nw) |-> Objective(r, GraphR(r), XOfIdx(q - 1, nw))]]))
               ELSE TRUE
Next == Check
=============================================================================
