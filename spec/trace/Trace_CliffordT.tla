-------------------------- MODULE Trace_CliffordT --------------------------
(***************************************************************************)
(* C15: the contract of the Clifford+T approximation entry points,         *)
(* validated on recorded calls.  One trace = one call                      *)
(*   kind   "rs"  rs_decomposition(op, epsilon)        (Ross-Selinger)     *)
(*          "sk"  sk_decomposition(op, epsilon)        (Solovay-Kitaev)    *)
(*          "ct"  clifford_t_decomposition(tape, epsilon, method)          *)
(*   n      wires of the register (positions 1..n); tw = positions the     *)
(*          target operator / tape acts on                                 *)
(*   err    "" or the class of the exception raised                        *)
(*   out    returned operators [g name, w wire positions] (position 0 = a  *)
(*          wire that is not in the register)                              *)
(*   exact  "yes" / "no": TLC (CircuitEq, ring level 3) decided that the   *)
(*          exact matrix W of the returned word equals the target up to a  *)
(*          phase; "n/a" when the target is not in D[omega]                *)
(*   within 1 iff dist(W, target) <= epsilon, where W in D[omega] is the   *)
(*          EXACT matrix TLC computed for the returned word and dist is    *)
(*          the operator norm of the difference minimised over a global    *)
(*          phase (evaluated in floats: the only non-exact step)           *)
(*   within2 the same fact for a second call with a much larger search     *)
(*          budget (max_search_trials / max_depth); -1 when not needed     *)
(* Documentation transcribed:                                              *)
(*  - the result is a list of gates of the Clifford+T basis: Identity,     *)
(*    PauliX/Y/Z, Hadamard, S, SX, T (one wire), CNOT, CY, CZ, SWAP, ISWAP *)
(*    (two wires), their adjoints, and GlobalPhase;                        *)
(*  - rs / sk: one-qubit gates on the wire of the target "along with a     *)
(*    final global phase operation" (exactly one GlobalPhase, last);       *)
(*  - "the procedure exits when the approximation error becomes less than  *)
(*    epsilon, or when max_search_trials [max_depth] attempts have been    *)
(*    made; in the latter case the error could be >= epsilon": an output   *)
(*    outside epsilon is admitted only as this documented budget           *)
(*    exhaustion, i.e. when a sufficient budget does reach epsilon.        *)
(***************************************************************************)
EXTENDS Integers, Sequences, FiniteSets, TLC, Json, IOUtils
CONSTANT NTRACES
Traces == JsonDeserialize(IOEnv.TRACE_FILE)
VARIABLES tid, done

One1 == {"Identity", "PauliX", "PauliY", "PauliZ", "Hadamard", "S", "SX", "T"}
Two2 == {"CNOT", "CY", "CZ", "SWAP", "ISWAP"}
Adj(S) == {"Adjoint(" \o s \o ")" : s \in S}
OneAll == One1 \cup Adj(One1)          \* constants: evaluated once
TwoAll == Two2 \cup Adj(Two2)
Arity(g) == IF g \in OneAll THEN 1 ELSE IF g \in TwoAll THEN 2 ELSE IF g = "GlobalPhase" THEN 0 ELSE -1
ElemsOf(s) == {s[i] : i \in 1..Len(s)}
Distinct(s) == Cardinality(ElemsOf(s)) = Len(s)
NGP(t) == Cardinality({i \in 1..Len(t.out) : t.out[i].g = "GlobalPhase"})

Alphabet(t) == \A i \in 1..Len(t.out) : Arity(t.out[i].g) >= 0
WiresOK(t) == \A i \in 1..Len(t.out) : LET g == t.out[i] IN
   IF g.g = "GlobalPhase" THEN ElemsOf(g.w) \subseteq 1..t.n
   ELSE Len(g.w) = Arity(g.g) /\ Distinct(g.w) /\ ElemsOf(g.w) \subseteq ElemsOf(t.tw)
OneQubitWord(t) == \A i \in 1..Len(t.out) : t.out[i].g = "GlobalPhase" \/ Arity(t.out[i].g) = 1
Precision(t) ==
  IF t.exact = "yes" \/ t.within = 1 THEN "ok"
  ELSE IF t.within2 = 1 THEN "ok:budget-exhausted"
  ELSE "not-within-epsilon"
Verdict(t) ==
  IF t.err # "" THEN "raises"
  ELSE IF ~Alphabet(t) THEN "not-clifford-t"
  ELSE IF ~WiresOK(t) THEN "wrong-wire"
  ELSE IF t.kind \in {"rs", "sk"} /\ ~OneQubitWord(t) THEN "two-qubit-gate-in-one-qubit-approximation"
  ELSE IF t.kind \in {"rs", "sk"} /\ ~(NGP(t) = 1 /\ t.out[Len(t.out)].g = "GlobalPhase") THEN "global-phase-not-last"
  ELSE Precision(t)
Init == tid \in 1..NTRACES /\ done = FALSE
Next == ~done /\ done' = TRUE /\ UNCHANGED tid /\ PrintT(<<"V", tid, Verdict(Traces[tid])>>)
=============================================================================
