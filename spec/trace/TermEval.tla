------------------------------ MODULE TermEval ------------------------------
(***************************************************************************)
(* Trace specification for operator arithmetic (C03) on top of Ops.tla.    *)
(* Each case of the batch file is one recorded history                     *)
(*    [n, emit, a: program of the generated term (post-order instructions),*)
(*     bs: << [b: program of an expression PennyLane produced, rel, perm]>>*)
(* The programs are run by the stack machine of Ops.tla, ONE INSTRUCTION   *)
(* PER TLC STEP through the state variable `stack` (evaluation discipline  *)
(* of DESIGN section 4).  Action Produce(a, b) - PennyLane built / simpli- *)
(* fied / relabelled expression a into b - is enabled iff                  *)
(*    "exact"    Sem(b) = Sem(a)                                           *)
(*    "relabel"  Sem(b) = Sem(a) with wire t renamed to wire perm[t]       *)
(* and is reported as one verdict <<"V", tid, s, clause, errA, errB>> per  *)
(* output (total verdicts).  With emit = 1 TLC prints the exact Sem(a) so  *)
(* that the harness can compare the implementation's float matrix.         *)
(***************************************************************************)
EXTENDS Ops, Json, IOUtils
CONSTANT NCASES
Cases == JsonDeserialize(IOEnv.TRACE_FILE)
VARIABLES tid, side, pc, stack, err, Ua, errA
vars == <<tid, side, pc, stack, err, Ua, errA>>
Case == Cases[tid]
Init == /\ tid \in 1..NCASES /\ side = 0 /\ pc = 1
        /\ stack = <<>> /\ err = "ok" /\ Ua = <<>> /\ errA = "ok"
Prog(s) == IF s = 0 THEN Case.a ELSE Case.bs[s].b
Running == side <= Len(Case.bs) /\ err = "ok" /\ pc <= Len(Prog(side))
Finished == side <= Len(Case.bs) /\ (err # "ok" \/ pc > Len(Prog(side)))
\* one instruction
Step == /\ Running
        /\ LET ins == Prog(side)[pc] IN
           \E g \in {Guard(stack, ins, Case.n)} :
              IF g = "ok" THEN stack' = SemStep(stack, ins, Case.n) /\ err' = "ok"
              ELSE stack' = stack /\ err' = g
        /\ pc' = pc + 1 /\ UNCHANGED <<tid, side, Ua, errA>>
\* a program must leave exactly one value
Final == IF err # "ok" THEN err ELSE IF Len(stack) # 1 THEN "stack-not-singleton"
         ELSE IF ~InBound(stack[1]) THEN "overflow" ELSE "ok"
EndA == /\ side = 0 /\ Finished
        /\ \E f \in {Final} :
             /\ errA' = f
             /\ Ua' = IF f = "ok" THEN stack[1] ELSE <<>>
             /\ IF f = "ok" /\ Case.emit = 1 THEN PrintT(ToJson([tid |-> tid, u |-> stack[1]])) ELSE TRUE
        /\ side' = 1 /\ pc' = 1 /\ stack' = <<>> /\ err' = "ok" /\ UNCHANGED tid
Verdict(ua, ub, o) ==
   CASE o.rel = "exact"   -> IF EqExact(ua, ub) THEN "ok" ELSE "not-equal"
     [] o.rel = "relabel" -> IF EqExact(Relabel(ua, o.perm, Case.n), ub) THEN "ok" ELSE "not-equal-after-relabelling"
     [] OTHER -> "unknown-relation"
EndB == /\ side >= 1 /\ Finished
        /\ \E f \in {Final} :
             PrintT(<<"V", tid, side,
                      IF errA # "ok" THEN "a-not-evaluated" ELSE IF f # "ok" THEN "b-not-evaluated"
                      ELSE Verdict(Ua, stack[1], Case.bs[side]), errA, f>>)
        /\ side' = side + 1 /\ pc' = 1 /\ stack' = <<>> /\ err' = "ok" /\ UNCHANGED <<tid, Ua, errA>>
Next == Step \/ EndA \/ EndB
=============================================================================
