-------------------------- MODULE Trace_Preprocess --------------------------
(***************************************************************************)
(* C33: device preprocessing yields executable, equivalent circuits.       *)
(*                                                                         *)
(* One record per call  Preprocess(device, configuration, input tape):     *)
(*   [n, dev, devw, err, outs, rel, zonly, exact, tin, touts, rows, offs]  *)
(*   devw  = wire positions of the device (<<>> = the device accepts any   *)
(*           wire)                                                         *)
(*   err   = "" or the class of the raised exception                       *)
(*   outs  = per output tape [ops |-> <<[name, ok, w]>>,                   *)
(*                            meas |-> <<[name, ok, obsok, w]>>]           *)
(*           ok / obsok = the DEVICE'S OWN acceptance predicate (the       *)
(*           stopping condition of its decompose step, its observable and  *)
(*           measurement validators) evaluated on the emitted object;      *)
(*           w = the wire positions it acts on                             *)
(*   tin / touts / rows / offs: as in Trace_MeasSplit (MeasSplit.tla):     *)
(*           exact values of the input tape and of the output tapes and    *)
(*           the post-processing function as an affine map.                *)
(*                                                                         *)
(* Action Preprocess is enabled iff                                        *)
(*   err # ""  and err is one of the documented rejection classes; or      *)
(*   err = ""  and  every operation, observable and measurement of every   *)
(*             output tape is accepted by the device, acts on device wires *)
(*             only, and post(Res(outs)) = Res(in) exactly (MeasSplit.     *)
(*             Recombine) - "never silently altered".                      *)
(* When the output circuits contain angles outside the lattice (exact =    *)
(* FALSE) the equivalence clause is decided numerically by the driver      *)
(* against TLC's exact value of the input and only the other clauses here. *)
(***************************************************************************)
EXTENDS MeasSplit, Json, IOUtils
CONSTANT NTRACES
Traces == JsonDeserialize(IOEnv.TRACE_FILE)
VARIABLES tid, done
Init == tid \in 1..NTRACES /\ done = FALSE

\* rejection classes named in the Raises sections of devices/preprocess.py and of the transforms the pipelines contain
Documented == {"DeviceError", "WireError", "AllocationError", "DecompositionUndefinedError", "QuantumFunctionError",
               "ValueError", "RuntimeError", "NotImplementedError"}
OnDevice(w, devw) == devw = <<>> \/ \A i \in DOMAIN w : \E j \in DOMAIN devw : devw[j] = w[i]
FirstBad(s, P(_)) == LET b == {i \in DOMAIN s : ~P(s[i])} IN IF b = {} THEN 0 ELSE CHOOSE i \in b : \A j \in b : i <= j
TapeClause(tp, devw) ==
   LET o1 == FirstBad(tp.ops, LAMBDA o : o.ok)
       o2 == FirstBad(tp.ops, LAMBDA o : OnDevice(o.w, devw))
       m1 == FirstBad(tp.meas, LAMBDA m : m.obsok)
       m2 == FirstBad(tp.meas, LAMBDA m : m.ok)
       m3 == FirstBad(tp.meas, LAMBDA m : OnDevice(m.w, devw))
   IN IF o1 # 0 THEN <<"unsupported-operation", o1>> ELSE IF o2 # 0 THEN <<"operation-wire-not-on-device", o2>>
      ELSE IF m1 # 0 THEN <<"unsupported-observable", m1>> ELSE IF m2 # 0 THEN <<"unsupported-measurement", m2>>
      ELSE IF m3 # 0 THEN <<"measurement-wire-not-on-device", m3>> ELSE <<"ok", 0>>
Verdict(r) ==
   IF r.err # "" THEN (IF r.err \in Documented THEN <<"rejected", 0>> ELSE <<"undocumented-error-class", 0>>)
   ELSE Bind(TLCEval([t \in DOMAIN r.outs |-> TapeClause(r.outs[t], r.devw)]), LAMBDA cl :
        LET bad == {t \in DOMAIN cl : cl[t][1] # "ok"} IN
        IF bad # {} THEN cl[CHOOSE t \in bad : \A u \in bad : t <= u]
        ELSE SplitVerdict(r))
Check == /\ ~done /\ done' = TRUE /\ UNCHANGED tid
         /\ \E v \in {Verdict(Traces[tid])} : PrintT(<<"V", tid, v[1], v[2]>>)
Next == Check
=============================================================================
