----------------------------- MODULE Trace_Arith -----------------------------
(***************************************************************************)
(* Trace validation for C56.  One trace = one (configuration, decomposition *)
(* path) of the real template: for every basis input the harness prepared  *)
(* it records                                                              *)
(*   i  index of the input basis state,  o  index of the largest output    *)
(*   amplitude,  st  "basis" (a single basis state with amplitude +1),     *)
(*   "phase" (single basis state, amplitude of modulus 1 but not +1),      *)
(*   "mixed" (not a single basis state),                                   *)
(* for the matrix path (has_matrix) the same read off the matrix columns,  *)
(* and for the uniform superposition over the domain the set `sup` of      *)
(* indices carrying amplitude +1/sqrt(|Dom|) and `supflat` (nothing else). *)
(* The spec recomputes the documented table with Arith's own definitions   *)
(* and decides, per trace: every domain input was exercised, every output  *)
(* is the documented basis state (value registers AND work wires), no      *)
(* stray phases, the superposition is the permuted uniform state.          *)
(* Verdicts are total: <<"V", tid, "ok" | clause>>.                        *)
(***************************************************************************)
EXTENDS Arith, Json, IOUtils
CONSTANT NTRACES
Traces == JsonDeserialize(IOEnv.TRACE_FILE)
VARIABLES tid, done
Tr == Traces[tid]
TInit == tid \in 1..NTRACES /\ done = FALSE

WorkWires(c) == IF c.wk = 0 THEN {} ELSE {c.lay[c.wk][i] : i \in 1..Len(c.lay[c.wk])}
\* do two indices agree on all non-work wires ?
SameValue(c, a, b) == \A w \in (0..(c.N - 1)) \ WorkWires(c) : WireBit(a, c.N, w) = WireBit(b, c.N, w)

\* do two indices agree on all work wires ?
SameWork(c, a, b) == \A w \in WorkWires(c) : WireBit(a, c.N, w) = WireBit(b, c.N, w)
Join(a, b) == IF a = "" THEN b ELSE IF b = "" THEN a ELSE a \o "+" \o b

\* every failing clause of the trace, joined with "+"; "ok" when none fails
Verdict(t) ==
  LET c == t.c
      T == TLCEval(Table(c))
      ins == {x[1] : x \in T}
      ExpF == TLCEval([i \in ins |-> (CHOOSE x \in T : x[1] = i)[2]])
      obs == t.obs
      J == 1..Len(obs)
      JB == {j \in J : obs[j].i \in ins /\ obs[j].st # "mixed"}     \* observations that are basis states
      mixed == IF \E j \in J : obs[j].st = "mixed" THEN "not-a-basis-state" ELSE ""
      value == IF \E j \in JB : ~SameValue(c, obs[j].o, ExpF[obs[j].i]) THEN "wrong-value" ELSE ""
      work == IF \E j \in JB : ~SameWork(c, obs[j].o, ExpF[obs[j].i]) THEN "work-wires-not-restored" ELSE ""
      phase == IF \E j \in J : obs[j].st = "phase" THEN "stray-phase" ELSE ""
      basic == Join(Join(mixed, value), Join(work, phase))
      sup == IF basic = "" /\ t.sup # <<>> /\ ({t.sup[j] : j \in 1..Len(t.sup)} # {x[2] : x \in T} \/ ~t.supflat)
             THEN "superposition" ELSE ""
  IN  IF ~Pre(c) THEN "outside-preconditions"
      ELSE IF t.exc # "" THEN "exception"
      ELSE IF {obs[j].i : j \in J} # ins THEN "domain-not-covered"
      ELSE IF Join(basic, sup) = "" THEN "ok" ELSE Join(basic, sup)

TDone == /\ ~done /\ done' = TRUE /\ tid' = tid
         /\ PrintT(<<"V", tid, Verdict(Tr)>>)
TNext == TDone
=============================================================================
