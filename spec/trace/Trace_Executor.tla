--------------------------- MODULE Trace_Executor ----------------------------
(***************************************************************************)
(* Trace validation for C65 / C31.  A trace record is a group of runs of   *)
(* one batch (n tasks, pool of w workers) through a real executor backend: *)
(*   [n, w, kind, runs, same]                                              *)
(*   runs[r] = [ev, out, exc, flags, intended]                             *)
(*     ev       the Start/End records logged INSIDE the workers, in time   *)
(*              order: [e |-> "s" | "e", i |-> task, v |-> value computed  *)
(*              by the task body (End only)]                               *)
(*     out      the list the call returned to the caller ("" exc)          *)
(*     flags    conjunction of the numeric side conditions evaluated by    *)
(*              the harness (C31: analytic results equal serial execution) *)
(*     intended the completion order TLC asked for                         *)
(*   same       pairs <<a, b>> of run indices that must return equal lists *)
(*              (same seed, different schedule / device / worker order)    *)
(* Every event is replayed through the Executor state (Submit up to i,     *)
(* Take, Finish); the verdict clauses are the property statements:         *)
(*   "order"     out[k] is the value computed by task k, for all k         *)
(*   "expected"  (kind "sched") out = ExpectedOut, the sequential map      *)
(*   "repro"     runs named in `same` returned equal lists                 *)
(*   "raised" / "length" / "flag"                                          *)
(* Mechanism disagreements (more than w tasks observed running, a start    *)
(* that is not the head of the queue, tasks observed twice / not at all,   *)
(* completion order different from the one intended) are counted as drift  *)
(* and never make a verdict fail.  drift = #non-head starts                *)
(*   + 1000 * #starts observed while w tasks were observed running         *)
(*   + 1000000 * #other anomalies (task twice / unknown / unobserved /     *)
(*     completion order not the intended one).                             *)
(***************************************************************************)
EXTENDS Executor, Json, IOUtils
CONSTANT NTRACES
Traces == JsonDeserialize(IOEnv.TRACE_FILE)
VARIABLES tid, r, l, drift, bad
tvars == <<vars, tid, r, l, drift, bad>>
Tr == Traces[tid]
Run == Tr.runs[r]
Ev == Run.ev[l]
B2N(b) == IF b THEN 1 ELSE 0

TInit == /\ tid \in 1..NTRACES /\ r = 1 /\ l = 1 /\ drift = 0 /\ bad = ""
         /\ InitWith(Traces[tid].n, Traces[tid].w, 0)

InRun == r <= Len(Tr.runs)
TStart ==
  /\ InRun /\ l <= Len(Run.ev) /\ Ev.e = "s"
  /\ LET i == Ev.i
         newq == IF i > nsub THEN queue \o [k \in 1..(i - nsub) |-> nsub + k] ELSE queue
         valid == i \in 1..n /\ i \in SeqSet(newq)
     IN IF valid
        THEN /\ nsub' = IF i > nsub THEN i ELSE nsub
             /\ running' = running \cup {i}
             /\ queue' = Without(newq, i)
             /\ drift' = drift + B2N(Head(newq) # i) + 1000 * B2N(Cardinality(running) >= w)
        ELSE /\ drift' = drift + 1000000 /\ UNCHANGED <<nsub, running, queue>>
  /\ l' = l + 1
  /\ UNCHANGED <<n, w, rng0, phase, round, done, out, collected, corder, rng, seeds, outs, corders, tid, r, bad>>

TEnd ==
  /\ InRun /\ l <= Len(Run.ev) /\ Ev.e = "e"
  /\ IF Ev.i \in running
     THEN Finish(Ev.i, Ev.v) /\ UNCHANGED drift
     ELSE drift' = drift + 1000000 /\ UNCHANGED <<running, done, corder>>
  /\ l' = l + 1
  /\ UNCHANGED <<n, w, rng0, phase, round, nsub, queue, out, collected, rng, seeds, outs, corders, tid, r, bad>>

RunVerdict ==
  IF Run.exc # "" THEN "raised"
  ELSE IF Len(Run.out) # n THEN "length"
  ELSE IF \E k \in DOMAIN done : Run.out[k] # done[k] THEN "order"
  ELSE IF Tr.kind = "sched" /\ \E k \in 1..n : Run.out[k] # ExpectedOut(1)[k] THEN "expected"
  ELSE IF ~Run.flags THEN "flag"
  ELSE ""

TRunDone ==
  /\ InRun /\ l = Len(Run.ev) + 1
  /\ bad' = IF bad # "" THEN bad ELSE RunVerdict
  /\ drift' = drift + 1000000 * (B2N(corder # Run.intended) + B2N(DOMAIN done # 1..n) + B2N(running # {}))
  /\ outs' = Append(outs, Run.out) /\ corders' = Append(corders, corder)
  /\ nsub' = 0 /\ queue' = <<>> /\ running' = {} /\ done' = <<>> /\ corder' = <<>>
  /\ r' = r + 1 /\ l' = 1
  /\ UNCHANGED <<n, w, rng0, phase, round, out, collected, rng, seeds, tid>>

Repro == \A p \in 1..Len(Tr.same) : outs[Tr.same[p][1]] = outs[Tr.same[p][2]]
TDone ==
  /\ r = Len(Tr.runs) + 1
  /\ PrintT(<<"V", tid, IF bad # "" THEN bad ELSE IF ~Repro THEN "repro" ELSE "ok", drift>>)
  /\ r' = r + 1
  /\ UNCHANGED <<vars, tid, l, drift, bad>>

TNext == TStart \/ TEnd \/ TRunDone \/ TDone
=============================================================================
