----------------------------- MODULE ChannelEval -----------------------------
(***************************************************************************)
(* C28: exact reference semantics of a NOISY tape on |0..0><0..0|, one     *)
(* instruction per TLC step: the independent Kraus-sum simulation.         *)
(*                                                                         *)
(* A case: [n, ops: <<instr>>],  instr = gate record (Gates.tla)           *)
(*    | [g |-> "CHANNEL", ch, w, q, x]   channel instance (Channels.tla)   *)
(* The state is the density matrix as a QM (ring matrix over an integer    *)
(* denominator).  Gates act as U rho U^dagger, channels as                 *)
(* sum_t a_t rho b_t^dagger on their wires (first listed wire = most       *)
(* significant bit of the operator).                                       *)
(* Invariant Physical: the REFERENCE density matrix is Hermitian with unit *)
(* trace after every instruction (exact).  At the end TLC emits the exact  *)
(* density matrix; the harness compares default.mixed's floats with it.    *)
(* Cases whose channel parameters are outside the documented domain are    *)
(* reported valid = FALSE and not evolved (negative control).              *)
(***************************************************************************)
EXTENDS Channels, Json, IOUtils
CONSTANT NCASES
Cases == JsonDeserialize(IOEnv.TRACE_FILE)
VARIABLES tid, cpos, crho
Cs == Cases[tid]
IsCh(ins) == ins.g = "CHANNEL"
AllValid(ops) == \A t \in 1..Len(ops) : IsCh(ops[t]) => ValidChannel(ops[t])
Init == /\ tid \in 1..NCASES /\ cpos = 1 /\ crho = PureZero(Cases[tid].n)
Step == /\ cpos <= Len(Cs.ops) /\ AllValid(Cs.ops)
        /\ LET ins == Cs.ops[cpos] IN
           crho' = IF IsCh(ins) THEN EvolveChannel(crho, ins, Cs.n) ELSE EvolveGate(crho, GateM(ins), ins.w, Cs.n)
        /\ cpos' = cpos + 1 /\ UNCHANGED tid
Finish == /\ (cpos = Len(Cs.ops) + 1 \/ ~AllValid(Cs.ops)) /\ cpos <= Len(Cs.ops) + 1
          /\ PrintT(ToJson([tid |-> tid, valid |-> AllValid(Cs.ops), k |-> crho.m.k, e |-> crho.m.e, d |-> crho.d,
                            big |-> QMaxAbs(crho) >= 2^26]))
          /\ cpos' = Len(Cs.ops) + 2 /\ crho' = crho /\ UNCHANGED tid
Next == Step \/ Finish
Physical == QIsHermitian(crho) /\ QTraceIsOne(crho)
=============================================================================
