--------------------------- MODULE Trace_Estimator ---------------------------
(***************************************************************************)
(* Trace validation for C47.  Each record is something the real estimator  *)
(* did, recorded by the harness (every field always present):              *)
(*  kind = "wm"   a call history on a WireResourceManager                  *)
(*  kind = "est"  one estimate(...) run; `calls` are the grab_zeroed /     *)
(*                free_wires calls it made on its manager (recorded by a   *)
(*                wrapper around the two methods), `fin` the wires of the  *)
(*                returned Resources (fin.ok = FALSE: the run raised at    *)
(*                its last recorded call)                                  *)
(*  kind = "add"  gate counts of a whole (`whole`) and of its parts        *)
(*                (`parts`, each with a repetition factor k)               *)
(*  kind = "comb" Resources.add_series / add_parallel / multiply_series /  *)
(*                multiply_parallel: inputs in `parts`, output in `whole`  *)
(*                and `fin`                                                *)
(*    cfg   = [z, a, algo, tight]        budget the manager started with   *)
(*    calls = << [op, n, exc, z, a, t] >> op in {"grab","free"}; z, a, t = *)
(*            zeroed / any_state / total_wires read after the call         *)
(*    fin   = [ok, z, a, algo, total]                                      *)
(*    lb, algoexp = lower bound / documented value of the algorithmic      *)
(*            wires of the workflow (-1: not applicable)                   *)
(*    parts = << [k, c, z, a, algo] >>, c and whole = << <<name, n>> >>    *)
(* TLC re-executes every recorded call with the Estimator actions and      *)
(* prints <<"V", tid, verdict, drift>>: verdict "ok" or the first failing  *)
(* property-level clause; drift names a disagreement that is about the     *)
(* mechanism only (documented wire-combination rules, algo-wire formula).  *)
(***************************************************************************)
EXTENDS Estimator, Json, IOUtils
CONSTANT NTRACES
Traces == JsonDeserialize(IOEnv.TRACE_FILE)
VARIABLES tid, done

\* ---- recorded calls against the documented Grab / Free
RECURSIVE Replay(_, _, _)
Replay(s, cs, i) ==
  IF i > Len(cs) THEN [v |-> "ok", s |-> s]
  ELSE LET c  == cs[i]
           ok == IF c.op = "grab" THEN GrabOK(s, c.n) ELSE FreeOK(s, c.n)
           s2 == IF ~ok THEN s ELSE IF c.op = "grab" THEN Grab(s, c.n) ELSE Free(s, c.n)
       IN IF c.z < 0 \/ c.a < 0 THEN [v |-> "negative-wires", s |-> s]
          ELSE IF c.exc /\ ok THEN [v |-> c.op \o "-raised-within-budget", s |-> s]
          ELSE IF ~c.exc /\ ~ok THEN [v |-> c.op \o "-overdraw-accepted", s |-> s]
          ELSE IF c.z # s2.z \/ c.a # s2.a THEN [v |-> c.op \o "-bookkeeping", s |-> s]
          ELSE IF c.t # TotalWires(s2) THEN [v |-> "total-wires", s |-> s]
          ELSE IF ~(NonNegS(s2) /\ AccountedS(s2) /\ TotalGeAlgoS(s2)) THEN [v |-> "unaccounted-wires", s |-> s]
          ELSE Replay(s2, cs, i + 1)

Start(r) == WM0(r.cfg.z, r.cfg.a, r.cfg.algo, r.cfg.tight)

VWm(r) == Replay(Start(r), r.calls, 1).v

VEst(r) ==
  LET rp == Replay(Start(r), r.calls, 1)  f == r.fin  n == Len(r.calls) IN
  IF rp.v # "ok" THEN rp.v
  ELSE IF ~f.ok THEN (IF n > 0 /\ r.calls[n].exc THEN "ok" ELSE "raised-without-failed-call")
  ELSE IF \E i \in 1..n : r.calls[i].exc THEN "failed-call-ignored"
  ELSE IF f.z < 0 \/ f.a < 0 THEN "negative-wires"
  ELSE IF f.z # rp.s.z \/ f.a # rp.s.a THEN "allocation-not-accounted"           \* reported wires = replay of every call
  ELSE IF f.total # f.z + f.a + f.algo \/ f.total < f.algo \/ f.algo # rp.s.algo THEN "total-wires"
  ELSE IF r.lb >= 0 /\ f.algo < r.lb THEN "algo-wires-below-workflow"
  ELSE "ok"
DEst(r) == IF r.fin.ok /\ r.algoexp >= 0 /\ r.fin.algo # r.algoexp THEN "algo-formula" ELSE "none"

\* ---- gate counts
RECURSIVE CountIn(_, _)
CountIn(c, g) == IF c = <<>> THEN 0 ELSE (IF c[1][1] = g THEN c[1][2] ELSE 0) + CountIn(Tail(c), g)
NamesOf(c) == {c[i][1] : i \in 1..Len(c)}
RECURSIVE PartSum(_, _)
PartSum(ps, g) == IF ps = <<>> THEN 0 ELSE ps[1].k * CountIn(ps[1].c, g) + PartSum(Tail(ps), g)
AllNames(r) == NamesOf(r.whole) \cup UNION {NamesOf(r.parts[i].c) : i \in 1..Len(r.parts)}
Additive(r) == \A g \in AllNames(r) : CountIn(r.whole, g) = PartSum(r.parts, g)
NonNegCounts(r) == \A i \in 1..Len(r.whole) : r.whole[i][2] >= 0

VAdd(r) == IF ~NonNegCounts(r) THEN "negative-count" ELSE IF ~Additive(r) THEN "additivity" ELSE "ok"

Max(x, y) == IF x > y THEN x ELSE y
VComb(r) == LET f == r.fin IN
  IF ~NonNegCounts(r) THEN "negative-count"
  ELSE IF ~Additive(r) THEN "additivity"
  ELSE IF f.z < 0 \/ f.a < 0 THEN "negative-wires"
  ELSE IF f.total # f.z + f.a + f.algo \/ f.total < f.algo THEN "total-wires"
  ELSE "ok"
DComb(r) == LET f == r.fin  p == r.parts[1]  q == r.parts[Len(r.parts)]  k == p.k IN
  IF CASE r.op = "add_series"        -> f.z = Max(p.z, q.z) /\ f.a = p.a + q.a /\ f.algo = Max(p.algo, q.algo)
       [] r.op = "add_parallel"      -> f.z = Max(p.z, q.z) /\ f.a = p.a + q.a /\ f.algo = p.algo + q.algo
       [] r.op = "multiply_series"   -> f.z = p.z /\ f.a = p.a * k /\ f.algo = p.algo
       [] r.op = "multiply_parallel" -> f.z = p.z /\ f.a = p.a * k /\ f.algo = p.algo * k
       [] OTHER -> TRUE
  THEN "none" ELSE "wire-rule"

Verdict(r) == CASE r.kind = "wm" -> VWm(r) [] r.kind = "est" -> VEst(r) [] r.kind = "add" -> VAdd(r) [] r.kind = "comb" -> VComb(r)
Drift(r) == CASE r.kind = "est" -> DEst(r) [] r.kind = "comb" -> DComb(r) [] OTHER -> "none"

TInit == tid \in 1..NTRACES /\ done = FALSE
TNext == /\ ~done /\ done' = TRUE /\ UNCHANGED tid
         /\ PrintT(<<"V", tid, Verdict(Traces[tid]), Drift(Traces[tid])>>)
=============================================================================
