-------------------------- MODULE Trace_TapeParams ---------------------------
(***************************************************************************)
(* Trace validation for C40.  A trace is one history replayed through the  *)
(* real QuantumScript API; after every call the driver records the         *)
(* projection of EVERY live tape as the implementation reports it          *)
(* (operations, measurements, par_info, get_parameters in its three modes, *)
(* trainable_params, shots; operators as trees read through coeffs / ops,  *)
(* scalar / base, operands).  TLC re-derives the views with the            *)
(* definitions of TapeParams and decides, at every step, the property-level*)
(* conjuncts:                                                              *)
(*   views     par_info / parameter list / trainable indices agree         *)
(*   frame     no other tape changed (copies are independent)              *)
(*   copy      a copy equals its source (up to the updated attribute)      *)
(*   bind      bind_new_parameters changed exactly the addressed slots     *)
(*   bindcur   binding the current parameters reproduces an equal tape     *)
(*   set_tr    the setter accepts exactly the index sets that address      *)
(*             parameters, and then reports them                           *)
(*   expand    a parameter of the expansion is trainable iff it derives    *)
(*             from a trainable parameter of the original (constants a     *)
(*             decomposition rule introduces may be flagged either way)    *)
(* Verdict: <<"V", tid, "ok" | clause, step>> for every trace.             *)
(***************************************************************************)
EXTENDS TapeParams, Json, IOUtils
CONSTANT NTRACES
Traces == JsonDeserialize(IOEnv.TRACE_FILE)
VARIABLES tid, l, verdict
tvars == <<vars, tid, l, verdict>>

Steps == Traces[tid].steps
Tp(p) == [ops |-> p.ops, meas |-> p.meas, tr |-> SeqSet(p.tr), shots |-> p.shots]
StrictlySorted(s) == \A i \in 1..Len(s) - 1 : s[i] < s[i + 1]

ViewsOK(p) == LET t == Tp(p) IN
  /\ p.err = ""
  /\ StrictlySorted(p.tr)
  /\ t.tr \subseteq 0..NumPar(t) - 1
  /\ p.pi = ParInfo(t) /\ p.piop
  /\ p.all = AllParams(t)
  /\ p.tp = TrainParams(t)
  /\ p.otp = OpsTrainParams(t)
  /\ p.np = Len(p.tr)
Same(p, q) == Tp(p) = Tp(q)

\* the failing clause of step k ("" when the step is explained by the specification)
Clause(k) ==
  LET s == Steps[k]
      H == s.heap
      P == IF k = 1 THEN <<>> ELSE Steps[k - 1].heap
      mod == IF s.a = "set_tr" THEN s.t ELSE 0
  IN
  IF \E i \in 1..Len(H) : ~ViewsOK(H[i]) /\ ~(s.a = "set_tr" /\ i = s.t) THEN "views-inconsistent"
  ELSE IF Len(H) < Len(P) \/ \E i \in 1..Len(P) : i # mod /\ ~Same(H[i], P[i]) THEN "other-tape-changed"
  ELSE IF s.a = "construct" THEN ""
  ELSE IF s.a = "set_tr" THEN
         LET inrange == SeqSet(s.arg) \subseteq 0..NumPar(Tp(P[s.t])) - 1 IN
         IF inrange THEN (IF s.res = "ok" /\ H[s.t].tr = s.arg /\ ViewsOK(H[s.t]) /\ Same(H[s.t], [P[s.t] EXCEPT !.tr = s.arg]) THEN "" ELSE "set-trainable-valid-indices-not-stored")
         ELSE (IF s.res = "ok" THEN "set-trainable-accepts-index-without-parameter"
               ELSE IF Same(H[s.t], P[s.t]) /\ ViewsOK(H[s.t]) THEN "" ELSE "set-trainable-error-path-changed-tape")
  ELSE IF s.res # "ok" THEN "unexpected-exception"
  ELSE IF Len(H) # Len(P) + 1 \/ s.new # Len(H) THEN "no-new-tape"
  ELSE LET src == Tp(P[s.t]) new == Tp(H[s.new]) IN
       IF s.a \in {"copy", "copy_deep"} THEN (IF new = src THEN "" ELSE "copy-not-equal")
       ELSE IF s.a = "copy_tr" THEN (IF new = [src EXCEPT !.tr = SeqSet(s.arg)] THEN "" ELSE "copy-update-trainable-wrong")
       ELSE IF s.a = "copy_shots" THEN (IF new = [src EXCEPT !.shots = s.arg[1]] THEN "" ELSE "copy-update-shots-wrong")
       ELSE IF s.a = "copy_ops" THEN (IF new.ops = SubSeq(src.ops, 1, Len(src.ops) - 1) /\ new.meas = src.meas /\ new.shots = src.shots THEN "" ELSE "copy-update-operations-wrong")
       ELSE IF s.a = "bind" THEN (IF new = BindF(src, s.vals, s.arg) THEN "" ELSE "bind-not-exact")
       ELSE IF s.a \in {"bindcur_all", "bindcur_tr"} THEN (IF new = src /\ s.eq THEN "" ELSE "bind-current-not-equal")
       ELSE IF s.a = "expand" THEN
              (IF new.meas # src.meas \/ new.shots # src.shots THEN "expand-changed-measurements"
               ELSE IF LET d == DerivedTrainable(src, AllParams(new))
                           konst == {j \in 0..NumPar(new) - 1 : Abs(AllParams(new)[j + 1]) = PiHalf} IN   \* constants introduced by a rule: either way
                       ~(d \subseteq new.tr /\ new.tr \subseteq d \cup konst) THEN "expand-trainability-not-preserved"
               ELSE "")
       ELSE "unknown-action"

\* mechanism (not property): does the implementation's new tape equal the one the model predicts?
Drift(k) == LET s == Steps[k] IN
  IF k = 1 \/ s.a = "set_tr" \/ s.res # "ok" THEN FALSE
  ELSE LET src == Tp(Steps[k - 1].heap[s.t]) new == Tp(s.heap[s.new]) IN
       \/ (s.a = "copy_ops" /\ new.tr # 0..NumPar(new) - 1)
       \/ (s.a = "expand" /\ DistinctAbs(src) /\ new.ops # ExpandOps(src.ops))

TInit == /\ tid \in 1..NTRACES /\ l = 1 /\ verdict = <<"", 0, FALSE>> /\ heap = <<>> /\ hist = <<>>
TStep == /\ l <= Len(Steps) /\ verdict[1] = ""
         /\ \E c \in {Clause(l)} : verdict' = <<c, l, verdict[3] \/ (c = "" /\ Drift(l))>>
         /\ l' = l + 1 /\ UNCHANGED <<vars, tid>>
TDone == /\ l < 10000 /\ (l > Len(Steps) \/ verdict[1] # "")
         /\ PrintT(<<"V", tid, IF verdict[1] = "" THEN "ok" ELSE verdict[1], verdict[2], IF verdict[3] THEN "drift" ELSE "same">>)
         /\ l' = 10000 /\ UNCHANGED <<vars, tid, verdict>>
TNext == TStep \/ TDone
=============================================================================
