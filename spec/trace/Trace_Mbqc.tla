----------------------------- MODULE Trace_Mbqc ------------------------------
(***************************************************************************)
(* C74  A circuit converted to the measurement-based formalism implements  *)
(* the original circuit on the logical wires FOR EVERY MEASUREMENT OUTCOME.*)
(*                                                                         *)
(* A case is one recorded conversion:                                      *)
(*   [n, ops: the converted tape as instructions, ref: the gates of the    *)
(*    ORIGINAL circuit on logical wires 1..k, outs: <<positions of the k   *)
(*    logical output wires in the converted register>>, rel, path]         *)
(*  instruction = gate record (Gates.tla)                                  *)
(*      | [g |-> "MEASURE", w |-> <<p>>, x |-> <<reset>>]   (Z basis; a    *)
(*          measurement in a rotated basis is recorded as its basis change *)
(*          followed by MEASURE)                                           *)
(*      | [g |-> "COND", ms |-> <<measurement numbers>>, tt |-> <<ints>>,  *)
(*          op |-> gate record]   op is applied iff the outcomes of the    *)
(*          listed measurements, read as a binary number (first listed =   *)
(*          most significant), are in tt                                   *)
(* The behaviours of the spec are the measurement histories: MEASURE is a  *)
(* nondeterministic action with one successor per outcome of non-zero      *)
(* weight (projector (I +- Z)/2, then X if reset and the outcome is 1), so *)
(* TLC enumerates EVERY outcome branch (or follows `path` when the driver  *)
(* prescribes a sampled history).  The state vector is exact in the ring.  *)
(* At every leaf the enabling condition of the conversion is decided       *)
(* exactly:                                                                *)
(*   rel = "state":  v = psi (x) phi  for SOME state phi of the other      *)
(*        wires, psi = Sem(ref)|0..0>   (equal up to a scalar; cross       *)
(*        multiplication, no division)                                     *)
(*   rel = "probs":  the computational-basis distribution of the logical   *)
(*        wires is that of psi  (offline byproduct correction of samples)  *)
(* and reported as <<"L", tid, clause>> (one line per leaf: verdicts are   *)
(* total; the driver checks the number of leaves).                         *)
(***************************************************************************)
EXTENDS Gates, Json, IOUtils
CONSTANT NCASES
Cases == JsonDeserialize(IOEnv.TRACE_FILE)
VARIABLES tid, pos, v, o, psi
Case == Cases[tid]

Init == tid \in 1..NCASES /\ pos = 0 /\ v = <<>> /\ o = <<>> /\ psi = <<>>

RECURSIVE Chain(_, _, _, _)
Chain(u, gs, i, n) == IF i > Len(gs) THEN u ELSE Chain(ApplyGate(u, GateM(gs[i]), gs[i].w, n), gs, i + 1, n)
\* the reference state of the logical wires: the original circuit on |0..0>
Start == /\ pos = 0
         /\ psi' = Chain(BasisCol(2^Len(Case.outs), 0), Case.ref, 1, Len(Case.outs))
         /\ v' = BasisCol(2^Case.n, 0) /\ pos' = 1 /\ UNCHANGED <<tid, o>>

Project(vec, w, b, n) ==
  [k |-> vec.k, e |-> TLCEval([i \in 1..2^n |-> IF Bit(i-1, w, n) = b THEN vec.e[i] ELSE <<Zero>>])]
IsZeroV(vec) == \A i \in 1..Len(vec.e) : IsZero(vec.e[i][1])
Ins == Case.ops[pos]
Running == pos >= 1 /\ pos <= Len(Case.ops)

GateStep == /\ Running /\ Ins.g \notin {"MEASURE", "COND"}
            /\ v' = ApplyGate(v, GateM(Ins), Ins.w, Case.n)
            /\ pos' = pos + 1 /\ UNCHANGED <<tid, o, psi>>

CondVal(ms) == LET S[t \in 0..Len(ms)] == IF t = 0 THEN 0 ELSE 2 * S[t-1] + o[ms[t]] IN S[Len(ms)]
CondHolds(ins) == LET c == CondVal(ins.ms) IN \E j \in 1..Len(ins.tt) : ins.tt[j] = c
CondStep == /\ Running /\ Ins.g = "COND"
            /\ v' = IF CondHolds(Ins) THEN ApplyGate(v, GateM(Ins.op), Ins.op.w, Case.n) ELSE v
            /\ pos' = pos + 1 /\ UNCHANGED <<tid, o, psi>>

\* (IF, not \/: TLC splits a disjunction inside an action into sub-actions and evaluates both)
Allowed(b) == IF Len(Case.path) = 0 THEN TRUE ELSE Case.path[Len(o) + 1] = b
Measure(b) == /\ Running /\ Ins.g = "MEASURE" /\ Allowed(b)
              /\ LET pr == Project(v, Ins.w[1], b, Case.n) IN
                 /\ ~IsZeroV(pr)
                 /\ v' = IF Ins.x[1] = 1 /\ b = 1 THEN ApplyGate(pr, MX, Ins.w, Case.n) ELSE pr
              /\ o' = Append(o, b) /\ pos' = pos + 1 /\ UNCHANGED <<tid, psi>>
\* a prescribed history of weight zero cannot be followed: reported, never silently dropped
DeadPath == /\ Running /\ Ins.g = "MEASURE" /\ Len(Case.path) > 0
            /\ IsZeroV(Project(v, Ins.w[1], Case.path[Len(o) + 1], Case.n))
            /\ PrintT(<<"L", tid, "zero-weight-path">>)
            /\ pos' = Len(Case.ops) + 2 /\ v' = <<>> /\ UNCHANGED <<tid, o, psi>>

\* ---- leaf conditions (exact, by cross multiplication)
Amp(vec, i) == vec.e[i][1]
\* v = psi (x) phi :  v[o, r] * psi[o'] = v[o', r] * psi[o]   for all r, o, o'
ProductWith(vec, ps, outs, n) ==
  LET k == Len(outs)  sub == SubIdx(outs, n)  msk == MskIdx(outs, n)  plc == PlcIdx(outs, n) IN
  \A i \in 0..2^n-1 : \A oo \in 0..2^k-1 :
     Mul(Amp(vec, i+1), Amp(ps, oo+1)) = Mul(Amp(vec, msk[i] + plc[oo] + 1), Amp(ps, sub[i]+1))
Norm2(x) == Mul(Conj(x), x)
\* marginal weight of logical outcome oo
Marg(vec, outs, n, oo) == LET sub == SubIdx(outs, n)
                              S[i \in 0..2^n] == IF i = 0 THEN Zero ELSE IF sub[i-1] = oo THEN Add(S[i-1], Norm2(Amp(vec, i))) ELSE S[i-1]
                          IN S[2^n]
SameProbs(vec, ps, outs, n) ==
  LET k == Len(outs)
      mg == TLCEval([oo \in 0..2^k-1 |-> Marg(vec, outs, n, oo)])
      pp == TLCEval([oo \in 0..2^k-1 |-> Norm2(Amp(ps, oo+1))]) IN
  \A a \in 0..2^k-1 : \A b \in 0..2^k-1 : Mul(mg[a], pp[b]) = Mul(mg[b], pp[a])
Leaf == /\ pos = Len(Case.ops) + 1
        /\ PrintT(<<"L", tid,
              IF MaxAbsM(v) >= 2^18 \/ MaxAbsM(psi) >= 2^18 THEN "overflow"
              ELSE IF IsZeroV(v) THEN "zero-state"
              ELSE IF Case.rel = "state" THEN (IF ProductWith(v, psi, Case.outs, Case.n) THEN "ok" ELSE "wrong-logical-state")
              ELSE (IF SameProbs(v, psi, Case.outs, Case.n) THEN "ok" ELSE "wrong-logical-distribution")>>)
        /\ pos' = pos + 1 /\ v' = <<>> /\ UNCHANGED <<tid, o, psi>>
Next == Start \/ GateStep \/ CondStep \/ Measure(0) \/ Measure(1) \/ DeadPath \/ Leaf
=============================================================================
