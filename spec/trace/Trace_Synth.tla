---------------------------- MODULE Trace_Synth -----------------------------
(***************************************************************************)
(* C14: the documented STRUCTURAL contract of the unitary-synthesis entry  *)
(* points, validated on recorded calls.  One trace = one call              *)
(*   kind  "one"   one_qubit_decomposition(U, wire, rotations, return_global_phase)   *)
(*         "two"   two_qubit_decomposition(U, wires)                       *)
(*         "multi" multi_qubit_decomposition(U, wires)                     *)
(*         "cd"    QubitUnitary.compute_decomposition(U, wires)            *)
(*         "rule"  a registered QubitUnitary decomposition rule (name in conv)        *)
(*         "u2r"   the unitary_to_rot transform on a tape holding QubitUnitary(U)     *)
(*         "full"  decompose(...) of QubitUnitary(U) down to rotations and CNOTs      *)
(*         "input" no call: the exact matrix u of an input (answered with its class)  *)
(*         "class" no call: a classifier control (exp = textbook CNOT class of u)     *)
(*   n     number of wires of U;  tw  positions of the wires handed to the call       *)
(*   u     (input traces) the exact matrix of U over D[omega], emitted by TLC from    *)
(*         the input word; call traces refer to their input by position (driver)      *)
(*   conv  rotation convention ("ZYZ","XYX","XZX","ZXZ","rot") or ""      *)
(*   gp    1 global phase requested, 0 not requested, 2 optional (rules)   *)
(*   err   "" or the class of the exception raised                         *)
(*   chk   (input traces) 1: also check the classifier's invariance laws   *)
(*   out   the returned operators: [g name, w wire positions, x extra ints]*)
(*         x = <<dim>> for QubitUnitary, <<axis 1|2|3>> for SelectPauliRot *)
(*         (w = control positions followed by the target position)         *)
(* Documentation transcribed:                                              *)
(*  - one qubit: the three rotations of the requested convention, in the   *)
(*    order of the name, on the given wire ("rot": one Rot, or one RZ),    *)
(*    and GlobalPhase as the LAST element iff return_global_phase.         *)
(*  - two qubits: single-qubit SU(2) operations (QubitUnitary on one wire),*)
(*    CNOTs and single-qubit rotations on the two given wires, with AT     *)
(*    MOST THREE CNOTs, plus at most one GlobalPhase.                      *)
(*  - multi qubit: four (n-1)-qubit QubitUnitary on wires[1:] interleaved  *)
(*    with three SelectPauliRot multiplexers targeting wires[0] and        *)
(*    controlled by wires[1:].                                             *)
(*  - unitary_to_rot: no one- or two-qubit QubitUnitary is left; only      *)
(*    single-qubit rotations, CNOTs (at most three for a two-qubit         *)
(*    unitary) and GlobalPhase.                                            *)
(* The verdict also carries what the INPUT is (SynthClass: flags, minimal  *)
(* CNOT class) so that the coverage of the edge classes named by the       *)
(* property is measured by the spec, and the number of CNOTs actually      *)
(* used (comparison with the minimal number is reported as drift only:     *)
(* the property demands "at most three").                                  *)
(***************************************************************************)
EXTENDS SynthClass, Json, IOUtils
CONSTANT NTRACES
Traces == JsonDeserialize(IOEnv.TRACE_FILE)
VARIABLES tid, done

Names(t) == [i \in 1..Len(t.out) |-> t.out[i].g]
CountG(t, nm) == Cardinality({i \in 1..Len(t.out) : t.out[i].g = nm})
ElemsOf(s) == {s[i] : i \in 1..Len(s)}
ConvSeq(c) == CASE c = "ZYZ" -> <<"RZ", "RY", "RZ">> [] c = "XYX" -> <<"RX", "RY", "RX">>
                [] c = "XZX" -> <<"RX", "RZ", "RX">> [] c = "ZXZ" -> <<"RZ", "RX", "RZ">>
                [] OTHER -> <<"?">>
EndsWithGP(t) == Len(t.out) > 0 /\ t.out[Len(t.out)].g = "GlobalPhase"
Body(t) == IF EndsWithGP(t) THEN SubSeq(t.out, 1, Len(t.out) - 1) ELSE t.out
GPWiresOK(t, g) == g.w = <<>> \/ ElemsOf(g.w) \subseteq ElemsOf(t.tw)

ConOne(t, conv, gp) ==
  LET b == Body(t)  nb == [i \in 1..Len(b) |-> b[i].g] IN
  IF gp = 1 /\ ~EndsWithGP(t) THEN "global-phase-requested-but-not-last"
  ELSE IF gp = 0 /\ CountG(t, "GlobalPhase") > 0 THEN "global-phase-not-requested-but-returned"
  ELSE IF \E i \in 1..Len(b) : b[i].g = "GlobalPhase" THEN "more-than-one-global-phase"
  ELSE IF conv = "rot" /\ nb # <<"Rot">> /\ nb # <<"RZ">> THEN "not-the-requested-convention"
  ELSE IF conv # "rot" /\ nb # ConvSeq(conv) THEN "not-the-requested-convention"
  ELSE IF \E i \in 1..Len(b) : b[i].w # t.tw THEN "wrong-wire"
  ELSE IF EndsWithGP(t) /\ ~GPWiresOK(t, t.out[Len(t.out)]) THEN "wrong-wire"
  ELSE "ok"

TwoNames == {"QubitUnitary", "CNOT", "RZ", "RY", "RX", "GlobalPhase"}
ConTwo(t) ==
  IF \E i \in 1..Len(t.out) : t.out[i].g \notin TwoNames THEN "unexpected-operator"
  ELSE IF CountG(t, "CNOT") > 3 THEN "more-than-three-cnots"
  ELSE IF CountG(t, "GlobalPhase") > 1 THEN "more-than-one-global-phase"
  ELSE IF \E i \in 1..Len(t.out) : LET g == t.out[i] IN
            \/ (g.g = "CNOT" /\ ~(Len(g.w) = 2 /\ ElemsOf(g.w) = ElemsOf(t.tw)))
            \/ (g.g \in {"QubitUnitary", "RZ", "RY", "RX"} /\ ~(Len(g.w) = 1 /\ g.w[1] \in ElemsOf(t.tw)))
            \/ (g.g = "QubitUnitary" /\ g.x # <<2>>)
            \/ (g.g = "GlobalPhase" /\ ~GPWiresOK(t, g)) THEN "wrong-wire"
  ELSE "ok"

Rest(s) == SubSeq(s, 2, Len(s))
ConMulti(t) ==
  IF Names(t) # <<"QubitUnitary", "SelectPauliRot", "QubitUnitary", "SelectPauliRot", "QubitUnitary", "SelectPauliRot", "QubitUnitary">>
    THEN "not-four-unitaries-and-three-multiplexers"
  ELSE IF \E i \in {1, 3, 5, 7} : t.out[i].w # Rest(t.tw) \/ t.out[i].x # <<2^(t.n - 1)>> THEN "wrong-wire"
  ELSE IF \E i \in {2, 4, 6} : t.out[i].w # Rest(t.tw) \o <<t.tw[1]>> THEN "wrong-wire"
  ELSE "ok"

RotNames == {"RZ", "RY", "RX", "Rot", "CNOT", "GlobalPhase"}
ConU2R(t) ==
  IF \E i \in 1..Len(t.out) : t.out[i].g = "QubitUnitary" /\ Len(t.out[i].w) <= 2 THEN "qubit-unitary-left"
  ELSE IF t.n <= 2 /\ \E i \in 1..Len(t.out) : t.out[i].g \notin RotNames THEN "unexpected-operator"
  ELSE IF t.n = 2 /\ CountG(t, "CNOT") > 3 THEN "more-than-three-cnots"
  ELSE IF \E i \in 1..Len(t.out) : ~(ElemsOf(t.out[i].w) \subseteq ElemsOf(t.tw)) THEN "wrong-wire"
  ELSE "ok"
ConFull(t) ==
  IF \E i \in 1..Len(t.out) : t.out[i].g \notin RotNames THEN "unexpected-operator"
  ELSE IF t.n = 2 /\ CountG(t, "CNOT") > 3 THEN "more-than-three-cnots"
  ELSE IF \E i \in 1..Len(t.out) : ~(ElemsOf(t.out[i].w) \subseteq ElemsOf(t.tw)) THEN "wrong-wire"
  ELSE "ok"

ByWidth(t, gp) == IF t.n = 1 THEN ConOne(t, IF t.conv = "" THEN "ZYZ" ELSE t.conv, gp) ELSE IF t.n = 2 THEN ConTwo(t) ELSE ConMulti(t)
Contract(t) ==
  IF t.err # "" THEN "raises"
  ELSE CASE t.kind = "one" -> ConOne(t, t.conv, t.gp)
         [] t.kind = "two" -> ConTwo(t)
         [] t.kind = "multi" -> ConMulti(t)
         [] t.kind = "cd" -> ByWidth(t, 1)
         [] t.kind = "rule" -> ByWidth(t, 2)
         [] t.kind = "u2r" -> ConU2R(t)
         [] t.kind = "full" -> ConFull(t)
         [] OTHER -> "bad-case:kind"
\* Two sorts of traces.  An INPUT trace (kind "input" / "class") carries the exact matrix u and is answered with what the input is:
\*   <<"V", tid, "ok", flags of U, minimal CNOT class (-1 unless two qubits), 0, classifier self-check>>
\* a CALL trace carries the returned operators and is answered with the contract verdict:
\*   <<"V", tid, contract verdict, 0, -1, CNOTs used, "ok">>
IsInput(t) == t.kind \in {"input", "class"}
Report(t) ==
  IF IsInput(t) THEN
    Bind(MData(t.u), LAMBDA u :
      Bind(IF t.n = 2 THEN SyCnotClass(u) ELSE -1, LAMBDA c :
        <<"V", tid, "ok", SyFlags(u), c, 0,
          IF ~IsUnitary(u) THEN "input-not-unitary"
          ELSE IF t.n = 2 /\ t.chk = 1 /\ ~SyClassInvariant(u, c) THEN "classifier-not-invariant"
          ELSE IF t.kind = "class" /\ t.exp # c THEN "classifier-disagrees-with-known-class"
          ELSE "ok">>))
  ELSE <<"V", tid, Contract(t), 0, -1, CountG(t, "CNOT"), "ok">>
Init == tid \in 1..NTRACES /\ done = FALSE
Next == ~done /\ done' = TRUE /\ UNCHANGED tid /\ PrintT(Report(Traces[tid]))
=============================================================================
