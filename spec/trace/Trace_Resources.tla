-------------------------- MODULE Trace_Resources ---------------------------
(***************************************************************************)
(* C11: declared resources of a decomposition rule vs the gates it emits.  *)
(* One trace = one event ApplyRule(instance, rule): the declared gate      *)
(* counts (compute_resources) and the counts of the emitted operators,     *)
(* both as sequences of <<resource key id, count>> over a per-run table of *)
(* compressed resource representations, plus declared / used work wires.   *)
(* The action is enabled iff                                               *)
(*   exact rule   : the two multisets are equal                            *)
(*   inexact rule : every emitted key appears among the declared keys      *)
(*   and          : used work wires <= declared work wires                 *)
(***************************************************************************)
EXTENDS Integers, Sequences, FiniteSets, TLC, Json, IOUtils
CONSTANT NTRACES
Traces == JsonDeserialize(IOEnv.TRACE_FILE)
VARIABLES tid, done
Bag(s) == [k \in {s[i][1] : i \in 1..Len(s)} |->
             LET S[j \in 0..Len(s)] == IF j = 0 THEN 0 ELSE S[j-1] + (IF s[j][1] = k THEN s[j][2] ELSE 0) IN S[Len(s)]]
Pos(b) == {k \in DOMAIN b : b[k] > 0}
Verdict(t) ==
  LET d == Bag(t.declared)  a == Bag(t.actual) IN
  IF t.ww_actual > t.ww_declared THEN "more-work-wires-than-declared"
  ELSE IF t.exact THEN
       IF Pos(a) # Pos(d) THEN (IF Pos(a) \subseteq Pos(d) THEN "declared-gate-not-emitted" ELSE "emitted-gate-not-declared")
       ELSE IF \E k \in Pos(a) : a[k] # d[k] THEN "count-differs" ELSE "ok"
  ELSE IF Pos(a) \subseteq Pos(d) THEN "ok" ELSE "emitted-gate-not-declared"
Init == tid \in 1..NTRACES /\ done = FALSE
Next == ~done /\ done' = TRUE /\ UNCHANGED tid /\ PrintT(<<"V", tid, Verdict(Traces[tid])>>)
=============================================================================
