------------------------------ MODULE Trace_Roto ------------------------------
(***************************************************************************)
(* Trace validation for C61 (Rotosolve / Rotoselect).  One trace = one     *)
(* optimizer driven through a few step / step_and_cost calls on the real   *)
(* code; per call the harness records the returned parameters as lattice   *)
(* integers (parameter d in units of pi/(12 fn[d]), fn/fd its frequency;   *)
(* `on` says whether the float was on the lattice), the returned           *)
(* generators (Rotoselect), and 4 x the returned cost and 4 x the sub-step *)
(* minima of full_output (Rotosolve), as integers (Roto!F is 4 F).         *)
(* The sweep is re-played with the IMPLEMENTATION's own choices and every  *)
(* sub-step is decided declaratively (Roto.tla):                           *)
(*   not-a-minimum            sin(fq*theta + ph) # -sign(a)  (any rational *)
(*                            fq: compared modulo the period 2 pi / fq)    *)
(*   not-the-best-generator   another generator reaches a lower minimum    *)
(*   frozen / off-lattice     a non-trainable entry moved / theta is not   *)
(*                            a lattice angle (every exact minimum is)     *)
(*   ymin                     a reported sub-step minimum differs          *)
(*   cost...                  step_and_cost must return F before the call  *)
(* Which representative of theta mod 2 pi/fq and which of several equally  *)
(* good generators is returned is mechanism: reported as drift only.       *)
(* File: [probs |-> <<problem, ...>>, tr |-> <<[p |-> index, o |-> <<      *)
(*   <<call, x, on, generators, cost, cost is an integer, ys, ys are       *)
(*     integers, exception class, cost-hint>>, ...>>], ...>>]              *)
(* Verdict: <<"V", tid, clause|"ok", call, calls validated, "drift"|"same">>*)
(*     and  <<"C", tid, costclause|"ok", call>>   (two short lines: TLC    *)
(*     wraps long tuples)                                                  *)
(***************************************************************************)
EXTENDS Roto, Json, IOUtils
CONSTANT NTRACES
Data == JsonDeserialize(IOEnv.TRACE_FILE)
VARIABLES tid, l, x, S, gen, verdict, vstep, cverdict, cstep, nval, drift
tvars == <<tid, l, x, S, gen, verdict, vstep, cverdict, cstep, nval, drift>>
Trc == Data.tr[tid]
PR == Data.probs[Trc.p]
ObsAt(j) == [k |-> Trc.o[j][1], x |-> Trc.o[j][2], on |-> Trc.o[j][3], g |-> Trc.o[j][4], cost |-> Trc.o[j][5], cok |-> Trc.o[j][6],
             ys |-> Trc.o[j][7], yok |-> Trc.o[j][8], exc |-> Trc.o[j][9], cng |-> Trc.o[j][10]]

TInit == /\ tid \in 1..NTRACES /\ l = 0 /\ x = <<>> /\ S = <<>> /\ gen = <<>> /\ verdict = "ok" /\ vstep = 0
         /\ cverdict = "ok" /\ cstep = 0 /\ nval = 0 /\ drift = FALSE
TStart == /\ l = 0 /\ x' = X0(PR) /\ S' = S0(PR) /\ gen' = PR.g0 /\ l' = 1
          /\ UNCHANGED <<tid, verdict, vstep, cverdict, cstep, nval, drift>>

\* one sub-step of the sweep, with the implementation's recorded choice
SubCheck(acc, dd, ob) ==
  IF acc.bad # "" THEN acc
  ELSE IF ~PR.tr[dd] THEN (IF ~ob.on[dd] \/ ob.x[dd] # x[dd] THEN [acc EXCEPT !.bad = "frozen"] ELSE acc)
  ELSE LET g == IF PR.kind = "rotoselect" THEN ob.g[dd] ELSE acc.gen[dd] IN
       IF ~ob.on[dd] THEN [acc EXCEPT !.bad = "off-lattice"]
       ELSE IF g \notin 1..3 THEN [acc EXCEPT !.bad = "unknown-generator"]
       ELSE LET a == Amp(PR, acc.S, g, dd) IN
            IF a = 0 THEN [acc EXCEPT !.bad = "degenerate-input"]
            ELSE IF ~Minimiser(PR, g, dd, a, ob.x[dd]) THEN [acc EXCEPT !.bad = "not-a-minimum"]
            ELSE IF SubMinVal(PR, acc.S, acc.gen, g, dd) # BestVal(PR, acc.S, acc.gen, dd) THEN [acc EXCEPT !.bad = "not-the-best-generator"]
            ELSE LET nS == [acc.S EXCEPT ![dd] = -2 * Sgn(a)]
                     ng == [acc.gen EXCEPT ![dd] = g]
                 IN [S |-> nS, gen |-> ng, bad |-> "", ys |-> Append(acc.ys, F(PR, nS, ng)),
                     drift |-> acc.drift \/ ob.x[dd] # Representative(PR, g, dd, a, x[dd]) \/ g # PickGen(PR, acc.S, acc.gen, dd)]
RECURSIVE Sweep(_, _, _)
Sweep(acc, dd, ob) == IF dd > PR.P THEN acc ELSE Sweep(SubCheck(acc, dd, ob), dd + 1, ob)

\* ob.cng: the harness's hint that the returned cost is the objective at the OLD parameters with the NEW generators (names the clause only)
CostClause(ob) ==
  IF ob.k # "cost" THEN "ok"
  ELSE IF ob.cok /\ ob.cost = F(PR, S, gen) THEN "ok"
  ELSE IF ob.cng THEN "cost-at-new-generators"
  ELSE "cost"
TStep ==
  /\ l >= 1 /\ l <= Len(Trc.o)
  /\ LET ob == ObsAt(l) IN
     IF ob.exc # ""
     THEN /\ verdict' = "raised" /\ vstep' = l /\ l' = Len(Trc.o) + 1 /\ UNCHANGED <<tid, x, S, gen, cverdict, cstep, nval, drift>>
     ELSE IF Len(ob.x) # PR.P \/ Len(ob.on) # PR.P
     THEN /\ verdict' = "shape" /\ vstep' = l /\ l' = Len(Trc.o) + 1 /\ UNCHANGED <<tid, x, S, gen, cverdict, cstep, nval, drift>>
     ELSE \E acc \in {Sweep([S |-> S, gen |-> gen, bad |-> "", ys |-> <<>>, drift |-> FALSE], 1, ob)} :
          \E cc \in {CostClause(ob)} :
          /\ IF cc # "ok" /\ cverdict = "ok" THEN cverdict' = cc /\ cstep' = l ELSE UNCHANGED <<cverdict, cstep>>
          /\ IF acc.bad # ""
             THEN /\ verdict' = acc.bad /\ vstep' = l /\ l' = Len(Trc.o) + 1 /\ UNCHANGED <<x, S, gen, nval, drift>>
             ELSE IF PR.kind = "rotosolve" /\ ob.k = "cost" /\ (~ob.yok \/ ob.ys # acc.ys)
             THEN /\ verdict' = "ymin" /\ vstep' = l /\ l' = Len(Trc.o) + 1 /\ UNCHANGED <<x, S, gen, nval, drift>>
             ELSE /\ x' = ob.x /\ S' = acc.S /\ gen' = acc.gen /\ nval' = nval + 1 /\ drift' = (drift \/ acc.drift)
                  /\ l' = l + 1 /\ UNCHANGED <<verdict, vstep>>
          /\ UNCHANGED tid
TDone == /\ l = Len(Trc.o) + 1
         /\ PrintT(<<"V", tid, verdict, vstep, nval, IF drift THEN "drift" ELSE "same">>)
         /\ PrintT(<<"C", tid, cverdict, cstep>>)
         /\ l' = l + 1
         /\ UNCHANGED <<tid, x, S, gen, verdict, vstep, cverdict, cstep, nval, drift>>
TNext == TStart \/ TStep \/ TDone
=============================================================================
