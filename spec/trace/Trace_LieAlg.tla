---------------------------- MODULE Trace_LieAlg ----------------------------
(***************************************************************************)
(* Trace validation for C55.  Each record is one call of a Lie-algebra     *)
(* tool of PennyLane with its OUTPUT, as exact real Pauli sentences        *)
(* (terms with dyadic coefficients).  All fields are always present:       *)
(*  [kind, n, A, B, exact, f, variant, kept, qans, inv, wire, kidx, midx,  *)
(*   status, chk, closed]                                                  *)
(*  kind "closure"  A = basis returned by lie_closure, B = the generators  *)
(*      clauses: A linearly independent; every generator in span A; every  *)
(*      commutator of two elements of A in span A.  Then the MODEL closure *)
(*      (nested commutators with the generators until nothing new, as      *)
(*      documented) is run step by step; its dimension is reported next to *)
(*      the verdict ("dim-same" / "dim-differs": a closed span containing  *)
(*      the generators contains the Lie closure, so a difference means a   *)
(*      non-minimal answer; reported, not part of the statement).          *)
(*  kind "sc"  A = basis g, f[a][b] = sequence of <<c, num, den>>: the     *)
(*      non-zero structure constants f^c_{a,b} = num/den returned by       *)
(*      structure_constants (adjoint_rep[c, a, b]), variant "orth" (the    *)
(*      default, assumes an orthogonal basis) or "nonorth".  Clauses:      *)
(*      antisymmetry, and for all a < b                                    *)
(*          [i G_a, i G_b] = sum_c f^c_{a,b} i G_c,                        *)
(*      i.e. sum_c f^c_{a,b} G_c = i [G_a, G_b] exactly.  An "orth" record *)
(*      on a non-orthogonal basis is outside the documented precondition   *)
(*      ("skip-not-orthogonal").                                           *)
(*  kind "vspace"  A = sentences handed to PauliVSpace one after the       *)
(*      other, kept[j] = whether the j-th was added to the basis, B =      *)
(*      query sentences, qans[j] = answer of is_independent.  Clauses:     *)
(*      kept[j] <=> A[j] is linearly independent of A[1..j-1]; qans[j] <=> *)
(*      B[j] is not in span A (rational linear algebra).                   *)
(*  kind "cartan"  A = algebra basis g, inv / wire = involution and the    *)
(*      position of its wire, kidx / midx = indices returned in k / m by   *)
(*      cartan_decomp, status "ok" | "raised", chk = answer of             *)
(*      check_cartan_decomp ("true"/"false"/"na"), closed = g is a closed  *)
(*      algebra.  Clauses: if every element is an eigenvector of theta the *)
(*      call must not raise, k = the +1 eigenvectors and m = the -1        *)
(*      eigenvectors in order; on a closed algebra [k,k] in k, [k,m] in m, *)
(*      [m,m] in k; chk equals the truth of these three inclusions.        *)
(*      Elements that are not eigenvectors are outside the documented      *)
(*      assumption ("skip-not-eigenbasis").                                *)
(*  kind "cartan_check"  A = k, B = m (arbitrary lists), chk as above.     *)
(*  kind "center"  A = a basis of Pauli words, kidx = indices returned by  *)
(*      center; expected: the words commuting with all others (evidence    *)
(*      only: center is not part of the statement).                        *)
(* One element is processed per TLC step; the verdict <<"V", tid, verdict, *)
(* aux>> is printed for every record.                                      *)
(***************************************************************************)
EXTENDS LieAlg, Json, IOUtils
CONSTANT NTRACES
Traces == JsonDeserialize(IOEnv.TRACE_FILE)
VARIABLES tid, pc, i, es, fs, rows, rows2, mb, acc, rel
vars == <<tid, pc, i, es, fs, rows, rows2, mb, acc, rel>>
Tr == Traces[tid]
Init == /\ tid \in 1..NTRACES /\ pc = "start" /\ i = 0 /\ es = <<>> /\ fs = <<>> /\ rows = <<>> /\ rows2 = <<>> /\ mb = <<>>
        /\ acc = "" /\ rel = TRUE

TermsOK(ts, n) == \A k \in DOMAIN ts : /\ Len(ts[k].w) = n /\ \A j \in 1..n : ts[k].w[j] \in 0..3
                                        /\ ts[k].c[2] = 0
ListOK(L, n) == \A k \in DOMAIN L : TermsOK(L[k], n)
Sentences(L) == TLCEval([k \in DOMAIN L |-> SFromTerms(L[k])])
Goto(p, j) == pc' = p /\ i' = j
Fail(msg) == acc' = msg /\ pc' = "end" /\ UNCHANGED <<tid, i, es, fs, rows, rows2, mb, rel>>
Keep == UNCHANGED <<tid, es, fs, rows, rows2, mb, acc, rel>>

\* -------------------------------------------------------------------- start
FirstPhase(k) == CASE k = "closure" -> "E" [] k = "sc" -> "S0" [] k = "vspace" -> "V" [] k = "cartan" -> "K0"
                   [] k = "cartan_check" -> "K2" [] k = "center" -> "Z"
Start == /\ pc = "start"
         /\ IF ~Tr.exact THEN Fail("inexact-coefficient")
            ELSE IF ~(ListOK(Tr.A, Tr.n) /\ ListOK(Tr.B, Tr.n)) THEN Fail("malformed-output")
            ELSE \E a \in {Sentences(Tr.A)} : \E b \in {Sentences(Tr.B)} :
                 IF Tr.kind \in {"closure", "sc", "cartan", "center"} /\ \E k \in DOMAIN a : SIsZero(a[k]) THEN Fail("zero-element")
                 ELSE /\ es' = (IF Tr.kind = "sc" THEN a ELSE TLCEval([k \in DOMAIN a |-> SPrimV(a[k])]))
                      /\ fs' = TLCEval([k \in DOMAIN b |-> SPrimV(b[k])])
                      /\ Goto(FirstPhase(Tr.kind), 1) /\ UNCHANGED <<tid, rows, rows2, mb, acc, rel>>

\* ------------------------------------------------------------------ closure
\* E: the returned elements are linearly independent (build the echelon, one element per step)
StepE == /\ pc = "E"
         /\ IF i > Len(es) THEN Goto("G", 1) /\ Keep
            ELSE \E r \in {Insert(rows, es[i])} :
                 IF r.ovf THEN Fail("skip-arithmetic-bound")
                 ELSE IF ~r.indep THEN Fail("output-linearly-dependent")
                 ELSE rows' = r.rows /\ Goto("E", i + 1) /\ UNCHANGED <<tid, es, fs, rows2, mb, acc, rel>>
\* G: the span contains the generators
StepG == /\ pc = "G"
         /\ \E o \in {Outcome({Reduce(fs[k], rows) : k \in DOMAIN fs})} :
               IF o = "ovf" THEN Fail("skip-arithmetic-bound") ELSE IF o = "zero" THEN Goto("C", 1) /\ Keep ELSE Fail("generator-not-in-span")
\* C: closed under commutators (element i against all later elements per step)
StepC == /\ pc = "C"
         /\ IF i > Len(es) THEN Goto("M0", 1) /\ Keep
            ELSE \E o \in {Outcome({Reduce(IBracket(es[i], es[b]), rows) : b \in (i + 1)..Len(es)})} :
                 IF o = "ovf" THEN Fail("skip-arithmetic-bound") ELSE IF o = "zero" THEN Goto("C", i + 1) /\ Keep
                 ELSE Fail("not-closed-under-commutators")
\* M: the model closure.  state: rows2 = echelon of the model basis mb
RECURSIVE AddAll(_, _, _, _)
AddAll(st, x, gens, j) == IF j > Len(gens) \/ st.ovf THEN st ELSE
   Bind(SPrim(IBracket(x, gens[j])), LAMBDA cm : Bind(Insert(st.rows, cm), LAMBDA r :
        AddAll(IF r.ovf THEN [st EXCEPT !.ovf = TRUE] ELSE IF r.indep THEN [rows |-> r.rows, basis |-> Append(st.basis, cm), ovf |-> FALSE] ELSE st, x, gens, j + 1)))
RECURSIVE AddGens(_, _, _)
AddGens(st, gens, j) == IF j > Len(gens) \/ st.ovf THEN st ELSE
   Bind(Insert(st.rows, gens[j]), LAMBDA r : AddGens(IF r.ovf THEN [st EXCEPT !.ovf = TRUE] ELSE IF r.indep THEN [rows |-> r.rows, basis |-> Append(st.basis, gens[j]), ovf |-> FALSE] ELSE st, gens, j + 1))
StepM0 == /\ pc = "M0"
          /\ \E st \in {AddGens([rows |-> <<>>, basis |-> <<>>, ovf |-> FALSE], fs, 1)} :
                  IF st.ovf THEN rel' = FALSE /\ Goto("end", 0) /\ UNCHANGED <<tid, es, fs, rows, rows2, mb, acc>>
                  ELSE rows2' = st.rows /\ mb' = st.basis /\ Goto("M", 1) /\ UNCHANGED <<tid, es, fs, rows, acc, rel>>
StepM == /\ pc = "M"
         /\ IF i > Len(mb) THEN Goto("end", 0) /\ Keep
            ELSE \E st \in {AddAll([rows |-> rows2, basis |-> mb, ovf |-> FALSE], mb[i], fs, 1)} :
                 IF st.ovf THEN rel' = FALSE /\ Goto("end", 0) /\ UNCHANGED <<tid, es, fs, rows, rows2, mb, acc>>
                 ELSE rows2' = st.rows /\ mb' = st.basis /\ Goto("M", i + 1) /\ UNCHANGED <<tid, es, fs, rows, acc, rel>>

\* ------------------------------------------------------ structure constants
FShapeOK == Len(Tr.f) = Len(es) /\ \A a \in DOMAIN Tr.f : Len(Tr.f[a]) = Len(es) /\
            \A b \in DOMAIN Tr.f[a] : \A k \in DOMAIN Tr.f[a][b] : Tr.f[a][b][k][1] \in 1..Len(es) /\ Tr.f[a][b][k][3] > 0
StepS0 == /\ pc = "S0"
          /\ IF ~FShapeOK THEN Fail("malformed-structure-constants")
             ELSE IF Tr.variant = "orth" /\ ~Orthogonal(es) THEN Fail("skip-not-orthogonal")
             ELSE Goto("S", 1) /\ Keep
EntrySet(q) == {<<q[k][1], q[k][2], q[k][3]>> : k \in DOMAIN q}
NegEntrySet(q) == {<<q[k][1], -q[k][2], q[k][3]>> : k \in DOMAIN q}
Reproduces(a, b) == Bind(Tr.f[a][b], LAMBDA q :
   Bind(LET D[k \in 0..Len(q)] == IF k = 0 THEN 1 ELSE LLcm(D[k-1], q[k][3]) IN D[Len(q)], LAMBDA L :
   Bind(LET S[k \in 0..Len(q)] == IF k = 0 THEN SZero ELSE SAdd(S[k-1], SScale(GdInt(q[k][2] * (L \div q[k][3])), es[q[k][1]])) IN S[Len(q)], LAMBDA lhs :
        SEq(lhs, SScale(GdInt(L), IBracket(es[a], es[b]))))))
StepS == /\ pc = "S"
         /\ IF i > Len(es) THEN Goto("end", 0) /\ Keep
            ELSE IF Tr.f[i][i] # <<>> \/ \E b \in DOMAIN es : EntrySet(Tr.f[i][b]) # NegEntrySet(Tr.f[b][i]) THEN Fail("not-antisymmetric")
            ELSE IF \A b \in (i + 1)..Len(es) : Reproduces(i, b) THEN Goto("S", i + 1) /\ Keep
            ELSE Fail("commutator-not-reproduced")

\* ------------------------------------------------------------------- vspace
StepV == /\ pc = "V"
         /\ IF i > Len(es) THEN Goto("Q", 1) /\ Keep
            ELSE \E r \in {Insert(rows, es[i])} :
                 IF r.ovf THEN Fail("skip-arithmetic-bound")
                 ELSE IF r.indep # Tr.kept[i] THEN Fail(IF r.indep THEN "independent-sentence-rejected" ELSE "dependent-sentence-added")
                 ELSE rows' = r.rows /\ Goto("V", i + 1) /\ UNCHANGED <<tid, es, fs, rows2, mb, acc, rel>>
StepQ == /\ pc = "Q"
         /\ \E qr \in {TLCEval([k \in DOMAIN fs |-> Reduce(fs[k], rows)])} :
               IF \E k \in DOMAIN qr : SIsOvf(qr[k]) THEN Fail("skip-arithmetic-bound")
               ELSE IF \A k \in DOMAIN qr : (~SIsZero(qr[k])) = Tr.qans[k] THEN Goto("end", 0) /\ Keep
               ELSE Fail(IF \E k \in DOMAIN qr : Tr.qans[k] /\ SIsZero(qr[k]) THEN "is_independent-true-for-dependent" ELSE "is_independent-false-for-independent")

\* ------------------------------------------------------------------- cartan
IdxWhere(sg, v) == SelectSeq([k \in 1..Len(es) |-> k], LAMBDA k : sg[k] = v)
StepK0 == /\ pc = "K0"
          /\ \E sg \in {TLCEval([k \in DOMAIN es |-> EigSign(Tr.inv, Tr.wire, es[k])])} :
             IF \E k \in DOMAIN es : \E w \in DOMAIN es[k] : ~InDomain(Tr.inv, Tr.wire, w) THEN Fail("skip-outside-swap-domain")
             ELSE IF \E k \in DOMAIN sg : sg[k] = 0 THEN Fail(IF Tr.status = "raised" THEN "skip-not-eigenbasis-raised" ELSE "skip-not-eigenbasis")
             ELSE IF Tr.status = "raised" THEN Fail("raised-on-eigenbasis")
             ELSE IF Tr.kidx # IdxWhere(sg, 1) \/ Tr.midx # IdxWhere(sg, -1) THEN Fail("wrong-partition")
             ELSE /\ es' = [k \in DOMAIN Tr.kidx |-> es[Tr.kidx[k]]] /\ fs' = [k \in DOMAIN Tr.midx |-> es[Tr.midx[k]]]
                  /\ Goto("K2", 1) /\ UNCHANGED <<tid, rows, rows2, mb, acc, rel>>
\* K2 / K3: echelons of k (rows) and m (rows2); dependent elements are skipped
StepK2 == /\ pc = "K2"
          /\ IF i > Len(es) THEN Goto("K3", 1) /\ Keep
             ELSE \E r \in {Insert(rows, es[i])} : IF r.ovf THEN Fail("skip-arithmetic-bound")
                  ELSE rows' = r.rows /\ Goto("K2", i + 1) /\ UNCHANGED <<tid, es, fs, rows2, mb, acc, rel>>
StepK3 == /\ pc = "K3"
          /\ IF i > Len(fs) THEN Goto("R", 1) /\ Keep
             ELSE \E r \in {Insert(rows2, fs[i])} : IF r.ovf THEN Fail("skip-arithmetic-bound")
                  ELSE rows2' = r.rows /\ Goto("K3", i + 1) /\ UNCHANGED <<tid, es, fs, rows, mb, acc, rel>>
\* R: element i of k ++ m against all later ones; [k,k] in k, [k,m] in m, [m,m] in k
El(j) == IF j <= Len(es) THEN es[j] ELSE fs[j - Len(es)]
InK(j) == j <= Len(es)
StepR == /\ pc = "R"
         /\ IF i > Len(es) + Len(fs) THEN
                 /\ acc' = IF Tr.kind = "cartan" /\ Tr.closed /\ ~rel THEN "cartan-relations-violated"
                           ELSE IF Tr.chk = "na" \/ ((Tr.chk = "true") = rel) THEN ""
                           ELSE IF rel THEN "check_cartan_decomp-false-for-valid" ELSE "check_cartan_decomp-true-for-invalid"
                 /\ Goto("end", 0) /\ UNCHANGED <<tid, es, fs, rows, rows2, mb, rel>>
            ELSE \E o \in {Outcome({Reduce(IBracket(El(i), El(j)), IF InK(i) = InK(j) THEN rows ELSE rows2) : j \in (i + 1)..(Len(es) + Len(fs))})} :
                 IF o = "ovf" THEN Fail("skip-arithmetic-bound")
                 ELSE rel' = (rel /\ o = "zero") /\ Goto("R", i + 1) /\ UNCHANGED <<tid, es, fs, rows, rows2, mb, acc>>

\* ------------------------------------------------------------------- center
IsWordBasis == \A k \in DOMAIN es : Cardinality(DOMAIN es[k]) = 1
WordOf(k) == CHOOSE w \in DOMAIN es[k] : TRUE
StepZ == /\ pc = "Z"
         /\ IF ~IsWordBasis THEN Fail("skip-not-a-word-basis")
            ELSE IF Tr.kidx = SelectSeq([k \in 1..Len(es) |-> k], LAMBDA k : \A j \in DOMAIN es : PCommutes(WordOf(k), WordOf(j)))
                 THEN Goto("end", 0) /\ Keep ELSE Fail("center-differs")

\* ---------------------------------------------------------------------- end
Aux == IF Tr.kind = "closure" /\ acc = "" THEN (IF ~rel THEN "dim-unknown" ELSE IF Len(mb) = Len(es) THEN "dim-same" ELSE "dim-differs")
       ELSE IF Tr.kind \in {"cartan", "cartan_check"} /\ pc = "end" /\ acc \in {"", "cartan-relations-violated", "check_cartan_decomp-false-for-valid", "check_cartan_decomp-true-for-invalid"}
            THEN (IF rel THEN "relations-hold" ELSE "relations-fail") ELSE "-"
End == /\ pc = "end" /\ PrintT(<<"V", tid, IF acc = "" THEN "ok" ELSE acc, Aux>>) /\ pc' = "done" /\ UNCHANGED <<tid, i, es, fs, rows, rows2, mb, acc, rel>>
Next == Start \/ StepE \/ StepG \/ StepC \/ StepM0 \/ StepM \/ StepS0 \/ StepS \/ StepV \/ StepQ \/ StepK0 \/ StepK2 \/ StepK3 \/ StepR \/ StepZ \/ End
\* model invariants: echelons stay triangular; the model basis has as many elements as its echelon has rows
EchelonInv == EchelonOK(rows) /\ EchelonOK(rows2)
ModelInv == (pc \in {"M", "end"} /\ Tr.kind = "closure" /\ mb # <<>> /\ rel) => Len(mb) = Len(rows2)
=============================================================================
