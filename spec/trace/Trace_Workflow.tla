--------------------------- MODULE Trace_Workflow ----------------------------
(***************************************************************************)
(* Trace validation of the composed execution workflow.  A trace is a      *)
(* sequence of events recorded from real qp.execute calls on default.qubit *)
(* behind a logging device wrapper, a shared cache dict and a Tracker:     *)
(*   [e |-> "toggle"]                                                       *)
(*   [e |-> "submit", batch |-> <<[key, shots, fan]>>, cache |-> BOOLEAN,   *)
(*    dev |-> <<device calls: <<circuit ids>> >>, exec |-> executions total *)
(*    after the call, batches |-> batches total, out |-> routed ids]        *)
(* The spec runs Workflow!Submit on the same inputs and decides W1-W4 on   *)
(* the recorded observations.                                               *)
(***************************************************************************)
EXTENDS Workflow, Json, IOUtils
CONSTANT NTRACES
Traces == JsonDeserialize(IOEnv.TRACE_FILE)
VARIABLES tid, l, bad
Tr == Traces[tid]
TInit == tid \in 1..NTRACES /\ l = 1 /\ bad = "" /\ Init
Ev == Tr[l]
ToTape(r) == [key |-> r.key, shots |-> r.shots, fan |-> r.fan]
TToggle == Ev.e = "toggle" /\ Toggle /\ l' = l + 1 /\ UNCHANGED <<tid, bad>>
TSubmit ==
  /\ Ev.e = "submit"
  /\ LET b == [i \in 1..Len(Ev.batch) |-> ToTape(Ev.batch[i])] IN
     /\ Submit(b, Ev.cache)
     /\ LET expDev == IF Len(devlog') > Len(devlog) THEN <<devlog'[Len(devlog')]>> ELSE <<>> IN
        bad' = IF bad # "" THEN bad
               ELSE IF Flatten(Ev.dev) # Flatten(expDev) THEN "W1-device-received-wrong-circuits"
               ELSE IF Ev.exec # totals'.executions THEN "W2-tracker-executions"
               ELSE IF Ev.batches # totals'.batches THEN "W2-tracker-batches"
               ELSE IF Ev.out # out'[Len(out')] THEN "W3-results-misrouted"
               ELSE ""
  /\ l' = l + 1 /\ UNCHANGED tid
TDone == l = Len(Tr) + 1 /\ PrintT(<<"V", tid, IF bad = "" THEN "ok" ELSE bad>>) /\ l' = l + 1 /\ UNCHANGED <<vars, tid, bad>>
TNext == (l <= Len(Tr) /\ (TToggle \/ TSubmit)) \/ TDone
=============================================================================
