----------------------------- MODULE Trace_Reps -----------------------------
(***************************************************************************)
(* Trace specification for C01: all representations an operator exposes    *)
(* describe the one linear map Sem(op) (Ops.tla over the reference table   *)
(* Gates.tla), and the availability flags tell the truth.                  *)
(* Each case of the batch file is one operator instance                    *)
(*   [n, emit, a: program of the instance,                                 *)
(*    reps: << [kind, avail, produced, exc, rel, b, ev, ps] >>]            *)
(* one record per representation the driver asked for:                     *)
(*   kind      "matrix" | "sparse_matrix" | "decomposition" |              *)
(*             "diagonalizing_gates" | "generator" | "pauli_rep"           *)
(*   avail     what the operator REPORTED (has_matrix, ...), 0/1           *)
(*   produced  whether the call returned a value, 0/1                      *)
(*   exc       class name of the exception raised ("" if none)             *)
(*   rel/b/ev/ps   the produced data where it has an exact image:          *)
(*      "exact"  b = program of the decomposition:  Sem(b) = Sem(a)        *)
(*      "diag"   b = program D of the diagonalizing gates, ev = eigenvalues*)
(*               (ring scalars):  D^dagger diag(ev) D = Sem(a); judged for *)
(*               normal Sem(a) only (otherwise no such pair can exist)     *)
(*      "pauli"  ps = Pauli sentence <<[c, w]>>:  SUM c * P_w = Sem(a)     *)
(*      "emitx"  TLC prints the exact Sem(b) (float bridge: eigenvalues /  *)
(*               generator prefactors outside the ring)                    *)
(*      "none"   numeric slot only (dense / sparse matrix: compared by the *)
(*               harness with the emitted exact Sem(a))                    *)
(* Action Represent(inst, kind, data) is enabled iff                       *)
(*   avail => produced,   ~avail => the documented undefined-              *)
(*   representation error was raised,   and DenotedBy(kind, data) = Sem.   *)
(* One verdict <<"V", tid, s, clause, errA, errB>> per representation.     *)
(***************************************************************************)
EXTENDS Ops, Json, IOUtils
CONSTANT NCASES
Cases == JsonDeserialize(IOEnv.TRACE_FILE)
VARIABLES tid, side, pc, stack, err, Ua, errA
vars == <<tid, side, pc, stack, err, Ua, errA>>
Case == Cases[tid]
DocErr(kind) == CASE kind = "matrix" -> "MatrixUndefinedError"
                  [] kind = "sparse_matrix" -> "SparseMatrixUndefinedError"
                  [] kind = "decomposition" -> "DecompositionUndefinedError"
                  [] kind = "diagonalizing_gates" -> "DiagGatesUndefinedError"
                  [] kind = "generator" -> "GeneratorUndefinedError"
                  [] OTHER -> ""
\* "available => produced, unavailable => documented error" (pauli_rep has no error: None means unavailable)
FlagClause(r) ==
   IF r.kind = "pauli_rep" THEN "ok"
   ELSE IF r.avail = 1 THEN (IF r.produced = 1 THEN "ok" ELSE "available-not-produced")
   ELSE IF r.produced = 1 THEN "unavailable-but-produced"
   ELSE IF r.exc = DocErr(r.kind) THEN "ok" ELSE "unavailable-wrong-error"
NeedsB(r) == r.rel \in {"exact", "diag", "emitx"}
Init == /\ tid \in 1..NCASES /\ side = 0 /\ pc = 1
        /\ stack = <<>> /\ err = "ok" /\ Ua = <<>> /\ errA = "ok"
Prog(s) == IF s = 0 THEN Case.a ELSE IF NeedsB(Case.reps[s]) THEN Case.reps[s].b ELSE <<>>
Running == side <= Len(Case.reps) /\ err = "ok" /\ pc <= Len(Prog(side))
Finished == side <= Len(Case.reps) /\ (err # "ok" \/ pc > Len(Prog(side)))
Step == /\ Running
        /\ LET ins == Prog(side)[pc] IN
           \E g \in {Guard(stack, ins, Case.n)} :
              IF g = "ok" THEN stack' = SemStep(stack, ins, Case.n) /\ err' = "ok"
              ELSE stack' = stack /\ err' = g
        /\ pc' = pc + 1 /\ UNCHANGED <<tid, side, Ua, errA>>
Final == IF err # "ok" THEN err ELSE IF Len(stack) # 1 THEN "stack-not-singleton"
         ELSE IF ~InBound(stack[1]) THEN "overflow" ELSE "ok"
EndA == /\ side = 0 /\ Finished
        /\ \E f \in {Final} :
             /\ errA' = f
             /\ Ua' = IF f = "ok" THEN stack[1] ELSE <<>>
             /\ IF f = "ok" /\ Case.emit = 1 THEN PrintT(ToJson([tid |-> tid, u |-> stack[1]])) ELSE TRUE
        /\ side' = 1 /\ pc' = 1 /\ stack' = <<>> /\ err' = "ok" /\ UNCHANGED tid
\* DenotedBy(kind, data) = Sem(inst)
IsNormal(aa) == Bind(aa, LAMBDA a : Bind(Dagger(a), LAMBDA d : EqExact(MatMul(a, d), MatMul(d, a))))
SemClause(r, ub) ==
   CASE r.rel = "exact" -> IF EqExact(Ua, ub) THEN "ok" ELSE "not-equal"
     [] r.rel = "diag"  -> IF ~IsNormal(Ua) THEN "not-normal"     \* no unitary eigendecomposition can exist: not judged
                           ELSE IF Len(r.ev) # 2^Case.n THEN "eigenvalue-count"
                           ELSE IF EqExact(FromEigen(ub, r.ev), Ua) THEN "ok" ELSE "eigendecomposition-not-equal"
     [] r.rel = "pauli" -> IF EqExact(PauliSumM(r.ps, Case.n), Ua) THEN "ok" ELSE "pauli-sentence-not-equal"
     [] OTHER -> "ok"
EndB == /\ side >= 1 /\ Finished
        /\ LET r == Case.reps[side] IN
           \E f \in {IF NeedsB(r) THEN Final ELSE "ok"} : \E fc \in {FlagClause(r)} :
             /\ PrintT(<<"V", tid, side,
                      IF fc # "ok" THEN fc
                      ELSE IF r.rel = "none" THEN "ok"
                      ELSE IF errA # "ok" THEN "a-not-evaluated" ELSE IF f # "ok" THEN "b-not-evaluated"
                      ELSE SemClause(r, IF NeedsB(r) THEN stack[1] ELSE <<>>), errA, f>>)
             /\ IF r.rel = "emitx" /\ f = "ok" THEN PrintT(ToJson([tid |-> tid, s |-> side, x |-> stack[1]])) ELSE TRUE
        /\ side' = side + 1 /\ pc' = 1 /\ stack' = <<>> /\ err' = "ok" /\ UNCHANGED <<tid, Ua, errA>>
Next == Step \/ EndA \/ EndB
=============================================================================
