--------------------------- MODULE Trace_FiniteDiff ---------------------------
(***************************************************************************)
(* Trace validation for C36.  One record per call of finite_diff_coeffs:   *)
(* (n, a, strategy) and the coefficients and shifts the IMPLEMENTATION     *)
(* reported, as exact rationals <<num, den>> (the driver converts each     *)
(* float to the nearest small-denominator rational and vouches for the     *)
(* round trip), or the exception class.  TLC decides the moment conditions *)
(*      sum_i c_i s_i^j = j! [j = n]   for every j < n + a                 *)
(* exactly on the reported numbers (FiniteDiff!FirstBadMoment).            *)
(* A raise is acceptable only for a centered rule of odd accuracy.         *)
(* Verdict: <<"V", tid, "ok" | "unsupported" | clause, j>>.                *)
(***************************************************************************)
EXTENDS FiniteDiff, Json, IOUtils
CONSTANT NTRACES
Traces == JsonDeserialize(IOEnv.TRACE_FILE)
VARIABLES tid, done
tvars == <<tid, done>>
Tr == Traces[tid]
WellFormed(t) == /\ Len(t.coeffs) = Len(t.shifts)
                 /\ \A i \in 1..Len(t.coeffs) : IsRat(t.coeffs[i]) /\ IsRat(t.shifts[i])
                 \* range of the two-limb arithmetic (the driver refuses anything else before it gets here)
                 /\ \A i \in 1..Len(t.shifts) : t.shifts[i][2] <= 20 /\ Abs(t.shifts[i][1]) <= 20
                 /\ CommonDen(t.shifts) <= 20
Verdict(t) ==
  IF t.exc # ""
  THEN IF t.st = "center" /\ t.a % 2 = 1 /\ t.exc = "ValueError" THEN <<"unsupported", -1>> ELSE <<"raised", -1>>
  ELSE IF ~WellFormed(t) THEN <<"malformed", -1>>
  ELSE LET j == FirstBadMoment(t.coeffs, t.shifts, t.n, t.n + t.a) IN
       IF j = -1 THEN <<"ok", -1>> ELSE <<"moment-condition-fails", j>>
TInit == tid \in 1..NTRACES /\ done = FALSE
TNext == /\ ~done /\ done' = TRUE /\ UNCHANGED tid
         /\ LET v == Verdict(Tr) IN PrintT(<<"V", tid, v[1], v[2]>>)
=============================================================================
