------------------------- MODULE Trace_DatasetStore --------------------------
(***************************************************************************)
(* Trace validation for C64.  A trace is a history executed on the real    *)
(* pennylane.data objects and temporary HDF5 files: per call the event     *)
(* parameters, the exception class (if any) and the OBSERVATION made right *)
(* after the call: for every python slot its status and, if open, the      *)
(* value token read back for every attribute through the handle itself     *)
(* (`c`) and through a fresh cache-less wrapper of the same storage (`f`); *)
(* for every path whether the file exists and (if no handle holds it) the  *)
(* tokens read back from it by Dataset.open(path, "copy").  A token is the *)
(* number k of the k-th assigned value, recognised by per-type equality in *)
(* the harness; 0 = a value equal to nothing that was assigned.            *)
(* The spec applies the same call to its own state and compares.  Verdict  *)
(* <<"V", tid, step, clauses, drift>>: step = 0 and clauses = "ok" when    *)
(* every step was explained; otherwise the first failing step and the      *)
(* failing clauses joined by "+":                                          *)
(*   exc          the call raised although the model performs it           *)
(*   src-closed   the source of read() is closed afterwards                 *)
(*   status       a slot is open / closed contrary to the model            *)
(*   stale-view   a handle shows values different from the model while its *)
(*                own storage (fresh wrapper) holds the model's values     *)
(*   content      the storage of an open dataset differs from the model    *)
(*   file-exists / file-content   a file on disk differs from the model    *)
(* A record with chk = FALSE carries no observation (scripted prefix      *)
(* already observed in another trace): only `exc` is decided there.        *)
(* drift = 1 when a call that must fail in the model did not raise (or     *)
(* raised another class) without any observable difference.                *)
(***************************************************************************)
EXTENDS DatasetStore, Json, IOUtils
CONSTANT NTRACES
Traces == JsonDeserialize(IOEnv.TRACE_FILE)
VARIABLES tid, l, ph, bad, badstep, drift
tvars == <<vars, tid, l, ph, bad, badstep, drift>>
Tr == Traces[tid]
Rec == Tr[l]
SeqToSet(s) == {s[i] : i \in 1..Len(s)}
E == [Ev0 EXCEPT !.act = Rec.e.act, !.d = Rec.e.d, !.s = Rec.e.s, !.p = Rec.e.p, !.a = Rec.e.a, !.x = Rec.e.x,
                 !.mode = Rec.e.mode, !.all = Rec.e.all, !.attrs = SeqToSet(Rec.e.attrs), !.ow = Rec.e.ow]

TInit == /\ tid \in 1..NTRACES /\ l = 1 /\ ph = "do" /\ bad = "" /\ badstep = 0 /\ drift = 0 /\ Init

\* compact encodings written by the harness:
\*   contents  <<row_1, ..., row_|A|>> in AttrSeq order, row = <<k, t, inner_1, ..., inner_|A|>>
\*   slot      <<status, contents | 0, fresh view differs?, fresh contents | 0, number of unexpected attribute names>>
\*   path      <<exists, held by an open handle, contents | 0, number of unexpected attribute names>>
NA == Len(AttrSeq)
EqC(o, m) == \A i \in 1..NA : /\ o[i][1] = m[AttrSeq[i]].k /\ o[i][2] = m[AttrSeq[i]].t
                               /\ \A j \in 1..NA : o[i][2 + j] = m[AttrSeq[i]].c[AttrSeq[j]]
Join(s, c) == IF s = "" THEN c ELSE s \o "+" \o c
Add(s, cond, c) == IF cond THEN Join(s, c) ELSE s
ExcClass(err) == IF err = "missing" THEN "FileNotFoundError" ELSE IF err = "exists" THEN "FileExistsError" ELSE ""
OSt(o) == o[1]
OView(o) == o[2]
OFresh(o) == IF o[3] THEN o[4] ELSE o[2]

Clauses ==
  LET O == Rec.obs
      c1 == Add("", Rec.exc # "" /\ ev.err = "", "exc")
      c2 == Add(c1, ev.act = "ReadDS" /\ IsOpen(ev.s) /\ OSt(O.ds[ev.s]) # "open", "src-closed")
      c3 == Add(c2, \E d \in D : OSt(O.ds[d]) # ds[d].st /\ ~(ev.act = "ReadDS" /\ d = ev.s /\ IsOpen(d)), "status")
      both == {d \in D : IsOpen(d) /\ OSt(O.ds[d]) = "open"}
      c4 == Add(c3, \E d \in both : ~EqC(OView(O.ds[d]), View(d)) /\ EqC(OFresh(O.ds[d]), View(d)) /\ O.ds[d][5] = 0, "stale-view")
      c5 == Add(c4, \E d \in both : ~EqC(OFresh(O.ds[d]), View(d)) \/ O.ds[d][5] # 0, "content")
      c6 == Add(c5, \E p \in P : O.files[p][1] # files[p].ex, "file-exists")
      srcGone(p) == ev.act = "ReadDS" /\ IsOpen(ev.s) /\ OSt(O.ds[ev.s]) # "open" /\ ds[ev.s].kind = "file" /\ ds[ev.s].path = p
      c7 == Add(c6, \E p \in P : O.files[p][2] # Held(p) /\ ~srcGone(p), "file-held")
      c8 == Add(c7, \E p \in P : files[p].ex /\ O.files[p][1] /\ ~Held(p) /\ ~O.files[p][2] /\ ~srcGone(p)
                                  /\ (~EqC(O.files[p][3], files[p].c) \/ O.files[p][4] # 0), "file-content")
  IN c8

TDo == /\ ph = "do" /\ l <= Len(Tr) /\ bad = ""
       /\ Rec.e.v = (IF Rec.e.act \in {"Set", "SetIn"} THEN tok ELSE 0)       \* the harness numbers values as the model does
       /\ Do(E) /\ n' = n + 1
       /\ ph' = "chk" /\ UNCHANGED <<tid, l, bad, badstep, drift>>
TChk == /\ ph = "chk"
        /\ LET c == IF Rec.chk THEN Clauses ELSE Add("", Rec.exc # "" /\ ev.err = "", "exc") IN
           /\ bad' = c /\ badstep' = IF c = "" THEN 0 ELSE l
           /\ drift' = IF c = "" /\ ev.err # "" /\ Rec.exc # ExcClass(ev.err) THEN 1 ELSE drift
        /\ l' = IF ev.err # "" THEN Len(Tr) + 1 ELSE l + 1
        /\ ph' = "do" /\ UNCHANGED <<vars, tid>>
TDone == /\ ph = "do" /\ (l = Len(Tr) + 1 \/ bad # "") /\ l <= Len(Tr) + 1
         /\ PrintT(<<"V", tid, badstep, IF bad = "" THEN "ok" ELSE bad, drift>>)
         /\ l' = Len(Tr) + 2 /\ UNCHANGED <<vars, tid, ph, bad, badstep, drift>>
TNext == TDo \/ TChk \/ TDone
=============================================================================
