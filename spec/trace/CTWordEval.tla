----------------------------- MODULE CTWordEval -----------------------------
(***************************************************************************)
(* C15: the EXACT matrix of a Clifford+T word of any length.               *)
(*                                                                         *)
(* A returned approximation is a word over Identity, PauliX/Y/Z, Hadamard, *)
(* S, SX, T, CNOT, CY, CZ, SWAP, ISWAP and adjoints.  Its matrix is        *)
(*      W = e / sqrt2^k,   e a matrix over Z[omega], omega = e^{i pi/4},   *)
(* but the coefficients of e grow like sqrt2^k (k ~ the number of T gates: *)
(* 2^20 already at epsilon = 1e-4, 2^1700 for a Solovay-Kitaev word), far  *)
(* beyond TLC's 32-bit integers and beyond CMat's guard.  Every gate of    *)
(* the alphabet however acts on the rows of e WITHOUT ANY MULTIPLICATION:  *)
(*   - the monomial gates permute rows and multiply them by a power of     *)
(*     omega (a signed rotation of the four coefficients),                 *)
(*   - Hadamard replaces two rows by their sum and difference (k + 1),     *)
(*   - SX replaces them by (1+i) r0 + (1-i) r1 and (1-i) r0 + (1+i) r1     *)
(*     (k + 2), where (1 +- i) x = x +- omega^2 x.                         *)
(* So e is held in a RESIDUE NUMBER SYSTEM: every integer coefficient is   *)
(* the vector of its residues modulo np distinct primes p < 2^30 (sums of  *)
(* two residues stay below 2^31).  The coefficients satisfy |c| <= sqrt2^k *)
(* (all Galois conjugates of a unitary are unitary), so the residues       *)
(* determine e uniquely as soon as the product of the primes exceeds       *)
(* 2 sqrt2^k + 1; the driver chooses np from the number of Hadamard / SX   *)
(* gates and reconstructs the integers (Chinese remainder theorem) - a     *)
(* change of representation, like the decimal printing of a number.        *)
(* The gate table below is transcribed from the documented matrices (first *)
(* wire = most significant bit); the driver cross-checks it against the    *)
(* reference table Gates.tla (CircuitEq) on every word short enough for    *)
(* 32-bit ring arithmetic.                                                 *)
(*                                                                         *)
(* Input: [primes, cases]; case = [n, np, gates: <<[g, adj, w]>>, tk]      *)
(* (g the base name, adj = 1 for Adjoint(g)); tk >= 0 asks whether W is    *)
(* T^tk up to a scalar (one wire).  One TLC step per gate; at the end the  *)
(* case prints [tid, k, e, eq].                                            *)
(***************************************************************************)
EXTENDS Integers, Sequences, TLC, Json, IOUtils
CONSTANT NCASES
Data == JsonDeserialize(IOEnv.TRACE_FILE)
Primes == Data.primes
Cases == Data.cases
VARIABLES tid, pos, e, k
Case == Cases[tid]

\* ---------------------------------------------------------------- residue vectors and Z[omega] elements
RZero(np) == [j \in 1..np |-> 0]
ROne(np) == [j \in 1..np |-> 1]
RAdd(a, b) == [j \in 1..Len(a) |-> (a[j] + b[j]) % Primes[j]]
RSub(a, b) == [j \in 1..Len(a) |-> (a[j] - b[j]) % Primes[j]]
RNeg(a) == [j \in 1..Len(a) |-> (-a[j]) % Primes[j]]
\* element x = <<x0, x1, x2, x3>> meaning x0 + x1 w + x2 w^2 + x3 w^3, w^4 = -1
EZero(np) == <<RZero(np), RZero(np), RZero(np), RZero(np)>>
EOne(np) == <<ROne(np), RZero(np), RZero(np), RZero(np)>>
EAdd(x, y) == [m \in 1..4 |-> RAdd(x[m], y[m])]
ESub(x, y) == [m \in 1..4 |-> RSub(x[m], y[m])]
\* x * w^s
ERot(x, s) == [m \in 1..4 |-> LET src == (m - 1 - s) % 8 IN IF src < 4 THEN x[src + 1] ELSE RNeg(x[src - 3])]
RowRot(r, s) == IF s % 8 = 0 THEN r ELSE [c \in 1..Len(r) |-> ERot(r[c], s)]
RowAdd(r, q) == [c \in 1..Len(r) |-> EAdd(r[c], q[c])]
RowSub(r, q) == [c \in 1..Len(r) |-> ESub(r[c], q[c])]

\* ---------------------------------------------------------------- the gate table
Bit(b, w, n) == (b \div 2^(n - w)) % 2
Flip(b, w, n) == IF Bit(b, w, n) = 0 THEN b + 2^(n - w) ELSE b - 2^(n - w)
Swp(b, u, v, n) == IF Bit(b, u, n) = Bit(b, v, n) THEN b ELSE Flip(Flip(b, u, n), v, n)
Monomial == {"Identity", "PauliX", "PauliY", "PauliZ", "S", "T", "CNOT", "CY", "CZ", "SWAP", "ISWAP"}
Known == Monomial \cup {"Hadamard", "SX"}
\* G|b> = w^Ph |Pm(b)>  (every permutation below is an involution)
Pm(g, w, n, b) ==
  CASE g \in {"Identity", "PauliZ", "S", "T", "CZ"} -> b
    [] g \in {"PauliX", "PauliY"} -> Flip(b, w[1], n)
    [] g \in {"CNOT", "CY"} -> IF Bit(b, w[1], n) = 1 THEN Flip(b, w[2], n) ELSE b
    [] g \in {"SWAP", "ISWAP"} -> Swp(b, w[1], w[2], n)
Ph(g, w, n, b) ==
  CASE g \in {"Identity", "PauliX", "CNOT", "SWAP"} -> 0
    [] g = "PauliZ" -> 4 * Bit(b, w[1], n)
    [] g = "S" -> 2 * Bit(b, w[1], n)
    [] g = "T" -> Bit(b, w[1], n)
    [] g = "PauliY" -> IF Bit(b, w[1], n) = 0 THEN 2 ELSE 6                  \* Y|0> = i|1>, Y|1> = -i|0>
    [] g = "CZ" -> 4 * Bit(b, w[1], n) * Bit(b, w[2], n)
    [] g = "CY" -> IF Bit(b, w[1], n) = 0 THEN 0 ELSE IF Bit(b, w[2], n) = 0 THEN 2 ELSE 6
    [] g = "ISWAP" -> IF Bit(b, w[1], n) = Bit(b, w[2], n) THEN 0 ELSE 2     \* |01> -> i|10>, |10> -> i|01>
\* (G W)[Pm(b)] = w^Ph(b) W[b];  the adjoint of a monomial gate: (G^+ W)[b] = w^-Ph(b) W[Pm(b)]
ApplyMono(m, g, adj, w, n) ==
  [r \in 1..2^n |-> IF adj THEN RowRot(m[Pm(g, w, n, r - 1) + 1], -Ph(g, w, n, r - 1))
                    ELSE LET b == Pm(g, w, n, r - 1) IN RowRot(m[b + 1], Ph(g, w, n, b))]
ApplyH(m, w, n) ==
  [r \in 1..2^n |-> LET q == Flip(r - 1, w[1], n) + 1 IN
                    IF Bit(r - 1, w[1], n) = 0 THEN RowAdd(m[r], m[q]) ELSE RowSub(m[q], m[r])]
\* SX = 1/2 [[1+i, 1-i], [1-i, 1+i]];  adjoint: i <-> -i
ApplySX(m, adj, w, n) ==
  [r \in 1..2^n |-> LET q == Flip(r - 1, w[1], n) + 1  s == IF adj THEN 6 ELSE 2 IN
                    RowAdd(RowAdd(m[r], RowRot(m[r], s)), RowSub(m[q], RowRot(m[q], s)))]
Ident(n, np) == [r \in 1..2^n |-> [c \in 1..2^n |-> IF r = c THEN EOne(np) ELSE EZero(np)]]

Init == /\ tid \in 1..NCASES /\ pos = 1 /\ k = 0
        /\ e = Ident(Cases[tid].n, Cases[tid].np)
Step == /\ pos <= Len(Case.gates)
        /\ LET g == Case.gates[pos]  b == g.g IN
           /\ b \in Known
           /\ e' = CASE b = "Hadamard" -> ApplyH(e, g.w, Case.n)
                     [] b = "SX" -> ApplySX(e, g.adj = 1, g.w, Case.n)
                     [] OTHER -> ApplyMono(e, b, g.adj = 1, g.w, Case.n)
           /\ k' = k + (IF b = "Hadamard" THEN 1 ELSE IF b = "SX" THEN 2 ELSE 0)
        /\ pos' = pos + 1 /\ UNCHANGED tid
\* W = T^tk up to a scalar  <=>  off-diagonal entries vanish and e22 = w^tk e11 (exact: the residues determine the integers)
IsTk(m, j, np) == m[1][2] = EZero(np) /\ m[2][1] = EZero(np) /\ m[2][2] = ERot(m[1][1], j)
Finish == /\ pos = Len(Case.gates) + 1
          /\ PrintT(ToJson([tid |-> tid, k |-> k, e |-> e,
                            eq |-> IF Case.tk < 0 THEN "n/a" ELSE IF IsTk(e, Case.tk, Case.np) THEN "yes" ELSE "no"]))
          /\ pos' = pos + 1 /\ UNCHANGED <<tid, e, k>>
Next == Step \/ Finish
=============================================================================
