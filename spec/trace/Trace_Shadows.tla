--------------------------- MODULE Trace_Shadows ----------------------------
(***************************************************************************)
(* Trace validation for C60 (device side).  One trace = one execution of   *)
(* qp.classical_shadow(wires, seed) on a simulator device:                 *)
(*   [n, ops: <<gate records>>, ws: <<measured wires, register positions   *)
(*    1..n in column order>>, T: shots, shape: <<dims of the returned      *)
(*    tensor>>, isint: the dtype is an integer type,                       *)
(*    samples: <<[r: <<recipes per column>>, b: <<bits per column>>,       *)
(*                c: multiplicity]>>  (the distinct rows with counts),     *)
(*    words: << <<0..3 per column>> >>  Pauli words for the estimator]     *)
(* TLC recomputes the exact state of the circuit one gate per step and     *)
(* decides, per trace:                                                      *)
(*   form      the tensor is (2, T, |ws|) of integers, every recipe is in  *)
(*             {0,1,2}, every bit in {0,1}, the multiplicities total T;    *)
(*   possible  every recorded (recipe, bits) row has NON-ZERO exact        *)
(*             probability under Shadows.tla (recipe 0/1/2 = X/Y/Z, bit 0  *)
(*             = eigenvalue +1): decided exactly in the ring.              *)
(* It also emits, per word, the exact sum over the recorded rows of the    *)
(* per-snapshot estimate tr(Snapshot P) (the harness divides by T and      *)
(* compares with qp.shadow_expval run with the same seeds).                *)
(***************************************************************************)
EXTENDS Shadows, Json, IOUtils
CONSTANT NCASES
Cases == JsonDeserialize(IOEnv.TRACE_FILE)
VARIABLES tid, tpos, tpsi
Tr == Cases[tid]
Init == /\ tid \in 1..NCASES /\ tpos = 1 /\ tpsi = BasisCol(2^Cases[tid].n, 0)
Step == /\ tpos <= Len(Tr.ops)
        /\ tpsi' = ApplyGate(tpsi, GateM(Tr.ops[tpos]), Tr.ops[tpos].w, Tr.n)
        /\ tpos' = tpos + 1 /\ UNCHANGED tid

NMeas == Len(Tr.ws)
RowForm(s) == /\ Len(s.r) = NMeas /\ Len(s.b) = NMeas /\ s.c >= 1
              /\ \A q \in 1..NMeas : s.r[q] \in 0..2 /\ s.b[q] \in 0..1
Total == LET S[q \in 0..Len(Tr.samples)] == IF q = 0 THEN 0 ELSE S[q-1] + Tr.samples[q].c IN S[Len(Tr.samples)]
Form == /\ Tr.shape = <<2, Tr.T, NMeas>> /\ Tr.isint
        /\ \A q \in 1..Len(Tr.samples) : RowForm(Tr.samples[q])
        /\ Total = Tr.T
Possible == \A q \in 1..Len(Tr.samples) : ~SIsZero(CondProb(tpsi, Tr.ws, Tr.samples[q].r, Tr.samples[q].b, Tr.n))
FirstImpossible == CHOOSE q \in 1..Len(Tr.samples) : SIsZero(CondProb(tpsi, Tr.ws, Tr.samples[q].r, Tr.samples[q].b, Tr.n))
EstSum(word) == LET S[q \in 0..Len(Tr.samples)] == IF q = 0 THEN SZero ELSE
                      SAdd(S[q-1], SScale(Tr.samples[q].c, Estimate(Tr.samples[q].r, Tr.samples[q].b, word)))
                IN S[Len(Tr.samples)]
Judge == /\ tpos = Len(Tr.ops) + 1
         /\ LET verdict == IF ~Form THEN "form" ELSE IF ~Possible THEN "impossible_outcome" ELSE "ok" IN
            /\ PrintT(<<"V", tid, verdict>>)
            /\ PrintT(ToJson([tid |-> tid, verdict |-> verdict,
                              bad |-> IF verdict = "impossible_outcome" THEN FirstImpossible ELSE 0,
                              sums |-> IF verdict = "ok" THEN [q \in 1..Len(Tr.words) |-> EstSum(Tr.words[q])] ELSE <<>>]))
         /\ tpos' = tpos + 1 /\ tpsi' = <<>> /\ UNCHANGED tid
Next == Step \/ Judge
=============================================================================
